import StorageModel.C09.CheckOnly
/-
  C09 — soundness and completeness of the check-only report list against `inconsistencies`.
-/
namespace StorageModel.C09
open StorageModel

/-! ### reading the state -/

theorem ent_of_mem {s : St} (hwf : s.WF) {st : Name} {id : Id} {e : Ent} (h : (id, e) ∈ s.ents st) :
    s.ent st id = some e := get_of_mem_nodup (hwf.ents st) h

theorem mem_of_ent {s : St} {st : Name} {id : Id} {e : Ent} (h : s.ent st id = some e) : (id, e) ∈ s.ents st :=
  get_some_mem h

theorem mem_ids {s : St} {st : Name} {id : Id} : id ∈ s.ids st ↔ ∃ e, (id, e) ∈ s.ents st := by
  unfold St.ids
  constructor
  · intro h
    obtain ⟨p, hp, rfl⟩ := List.mem_map.1 h
    exact ⟨p.2, hp⟩
  · rintro ⟨e, h⟩
    exact List.mem_map.2 ⟨(id, e), h, rfl⟩

theorem present_iff {s : St} {st : Name} {id : Id} : s.present st id = true ↔ ∃ e, (id, e) ∈ s.ents st := by
  unfold St.present St.ent
  rw [get_isSome_iff]
  constructor
  · rintro ⟨p, hp, rfl⟩; exact ⟨p.2, hp⟩
  · rintro ⟨e, h⟩; exact ⟨(id, e), h, rfl⟩

theorem present_of_mem {s : St} {st : Name} {id : Id} {e : Ent} (h : (id, e) ∈ s.ents st) :
    s.present st id = true := present_iff.2 ⟨e, h⟩

theorem evalT_of_mem {s : St} (hwf : s.WF) {st : Name} {id : Id} {e : Ent} (h : (id, e) ∈ s.ents st) (f : Name) :
    s.evalT st id f = e.fields f := by
  unfold St.evalT; rw [ent_of_mem hwf h]

theorem evalB_of_mem {s : St} (hwf : s.WF) {st : Name} {id : Id} {e : Ent} (h : (id, e) ∈ s.ents st) (f : Name) :
    s.evalB st id f = (e.fields f).bytes := by
  unfold St.evalB; rw [evalT_of_mem hwf h]

theorem setOf_of_mem {s : St} (hwf : s.WF) {st : Name} {id : Id} {e : Ent} (h : (id, e) ∈ s.ents st) (f : Name) :
    s.setOf st id f = e.sets f := by
  unfold St.setOf; rw [ent_of_mem hwf h]

theorem mem_setOf {s : St} {st : Name} {id : Id} {f : Name} {x : Bytes} (h : x ∈ s.setOf st id f) :
    ∃ e, (id, e) ∈ s.ents st ∧ x ∈ e.sets f := by
  unfold St.setOf at h
  split at h
  · next e he => exact ⟨e, mem_of_ent he, h⟩
  · cases h

/-! ### the images -/

theorem mem_scalarImage {s : St} {st f : Name} {v : Bytes} {id : Id} :
    (v, id) ∈ scalarImage s st f ↔ ∃ e, (id, e) ∈ s.ents st ∧ e.fields f = .str v ∧ v ≠ [] := by
  unfold scalarImage
  rw [List.mem_filterMap]
  constructor
  · rintro ⟨p, hp, h⟩
    split at h
    · next w hw =>
      split at h
      · cases h
      · next hne => cases h; exact ⟨p.2, hp, hw, hne⟩
    · cases h
  · rintro ⟨e, he, hf, hne⟩
    exact ⟨(id, e), he, by simp [hf, hne]⟩

theorem mem_listImage {s : St} {st f : Name} {v : Bytes} {id : Id} :
    (v, id) ∈ listImage s st f ↔ ∃ e, (id, e) ∈ s.ents st ∧ v ∈ e.sets f := by
  unfold listImage
  rw [List.mem_flatMap]
  constructor
  · rintro ⟨p, hp, h⟩
    obtain ⟨w, hw, e⟩ := List.mem_map.1 h
    cases e
    exact ⟨p.2, hp, hw⟩
  · rintro ⟨e, he, hv⟩
    exact ⟨(id, e), he, List.mem_map.2 ⟨v, hv, rfl⟩⟩

theorem mem_setxPairs {s : St} {st f : Name} {k : Bytes} {id : Id} :
    (k, id) ∈ setxPairs s st f ↔ ∃ l, (k, SVal.ids l) ∈ s.setx st f ∧ id ∈ l := by
  unfold setxPairs
  rw [List.mem_flatMap]
  constructor
  · rintro ⟨kv, hkv, h⟩
    split at h
    · next l hl =>
      obtain ⟨w, hw, e⟩ := List.mem_map.1 h
      cases e
      exact ⟨l, by rw [← hl]; exact hkv, hw⟩
    · cases h
  · rintro ⟨l, hl, hid⟩
    exact ⟨(k, .ids l), hl, List.mem_map.2 ⟨id, hid, rfl⟩⟩

theorem mem_nullOrEmptyIds {s : St} {st f : Name} {id : Id} :
    id ∈ nullOrEmptyIds s st f ↔ ∃ e, (id, e) ∈ s.ents st ∧ (e.fields f).bytes = [] := by
  unfold nullOrEmptyIds
  rw [List.mem_filterMap]
  constructor
  · rintro ⟨p, hp, h⟩
    split at h
    · next hn => cases h; exact ⟨p.2, hp, hn⟩
    · cases h
  · rintro ⟨e, he, hn⟩
    exact ⟨(id, e), he, by simp [hn]⟩

theorem bytes_eq_str {v : FVal} {b : Bytes} (h : v.bytes = b) (hb : b ≠ []) : v = .str b := by
  cases v with
  | nil => exact absurd h.symm hb
  | str w => simp [FVal.bytes] at h; rw [h]

/-! ### unique index -/

theorem not_contains_iff {α : Type} [BEq α] [LawfulBEq α] {l : List α} {a : α} :
    (!l.contains a) = true ↔ a ∉ l := by
  simp

theorem unique_complete {s : St} (hwf : s.WF) (st f : Name) (n : Bool) :
    ∀ d ∈ uniqueDiscs s st f n, ∃ r ∈ uqRep st f n s, r.about = d := by
  intro d hd
  unfold uniqueDiscs at hd
  rcases List.mem_append.1 hd with hd | hd
  · rcases List.mem_append.1 hd with hd | hd
    · -- extra index entry
      obtain ⟨kv, hkv, rfl⟩ := List.mem_map.1 hd
      obtain ⟨hmem, hnot⟩ := List.mem_filter.1 hkv
      rw [not_contains_iff] at hnot
      have hsub : ∀ r ∈ (uqStep1 st f false s kv).2, r ∈ uqRep st f n s := fun r hr =>
        List.mem_append_left _ (List.mem_flatMap.2 ⟨kv, hmem, hr⟩)
      by_cases hp : s.present st kv.2 = true
      · obtain ⟨e, he⟩ := present_iff.1 hp
        by_cases hk : kv.1 = s.evalB st kv.2 f
        · exfalso; apply hnot
          have hne : kv.1 ≠ [] := hwf.uniqKey st f kv hmem
          have hb : (e.fields f).bytes = kv.1 := by rw [← evalB_of_mem hwf he]; exact hk.symm
          exact (mem_scalarImage (v := kv.1) (id := kv.2)).2 ⟨e, he, bytes_eq_str hb hne, hne⟩
        · exact ⟨⟨st, f, .uqStale kv.1 kv.2 (s.evalB st kv.2 f), false⟩,
            hsub _ (by simp [uqStep1, hp, hk]), rfl⟩
      · exact ⟨⟨st, f, .uqDangling kv.1 kv.2, false⟩, hsub _ (by simp [uqStep1, hp]), rfl⟩
    · -- missing index entry
      obtain ⟨vi, hvi, rfl⟩ := List.mem_map.1 hd
      obtain ⟨hmem, hnot⟩ := List.mem_filter.1 hvi
      rw [not_contains_iff] at hnot
      obtain ⟨e, he, hf, hne⟩ := (mem_scalarImage (v := vi.1) (id := vi.2)).1 hmem
      have hsub : ∀ r ∈ (uqStep2 st f n false s vi.2).2, r ∈ uqRep st f n s := fun r hr =>
        List.mem_append_right _ (List.mem_flatMap.2 ⟨vi.2, mem_ids.2 ⟨e, he⟩, hr⟩)
      have hT : s.evalT st vi.2 f = .str vi.1 := by rw [evalT_of_mem hwf he]; exact hf
      cases hr : readU s st f vi.1 with
      | none =>
        exact ⟨⟨st, f, .uqMissing vi.1 vi.2, false⟩, hsub _ (by simp [uqStep2, hT, hr, hne]), rfl⟩
      | some x =>
        have hx : x ≠ vi.2 := by
          intro e'
          apply hnot
          unfold readU at hr
          rw [if_neg hne] at hr
          have := get_some_mem hr
          rw [e'] at this; exact this
        exact ⟨⟨st, f, .uqDup vi.1 x vi.2, false⟩, hsub _ (by simp [uqStep2, hT, hr, hx, hne]), rfl⟩
  · -- null in a non-nullable index
    cases n with
    | true => simp at hd
    | false =>
      simp only [Bool.false_eq_true, if_false] at hd
      obtain ⟨id, hid, rfl⟩ := List.mem_map.1 hd
      obtain ⟨e, he, hn⟩ := mem_nullOrEmptyIds.1 hid
      have hT : s.evalT st id f = e.fields f := evalT_of_mem hwf he f
      refine ⟨⟨st, f, .uqNull id, false⟩,
        List.mem_append_right _ (List.mem_flatMap.2 ⟨id, mem_ids.2 ⟨e, he⟩, ?_⟩), rfl⟩
      cases hf : e.fields f with
      | nil => simp [uqStep2, hT, hf]
      | str v =>
        have hv : v = [] := by rw [hf] at hn; exact hn
        simp [uqStep2, hT, hf, hv]

theorem unique_sound {s : St} (hwf : s.WF) (st f : Name) (n : Bool) :
    ∀ r ∈ uqRep st f n s, r.about ∈ uniqueDiscs s st f n := by
  intro r hr
  unfold uqRep at hr
  unfold uniqueDiscs
  rcases List.mem_append.1 hr with hr | hr
  · obtain ⟨kv, hmem, hr⟩ := List.mem_flatMap.1 hr
    apply List.mem_append_left; apply List.mem_append_left
    have key : ∀ _ : Unit, r.about = .uqExtra st f kv.1 kv.2 → kv ∉ scalarImage s st f →
        r.about ∈ ((s.uniq st f).filter fun kv => !(scalarImage s st f).contains kv).map
          (fun kv => Disc.uqExtra st f kv.1 kv.2) :=
      fun _ hab hnot => List.mem_map.2 ⟨kv, List.mem_filter.2 ⟨hmem, not_contains_iff.2 hnot⟩, hab.symm⟩
    unfold uqStep1 at hr
    by_cases hp : s.present st kv.2 = true
    · simp only [hp, Bool.not_true, Bool.false_eq_true, if_false] at hr
      by_cases hk : kv.1 = s.evalB st kv.2 f
      · simp [hk] at hr
      · simp only [hk, if_false, List.mem_singleton] at hr
        subst hr
        refine key () rfl ?_
        intro hin
        obtain ⟨e, he, hf, _⟩ := (mem_scalarImage (v := kv.1) (id := kv.2)).1 hin
        apply hk; rw [evalB_of_mem hwf he, hf]; rfl
    · simp only [hp, Bool.not_false, if_true, List.mem_singleton] at hr
      subst hr
      refine key () rfl ?_
      intro hin
      obtain ⟨e, he, _, _⟩ := (mem_scalarImage (v := kv.1) (id := kv.2)).1 hin
      exact hp (present_of_mem he)
  · obtain ⟨id, hid, hr⟩ := List.mem_flatMap.1 hr
    obtain ⟨e, he⟩ := mem_ids.1 hid
    have hT : s.evalT st id f = e.fields f := evalT_of_mem hwf he f
    unfold uqStep2 at hr
    rw [hT] at hr
    cases hf : e.fields f with
    | nil =>
      simp only [hf] at hr
      cases n with
      | true => simp at hr
      | false =>
        simp only [Bool.false_eq_true, if_false, List.mem_singleton] at hr
        subst hr
        apply List.mem_append_right
        simp only [Bool.false_eq_true, if_false]
        exact List.mem_map.2 ⟨id, mem_nullOrEmptyIds.2 ⟨e, he, by rw [hf]; rfl⟩, rfl⟩
    | str v =>
      simp only [hf] at hr
      by_cases hv : v = []
      · -- the empty string is skipped like nil
        simp only [hv, if_true] at hr
        cases n with
        | true => simp at hr
        | false =>
          simp only [Bool.false_eq_true, if_false, List.mem_singleton] at hr
          subst hr
          apply List.mem_append_right
          simp only [Bool.false_eq_true, if_false]
          exact List.mem_map.2 ⟨id, mem_nullOrEmptyIds.2 ⟨e, he, by rw [hf, hv]; rfl⟩, rfl⟩
      simp only [hv, if_false] at hr
      have himg : (v, id) ∈ scalarImage s st f := mem_scalarImage.2 ⟨e, he, hf, hv⟩
      apply List.mem_append_left; apply List.mem_append_right
      have key : r.about = .uqMissing st f v id → (v, id) ∉ s.uniq st f →
          r.about ∈ ((scalarImage s st f).filter fun vi => !(s.uniq st f).contains vi).map
            (fun vi => Disc.uqMissing st f vi.1 vi.2) :=
        fun hab hnot => List.mem_map.2 ⟨(v, id), List.mem_filter.2 ⟨himg, not_contains_iff.2 hnot⟩, hab.symm⟩
      cases hrd : readU s st f v with
      | none =>
        simp only [hrd, List.mem_singleton] at hr
        subst hr
        refine key rfl ?_
        intro hin
        unfold readU at hrd; rw [if_neg hv] at hrd
        exact (get_none_iff.1 hrd) _ hin rfl
      | some x =>
        simp only [hrd] at hr
        by_cases hx : x = id
        · simp [hx] at hr
        · simp only [hx, if_false, List.mem_singleton] at hr
          subst hr
          refine key rfl ?_
          intro hin
          unfold readU at hrd; rw [if_neg hv] at hrd
          rw [get_of_mem_nodup (hwf.uniq st f) hin] at hrd
          cases hrd; exact hx rfl

/-! ### set index -/

theorem hasVal_iff {s : St} {st f : Name} {id : Id} {k : Bytes} :
    s.hasVal st id f k = true ↔ k ∈ s.setOf st id f := by
  unfold St.hasVal; simp

theorem inIdx_iff {s : St} {st f : Name} {v : Bytes} {id : Id} :
    s.inIdx st f v id = true ↔ ∃ l, get v (s.setx st f) = some (.ids l) ∧ id ∈ l := by
  unfold St.inIdx
  split
  · next l hl => simp [hl]
  · next hn =>
    simp only [Bool.false_eq_true, false_iff]
    rintro ⟨l, hl, _⟩
    exact hn l hl

theorem set_complete {s : St} (hwf : s.WF) (st f : Name) :
    ∀ d ∈ setDiscs s st f, ∃ r ∈ sxRep st f s, r.about = d := by
  intro d hd
  unfold setDiscs at hd
  rcases List.mem_append.1 hd with hd | hd
  · rcases List.mem_append.1 hd with hd | hd
    · obtain ⟨kv, hkv, rfl⟩ := List.mem_map.1 hd
      obtain ⟨hmem, hnot⟩ := List.mem_filter.1 hkv
      rw [not_contains_iff] at hnot
      obtain ⟨l, hl, hid⟩ := (mem_setxPairs (k := kv.1) (id := kv.2)).1 hmem
      have hsub : ∀ r ∈ (sxInner st f false kv.1 s kv.2).2, r ∈ sxRep st f s := fun r hr =>
        List.mem_append_left _ (List.mem_flatMap.2 ⟨(kv.1, .ids l), hl, by
          simp only [sxRep1]
          exact List.mem_append_left _ (List.mem_flatMap.2 ⟨kv.2, hid, hr⟩)⟩)
      by_cases hp : s.present st kv.2 = true
      · obtain ⟨e, he⟩ := present_iff.1 hp
        by_cases hv : s.hasVal st kv.2 f kv.1 = true
        · exfalso; apply hnot
          rw [hasVal_iff, setOf_of_mem hwf he] at hv
          exact (mem_listImage (v := kv.1) (id := kv.2)).2 ⟨e, he, hv⟩
        · exact ⟨⟨st, f, .sxStale kv.1 kv.2, false⟩, hsub _ (by simp [sxInner, hp, hv]), rfl⟩
      · exact ⟨⟨st, f, .sxDangling kv.1 kv.2, false⟩, hsub _ (by simp [sxInner, hp]), rfl⟩
    · obtain ⟨vi, hvi, rfl⟩ := List.mem_map.1 hd
      obtain ⟨hmem, hnot⟩ := List.mem_filter.1 hvi
      rw [not_contains_iff] at hnot
      obtain ⟨e, he, hv⟩ := (mem_listImage (v := vi.1) (id := vi.2)).1 hmem
      have hsub : ∀ r ∈ (sxStep2Val st f false vi.2 s vi.1).2, r ∈ sxRep st f s := fun r hr =>
        List.mem_append_right _ (List.mem_flatMap.2 ⟨vi.2, mem_ids.2 ⟨e, he⟩, by
          unfold sxRep2; rw [setOf_of_mem hwf he]
          exact List.mem_flatMap.2 ⟨vi.1, hv, hr⟩⟩)
      have hin : ¬ s.inIdx st f vi.1 vi.2 = true := by
        intro h
        obtain ⟨l, hl, hid⟩ := inIdx_iff.1 h
        exact hnot ((mem_setxPairs (k := vi.1) (id := vi.2)).2 ⟨l, get_some_mem hl, hid⟩)
      exact ⟨⟨st, f, .sxMissing vi.1 vi.2, false⟩, hsub _ (by simp [sxStep2Val, hin]), rfl⟩
  · obtain ⟨kv, hkv, hd⟩ := List.mem_filterMap.1 hd
    have hsub : ∀ r ∈ sxRep1 st f s kv, r ∈ sxRep st f s := fun r hr =>
      List.mem_append_left _ (List.mem_flatMap.2 ⟨kv, hkv, hr⟩)
    split at hd
    · next hj => cases hd; exact ⟨⟨st, f, .sxJunk kv.1, false⟩, hsub _ (by simp [sxRep1, hj]), rfl⟩
    · next hj => cases hd; exact ⟨⟨st, f, .sxEmpty kv.1, false⟩, hsub _ (by simp [sxRep1, hj]), rfl⟩
    · cases hd

theorem set_sound {s : St} (hwf : s.WF) (st f : Name) :
    ∀ r ∈ sxRep st f s, r.about ∈ setDiscs s st f := by
  intro r hr
  unfold sxRep at hr
  unfold setDiscs
  rcases List.mem_append.1 hr with hr | hr
  · obtain ⟨kv, hmem, hr⟩ := List.mem_flatMap.1 hr
    unfold sxRep1 at hr
    cases hk : kv.2 with
    | junk =>
      simp only [hk, List.mem_singleton] at hr
      subst hr
      exact List.mem_append_right _ (List.mem_filterMap.2 ⟨kv, hmem, by simp [hk, Report.about]⟩)
    | ids l =>
      simp only [hk] at hr
      have hkv : (kv.1, SVal.ids l) ∈ s.setx st f := by rw [← hk]; exact hmem
      rcases List.mem_append.1 hr with hr | hr
      · obtain ⟨id, hid, hr⟩ := List.mem_flatMap.1 hr
        apply List.mem_append_left; apply List.mem_append_left
        have hpair : (kv.1, id) ∈ setxPairs s st f := mem_setxPairs.2 ⟨l, hkv, hid⟩
        have key : r.about = .sxExtra st f kv.1 id → (kv.1, id) ∉ listImage s st f →
            r.about ∈ ((setxPairs s st f).filter fun kv => !(listImage s st f).contains kv).map
              (fun kv => Disc.sxExtra st f kv.1 kv.2) :=
          fun hab hnot => List.mem_map.2 ⟨(kv.1, id), List.mem_filter.2 ⟨hpair, not_contains_iff.2 hnot⟩, hab.symm⟩
        unfold sxInner at hr
        by_cases hp : s.present st id = true
        · simp only [hp, Bool.not_true, Bool.false_eq_true, if_false] at hr
          by_cases hv : s.hasVal st id f kv.1 = true
          · simp [hv] at hr
          · simp only [hv, Bool.not_false, if_true, List.mem_singleton] at hr
            subst hr
            refine key rfl ?_
            intro hin
            obtain ⟨e, he, hve⟩ := mem_listImage.1 hin
            apply hv; rw [hasVal_iff, setOf_of_mem hwf he]; exact hve
        · simp only [hp, Bool.not_false, if_true, List.mem_singleton] at hr
          subst hr
          refine key rfl ?_
          intro hin
          obtain ⟨e, he, _⟩ := mem_listImage.1 hin
          exact hp (present_of_mem he)
      · split at hr
        · next hl =>
          simp only [List.mem_singleton] at hr
          subst hr
          exact List.mem_append_right _ (List.mem_filterMap.2 ⟨kv, hmem, by simp [hk, hl, Report.about]⟩)
        · cases hr
  · obtain ⟨id, hid, hr⟩ := List.mem_flatMap.1 hr
    unfold sxRep2 at hr
    obtain ⟨v, hv, hr⟩ := List.mem_flatMap.1 hr
    unfold sxStep2Val at hr
    by_cases hin : s.inIdx st f v id = true
    · simp [hin] at hr
    · simp only [hin, Bool.false_eq_true, if_false, List.mem_singleton] at hr
      subst hr
      apply List.mem_append_left; apply List.mem_append_right
      obtain ⟨e, he, hve⟩ := mem_setOf hv
      have himg : (v, id) ∈ listImage s st f := mem_listImage.2 ⟨e, he, hve⟩
      refine List.mem_map.2 ⟨(v, id), List.mem_filter.2 ⟨himg, not_contains_iff.2 ?_⟩, rfl⟩
      intro hp
      obtain ⟨l, hl, hidl⟩ := mem_setxPairs.1 hp
      exact hin (inIdx_iff.2 ⟨l, get_of_mem_nodup (hwf.setx st f) hl, hidl⟩)

/-! ### foreign-key index -/

theorem hasBack_iff {s : St} {fkSt fkF : Name} {t id : Id} :
    s.hasBack fkSt t fkF id = true ↔ id ∈ s.setOf fkSt t fkF := by
  unfold St.hasBack; simp

theorem fkIndex_complete {s : St} (hwf : s.WF) (st f : Name) (n : Bool) (fkSt fkF : Name) :
    ∀ d ∈ fkIndexDiscs s st f n fkSt fkF, ∃ r ∈ fkRep st f n fkSt fkF s, r.about = d := by
  intro d hd
  unfold fkIndexDiscs at hd
  rcases List.mem_append.1 hd with hd | hd
  · rcases List.mem_append.1 hd with hd | hd
    · obtain ⟨rt, hrt, rfl⟩ := List.mem_map.1 hd
      obtain ⟨hmem, hnot⟩ := List.mem_filter.1 hrt
      rw [not_contains_iff] at hnot
      obtain ⟨e, he, hx⟩ := (mem_listImage (v := rt.1) (id := rt.2)).1 hmem
      have hsub : ∀ r ∈ (fkInner1 st f fkSt fkF false rt.2 s rt.1).2, r ∈ fkRep st f n fkSt fkF s := fun r hr =>
        List.mem_append_left _ (List.mem_flatMap.2 ⟨rt.2, mem_ids.2 ⟨e, he⟩, by
          unfold fkRep1; rw [setOf_of_mem hwf he]
          exact List.mem_flatMap.2 ⟨rt.1, hx, hr⟩⟩)
      by_cases hp : s.present st rt.1 = true
      · obtain ⟨e', he'⟩ := present_iff.1 hp
        by_cases hc : s.evalB st rt.1 f = [] ∨ s.evalB st rt.1 f ≠ rt.2
        · exact ⟨⟨st, f, .fkBackStale rt.2 rt.1 (s.evalB st rt.1 f), false⟩,
            hsub _ (by simp [fkInner1, hp, hc]), rfl⟩
        · exfalso; apply hnot
          have h1 : s.evalB st rt.1 f ≠ [] := fun h => hc (Or.inl h)
          have h2 : s.evalB st rt.1 f = rt.2 := Classical.byContradiction fun h => hc (Or.inr h)
          have hne : rt.2 ≠ [] := h2 ▸ h1
          rw [evalB_of_mem hwf he'] at h2
          exact mem_scalarImage.2 ⟨e', he', bytes_eq_str h2 hne, hne⟩
      · exact ⟨⟨st, f, .fkBackDangling rt.2 rt.1, false⟩, hsub _ (by simp [fkInner1, hp]), rfl⟩
    · obtain ⟨ti, hti, hd⟩ := List.mem_filterMap.1 hd
      obtain ⟨e, he, hf, hne⟩ := (mem_scalarImage (v := ti.1) (id := ti.2)).1 hti
      have hB : s.evalB st ti.2 f = ti.1 := by rw [evalB_of_mem hwf he, hf]; rfl
      have hsub : ∀ r ∈ (fkStep2 st f n fkSt fkF false s ti.2).2, r ∈ fkRep st f n fkSt fkF s := fun r hr =>
        List.mem_append_right _ (List.mem_flatMap.2 ⟨ti.2, mem_ids.2 ⟨e, he⟩, hr⟩)
      by_cases hp : s.present fkSt ti.1 = true
      · simp only [hp, Bool.not_true, Bool.false_eq_true, if_false] at hd
        split at hd
        · next hnot =>
          cases hd
          rw [not_contains_iff] at hnot
          have hb : ¬ s.hasBack fkSt ti.1 fkF ti.2 = true := by
            intro h
            obtain ⟨e', he', hx⟩ := mem_setOf (hasBack_iff.1 h)
            exact hnot (mem_listImage.2 ⟨e', he', hx⟩)
          exact ⟨⟨st, f, .fkBackMissing ti.2 ti.1, false⟩, hsub _ (by simp [fkStep2, hB, hne, hp, hb]), rfl⟩
        · cases hd
      · simp only [hp, Bool.not_false, if_true] at hd
        cases hd
        exact ⟨⟨st, f, .fkDangling ti.2 ti.1, n && false⟩,
          hsub _ (by simp [fkStep2, hB, hne, hp, fkDanglingStep]), rfl⟩
  · cases n with
    | true => simp at hd
    | false =>
      simp only [Bool.false_eq_true, if_false] at hd
      obtain ⟨id, hid, rfl⟩ := List.mem_map.1 hd
      obtain ⟨e, he, hn⟩ := mem_nullOrEmptyIds.1 hid
      have hB : s.evalB st id f = [] := by rw [evalB_of_mem hwf he]; exact hn
      exact ⟨⟨st, f, .fkNull id, false⟩,
        List.mem_append_right _ (List.mem_flatMap.2 ⟨id, mem_ids.2 ⟨e, he⟩, by simp [fkStep2, hB]⟩), rfl⟩

/-- the part of `fkStep2`'s / `fcStep`'s report that both share: null and dangling -/
theorem fk_null_dangling_sound {s : St} (hwf : s.WF) (st f : Name) {id : Id} {e : Ent}
    (he : (id, e) ∈ s.ents st) :
    (s.evalB st id f = [] → id ∈ nullOrEmptyIds s st f) ∧
    (s.evalB st id f ≠ [] → (s.evalB st id f, id) ∈ scalarImage s st f) := by
  constructor
  · intro h
    exact mem_nullOrEmptyIds.2 ⟨e, he, by rw [← evalB_of_mem hwf he]; exact h⟩
  · intro h
    exact mem_scalarImage.2 ⟨e, he, bytes_eq_str (evalB_of_mem hwf he f).symm h, h⟩

theorem fkIndex_sound {s : St} (hwf : s.WF) (st f : Name) (n : Bool) (fkSt fkF : Name) :
    ∀ r ∈ fkRep st f n fkSt fkF s, r.about ∈ fkIndexDiscs s st f n fkSt fkF := by
  intro r hr
  unfold fkRep at hr
  unfold fkIndexDiscs
  rcases List.mem_append.1 hr with hr | hr
  · obtain ⟨id, hid, hr⟩ := List.mem_flatMap.1 hr
    unfold fkRep1 at hr
    obtain ⟨x, hx, hr⟩ := List.mem_flatMap.1 hr
    obtain ⟨e, he, hxe⟩ := mem_setOf hx
    have himg : (x, id) ∈ listImage s fkSt fkF := mem_listImage.2 ⟨e, he, hxe⟩
    apply List.mem_append_left; apply List.mem_append_left
    have key : r.about = .fkBackExtra st f id x → (id, x) ∉ scalarImage s st f →
        r.about ∈ ((listImage s fkSt fkF).filter fun rt => !(scalarImage s st f).contains (rt.2, rt.1)).map
          (fun rt => Disc.fkBackExtra st f rt.2 rt.1) :=
      fun hab hnot => List.mem_map.2 ⟨(x, id), List.mem_filter.2 ⟨himg, not_contains_iff.2 hnot⟩, hab.symm⟩
    unfold fkInner1 at hr
    by_cases hp : s.present st x = true
    · simp only [hp, Bool.not_true, Bool.false_eq_true, if_false] at hr
      by_cases hc : s.evalB st x f = [] ∨ s.evalB st x f ≠ id
      · simp only [hc, if_true, List.mem_singleton] at hr
        subst hr
        refine key rfl ?_
        intro hin
        obtain ⟨e', he', hf, hne⟩ := mem_scalarImage.1 hin
        have : s.evalB st x f = id := by rw [evalB_of_mem hwf he', hf]; rfl
        rcases hc with hc | hc
        · exact hne (this ▸ hc)
        · exact hc this
      · simp [hc] at hr
    · simp only [hp, Bool.not_false, if_true, List.mem_singleton] at hr
      subst hr
      refine key rfl ?_
      intro hin
      obtain ⟨e', he', _, _⟩ := mem_scalarImage.1 hin
      exact hp (present_of_mem he')
  · obtain ⟨id, hid, hr⟩ := List.mem_flatMap.1 hr
    obtain ⟨e, he⟩ := mem_ids.1 hid
    obtain ⟨hnull, himg⟩ := fk_null_dangling_sound hwf st f he
    unfold fkStep2 at hr
    by_cases hB : s.evalB st id f = []
    · simp only [hB, if_true] at hr
      cases n with
      | true => simp at hr
      | false =>
        simp only [Bool.false_eq_true, if_false, List.mem_singleton] at hr
        subst hr
        apply List.mem_append_right
        simp only [Bool.false_eq_true, if_false]
        exact List.mem_map.2 ⟨id, hnull hB, rfl⟩
    · simp only [hB, if_false] at hr
      apply List.mem_append_left; apply List.mem_append_right
      have hti := himg hB
      by_cases hp : s.present fkSt (s.evalB st id f) = true
      · simp only [hp, Bool.not_true, Bool.false_eq_true, if_false] at hr
        by_cases hb : s.hasBack fkSt (s.evalB st id f) fkF id = true
        · simp [hb] at hr
        · simp only [hb, Bool.false_eq_true, if_false, List.mem_singleton] at hr
          subst hr
          refine List.mem_filterMap.2 ⟨(s.evalB st id f, id), hti, ?_⟩
          have hnot : (id, s.evalB st id f) ∉ listImage s fkSt fkF := by
            intro hin
            obtain ⟨e', he', hx⟩ := mem_listImage.1 hin
            apply hb; rw [hasBack_iff, setOf_of_mem hwf he']; exact hx
          simp [hp, Report.about]; exact hnot
      · simp only [hp, Bool.not_false, if_true, fkDanglingStep, List.mem_singleton] at hr
        subst hr
        refine List.mem_filterMap.2 ⟨(s.evalB st id f, id), hti, ?_⟩
        simp [hp, Report.about]

/-! ### foreign-key constraint -/

theorem fkCons_complete {s : St} (hwf : s.WF) (st f : Name) (n : Bool) (linked : Name) :
    ∀ d ∈ fkConsDiscs s st f n linked, ∃ r ∈ fcRep st f n linked s, r.about = d := by
  intro d hd
  unfold fkConsDiscs at hd
  rcases List.mem_append.1 hd with hd | hd
  · obtain ⟨ti, hti, hd⟩ := List.mem_filterMap.1 hd
    obtain ⟨e, he, hf, hne⟩ := (mem_scalarImage (v := ti.1) (id := ti.2)).1 hti
    have hB : s.evalB st ti.2 f = ti.1 := by rw [evalB_of_mem hwf he, hf]; rfl
    split at hd
    · next hp =>
      cases hd
      exact ⟨⟨st, f, .fkDangling ti.2 ti.1, n && false⟩,
        List.mem_flatMap.2 ⟨ti.2, mem_ids.2 ⟨e, he⟩, by simp [fcStep, hB, hne, hp, fkDanglingStep]⟩, rfl⟩
    · cases hd
  · cases n with
    | true => simp at hd
    | false =>
      simp only [Bool.false_eq_true, if_false] at hd
      obtain ⟨id, hid, rfl⟩ := List.mem_map.1 hd
      obtain ⟨e, he, hn⟩ := mem_nullOrEmptyIds.1 hid
      have hB : s.evalB st id f = [] := by rw [evalB_of_mem hwf he]; exact hn
      exact ⟨⟨st, f, .fkNull id, false⟩,
        List.mem_flatMap.2 ⟨id, mem_ids.2 ⟨e, he⟩, by simp [fcStep, hB]⟩, rfl⟩

theorem fkCons_sound {s : St} (hwf : s.WF) (st f : Name) (n : Bool) (linked : Name) :
    ∀ r ∈ fcRep st f n linked s, r.about ∈ fkConsDiscs s st f n linked := by
  intro r hr
  unfold fcRep at hr
  unfold fkConsDiscs
  obtain ⟨id, hid, hr⟩ := List.mem_flatMap.1 hr
  obtain ⟨e, he⟩ := mem_ids.1 hid
  obtain ⟨hnull, himg⟩ := fk_null_dangling_sound hwf st f he
  unfold fcStep at hr
  by_cases hB : s.evalB st id f = []
  · simp only [hB, if_true] at hr
    cases n with
    | true => simp at hr
    | false =>
      simp only [Bool.false_eq_true, if_false, List.mem_singleton] at hr
      subst hr
      apply List.mem_append_right
      simp only [Bool.false_eq_true, if_false]
      exact List.mem_map.2 ⟨id, hnull hB, rfl⟩
  · simp only [hB, if_false] at hr
    by_cases hp : s.present linked (s.evalB st id f) = true
    · simp [hp] at hr
    · simp only [hp, Bool.not_false, if_true, fkDanglingStep, List.mem_singleton] at hr
      subst hr
      apply List.mem_append_left
      refine List.mem_filterMap.2 ⟨(s.evalB st id f, id), himg hB, ?_⟩
      simp [hp, Report.about]

/-! ### link collection -/

theorem link_complete {s : St} (hwf : s.WF) (S : Schema) (lc : LinkColl) :
    ∀ d ∈ linkDiscs S s lc, ∃ r ∈ lc.rep S s, r.about = d := by
  intro d hd
  unfold linkDiscs at hd
  unfold LinkColl.rep lkRep
  rcases List.mem_append.1 hd with hd | hd
  · split at hd
    · cases hd
    · next hi =>
      simp only [List.mem_singleton] at hd
      subst hd
      exact ⟨⟨lc.st, lc.f, .lkNoInverse, false⟩, List.mem_append_left _ (by simp [hi]), rfl⟩
  · obtain ⟨li, hli, hd⟩ := List.mem_filterMap.1 hd
    obtain ⟨e, he, hl⟩ := (mem_listImage (v := li.1) (id := li.2)).1 hli
    have hsub : ∀ r ∈ (lkInner lc.st lc.f lc.oSt lc.oF false li.2 s li.1).2,
        r ∈ (if S.hasInverse lc = true then [] else [⟨lc.st, lc.f, .lkNoInverse, false⟩])
          ++ (s.ids lc.st).flatMap (lkRep1 lc.st lc.f lc.oSt lc.oF s) := fun r hr =>
      List.mem_append_right _ (List.mem_flatMap.2 ⟨li.2, mem_ids.2 ⟨e, he⟩, by
        unfold lkRep1; rw [setOf_of_mem hwf he]
        exact List.mem_flatMap.2 ⟨li.1, hl, hr⟩⟩)
    by_cases hp : s.present lc.oSt li.1 = true
    · simp only [hp, Bool.not_true, Bool.false_eq_true, if_false] at hd
      split at hd
      · next hnot =>
        cases hd
        rw [not_contains_iff] at hnot
        have hb : ¬ s.hasBack lc.oSt li.1 lc.oF li.2 = true := by
          intro h
          obtain ⟨e', he', hx⟩ := mem_setOf (hasBack_iff.1 h)
          exact hnot (mem_listImage.2 ⟨e', he', hx⟩)
        exact ⟨⟨lc.st, lc.f, .lkOneSided li.2 li.1, false⟩, hsub _ (by simp [lkInner, hp, hb]), rfl⟩
      · cases hd
    · simp only [hp, Bool.not_false, if_true] at hd
      cases hd
      exact ⟨⟨lc.st, lc.f, .lkDangling li.2 li.1, false⟩, hsub _ (by simp [lkInner, hp]), rfl⟩

theorem link_sound {s : St} (hwf : s.WF) (S : Schema) (lc : LinkColl) :
    ∀ r ∈ lc.rep S s, r.about ∈ linkDiscs S s lc := by
  intro r hr
  unfold LinkColl.rep lkRep at hr
  unfold linkDiscs
  rcases List.mem_append.1 hr with hr | hr
  · split at hr
    · cases hr
    · next hi =>
      simp only [List.mem_singleton] at hr
      subst hr
      exact List.mem_append_left _ (by simp [hi, Report.about])
  · obtain ⟨id, hid, hr⟩ := List.mem_flatMap.1 hr
    unfold lkRep1 at hr
    obtain ⟨l, hl, hr⟩ := List.mem_flatMap.1 hr
    obtain ⟨e, he, hle⟩ := mem_setOf hl
    have himg : (l, id) ∈ listImage s lc.st lc.f := mem_listImage.2 ⟨e, he, hle⟩
    apply List.mem_append_right
    unfold lkInner at hr
    by_cases hp : s.present lc.oSt l = true
    · simp only [hp, Bool.not_true, Bool.false_eq_true, if_false] at hr
      by_cases hb : s.hasBack lc.oSt l lc.oF id = true
      · simp [hb] at hr
      · simp only [hb, Bool.not_false, if_true, List.mem_singleton] at hr
        subst hr
        refine List.mem_filterMap.2 ⟨(l, id), himg, ?_⟩
        have hnot : (id, l) ∉ listImage s lc.oSt lc.oF := by
          intro hin
          obtain ⟨e', he', hx⟩ := mem_listImage.1 hin
          apply hb; rw [hasBack_iff, setOf_of_mem hwf he']; exact hx
        simp [hp, Report.about]; exact hnot
    · simp only [hp, Bool.not_false, if_true, List.mem_singleton] at hr
      subst hr
      refine List.mem_filterMap.2 ⟨(l, id), himg, ?_⟩
      simp [hp, Report.about]

/-! ### the whole schema -/

theorem constraint_complete {s : St} (hwf : s.WF) (c : Constraint) :
    ∀ d ∈ c.discs s, ∃ r ∈ c.rep s, r.about = d := by
  cases c with
  | unique st f n => exact unique_complete hwf st f n
  | setIdx st f => exact set_complete hwf st f
  | fkIndex st f n fkSt fkF => exact fkIndex_complete hwf st f n fkSt fkF
  | fkCons st f n linked => exact fkCons_complete hwf st f n linked
  | noop => intro d hd; cases hd

theorem constraint_sound {s : St} (hwf : s.WF) (c : Constraint) :
    ∀ r ∈ c.rep s, r.about ∈ c.discs s := by
  cases c with
  | unique st f n => exact unique_sound hwf st f n
  | setIdx st f => exact set_sound hwf st f
  | fkIndex st f n fkSt fkF => exact fkIndex_sound hwf st f n fkSt fkF
  | fkCons st f n linked => exact fkCons_sound hwf st f n linked
  | noop => intro r hr; cases hr

theorem checkReports_complete {s : St} (hwf : s.WF) (S : Schema) :
    ∀ d ∈ inconsistencies S s, ∃ r ∈ checkReports S s, r.about = d := by
  intro d hd
  unfold inconsistencies at hd
  obtain ⟨sd, hsd, hd⟩ := List.mem_flatMap.1 hd
  unfold StoreDef.discs at hd
  rcases List.mem_append.1 hd with hd | hd
  · obtain ⟨lc, hlc, hd⟩ := List.mem_flatMap.1 hd
    obtain ⟨r, hr, hab⟩ := link_complete hwf S lc d hd
    exact ⟨r, List.mem_flatMap.2 ⟨sd, hsd, List.mem_append_left _ (List.mem_flatMap.2 ⟨lc, hlc, hr⟩)⟩, hab⟩
  · obtain ⟨c, hc, hd⟩ := List.mem_flatMap.1 hd
    obtain ⟨r, hr, hab⟩ := constraint_complete hwf c d hd
    exact ⟨r, List.mem_flatMap.2 ⟨sd, hsd, List.mem_append_right _ (List.mem_flatMap.2 ⟨c, hc, hr⟩)⟩, hab⟩

theorem checkReports_sound {s : St} (hwf : s.WF) (S : Schema) :
    ∀ r ∈ checkReports S s, r.about ∈ inconsistencies S s := by
  intro r hr
  unfold checkReports at hr
  obtain ⟨sd, hsd, hr⟩ := List.mem_flatMap.1 hr
  unfold StoreDef.rep at hr
  unfold inconsistencies
  refine List.mem_flatMap.2 ⟨sd, hsd, ?_⟩
  unfold StoreDef.discs
  rcases List.mem_append.1 hr with hr | hr
  · obtain ⟨lc, hlc, hr⟩ := List.mem_flatMap.1 hr
    exact List.mem_append_left _ (List.mem_flatMap.2 ⟨lc, hlc, link_sound hwf S lc r hr⟩)
  · obtain ⟨c, hc, hr⟩ := List.mem_flatMap.1 hr
    exact List.mem_append_right _ (List.mem_flatMap.2 ⟨c, hc, constraint_sound hwf c r hr⟩)

end StorageModel.C09
