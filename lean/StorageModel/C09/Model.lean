import StorageModel.Base.Bytes
/-
  C09 — executable model of the integrity checker of openziti/storage:

    boltz/indexes.go          uniqueIndex / setIndex / fkIndex / fkConstraint .CheckIntegrity
    boltz/link_collection.go  linkCollectionImpl.CheckIntegrity  (ref-counted link collections have
                              no CheckIntegrity and BaseStore.CheckIntegrity never visits them)
    boltz/store_crud.go       BaseStore.CheckIntegrity (link collections first, then the
                              constraints in registration order)

  as of the repairs cd22877 (set index writes only when fixing), 6e61536 (an empty value in a
  unique index is skipped like nil), 946f949 (`IterateLinks` is a read-only lookup) and 0fc3c29
  (dangling links are queued and removed after the link-cursor loop).

  The state is NOT assumed consistent: entity tables, unique-index buckets, set-index buckets and
  the per-entity set buckets (fk back-references, link lists, indexed string lists) are
  independent data, and carry the junk a corruption can leave behind (a plain key inside a
  set-index bucket, an empty value bucket, references to missing entities, one-sided links, an
  absent link bucket).

  Modelling conventions
  * a bbolt bucket is an association list in `bytes.Compare` key order; iterating a bucket with a
    cursor is a traversal of the list *as it was when the cursor was opened* (a snapshot), while
    every lookup made inside the loop body reads the current state.  This is bbolt's behaviour
    for a bucket that was not modified earlier in the same transaction, including
    `Cursor.Delete` of the current element followed by `Next` in the unique / set / fk loops
    (modelled, not verified: after a delete in a bucket that WAS modified earlier in the
    transaction bbolt's `Next` skips an entry — which is what the link loop did until 0fc3c29;
    the buckets pruned by the remaining `cursor.Delete()` loops are written by no other check
    before, and the one-transaction modes of the harness exercise them).
  * `[]byte` values: `nil` and the empty slice are both `[]`; the places where the Go code tests
    the *type* (`fieldType == TypeNil`) use `FVal`.
  * no error / panic outcome: inside the modelled state space (no empty ids, keys or set
    elements; index buckets initialised) none of the modelled functions returns an error.
-/
namespace StorageModel.C09
open StorageModel

abbrev Id := Bytes
abbrev Name := String

/-- `bytes.Compare a b < 0` -/
def bltB : Bytes → Bytes → Bool
  | [], [] => false
  | [], _ :: _ => true
  | _ :: _, [] => false
  | a :: as, b :: bs => if a < b then true else if b < a then false else bltB as bs

/-! ### buckets: association lists -/

def get {V : Type} (k : Bytes) : List (Bytes × V) → Option V
  | [] => none
  | p :: t => if k = p.1 then some p.2 else get k t

/-- insertion of a new key in key order -/
def ins {V : Type} (k : Bytes) (v : V) : List (Bytes × V) → List (Bytes × V)
  | [] => [(k, v)]
  | p :: t => if bltB k p.1 then (k, v) :: p :: t else p :: ins k v t

/-- `Bucket.Put`: replace the value of an existing key, or insert in key order -/
def put {V : Type} (k : Bytes) (v : V) (l : List (Bytes × V)) : List (Bytes × V) :=
  if (get k l).isSome then l.map fun p => if p.1 = k then (k, v) else p else ins k v l

/-- `Bucket.Delete` / `Cursor.Delete` / `DeleteBucket` -/
def del {V : Type} (k : Bytes) (l : List (Bytes × V)) : List (Bytes × V) :=
  l.filter fun p => p.1 ≠ k

/-- string-list buckets (keys only): insertion in key order -/
def sinsRaw (x : Bytes) : List Bytes → List Bytes
  | [] => [x]
  | y :: t => if bltB x y then x :: y :: t else y :: sinsRaw x t

/-- `Put(key, nil)` on a string-list bucket: no effect when the key is there -/
def sins (x : Bytes) (l : List Bytes) : List Bytes := if l.contains x then l else sinsRaw x l

def sdel (x : Bytes) (l : List Bytes) : List Bytes := l.filter fun y => y ≠ x

/-! ### state -/

/-- what `symbol.Eval` returns for a scalar field: `(TypeNil, nil)` or `(TypeString, v)` -/
inductive FVal
  | nil
  | str (v : Bytes)
  deriving DecidableEq, Repr

def FVal.bytes : FVal → Bytes
  | .nil => []
  | .str v => v

/-- an entity bucket: scalar fields and the contents of its nested list buckets (`[]` when the
    bucket does not exist).  Whether an empty nested bucket exists is not part of the state,
    because no decision of the checker depends on it; the buckets a run creates through
    `GetOrCreatePath` are accounted for separately by `bucketsEnsured` below. -/
structure Ent where
  fields : Name → FVal
  sets : Name → List Bytes

def Ent.setField (e : Ent) (f : Name) (v : FVal) : Ent :=
  { e with fields := fun f' => if f' = f then v else e.fields f' }

def Ent.setSet (e : Ent) (f : Name) (l : List Bytes) : Ent :=
  { e with sets := fun f' => if f' = f then l else e.sets f' }

/-- an entry of a set-index bucket: a value bucket holding ids, or a plain (junk) key -/
inductive SVal
  | junk
  | ids (l : List Id)
  deriving DecidableEq, Repr

structure St where
  /-- store name → entities bucket -/
  ents : Name → List (Id × Ent)
  /-- store, field → unique index bucket (value → id) -/
  uniq : Name → Name → List (Bytes × Id)
  /-- store, field → set index bucket (value → bucket of ids) -/
  setx : Name → Name → List (Bytes × SVal)

def St.ent (s : St) (st : Name) (id : Id) : Option Ent := get id (s.ents st)

/-- `store.IsEntityPresent` -/
def St.present (s : St) (st : Name) (id : Id) : Bool := (s.ent st id).isSome

/-- `symbol.Eval(tx, id)`: type and value -/
def St.evalT (s : St) (st : Name) (id : Id) (f : Name) : FVal :=
  match s.ent st id with
  | some e => e.fields f
  | none => .nil

/-- `symbol.Eval(tx, id)`: the value only (`nil` = `[]`) -/
def St.evalB (s : St) (st : Name) (id : Id) (f : Name) : Bytes := (s.evalT st id f).bytes

/-- the elements of the nested list bucket `f` of entity `id` (read-only `GetPath` + cursor; a
    missing entity or bucket yields nothing) -/
def St.setOf (s : St) (st : Name) (id : Id) (f : Name) : List Bytes :=
  match s.ent st id with
  | some e => e.sets f
  | none => []

/-- `IterateValidIds(tx, true)`: the ids in bucket order -/
def St.ids (s : St) (st : Name) : List Id := (s.ents st).map (·.1)

def St.setUniq (s : St) (st f : Name) (b : List (Bytes × Id)) : St :=
  { s with uniq := fun st' f' => if st' = st ∧ f' = f then b else s.uniq st' f' }

def St.setSetx (s : St) (st f : Name) (b : List (Bytes × SVal)) : St :=
  { s with setx := fun st' f' => if st' = st ∧ f' = f then b else s.setx st' f' }

def St.modEnt (s : St) (st : Name) (id : Id) (g : Ent → Ent) : St :=
  { s with ents := fun st' =>
      if st' = st then (s.ents st).map fun p => if p.1 = id then (p.1, g p.2) else p else s.ents st' }

/-- `GetOrCreatePath(field)` then `SetListEntry(TypeString, x)` on entity `id` -/
def St.addToSet (s : St) (st : Name) (id : Id) (f : Name) (x : Bytes) : St :=
  s.modEnt st id fun e => e.setSet f (sins x (e.sets f))

/-- `DeleteListEntry` / `Cursor.Delete` on a list bucket -/
def St.delFromSet (s : St) (st : Name) (id : Id) (f : Name) (x : Bytes) : St :=
  s.modEnt st id fun e => e.setSet f (sdel x (e.sets f))

/-! ### reports -/

/-- message classes of the `errorSink` callbacks, with their subjects -/
inductive Msg
  | uqDangling (key : Bytes) (id : Id)
  | uqStale (key : Bytes) (id : Id) (actual : Bytes)
  | uqNull (id : Id)
  | uqMissing (val : Bytes) (id : Id)
  | uqDup (val : Bytes) (idxId id : Id)
  | sxDangling (key : Bytes) (id : Id)
  | sxStale (key : Bytes) (id : Id)
  | sxEmpty (key : Bytes)
  | sxJunk (key : Bytes)
  | sxMissing (val : Bytes) (id : Id)
  | fkBackDangling (target src : Id)
  | fkBackStale (target src : Id) (actual : Bytes)
  | fkNull (id : Id)
  | fkDangling (id target : Id)
  | fkBackMissing (id target : Id)
  | lkDangling (id link : Id)
  | lkOneSided (id link : Id)
  | lkNoInverse
  deriving DecidableEq, Repr

structure Report where
  store : Name
  field : Name
  msg : Msg
  fixed : Bool
  deriving DecidableEq, Repr

abbrev Proc := St → St × List Report

/-- run `step` over the elements of a cursor snapshot, threading the state -/
def runSteps {α : Type} (step : St → α → St × List Report) : List α → Proc
  | [], s => (s, [])
  | a :: as, s =>
    let r1 := step s a
    let r2 := runSteps step as r1.1
    (r2.1, r1.2 ++ r2.2)

def Proc.seq (p q : Proc) : Proc := fun s =>
  let r1 := p s
  let r2 := q r1.1
  (r2.1, r1.2 ++ r2.2)

def Proc.skip : Proc := fun s => (s, [])

def seqAll : List Proc → Proc
  | [] => Proc.skip
  | p :: ps => p.seq (seqAll ps)

/-! ### uniqueIndex.CheckIntegrity -/

/-- `index.Read(tx, val)` = `indexBucket.Get(val)`; bbolt never finds the empty key -/
def readU (s : St) (st f : Name) (v : Bytes) : Option Id :=
  if v = [] then none else get v (s.uniq st f)

/-- body of the first loop (index → entity), at index entry `(key, val)` -/
def uqStep1 (st f : Name) (fix : Bool) (s : St) (kv : Bytes × Id) : St × List Report :=
  if !s.present st kv.2 then
    (if fix then s.setUniq st f (del kv.1 (s.uniq st f)) else s, [⟨st, f, .uqDangling kv.1 kv.2, fix⟩])
  else if kv.1 = s.evalB st kv.2 f then (s, [])
  else
    (if fix then s.setUniq st f (del kv.1 (s.uniq st f)) else s,
      [⟨st, f, .uqStale kv.1 kv.2 (s.evalB st kv.2 f), fix⟩])

/-- `processIntegrityFix` → `ProcessAfterUpdate` with an empty `AtomStates` and `IsCreate = false`:
    for an empty new value `bytes.Equal(oldValue, newValue)` holds and nothing is written;
    otherwise the entry is put (it was just read as absent). -/
def uqRepair (s : St) (st f : Name) (v : Bytes) (id : Id) : St :=
  if v = [] then s else s.setUniq st f (put v id (s.uniq st f))

/-- body of the second loop (entity → index), at entity `id` -/
def uqStep2 (st f : Name) (nullable fix : Bool) (s : St) (id : Id) : St × List Report :=
  match s.evalT st id f with
  | .nil => (s, if nullable then [] else [⟨st, f, .uqNull id, false⟩])
  | .str fv =>
    -- `fieldType == TypeNil || len(fieldVal) == 0` (fix 6e61536): an empty value is skipped like nil
    if fv = [] then (s, if nullable then [] else [⟨st, f, .uqNull id, false⟩])
    else
      match readU s st f fv with
      | none => (if fix then uqRepair s st f fv id else s, [⟨st, f, .uqMissing fv id, fix⟩])
      | some idxId => if idxId = id then (s, []) else (s, [⟨st, f, .uqDup fv idxId id, false⟩])

def uniqueCheck (st f : Name) (nullable fix : Bool) : Proc :=
  Proc.seq (fun s => runSteps (uqStep1 st f fix) (s.uniq st f) s)
    (fun s => runSteps (uqStep2 st f nullable fix) (s.ids st) s)

/-! ### setIndex.CheckIntegrity -/

/-- does entity `id` hold `key` in its list field (the `rtSymbol.OpenCursor` loop) -/
def St.hasVal (s : St) (st : Name) (id : Id) (f : Name) (key : Bytes) : Bool :=
  (s.setOf st id f).contains key

/-- `idsCursor.Delete()` inside the value bucket `key` -/
def St.delIdx (s : St) (st f : Name) (key : Bytes) (id : Id) : St :=
  match get key (s.setx st f) with
  | some (.ids l) => s.setSetx st f (put key (.ids (sdel id l)) (s.setx st f))
  | _ => s

/-- inner loop of the first pass: one id of the value bucket `key`; the second component of the
    result state pair counts the references that were kept -/
def sxInner (st f : Name) (fix : Bool) (key : Bytes) (s : St) (id : Id) : St × List Report :=
  if !s.present st id then
    (if fix then s.delIdx st f key id else s, [⟨st, f, .sxDangling key id, fix⟩])
  else if !s.hasVal st id f key then
    (if fix then s.delIdx st f key id else s, [⟨st, f, .sxStale key id, fix⟩])
  else (s, [])

/-- `referenceCount` after the inner loop: in fix mode the entries that were not deleted -/
def sxKept (st f : Name) (fix : Bool) (key : Bytes) (s : St) (l : List Id) : Nat :=
  if fix then (l.filter fun id => s.present st id && s.hasVal st id f key).length else l.length

/-- first pass, at key `kv.1` of the index bucket; returns the keys to delete afterwards -/
def sxStep1 (st f : Name) (fix : Bool) (s : St) (kv : Bytes × SVal) : St × List Report :=
  match kv.2 with
  | .junk =>
    (if fix then s.setSetx st f (del kv.1 (s.setx st f)) else s, [⟨st, f, .sxJunk kv.1, fix⟩])
  | .ids l =>
    let r := runSteps (sxInner st f fix kv.1) l s
    -- `referenceCount == 0 && !hadRefs` holds exactly for an empty value bucket
    (r.1, r.2 ++ (if l = [] then [⟨st, f, .sxEmpty kv.1, fix⟩] else []))

/-- the `toDelete` list: keys whose `referenceCount` ended at 0 (fix mode only) -/
def sxToDelete (st f : Name) (fix : Bool) (s : St) : List (Bytes × SVal) → List Bytes
  | [] => []
  | kv :: t =>
    match kv.2 with
    | .junk => sxToDelete st f fix s t
    | .ids l =>
      if fix ∧ sxKept st f fix kv.1 s l = 0 then kv.1 :: sxToDelete st f fix s t
      else sxToDelete st f fix s t

def sxDeleteKeys (st f : Name) (keys : List Bytes) (s : St) : St :=
  keys.foldl (fun s k => s.setSetx st f (del k (s.setx st f))) s

/-- `getIndexBucket(tx, value)` (creating) followed by `Put(typedId, nil)` -/
def St.addIdx (s : St) (st f : Name) (val : Bytes) (id : Id) : St :=
  match get val (s.setx st f) with
  | some (.ids l) => s.setSetx st f (put val (.ids (sins id l)) (s.setx st f))
  | _ => s.setSetx st f (put val (.ids [id]) (s.setx st f))

/-- `idxBucket != nil && idxBucket.IsKeyPresent(key)` -/
def St.inIdx (s : St) (st f : Name) (val : Bytes) (id : Id) : Bool :=
  match get val (s.setx st f) with
  | some (.ids l) => l.contains id
  | _ => false

def sxStep2Val (st f : Name) (fix : Bool) (id : Id) (s : St) (val : Bytes) : St × List Report :=
  if s.inIdx st f val id then
    -- fix mode still calls the creating getIndexBucket, which finds the bucket
    (s, [])
  else (if fix then s.addIdx st f val id else s, [⟨st, f, .sxMissing val id, fix⟩])

def sxStep2 (st f : Name) (fix : Bool) (s : St) (id : Id) : St × List Report :=
  runSteps (sxStep2Val st f fix id) (s.setOf st id f) s

def setCheck (st f : Name) (fix : Bool) : Proc :=
  Proc.seq (fun s =>
      let r := runSteps (sxStep1 st f fix) (s.setx st f) s
      (sxDeleteKeys st f (sxToDelete st f fix s (s.setx st f)) r.1, r.2))
    (fun s => runSteps (sxStep2 st f fix) (s.ids st) s)

/-! ### fkIndex.CheckIntegrity -/

/-- first pass inner loop: back-reference `fkId` found in the list `fkF` of entity `id` of `fkSt` -/
def fkInner1 (st f fkSt fkF : Name) (fix : Bool) (id : Id) (s : St) (fkId : Id) : St × List Report :=
  if !s.present st fkId then
    (if fix then s.delFromSet fkSt id fkF fkId else s, [⟨st, f, .fkBackDangling id fkId, fix⟩])
  else if s.evalB st fkId f = [] ∨ s.evalB st fkId f ≠ id then
    (if fix then s.delFromSet fkSt id fkF fkId else s,
      [⟨st, f, .fkBackStale id fkId (s.evalB st fkId f), fix⟩])
  else (s, [])

def fkStep1 (st f fkSt fkF : Name) (fix : Bool) (s : St) (id : Id) : St × List Report :=
  runSteps (fkInner1 st f fkSt fkF fix id) (s.setOf fkSt id fkF) s

/-- `indexBucket != nil && indexBucket.IsKeyPresent(typedKey)` via `getIndexBucketReadOnly` -/
def St.hasBack (s : St) (fkSt : Name) (target : Id) (fkF : Name) (id : Id) : Bool :=
  (s.setOf fkSt target fkF).contains id

/-- the dangling-reference branch shared by fkIndex and fkConstraint
    (`tryFix := nullable && fix && len(path) == 1`; every modelled symbol has a one-element path) -/
def fkDanglingStep (st f : Name) (nullable fix : Bool) (s : St) (id key : Id) : St × List Report :=
  (if nullable && fix then s.modEnt st id fun e => e.setField f .nil else s,
    [⟨st, f, .fkDangling id key, nullable && fix⟩])

def fkStep2 (st f : Name) (nullable : Bool) (fkSt fkF : Name) (fix : Bool) (s : St) (id : Id) :
    St × List Report :=
  if s.evalB st id f = [] then
    (s, if nullable then [] else [⟨st, f, .fkNull id, false⟩])
  else if !s.present fkSt (s.evalB st id f) then fkDanglingStep st f nullable fix s id (s.evalB st id f)
  else if s.hasBack fkSt (s.evalB st id f) fkF id then (s, [])
  else
    (if fix then s.addToSet fkSt (s.evalB st id f) fkF id else s,
      [⟨st, f, .fkBackMissing id (s.evalB st id f), fix⟩])

def fkIndexCheck (st f : Name) (nullable : Bool) (fkSt fkF : Name) (fix : Bool) : Proc :=
  Proc.seq (fun s => runSteps (fkStep1 st f fkSt fkF fix) (s.ids fkSt) s)
    (fun s => runSteps (fkStep2 st f nullable fkSt fkF fix) (s.ids st) s)

/-! ### fkConstraint.CheckIntegrity -/

def fcStep (st f : Name) (nullable : Bool) (linked : Name) (fix : Bool) (s : St) (id : Id) :
    St × List Report :=
  if s.evalB st id f = [] then
    (s, if nullable then [] else [⟨st, f, .fkNull id, false⟩])
  else if !s.present linked (s.evalB st id f) then fkDanglingStep st f nullable fix s id (s.evalB st id f)
  else (s, [])

def fkConsCheck (st f : Name) (nullable : Bool) (linked : Name) (fix : Bool) : Proc :=
  fun s => runSteps (fcStep st f nullable linked fix) (s.ids st) s

/-! ### linkCollectionImpl.CheckIntegrity -/

/-- one link `linkId` of entity `id`.  A dangling link is only *queued* (`dangling = append(...)`,
    fix 0fc3c29) and removed after the loop, see `lkStep`; a missing reverse link is added at once. -/
def lkInner (st f oSt oF : Name) (fix : Bool) (id : Id) (s : St) (linkId : Id) : St × List Report :=
  if !s.present oSt linkId then (s, [⟨st, f, .lkDangling id linkId, fix⟩])
  else if !s.hasBack oSt linkId oF id then
    -- otherField.AddLink: GetOrCreatePath + SetListEntry
    (if fix then s.addToSet oSt linkId oF id else s, [⟨st, f, .lkOneSided id linkId, fix⟩])
  else (s, [])

/-- `RemoveLink` of every queued dangling link (`checkAndUnlink`: delete the local entry; the
    other side has no entity bucket) -/
def lkRemoveAll (st f : Name) (id : Id) (dangling : List Id) (s : St) : St :=
  dangling.foldl (fun x l => x.delFromSet st id f l) s

/-- `IterateLinks` is a read-only lookup (fix 946f949): a missing link bucket is an empty list -/
def lkStep (st f oSt oF : Name) (fix : Bool) (s : St) (id : Id) : St × List Report :=
  let links := s.setOf st id f
  let r := runSteps (lkInner st f oSt oF fix id) links s
  (if fix then lkRemoveAll st f id (links.filter fun l => !s.present oSt l) r.1 else r.1, r.2)

def linkCheck (st f oSt oF : Name) (hasInverse fix : Bool) : Proc :=
  Proc.seq (fun s => (s, if hasInverse then [] else [⟨st, f, .lkNoInverse, false⟩]))
    (fun s => runSteps (lkStep st f oSt oF fix) (s.ids st) s)

/-! ### schema and BaseStore.CheckIntegrity -/

inductive Constraint
  | unique (st f : Name) (nullable : Bool)
  | setIdx (st f : Name)
  | fkIndex (st f : Name) (nullable : Bool) (fkSt fkF : Name)
  | fkCons (st f : Name) (nullable : Bool) (linked : Name)
  /-- fkDeleteConstraint, fkDeleteCascadeConstraint, systemEntityConstraint: `return nil` -/
  | noop
  deriving DecidableEq, Repr

structure LinkColl where
  st : Name
  f : Name
  oSt : Name
  oF : Name
  deriving DecidableEq, Repr

structure StoreDef where
  name : Name
  links : List LinkColl
  constraints : List Constraint
  deriving Repr

abbrev Schema := List StoreDef

def Constraint.check (fix : Bool) : Constraint → Proc
  | .unique st f n => uniqueCheck st f n fix
  | .setIdx st f => setCheck st f fix
  | .fkIndex st f n fkSt fkF => fkIndexCheck st f n fkSt fkF fix
  | .fkCons st f n linked => fkConsCheck st f n linked fix
  | .noop => Proc.skip

/-- the `foundInverse` loop over `otherField.GetStore().getLinks()` -/
def Schema.hasInverse (S : Schema) (lc : LinkColl) : Bool :=
  S.any fun sd => sd.name == lc.oSt &&
    sd.links.any fun o => o.st == lc.oSt && o.f == lc.oF && o.oSt == lc.st && o.oF == lc.f

def LinkColl.check (S : Schema) (fix : Bool) (lc : LinkColl) : Proc :=
  linkCheck lc.st lc.f lc.oSt lc.oF (S.hasInverse lc) fix

/-- `BaseStore.CheckIntegrity` -/
def StoreDef.check (S : Schema) (fix : Bool) (sd : StoreDef) : Proc :=
  Proc.seq (seqAll (sd.links.map (LinkColl.check S fix))) (seqAll (sd.constraints.map (Constraint.check fix)))

/-- the checker run over every store, in schema order -/
def checkAll (S : Schema) (fix : Bool) : Proc :=
  seqAll (S.map (StoreDef.check S fix))

/-! ### nested buckets created through `GetOrCreatePath`

  The existence of an empty nested bucket is not part of the state.  Creating call sites inside
  the checker: `otherField.AddLink` (repair of a one-sided link) and `fkIndex.getIndexBucket` in
  the fix branch (repair of a missing back-reference); both coincide with a `fixed` report.
  (`RemoveLink → getFieldBucket` only ever meets the bucket the dangling link was read from.) -/

def Schema.linkColls (S : Schema) : List LinkColl := S.flatMap (·.links)

/-- the bucket a repairing write creates if necessary -/
def reportEnsures (S : Schema) (r : Report) : List (Name × Id × Name) :=
  if !r.fixed then []
  else match r.msg with
    | .lkOneSided _ l =>
      S.linkColls.filterMap fun lc => if lc.st = r.store ∧ lc.f = r.field then some (lc.oSt, l, lc.oF) else none
    | .fkBackMissing _ t =>
      S.flatMap fun sd => sd.constraints.filterMap fun c =>
        match c with
        | .fkIndex st f _ fkSt fkF => if st = r.store ∧ f = r.field then some (fkSt, t, fkF) else none
        | _ => none
    | _ => []

/-- all nested buckets a run of `checkAll` that produced `reports` has created or found -/
def bucketsEnsured (S : Schema) (reports : List Report) : List (Name × Id × Name) :=
  reports.flatMap (reportEnsures S)

end StorageModel.C09
