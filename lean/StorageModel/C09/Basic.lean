import StorageModel.C09.Spec
/-
  C09 — basic lemmas: buckets (`get`/`put`/`del`), string lists (`sins`/`sdel`), `runSteps`,
  `Proc.seq`, state readers under the state updates.
-/
namespace StorageModel.C09
open StorageModel

/-! ### buckets -/

section bucket
variable {V : Type}

@[simp] theorem get_nil (k : Bytes) : get k ([] : List (Bytes × V)) = none := rfl

theorem get_cons (k : Bytes) (p : Bytes × V) (t : List (Bytes × V)) :
    get k (p :: t) = if k = p.1 then some p.2 else get k t := rfl

theorem get_some_mem {k : Bytes} {v : V} {l : List (Bytes × V)} (h : get k l = some v) : (k, v) ∈ l := by
  induction l with
  | nil => simp at h
  | cons p t ih =>
    rw [get_cons] at h
    split at h
    · next hk => cases h; subst hk; exact List.mem_cons_self ..
    · exact List.mem_cons_of_mem _ (ih h)

theorem get_none_iff {k : Bytes} {l : List (Bytes × V)} : get k l = none ↔ ∀ p ∈ l, p.1 ≠ k := by
  induction l with
  | nil => simp
  | cons p t ih =>
    rw [get_cons]
    constructor
    · intro h
      split at h
      · cases h
      · next hk =>
        intro q hq
        rcases List.mem_cons.1 hq with rfl | hq
        · exact fun e => hk e.symm
        · exact ih.1 h q hq
    · intro h
      have hp := h p (List.mem_cons_self ..)
      rw [if_neg (fun e => hp e.symm)]
      exact ih.2 fun q hq => h q (List.mem_cons_of_mem _ hq)

theorem get_isSome_iff {k : Bytes} {l : List (Bytes × V)} : (get k l).isSome ↔ ∃ p ∈ l, p.1 = k := by
  induction l with
  | nil => simp
  | cons p t ih =>
    rw [get_cons]
    by_cases h : k = p.1
    · simp only [h, if_true, Option.isSome_some, true_iff]
      exact ⟨p, List.mem_cons_self .., rfl⟩
    · rw [if_neg h, ih]
      constructor
      · rintro ⟨q, hq, e⟩; exact ⟨q, List.mem_cons_of_mem _ hq, e⟩
      · rintro ⟨q, hq, e⟩
        rcases List.mem_cons.1 hq with rfl | hq
        · exact absurd e.symm h
        · exact ⟨q, hq, e⟩

theorem get_of_mem_nodup {k : Bytes} {v : V} {l : List (Bytes × V)} (hn : NodupKeys l) (h : (k, v) ∈ l) :
    get k l = some v := by
  induction l with
  | nil => cases h
  | cons p t ih =>
    rw [get_cons]
    have hn' : NodupKeys t := by
      unfold NodupKeys at hn ⊢; rw [List.map_cons] at hn; exact (List.nodup_cons.1 hn).2
    rcases List.mem_cons.1 h with rfl | ht
    · simp
    · have hne : k ≠ p.1 := by
        unfold NodupKeys at hn; rw [List.map_cons] at hn
        intro e
        exact (List.nodup_cons.1 hn).1 (e ▸ List.mem_map_of_mem (f := (·.1)) ht)
      rw [if_neg hne]; exact ih hn' ht

theorem nodupKeys_tail {p : Bytes × V} {t : List (Bytes × V)} (h : NodupKeys (p :: t)) : NodupKeys t := by
  unfold NodupKeys at h ⊢; rw [List.map_cons] at h; exact (List.nodup_cons.1 h).2

theorem nodupKeys_head {p : Bytes × V} {t : List (Bytes × V)} (h : NodupKeys (p :: t)) :
    ∀ q ∈ t, q.1 ≠ p.1 := by
  unfold NodupKeys at h; rw [List.map_cons] at h
  intro q hq e
  exact (List.nodup_cons.1 h).1 (e ▸ List.mem_map_of_mem (f := (·.1)) hq)

theorem get_del (k k' : Bytes) (l : List (Bytes × V)) :
    get k' (del k l) = if k' = k then none else get k' l := by
  induction l with
  | nil => simp [del]
  | cons p t ih =>
    unfold del at ih ⊢
    rw [List.filter_cons]
    by_cases hp : p.1 = k
    · simp only [hp, ne_eq, not_true_eq_false, decide_false, Bool.false_eq_true, if_false, ih, get_cons]
      by_cases h1 : k' = k <;> simp [h1]
    · simp only [hp, ne_eq, not_false_eq_true, decide_true, if_true, get_cons, ih]
      by_cases h1 : k' = p.1
      · have : ¬ k' = k := fun e => hp (h1 ▸ e)
        rw [if_pos h1, if_neg this, if_pos h1]
      · rw [if_neg h1, if_neg h1]

theorem get_ins (k k' : Bytes) (v : V) (l : List (Bytes × V)) (hk : get k l = none) :
    get k' (ins k v l) = if k' = k then some v else get k' l := by
  induction l with
  | nil => simp [ins, get_cons]
  | cons p t ih =>
    rw [get_cons] at hk
    split at hk
    · cases hk
    · next hne =>
      unfold ins
      split
      · simp only [get_cons]
      · simp only [get_cons, ih hk]
        by_cases h2 : k' = p.1
        · have : ¬ k' = k := fun e => hne (e ▸ h2)
          rw [if_pos h2, if_neg this, if_pos h2]
        · rw [if_neg h2, if_neg h2]

theorem get_replace (k k' : Bytes) (v : V) (l : List (Bytes × V)) :
    get k' (l.map fun p => if p.1 = k then (k, v) else p) = if k' = k then (get k l).map (fun _ => v) else get k' l := by
  induction l with
  | nil => simp
  | cons p t ih =>
    simp only [List.map_cons, get_cons, ih]
    by_cases hp : p.1 = k
    · by_cases hk : k' = k
      · simp [hp, hk]
      · have : ¬ k' = p.1 := fun e => hk (e.trans hp)
        simp [hp, hk, this]
    · have hp' : ¬ k = p.1 := fun e => hp e.symm
      by_cases hk : k' = p.1
      · have h1 : ¬ k' = k := fun e => hp (hk ▸ e)
        have h1' : ¬ p.1 = k := hp
        simp [hp, hk, h1']
      · by_cases h1 : k' = k
        · simp [hp, hk, h1, hp']
        · simp [hp, hk, h1]

theorem get_put (k k' : Bytes) (v : V) (l : List (Bytes × V)) :
    get k' (put k v l) = if k' = k then some v else get k' l := by
  unfold put
  split
  · next h =>
    rw [get_replace]
    split
    · cases hg : get k l with
      | none => rw [hg] at h; cases h
      | some x => rfl
    · rfl
  · next h =>
    have : get k l = none := by
      cases hg : get k l with
      | none => rfl
      | some x => rw [hg] at h; exact absurd rfl h
    exact get_ins k k' v l this

theorem mem_del {k : Bytes} {l : List (Bytes × V)} {p : Bytes × V} : p ∈ del k l ↔ p ∈ l ∧ p.1 ≠ k := by
  simp [del]

theorem mem_ins {k : Bytes} {v : V} {l : List (Bytes × V)} {p : Bytes × V} : p ∈ ins k v l ↔ p = (k, v) ∨ p ∈ l := by
  induction l with
  | nil => simp [ins]
  | cons q t ih =>
    unfold ins
    split
    · simp
    · simp only [List.mem_cons, ih]
      constructor
      · rintro (h | h | h)
        · exact Or.inr (Or.inl h)
        · exact Or.inl h
        · exact Or.inr (Or.inr h)
      · rintro (h | h | h)
        · exact Or.inr (Or.inl h)
        · exact Or.inl h
        · exact Or.inr (Or.inr h)

theorem mem_put_sub {k : Bytes} {v : V} {l : List (Bytes × V)} {p : Bytes × V} (h : p ∈ put k v l) :
    p = (k, v) ∨ p ∈ l := by
  unfold put at h
  split at h
  · obtain ⟨q, hq, rfl⟩ := List.mem_map.1 h
    split
    · exact Or.inl rfl
    · exact Or.inr hq
  · exact mem_ins.1 h

theorem keys_ins (k : Bytes) (v : V) (l : List (Bytes × V)) :
    ∀ x, x ∈ (ins k v l).map (·.1) ↔ x = k ∨ x ∈ l.map (·.1) := by
  intro x
  simp only [List.mem_map]
  constructor
  · rintro ⟨p, hp, rfl⟩
    rcases mem_ins.1 hp with rfl | hp
    · exact Or.inl rfl
    · exact Or.inr ⟨p, hp, rfl⟩
  · rintro (rfl | ⟨p, hp, rfl⟩)
    · exact ⟨(x, v), mem_ins.2 (Or.inl rfl), rfl⟩
    · exact ⟨p, mem_ins.2 (Or.inr hp), rfl⟩

theorem nodupKeys_ins {k : Bytes} {v : V} {l : List (Bytes × V)} (hn : NodupKeys l) (hk : get k l = none) :
    NodupKeys (ins k v l) := by
  induction l with
  | nil => simp [ins, NodupKeys]
  | cons p t ih =>
    have hne : ¬ k = p.1 := by
      intro e; rw [get_cons, if_pos e] at hk; cases hk
    have hk' : get k t = none := by rw [get_cons, if_neg hne] at hk; exact hk
    unfold ins
    split
    · unfold NodupKeys at hn ⊢
      rw [List.map_cons]
      refine List.nodup_cons.2 ⟨?_, hn⟩
      intro hmem
      obtain ⟨q, hq, e⟩ := List.mem_map.1 hmem
      rcases List.mem_cons.1 hq with rfl | hq
      · exact hne e.symm
      · exact (get_none_iff.1 hk') q hq e
    · have iht := ih (nodupKeys_tail hn) hk'
      unfold NodupKeys at hn iht ⊢
      rw [List.map_cons] at hn ⊢
      refine List.nodup_cons.2 ⟨?_, iht⟩
      intro hmem
      rcases (keys_ins k v t p.1).1 hmem with e | hm
      · exact hne e.symm
      · exact (List.nodup_cons.1 hn).1 hm

theorem nodupKeys_put {k : Bytes} {v : V} {l : List (Bytes × V)} (hn : NodupKeys l) : NodupKeys (put k v l) := by
  unfold put
  split
  · unfold NodupKeys at hn ⊢
    rw [List.map_map]
    have : ((fun x : Bytes × V => x.1) ∘ fun p : Bytes × V => if p.1 = k then (k, v) else p) = fun x => x.1 := by
      funext p
      simp only [Function.comp]
      split
      · next h => exact h.symm
      · rfl
    rw [this]; exact hn
  · next h =>
    apply nodupKeys_ins hn
    cases hg : get k l with
    | none => rfl
    | some x => rw [hg] at h; exact absurd rfl h

theorem nodupKeys_del {k : Bytes} {l : List (Bytes × V)} (hn : NodupKeys l) : NodupKeys (del k l) := by
  unfold NodupKeys del at *
  exact (List.filter_sublist.map _).nodup hn

end bucket

/-! ### string lists -/

theorem mem_sinsRaw {x y : Bytes} {l : List Bytes} : y ∈ sinsRaw x l ↔ y = x ∨ y ∈ l := by
  induction l with
  | nil => simp [sinsRaw]
  | cons z t ih =>
    unfold sinsRaw
    split
    · simp
    · simp only [List.mem_cons, ih]
      constructor
      · rintro (h | h | h)
        · exact Or.inr (Or.inl h)
        · exact Or.inl h
        · exact Or.inr (Or.inr h)
      · rintro (h | h | h)
        · exact Or.inr (Or.inl h)
        · exact Or.inl h
        · exact Or.inr (Or.inr h)

theorem mem_sins {x y : Bytes} {l : List Bytes} : y ∈ sins x l ↔ y = x ∨ y ∈ l := by
  unfold sins
  split
  · next h =>
    have hx : x ∈ l := by simpa using h
    constructor
    · exact Or.inr
    · rintro (rfl | h)
      · exact hx
      · exact h
  · exact mem_sinsRaw

theorem nodup_sinsRaw {x : Bytes} {l : List Bytes} (hn : l.Nodup) (hx : x ∉ l) : (sinsRaw x l).Nodup := by
  induction l with
  | nil => simp [sinsRaw]
  | cons z t ih =>
    unfold sinsRaw
    split
    · exact List.nodup_cons.2 ⟨hx, hn⟩
    · have hz := List.nodup_cons.1 hn
      refine List.nodup_cons.2 ⟨?_, ih hz.2 (fun h => hx (List.mem_cons_of_mem _ h))⟩
      intro hm
      rcases mem_sinsRaw.1 hm with e | hm
      · exact hx (e ▸ List.mem_cons_self ..)
      · exact hz.1 hm

theorem nodup_sins {x : Bytes} {l : List Bytes} (hn : l.Nodup) : (sins x l).Nodup := by
  unfold sins
  split
  · exact hn
  · next h => exact nodup_sinsRaw hn (by simpa using h)

theorem mem_sdel {x y : Bytes} {l : List Bytes} : y ∈ sdel x l ↔ y ∈ l ∧ y ≠ x := by
  simp [sdel]

theorem nodup_sdel {x : Bytes} {l : List Bytes} (hn : l.Nodup) : (sdel x l).Nodup :=
  List.filter_sublist.nodup hn


/-! ### `runSteps`, `Proc.seq` -/

@[simp] theorem runSteps_nil {α : Type} (step : St → α → St × List Report) (s : St) :
    runSteps step [] s = (s, []) := rfl

theorem runSteps_cons {α : Type} (step : St → α → St × List Report) (a : α) (as : List α) (s : St) :
    runSteps step (a :: as) s =
      ((runSteps step as (step s a).1).1, (step s a).2 ++ (runSteps step as (step s a).1).2) := rfl

@[simp] theorem seq_fst (p q : Proc) (s : St) : (p.seq q s).1 = (q (p s).1).1 := rfl
@[simp] theorem seq_snd (p q : Proc) (s : St) : (p.seq q s).2 = (p s).2 ++ (q (p s).1).2 := rfl
@[simp] theorem skip_apply (s : St) : Proc.skip s = (s, []) := rfl
@[simp] theorem seqAll_nil : seqAll [] = Proc.skip := rfl
@[simp] theorem seqAll_cons (p : Proc) (ps : List Proc) : seqAll (p :: ps) = p.seq (seqAll ps) := rfl

/-- a loop whose body never writes: the state is unchanged and the reports are collected -/
theorem runSteps_id {α : Type} (step : St → α → St × List Report) (h : ∀ s a, (step s a).1 = s)
    (l : List α) (s : St) : runSteps step l s = (s, l.flatMap fun a => (step s a).2) := by
  induction l with
  | nil => rfl
  | cons a t ih => rw [runSteps_cons, h, ih]; simp

end StorageModel.C09
