import StorageModel.C09.SoundComplete
/-
  C09 — the checker in fix mode: what one run establishes (convergence), per constraint kind.
-/
namespace StorageModel.C09
open StorageModel

/-! ### loops: invariants, and facts established element by element -/

theorem runSteps_inv {α : Type} (step : St → α → St × List Report) (I : St → Prop)
    (hI : ∀ s a, I s → I (step s a).1) (l : List α) (s : St) (h : I s) : I (runSteps step l s).1 := by
  induction l generalizing s with
  | nil => exact h
  | cons a t ih => rw [runSteps_cons]; exact ih _ (hI s a h)

/-- a loop over a set of elements of `l` only -/
theorem runSteps_inv_mem {α : Type} (step : St → α → St × List Report) (I : St → Prop) (l : List α)
    (hI : ∀ s, ∀ a ∈ l, I s → I (step s a).1) (s : St) (h : I s) : I (runSteps step l s).1 := by
  induction l generalizing s with
  | nil => exact h
  | cons a t ih =>
    rw [runSteps_cons]
    exact ih (fun s b hb => hI s b (List.mem_cons_of_mem _ hb)) _ (hI s a (List.mem_cons_self ..) h)

/-- if every step establishes `Q · a` for its own element and no step destroys `Q · b`, then after
    the loop `Q` holds for every element of the list (`I` is an invariant the steps may assume) -/
theorem runSteps_establish {α : Type} (step : St → α → St × List Report) (I : St → Prop) (Q : St → α → Prop)
    (hI : ∀ s a, I s → I (step s a).1)
    (hpres : ∀ s a b, I s → Q s b → Q (step s a).1 b)
    (hest : ∀ s a, I s → Q (step s a).1 a)
    (l : List α) (s : St) (h : I s) : ∀ a ∈ l, Q (runSteps step l s).1 a := by
  induction l generalizing s with
  | nil => intro a ha; cases ha
  | cons a t ih =>
    intro b hb
    rw [runSteps_cons]
    rcases List.mem_cons.1 hb with rfl | hb
    · have h1 : I (step s b).1 := hI s b h
      have h2 : Q (step s b).1 b := hest s b h
      exact (runSteps_inv step (fun s => I s ∧ Q s b)
        (fun s a ⟨hi, hq⟩ => ⟨hI s a hi, hpres s a b hi hq⟩) t _ ⟨h1, h2⟩).2
    · exact ih _ (hI s a h) b hb

/-- variant of `runSteps_establish` whose side conditions may use membership in the list -/
theorem runSteps_establish_mem {α : Type} (step : St → α → St × List Report) (I : St → Prop) (Q : St → α → Prop)
    (l : List α)
    (hI : ∀ s, ∀ a ∈ l, I s → I (step s a).1)
    (hpres : ∀ s, ∀ a ∈ l, ∀ b ∈ l, I s → Q s b → Q (step s a).1 b)
    (hest : ∀ s, ∀ a ∈ l, I s → Q (step s a).1 a)
    (s : St) (h : I s) : ∀ a ∈ l, Q (runSteps step l s).1 a := by
  suffices H : ∀ l' : List α, (∀ a ∈ l', a ∈ l) → ∀ s, I s → ∀ a ∈ l', Q (runSteps step l' s).1 a from
    H l (fun _ h => h) s h
  intro l'
  induction l' with
  | nil => intro _ _ _ a ha; cases ha
  | cons a t ih =>
    intro hsub s h b hb
    rw [runSteps_cons]
    have ha : a ∈ l := hsub a (List.mem_cons_self ..)
    have ht : ∀ c ∈ t, c ∈ l := fun c hc => hsub c (List.mem_cons_of_mem _ hc)
    rcases List.mem_cons.1 hb with rfl | hb
    · have h1 : I (step s b).1 := hI s b ha h
      have h2 : Q (step s b).1 b := hest s b ha h
      exact (runSteps_inv_mem step (fun s => I s ∧ Q s b) t
        (fun s c hc ⟨hi, hq⟩ => ⟨hI s c (ht c hc) hi, hpres s c (ht c hc) b ha hi hq⟩) _ ⟨h1, h2⟩).2
    · exact ih ht _ (hI s a ha h) b hb

/-! ### state updates -/

@[simp] theorem setUniq_ents (s : St) (st f : Name) (b : List (Bytes × Id)) : (s.setUniq st f b).ents = s.ents := rfl
@[simp] theorem setUniq_setx (s : St) (st f : Name) (b : List (Bytes × Id)) : (s.setUniq st f b).setx = s.setx := rfl
@[simp] theorem setUniq_uniq_self (s : St) (st f : Name) (b : List (Bytes × Id)) : (s.setUniq st f b).uniq st f = b := by
  simp [St.setUniq]
theorem setUniq_uniq_other (s : St) (st f st' f' : Name) (b : List (Bytes × Id)) (h : ¬(st' = st ∧ f' = f)) :
    (s.setUniq st f b).uniq st' f' = s.uniq st' f' := by
  simp [St.setUniq, h]

/-- readers that only look at the entity tables -/
theorem present_congr {s s' : St} (h : s'.ents = s.ents) (st : Name) (id : Id) : s'.present st id = s.present st id := by
  unfold St.present St.ent; rw [h]
theorem evalT_congr {s s' : St} (h : s'.ents = s.ents) (st : Name) (id : Id) (f : Name) :
    s'.evalT st id f = s.evalT st id f := by
  unfold St.evalT St.ent; rw [h]
theorem evalB_congr {s s' : St} (h : s'.ents = s.ents) (st : Name) (id : Id) (f : Name) :
    s'.evalB st id f = s.evalB st id f := by
  unfold St.evalB; rw [evalT_congr h]
theorem setOf_congr {s s' : St} (h : s'.ents = s.ents) (st : Name) (id : Id) (f : Name) :
    s'.setOf st id f = s.setOf st id f := by
  unfold St.setOf St.ent; rw [h]
theorem ids_congr {s s' : St} (h : s'.ents = s.ents) (st : Name) : s'.ids st = s.ids st := by
  unfold St.ids; rw [h]

/-! ### `modEnt` -/

theorem get_modmap (id : Id) (g : Ent → Ent) (l : List (Id × Ent)) (k : Id) :
    get k (l.map fun p => if p.1 = id then (p.1, g p.2) else p) = if k = id then (get k l).map g else get k l := by
  induction l with
  | nil => simp
  | cons p t ih =>
    rw [List.map_cons, get_cons, get_cons, ih]
    by_cases hp : p.1 = id
    · simp only [hp, if_true]
      by_cases hk : k = id
      · simp [hk]
      · simp [hk]
    · simp only [hp, if_false]
      by_cases hk : k = p.1
      · have : ¬ k = id := fun e => hp (hk ▸ e)
        simp [hk, this]
        intro e; exact absurd e hp
      · simp only [hk, if_false]

@[simp] theorem modEnt_uniq (s : St) (st : Name) (id : Id) (g : Ent → Ent) : (s.modEnt st id g).uniq = s.uniq := rfl
@[simp] theorem modEnt_setx (s : St) (st : Name) (id : Id) (g : Ent → Ent) : (s.modEnt st id g).setx = s.setx := rfl

theorem modEnt_ent (s : St) (st : Name) (id : Id) (g : Ent → Ent) (st' : Name) (id' : Id) :
    (s.modEnt st id g).ent st' id' = if st' = st ∧ id' = id then (s.ent st' id').map g else s.ent st' id' := by
  unfold St.ent St.modEnt
  by_cases h : st' = st
  · subst h
    simp only [if_true, true_and, get_modmap]
  · simp [h]

theorem modEnt_ids (s : St) (st : Name) (id : Id) (g : Ent → Ent) (st' : Name) :
    (s.modEnt st id g).ids st' = s.ids st' := by
  unfold St.ids St.modEnt
  by_cases h : st' = st
  · subst h
    simp only [if_true, List.map_map]
    apply List.map_congr_left
    intro p _
    simp only [Function.comp]
    split <;> rfl
  · simp [h]

theorem modEnt_present (s : St) (st : Name) (id : Id) (g : Ent → Ent) (st' : Name) (id' : Id) :
    (s.modEnt st id g).present st' id' = s.present st' id' := by
  unfold St.present
  rw [modEnt_ent]
  split <;> simp

theorem modEnt_evalT (s : St) (st : Name) (id : Id) (g : Ent → Ent) (st' : Name) (id' : Id) (f' : Name) :
    (s.modEnt st id g).evalT st' id' f' =
      if st' = st ∧ id' = id then (match s.ent st' id' with | some e => (g e).fields f' | none => .nil)
      else s.evalT st' id' f' := by
  unfold St.evalT
  rw [modEnt_ent]
  by_cases h : st' = st ∧ id' = id
  · rw [if_pos h, if_pos h]; cases s.ent st' id' <;> rfl
  · rw [if_neg h, if_neg h]

theorem modEnt_setOf (s : St) (st : Name) (id : Id) (g : Ent → Ent) (st' : Name) (id' : Id) (f' : Name) :
    (s.modEnt st id g).setOf st' id' f' =
      if st' = st ∧ id' = id then (match s.ent st' id' with | some e => (g e).sets f' | none => [])
      else s.setOf st' id' f' := by
  unfold St.setOf
  rw [modEnt_ent]
  by_cases h : st' = st ∧ id' = id
  · rw [if_pos h, if_pos h]; cases s.ent st' id' <;> rfl
  · rw [if_neg h, if_neg h]

/-- nulling a field: what `Eval` sees afterwards -/
theorem setNil_evalB (s : St) (st : Name) (id : Id) (f : Name) (st' : Name) (id' : Id) (f' : Name) :
    (s.modEnt st id fun e => e.setField f .nil).evalB st' id' f' =
      if st' = st ∧ id' = id ∧ f' = f then [] else s.evalB st' id' f' := by
  unfold St.evalB
  rw [modEnt_evalT]
  by_cases h : st' = st ∧ id' = id
  · rw [if_pos h]
    unfold St.evalT
    cases s.ent st' id' with
    | none => simp [FVal.bytes]
    | some e =>
      simp only [Ent.setField]
      by_cases hf : f' = f
      · simp [hf, h, FVal.bytes]
      · simp [hf]
  · rw [if_neg h]
    have : ¬(st' = st ∧ id' = id ∧ f' = f) := fun ⟨a, b, _⟩ => h ⟨a, b⟩
    rw [if_neg this]

theorem setNil_setOf (s : St) (st : Name) (id : Id) (f : Name) (st' : Name) (id' : Id) (f' : Name) :
    (s.modEnt st id fun e => e.setField f .nil).setOf st' id' f' = s.setOf st' id' f' := by
  rw [modEnt_setOf]
  split
  · unfold St.setOf; cases s.ent st' id' <;> rfl
  · rfl

/-- writing a list bucket: scalar fields are untouched -/
theorem setSet_evalB (s : St) (st : Name) (id : Id) (f : Name) (g : List Bytes → List Bytes) (st' : Name) (id' : Id)
    (f' : Name) : (s.modEnt st id fun e => e.setSet f (g (e.sets f))).evalB st' id' f' = s.evalB st' id' f' := by
  unfold St.evalB
  rw [modEnt_evalT]
  split
  · unfold St.evalT; cases s.ent st' id' <;> rfl
  · rfl

theorem setSet_setOf (s : St) (st : Name) (id : Id) (f : Name) (g : List Bytes → List Bytes) (st' : Name) (id' : Id)
    (f' : Name) :
    (s.modEnt st id fun e => e.setSet f (g (e.sets f))).setOf st' id' f' =
      if st' = st ∧ id' = id ∧ f' = f ∧ s.present st' id' = true then g (s.setOf st' id' f') else s.setOf st' id' f' := by
  rw [modEnt_setOf]
  unfold St.setOf St.present
  by_cases h : st' = st ∧ id' = id
  · rw [if_pos h]
    cases he : s.ent st' id' with
    | none => simp
    | some e =>
      simp only [Ent.setSet, Option.isSome_some, and_true]
      by_cases hf : f' = f
      · simp [hf, h]
      · simp [hf]
  · rw [if_neg h]
    have : ¬(st' = st ∧ id' = id ∧ f' = f ∧ (s.ent st' id').isSome = true) := fun ⟨a, b, _⟩ => h ⟨a, b⟩
    rw [if_neg this]

theorem setNil_evalT (s : St) (st : Name) (id : Id) (f : Name) (st' : Name) (id' : Id) (f' : Name) :
    (s.modEnt st id fun e => e.setField f .nil).evalT st' id' f' =
      if st' = st ∧ id' = id ∧ f' = f then .nil else s.evalT st' id' f' := by
  rw [modEnt_evalT]
  by_cases h : st' = st ∧ id' = id
  · rw [if_pos h]
    unfold St.evalT
    cases s.ent st' id' with
    | none => simp
    | some e =>
      simp only [Ent.setField]
      by_cases hf : f' = f
      · simp [hf, h]
      · simp [hf]
  · rw [if_neg h]
    have : ¬(st' = st ∧ id' = id ∧ f' = f) := fun ⟨a, b, _⟩ => h ⟨a, b⟩
    rw [if_neg this]

theorem setSet_evalT (s : St) (st : Name) (id : Id) (f : Name) (g : List Bytes → List Bytes) (st' : Name) (id' : Id)
    (f' : Name) : (s.modEnt st id fun e => e.setSet f (g (e.sets f))).evalT st' id' f' = s.evalT st' id' f' := by
  rw [modEnt_evalT]
  split
  · unfold St.evalT; cases s.ent st' id' <;> rfl
  · rfl

/-! ### frames: what a procedure leaves alone -/

inductive Loc
  | uniq (st f : Name)
  | setx (st f : Name)
  | field (st f : Name)
  | set (st f : Name)
  deriving DecidableEq, Repr

/-- `s'` agrees with `s` everywhere outside the locations `W`; entity ids never change -/
structure Frame (W : List Loc) (s s' : St) : Prop where
  ids : ∀ st, s'.ids st = s.ids st
  present : ∀ st id, s'.present st id = s.present st id
  uniq : ∀ st f, Loc.uniq st f ∉ W → s'.uniq st f = s.uniq st f
  setx : ∀ st f, Loc.setx st f ∉ W → s'.setx st f = s.setx st f
  evalT : ∀ st f, Loc.field st f ∉ W → ∀ id, s'.evalT st id f = s.evalT st id f
  setOf : ∀ st f, Loc.set st f ∉ W → ∀ id, s'.setOf st id f = s.setOf st id f

theorem Frame.refl (W : List Loc) (s : St) : Frame W s s :=
  ⟨fun _ => rfl, fun _ _ => rfl, fun _ _ _ => rfl, fun _ _ _ => rfl, fun _ _ _ _ => rfl, fun _ _ _ _ => rfl⟩

theorem Frame.trans {W : List Loc} {a b c : St} (h1 : Frame W a b) (h2 : Frame W b c) : Frame W a c :=
  ⟨fun st => (h2.ids st).trans (h1.ids st), fun st id => (h2.present st id).trans (h1.present st id),
   fun st f h => (h2.uniq st f h).trans (h1.uniq st f h), fun st f h => (h2.setx st f h).trans (h1.setx st f h),
   fun st f h id => (h2.evalT st f h id).trans (h1.evalT st f h id),
   fun st f h id => (h2.setOf st f h id).trans (h1.setOf st f h id)⟩

theorem Frame.mono {W W' : List Loc} {a b : St} (h : Frame W a b) (hs : ∀ l ∈ W, l ∈ W') : Frame W' a b :=
  ⟨h.ids, h.present, fun st f hn => h.uniq st f fun hm => hn (hs _ hm), fun st f hn => h.setx st f fun hm => hn (hs _ hm),
   fun st f hn => h.evalT st f fun hm => hn (hs _ hm), fun st f hn => h.setOf st f fun hm => hn (hs _ hm)⟩

theorem Frame.evalB {W : List Loc} {a b : St} (h : Frame W a b) {st f : Name} (hn : Loc.field st f ∉ W) (id : Id) :
    b.evalB st id f = a.evalB st id f := by
  unfold St.evalB; rw [h.evalT st f hn]

theorem frame_of_ents {s s' : St} (h : s'.ents = s.ents) (h2 : s'.setx = s.setx) (st f : Name)
    (h3 : ∀ st' f', ¬(st' = st ∧ f' = f) → s'.uniq st' f' = s.uniq st' f') : Frame [.uniq st f] s s' :=
  ⟨ids_congr h, present_congr h,
   fun st' f' hn => h3 st' f' (fun ⟨a, b⟩ => hn (by rw [a, b]; exact List.mem_singleton.2 rfl)),
   fun st' f' _ => by rw [h2], fun st' f' _ id => evalT_congr h st' id f', fun st' f' _ id => setOf_congr h st' id f'⟩

theorem frame_setNil (s : St) (st : Name) (id : Id) (f : Name) :
    Frame [.field st f] s (s.modEnt st id fun e => e.setField f .nil) :=
  ⟨modEnt_ids s st id _, modEnt_present s st id _, fun _ _ _ => rfl, fun _ _ _ => rfl,
   fun st' f' hn id' => by
     rw [setNil_evalT]
     split
     · next h => exact absurd (by rw [h.1, h.2.2]; exact List.mem_singleton.2 rfl) hn
     · rfl,
   fun st' f' _ id' => setNil_setOf s st id f st' id' f'⟩

theorem frame_setSet (s : St) (st : Name) (id : Id) (f : Name) (g : List Bytes → List Bytes) :
    Frame [.set st f] s (s.modEnt st id fun e => e.setSet f (g (e.sets f))) :=
  ⟨modEnt_ids s st id _, modEnt_present s st id _, fun _ _ _ => rfl, fun _ _ _ => rfl,
   fun st' f' _ id' => setSet_evalT s st id f g st' id' f',
   fun st' f' hn id' => by
     rw [setSet_setOf]
     split
     · next h => exact absurd (by rw [h.1, h.2.2.1]; exact List.mem_singleton.2 rfl) hn
     · rfl⟩

theorem setOf_absent {s : St} {st : Name} {id : Id} (h : s.present st id = false) (f : Name) : s.setOf st id f = [] := by
  unfold St.present at h
  unfold St.setOf
  cases he : s.ent st id with
  | none => rfl
  | some e => rw [he] at h; cases h

theorem delFromSet_setOf (s : St) (st : Name) (id : Id) (f : Name) (x : Bytes) (st' : Name) (id' : Id) (f' : Name) :
    (s.delFromSet st id f x).setOf st' id' f' =
      if st' = st ∧ id' = id ∧ f' = f then sdel x (s.setOf st' id' f') else s.setOf st' id' f' := by
  unfold St.delFromSet
  rw [setSet_setOf]
  by_cases h : st' = st ∧ id' = id ∧ f' = f
  · rw [if_pos h]
    by_cases hp : s.present st' id' = true
    · rw [if_pos ⟨h.1, h.2.1, h.2.2, hp⟩]
    · have hp' : s.present st' id' = false := by simpa using hp
      rw [if_neg (fun c => hp c.2.2.2), setOf_absent hp']; rfl
  · rw [if_neg h, if_neg (fun c => h ⟨c.1, c.2.1, c.2.2.1⟩)]

theorem addToSet_setOf (s : St) (st : Name) (id : Id) (f : Name) (x : Bytes) (st' : Name) (id' : Id) (f' : Name) :
    (s.addToSet st id f x).setOf st' id' f' =
      if st' = st ∧ id' = id ∧ f' = f ∧ s.present st' id' = true then sins x (s.setOf st' id' f')
      else s.setOf st' id' f' := by
  unfold St.addToSet
  rw [setSet_setOf]

theorem frame_delFromSet (s : St) (st : Name) (id : Id) (f : Name) (x : Bytes) :
    Frame [.set st f] s (s.delFromSet st id f x) := frame_setSet s st id f (sdel x)

theorem frame_addToSet (s : St) (st : Name) (id : Id) (f : Name) (x : Bytes) :
    Frame [.set st f] s (s.addToSet st id f x) := frame_setSet s st id f (sins x)

/-- a loop that deletes the elements of one nested list that fail a test `V` (which does not look
    at that list): afterwards the list has only shrunk, and what is left of the visited elements
    passes the test -/
theorem prune_loop (S F : Name) (id : Id) (V : St → Bytes → Prop) [∀ s x, Decidable (V s x)]
    (step : St → Bytes → St × List Report)
    (hstep : ∀ s x, (step s x).1 = if V s x then s else s.delFromSet S id F x)
    (hV : ∀ s s', Frame [.set S F] s s' → ∀ x, V s' x ↔ V s x) (l : List Bytes) (s : St) :
    Frame [.set S F] s (runSteps step l s).1 ∧
    (∀ t, t ≠ id → (runSteps step l s).1.setOf S t F = s.setOf S t F) ∧
    (∀ x ∈ (runSteps step l s).1.setOf S id F, x ∈ s.setOf S id F) ∧
    (∀ x ∈ l, x ∈ (runSteps step l s).1.setOf S id F → V s x) := by
  let I : St → Prop := fun s' => Frame [.set S F] s s' ∧ (∀ t, t ≠ id → s'.setOf S t F = s.setOf S t F) ∧
    (∀ x ∈ s'.setOf S id F, x ∈ s.setOf S id F)
  have hI : ∀ s' a, I s' → I (step s' a).1 := by
    intro s' a ⟨h1, h2, h3⟩
    rw [hstep]
    split
    · exact ⟨h1, h2, h3⟩
    · refine ⟨h1.trans (frame_delFromSet ..), ?_, ?_⟩
      · intro t ht
        rw [delFromSet_setOf, if_neg (fun c => ht c.2.1)]
        exact h2 t ht
      · intro x hx
        rw [delFromSet_setOf, if_pos ⟨rfl, rfl, rfl⟩] at hx
        exact h3 x (mem_sdel.1 hx).1
  have hI0 : I s := ⟨Frame.refl _ s, fun _ _ => rfl, fun _ h => h⟩
  let Q : St → Bytes → Prop := fun s' x => x ∈ s'.setOf S id F → V s x
  have hQ := runSteps_establish step I Q hI
    (by
      intro s' a b _ hq hb
      apply hq
      rw [hstep] at hb
      split at hb
      · exact hb
      · rw [delFromSet_setOf, if_pos ⟨rfl, rfl, rfl⟩] at hb
        exact (mem_sdel.1 hb).1)
    (by
      intro s' a ⟨h1, _, _⟩ ha
      rw [hstep] at ha
      split at ha
      · next hv => exact (hV s s' h1 a).1 hv
      · rw [delFromSet_setOf, if_pos ⟨rfl, rfl, rfl⟩] at ha
        exact absurd rfl (mem_sdel.1 ha).2)
    l s hI0
  obtain ⟨h1, h2, h3⟩ := runSteps_inv step I hI l s hI0
  exact ⟨h1, h2, h3, hQ⟩

/-- which messages are genuine data conflicts that no fix run writes for -/
def Msg.conflict : Msg → Bool
  | .uqNull _ | .uqDup .. | .fkNull _ | .lkNoInverse => true
  | _ => false

/-! ### unique index -/

/-- an index entry that mirrors an entity -/
def UqValid (s : St) (st f : Name) (kv : Bytes × Id) : Prop :=
  s.present st kv.2 = true ∧ kv.1 = s.evalB st kv.2 f

theorem uqStep1_rep_of_valid {s : St} {st f : Name} {kv : Bytes × Id} (fix : Bool) (h : UqValid s st f kv) :
    uqStep1 st f fix s kv = (s, []) := by
  unfold uqStep1; simp [h.1, ← h.2]

instance (s : St) (st f : Name) (kv : Bytes × Id) : Decidable (UqValid s st f kv) := by
  unfold UqValid; infer_instance

/-- the state after the body of the first loop, fix mode -/
theorem uqStep1_true_fst (st f : Name) (s : St) (kv : Bytes × Id) :
    (uqStep1 st f true s kv).1 = if UqValid s st f kv then s else s.setUniq st f (del kv.1 (s.uniq st f)) := by
  unfold uqStep1 UqValid
  by_cases hp : s.present st kv.2 = true
  · by_cases hk : kv.1 = s.evalB st kv.2 f
    · simp [hp, hk]
    · simp [hp, hk]
  · simp [hp]

/-- after the first loop in fix mode every remaining index entry mirrors an entity -/
theorem uqPass1_post (st f : Name) (s : St) :
    let s1 := (runSteps (uqStep1 st f true) (s.uniq st f) s).1
    s1.ents = s.ents ∧ s1.setx = s.setx ∧ (∀ st' f', ¬(st' = st ∧ f' = f) → s1.uniq st' f' = s.uniq st' f') ∧
    (∀ kv ∈ s1.uniq st f, kv ∈ s.uniq st f ∧ UqValid s1 st f kv) := by
  intro s1
  -- invariant: entity tables as in `s`, the bucket only shrinks
  let I : St → Prop := fun s' => s'.ents = s.ents ∧ s'.setx = s.setx ∧
    (∀ st' f', ¬(st' = st ∧ f' = f) → s'.uniq st' f' = s.uniq st' f') ∧ (∀ kv ∈ s'.uniq st f, kv ∈ s.uniq st f)
  have hI : ∀ s' a, I s' → I (uqStep1 st f true s' a).1 := by
    intro s' a ⟨h1, h2, h3, h4⟩
    rw [uqStep1_true_fst]
    split
    · exact ⟨h1, h2, h3, h4⟩
    · refine ⟨h1, h2, fun st' f' hne => by rw [setUniq_uniq_other _ _ _ _ _ _ hne]; exact h3 st' f' hne, ?_⟩
      intro kv hkv
      rw [setUniq_uniq_self] at hkv
      exact h4 kv (mem_del.1 hkv).1
  let Q : St → Bytes × Id → Prop := fun s' kv => kv ∈ s'.uniq st f → UqValid s st f kv
  have hI0 : I s := ⟨rfl, rfl, fun _ _ _ => rfl, fun _ h => h⟩
  have hQ := runSteps_establish (uqStep1 st f true) I Q hI
    (by
      intro s' a b ⟨h1, _, _, _⟩ hq hb
      apply hq
      rw [uqStep1_true_fst] at hb
      split at hb
      · exact hb
      · rw [setUniq_uniq_self] at hb; exact (mem_del.1 hb).1)
    (by
      intro s' a ⟨h1, _, _, _⟩ ha
      rw [uqStep1_true_fst] at ha
      split at ha
      · next hv => exact ⟨by rw [← present_congr h1]; exact hv.1, by rw [← evalB_congr h1]; exact hv.2⟩
      · rw [setUniq_uniq_self] at ha
        exact absurd rfl (mem_del.1 ha).2)
    (s.uniq st f) s hI0
  obtain ⟨h1, h2, h3, h4⟩ := runSteps_inv _ I hI (s.uniq st f) s hI0
  refine ⟨h1, h2, h3, fun kv hkv => ⟨h4 kv hkv, ?_⟩⟩
  have hv := hQ kv (h4 kv hkv) hkv
  exact ⟨by rw [present_congr h1]; exact hv.1, by rw [evalB_congr h1]; exact hv.2⟩

/-- the state after the body of the second loop, fix mode -/
theorem uqStep2_true_nil {st f : Name} {n : Bool} {s : St} {id : Id} (h : s.evalT st id f = .nil) :
    (uqStep2 st f n true s id).1 = s := by
  unfold uqStep2; rw [h]

theorem uqStep2_true_str {st f : Name} {n : Bool} {s : St} {id : Id} {v : Bytes} (h : s.evalT st id f = .str v) :
    (uqStep2 st f n true s id).1 = if readU s st f v = none then uqRepair s st f v id else s := by
  unfold uqStep2; rw [h]
  by_cases hq : v = []
  · -- the empty value is skipped like nil; the repair of an empty value would write nothing either
    simp only [hq, if_true]
    simp [readU, uqRepair]
  · simp only [hq, if_false]
    cases hr : readU s st f v with
    | none => simp [hr]
    | some x => by_cases hx : x = id <;> simp [hr, hx]

theorem evalT_str_present {s : St} {st f : Name} {id : Id} {v : Bytes} (h : s.evalT st id f = .str v) :
    s.present st id = true := by
  unfold St.evalT at h
  unfold St.present
  split at h
  · next e he => rw [he]; rfl
  · cases h

/-- after the second loop in fix mode every entity's (non-empty) value has an entry, and every
    entry still mirrors an entity -/
theorem uqPass2_post (st f : Name) (n : Bool) (s : St) (hv : ∀ kv ∈ s.uniq st f, UqValid s st f kv) :
    let s2 := (runSteps (uqStep2 st f n true) (s.ids st) s).1
    s2.ents = s.ents ∧ s2.setx = s.setx ∧ (∀ st' f', ¬(st' = st ∧ f' = f) → s2.uniq st' f' = s.uniq st' f') ∧
    (∀ kv ∈ s2.uniq st f, UqValid s2 st f kv) ∧
    (∀ id ∈ s.ids st, ∀ v, s2.evalT st id f = .str v → v ≠ [] → (get v (s2.uniq st f)).isSome = true) := by
  intro s2
  let I : St → Prop := fun s' => s'.ents = s.ents ∧ s'.setx = s.setx ∧
    (∀ st' f', ¬(st' = st ∧ f' = f) → s'.uniq st' f' = s.uniq st' f') ∧ (∀ kv ∈ s'.uniq st f, UqValid s' st f kv)
  have hI : ∀ s' a, I s' → I (uqStep2 st f n true s' a).1 := by
    intro s' a ⟨h1, h2, h3, h4⟩
    cases hT : s'.evalT st a f with
    | nil => rw [uqStep2_true_nil hT]; exact ⟨h1, h2, h3, h4⟩
    | str v =>
      rw [uqStep2_true_str hT]
      split
      · unfold uqRepair
        split
        · exact ⟨h1, h2, h3, h4⟩
        · refine ⟨h1, h2, fun st' f' hne => by rw [setUniq_uniq_other _ _ _ _ _ _ hne]; exact h3 st' f' hne, ?_⟩
          intro kv hkv
          rw [setUniq_uniq_self] at hkv
          have hc : ∀ kv, UqValid s' st f kv → UqValid (s'.setUniq st f (put v a (s'.uniq st f))) st f kv :=
            fun kv h => ⟨by rw [present_congr (setUniq_ents ..)]; exact h.1,
                         by rw [evalB_congr (setUniq_ents ..)]; exact h.2⟩
          rcases mem_put_sub hkv with rfl | hkv
          · exact hc _ ⟨evalT_str_present hT, by unfold St.evalB; rw [hT]; rfl⟩
          · exact hc _ (h4 kv hkv)
      · exact ⟨h1, h2, h3, h4⟩
  let Q : St → Id → Prop := fun s' id => ∀ v, s'.evalT st id f = .str v → v ≠ [] → (get v (s'.uniq st f)).isSome = true
  have hI0 : I s := ⟨rfl, rfl, fun _ _ _ => rfl, hv⟩
  -- a step never removes an entry and never changes an entity
  have hmono : ∀ s' a, (uqStep2 st f n true s' a).1.ents = s'.ents ∧
      ∀ w, (get w (s'.uniq st f)).isSome = true → (get w ((uqStep2 st f n true s' a).1.uniq st f)).isSome = true := by
    intro s' a
    cases hT : s'.evalT st a f with
    | nil => rw [uqStep2_true_nil hT]; exact ⟨rfl, fun _ h => h⟩
    | str v =>
      rw [uqStep2_true_str hT]
      split
      · unfold uqRepair
        split
        · exact ⟨rfl, fun _ h => h⟩
        · refine ⟨rfl, fun w h => ?_⟩
          rw [setUniq_uniq_self, get_put]
          split
          · rfl
          · exact h
      · exact ⟨rfl, fun _ h => h⟩
  have hQ := runSteps_establish (uqStep2 st f n true) I Q hI
    (by
      intro s' a b _ hq v hT hne
      obtain ⟨he, hm⟩ := hmono s' a
      rw [evalT_congr he] at hT
      exact hm v (hq v hT hne))
    (by
      intro s' a _ v hT hne
      have he := (hmono s' a).1
      rw [evalT_congr he] at hT
      rw [uqStep2_true_str hT]
      split
      · unfold uqRepair
        rw [if_neg hne, setUniq_uniq_self, get_put, if_pos rfl]; rfl
      · next hr =>
        unfold readU at hr
        rw [if_neg hne] at hr
        cases hg : get v (s'.uniq st f) with
        | none => exact absurd hg hr
        | some x => rfl)
    (s.ids st) s hI0
  obtain ⟨h1, h2, h3, h4⟩ := runSteps_inv _ I hI (s.ids st) s hI0
  exact ⟨h1, h2, h3, h4, hQ⟩

theorem evalT_mem {s : St} {st f : Name} {id : Id} {v : Bytes} (h : s.evalT st id f = .str v) :
    ∃ e, (id, e) ∈ s.ents st ∧ e.fields f = .str v := by
  unfold St.evalT at h
  split at h
  · next e he => exact ⟨e, mem_of_ent he, h⟩
  · cases h

/-- **unique index, convergence.** After one fix run, a check reports nothing but genuine conflicts
    (nil in a non-nullable index, duplicate value). -/
theorem unique_fix_post (st f : Name) (n : Bool) (s : St) :
    let s' := (uniqueCheck st f n true s).1
    s'.ents = s.ents ∧ s'.setx = s.setx ∧ (∀ st' f', ¬(st' = st ∧ f' = f) → s'.uniq st' f' = s.uniq st' f') ∧
    ∀ r ∈ uqRep st f n s', r.msg.conflict = true := by
  intro s'
  obtain ⟨a1, a2, a3, a4⟩ := uqPass1_post st f s
  have hids : (runSteps (uqStep1 st f true) (s.uniq st f) s).1.ids st = s.ids st := ids_congr a1 st
  obtain ⟨b1, b2, b3, b4, b5⟩ := uqPass2_post st f n _ (fun kv hkv => (a4 kv hkv).2)
  have hs' : s' = (runSteps (uqStep2 st f n true) ((runSteps (uqStep1 st f true) (s.uniq st f) s).1.ids st)
      (runSteps (uqStep1 st f true) (s.uniq st f) s).1).1 := rfl
  rw [← hs'] at b1 b2 b3 b4 b5
  have hents : s'.ents = s.ents := b1.trans a1
  refine ⟨hents, b2.trans a2, fun st' f' h => (b3 st' f' h).trans (a3 st' f' h), ?_⟩
  intro r hr
  unfold uqRep at hr
  rcases List.mem_append.1 hr with hr | hr
  · obtain ⟨kv, hkv, hr⟩ := List.mem_flatMap.1 hr
    rw [uqStep1_rep_of_valid false (b4 kv hkv)] at hr
    cases hr
  · obtain ⟨id, hid, hr⟩ := List.mem_flatMap.1 hr
    have hid' : id ∈ (runSteps (uqStep1 st f true) (s.uniq st f) s).1.ids st := by
      rw [hids, ← ids_congr hents st]; exact hid
    cases hT : s'.evalT st id f with
    | nil =>
      simp only [uqStep2, hT] at hr
      split at hr
      · cases hr
      · simp only [List.mem_singleton] at hr; subst hr; rfl
    | str v =>
      by_cases hv : v = []
      · -- skipped like nil
        simp only [uqStep2, hT, hv, if_true] at hr
        split at hr
        · cases hr
        · simp only [List.mem_singleton] at hr; subst hr; rfl
      have hsome := b5 id hid' v hT hv
      cases hg : get v (s'.uniq st f) with
      | none => rw [hg] at hsome; cases hsome
      | some x =>
        simp only [uqStep2, hT, readU, if_neg hv, hg] at hr
        split at hr
        · cases hr
        · simp only [List.mem_singleton] at hr; subst hr; rfl

/-! ### foreign-key constraint -/

/-- reports a fix run may leave for a foreign key: conflicts, and dangling references of a
    non-nullable key -/
def FkQuiet (n : Bool) (r : Report) : Prop :=
  r.msg.conflict = true ∨ (n = false ∧ ∃ id t, r.msg = .fkDangling id t)

theorem fkDanglingStep_true_fst (st f : Name) (n : Bool) (s : St) (id key : Id) :
    (fkDanglingStep st f n true s id key).1 = if n = true then s.modEnt st id (fun e => e.setField f .nil) else s := by
  unfold fkDanglingStep; cases n <;> simp

theorem fcStep_true_fst (st f : Name) (n : Bool) (linked : Name) (s : St) (id : Id) :
    (fcStep st f n linked true s id).1 =
      if s.evalB st id f ≠ [] ∧ s.present linked (s.evalB st id f) = false ∧ n = true
      then s.modEnt st id (fun e => e.setField f .nil) else s := by
  unfold fcStep
  by_cases hB : s.evalB st id f = []
  · simp [hB]
  · by_cases hp : s.present linked (s.evalB st id f) = true
    · simp [hB, hp]
    · have hp' : s.present linked (s.evalB st id f) = false := by simpa using hp
      simp only [hB, hp', if_false, Bool.not_false, if_true, fkDanglingStep_true_fst, ne_eq, not_false_eq_true, true_and]

theorem fcStep_frame (st f : Name) (n : Bool) (linked : Name) (s : St) (id : Id) :
    Frame [.field st f] s (fcStep st f n linked true s id).1 := by
  rw [fcStep_true_fst]
  split
  · exact frame_setNil s st id f
  · exact Frame.refl _ s

/-- **fk constraint, convergence** -/
theorem fkCons_fix_post (st f : Name) (n : Bool) (linked : Name) (s : St) :
    let s' := (fkConsCheck st f n linked true s).1
    Frame [.field st f] s s' ∧ ∀ r ∈ fcRep st f n linked s', FkQuiet n r := by
  intro s'
  let I : St → Prop := fun x => Frame [.field st f] s x
  have hI : ∀ x a, I x → I (fcStep st f n linked true x a).1 := fun x a h => h.trans (fcStep_frame ..)
  let Q : St → Id → Prop := fun x id =>
    x.evalB st id f ≠ [] → x.present linked (x.evalB st id f) = false → n = false
  have hQ := runSteps_establish (fcStep st f n linked true) I Q hI
    (by
      intro x a b _ hq
      show Q (fcStep st f n linked true x a).1 b
      rw [fcStep_true_fst]
      by_cases hc : x.evalB st a f ≠ [] ∧ x.present linked (x.evalB st a f) = false ∧ n = true
      · rw [if_pos hc]
        intro h1 h2
        rw [setNil_evalB] at h1 h2
        by_cases hb : st = st ∧ b = a ∧ f = f
        · rw [if_pos hb] at h1; exact absurd rfl h1
        · rw [if_neg hb] at h1 h2
          rw [modEnt_present] at h2
          exact hq h1 h2
      · rw [if_neg hc]; exact hq)
    (by
      intro x a _
      show Q (fcStep st f n linked true x a).1 a
      rw [fcStep_true_fst]
      by_cases hc : x.evalB st a f ≠ [] ∧ x.present linked (x.evalB st a f) = false ∧ n = true
      · rw [if_pos hc]
        intro h1 _
        rw [setNil_evalB, if_pos ⟨rfl, rfl, rfl⟩] at h1
        exact absurd rfl h1
      · rw [if_neg hc]
        intro h1 h2
        cases n with
        | false => rfl
        | true => exact absurd ⟨h1, h2, rfl⟩ hc)
    (s.ids st) s (Frame.refl _ s)
  have hfr : Frame [.field st f] s s' := runSteps_inv _ I hI (s.ids st) s (Frame.refl _ s)
  refine ⟨hfr, ?_⟩
  intro r hr
  unfold fcRep at hr
  obtain ⟨id, hid, hr⟩ := List.mem_flatMap.1 hr
  rw [hfr.ids] at hid
  have hq := hQ id hid
  unfold fcStep at hr
  by_cases hB : s'.evalB st id f = []
  · simp only [hB, if_true] at hr
    split at hr
    · cases hr
    · simp only [List.mem_singleton] at hr; subst hr; exact Or.inl rfl
  · simp only [hB, if_false] at hr
    by_cases hp : s'.present linked (s'.evalB st id f) = true
    · simp [hp] at hr
    · have hp' : s'.present linked (s'.evalB st id f) = false := by simpa using hp
      simp only [hp', Bool.not_false, if_true, fkDanglingStep, List.mem_singleton] at hr
      subst hr
      exact Or.inr ⟨hq hB hp', _, _, rfl⟩

/-! ### foreign-key index -/

/-- a back-reference `x ∈ target.fkF` that mirrors `x.f = target` -/
def FkBackValid (s : St) (st f : Name) (t x : Id) : Prop :=
  s.present st x = true ∧ s.evalB st x f ≠ [] ∧ s.evalB st x f = t

instance (s : St) (st f : Name) (t x : Id) : Decidable (FkBackValid s st f t x) := by
  unfold FkBackValid; infer_instance

theorem fkInner1_true_fst (st f fkSt fkF : Name) (t : Id) (s : St) (x : Id) :
    (fkInner1 st f fkSt fkF true t s x).1 = if FkBackValid s st f t x then s else s.delFromSet fkSt t fkF x := by
  unfold fkInner1 FkBackValid
  by_cases hp : s.present st x = true
  · by_cases h1 : s.evalB st x f = []
    · simp [hp, h1]
    · by_cases h2 : s.evalB st x f = t
      · have h3 : ¬ t = [] := fun h => h1 (h2.trans h)
        simp [hp, h2, h3]
      · simp [hp, h1, h2]
  · simp [hp]

theorem fkInner1_rep_of_valid {s : St} {st f fkSt fkF : Name} {t x : Id} (fix : Bool) (h : FkBackValid s st f t x) :
    fkInner1 st f fkSt fkF fix t s x = (s, []) := by
  unfold fkInner1
  obtain ⟨h1, h2, h3⟩ := h
  have h4 : ¬ t = [] := fun h => h2 (h3.trans h)
  simp [h1, h3, h4]

theorem fkBackValid_frame {W : List Loc} {s s' : St} (h : Frame W s s') {st f : Name} (hn : Loc.field st f ∉ W)
    (t x : Id) : FkBackValid s' st f t x ↔ FkBackValid s st f t x := by
  unfold FkBackValid
  rw [h.present, h.evalB hn]

theorem present_of_setOf {s : St} {st : Name} {id : Id} {f : Name} {x : Bytes} (h : x ∈ s.setOf st id f) :
    s.present st id = true := by
  cases hp : s.present st id with
  | true => rfl
  | false => rw [setOf_absent hp] at h; cases h

theorem fkPass1_post (st f fkSt fkF : Name) (s : St) :
    let s1 := (runSteps (fkStep1 st f fkSt fkF true) (s.ids fkSt) s).1
    Frame [.set fkSt fkF] s s1 ∧
    (∀ t x, x ∈ s1.setOf fkSt t fkF → x ∈ s.setOf fkSt t fkF ∧ FkBackValid s1 st f t x) := by
  intro s1
  have hfield : Loc.field st f ∉ [Loc.set fkSt fkF] := by simp
  let I : St → Prop := fun s' => Frame [.set fkSt fkF] s s' ∧ ∀ t x, x ∈ s'.setOf fkSt t fkF → x ∈ s.setOf fkSt t fkF
  -- one outer step = one prune loop
  have hstep : ∀ s' a,
      Frame [.set fkSt fkF] s' (fkStep1 st f fkSt fkF true s' a).1 ∧
      (∀ t, t ≠ a → (fkStep1 st f fkSt fkF true s' a).1.setOf fkSt t fkF = s'.setOf fkSt t fkF) ∧
      (∀ x ∈ (fkStep1 st f fkSt fkF true s' a).1.setOf fkSt a fkF, x ∈ s'.setOf fkSt a fkF) ∧
      (∀ x ∈ s'.setOf fkSt a fkF, x ∈ (fkStep1 st f fkSt fkF true s' a).1.setOf fkSt a fkF → FkBackValid s' st f a x) := by
    intro s' a
    unfold fkStep1
    exact prune_loop fkSt fkF a (fun s x => FkBackValid s st f a x) _ (fkInner1_true_fst st f fkSt fkF a)
      (fun s s' h x => fkBackValid_frame h hfield a x) _ s'
  have hI : ∀ s' a, I s' → I (fkStep1 st f fkSt fkF true s' a).1 := by
    intro s' a ⟨h1, h2⟩
    obtain ⟨g1, g2, g3, _⟩ := hstep s' a
    refine ⟨h1.trans g1, ?_⟩
    intro t x hx
    by_cases ht : t = a
    · subst ht; exact h2 t x (g3 x hx)
    · rw [g2 t ht] at hx; exact h2 t x hx
  have hI0 : I s := ⟨Frame.refl _ s, fun _ _ h => h⟩
  let Q : St → Id → Prop := fun s' t => ∀ x ∈ s'.setOf fkSt t fkF, FkBackValid s st f t x
  have hQ := runSteps_establish (fkStep1 st f fkSt fkF true) I Q hI
    (by
      intro s' a b _ hq x hx
      obtain ⟨_, g2, g3, _⟩ := hstep s' a
      by_cases hb : b = a
      · subst hb; exact hq x (g3 x hx)
      · rw [g2 b hb] at hx; exact hq x hx)
    (by
      intro s' a ⟨h1, _⟩ x hx
      obtain ⟨_, _, g3, g4⟩ := hstep s' a
      exact (fkBackValid_frame h1 hfield a x).1 (g4 x (g3 x hx) hx))
    (s.ids fkSt) s hI0
  obtain ⟨h1, h2⟩ := runSteps_inv _ I hI (s.ids fkSt) s hI0
  refine ⟨h1, fun t x hx => ⟨h2 t x hx, ?_⟩⟩
  have hp : s.present fkSt t = true := by rw [← h1.present]; exact present_of_setOf hx
  obtain ⟨e, he⟩ := present_iff.1 hp
  exact (fkBackValid_frame h1 hfield t x).2 (hQ t (mem_ids.2 ⟨e, he⟩) x hx)

theorem fkStep2_true_fst (st f : Name) (n : Bool) (fkSt fkF : Name) (s : St) (id : Id) :
    (fkStep2 st f n fkSt fkF true s id).1 =
      if s.evalB st id f = [] then s
      else if s.present fkSt (s.evalB st id f) = false then
        (if n = true then s.modEnt st id (fun e => e.setField f .nil) else s)
      else if s.hasBack fkSt (s.evalB st id f) fkF id = true then s
      else s.addToSet fkSt (s.evalB st id f) fkF id := by
  unfold fkStep2
  by_cases hB : s.evalB st id f = []
  · simp [hB]
  · by_cases hp : s.present fkSt (s.evalB st id f) = true
    · by_cases hb : s.hasBack fkSt (s.evalB st id f) fkF id = true
      · simp [hB, hp, hb]
      · simp [hB, hp, hb]
    · have hp' : s.present fkSt (s.evalB st id f) = false := by simpa using hp
      simp only [hB, hp', if_false, Bool.not_false, if_true, fkDanglingStep_true_fst]

theorem evalB_ne_present {s : St} {st f : Name} {id : Id} (h : s.evalB st id f ≠ []) : s.present st id = true := by
  unfold St.evalB at h
  cases hT : s.evalT st id f with
  | nil => rw [hT] at h; exact absurd rfl h
  | str v => exact evalT_str_present hT

theorem fkStep2_frame (st f : Name) (n : Bool) (fkSt fkF : Name) (s : St) (id : Id) :
    Frame [.field st f, .set fkSt fkF] s (fkStep2 st f n fkSt fkF true s id).1 := by
  rw [fkStep2_true_fst]
  split
  · exact Frame.refl _ s
  · split
    · split
      · exact (frame_setNil s st id f).mono (by simp)
      · exact Frame.refl _ s
    · split
      · exact Frame.refl _ s
      · exact (frame_addToSet ..).mono (by simp)

/-- every back-reference mirrors a referrer -/
def AllBackValid (s : St) (st f fkSt fkF : Name) : Prop :=
  ∀ t x, x ∈ s.setOf fkSt t fkF → FkBackValid s st f t x

theorem fkStep2_allBackValid (st f : Name) (n : Bool) (fkSt fkF : Name) (s : St) (id : Id)
    (h : AllBackValid s st f fkSt fkF) : AllBackValid (fkStep2 st f n fkSt fkF true s id).1 st f fkSt fkF := by
  rw [fkStep2_true_fst]
  split
  · exact h
  · next hB =>
    split
    · next hp =>
      split
      · -- nulling the field of `id`, whose target does not exist: `id` is nobody's back-reference
        intro t x hx
        rw [setNil_setOf] at hx
        obtain ⟨v1, v2, v3⟩ := h t x hx
        refine ⟨by rw [modEnt_present]; exact v1, ?_, ?_⟩ <;> rw [setNil_evalB]
        · split
          · next hc =>
            exfalso
            rw [hc.2.1] at v3
            rw [v3, present_of_setOf hx] at hp
            cases hp
          · exact v2
        · split
          · next hc =>
            exfalso
            rw [hc.2.1] at v3
            rw [v3, present_of_setOf hx] at hp
            cases hp
          · exact v3
      · exact h
    · next hp =>
      split
      · exact h
      · intro t x hx
        have hp' : s.present fkSt (s.evalB st id f) = true := by simpa using hp
        unfold FkBackValid
        rw [show ∀ a b c, (s.addToSet fkSt (s.evalB st id f) fkF id).evalB a b c = s.evalB a b c from
              fun a b c => setSet_evalB s _ _ _ (sins id) a b c,
            show ∀ a b, (s.addToSet fkSt (s.evalB st id f) fkF id).present a b = s.present a b from
              fun a b => modEnt_present s _ _ _ a b]
        rw [addToSet_setOf] at hx
        split at hx
        · next hc =>
          rcases mem_sins.1 hx with rfl | hx
          · exact ⟨evalB_ne_present hB, hB, hc.2.1.symm⟩
          · exact h t x hx
        · exact h t x hx

/-- what the second loop establishes for entity `id` -/
def FkFwdOk (s : St) (st f : Name) (n : Bool) (fkSt fkF : Name) (id : Id) : Prop :=
  s.evalB st id f ≠ [] →
    (s.present fkSt (s.evalB st id f) = true → s.hasBack fkSt (s.evalB st id f) fkF id = true) ∧
    (s.present fkSt (s.evalB st id f) = false → n = false)

theorem fkPass2_post (st f : Name) (n : Bool) (fkSt fkF : Name) (s : St) (hv : AllBackValid s st f fkSt fkF) :
    let s2 := (runSteps (fkStep2 st f n fkSt fkF true) (s.ids st) s).1
    Frame [.field st f, .set fkSt fkF] s s2 ∧ AllBackValid s2 st f fkSt fkF ∧
    ∀ id ∈ s.ids st, FkFwdOk s2 st f n fkSt fkF id := by
  intro s2
  let I : St → Prop := fun x => Frame [.field st f, .set fkSt fkF] s x ∧ AllBackValid x st f fkSt fkF
  have hI : ∀ x a, I x → I (fkStep2 st f n fkSt fkF true x a).1 := fun x a ⟨h1, h2⟩ =>
    ⟨h1.trans (fkStep2_frame ..), fkStep2_allBackValid st f n fkSt fkF x a h2⟩
  have hI0 : I s := ⟨Frame.refl _ s, hv⟩
  have hQ := runSteps_establish (fkStep2 st f n fkSt fkF true) I (fun x id => FkFwdOk x st f n fkSt fkF id) hI
    (by
      intro x a b _ hq
      show FkFwdOk (fkStep2 st f n fkSt fkF true x a).1 st f n fkSt fkF b
      rw [fkStep2_true_fst]
      split
      · exact hq
      · next hB =>
        split
        · split
          · intro h1
            rw [setNil_evalB] at h1 ⊢
            by_cases hc : st = st ∧ b = a ∧ f = f
            · rw [if_pos hc] at h1; exact absurd rfl h1
            · rw [if_neg hc] at h1 ⊢
              unfold St.hasBack
              rw [modEnt_present, setNil_setOf]
              exact hq h1
          · exact hq
        · split
          · exact hq
          · intro h1
            rw [show ∀ a' b' c', (x.addToSet fkSt (x.evalB st a f) fkF a).evalB a' b' c' = x.evalB a' b' c' from
                  fun a' b' c' => setSet_evalB x _ _ _ (sins a) a' b' c'] at h1 ⊢
            rw [show ∀ a' b', (x.addToSet fkSt (x.evalB st a f) fkF a).present a' b' = x.present a' b' from
                  fun a' b' => modEnt_present x _ _ _ a' b']
            obtain ⟨q1, q2⟩ := hq h1
            refine ⟨fun hp => ?_, q2⟩
            have := q1 hp
            rw [hasBack_iff] at this ⊢
            rw [addToSet_setOf]
            split
            · exact mem_sins.2 (Or.inr this)
            · exact this)
    (by
      intro x a _
      show FkFwdOk (fkStep2 st f n fkSt fkF true x a).1 st f n fkSt fkF a
      rw [fkStep2_true_fst]
      split
      · next hB => intro h; exact absurd hB h
      · next hB =>
        split
        · next hp =>
          split
          · intro h1
            rw [setNil_evalB, if_pos ⟨rfl, rfl, rfl⟩] at h1
            exact absurd rfl h1
          · next hn =>
            intro _
            refine ⟨fun h => ?_, fun _ => by cases n <;> simp_all⟩
            rw [hp] at h; cases h
        · next hp =>
          have hp' : x.present fkSt (x.evalB st a f) = true := by simpa using hp
          split
          · next hb => intro _; exact ⟨fun _ => hb, fun h => by rw [hp'] at h; cases h⟩
          · intro _
            rw [show ∀ a' b' c', (x.addToSet fkSt (x.evalB st a f) fkF a).evalB a' b' c' = x.evalB a' b' c' from
                  fun a' b' c' => setSet_evalB x _ _ _ (sins a) a' b' c']
            rw [show ∀ a' b', (x.addToSet fkSt (x.evalB st a f) fkF a).present a' b' = x.present a' b' from
                  fun a' b' => modEnt_present x _ _ _ a' b']
            refine ⟨fun _ => ?_, fun h => by rw [hp'] at h; cases h⟩
            rw [hasBack_iff, addToSet_setOf, if_pos ⟨rfl, rfl, rfl, hp'⟩]
            exact mem_sins.2 (Or.inl rfl))
    (s.ids st) s hI0
  obtain ⟨h1, h2⟩ := runSteps_inv _ I hI (s.ids st) s hI0
  exact ⟨h1, h2, hQ⟩

/-- **fk index, convergence** -/
theorem fkIndex_fix_post (st f : Name) (n : Bool) (fkSt fkF : Name) (s : St) :
    let s' := (fkIndexCheck st f n fkSt fkF true s).1
    Frame [.field st f, .set fkSt fkF] s s' ∧ ∀ r ∈ fkRep st f n fkSt fkF s', FkQuiet n r := by
  intro s'
  obtain ⟨a1, a2⟩ := fkPass1_post st f fkSt fkF s
  obtain ⟨b1, b2, b3⟩ := fkPass2_post st f n fkSt fkF _ (fun t x hx => (a2 t x hx).2)
  have hs' : s' = (runSteps (fkStep2 st f n fkSt fkF true)
      ((runSteps (fkStep1 st f fkSt fkF true) (s.ids fkSt) s).1.ids st)
      (runSteps (fkStep1 st f fkSt fkF true) (s.ids fkSt) s).1).1 := rfl
  rw [← hs'] at b1 b2 b3
  have hfr : Frame [.field st f, .set fkSt fkF] s s' := (a1.mono (by simp)).trans b1
  refine ⟨hfr, ?_⟩
  intro r hr
  unfold fkRep at hr
  rcases List.mem_append.1 hr with hr | hr
  · obtain ⟨t, _, hr⟩ := List.mem_flatMap.1 hr
    unfold fkRep1 at hr
    obtain ⟨x, hx, hr⟩ := List.mem_flatMap.1 hr
    rw [fkInner1_rep_of_valid false (b2 t x hx)] at hr
    cases hr
  · obtain ⟨id, hid, hr⟩ := List.mem_flatMap.1 hr
    have hid' : id ∈ (runSteps (fkStep1 st f fkSt fkF true) (s.ids fkSt) s).1.ids st := by
      rw [← b1.ids]; exact hid
    have hq := b3 id hid'
    unfold fkStep2 at hr
    by_cases hB : s'.evalB st id f = []
    · simp only [hB, if_true] at hr
      split at hr
      · cases hr
      · simp only [List.mem_singleton] at hr; subst hr; exact Or.inl rfl
    · simp only [hB, if_false] at hr
      obtain ⟨q1, q2⟩ := hq hB
      by_cases hp : s'.present fkSt (s'.evalB st id f) = true
      · simp [hp, q1 hp] at hr
      · have hp' : s'.present fkSt (s'.evalB st id f) = false := by simpa using hp
        simp only [hp', Bool.not_false, if_true, fkDanglingStep, List.mem_singleton] at hr
        subst hr
        exact Or.inr ⟨q2 hp', _, _, rfl⟩

/-! ### link collection -/

theorem lkInner_true_fst (st f oSt oF : Name) (id : Id) (s : St) (l : Id) :
    (lkInner st f oSt oF true id s l).1 =
      if s.present oSt l = true ∧ s.hasBack oSt l oF id = false then s.addToSet oSt l oF id else s := by
  unfold lkInner
  by_cases hp : s.present oSt l = true
  · by_cases hb : s.hasBack oSt l oF id = true
    · simp [hp, hb]
    · simp [hp, hb]
  · simp [hp]

/-- link `a → b` is backed by an existing `b` that links back -/
def LinkOk (s : St) (st f oSt oF : Name) (a b : Id) : Prop :=
  b ∈ s.setOf st a f → s.present oSt b = true ∧ s.hasBack oSt b oF a = true

/-- what every step of a link check does: own lists shrink, the other side's lists grow -/
structure LinkMono (st f oSt oF : Name) (x x' : St) : Prop where
  frame : Frame [.set st f, .set oSt oF] x x'
  shrink : ∀ a b, b ∈ x'.setOf st a f → b ∈ x.setOf st a f
  grow : ∀ b a, a ∈ x.setOf oSt b oF → a ∈ x'.setOf oSt b oF

theorem LinkMono.refl (st f oSt oF : Name) (x : St) : LinkMono st f oSt oF x x :=
  ⟨Frame.refl _ x, fun _ _ h => h, fun _ _ h => h⟩

theorem LinkMono.trans {st f oSt oF : Name} {a b c : St} (h1 : LinkMono st f oSt oF a b) (h2 : LinkMono st f oSt oF b c) :
    LinkMono st f oSt oF a c :=
  ⟨h1.frame.trans h2.frame, fun x y h => h1.shrink x y (h2.shrink x y h), fun x y h => h2.grow x y (h1.grow x y h)⟩

theorem LinkOk.mono {st f oSt oF : Name} {x x' : St} (hm : LinkMono st f oSt oF x x') {a b : Id}
    (h : LinkOk x st f oSt oF a b) : LinkOk x' st f oSt oF a b := by
  intro hb
  obtain ⟨h1, h2⟩ := h (hm.shrink a b hb)
  exact ⟨by rw [hm.frame.present]; exact h1, hasBack_iff.2 (hm.grow b a (hasBack_iff.1 h2))⟩

theorem linkMono_del (st f oSt oF : Name) (hd : ¬(st = oSt ∧ f = oF)) (id : Id) (s : St) (l : Id) :
    LinkMono st f oSt oF s (s.delFromSet st id f l) := by
  refine ⟨(frame_delFromSet ..).mono (by simp), ?_, ?_⟩
  · intro a b hb
    rw [delFromSet_setOf] at hb
    split at hb
    · exact (mem_sdel.1 hb).1
    · exact hb
  · intro b a ha
    rw [delFromSet_setOf, if_neg (fun c => hd ⟨c.1.symm, c.2.2.symm⟩)]
    exact ha

theorem linkMono_add (st f oSt oF : Name) (hd : ¬(st = oSt ∧ f = oF)) (id : Id) (s : St) (l : Id) :
    LinkMono st f oSt oF s (s.addToSet oSt l oF id) := by
  refine ⟨(frame_addToSet ..).mono (by simp), ?_, ?_⟩
  · intro a b hb
    rw [addToSet_setOf, if_neg (fun c => hd ⟨c.1, c.2.2.1⟩)] at hb
    exact hb
  · intro b a ha
    rw [addToSet_setOf]
    split
    · exact mem_sins.2 (Or.inr ha)
    · exact ha

theorem lkInner_mono (st f oSt oF : Name) (hd : ¬(st = oSt ∧ f = oF)) (id : Id) (s : St) (l : Id) :
    LinkMono st f oSt oF s (lkInner st f oSt oF true id s l).1 := by
  rw [lkInner_true_fst]
  split
  · exact linkMono_add st f oSt oF hd id s l
  · exact LinkMono.refl ..

/-- after its step, an existing target links back -/
theorem lkInner_establish (st f oSt oF : Name) (id : Id) (s : St) (l : Id) :
    (lkInner st f oSt oF true id s l).1.present oSt l = true →
      (lkInner st f oSt oF true id s l).1.hasBack oSt l oF id = true := by
  rw [lkInner_true_fst]
  split
  · next hc =>
    intro _
    rw [hasBack_iff, addToSet_setOf, if_pos ⟨rfl, rfl, rfl, hc.1⟩]
    exact mem_sins.2 (Or.inl rfl)
  · next hc =>
    intro hp
    cases hb : s.hasBack oSt l oF id with
    | true => rfl
    | false => exact absurd ⟨hp, hb⟩ hc

theorem lkRemoveAll_mono (st f oSt oF : Name) (hd : ¬(st = oSt ∧ f = oF)) (id : Id) (D : List Id) (s : St) :
    LinkMono st f oSt oF s (lkRemoveAll st f id D s) := by
  unfold lkRemoveAll
  induction D generalizing s with
  | nil => exact LinkMono.refl ..
  | cons a t ih => rw [List.foldl_cons]; exact (linkMono_del st f oSt oF hd id s a).trans (ih _)

theorem lkRemoveAll_not_mem (st f : Name) (id : Id) (D : List Id) (s : St) :
    ∀ b ∈ D, b ∉ (lkRemoveAll st f id D s).setOf st id f := by
  unfold lkRemoveAll
  induction D generalizing s with
  | nil => intro b hb; cases hb
  | cons a t ih =>
    intro b hb
    rw [List.foldl_cons]
    rcases List.mem_cons.1 hb with rfl | hb
    · -- removed first; later removals only shrink the list
      intro hin
      have hsub : ∀ (t' : List Id) (x : St) (y : Id), y ∈ (t'.foldl (fun x l => x.delFromSet st id f l) x).setOf st id f →
          y ∈ x.setOf st id f := by
        intro t'
        induction t' with
        | nil => intro x y h; exact h
        | cons c t'' ih' =>
          intro x y h
          rw [List.foldl_cons] at h
          have := ih' _ y h
          rw [delFromSet_setOf, if_pos ⟨rfl, rfl, rfl⟩] at this
          exact (mem_sdel.1 this).1
      have := hsub t _ b hin
      rw [delFromSet_setOf, if_pos ⟨rfl, rfl, rfl⟩] at this
      exact absurd rfl (mem_sdel.1 this).2
    · exact ih _ b hb

theorem lkStep_post (st f oSt oF : Name) (hd : ¬(st = oSt ∧ f = oF)) (s : St) (id : Id) :
    LinkMono st f oSt oF s (lkStep st f oSt oF true s id).1 ∧
    ∀ b, LinkOk (lkStep st f oSt oF true s id).1 st f oSt oF id b := by
  have hI : ∀ x a, LinkMono st f oSt oF s x → LinkMono st f oSt oF s (lkInner st f oSt oF true id x a).1 :=
    fun x a h => h.trans (lkInner_mono st f oSt oF hd id x a)
  have hm := runSteps_inv _ (fun x => LinkMono st f oSt oF s x) hI (s.setOf st id f) s (LinkMono.refl ..)
  have hQ := runSteps_establish (lkInner st f oSt oF true id) (fun x => LinkMono st f oSt oF s x)
    (fun x b => x.present oSt b = true → x.hasBack oSt b oF id = true) hI
    (by
      intro x a b _ hq hp
      have hmo := lkInner_mono st f oSt oF hd id x a
      rw [hmo.frame.present] at hp
      exact hasBack_iff.2 (hmo.grow b id (hasBack_iff.1 (hq hp))))
    (fun x a _ => lkInner_establish st f oSt oF id x a)
    (s.setOf st id f) s (LinkMono.refl ..)
  have hrm := lkRemoveAll_mono st f oSt oF hd id ((s.setOf st id f).filter fun l => !s.present oSt l)
    (runSteps (lkInner st f oSt oF true id) (s.setOf st id f) s).1
  have hfst : (lkStep st f oSt oF true s id).1 =
      lkRemoveAll st f id ((s.setOf st id f).filter fun l => !s.present oSt l)
        (runSteps (lkInner st f oSt oF true id) (s.setOf st id f) s).1 := by
    unfold lkStep; simp
  rw [hfst]
  refine ⟨hm.trans hrm, fun b hb => ?_⟩
  have hb0 : b ∈ s.setOf st id f := hm.shrink id b (hrm.shrink id b hb)
  have hp : s.present oSt b = true := by
    cases hp : s.present oSt b with
    | true => rfl
    | false =>
      exfalso
      exact lkRemoveAll_not_mem st f id _ _ b (List.mem_filter.2 ⟨hb0, by simp [hp]⟩) hb
  have hp1 : (runSteps (lkInner st f oSt oF true id) (s.setOf st id f) s).1.present oSt b = true := by
    rw [hm.frame.present]; exact hp
  refine ⟨by rw [hrm.frame.present]; exact hp1, ?_⟩
  exact hasBack_iff.2 (hrm.grow b id (hasBack_iff.1 (hQ b hb0 hp1)))

/-- **link collection, convergence** (for a collection whose two sides are different fields) -/
theorem link_fix_post (st f oSt oF : Name) (hasInv : Bool) (hd : ¬(st = oSt ∧ f = oF)) (s : St) :
    let s' := (linkCheck st f oSt oF hasInv true s).1
    LinkMono st f oSt oF s s' ∧ (∀ a b, LinkOk s' st f oSt oF a b) ∧
    ∀ r ∈ lkRep st f oSt oF hasInv s', r.msg.conflict = true := by
  intro s'
  have hs' : s' = (runSteps (lkStep st f oSt oF true) (s.ids st) s).1 := rfl
  have hI : ∀ x a, LinkMono st f oSt oF s x → LinkMono st f oSt oF s (lkStep st f oSt oF true x a).1 :=
    fun x a h => h.trans (lkStep_post st f oSt oF hd x a).1
  have hm : LinkMono st f oSt oF s s' := by
    rw [hs']; exact runSteps_inv _ (fun x => LinkMono st f oSt oF s x) hI (s.ids st) s (LinkMono.refl ..)
  have hQ := runSteps_establish (lkStep st f oSt oF true) (fun x => LinkMono st f oSt oF s x)
    (fun x a => ∀ b, LinkOk x st f oSt oF a b) hI
    (fun x a b _ hq c => (hq c).mono (lkStep_post st f oSt oF hd x a).1)
    (fun x a _ => (lkStep_post st f oSt oF hd x a).2)
    (s.ids st) s (LinkMono.refl ..)
  rw [← hs'] at hQ
  have hall : ∀ a b, LinkOk s' st f oSt oF a b := by
    intro a b hb
    have hp : s.present st a = true := by rw [← hm.frame.present]; exact present_of_setOf hb
    obtain ⟨e, he⟩ := present_iff.1 hp
    exact hQ a (mem_ids.2 ⟨e, he⟩) b hb
  refine ⟨hm, hall, ?_⟩
  intro r hr
  unfold lkRep at hr
  rcases List.mem_append.1 hr with hr | hr
  · split at hr
    · cases hr
    · simp only [List.mem_singleton] at hr; subst hr; rfl
  · obtain ⟨a, _, hr⟩ := List.mem_flatMap.1 hr
    unfold lkRep1 at hr
    obtain ⟨b, hb, hr⟩ := List.mem_flatMap.1 hr
    obtain ⟨h1, h2⟩ := hall a b hb
    unfold lkInner at hr
    simp [h1, h2] at hr

/-! ### set index -/

@[simp] theorem setSetx_ents (s : St) (st f : Name) (b : List (Bytes × SVal)) : (s.setSetx st f b).ents = s.ents := rfl
@[simp] theorem setSetx_uniq (s : St) (st f : Name) (b : List (Bytes × SVal)) : (s.setSetx st f b).uniq = s.uniq := rfl
@[simp] theorem setSetx_self (s : St) (st f : Name) (b : List (Bytes × SVal)) : (s.setSetx st f b).setx st f = b := by
  simp [St.setSetx]
theorem setSetx_other (s : St) (st f st' f' : Name) (b : List (Bytes × SVal)) (h : ¬(st' = st ∧ f' = f)) :
    (s.setSetx st f b).setx st' f' = s.setx st' f' := by
  simp [St.setSetx, h]

theorem frame_setSetx (s : St) (st f : Name) (b : List (Bytes × SVal)) : Frame [.setx st f] s (s.setSetx st f b) :=
  ⟨fun _ => rfl, fun _ _ => rfl, fun _ _ _ => rfl,
   fun st' f' hn => setSetx_other s st f st' f' b (fun ⟨a, c⟩ => hn (by rw [a, c]; exact List.mem_singleton.2 rfl)),
   fun _ _ _ _ => rfl, fun _ _ _ _ => rfl⟩

/-- index entry `key ∋ id` mirrors an entity holding `key` -/
def SxValid (s : St) (st f : Name) (key : Bytes) (id : Id) : Prop :=
  s.present st id = true ∧ s.hasVal st id f key = true

instance (s : St) (st f : Name) (key : Bytes) (id : Id) : Decidable (SxValid s st f key id) := by
  unfold SxValid; infer_instance

theorem sxValid_congr {s s' : St} (h : s'.ents = s.ents) (st f : Name) (key : Bytes) (id : Id) :
    SxValid s' st f key id ↔ SxValid s st f key id := by
  unfold SxValid St.hasVal; rw [present_congr h, setOf_congr h]

/-- the current entry of `key` in the index bucket -/
def St.bk (s : St) (st f : Name) (key : Bytes) : Option SVal := get key (s.setx st f)

theorem sxInner_true_fst (st f : Name) (key : Bytes) (s : St) (id : Id) :
    (sxInner st f true key s id).1 = if SxValid s st f key id then s else s.delIdx st f key id := by
  unfold sxInner SxValid
  by_cases hp : s.present st id = true
  · by_cases hv : s.hasVal st id f key = true
    · simp [hp, hv]
    · simp [hp, hv]
  · simp [hp]

theorem sxInner_rep_of_valid {s : St} {st f : Name} {key : Bytes} {id : Id} (fix : Bool) (h : SxValid s st f key id) :
    sxInner st f fix key s id = (s, []) := by
  unfold sxInner; simp [h.1, h.2]

theorem delIdx_ents (s : St) (st f : Name) (key : Bytes) (id : Id) : (s.delIdx st f key id).ents = s.ents := by
  unfold St.delIdx; split <;> rfl

theorem delIdx_frame (s : St) (st f : Name) (key : Bytes) (id : Id) : Frame [.setx st f] s (s.delIdx st f key id) := by
  unfold St.delIdx; split
  · exact frame_setSetx ..
  · exact Frame.refl _ s

theorem delIdx_bk (s : St) (st f : Name) (key : Bytes) (id : Id) (k' : Bytes) :
    (s.delIdx st f key id).bk st f k' =
      if k' = key then (match s.bk st f key with | some (.ids l) => some (.ids (sdel id l)) | o => o)
      else s.bk st f k' := by
  unfold St.delIdx St.bk
  cases hg : get key (s.setx st f) with
  | none => simp only; split <;> simp_all
  | some sv =>
    cases sv with
    | junk => simp only; split <;> simp_all
    | ids l =>
      simp only [setSetx_self, get_put]

theorem delIdx_nodup (s : St) (st f : Name) (key : Bytes) (id : Id) (h : NodupKeys (s.setx st f)) :
    NodupKeys ((s.delIdx st f key id).setx st f) := by
  unfold St.delIdx; split
  · rw [setSetx_self]; exact nodupKeys_put h
  · exact h

/-- how an entry may have evolved during the first pass: a plain key is untouched, a value bucket
    has lost only entries that do not mirror an entity -/
def Shr (s : St) (st f : Name) (key : Bytes) (sv0 sv' : SVal) : Prop :=
  match sv0, sv' with
  | .junk, .junk => True
  | .ids l0, .ids l' => (∀ y ∈ l', y ∈ l0) ∧ (∀ y ∈ l0, SxValid s st f key y → y ∈ l')
  | _, _ => False

theorem Shr.refl (s : St) (st f : Name) (key : Bytes) (sv : SVal) : Shr s st f key sv sv := by
  cases sv with
  | junk => trivial
  | ids l => exact ⟨fun _ h => h, fun _ h _ => h⟩

theorem Shr.trans {s : St} {st f : Name} {key : Bytes} {a b c : SVal} (h1 : Shr s st f key a b) (h2 : Shr s st f key b c) :
    Shr s st f key a c := by
  cases a <;> cases b <;> cases c <;> simp only [Shr] at h1 h2 ⊢ <;> try contradiction
  exact ⟨fun y h => h1.1 y (h2.1 y h), fun y h hv => h2.2 y (h1.2 y h hv) hv⟩

/-- invariant of the first pass (both loops), relative to the state `s` it started from -/
structure SxInv (st f : Name) (s x : St) : Prop where
  ents : x.ents = s.ents
  frame : Frame [.setx st f] s x
  nodup : NodupKeys (x.setx st f)
  sub : ∀ k sv', x.bk st f k = some sv' → ∃ sv0, s.bk st f k = some sv0 ∧ Shr s st f k sv0 sv'

theorem sxInner_inv (st f : Name) (key : Bytes) (s x : St) (id : Id) (h : SxInv st f s x) :
    SxInv st f s (sxInner st f true key x id).1 := by
  rw [sxInner_true_fst]
  split
  · exact h
  · next hv =>
    refine ⟨(delIdx_ents ..).trans h.ents, h.frame.trans (delIdx_frame ..), delIdx_nodup _ _ _ _ _ h.nodup, ?_⟩
    intro k sv' hk
    rw [delIdx_bk] at hk
    by_cases hkk : k = key
    · subst hkk
      rw [if_pos rfl] at hk
      cases hb : x.bk st f k with
      | none => rw [hb] at hk; cases hk
      | some sv =>
        obtain ⟨sv0, h0, hs⟩ := h.sub k sv hb
        rw [hb] at hk
        cases sv with
        | junk => simp only at hk; cases hk; exact ⟨sv0, h0, hs⟩
        | ids l =>
          simp only at hk; cases hk
          refine ⟨sv0, h0, hs.trans ?_⟩
          refine ⟨fun y hy => (mem_sdel.1 hy).1, fun y hy hvy => mem_sdel.2 ⟨hy, ?_⟩⟩
          rintro rfl
          exact hv ((sxValid_congr h.ents st f k y).2 hvy)
    · rw [if_neg hkk] at hk
      exact h.sub k sv' hk

/-- after the inner loop over the ids `l` of value bucket `key`, what is left of them mirrors entities -/
theorem sxInner_loop (st f : Name) (key : Bytes) (s x : St) (l : List Id) (h : SxInv st f s x) :
    SxInv st f s (runSteps (sxInner st f true key) l x).1 ∧
    (∀ k, k ≠ key → (runSteps (sxInner st f true key) l x).1.bk st f k = x.bk st f k) ∧
    (∀ l', (runSteps (sxInner st f true key) l x).1.bk st f key = some (.ids l') →
      ∀ id ∈ l, id ∈ l' → SxValid s st f key id) ∧
    (∀ l', (runSteps (sxInner st f true key) l x).1.bk st f key = some (.ids l') →
      ∃ l0, x.bk st f key = some (.ids l0) ∧ ∀ y ∈ l', y ∈ l0) ∧
    ((runSteps (sxInner st f true key) l x).1.bk st f key = some .junk → x.bk st f key = some .junk) := by
  let I : St → Prop := fun y => SxInv st f s y ∧ (∀ k, k ≠ key → y.bk st f k = x.bk st f k) ∧
    (∀ l', y.bk st f key = some (.ids l') → ∃ l0, x.bk st f key = some (.ids l0) ∧ ∀ z ∈ l', z ∈ l0) ∧
    (y.bk st f key = some .junk → x.bk st f key = some .junk)
  have hshrink : ∀ y a l', (sxInner st f true key y a).1.bk st f key = some (.ids l') →
      ∃ l1, y.bk st f key = some (.ids l1) ∧ ∀ z ∈ l', z ∈ l1 := by
    intro y a l' hl'
    rw [sxInner_true_fst] at hl'
    split at hl'
    · exact ⟨l', hl', fun _ h => h⟩
    · rw [delIdx_bk, if_pos rfl] at hl'
      cases hb : y.bk st f key with
      | none => rw [hb] at hl'; cases hl'
      | some sv =>
        rw [hb] at hl'
        cases sv with
        | junk => simp only at hl'; cases hl'
        | ids l1 =>
          simp only at hl'; cases hl'
          exact ⟨l1, rfl, fun z hz => (mem_sdel.1 hz).1⟩
  have hI : ∀ y a, I y → I (sxInner st f true key y a).1 := by
    intro y a ⟨h1, h2, h3, h4⟩
    refine ⟨sxInner_inv st f key s y a h1, ?_, ?_, ?_⟩
    · intro k hk
      rw [sxInner_true_fst]
      split
      · exact h2 k hk
      · rw [delIdx_bk, if_neg hk]; exact h2 k hk
    · intro l' hl'
      obtain ⟨l1, e1, s1⟩ := hshrink y a l' hl'
      obtain ⟨l0, e0, s0⟩ := h3 l1 e1
      exact ⟨l0, e0, fun z hz => s0 z (s1 z hz)⟩
    · intro hj
      apply h4
      rw [sxInner_true_fst] at hj
      split at hj
      · exact hj
      · rw [delIdx_bk, if_pos rfl] at hj
        cases hb : y.bk st f key with
        | none => rw [hb] at hj; cases hj
        | some sv =>
          rw [hb] at hj
          cases sv with
          | junk => rfl
          | ids l1 => simp only at hj; cases hj
  have hI0 : I x := ⟨h, fun _ _ => rfl, fun l' hl' => ⟨l', hl', fun _ h => h⟩, fun h => h⟩
  let Q : St → Id → Prop := fun y id => ∀ l', y.bk st f key = some (.ids l') → id ∈ l' → SxValid s st f key id
  have hQ := runSteps_establish (sxInner st f true key) I Q hI
    (by
      intro y a b _ hq l' hl' hb
      obtain ⟨l1, e1, s1⟩ := hshrink y a l' hl'
      exact hq l1 e1 (s1 b hb))
    (by
      intro y a ⟨h1, _, _, _⟩ l' hl' ha
      rw [sxInner_true_fst] at hl'
      split at hl'
      · next hv => exact (sxValid_congr h1.ents st f key a).1 hv
      · rw [delIdx_bk, if_pos rfl] at hl'
        cases hb : y.bk st f key with
        | none => rw [hb] at hl'; cases hl'
        | some sv =>
          rw [hb] at hl'
          cases sv with
          | junk => simp only at hl'; cases hl'
          | ids l1 =>
            simp only at hl'; cases hl'
            exact absurd rfl (mem_sdel.1 ha).2)
    l x hI0
  obtain ⟨h1, h2, h3, h4⟩ := runSteps_inv _ I hI l x hI0
  exact ⟨h1, h2, fun l' hl' id hid hin => hQ id hid l' hl' hin, h3, h4⟩

theorem bk_setSetx (s : St) (st f : Name) (b : List (Bytes × SVal)) (k : Bytes) :
    (s.setSetx st f b).bk st f k = get k b := by
  unfold St.bk; rw [setSetx_self]

theorem sxStep1_true_fst (st f : Name) (s : St) (kv : Bytes × SVal) :
    (sxStep1 st f true s kv).1 =
      match kv.2 with
      | .junk => s.setSetx st f (del kv.1 (s.setx st f))
      | .ids l => (runSteps (sxInner st f true kv.1) l s).1 := by
  unfold sxStep1
  cases kv.2 <;> rfl

theorem sxStep1_inv (st f : Name) (s x : St) (kv : Bytes × SVal) (h : SxInv st f s x) :
    SxInv st f s (sxStep1 st f true x kv).1 := by
  rw [sxStep1_true_fst]
  cases hk : kv.2 with
  | ids l => exact (sxInner_loop st f kv.1 s x l h).1
  | junk =>
    refine ⟨h.ents, h.frame.trans (frame_setSetx ..), by rw [setSetx_self]; exact nodupKeys_del h.nodup, ?_⟩
    intro k sv' hb
    rw [bk_setSetx, get_del] at hb
    split at hb
    · cases hb
    · exact h.sub k sv' hb

/-- all entries of a value bucket mirror entities -/
def EntryValid (s : St) (st f : Name) (k : Bytes) (sv' : SVal) : Prop :=
  ∃ l', sv' = .ids l' ∧ ∀ y ∈ l', SxValid s st f k y

theorem sxPass1_loop (st f : Name) (s : St) (hn : NodupKeys (s.setx st f)) :
    let xr := (runSteps (sxStep1 st f true) (s.setx st f) s).1
    SxInv st f s xr ∧ ∀ k sv', xr.bk st f k = some sv' → EntryValid s st f k sv' := by
  intro xr
  have hI0 : SxInv st f s s := ⟨rfl, Frame.refl _ s, hn, fun k sv' h => ⟨sv', h, Shr.refl ..⟩⟩
  have hI : ∀ x, ∀ a ∈ s.setx st f, SxInv st f s x → SxInv st f s (sxStep1 st f true x a).1 :=
    fun x a _ h => sxStep1_inv st f s x a h
  have hinv : SxInv st f s xr := runSteps_inv_mem _ (SxInv st f s) _ hI s hI0
  have hQ := runSteps_establish_mem (sxStep1 st f true) (SxInv st f s)
    (fun x kv => ∀ sv', x.bk st f kv.1 = some sv' → EntryValid s st f kv.1 sv') (s.setx st f) hI
    (by
      intro x a _ b _ hx hq sv' hb
      rw [sxStep1_true_fst] at hb
      cases hk : a.2 with
      | junk =>
        rw [hk] at hb
        simp only [bk_setSetx, get_del] at hb
        split at hb
        · cases hb
        · exact hq sv' hb
      | ids l =>
        rw [hk] at hb
        simp only at hb
        obtain ⟨_, g2, _, g4, g5⟩ := sxInner_loop st f a.1 s x l hx
        by_cases hkk : b.1 = a.1
        · rw [hkk] at hb ⊢
          cases sv' with
          | junk =>
            obtain ⟨l', e, _⟩ := hq _ (hkk ▸ g5 hb)
            cases e
          | ids l' =>
            obtain ⟨l0, e0, s0⟩ := g4 l' hb
            obtain ⟨l1, e1, v1⟩ := hq _ (hkk ▸ e0)
            cases e1
            exact ⟨l', rfl, fun y hy => hkk ▸ v1 y (s0 y hy)⟩
        · rw [g2 b.1 hkk] at hb
          exact hq sv' hb)
    (by
      intro x a ha hx sv' hb
      have h0 : s.bk st f a.1 = some a.2 := get_of_mem_nodup hn ha
      rw [sxStep1_true_fst] at hb
      cases hk : a.2 with
      | junk =>
        rw [hk] at hb
        simp only [bk_setSetx, get_del, if_pos rfl] at hb
        cases hb
      | ids l =>
        rw [hk] at hb h0
        simp only at hb
        obtain ⟨g1, _, g3, _, _⟩ := sxInner_loop st f a.1 s x l hx
        obtain ⟨sv0, e0, hs⟩ := g1.sub a.1 sv' hb
        rw [h0] at e0; cases e0
        cases sv' with
        | junk => simp [Shr] at hs
        | ids l' =>
          simp only [Shr] at hs
          exact ⟨l', rfl, fun y hy => g3 l' hb y (hs.1 y hy) hy⟩)
    s hI0
  refine ⟨hinv, ?_⟩
  intro k sv' hb
  obtain ⟨sv0, e0, _⟩ := hinv.sub k sv' hb
  exact hQ (k, sv0) (get_some_mem e0) sv' hb

theorem sxKept_zero_iff (st f : Name) (k : Bytes) (s : St) (l : List Id) :
    sxKept st f true k s l = 0 ↔ ∀ id ∈ l, ¬SxValid s st f k id := by
  unfold sxKept SxValid
  simp only [if_true, List.length_eq_zero_iff, List.filter_eq_nil_iff, Bool.and_eq_true]

theorem mem_sxToDelete (st f : Name) (s : St) (B : List (Bytes × SVal)) (k : Bytes) :
    k ∈ sxToDelete st f true s B ↔ ∃ l, (k, SVal.ids l) ∈ B ∧ sxKept st f true k s l = 0 := by
  induction B with
  | nil => simp [sxToDelete]
  | cons kv t ih =>
    unfold sxToDelete
    cases hk : kv.2 with
    | junk =>
      simp only [ih]
      constructor
      · rintro ⟨l, hl, h0⟩; exact ⟨l, List.mem_cons_of_mem _ hl, h0⟩
      · rintro ⟨l, hl, h0⟩
        rcases List.mem_cons.1 hl with e | hl
        · rw [← e] at hk; cases hk
        · exact ⟨l, hl, h0⟩
    | ids l0 =>
      simp only
      by_cases hz : sxKept st f true kv.1 s l0 = 0
      · simp only [hz, and_self, if_true, List.mem_cons, ih]
        constructor
        · rintro (rfl | ⟨l, hl, h0⟩)
          · exact ⟨l0, Or.inl (by rw [← hk]), hz⟩
          · exact ⟨l, Or.inr hl, h0⟩
        · rintro ⟨l, hl | hl, h0⟩
          · left; rw [← hl]
          · exact Or.inr ⟨l, hl, h0⟩
      · simp only [hz, and_false, if_false, ih]
        constructor
        · rintro ⟨l, hl, h0⟩; exact ⟨l, List.mem_cons_of_mem _ hl, h0⟩
        · rintro ⟨l, hl, h0⟩
          rcases List.mem_cons.1 hl with e | hl
          · exfalso
            have e1 : k = kv.1 := congrArg Prod.fst e
            have e2 : SVal.ids l = kv.2 := congrArg Prod.snd e
            rw [hk] at e2; cases e2
            exact hz (e1 ▸ h0)
          · exact ⟨l, hl, h0⟩

theorem sxDeleteKeys_props (st f : Name) (keys : List Bytes) (x : St) :
    (sxDeleteKeys st f keys x).ents = x.ents ∧ Frame [.setx st f] x (sxDeleteKeys st f keys x) ∧
    (NodupKeys (x.setx st f) → NodupKeys ((sxDeleteKeys st f keys x).setx st f)) ∧
    ∀ k, (sxDeleteKeys st f keys x).bk st f k = if k ∈ keys then none else x.bk st f k := by
  unfold sxDeleteKeys
  induction keys generalizing x with
  | nil => exact ⟨rfl, Frame.refl _ x, fun h => h, fun k => by simp⟩
  | cons a t ih =>
    rw [List.foldl_cons]
    obtain ⟨h1, h2, h3, h4⟩ := ih (x.setSetx st f (del a (x.setx st f)))
    refine ⟨h1, (frame_setSetx ..).trans h2, fun hn => h3 (by rw [setSetx_self]; exact nodupKeys_del hn), ?_⟩
    intro k
    rw [h4 k, bk_setSetx, get_del]
    by_cases hk : k = a
    · simp [hk]
    · by_cases hkt : k ∈ t
      · simp [hkt]
      · simp [hk, hkt, St.bk]

/-- every entry is a non-empty value bucket mirroring entities -/
def SxGood (s : St) (st f : Name) (x : St) : Prop :=
  ∀ k sv', x.bk st f k = some sv' → ∃ l', sv' = .ids l' ∧ l' ≠ [] ∧ ∀ y ∈ l', SxValid s st f k y

theorem sxPass1_post (st f : Name) (s : St) (hn : NodupKeys (s.setx st f)) :
    let x1 := sxDeleteKeys st f (sxToDelete st f true s (s.setx st f)) (runSteps (sxStep1 st f true) (s.setx st f) s).1
    x1.ents = s.ents ∧ Frame [.setx st f] s x1 ∧ NodupKeys (x1.setx st f) ∧ SxGood s st f x1 := by
  intro x1
  obtain ⟨hinv, hval⟩ := sxPass1_loop st f s hn
  obtain ⟨d1, d2, d3, d4⟩ := sxDeleteKeys_props st f (sxToDelete st f true s (s.setx st f))
    (runSteps (sxStep1 st f true) (s.setx st f) s).1
  refine ⟨d1.trans hinv.ents, hinv.frame.trans d2, d3 hinv.nodup, ?_⟩
  intro k sv' hb
  rw [d4 k] at hb
  split at hb
  · cases hb
  · next hnd =>
    obtain ⟨l', e, hv⟩ := hval k sv' hb
    subst e
    refine ⟨l', rfl, ?_, hv⟩
    obtain ⟨sv0, e0, hs⟩ := hinv.sub k _ hb
    cases sv0 with
    | junk => simp [Shr] at hs
    | ids l0 =>
      simp only [Shr] at hs
      intro hnil
      apply hnd
      rw [mem_sxToDelete]
      refine ⟨l0, get_some_mem e0, (sxKept_zero_iff ..).2 ?_⟩
      intro y hy hvy
      have := hs.2 y hy hvy
      rw [hnil] at this; cases this

theorem addIdx_bk (s : St) (st f : Name) (val : Bytes) (id : Id) (k : Bytes) :
    (s.addIdx st f val id).bk st f k =
      if k = val then some (.ids (match s.bk st f val with | some (.ids l) => sins id l | _ => [id]))
      else s.bk st f k := by
  unfold St.addIdx St.bk
  cases hg : get val (s.setx st f) with
  | none => simp only [setSetx_self, get_put]
  | some sv =>
    cases sv with
    | junk => simp only [setSetx_self, get_put]
    | ids l => simp only [setSetx_self, get_put]

theorem addIdx_props (s : St) (st f : Name) (val : Bytes) (id : Id) :
    (s.addIdx st f val id).ents = s.ents ∧ Frame [.setx st f] s (s.addIdx st f val id) ∧
    (NodupKeys (s.setx st f) → NodupKeys ((s.addIdx st f val id).setx st f)) := by
  unfold St.addIdx
  split
  · exact ⟨rfl, frame_setSetx .., fun h => by rw [setSetx_self]; exact nodupKeys_put h⟩
  · exact ⟨rfl, frame_setSetx .., fun h => by rw [setSetx_self]; exact nodupKeys_put h⟩

theorem inIdx_bk {s : St} {st f : Name} {v : Bytes} {id : Id} :
    s.inIdx st f v id = true ↔ ∃ l, s.bk st f v = some (.ids l) ∧ id ∈ l := inIdx_iff

theorem sxStep2Val_true_fst (st f : Name) (id : Id) (s : St) (v : Bytes) :
    (sxStep2Val st f true id s v).1 = if s.inIdx st f v id = true then s else s.addIdx st f v id := by
  unfold sxStep2Val; split <;> rfl

/-- invariant of the second pass -/
structure SxInv2 (st f : Name) (s x : St) : Prop where
  ents : x.ents = s.ents
  frame : Frame [.setx st f] s x
  nodup : NodupKeys (x.setx st f)
  good : SxGood s st f x

theorem sxStep2Val_inv (st f : Name) (s x : St) (id : Id) (v : Bytes) (hv : SxValid s st f v id)
    (h : SxInv2 st f s x) : SxInv2 st f s (sxStep2Val st f true id x v).1 := by
  rw [sxStep2Val_true_fst]
  split
  · exact h
  · obtain ⟨a1, a2, a3⟩ := addIdx_props x st f v id
    refine ⟨a1.trans h.ents, h.frame.trans a2, a3 h.nodup, ?_⟩
    intro k sv' hb
    rw [addIdx_bk] at hb
    split at hb
    · next hk =>
      subst hk
      cases hb
      cases hg : x.bk st f k with
      | none => exact ⟨[id], rfl, by simp, fun y hy => by rw [List.mem_singleton.1 hy]; exact hv⟩
      | some sv =>
        cases sv with
        | junk => exact ⟨[id], rfl, by simp, fun y hy => by rw [List.mem_singleton.1 hy]; exact hv⟩
        | ids l =>
          obtain ⟨l', e, _, hl⟩ := h.good k _ hg
          cases e
          refine ⟨sins id l, rfl, ?_, ?_⟩
          · intro hnil
            have : id ∈ sins id l := mem_sins.2 (Or.inl rfl)
            rw [hnil] at this; cases this
          · intro y hy
            rcases mem_sins.1 hy with rfl | hy
            · exact hv
            · exact hl y hy
    · exact h.good k sv' hb

theorem sxStep2Val_mono (st f : Name) (x : St) (id : Id) (v : Bytes) (v' : Bytes) (id' : Id)
    (h : x.inIdx st f v' id' = true) : (sxStep2Val st f true id x v).1.inIdx st f v' id' = true := by
  rw [sxStep2Val_true_fst]
  split
  · exact h
  · obtain ⟨l, hl, hid⟩ := inIdx_bk.1 h
    rw [inIdx_bk, addIdx_bk]
    by_cases hk : v' = v
    · subst hk
      rw [if_pos rfl, hl]
      exact ⟨sins id l, rfl, mem_sins.2 (Or.inr hid)⟩
    · rw [if_neg hk]; exact ⟨l, hl, hid⟩

theorem sxStep2Val_establish (st f : Name) (x : St) (id : Id) (v : Bytes) :
    (sxStep2Val st f true id x v).1.inIdx st f v id = true := by
  rw [sxStep2Val_true_fst]
  split
  · next h => exact h
  · rw [inIdx_bk, addIdx_bk, if_pos rfl]
    refine ⟨_, rfl, ?_⟩
    split
    · exact mem_sins.2 (Or.inl rfl)
    · exact List.mem_singleton.2 rfl

theorem sxValid_of_setOf {s : St} {st f : Name} {id : Id} {v : Bytes} (h : v ∈ s.setOf st id f) :
    SxValid s st f v id := ⟨present_of_setOf h, hasVal_iff.2 h⟩

theorem sxStep2_post (st f : Name) (s x : St) (id : Id) (h : SxInv2 st f s x) :
    SxInv2 st f s (sxStep2 st f true x id).1 ∧
    (∀ v' id', x.inIdx st f v' id' = true → (sxStep2 st f true x id).1.inIdx st f v' id' = true) ∧
    ∀ v ∈ s.setOf st id f, (sxStep2 st f true x id).1.inIdx st f v id = true := by
  unfold sxStep2
  have hset : x.setOf st id f = s.setOf st id f := setOf_congr h.ents st id f
  rw [hset]
  let I : St → Prop := fun y => SxInv2 st f s y ∧ ∀ v' id', x.inIdx st f v' id' = true → y.inIdx st f v' id' = true
  have hI : ∀ y, ∀ v ∈ s.setOf st id f, I y → I (sxStep2Val st f true id y v).1 := fun y v hv ⟨h1, h2⟩ =>
    ⟨sxStep2Val_inv st f s y id v (sxValid_of_setOf hv) h1, fun v' id' hin => sxStep2Val_mono st f y id v v' id' (h2 v' id' hin)⟩
  have hI0 : I x := ⟨h, fun _ _ h => h⟩
  obtain ⟨h1, h2⟩ := runSteps_inv_mem _ I _ hI x hI0
  have hQ := runSteps_establish_mem (sxStep2Val st f true id) I (fun y v => y.inIdx st f v id = true)
    (s.setOf st id f) hI
    (fun y a _ b _ _ hq => sxStep2Val_mono st f y id a b id hq)
    (fun y a _ _ => sxStep2Val_establish st f y id a) x hI0
  exact ⟨h1, h2, hQ⟩

/-- **set index, convergence**: after one fix run a check of the index reports nothing at all -/
theorem set_fix_post (st f : Name) (s : St) (hn : NodupKeys (s.setx st f)) :
    let s' := (setCheck st f true s).1
    s'.ents = s.ents ∧ Frame [.setx st f] s s' ∧ NodupKeys (s'.setx st f) ∧ sxRep st f s' = [] := by
  intro s'
  obtain ⟨a1, a2, a3, a4⟩ := sxPass1_post st f s hn
  have hx1 : SxInv2 st f s _ := ⟨a1, a2, a3, a4⟩
  have hs' : s' = (runSteps (sxStep2 st f true)
      ((sxDeleteKeys st f (sxToDelete st f true s (s.setx st f)) (runSteps (sxStep1 st f true) (s.setx st f) s).1).ids st)
      (sxDeleteKeys st f (sxToDelete st f true s (s.setx st f)) (runSteps (sxStep1 st f true) (s.setx st f) s).1)).1 := rfl
  have hI : ∀ y a, SxInv2 st f s y → SxInv2 st f s (sxStep2 st f true y a).1 :=
    fun y a h => (sxStep2_post st f s y a h).1
  have hinv : SxInv2 st f s s' := by rw [hs']; exact runSteps_inv _ _ hI _ _ hx1
  have hQ := runSteps_establish (sxStep2 st f true) (SxInv2 st f s)
    (fun y id => ∀ v ∈ s.setOf st id f, y.inIdx st f v id = true) hI
    (fun y a b hy hq v hv => (sxStep2_post st f s y a hy).2.1 v b (hq v hv))
    (fun y a hy => (sxStep2_post st f s y a hy).2.2)
    ((sxDeleteKeys st f (sxToDelete st f true s (s.setx st f)) (runSteps (sxStep1 st f true) (s.setx st f) s).1).ids st)
    _ hx1
  rw [← hs'] at hQ
  refine ⟨hinv.ents, hinv.frame, hinv.nodup, ?_⟩
  apply List.eq_nil_iff_forall_not_mem.2
  intro r hr
  unfold sxRep at hr
  rcases List.mem_append.1 hr with hr | hr
  · obtain ⟨kv, hkv, hr⟩ := List.mem_flatMap.1 hr
    have hb : s'.bk st f kv.1 = some kv.2 := get_of_mem_nodup hinv.nodup hkv
    obtain ⟨l', e, hne, hv⟩ := hinv.good kv.1 kv.2 hb
    unfold sxRep1 at hr
    rw [e] at hr
    simp only [hne, if_false, List.append_nil] at hr
    obtain ⟨id, hid, hr⟩ := List.mem_flatMap.1 hr
    rw [sxInner_rep_of_valid false ((sxValid_congr hinv.ents st f kv.1 id).2 (hv id hid))] at hr
    cases hr
  · obtain ⟨id, hid, hr⟩ := List.mem_flatMap.1 hr
    unfold sxRep2 at hr
    obtain ⟨v, hv, hr⟩ := List.mem_flatMap.1 hr
    have hid' : id ∈ (sxDeleteKeys st f (sxToDelete st f true s (s.setx st f))
        (runSteps (sxStep1 st f true) (s.setx st f) s).1).ids st := by
      rw [ids_congr a1, ← ids_congr hinv.ents]; exact hid
    rw [setOf_congr hinv.ents] at hv
    have := hQ id hid' v hv
    unfold sxStep2Val at hr
    simp [this] at hr

end StorageModel.C09
