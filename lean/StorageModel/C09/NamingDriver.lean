import StorageModel.Driver.Common
import StorageModel.C09.Universe
import StorageModel.C09.NamingSpec
/- model driver for the C09 cases over schemas with names, keys / paths and declaring stores (harness/c09_naming.go).

   Case line:    N:<txmode>:<schema descriptor> @H <history> @C <corruptions> @S <state tokens> [@O <implementation output>]
   Output line:  R1 <reports> | <ro1> | R2 <reports> | D2 <state> | R3 <reports> | <ro3> | R4 <reports> | <same4>

   Schema descriptor: declarations joined by ",", fields by "/", path elements by ">" (stores: things, owners roots;
   things_x EXTENDED child of things, things_p PLAIN child of things):
     s/<store>/<name>/<path>                 scalar symbol   AddSymbolWithKey(name, string, key, prefix...)
     k/<store>/<name>/<path>/<linked>        fk symbol       AddFkSymbolWithKey(name, key, linked, prefix...)
     l/<store>/<name>                        set symbol      AddSetSymbol
     L/<store>/<name>/<listStore>            fk set symbol   AddFkSetSymbol
     U/<decl>/<symStore>/<name>/<n|N>        unique index declared BY store <decl> (N: nullable)
     X/<decl>/<symStore>/<name>              set index
     F/<decl>/<symStore>/<name>/<n|N>/<fkStore>/<fkName>   fk index
     C/<decl>/<symStore>/<name>/<n|N>        fk constraint
     K/<decl>/<symStore>/<name>/<oStore>/<oName>           link collection
   State: E <store> <id> (<path> <v>)* (<set path> <s>)* ^<extra keys>   per declared symbol of the store, in
          declaration order; U / X lines as in harness/c09.go, named <symbol store>.<symbol NAME>. -/
namespace StorageModel.C09.ND
open StorageModel StorageModel.C09

def joinSp (l : List String) : String := " ".intercalate l

def storeOrder : List Name := [things, thingsX, thingsP, owners]

def etypeOf (st : Name) : Name := if st = thingsX ∨ st = thingsP then things else st

structure Desc where
  scalars : List NSym := []
  sets : List NSym := []
  links : List (Name × NLinkColl) := []
  cons : List (Name × NConstraint) := []
  deriving Repr

def parsePath (s : String) : List Name := s.splitOn ">"

def Desc.sym (d : Desc) (st f : Name) : NSym :=
  match (d.scalars ++ d.sets).find? fun y => y.store = st ∧ y.name = f with
  | some y => y
  | none => ⟨st, f, [f]⟩

def parseDecl (d : Desc) (t : String) : Option Desc :=
  match t.splitOn "/" with
  | ["s", st, nm, p] => some { d with scalars := d.scalars ++ [⟨st, nm, parsePath p⟩] }
  | ["k", st, nm, p, _] => some { d with scalars := d.scalars ++ [⟨st, nm, parsePath p⟩] }
  | ["l", st, nm] => some { d with sets := d.sets ++ [⟨st, nm, [nm]⟩] }
  | ["L", st, nm, _] => some { d with sets := d.sets ++ [⟨st, nm, [nm]⟩] }
  | ["U", dc, st, nm, n] => some { d with cons := d.cons ++ [(dc, .unique (d.sym st nm) (n = "N"))] }
  | ["X", dc, st, nm] => some { d with cons := d.cons ++ [(dc, .setIdx (d.sym st nm))] }
  | ["F", dc, st, nm, n, fs, fn] => some { d with cons := d.cons ++ [(dc, .fkIndex (d.sym st nm) (n = "N") (d.sym fs fn))] }
  | ["C", dc, st, nm, n] =>
    -- the linked store is the one named in the symbol's declaration
    some { d with cons := d.cons ++ [(dc, .fkCons (d.sym st nm) (n = "N") "")] }
  | ["K", dc, st, nm, os, on] => some { d with links := d.links ++ [(dc, ⟨d.sym st nm, d.sym os on⟩)] }
  | _ => none

/-- the linked store of every fk symbol (`k/<store>/<name>/<path>/<linked>`) -/
def linkedOf (decls : List String) (st nm : Name) : Name :=
  match decls.findSome? fun t =>
      match t.splitOn "/" with
      | ["k", st', nm', _, lk] => if st' = st ∧ nm' = nm then some lk else none
      | _ => none with
  | some lk => lk
  | none => ""

def parseDesc (s : String) : Option Desc := do
  let decls := (s.splitOn ",").filter (· ≠ "")
  let d ← decls.foldlM parseDecl {}
  pure { d with cons := d.cons.map fun (dc, c) =>
    match c with
    | .fkCons y n _ => (dc, .fkCons y n (linkedOf decls y.store y.name))
    | c => (dc, c) }

def Desc.schema (d : Desc) (order : List Name) : NSchema :=
  { stores := order.map fun st =>
      { name := st
        links := d.links.filterMap fun (dc, lc) => if dc = st then some lc else none
        constraints := d.cons.filterMap fun (dc, c) => if dc = st then some c else none }
    etype := etypeOf }

def Desc.scalarsOf (d : Desc) (st : Name) : List NSym := d.scalars.filter (·.store = st)
def Desc.setsOf (d : Desc) (st : Name) : List NSym := d.sets.filter (·.store = st)

/-! ### finite state descriptions -/

structure NEntD where
  id : Id
  fields : List (List Name × FVal)
  sets : List (List Name × List Bytes)
  deriving Repr

def passoc {V : Type} (dflt : V) (l : List (List Name × V)) (k : List Name) : V :=
  match l with
  | [] => dflt
  | p :: t => if k = p.1 then p.2 else passoc dflt t k

def mkNEnt (e : NEntD) : NEnt := { fields := passoc .nil e.fields, sets := passoc [] e.sets }

structure NStD where
  ents : List (Name × List NEntD)
  uniq : List ((Name × Name) × List (Bytes × Id))
  setx : List ((Name × Name) × List (Bytes × SVal))
  deriving Repr

/-- the physical, layered database of a description -/
def NStD.toNSt (L : Layering) (d : NStD) : NSt :=
  { ents := fun r => (assoc [] d.ents r).map fun e =>
      (e.id,
        { own := mkNEnt e
          child := fun c =>
            match L.decl c with
            | some dc =>
              if dc.parent = r then ((assoc [] d.ents c).find? fun ce => ce.id = e.id).map mkNEnt
              else none
            | none => none })
    uniq := assoc2 [] d.uniq
    setx := assoc2 [] d.setx }

/-- the records of one store, in bucket order -/
def NSt.rows (L : Layering) (n : NSt) (st : Name) : List (Id × NEnt) :=
  match L.decl st with
  | none => (n.ents st).map fun q => (q.1, q.2.own)
  | some d => (n.ents d.parent).filterMap fun q => (q.2.child st).map fun e => (q.1, e)

/-! ### parsing -/

def optWire (t : String) : Option FVal :=
  if t = "~" then some .nil else (Bytes.ofHex t).map .str

def parseList (t : String) : Option (List Bytes) :=
  if t = "" then some [] else (t.splitOn ",").mapM Bytes.ofHex

def parseSet (t : String) : Option (Option (List Bytes)) :=
  if t = "~" then some none
  else if t.startsWith "=" then (parseList (t.drop 1).toString).map some
  else none

def takePairs (n : Nat) (toks : List String) : Option (List (String × String) × List String) :=
  match n, toks with
  | 0, r => some ([], r)
  | n + 1, a :: b :: r => (takePairs n r).map fun (ps, rest) => ((a, b) :: ps, rest)
  | _, _ => none

def splitIdx (idx : String) : Name × Name :=
  match idx.splitOn "." with
  | [a, b] => (a, b)
  | _ => (idx, "")

structure Parsed where
  has : List (Name × Id × List Name) := []
  extra : List ((Name × Id) × String) := []
  ents : List (Name × List NEntD) := []
  uniq : List ((Name × Name) × List (Bytes × Id)) := []
  setx : List ((Name × Name) × List (Bytes × SVal)) := []

def addEnt (l : List (Name × List NEntD)) (st : Name) (p : NEntD) : List (Name × List NEntD) :=
  match l with
  | [] => [(st, [p])]
  | q :: t => if q.1 = st then (q.1, q.2 ++ [p]) :: t else q :: addEnt t st p

partial def parseState (d : Desc) (toks : List String) (acc : Parsed) : Option Parsed :=
  match toks with
  | [] => some acc
  | "E" :: st :: id :: rest => do
    let idb ← Bytes.ofHex id
    let scs := d.scalarsOf st
    let sts := d.setsOf st
    let (fs, rest) ← takePairs scs.length rest
    let (ss, rest) ← takePairs sts.length rest
    let fields ← (scs.zip fs).mapM fun (y, (_, v)) => (optWire v).map fun x => (y.path, x)
    let sets ← (sts.zip ss).mapM fun (y, (_, v)) => (parseSet v).map fun x => (y.path, x)
    let has := sets.filterMap fun (p, x) => if x.isSome then some (st, idb, p) else none
    match rest with
    | ex :: rest =>
      if !ex.startsWith "^" then none
      else
        parseState d rest { acc with
          ents := addEnt acc.ents st ⟨idb, fields, sets.map fun (p, x) => (p, x.getD [])⟩
          has := acc.has ++ has
          extra := acc.extra ++ [((st, idb), ex)] }
    | [] => none
  | "U" :: idx :: n :: rest => do
    let (ps, rest) ← takePairs n.toNat! rest
    let ents ← ps.mapM fun (k, v) => do
      let kb ← Bytes.ofHex k
      let vb ← Bytes.ofHex v
      pure (kb, vb)
    parseState d rest { acc with uniq := acc.uniq ++ [(splitIdx idx, ents)] }
  | "X" :: idx :: n :: rest => do
    let (ps, rest) ← takePairs n.toNat! rest
    let ents ← ps.mapM fun (k, v) => do
      let kb ← Bytes.ofHex k
      if v = "!" then pure (kb, SVal.junk)
      else if v.startsWith "=" then (parseList (v.drop 1).toString).map fun l => (kb, SVal.ids l)
      else none
    parseState d rest { acc with setx := acc.setx ++ [(splitIdx idx, ents)] }
  | _ => none

def toNSt (p : Parsed) : NSt := (NStD.mk p.ents p.uniq p.setx).toNSt uniLayering

/-! ### rendering -/

def renderSet : Option (List Bytes) → String
  | none => "~"
  | some l => "=" ++ ",".intercalate (l.map Bytes.toWire)

def renderFVal : FVal → String
  | .nil => "~"
  | .str v => Bytes.toWire v

def pathStr (p : List Name) : String := ">".intercalate p

def extraOf (ex : List ((Name × Id) × String)) (st : Name) (id : Id) : String :=
  match ex.find? fun q => q.1 = (st, id) with
  | some q => q.2
  | none => "^"

def uniqueIdxs (d : Desc) : List NSym :=
  d.cons.filterMap fun (_, c) => match c with | .unique y _ => some y | _ => none

def setIdxs (d : Desc) : List NSym :=
  d.cons.filterMap fun (_, c) => match c with | .setIdx y => some y | _ => none

def renderState (d : Desc) (n : NSt) (has : List (Name × Id × List Name)) (ex : List ((Name × Id) × String)) : String :=
  let es := storeOrder.flatMap fun st =>
    (NSt.rows uniLayering n st).flatMap fun p =>
      ["E", st, Bytes.toWire p.1]
        ++ (d.scalarsOf st).flatMap (fun y => [pathStr y.path, renderFVal (p.2.fields y.path)])
        ++ (d.setsOf st).flatMap (fun y =>
            [pathStr y.path, renderSet (if has.contains (st, p.1, y.path) || !(p.2.sets y.path).isEmpty then some (p.2.sets y.path) else none)])
        ++ [extraOf ex st p.1]
  let us := (uniqueIdxs d).flatMap fun y =>
    ["U", y.store ++ "." ++ y.name, toString (n.uniq y.store y.name).length]
      ++ (n.uniq y.store y.name).flatMap fun kv => [Bytes.toWire kv.1, Bytes.toWire kv.2]
  let xs := (setIdxs d).flatMap fun y =>
    ["X", y.store ++ "." ++ y.name, toString (n.setx y.store y.name).length]
      ++ (n.setx y.store y.name).flatMap fun kv =>
        [Bytes.toWire kv.1, match kv.2 with
          | .junk => "!"
          | .ids l => "=" ++ ",".intercalate (l.map Bytes.toWire)]
  joinSp (es ++ us ++ xs)

def nilWire (b : Bytes) : String := if b.isEmpty then "~" else Bytes.toWire b

def renderMsg : Msg → String × List String
  | .uqDangling k id => ("uqDangling", [Bytes.toWire k, Bytes.toWire id])
  | .uqStale k id a => ("uqStale", [Bytes.toWire k, Bytes.toWire id, Bytes.toWire a])
  | .uqNull id => ("uqNull", [Bytes.toWire id])
  | .uqMissing v id => ("uqMissing", [Bytes.toWire v, Bytes.toWire id])
  | .uqDup v x id => ("uqDup", [Bytes.toWire v, Bytes.toWire x, Bytes.toWire id])
  | .sxDangling k id => ("sxDangling", [Bytes.toWire k, Bytes.toWire id])
  | .sxStale k id => ("sxStale", [Bytes.toWire k, Bytes.toWire id])
  | .sxEmpty k => ("sxEmpty", [Bytes.toWire k])
  | .sxJunk k => ("sxJunk", [Bytes.toWire k])
  | .sxMissing v id => ("sxMissing", [Bytes.toWire v, Bytes.toWire id])
  | .fkBackDangling t s => ("fkBackDangling", [Bytes.toWire t, Bytes.toWire s])
  | .fkBackStale t s a => ("fkBackStale", [Bytes.toWire t, Bytes.toWire s, nilWire a])
  | .fkNull id => ("fkNull", [Bytes.toWire id])
  | .fkDangling id t => ("fkDangling", [Bytes.toWire id, Bytes.toWire t])
  | .fkBackMissing id t => ("fkBackMissing", [Bytes.toWire id, Bytes.toWire t])
  | .lkDangling id l => ("lkDangling", [Bytes.toWire id, Bytes.toWire l])
  | .lkOneSided id l => ("lkOneSided", [Bytes.toWire id, Bytes.toWire l])
  | .lkNoInverse => ("lkNoInverse", [])

def isLink : Msg → Bool
  | .lkDangling .. | .lkOneSided .. | .lkNoInverse => true
  | _ => false

/-- link reports carry no symbol in the code's message: they are labelled by the ENTITY TYPE of the declaring side -/
def renderReport (r : Report) : String :=
  let (c, args) := renderMsg r.msg
  let idx := if isLink r.msg then etypeOf r.store else r.store ++ "." ++ r.field
  ":".intercalate ([c, idx] ++ args ++ [if r.fixed then "t" else "f"])

def renderReports (l : List Report) : String :=
  if l.isEmpty then "." else joinSp (l.map renderReport)

/-! ### the model's answer -/

def segment (line : String) (tag next : String) : Option String :=
  match line.splitOn (" " ++ tag) with
  | [_, rest] =>
    some (if next = "" then rest else ((rest.splitOn (" " ++ next)).headD "")).trimAscii.toString
  | _ => none

/-- `N:<txmode>:<descriptor>` -/
def modeOf (line : String) : Option (String × Desc) :=
  match ((line.splitOn " ").headD "").splitOn ":" with
  | ["N", tx, ds] => (parseDesc ds).map fun d => (tx, d)
  | _ => none

def stateOf (d : Desc) (line : String) : Option Parsed := do
  let seg ← segment line "@S" "@O"
  let toks := (seg.splitOn " ").filter (· ≠ "")
  parseState d toks {}

/-- the nested list bucket a repairing write creates if necessary -/
def reportEnsures (G : NSchema) (r : Report) : List (Name × Id × List Name) :=
  if !r.fixed then []
  else match r.msg with
    | .lkOneSided _ l =>
      (G.stores.flatMap (·.links)).filterMap fun lc =>
        if lc.field.store = r.store ∧ lc.field.name = r.field then some (lc.other.store, l, lc.other.path) else none
    | .fkBackMissing _ t =>
      (G.stores.flatMap (·.constraints)).filterMap fun c =>
        match c with
        | .fkIndex y _ z => if y.store = r.store ∧ y.name = r.field then some (z.store, t, z.path) else none
        | _ => none
    | _ => []

def bucketsEnsured (G : NSchema) (rs : List Report) : List (Name × Id × List Name) := rs.flatMap (reportEnsures G)

def orderFor (tx : String) : List Name := if tx = "tx1r" then storeOrder.reverse else storeOrder

def step (line : String) : String :=
  match modeOf line with
  | none => "bad-case"
  | some (tx, d) =>
    match stateOf d line with
    | none => "bad-case"
    | some p0 =>
      let L := uniLayering
      let G := d.schema (orderFor tx)
      let n0 := toNSt p0
      let h0 := p0.has
      let ex := p0.extra
      let p1 := checkAllN G L false n0
      let h1 := h0 ++ bucketsEnsured G p1.2
      let d0 := renderState d n0 h0 ex
      let d1 := renderState d p1.1 h1 ex
      let p2 := checkAllN G L true p1.1
      let h2 := h1 ++ bucketsEnsured G p2.2
      let d2 := renderState d p2.1 h2 ex
      let p3 := checkAllN G L false p2.1
      let h3 := h2 ++ bucketsEnsured G p3.2
      let d3 := renderState d p3.1 h3 ex
      let p4 := checkAllN G L true p3.1
      let h4 := h3 ++ bucketsEnsured G p4.2
      let d4 := renderState d p4.1 h4 ex
      " | ".intercalate
        [ "R1 " ++ renderReports p1.2,
          if d1 = d0 then "same" else "changed D " ++ d1,
          "R2 " ++ renderReports p2.2,
          "D2 " ++ d2,
          "R3 " ++ renderReports p3.2,
          if d3 = d2 then "same" else "changed D " ++ d3,
          "R4 " ++ renderReports p4.2,
          if d4 = d2 then "same" else "differs" ]

/-! ### the property's verdict on the implementation's observations -/

def unNil (t : String) : Option Bytes := if t = "~" then some [] else Bytes.ofHex t

/-- the link collection a link report belongs to: the one whose declaring side has the entity type of the label -/
def linkSymOf (G : NSchema) (et : Name) : Name × Name :=
  match (G.stores.flatMap (·.links)).find? fun lc => etypeOf lc.field.store = et with
  | some lc => (lc.field.store, lc.field.name)
  | none => (et, "")

def parseReport (G : NSchema) (t : String) : Option Report := do
  let parts := t.splitOn ":"
  let cls ← parts[0]?
  let idx ← parts[1]?
  let fl ← parts.getLast?
  let fixed ← if fl = "t" then some true else if fl = "f" then some false else none
  let args ← ((parts.drop 2).dropLast).mapM unNil
  let (st, f) := splitIdx idx
  let mk (m : Msg) : Option Report :=
    if isLink m then
      let (ls, lf) := linkSymOf G st
      some ⟨ls, lf, m, fixed⟩
    else some ⟨st, f, m, fixed⟩
  match cls, args with
  | "uqDangling", [k, id] => mk (.uqDangling k id)
  | "uqStale", [k, id, a] => mk (.uqStale k id a)
  | "uqNull", [id] => mk (.uqNull id)
  | "uqMissing", [v, id] => mk (.uqMissing v id)
  | "uqDup", [v, x, id] => mk (.uqDup v x id)
  | "sxDangling", [k, id] => mk (.sxDangling k id)
  | "sxStale", [k, id] => mk (.sxStale k id)
  | "sxEmpty", [k] => mk (.sxEmpty k)
  | "sxJunk", [k] => mk (.sxJunk k)
  | "sxMissing", [v, id] => mk (.sxMissing v id)
  | "fkBackDangling", [t, s] => mk (.fkBackDangling t s)
  | "fkBackStale", [t, s, a] => mk (.fkBackStale t s a)
  | "fkNull", [id] => mk (.fkNull id)
  | "fkDangling", [id, t] => mk (.fkDangling id t)
  | "fkBackMissing", [id, t] => mk (.fkBackMissing id t)
  | "lkDangling", [id, l] => mk (.lkDangling id l)
  | "lkOneSided", [id, l] => mk (.lkOneSided id l)
  | "lkNoInverse", [] => mk .lkNoInverse
  | _, _ => none

def parseReports (G : NSchema) (seg : String) (tag : String) : Option (List Report) :=
  if !seg.startsWith (tag ++ " ") then none
  else
    let body := (seg.drop (tag.length + 1)).toString
    if body = "." then some []
    else ((body.splitOn " ").filter (fun t => t ≠ "" && t ≠ "err")).mapM (parseReport G)

def abortedIn (seg : String) : Bool := (seg.splitOn " ").contains "err"

def parseD (d : Desc) (seg : String) (tag : String) : Option Parsed :=
  if !seg.startsWith (tag ++ " ") then none
  else
    let toks := (((seg.drop (tag.length + 1)).toString).splitOn " ").filter (· ≠ "")
    parseState d toks {}

def renderDisc : Disc → String
  | .uqExtra st f k id => s!"uqExtra:{st}.{f}:{Bytes.toWire k}:{Bytes.toWire id}"
  | .uqMissing st f v id => s!"uqMissing:{st}.{f}:{Bytes.toWire v}:{Bytes.toWire id}"
  | .sxExtra st f k id => s!"sxExtra:{st}.{f}:{Bytes.toWire k}:{Bytes.toWire id}"
  | .sxMissing st f v id => s!"sxMissing:{st}.{f}:{Bytes.toWire v}:{Bytes.toWire id}"
  | .sxEmptyKey st f k => s!"sxEmptyKey:{st}.{f}:{Bytes.toWire k}"
  | .sxJunkKey st f k => s!"sxJunkKey:{st}.{f}:{Bytes.toWire k}"
  | .fkBackExtra st f t x => s!"fkBackExtra:{st}.{f}:{Bytes.toWire t}:{Bytes.toWire x}"
  | .fkBackMissing st f x t => s!"fkBackMissing:{st}.{f}:{Bytes.toWire x}:{Bytes.toWire t}"
  | .fkDangling st f x t => s!"fkDangling:{st}.{f}:{Bytes.toWire x}:{Bytes.toWire t}"
  | .null st f id => s!"null:{st}.{f}:{Bytes.toWire id}"
  | .lkDangling st f id l => s!"lkDangling:{st}.{f}:{Bytes.toWire id}:{Bytes.toWire l}"
  | .lkOneSided st f id l => s!"lkOneSided:{st}.{f}:{Bytes.toWire id}:{Bytes.toWire l}"
  | .lkNoInverse st f => s!"lkNoInverse:{st}.{f}"

def conflictB (S : Schema) (s : St) : Disc → Bool
  | .uqMissing st f v id => (s.uniq st f).any fun kv => kv.1 = v ∧ kv.2 ≠ id
  | .null _ _ _ => true
  | .fkDangling st f _ _ => S.nonNullFk st f
  | .lkNoInverse _ _ => true
  | _ => false

/-- the nullable foreign-key symbols of the schema -/
def nullableFks (G : NSchema) : List NSym :=
  (G.stores.flatMap (·.constraints)).filterMap fun c =>
    match c with
    | .fkIndex y n _ => if n then some y else none
    | .fkCons y n _ => if n then some y else none
    | _ => none

/-- a fix run must not touch the entities themselves — ids, membership of the child stores, the value under
    every declared scalar path, every key no symbol names (the `^` token) — except for nulling a dangling
    nullable foreign key AT ITS PATH -/
def entitiesKept (d : Desc) (G : NSchema) (p0 p2 : Parsed) : Bool :=
  storeOrder.all fun st =>
    let e0 := assoc [] p0.ents st
    let e2 := assoc [] p2.ents st
    e0.map (·.id) == e2.map (·.id) &&
    e0.all fun a =>
      match e2.find? fun b => b.id = a.id with
      | none => false
      | some b =>
        (d.scalarsOf st).all (fun y =>
          decide (passoc .nil b.fields y.path = passoc .nil a.fields y.path) ||
            ((nullableFks G).contains y && decide (passoc .nil b.fields y.path = .nil)))
        && extraOf p2.extra st a.id == extraOf p0.extra st a.id

def specStep (line : String) : String :=
  match modeOf line with
  | none => "bad-case"
  | some (tx, d) =>
  match stateOf d line, segment line "@O" "" with
  | some p0, some obs =>
    let L := uniLayering
    let G := d.schema (orderFor tx)
    let S := G.flat
    let s0 := nview G L (toNSt p0)
    match obs.splitOn " | " with
    | [r1s, ro1, r2s, d2s, r3s, ro3, r4s, s4] =>
      match parseReports G r1s "R1", parseReports G r2s "R2", parseD d d2s "D2", parseReports G r3s "R3",
          parseReports G r4s "R4" with
      | some r1, some r2, some pd2, some r3, some _r4 =>
        let sd2 := nview G L (toNSt pd2)
        let inc := inconsistencies S s0
        let inc2 := inconsistencies S sd2
        let unsound := r1.filter fun r => !inc.contains r.about
        let unreported := inc.filter fun d => !(r1.any fun r => r.about = d)
        let roBad := (if ro1 = "same" then [] else ["ro1"]) ++ (if ro3 = "same" then [] else ["ro3"])
          ++ (if (r1 ++ r3).all (fun r => !r.fixed) then [] else ["fixed-flag"])
        let fixUnsound := r2.filter fun r => !inc.contains r.about
        let flagBad := r2.filter fun r =>
          (r.fixed && r3.any fun r' => r'.about = r.about) || (!r.fixed && !decide (Unfixable S r))
        let left := r3.filter fun r => !decide (Unfixable S r)
        let leftD := inc2.filter fun d => !conflictB S sd2 d
        let clause (name : String) (items : List String) : List String :=
          if items.isEmpty then [] else [name ++ "[" ++ ";".intercalate items ++ "]"]
        let aborted := (if abortedIn r1s then ["R1"] else []) ++ (if abortedIn r2s then ["R2"] else [])
          ++ (if abortedIn r3s then ["R3"] else []) ++ (if abortedIn r4s then ["R4"] else [])
        let fails : List String :=
          clause "schema" (if decide G.Ok then [] else ["not-ok"])
          ++ clause "aborted" aborted
          ++ clause "sound" (unsound.map renderReport)
          ++ clause "complete" (unreported.map renderDisc)
          ++ clause "readonly" roBad
          ++ clause "fixsound" (fixUnsound.map renderReport)
          ++ clause "flags" (flagBad.map renderReport)
          ++ clause "converge" (left.map renderReport ++ leftD.map renderDisc)
          ++ clause "entities" (if entitiesKept d G p0 pd2 then [] else ["changed"])
          ++ clause "idempotent" (if s4 = "same" then [] else ["differs"])
        if fails.isEmpty then "ok" else "fail:" ++ ",".intercalate fails
      | _, _, _, _, _ => "fail:observation-not-understood"
    | _ => "fail:observation-not-understood"
  | _, _ => "bad-case"

end StorageModel.C09.ND
