import StorageModel.C09.NamingSpec
/-
  C09 — the NAMES of the symbols are irrelevant to what the checker finds and repairs.

  Rename every symbol of a schema by an injective `ρ : Name → Name` (`G.ren ρ`), and file every index bucket
  under the new name (`RenRel ρ n n'`: the same entities buckets, `n'.uniq st (ρ f) = n.uniq st f`, likewise the
  set indexes).  Then the run over the renamed schema produces the same reports with the labels renamed, the
  same entities buckets — the same keys read, the same keys written — and the same index buckets under their
  new names (`naming_irrelevant_run`).  The names enter only where `indexer.getIndexPath` and the report texts
  use `symbol.GetName()`; every entity access is by the symbol's store and path.
-/
namespace StorageModel.C09
open StorageModel

def NSym.ren (ρ : Name → Name) (y : NSym) : NSym := { y with name := ρ y.name }

def NConstraint.ren (ρ : Name → Name) : NConstraint → NConstraint
  | .unique y n => .unique (y.ren ρ) n
  | .setIdx y => .setIdx (y.ren ρ)
  | .fkIndex y n z => .fkIndex (y.ren ρ) n (z.ren ρ)
  | .fkCons y n linked => .fkCons (y.ren ρ) n linked
  | .noop => .noop

def NLinkColl.ren (ρ : Name → Name) (lc : NLinkColl) : NLinkColl := ⟨lc.field.ren ρ, lc.other.ren ρ⟩

def NStoreDef.ren (ρ : Name → Name) (sd : NStoreDef) : NStoreDef :=
  { name := sd.name, links := sd.links.map (NLinkColl.ren ρ), constraints := sd.constraints.map (NConstraint.ren ρ) }

/-- the same schema with every symbol renamed: stores, paths, nullability, declaring stores untouched -/
def NSchema.ren (ρ : Name → Name) (G : NSchema) : NSchema :=
  { stores := G.stores.map (NStoreDef.ren ρ), etype := G.etype }

def Report.ren (ρ : Name → Name) (r : Report) : Report := { r with field := ρ r.field }

/-- the same physical database with the index buckets filed under the new names -/
structure RenRel (ρ : Name → Name) (n n' : NSt) : Prop where
  ents : n'.ents = n.ents
  uniq : ∀ st f, n'.uniq st (ρ f) = n.uniq st f
  setx : ∀ st f, n'.setx st (ρ f) = n.setx st f

/-- `a'` (renamed schema, re-filed indexes) does what `a` does -/
def SimR (ρ : Name → Name) (a a' : NProc) : Prop :=
  ∀ n n' : NSt, RenRel ρ n n' → RenRel ρ (a n).1 (a' n').1 ∧ (a' n').2 = (a n).2.map (Report.ren ρ)

variable {ρ : Name → Name} {L : Layering}

theorem simr_skip : SimR ρ NProc.skip NProc.skip := fun _ _ h => ⟨h, rfl⟩

theorem simr_seq {a1 a2 b1 b2 : NProc} (h1 : SimR ρ a1 b1) (h2 : SimR ρ a2 b2) : SimR ρ (a1.seq a2) (b1.seq b2) := by
  intro n n' h
  obtain ⟨r1, e1⟩ := h1 n n' h
  obtain ⟨r2, e2⟩ := h2 _ _ r1
  refine ⟨r2, ?_⟩
  show (b1 n').2 ++ (b2 (b1 n').1).2 = ((a1 n).2 ++ (a2 (a1 n).1).2).map (Report.ren ρ)
  rw [e1, e2, List.map_append]

theorem simr_seqAll {α : Type} (fa fb : α → NProc) (l : List α) (h : ∀ x ∈ l, SimR ρ (fa x) (fb x)) :
    SimR ρ (seqAllN (l.map fa)) (seqAllN (l.map fb)) := by
  induction l with
  | nil => exact simr_skip
  | cons x t ih => exact simr_seq (h x (List.mem_cons_self ..)) (ih fun y hy => h y (List.mem_cons_of_mem _ hy))

theorem simr_steps {α : Type} (sa sb : NSt → α → NSt × List Report) (h : ∀ x, SimR ρ (fun n => sa n x) (fun n => sb n x))
    (l : List α) : SimR ρ (runStepsN sa l) (runStepsN sb l) := by
  induction l with
  | nil => exact fun _ _ h => ⟨h, rfl⟩
  | cons x t ih =>
    intro n n' hr
    obtain ⟨r1, e1⟩ := h x n n' hr
    obtain ⟨r2, e2⟩ := ih _ _ r1
    refine ⟨r2, ?_⟩
    show (sb n' x).2 ++ (runStepsN sb t (sb n' x).1).2 = ((sa n x).2 ++ (runStepsN sa t (sa n x).1).2).map (Report.ren ρ)
    rw [e1, e2, List.map_append]

theorem simr_loop {α : Type} (sa sb : NSt → α → NSt × List Report) (la lb : NSt → List α)
    (hl : ∀ n n', RenRel ρ n n' → lb n' = la n) (h : ∀ x, SimR ρ (fun n => sa n x) (fun n => sb n x)) :
    SimR ρ (fun n => runStepsN sa (la n) n) (fun n => runStepsN sb (lb n) n) := by
  intro n n' hr
  have := simr_steps sa sb h (la n) n n' hr
  show RenRel ρ (runStepsN sa (la n) n).1 (runStepsN sb (lb n') n').1 ∧ (runStepsN sb (lb n') n').2 = _
  rw [hl n n' hr]
  exact this

theorem simr_mk {m m' : NSt} {rs rs' : List Report} (h : RenRel ρ m m') (hr : rs' = rs.map (Report.ren ρ)) :
    RenRel ρ ((m, rs) : NSt × List Report).1 ((m', rs') : NSt × List Report).1 ∧
      ((m', rs') : NSt × List Report).2 = ((m, rs) : NSt × List Report).2.map (Report.ren ρ) := ⟨h, hr⟩

theorem RenRel.ite {n n' m m' : NSt} (c : Bool) (h : RenRel ρ n n') (hm : RenRel ρ m m') :
    RenRel ρ (if c then m else n) (if c then m' else n') := by
  cases c
  · exact h
  · exact hm

/-! ### reads depend on the entities buckets only -/

theorem RenRel.entityBucket {n n' : NSt} (h : RenRel ρ n n') (st : Name) (id : Id) :
    n'.entityBucket L st id = n.entityBucket L st id := by
  unfold NSt.entityBucket; rw [h.ents]

theorem RenRel.present {n n' : NSt} (h : RenRel ρ n n') (st : Name) (id : Id) : n'.present L st id = n.present L st id := by
  unfold NSt.present; rw [h.entityBucket]

theorem RenRel.presentR {n n' : NSt} (h : RenRel ρ n n') (y : NSym) (id : Id) :
    n'.present L (y.ren ρ).store id = n.present L y.store id := h.present y.store id

theorem RenRel.presentF {n n' : NSt} (h : RenRel ρ n n') (st : Name) : n'.present L st = n.present L st := by
  funext id; exact h.present st id

theorem RenRel.ids {n n' : NSt} (h : RenRel ρ n n') (st : Name) : n'.ids L st = n.ids L st := by
  have hi : n'.iterateIds L st = n.iterateIds L st := by
    unfold NSt.iterateIds NSt.bucket
    rw [h.ents, h.presentF]
  unfold NSt.ids
  rw [hi, h.presentF]

theorem RenRel.idsR {n n' : NSt} (h : RenRel ρ n n') (y : NSym) : n'.ids L (y.ren ρ).store = n.ids L y.store := h.ids y.store

theorem RenRel.evalT {n n' : NSt} (h : RenRel ρ n n') (y : NSym) (id : Id) : n'.evalT L (y.ren ρ) id = n.evalT L y id := by
  unfold NSt.evalT NSym.ren; simp only; rw [h.entityBucket]

theorem RenRel.evalB {n n' : NSt} (h : RenRel ρ n n') (y : NSym) (id : Id) : n'.evalB L (y.ren ρ) id = n.evalB L y id := by
  unfold NSt.evalB; rw [h.evalT]

theorem RenRel.setOf {n n' : NSt} (h : RenRel ρ n n') (y : NSym) (id : Id) : n'.setOf L (y.ren ρ) id = n.setOf L y id := by
  unfold NSt.setOf NSym.ren; simp only; rw [h.entityBucket]

theorem RenRel.hasVal {n n' : NSt} (h : RenRel ρ n n') (y : NSym) (id : Id) (k : Bytes) :
    n'.hasVal L (y.ren ρ) id k = n.hasVal L y id k := by unfold NSt.hasVal; rw [h.setOf]

theorem RenRel.hasBack {n n' : NSt} (h : RenRel ρ n n') (z : NSym) (t id : Id) :
    n'.hasBack L (z.ren ρ) t id = n.hasBack L z t id := by unfold NSt.hasBack; rw [h.setOf]

theorem RenRel.uniqOf {n n' : NSt} (h : RenRel ρ n n') (y : NSym) :
    n'.uniq (y.ren ρ).store (y.ren ρ).name = n.uniq y.store y.name := h.uniq y.store y.name

theorem RenRel.setxOf {n n' : NSt} (h : RenRel ρ n n') (y : NSym) :
    n'.setx (y.ren ρ).store (y.ren ρ).name = n.setx y.store y.name := h.setx y.store y.name

/-! ### writes keep the relation -/

theorem RenRel.setUniq (hρ : Function.Injective ρ) {n n' : NSt} (h : RenRel ρ n n') (st f : Name) (b : List (Bytes × Id)) :
    RenRel ρ (n.setUniq st f b) (n'.setUniq st (ρ f) b) := by
  refine ⟨h.ents, ?_, h.setx⟩
  intro st' f'
  show (if st' = st ∧ ρ f' = ρ f then b else n'.uniq st' (ρ f')) = if st' = st ∧ f' = f then b else n.uniq st' f'
  by_cases hc : st' = st ∧ f' = f
  · rw [if_pos hc, if_pos ⟨hc.1, by rw [hc.2]⟩]
  · rw [if_neg hc, if_neg (fun hc' => hc ⟨hc'.1, hρ hc'.2⟩), h.uniq]

theorem RenRel.setSetx (hρ : Function.Injective ρ) {n n' : NSt} (h : RenRel ρ n n') (st f : Name) (b : List (Bytes × SVal)) :
    RenRel ρ (n.setSetx st f b) (n'.setSetx st (ρ f) b) := by
  refine ⟨h.ents, h.uniq, ?_⟩
  intro st' f'
  show (if st' = st ∧ ρ f' = ρ f then b else n'.setx st' (ρ f')) = if st' = st ∧ f' = f then b else n.setx st' f'
  by_cases hc : st' = st ∧ f' = f
  · rw [if_pos hc, if_pos ⟨hc.1, by rw [hc.2]⟩]
  · rw [if_neg hc, if_neg (fun hc' => hc ⟨hc'.1, hρ hc'.2⟩), h.setx]

theorem nModEnt_uniq (n : NSt) (st : Name) (id : Id) (g : NEnt → NEnt) : (n.modEnt L st id g).uniq = n.uniq := by
  unfold NSt.modEnt; cases L.decl st <;> rfl

theorem nModEnt_setx (n : NSt) (st : Name) (id : Id) (g : NEnt → NEnt) : (n.modEnt L st id g).setx = n.setx := by
  unfold NSt.modEnt; cases L.decl st <;> rfl

theorem RenRel.modEnt {n n' : NSt} (h : RenRel ρ n n') (st : Name) (id : Id) (g : NEnt → NEnt) :
    RenRel ρ (n.modEnt L st id g) (n'.modEnt L st id g) := by
  refine ⟨?_, ?_, ?_⟩
  · unfold NSt.modEnt
    cases L.decl st with
    | none => simp only [h.ents]
    | some d => simp only [h.ents]
  · intro st' f; rw [nModEnt_uniq, nModEnt_uniq]; exact h.uniq st' f
  · intro st' f; rw [nModEnt_setx, nModEnt_setx]; exact h.setx st' f

theorem RenRel.delIdx (hρ : Function.Injective ρ) {n n' : NSt} (h : RenRel ρ n n') (y : NSym) (key : Bytes) (id : Id) :
    RenRel ρ (n.delIdx y key id) (n'.delIdx (y.ren ρ) key id) := by
  unfold NSt.delIdx
  rw [h.setxOf]
  cases get key (n.setx y.store y.name) with
  | none => exact h
  | some v =>
    cases v with
    | junk => exact h
    | ids l => exact h.setSetx hρ _ _ _

theorem RenRel.addIdx (hρ : Function.Injective ρ) {n n' : NSt} (h : RenRel ρ n n') (y : NSym) (val : Bytes) (id : Id) :
    RenRel ρ (n.addIdx y val id) (n'.addIdx (y.ren ρ) val id) := by
  unfold NSt.addIdx
  rw [h.setxOf]
  cases get val (n.setx y.store y.name) with
  | none => exact h.setSetx hρ _ _ _
  | some v =>
    cases v with
    | junk => exact h.setSetx hρ _ _ _
    | ids l => exact h.setSetx hρ _ _ _

/-! ### the five procedures -/

theorem simr_uqStep1 (hρ : Function.Injective ρ) (y : NSym) (fix : Bool) (kv : Bytes × Id) :
    SimR ρ (fun n => uqStep1N L y fix n kv) (fun n => uqStep1N L (y.ren ρ) fix n kv) := by
  intro n n' h
  show RenRel ρ (uqStep1N L y fix n kv).1 (uqStep1N L (y.ren ρ) fix n' kv).1 ∧
    (uqStep1N L (y.ren ρ) fix n' kv).2 = (uqStep1N L y fix n kv).2.map (Report.ren ρ)
  unfold uqStep1N
  rw [h.evalB, h.uniqOf, h.presentR]
  by_cases h1 : (!n.present L y.store kv.2) = true
  · rw [if_pos h1, if_pos h1]
    exact simr_mk (RenRel.ite fix h (h.setUniq hρ _ _ _)) rfl
  · rw [if_neg h1, if_neg h1]
    by_cases h2 : kv.1 = n.evalB L y kv.2
    · rw [if_pos h2, if_pos h2]; exact simr_mk h rfl
    · rw [if_neg h2, if_neg h2]
      exact simr_mk (RenRel.ite fix h (h.setUniq hρ _ _ _)) rfl

theorem simr_uqStep2 (hρ : Function.Injective ρ) (y : NSym) (nl fix : Bool) (id : Id) :
    SimR ρ (fun n => uqStep2N L y nl fix n id) (fun n => uqStep2N L (y.ren ρ) nl fix n id) := by
  intro n n' h
  show RenRel ρ (uqStep2N L y nl fix n id).1 (uqStep2N L (y.ren ρ) nl fix n' id).1 ∧
    (uqStep2N L (y.ren ρ) nl fix n' id).2 = (uqStep2N L y nl fix n id).2.map (Report.ren ρ)
  unfold uqStep2N
  rw [h.evalT]
  cases n.evalT L y id with
  | nil => exact simr_mk h (by cases nl <;> rfl)
  | str fv =>
    dsimp only
    by_cases h1 : fv = []
    · rw [if_pos h1, if_pos h1]
      exact simr_mk h (by cases nl <;> rfl)
    · rw [if_neg h1, if_neg h1]
      have hr : readUN n' (y.ren ρ) fv = readUN n y fv := by unfold readUN; rw [h.uniqOf]
      rw [hr]
      cases readUN n y fv with
      | none =>
        refine simr_mk (RenRel.ite fix h ?_) rfl
        unfold uqRepairN
        rw [if_neg h1, if_neg h1, h.uniqOf]
        exact h.setUniq hρ _ _ _
      | some idx =>
        dsimp only
        by_cases h2 : idx = id
        · rw [if_pos h2, if_pos h2]; exact simr_mk h rfl
        · rw [if_neg h2, if_neg h2]; exact simr_mk h rfl

theorem simr_sxInner (hρ : Function.Injective ρ) (y : NSym) (fix : Bool) (key : Bytes) (id : Id) :
    SimR ρ (fun n => sxInnerN L y fix key n id) (fun n => sxInnerN L (y.ren ρ) fix key n id) := by
  intro n n' h
  show RenRel ρ (sxInnerN L y fix key n id).1 (sxInnerN L (y.ren ρ) fix key n' id).1 ∧
    (sxInnerN L (y.ren ρ) fix key n' id).2 = (sxInnerN L y fix key n id).2.map (Report.ren ρ)
  unfold sxInnerN
  rw [h.hasVal, h.presentR]
  by_cases h1 : (!n.present L y.store id) = true
  · rw [if_pos h1, if_pos h1]
    exact simr_mk (RenRel.ite fix h (h.delIdx hρ _ _ _)) rfl
  · rw [if_neg h1, if_neg h1]
    by_cases h2 : (!n.hasVal L y id key) = true
    · rw [if_pos h2, if_pos h2]
      exact simr_mk (RenRel.ite fix h (h.delIdx hρ _ _ _)) rfl
    · rw [if_neg h2, if_neg h2]; exact simr_mk h rfl

theorem simr_sxStep1 (hρ : Function.Injective ρ) (y : NSym) (fix : Bool) (kv : Bytes × SVal) :
    SimR ρ (fun n => sxStep1N L y fix n kv) (fun n => sxStep1N L (y.ren ρ) fix n kv) := by
  intro n n' h
  show RenRel ρ (sxStep1N L y fix n kv).1 (sxStep1N L (y.ren ρ) fix n' kv).1 ∧
    (sxStep1N L (y.ren ρ) fix n' kv).2 = (sxStep1N L y fix n kv).2.map (Report.ren ρ)
  unfold sxStep1N
  cases hv : kv.2 with
  | junk =>
    dsimp only
    rw [h.setxOf]
    exact simr_mk (RenRel.ite fix h (h.setSetx hρ _ _ _)) rfl
  | ids l =>
    dsimp only
    obtain ⟨r1, e1⟩ := simr_steps (ρ := ρ) _ _ (simr_sxInner (L := L) hρ y fix kv.1) l n n' h
    refine ⟨r1, ?_⟩
    rw [e1, List.map_append]
    congr 1
    cases l <;> rfl

theorem sxKeptR {n n' : NSt} (h : RenRel ρ n n') (y : NSym) (fix : Bool) (key : Bytes) (l : List Id) :
    sxKeptN L (y.ren ρ) fix key n' l = sxKeptN L y fix key n l := by
  unfold sxKeptN
  cases fix
  · rfl
  · simp only [if_true]
    congr 1
    apply List.filter_congr
    intro id _
    rw [h.hasVal, h.presentR]

theorem sxToDeleteR {n n' : NSt} (h : RenRel ρ n n') (y : NSym) (fix : Bool) (l : List (Bytes × SVal)) :
    sxToDeleteN L (y.ren ρ) fix n' l = sxToDeleteN L y fix n l := by
  induction l with
  | nil => rfl
  | cons kv t ih =>
    unfold sxToDeleteN
    cases hv : kv.2 with
    | junk => exact ih
    | ids l' =>
      show (if _ then _ else _) = (if _ then _ else _)
      rw [sxKeptR h, ih]

theorem simr_sxDeleteKeys (hρ : Function.Injective ρ) (y : NSym) (keys : List Bytes) (n n' : NSt) (h : RenRel ρ n n') :
    RenRel ρ (sxDeleteKeysN y keys n) (sxDeleteKeysN (y.ren ρ) keys n') := by
  induction keys generalizing n n' with
  | nil => exact h
  | cons k t ih =>
    unfold sxDeleteKeysN
    simp only [List.foldl_cons]
    rw [h.setxOf]
    exact ih _ _ (h.setSetx hρ _ _ _)

theorem simr_sxStep2Val (hρ : Function.Injective ρ) (y : NSym) (fix : Bool) (id : Id) (val : Bytes) :
    SimR ρ (fun n => sxStep2ValN y fix id n val) (fun n => sxStep2ValN (y.ren ρ) fix id n val) := by
  intro n n' h
  show RenRel ρ (sxStep2ValN y fix id n val).1 (sxStep2ValN (y.ren ρ) fix id n' val).1 ∧
    (sxStep2ValN (y.ren ρ) fix id n' val).2 = (sxStep2ValN y fix id n val).2.map (Report.ren ρ)
  have hin : n'.inIdx (y.ren ρ) val id = n.inIdx y val id := by unfold NSt.inIdx; rw [h.setxOf]
  unfold sxStep2ValN
  rw [hin]
  by_cases h1 : n.inIdx y val id = true
  · rw [if_pos h1, if_pos h1]; exact simr_mk h rfl
  · rw [if_neg h1, if_neg h1]
    exact simr_mk (RenRel.ite fix h (h.addIdx hρ _ _ _)) rfl

theorem simr_fkInner1 (y z : NSym) (fix : Bool) (id fkId : Id) :
    SimR ρ (fun n => fkInner1N L y z fix id n fkId) (fun n => fkInner1N L (y.ren ρ) (z.ren ρ) fix id n fkId) := by
  intro n n' h
  show RenRel ρ (fkInner1N L y z fix id n fkId).1 (fkInner1N L (y.ren ρ) (z.ren ρ) fix id n' fkId).1 ∧
    (fkInner1N L (y.ren ρ) (z.ren ρ) fix id n' fkId).2 = (fkInner1N L y z fix id n fkId).2.map (Report.ren ρ)
  unfold fkInner1N
  rw [h.evalB, h.presentR]
  by_cases h1 : (!n.present L y.store fkId) = true
  · rw [if_pos h1, if_pos h1]
    exact simr_mk (RenRel.ite fix h (h.modEnt _ _ _)) rfl
  · rw [if_neg h1, if_neg h1]
    by_cases h2 : n.evalB L y fkId = [] ∨ n.evalB L y fkId ≠ id
    · rw [if_pos h2, if_pos h2]
      exact simr_mk (RenRel.ite fix h (h.modEnt _ _ _)) rfl
    · rw [if_neg h2, if_neg h2]; exact simr_mk h rfl

theorem simr_fkDangling (y : NSym) (nl fix : Bool) (id key : Id) :
    SimR ρ (fun n => fkDanglingStepN L y nl fix n id key) (fun n => fkDanglingStepN L (y.ren ρ) nl fix n id key) := by
  intro n n' h
  exact simr_mk (RenRel.ite _ h (h.modEnt _ _ _)) rfl

theorem simr_fkStep2 (y z : NSym) (nl fix : Bool) (id : Id) :
    SimR ρ (fun n => fkStep2N L y nl z fix n id) (fun n => fkStep2N L (y.ren ρ) nl (z.ren ρ) fix n id) := by
  intro n n' h
  show RenRel ρ (fkStep2N L y nl z fix n id).1 (fkStep2N L (y.ren ρ) nl (z.ren ρ) fix n' id).1 ∧
    (fkStep2N L (y.ren ρ) nl (z.ren ρ) fix n' id).2 = (fkStep2N L y nl z fix n id).2.map (Report.ren ρ)
  unfold fkStep2N
  rw [h.evalB, h.hasBack, h.presentR]
  by_cases h1 : n.evalB L y id = []
  · rw [if_pos h1, if_pos h1]
    exact simr_mk h (by cases nl <;> rfl)
  · rw [if_neg h1, if_neg h1]
    by_cases h2 : (!n.present L z.store (n.evalB L y id)) = true
    · rw [if_pos h2, if_pos h2]
      exact simr_fkDangling y nl fix id _ n n' h
    · rw [if_neg h2, if_neg h2]
      by_cases h3 : n.hasBack L z (n.evalB L y id) id = true
      · rw [if_pos h3, if_pos h3]; exact simr_mk h rfl
      · rw [if_neg h3, if_neg h3]
        exact simr_mk (RenRel.ite fix h (h.modEnt _ _ _)) rfl

theorem simr_fcStep (y : NSym) (nl : Bool) (linked : Name) (fix : Bool) (id : Id) :
    SimR ρ (fun n => fcStepN L y nl linked fix n id) (fun n => fcStepN L (y.ren ρ) nl linked fix n id) := by
  intro n n' h
  show RenRel ρ (fcStepN L y nl linked fix n id).1 (fcStepN L (y.ren ρ) nl linked fix n' id).1 ∧
    (fcStepN L (y.ren ρ) nl linked fix n' id).2 = (fcStepN L y nl linked fix n id).2.map (Report.ren ρ)
  unfold fcStepN
  rw [h.evalB, h.present]
  by_cases h1 : n.evalB L y id = []
  · rw [if_pos h1, if_pos h1]
    exact simr_mk h (by cases nl <;> rfl)
  · rw [if_neg h1, if_neg h1]
    by_cases h2 : (!n.present L linked (n.evalB L y id)) = true
    · rw [if_pos h2, if_pos h2]
      exact simr_fkDangling y nl fix id _ n n' h
    · rw [if_neg h2, if_neg h2]; exact simr_mk h rfl

theorem simr_constraint (hρ : Function.Injective ρ) (c : NConstraint) (fix : Bool) :
    SimR ρ (c.check L fix) ((c.ren ρ).check L fix) := by
  cases c with
  | unique y nl =>
    show SimR ρ (uniqueCheckN L y nl fix) (uniqueCheckN L (y.ren ρ) nl fix)
    unfold uniqueCheckN
    apply simr_seq
    · exact simr_loop _ _ (fun n => n.uniq y.store y.name) (fun n => n.uniq (y.ren ρ).store (y.ren ρ).name)
        (fun n n' h => h.uniqOf y) (simr_uqStep1 hρ y fix)
    · exact simr_loop _ _ (fun n => n.ids L y.store) (fun n => n.ids L (y.ren ρ).store) (fun n n' h => h.idsR y)
        (simr_uqStep2 hρ y nl fix)
  | setIdx y =>
    show SimR ρ (setCheckN L y fix) (setCheckN L (y.ren ρ) fix)
    unfold setCheckN
    apply simr_seq
    · intro n n' h
      obtain ⟨r1, e1⟩ := simr_steps (ρ := ρ) _ _ (simr_sxStep1 (L := L) hρ y fix) (n.setx y.store y.name) n n' h
      refine ⟨?_, ?_⟩
      · show RenRel ρ (sxDeleteKeysN y _ _) (sxDeleteKeysN (y.ren ρ) _ _)
        rw [h.setxOf, sxToDeleteR h]
        exact simr_sxDeleteKeys hρ y _ _ _ r1
      · show (runStepsN (sxStep1N L (y.ren ρ) fix) (n'.setx (y.ren ρ).store (y.ren ρ).name) n').2 = _
        rw [h.setxOf]
        exact e1
    · exact simr_loop _ _ (fun n => n.ids L y.store) (fun n => n.ids L (y.ren ρ).store) (fun n n' h => h.idsR y)
        (fun id => simr_loop _ _ (fun n => n.setOf L y id) (fun n => n.setOf L (y.ren ρ) id) (fun n n' h => h.setOf y id)
          (simr_sxStep2Val hρ y fix id))
  | fkIndex y nl z =>
    show SimR ρ (fkIndexCheckN L y nl z fix) (fkIndexCheckN L (y.ren ρ) nl (z.ren ρ) fix)
    unfold fkIndexCheckN
    apply simr_seq
    · exact simr_loop _ _ (fun n => n.ids L z.store) (fun n => n.ids L (z.ren ρ).store) (fun n n' h => h.idsR z)
        (fun id => simr_loop _ _ (fun n => n.setOf L z id) (fun n => n.setOf L (z.ren ρ) id) (fun n n' h => h.setOf z id)
          (simr_fkInner1 y z fix id))
    · exact simr_loop _ _ (fun n => n.ids L y.store) (fun n => n.ids L (y.ren ρ).store) (fun n n' h => h.idsR y)
        (simr_fkStep2 y z nl fix)
  | fkCons y nl linked =>
    show SimR ρ (fkConsCheckN L y nl linked fix) (fkConsCheckN L (y.ren ρ) nl linked fix)
    unfold fkConsCheckN
    exact simr_loop _ _ (fun n => n.ids L y.store) (fun n => n.ids L (y.ren ρ).store) (fun n n' h => h.idsR y)
      (simr_fcStep y nl linked fix)
  | noop => exact simr_skip

theorem simr_lkRemoveAll (y : NSym) (id : Id) (D : List Id) (n n' : NSt) (h : RenRel ρ n n') :
    RenRel ρ (lkRemoveAllN L y id D n) (lkRemoveAllN L (y.ren ρ) id D n') := by
  induction D generalizing n n' with
  | nil => exact h
  | cons d t ih =>
    unfold lkRemoveAllN
    simp only [List.foldl_cons]
    exact ih _ _ (h.modEnt _ _ _)

theorem simr_lkInner (y z : NSym) (fix : Bool) (id linkId : Id) :
    SimR ρ (fun n => lkInnerN L y z fix id n linkId) (fun n => lkInnerN L (y.ren ρ) (z.ren ρ) fix id n linkId) := by
  intro m m' hm
  show RenRel ρ (lkInnerN L y z fix id m linkId).1 (lkInnerN L (y.ren ρ) (z.ren ρ) fix id m' linkId).1 ∧
    (lkInnerN L (y.ren ρ) (z.ren ρ) fix id m' linkId).2 = (lkInnerN L y z fix id m linkId).2.map (Report.ren ρ)
  unfold lkInnerN
  rw [hm.hasBack, hm.presentR]
  by_cases h1 : (!m.present L z.store linkId) = true
  · rw [if_pos h1, if_pos h1]; exact simr_mk hm rfl
  · rw [if_neg h1, if_neg h1]
    by_cases h2 : (!m.hasBack L z linkId id) = true
    · rw [if_pos h2, if_pos h2]
      exact simr_mk (RenRel.ite fix hm (hm.modEnt _ _ _)) rfl
    · rw [if_neg h2, if_neg h2]; exact simr_mk hm rfl

theorem simr_lkStep (y z : NSym) (fix : Bool) (id : Id) :
    SimR ρ (fun n => lkStepN L y z fix n id) (fun n => lkStepN L (y.ren ρ) (z.ren ρ) fix n id) := by
  intro n n' h
  show RenRel ρ (lkStepN L y z fix n id).1 (lkStepN L (y.ren ρ) (z.ren ρ) fix n' id).1 ∧
    (lkStepN L (y.ren ρ) (z.ren ρ) fix n' id).2 = (lkStepN L y z fix n id).2.map (Report.ren ρ)
  unfold lkStepN
  rw [h.setOf]
  obtain ⟨r1, e1⟩ := simr_steps (ρ := ρ) _ _ (simr_lkInner (L := L) y z fix id) (n.setOf L y id) n n' h
  refine ⟨?_, e1⟩
  have hf : ((n.setOf L y id).filter fun l => !n'.present L (z.ren ρ).store l) =
      (n.setOf L y id).filter fun l => !n.present L z.store l := by
    apply List.filter_congr
    intro l _
    rw [h.presentR]
  cases fix
  · exact r1
  · show RenRel ρ (lkRemoveAllN L y id _ _) (lkRemoveAllN L (y.ren ρ) id _ _)
    rw [hf]
    exact simr_lkRemoveAll y id _ _ _ r1

theorem simr_link (y z : NSym) (hasInv fix : Bool) :
    SimR ρ (linkCheckN L y z hasInv fix) (linkCheckN L (y.ren ρ) (z.ren ρ) hasInv fix) := by
  unfold linkCheckN
  apply simr_seq
  · intro n n' h
    exact simr_mk h (by cases hasInv <;> rfl)
  · exact simr_loop _ _ (fun n => n.ids L y.store) (fun n => n.ids L (y.ren ρ).store) (fun n n' h => h.idsR y)
      (simr_lkStep y z fix)

theorem hasInverse_ren (hρ : Function.Injective ρ) (G : NSchema) (lc : NLinkColl) :
    (G.ren ρ).hasInverse (lc.ren ρ) = G.hasInverse lc := by
  have hb : ∀ a b : Name, (ρ a == ρ b) = (a == b) := by
    intro a b
    by_cases h : a = b
    · subst h; simp
    · have : ρ a ≠ ρ b := fun e => h (hρ e)
      rw [beq_eq_false_iff_ne.2 h, beq_eq_false_iff_ne.2 this]
  have hinner : ∀ l : List NLinkColl,
      ((l.map (NLinkColl.ren ρ)).any fun o =>
        ρ lc.field.name == o.other.name && G.etype lc.field.store == G.etype o.other.store &&
        ρ lc.other.name == o.field.name && G.etype lc.other.store == G.etype o.field.store) =
      (l.any fun o => lc.field.name == o.other.name && G.etype lc.field.store == G.etype o.other.store &&
        lc.other.name == o.field.name && G.etype lc.other.store == G.etype o.field.store) := by
    intro l
    induction l with
    | nil => rfl
    | cons o t ih =>
      rw [List.map_cons, List.any_cons, List.any_cons, ih]
      show ((ρ lc.field.name == ρ o.other.name && G.etype lc.field.store == G.etype o.other.store &&
        ρ lc.other.name == ρ o.field.name && G.etype lc.other.store == G.etype o.field.store) || _) = _
      rw [hb, hb]
  have houter : ∀ l : List NStoreDef,
      ((l.map (NStoreDef.ren ρ)).any fun sd => sd.name == lc.other.store &&
        sd.links.any fun o =>
          ρ lc.field.name == o.other.name && G.etype lc.field.store == G.etype o.other.store &&
          ρ lc.other.name == o.field.name && G.etype lc.other.store == G.etype o.field.store) =
      (l.any fun sd => sd.name == lc.other.store &&
        sd.links.any fun o => lc.field.name == o.other.name && G.etype lc.field.store == G.etype o.other.store &&
          lc.other.name == o.field.name && G.etype lc.other.store == G.etype o.field.store) := by
    intro l
    induction l with
    | nil => rfl
    | cons sd t ih =>
      rw [List.map_cons, List.any_cons, List.any_cons, ih]
      show ((sd.name == lc.other.store && (sd.links.map (NLinkColl.ren ρ)).any _) || _) = _
      rw [hinner]
  exact houter G.stores

theorem simr_store (hρ : Function.Injective ρ) (G : NSchema) (sd : NStoreDef) (fix : Bool) :
    SimR ρ (sd.check G L fix) ((sd.ren ρ).check (G.ren ρ) L fix) := by
  unfold NStoreDef.check NStoreDef.ren
  simp only [List.map_map]
  apply simr_seq
  · refine simr_seqAll _ _ _ fun lc _ => ?_
    show SimR ρ (linkCheckN L lc.field lc.other (G.hasInverse lc) fix)
      (linkCheckN L (lc.field.ren ρ) (lc.other.ren ρ) ((G.ren ρ).hasInverse (lc.ren ρ)) fix)
    rw [hasInverse_ren hρ]
    exact simr_link _ _ _ _
  · exact simr_seqAll _ _ _ fun c _ => simr_constraint hρ c fix

/-- **the names are irrelevant**: the run over the renamed schema on the database with re-filed indexes reports
    the same findings under the new labels, and leaves the same entities buckets and the same (re-filed) indexes -/
theorem simr_checkAll (hρ : Function.Injective ρ) (G : NSchema) (fix : Bool) :
    SimR ρ (checkAllN G L fix) (checkAllN (G.ren ρ) L fix) := by
  unfold checkAllN checkStoresN
  show SimR ρ _ (seqAllN ((G.stores.map (NStoreDef.ren ρ)).map (NStoreDef.check (G.ren ρ) L fix)))
  rw [List.map_map]
  exact simr_seqAll _ _ _ fun sd _ => simr_store hρ G sd fix

end StorageModel.C09
