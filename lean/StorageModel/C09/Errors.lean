import StorageModel.C09.ModelE
import StorageModel.C09.Fix
/-
  C09 — no failure branch of the checker is reachable (`checkAllE_ok`): on EVERY state — any number
  of corruptions, aimed at the same index value / entity / bucket or not, well-formed or not — and
  in both modes the error-aware model `checkAllE` (ModelE.lean) returns `.ok` with exactly the state
  and the reports of the error-free model `checkAll` (Model.lean), about which the property
  theorems are stated.  No hypothesis is needed:

  * unique index: `processIntegrityFix` is called right after `index.Read` found NO entry for the
    value, in the same state — so `indexBucket.Get(newValue) != nil` is false and the put happens
    (this is exactly what breaks when the puts are deferred to after the scan: a second holder of
    the value is classified "missing" as well and its put meets the first one's entry);
  * set index: the first pass of a fix run removes every plain key before the second pass asks for
    the value buckets (`pass1_noJunk`), and the second pass only adds value buckets;
  * fk index / link collection: the creating lookups are reached only behind `IsEntityPresent`,
    and `RemoveLink` only for an entity that had links.
-/
namespace StorageModel.C09
open StorageModel

/-! ### outcomes -/

theorem bind_ofPair (r : St × List Report) (k : St → Out) : (Out.ofPair r).bind k = (k r.1).prepend r.2 := rfl

theorem prepend_ofPair (rs : List Report) (r : St × List Report) :
    (Out.ofPair r).prepend rs = Out.ofPair (r.1, rs ++ r.2) := rfl

theorem ok_eq_ofPair (s : St) (rs : List Report) : Out.ok s rs = Out.ofPair (s, rs) := rfl

/-- a loop whose failure branches are unreachable under an invariant of the loop -/
theorem runStepsE_eq {α : Type} (stepE : St → α → Out) (step : St → α → St × List Report) (I : St → Prop)
    (hI : ∀ s a, I s → I (step s a).1) (h : ∀ s a, I s → stepE s a = Out.ofPair (step s a)) :
    ∀ (l : List α) (s : St), I s → runStepsE stepE l s = Out.ofPair (runSteps step l s) := by
  intro l
  induction l with
  | nil => intro s _; rfl
  | cons a as ih =>
    intro s hs
    show (stepE s a).bind (runStepsE stepE as) = _
    rw [h s a hs, bind_ofPair, ih _ (hI s a hs), prepend_ofPair]
    rfl

theorem seqE_eq (p q : ProcE) (p' q' : Proc) (s : St) (hp : p s = Out.ofPair (p' s))
    (hq : ∀ x, q x = Out.ofPair (q' x)) : (ProcE.seq p q) s = Out.ofPair (Proc.seq p' q' s) := by
  show (p s).bind q = _
  rw [hp, bind_ofPair, hq, prepend_ofPair]
  rfl

theorem seqAllE_eq {α : Type} (f : α → ProcE) (g : α → Proc) (h : ∀ a s, f a s = Out.ofPair (g a s)) :
    ∀ (l : List α) (s : St), seqAllE (l.map f) s = Out.ofPair (seqAll (l.map g) s) := by
  intro l
  induction l with
  | nil => intro s; rfl
  | cons a as ih =>
    intro s
    simp only [List.map_cons, seqAllE, seqAll_cons]
    exact seqE_eq _ _ _ _ s (h a s) ih

/-! ### unique index -/

theorem evalB_of_evalT_str {s : St} {st f : Name} {id : Id} {v : Bytes} (h : s.evalT st id f = .str v) :
    s.evalB st id f = v := by
  unfold St.evalB; rw [h]; rfl

/-- `processIntegrityFix` right after `index.Read` found nothing: the put happens -/
theorem uqFixE_after_read {s : St} {st f : Name} {n : Bool} {id : Id} {fv : Bytes}
    (hv : s.evalT st id f = .str fv) (hne : fv ≠ []) (hr : readU s st f fv = none) :
    uqFixE st f n s id = .ok (uqRepair s st f fv id) := by
  have hg : get fv (s.uniq st f) = none := by
    unfold readU at hr; rw [if_neg hne] at hr; exact hr
  unfold uqFixE uqRepair
  simp only [evalB_of_evalT_str hv, hg, Option.isSome_none, ne_eq, hne, not_false_eq_true, if_true,
    Bool.false_eq_true, if_false]

theorem uqStep2E_ok (st f : Name) (n fix : Bool) (s : St) (id : Id) :
    uqStep2E st f n fix s id = Out.ofPair (uqStep2 st f n fix s id) := by
  unfold uqStep2E uqStep2
  cases hv : s.evalT st id f with
  | nil => rfl
  | str fv =>
    simp only
    by_cases hne : fv = []
    · simp only [hne, if_true]; rfl
    · simp only [if_neg hne]
      cases hr : readU s st f fv with
      | none =>
        simp only
        cases fix with
        | false => rfl
        | true =>
          simp only [if_true]
          rw [uqFixE_after_read hv hne hr]
          rfl
      | some idxId =>
        simp only
        split <;> rfl

theorem uniqueCheckE_ok (st f : Name) (n fix : Bool) (s : St) :
    uniqueCheckE st f n fix s = Out.ofPair (uniqueCheck st f n fix s) := by
  unfold uniqueCheckE uniqueCheck
  apply seqE_eq
  · rfl
  · intro x
    exact runStepsE_eq _ _ (fun _ => True) (fun _ _ _ => trivial) (fun s a _ => uqStep2E_ok st f n fix s a) _ x trivial

/-! ### set index -/

/-- no key of the set-index bucket `st.f` is a plain key -/
def NoJunk (st f : Name) (s : St) : Prop := ∀ k, get k (s.setx st f) ≠ some .junk

/-- every plain key of `b'` is a plain key of `b` -/
def JunkSub (b' b : List (Bytes × SVal)) : Prop := ∀ k, get k b' = some .junk → get k b = some .junk

theorem JunkSub.refl (b : List (Bytes × SVal)) : JunkSub b b := fun _ h => h

theorem JunkSub.trans {a b c : List (Bytes × SVal)} (h1 : JunkSub a b) (h2 : JunkSub b c) : JunkSub a c :=
  fun k h => h2 k (h1 k h)

theorem setSetx_same (s : St) (st f : Name) (b : List (Bytes × SVal)) : (s.setSetx st f b).setx st f = b := by
  simp [St.setSetx]

theorem junkSub_put_ids (k : Bytes) (l : List Id) (b : List (Bytes × SVal)) : JunkSub (put k (.ids l) b) b := by
  intro k' h
  rw [get_put] at h
  split at h
  · cases h
  · exact h

theorem junkSub_del (k : Bytes) (b : List (Bytes × SVal)) : JunkSub (del k b) b := by
  intro k' h
  rw [get_del] at h
  split at h
  · cases h
  · exact h

theorem delIdx_junkSub (s : St) (st f : Name) (key : Bytes) (id : Id) :
    JunkSub ((s.delIdx st f key id).setx st f) (s.setx st f) := by
  unfold St.delIdx
  split
  · rw [setSetx_same]; exact junkSub_put_ids _ _ _
  · exact JunkSub.refl _

theorem addIdx_junkSub (s : St) (st f : Name) (val : Bytes) (id : Id) :
    JunkSub ((s.addIdx st f val id).setx st f) (s.setx st f) := by
  unfold St.addIdx
  split
  · rw [setSetx_same]; exact junkSub_put_ids _ _ _
  · rw [setSetx_same]; exact junkSub_put_ids _ _ _

theorem sxInner_junkSub (st f : Name) (fix : Bool) (key : Bytes) (s : St) (id : Id) :
    JunkSub ((sxInner st f fix key s id).1.setx st f) (s.setx st f) := by
  unfold sxInner
  split
  · cases fix
    · exact JunkSub.refl _
    · exact delIdx_junkSub _ _ _ _ _
  · split
    · cases fix
      · exact JunkSub.refl _
      · exact delIdx_junkSub _ _ _ _ _
    · exact JunkSub.refl _

theorem runSteps_sxInner_junkSub (st f : Name) (fix : Bool) (key : Bytes) (l : List Id) (s : St) :
    JunkSub ((runSteps (sxInner st f fix key) l s).1.setx st f) (s.setx st f) := by
  induction l generalizing s with
  | nil => exact JunkSub.refl _
  | cons a as ih =>
    rw [runSteps_cons]
    exact (ih _).trans (sxInner_junkSub _ _ _ _ _ _)

/-- first pass of a fix run: a plain key still in the bucket is one the cursor has not reached yet -/
theorem pass1_junk (st f : Name) (rem : List (Bytes × SVal)) (s : St)
    (h : ∀ k, get k (s.setx st f) = some .junk → (k, SVal.junk) ∈ rem) :
    NoJunk st f (runSteps (sxStep1 st f true) rem s).1 := by
  induction rem generalizing s with
  | nil =>
    intro k hk
    cases h k hk
  | cons kv rem ih =>
    rw [runSteps_cons]
    apply ih
    intro k hk
    unfold sxStep1 at hk
    cases hkv : kv.2 with
    | junk =>
      simp only [hkv, if_true, setSetx_same] at hk
      rw [get_del] at hk
      split at hk
      · cases hk
      · next hne =>
        rcases List.mem_cons.1 (h k hk) with e | hm
        · exact absurd (congrArg Prod.fst e) hne
        · exact hm
    | ids l =>
      simp only [hkv] at hk
      have := runSteps_sxInner_junkSub st f true kv.1 l s k hk
      rcases List.mem_cons.1 (h k this) with e | hm
      · rw [← e] at hkv; cases hkv
      · exact hm

theorem sxDeleteKeys_junkSub (st f : Name) (keys : List Bytes) (s : St) :
    JunkSub ((sxDeleteKeys st f keys s).setx st f) (s.setx st f) := by
  unfold sxDeleteKeys
  induction keys generalizing s with
  | nil => exact JunkSub.refl _
  | cons k ks ih =>
    rw [List.foldl_cons]
    refine (ih _).trans ?_
    rw [setSetx_same]
    exact junkSub_del _ _

theorem noJunk_of_junkSub {st f : Name} {s s' : St} (h : JunkSub (s'.setx st f) (s.setx st f)) (hn : NoJunk st f s) :
    NoJunk st f s' := fun k hk => hn k (h k hk)

/-- after the first pass of a fix run the set-index bucket holds no plain key -/
theorem pass1_noJunk (st f : Name) (s : St) :
    NoJunk st f (sxDeleteKeys st f (sxToDelete st f true s (s.setx st f))
      (runSteps (sxStep1 st f true) (s.setx st f) s).1) :=
  noJunk_of_junkSub (sxDeleteKeys_junkSub _ _ _ _) (pass1_junk st f _ s fun _ hk => get_some_mem hk)

theorem sxStep2Val_noJunk (st f : Name) (fix : Bool) (id : Id) (s : St) (val : Bytes) (h : NoJunk st f s) :
    NoJunk st f (sxStep2Val st f fix id s val).1 := by
  unfold sxStep2Val
  split
  · exact h
  · cases fix
    · exact h
    · exact noJunk_of_junkSub (addIdx_junkSub _ _ _ _ _) h

theorem sxStep2ValE_ok (st f : Name) (fix : Bool) (id : Id) (s : St) (val : Bytes) (h : fix = true → NoJunk st f s) :
    sxStep2ValE st f fix id s val = Out.ofPair (sxStep2Val st f fix id s val) := by
  unfold sxStep2ValE
  rw [if_neg]
  rintro ⟨hf, hj⟩
  exact h hf val hj

theorem sxStep2E_ok (st f : Name) (fix : Bool) (s : St) (id : Id) (h : fix = true → NoJunk st f s) :
    sxStep2E st f fix s id = Out.ofPair (sxStep2 st f fix s id) := by
  unfold sxStep2E sxStep2
  exact runStepsE_eq _ _ (fun x => fix = true → NoJunk st f x)
    (fun x a hx hf => sxStep2Val_noJunk st f fix id x a (hx hf))
    (fun x a hx => sxStep2ValE_ok st f fix id x a hx) _ s h

theorem sxStep2_noJunk (st f : Name) (fix : Bool) (s : St) (id : Id) (h : fix = true → NoJunk st f s) :
    fix = true → NoJunk st f (sxStep2 st f fix s id).1 := by
  unfold sxStep2
  exact runSteps_inv _ (fun x => fix = true → NoJunk st f x)
    (fun x a hx hf => sxStep2Val_noJunk st f fix id x a (hx hf)) _ s h

theorem setCheckE_ok (st f : Name) (fix : Bool) (s : St) : setCheckE st f fix s = Out.ofPair (setCheck st f fix s) := by
  unfold setCheckE setCheck
  show Out.bind (Out.ok _ _) _ = _
  simp only [Out.bind]
  rw [runStepsE_eq _ _ (fun x => fix = true → NoJunk st f x)
    (fun x a hx => sxStep2_noJunk st f fix x a hx) (fun x a hx => sxStep2E_ok st f fix x a hx)]
  · rfl
  · intro hf
    subst hf
    exact pass1_noJunk st f s

/-! ### fk index -/

theorem fkStep2E_ok (st f : Name) (n : Bool) (fkSt fkF : Name) (fix : Bool) (s : St) (id : Id) :
    fkStep2E st f n fkSt fkF fix s id = Out.ofPair (fkStep2 st f n fkSt fkF fix s id) := by
  unfold fkStep2E
  split
  · rfl
  · split
    · rfl
    · next hp =>
      split
      · rfl
      · rw [if_neg]
        rintro ⟨_, h⟩
        exact hp h

theorem fkIndexCheckE_ok (st f : Name) (n : Bool) (fkSt fkF : Name) (fix : Bool) (s : St) :
    fkIndexCheckE st f n fkSt fkF fix s = Out.ofPair (fkIndexCheck st f n fkSt fkF fix s) := by
  unfold fkIndexCheckE fkIndexCheck
  apply seqE_eq
  · rfl
  · intro x
    exact runStepsE_eq _ _ (fun _ => True) (fun _ _ _ => trivial)
      (fun s a _ => fkStep2E_ok st f n fkSt fkF fix s a) _ x trivial

/-! ### link collection -/

theorem lkInnerE_ok (st f oSt oF : Name) (fix : Bool) (id : Id) (s : St) (l : Id) :
    lkInnerE st f oSt oF fix id s l = Out.ofPair (lkInner st f oSt oF fix id s l) := by
  unfold lkInnerE
  split
  · rfl
  · next hp =>
    split
    · rw [if_neg]
      rintro ⟨_, h⟩
      exact hp h
    · rfl

theorem lkInner_present (st f oSt oF : Name) (fix : Bool) (id : Id) (s : St) (l : Id) (st' : Name) (id' : Id) :
    (lkInner st f oSt oF fix id s l).1.present st' id' = s.present st' id' := by
  unfold lkInner
  split
  · rfl
  · split
    · cases fix
      · rfl
      · simp only [if_true]; unfold St.addToSet; exact modEnt_present ..
    · rfl

theorem runSteps_lkInner_present (st f oSt oF : Name) (fix : Bool) (id : Id) (ls : List Id) (s : St) (st' : Name)
    (id' : Id) : (runSteps (lkInner st f oSt oF fix id) ls s).1.present st' id' = s.present st' id' := by
  induction ls generalizing s with
  | nil => rfl
  | cons a as ih => rw [runSteps_cons, ih, lkInner_present]

theorem lkStepE_ok (st f oSt oF : Name) (fix : Bool) (s : St) (id : Id) :
    lkStepE st f oSt oF fix s id = Out.ofPair (lkStep st f oSt oF fix s id) := by
  unfold lkStepE lkStep
  simp only
  rw [runStepsE_eq _ _ (fun _ => True) (fun _ _ _ => trivial) (fun x a _ => lkInnerE_ok st f oSt oF fix id x a) _ s trivial,
    bind_ofPair]
  cases fix with
  | false =>
    simp only [Bool.false_eq_true, if_false]
    show Out.ok _ (_ ++ []) = _
    rw [List.append_nil]; rfl
  | true =>
    simp only [if_true]
    rw [if_neg]
    · show Out.ok _ (_ ++ []) = _
      rw [List.append_nil]; rfl
    · rintro ⟨hd, hp⟩
      rw [runSteps_lkInner_present] at hp
      cases hl : List.filter (fun l => !s.present oSt l) (s.setOf st id f) with
      | nil => exact hd hl
      | cons x xs =>
        have hx : x ∈ s.setOf st id f :=
          (List.mem_filter.1 (hl ▸ List.mem_cons_self (a := x) (l := xs))).1
        rw [present_of_setOf hx] at hp
        cases hp

theorem linkCheckE_ok (st f oSt oF : Name) (hasInv fix : Bool) (s : St) :
    linkCheckE st f oSt oF hasInv fix s = Out.ofPair (linkCheck st f oSt oF hasInv fix s) := by
  unfold linkCheckE linkCheck
  apply seqE_eq
  · rfl
  · intro x
    exact runStepsE_eq _ _ (fun _ => True) (fun _ _ _ => trivial)
      (fun s a _ => lkStepE_ok st f oSt oF fix s a) _ x trivial

/-! ### BaseStore.CheckIntegrity -/

theorem constraintE_ok (fix : Bool) (c : Constraint) (s : St) : c.checkE fix s = Out.ofPair (c.check fix s) := by
  cases c with
  | unique st f n => exact uniqueCheckE_ok ..
  | setIdx st f => exact setCheckE_ok ..
  | fkIndex st f n fkSt fkF => exact fkIndexCheckE_ok ..
  | fkCons st f n linked => rfl
  | noop => rfl

theorem storeE_ok (S : Schema) (fix : Bool) (sd : StoreDef) (s : St) :
    sd.checkE S fix s = Out.ofPair (sd.check S fix s) := by
  unfold StoreDef.checkE StoreDef.check
  apply seqE_eq
  · exact seqAllE_eq _ _ (fun lc x => linkCheckE_ok ..) _ s
  · exact seqAllE_eq _ _ (constraintE_ok fix) _

/-- **no failure branch is reachable**, for every schema, mode and state -/
theorem checkAllE_ok (S : Schema) (fix : Bool) (s : St) : checkAllE S fix s = Out.ofPair (checkAll S fix s) := by
  unfold checkAllE checkAll
  exact seqAllE_eq _ _ (storeE_ok S fix) _ s

end StorageModel.C09
