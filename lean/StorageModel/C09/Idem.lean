import StorageModel.C09.Compose
/-
  C09 — idempotence: a fix run over a state on which every unit is `Good` writes nothing.
-/
namespace StorageModel.C09
open StorageModel

theorem runSteps_fix_id {α : Type} (step : St → α → St × List Report) (l : List α) (s : St)
    (h : ∀ a ∈ l, (step s a).1 = s) : (runSteps step l s).1 = s := by
  induction l with
  | nil => rfl
  | cons a t ih =>
    rw [runSteps_cons, h a (List.mem_cons_self ..)]
    exact ih fun b hb => h b (List.mem_cons_of_mem _ hb)

theorem link_good_id (st f oSt oF : Name) (hasInv : Bool) (s : St) (h : ∀ a b, LinkOk s st f oSt oF a b) :
    (linkCheck st f oSt oF hasInv true s).1 = s := by
  show (runSteps (lkStep st f oSt oF true) (s.ids st) s).1 = s
  apply runSteps_fix_id
  intro a _
  have hloop : (runSteps (lkInner st f oSt oF true a) (s.setOf st a f) s).1 = s := by
    apply runSteps_fix_id
    intro b hb
    obtain ⟨h1, h2⟩ := h a b hb
    rw [lkInner_true_fst]
    simp [h1, h2]
  have hnone : (s.setOf st a f).filter (fun l => !s.present oSt l) = [] := by
    apply List.filter_eq_nil_iff.2
    intro b hb
    simp [(h a b hb).1]
  unfold lkStep
  simp only [if_true, hloop, hnone, lkRemoveAll, List.foldl_nil]

theorem unique_good_id (st f : Name) (n : Bool) (s : St) (h : ∀ r ∈ uqRep st f n s, r.msg.conflict = true) :
    (uniqueCheck st f n true s).1 = s := by
  have h1 : (runSteps (uqStep1 st f true) (s.uniq st f) s).1 = s := by
    apply runSteps_fix_id
    intro kv hkv
    rw [uqStep1_true_fst]
    split
    · rfl
    · next hv =>
      exfalso
      have hsub : ∀ r ∈ (uqStep1 st f false s kv).2, r.msg.conflict = true := fun r hr =>
        h r (List.mem_append_left _ (List.mem_flatMap.2 ⟨kv, hkv, hr⟩))
      unfold UqValid at hv
      unfold uqStep1 at hsub
      by_cases hp : s.present st kv.2 = true
      · by_cases hk : kv.1 = s.evalB st kv.2 f
        · exact hv ⟨hp, hk⟩
        · have := hsub ⟨st, f, .uqStale kv.1 kv.2 (s.evalB st kv.2 f), false⟩ (by simp [hp, hk])
          cases this
      · have := hsub ⟨st, f, .uqDangling kv.1 kv.2, false⟩ (by simp [hp])
        cases this
  show (runSteps (uqStep2 st f n true) ((runSteps (uqStep1 st f true) (s.uniq st f) s).1.ids st)
    (runSteps (uqStep1 st f true) (s.uniq st f) s).1).1 = s
  rw [h1]
  apply runSteps_fix_id
  intro id hid
  have hsub : ∀ r ∈ (uqStep2 st f n false s id).2, r.msg.conflict = true := fun r hr =>
    h r (List.mem_append_right _ (List.mem_flatMap.2 ⟨id, hid, hr⟩))
  cases hT : s.evalT st id f with
  | nil => exact uqStep2_true_nil hT
  | str v =>
    rw [uqStep2_true_str hT]
    split
    · next hr =>
      by_cases hq : v = []
      · unfold uqRepair; rw [if_pos hq]
      · exfalso
        have := hsub ⟨st, f, .uqMissing v id, false⟩ (by simp [uqStep2, hT, hr, hq])
        cases this
    · rfl

theorem fkCons_good_id (st f : Name) (n : Bool) (linked : Name) (s : St)
    (h : ∀ r ∈ fcRep st f n linked s, FkQuiet n r) : (fkConsCheck st f n linked true s).1 = s := by
  show (runSteps (fcStep st f n linked true) (s.ids st) s).1 = s
  apply runSteps_fix_id
  intro id hid
  rw [fcStep_true_fst]
  split
  · next hc =>
    exfalso
    obtain ⟨c1, c2, c3⟩ := hc
    have := h ⟨st, f, .fkDangling id (s.evalB st id f), n && false⟩
      (List.mem_flatMap.2 ⟨id, hid, by simp [fcStep, c1, c2, fkDanglingStep]⟩)
    rcases this with h' | ⟨hn, _⟩
    · cases h'
    · rw [c3] at hn; cases hn
  · rfl

theorem fkIndex_good_id (st f : Name) (n : Bool) (fkSt fkF : Name) (s : St)
    (h : ∀ r ∈ fkRep st f n fkSt fkF s, FkQuiet n r) : (fkIndexCheck st f n fkSt fkF true s).1 = s := by
  have h1 : (runSteps (fkStep1 st f fkSt fkF true) (s.ids fkSt) s).1 = s := by
    apply runSteps_fix_id
    intro t ht
    unfold fkStep1
    apply runSteps_fix_id
    intro x hx
    rw [fkInner1_true_fst]
    split
    · rfl
    · next hv =>
      exfalso
      have hsub : ∀ r ∈ (fkInner1 st f fkSt fkF false t s x).2, FkQuiet n r := fun r hr =>
        h r (List.mem_append_left _ (List.mem_flatMap.2 ⟨t, ht, List.mem_flatMap.2 ⟨x, hx, hr⟩⟩))
      unfold FkBackValid at hv
      unfold fkInner1 at hsub
      by_cases hp : s.present st x = true
      · by_cases hc : s.evalB st x f = [] ∨ s.evalB st x f ≠ t
        · have := hsub ⟨st, f, .fkBackStale t x (s.evalB st x f), false⟩ (by simp [hp, hc])
          rcases this with h' | ⟨_, _, _, h'⟩ <;> cases h'
        · apply hv
          refine ⟨hp, fun e => hc (Or.inl e), Classical.byContradiction fun e => hc (Or.inr e)⟩
      · have := hsub ⟨st, f, .fkBackDangling t x, false⟩ (by simp [hp])
        rcases this with h' | ⟨_, _, _, h'⟩ <;> cases h'
  show (runSteps (fkStep2 st f n fkSt fkF true) ((runSteps (fkStep1 st f fkSt fkF true) (s.ids fkSt) s).1.ids st)
    (runSteps (fkStep1 st f fkSt fkF true) (s.ids fkSt) s).1).1 = s
  rw [h1]
  apply runSteps_fix_id
  intro id hid
  have hsub : ∀ r ∈ (fkStep2 st f n fkSt fkF false s id).2, FkQuiet n r := fun r hr =>
    h r (List.mem_append_right _ (List.mem_flatMap.2 ⟨id, hid, hr⟩))
  rw [fkStep2_true_fst]
  split
  · rfl
  · next hB =>
    split
    · next hp =>
      split
      · next hn =>
        exfalso
        have := hsub ⟨st, f, .fkDangling id (s.evalB st id f), n && false⟩ (by simp [fkStep2, hB, hp, fkDanglingStep])
        rcases this with h' | ⟨hn', _⟩
        · cases h'
        · rw [hn] at hn'; cases hn'
      · rfl
    · next hp =>
      split
      · rfl
      · next hb =>
        exfalso
        have hp' : s.present fkSt (s.evalB st id f) = true := by simpa using hp
        have := hsub ⟨st, f, .fkBackMissing id (s.evalB st id f), false⟩ (by simp [fkStep2, hB, hp', hb])
        rcases this with h' | ⟨_, _, _, h'⟩ <;> cases h'

theorem sxToDelete_nil (st f : Name) (s : St) (B : List (Bytes × SVal))
    (h : ∀ kv ∈ B, ∀ l, kv.2 = .ids l → ∃ id ∈ l, SxValid s st f kv.1 id) : sxToDelete st f true s B = [] := by
  induction B with
  | nil => rfl
  | cons kv t ih =>
    have iht := ih fun kv' hkv' => h kv' (List.mem_cons_of_mem _ hkv')
    unfold sxToDelete
    cases hk : kv.2 with
    | junk => exact iht
    | ids l =>
      simp only
      obtain ⟨id, hid, hv⟩ := h kv (List.mem_cons_self ..) l hk
      have : ¬ sxKept st f true kv.1 s l = 0 := fun h0 => (sxKept_zero_iff ..).1 h0 id hid hv
      simp [this, iht]

theorem set_good_id (st f : Name) (s : St) (h : sxRep st f s = []) : (setCheck st f true s).1 = s := by
  have hno : ∀ r, r ∉ sxRep st f s := by rw [h]; exact fun _ => List.not_mem_nil
  -- every entry is a non-empty value bucket whose ids mirror entities
  have hentry : ∀ kv ∈ s.setx st f, ∃ l, kv.2 = .ids l ∧ l ≠ [] ∧ ∀ id ∈ l, SxValid s st f kv.1 id := by
    intro kv hkv
    have hsub : ∀ r ∈ sxRep1 st f s kv, False := fun r hr =>
      hno r (List.mem_append_left _ (List.mem_flatMap.2 ⟨kv, hkv, hr⟩))
    unfold sxRep1 at hsub
    cases hk : kv.2 with
    | junk => rw [hk] at hsub; exact False.elim (hsub _ (List.mem_singleton.2 rfl))
    | ids l =>
      rw [hk] at hsub
      simp only at hsub
      refine ⟨l, rfl, ?_, ?_⟩
      · intro hl
        exact hsub ⟨st, f, .sxEmpty kv.1, false⟩ (List.mem_append_right _ (by simp [hl]))
      · intro id hid
        have hin : ∀ r ∈ (sxInner st f false kv.1 s id).2, False := fun r hr =>
          hsub r (List.mem_append_left _ (List.mem_flatMap.2 ⟨id, hid, hr⟩))
        unfold sxInner at hin
        by_cases hp : s.present st id = true
        · by_cases hv : s.hasVal st id f kv.1 = true
          · exact ⟨hp, hv⟩
          · exact False.elim (hin ⟨st, f, .sxStale kv.1 id, false⟩ (by simp [hp, hv]))
        · exact False.elim (hin ⟨st, f, .sxDangling kv.1 id, false⟩ (by simp [hp]))
  have h1 : (runSteps (sxStep1 st f true) (s.setx st f) s).1 = s := by
    apply runSteps_fix_id
    intro kv hkv
    obtain ⟨l, hl, _, hv⟩ := hentry kv hkv
    rw [sxStep1_true_fst, hl]
    simp only
    apply runSteps_fix_id
    intro id hid
    rw [sxInner_true_fst, if_pos (hv id hid)]
  have h2 : sxToDelete st f true s (s.setx st f) = [] := by
    apply sxToDelete_nil
    intro kv hkv l hl
    obtain ⟨l', hl', hne, hv⟩ := hentry kv hkv
    rw [hl] at hl'; cases hl'
    cases l with
    | nil => exact absurd rfl hne
    | cons a t => exact ⟨a, List.mem_cons_self .., hv a (List.mem_cons_self ..)⟩
  show (runSteps (sxStep2 st f true)
    ((sxDeleteKeys st f (sxToDelete st f true s (s.setx st f)) (runSteps (sxStep1 st f true) (s.setx st f) s).1).ids st)
    (sxDeleteKeys st f (sxToDelete st f true s (s.setx st f)) (runSteps (sxStep1 st f true) (s.setx st f) s).1)).1 = s
  rw [h1, h2]
  simp only [sxDeleteKeys, List.foldl_nil]
  apply runSteps_fix_id
  intro id hid
  unfold sxStep2
  apply runSteps_fix_id
  intro v hv
  rw [sxStep2Val_true_fst]
  split
  · rfl
  · next hin =>
    exfalso
    refine hno ⟨st, f, .sxMissing v id, false⟩ (List.mem_append_right _ (List.mem_flatMap.2 ⟨id, hid, ?_⟩))
    unfold sxRep2
    exact List.mem_flatMap.2 ⟨v, hv, by simp [sxStep2Val, hin]⟩

theorem CUnit.good_fix_id (u : CUnit) (s : St) (h : u.Good s) : (u.run true s).1 = s := by
  cases u with
  | link lc hi => exact link_good_id lc.st lc.f lc.oSt lc.oF hi s h
  | cons c =>
    cases c with
    | unique st f n => exact unique_good_id st f n s h
    | setIdx st f => exact set_good_id st f s h
    | fkIndex st f n fkSt fkF => exact fkIndex_good_id st f n fkSt fkF s h
    | fkCons st f n linked => exact fkCons_good_id st f n linked s h
    | noop => rfl

theorem units_idempotent (us : List CUnit) (s : St) (h : ∀ u ∈ us, u.Good s) :
    (seqAll (us.map (CUnit.run true)) s).1 = s := by
  induction us with
  | nil => rfl
  | cons u t ih =>
    simp only [List.map_cons, seqAll_cons, seq_fst]
    rw [u.good_fix_id s (h u (List.mem_cons_self ..))]
    exact ih fun v hv => h v (List.mem_cons_of_mem _ hv)

/-- **idempotence of a fix run** -/
theorem checkAll_fix_idempotent (S : Schema) (hS : SchemaOk S) (s : St) (hpre : ∀ u ∈ S.units, u.Pre s) :
    (checkAll S true (checkAll S true s).1).1 = (checkAll S true s).1 := by
  obtain ⟨_, hg⟩ := units_converge S.units hS.1 hS.2 s hpre
  rw [← checkAll_units] at hg
  rw [checkAll_units S true (checkAll S true s).1]
  exact units_idempotent S.units _ hg

/-! ### a unit without reports is `Good`; check-only reports never carry `fixed` -/

theorem CUnit.good_of_rep_nil (u : CUnit) (s : St) (h : u.rep s = []) : u.Good s := by
  cases u with
  | link lc hi =>
    intro a b hb
    have hno : ∀ r, r ∉ lkRep lc.st lc.f lc.oSt lc.oF hi s := by
      have : lkRep lc.st lc.f lc.oSt lc.oF hi s = [] := h
      rw [this]; exact fun _ => List.not_mem_nil
    have hp := present_of_setOf hb
    obtain ⟨e, he⟩ := present_iff.1 hp
    have hsub : ∀ r ∈ (lkInner lc.st lc.f lc.oSt lc.oF false a s b).2, False := fun r hr =>
      hno r (List.mem_append_right _ (List.mem_flatMap.2 ⟨a, mem_ids.2 ⟨e, he⟩, List.mem_flatMap.2 ⟨b, hb, hr⟩⟩))
    unfold lkInner at hsub
    by_cases h1 : s.present lc.oSt b = true
    · by_cases h2 : s.hasBack lc.oSt b lc.oF a = true
      · exact ⟨h1, h2⟩
      · exact False.elim (hsub ⟨lc.st, lc.f, .lkOneSided a b, false⟩ (by simp [h1, h2]))
    · exact False.elim (hsub ⟨lc.st, lc.f, .lkDangling a b, false⟩ (by simp [h1]))
  | cons c =>
    cases c with
    | unique st f n =>
      intro r hr
      have : uqRep st f n s = [] := h
      rw [this] at hr; cases hr
    | setIdx st f => exact h
    | fkIndex st f n fkSt fkF =>
      intro r hr
      have : fkRep st f n fkSt fkF s = [] := h
      rw [this] at hr; cases hr
    | fkCons st f n linked =>
      intro r hr
      have : fcRep st f n linked s = [] := h
      rw [this] at hr; cases hr
    | noop => trivial

theorem uqRep_unfixed (st f : Name) (n : Bool) (s : St) : ∀ r ∈ uqRep st f n s, r.fixed = false := by
  intro r hr
  unfold uqRep at hr
  rcases List.mem_append.1 hr with hr | hr
  · obtain ⟨kv, _, hr⟩ := List.mem_flatMap.1 hr
    unfold uqStep1 at hr
    split at hr
    · simp only [List.mem_singleton] at hr; subst hr; rfl
    · split at hr
      · cases hr
      · simp only [List.mem_singleton] at hr; subst hr; rfl
  · obtain ⟨id, _, hr⟩ := List.mem_flatMap.1 hr
    unfold uqStep2 at hr
    split at hr
    · split at hr
      · cases hr
      · simp only [List.mem_singleton] at hr; subst hr; rfl
    · split at hr
      · split at hr
        · cases hr
        · simp only [List.mem_singleton] at hr; subst hr; rfl
      · split at hr
        · simp only [List.mem_singleton] at hr; subst hr; rfl
        · split at hr
          · cases hr
          · simp only [List.mem_singleton] at hr; subst hr; rfl

theorem sxRep_unfixed (st f : Name) (s : St) : ∀ r ∈ sxRep st f s, r.fixed = false := by
  intro r hr
  unfold sxRep at hr
  rcases List.mem_append.1 hr with hr | hr
  · obtain ⟨kv, _, hr⟩ := List.mem_flatMap.1 hr
    unfold sxRep1 at hr
    split at hr
    · simp only [List.mem_singleton] at hr; subst hr; rfl
    · rcases List.mem_append.1 hr with hr | hr
      · obtain ⟨id, _, hr⟩ := List.mem_flatMap.1 hr
        unfold sxInner at hr
        split at hr
        · simp only [List.mem_singleton] at hr; subst hr; rfl
        · split at hr
          · simp only [List.mem_singleton] at hr; subst hr; rfl
          · cases hr
      · split at hr
        · simp only [List.mem_singleton] at hr; subst hr; rfl
        · cases hr
  · obtain ⟨id, _, hr⟩ := List.mem_flatMap.1 hr
    unfold sxRep2 at hr
    obtain ⟨v, _, hr⟩ := List.mem_flatMap.1 hr
    unfold sxStep2Val at hr
    split at hr
    · cases hr
    · simp only [List.mem_singleton] at hr; subst hr; rfl

theorem fkRep_unfixed (st f : Name) (n : Bool) (fkSt fkF : Name) (s : St) :
    ∀ r ∈ fkRep st f n fkSt fkF s, r.fixed = false := by
  intro r hr
  unfold fkRep at hr
  rcases List.mem_append.1 hr with hr | hr
  · obtain ⟨t, _, hr⟩ := List.mem_flatMap.1 hr
    unfold fkRep1 at hr
    obtain ⟨x, _, hr⟩ := List.mem_flatMap.1 hr
    unfold fkInner1 at hr
    split at hr
    · simp only [List.mem_singleton] at hr; subst hr; rfl
    · split at hr
      · simp only [List.mem_singleton] at hr; subst hr; rfl
      · cases hr
  · obtain ⟨id, _, hr⟩ := List.mem_flatMap.1 hr
    unfold fkStep2 at hr
    split at hr
    · split at hr
      · cases hr
      · simp only [List.mem_singleton] at hr; subst hr; rfl
    · split at hr
      · simp only [fkDanglingStep, List.mem_singleton] at hr; subst hr; simp
      · split at hr
        · cases hr
        · simp only [List.mem_singleton] at hr; subst hr; rfl

theorem fcRep_unfixed (st f : Name) (n : Bool) (linked : Name) (s : St) :
    ∀ r ∈ fcRep st f n linked s, r.fixed = false := by
  intro r hr
  unfold fcRep at hr
  obtain ⟨id, _, hr⟩ := List.mem_flatMap.1 hr
  unfold fcStep at hr
  split at hr
  · split at hr
    · cases hr
    · simp only [List.mem_singleton] at hr; subst hr; rfl
  · split at hr
    · simp only [fkDanglingStep, List.mem_singleton] at hr; subst hr; simp
    · cases hr

theorem lkRep_unfixed (st f oSt oF : Name) (hasInv : Bool) (s : St) :
    ∀ r ∈ lkRep st f oSt oF hasInv s, r.fixed = false := by
  intro r hr
  unfold lkRep at hr
  rcases List.mem_append.1 hr with hr | hr
  · split at hr
    · cases hr
    · simp only [List.mem_singleton] at hr; subst hr; rfl
  · obtain ⟨a, _, hr⟩ := List.mem_flatMap.1 hr
    unfold lkRep1 at hr
    obtain ⟨b, _, hr⟩ := List.mem_flatMap.1 hr
    unfold lkInner at hr
    split at hr
    · simp only [List.mem_singleton] at hr; subst hr; rfl
    · split at hr
      · simp only [List.mem_singleton] at hr; subst hr; rfl
      · cases hr

/-- no report of a check-only run claims a repair -/
theorem checkReports_unfixed (S : Schema) (s : St) : ∀ r ∈ checkReports S s, r.fixed = false := by
  intro r hr
  rw [checkReports_units] at hr
  obtain ⟨u, _, hr⟩ := List.mem_flatMap.1 hr
  cases u with
  | link lc hi => exact lkRep_unfixed _ _ _ _ _ s r hr
  | cons c =>
    cases c with
    | unique st f n => exact uqRep_unfixed st f n s r hr
    | setIdx st f => exact sxRep_unfixed st f s r hr
    | fkIndex st f n fkSt fkF => exact fkRep_unfixed st f n fkSt fkF s r hr
    | fkCons st f n linked => exact fcRep_unfixed st f n linked s r hr
    | noop => cases hr

end StorageModel.C09
