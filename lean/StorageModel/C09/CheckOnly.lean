import StorageModel.C09.Basic
/-
  C09 — the checker in check-only mode (`fix = false`): the state is returned unchanged and the
  report list is an explicit comprehension over the state.
-/
namespace StorageModel.C09
open StorageModel

/-! ### report comprehensions -/

def uqRep (st f : Name) (n : Bool) (s : St) : List Report :=
  (s.uniq st f).flatMap (fun kv => (uqStep1 st f false s kv).2)
    ++ (s.ids st).flatMap (fun id => (uqStep2 st f n false s id).2)

def sxRep1 (st f : Name) (s : St) (kv : Bytes × SVal) : List Report :=
  match kv.2 with
  | .junk => [⟨st, f, .sxJunk kv.1, false⟩]
  | .ids l =>
    l.flatMap (fun id => (sxInner st f false kv.1 s id).2)
      ++ (if l = [] then [⟨st, f, .sxEmpty kv.1, false⟩] else [])

def sxRep2 (st f : Name) (s : St) (id : Id) : List Report :=
  (s.setOf st id f).flatMap (fun v => (sxStep2Val st f false id s v).2)

def sxRep (st f : Name) (s : St) : List Report :=
  (s.setx st f).flatMap (sxRep1 st f s) ++ (s.ids st).flatMap (sxRep2 st f s)

def fkRep1 (st f fkSt fkF : Name) (s : St) (id : Id) : List Report :=
  (s.setOf fkSt id fkF).flatMap (fun x => (fkInner1 st f fkSt fkF false id s x).2)

def fkRep (st f : Name) (n : Bool) (fkSt fkF : Name) (s : St) : List Report :=
  (s.ids fkSt).flatMap (fkRep1 st f fkSt fkF s)
    ++ (s.ids st).flatMap (fun id => (fkStep2 st f n fkSt fkF false s id).2)

def fcRep (st f : Name) (n : Bool) (linked : Name) (s : St) : List Report :=
  (s.ids st).flatMap (fun id => (fcStep st f n linked false s id).2)

def lkRep1 (st f oSt oF : Name) (s : St) (id : Id) : List Report :=
  (s.setOf st id f).flatMap (fun l => (lkInner st f oSt oF false id s l).2)

def lkRep (st f oSt oF : Name) (hasInv : Bool) (s : St) : List Report :=
  (if hasInv then [] else [⟨st, f, .lkNoInverse, false⟩]) ++ (s.ids st).flatMap (lkRep1 st f oSt oF s)

def Constraint.rep (s : St) : Constraint → List Report
  | .unique st f n => uqRep st f n s
  | .setIdx st f => sxRep st f s
  | .fkIndex st f n fkSt fkF => fkRep st f n fkSt fkF s
  | .fkCons st f n linked => fcRep st f n linked s
  | .noop => []

def LinkColl.rep (S : Schema) (s : St) (lc : LinkColl) : List Report :=
  lkRep lc.st lc.f lc.oSt lc.oF (S.hasInverse lc) s

def StoreDef.rep (S : Schema) (s : St) (sd : StoreDef) : List Report :=
  sd.links.flatMap (LinkColl.rep S s) ++ sd.constraints.flatMap (Constraint.rep s)

/-- everything a check-only run over the whole schema reports -/
def checkReports (S : Schema) (s : St) : List Report := S.flatMap (StoreDef.rep S s)

/-! ### loop bodies never write when `fix = false` -/

theorem uqStep1_false (st f : Name) (s : St) (kv : Bytes × Id) : (uqStep1 st f false s kv).1 = s := by
  unfold uqStep1; split
  · rfl
  · split <;> rfl

theorem uqStep2_false (st f : Name) (n : Bool) (s : St) (id : Id) : (uqStep2 st f n false s id).1 = s := by
  unfold uqStep2; split
  · rfl
  · split
    · rfl
    · split
      · rfl
      · split <;> rfl

theorem unique_false (st f : Name) (n : Bool) (s : St) : uniqueCheck st f n false s = (s, uqRep st f n s) := by
  unfold uniqueCheck uqRep Proc.seq
  simp only [runSteps_id _ (uqStep1_false st f), runSteps_id _ (uqStep2_false st f n)]

theorem sxInner_false (st f : Name) (key : Bytes) (s : St) (id : Id) : (sxInner st f false key s id).1 = s := by
  unfold sxInner; split
  · rfl
  · split <;> rfl

theorem sxStep1_false (st f : Name) (s : St) (kv : Bytes × SVal) :
    sxStep1 st f false s kv = (s, sxRep1 st f s kv) := by
  unfold sxStep1 sxRep1
  cases kv.2 with
  | junk => rfl
  | ids l => simp only [runSteps_id _ (sxInner_false st f kv.1)]

theorem sxToDelete_false (st f : Name) (s : St) (l : List (Bytes × SVal)) :
    sxToDelete st f false s l = [] := by
  induction l with
  | nil => rfl
  | cons kv t ih =>
    unfold sxToDelete
    split
    · exact ih
    · simp [ih]

theorem sxStep2Val_false (st f : Name) (id : Id) (s : St) (v : Bytes) : (sxStep2Val st f false id s v).1 = s := by
  unfold sxStep2Val; split <;> rfl

theorem sxStep2_false (st f : Name) (s : St) (id : Id) : sxStep2 st f false s id = (s, sxRep2 st f s id) := by
  unfold sxStep2 sxRep2
  rw [runSteps_id _ (sxStep2Val_false st f id)]

theorem set_false (st f : Name) (s : St) : setCheck st f false s = (s, sxRep st f s) := by
  unfold setCheck sxRep Proc.seq
  have h1 : ∀ s kv, (sxStep1 st f false s kv).1 = s := fun s kv => by rw [sxStep1_false]
  have h2 : ∀ s id, (sxStep2 st f false s id).1 = s := fun s id => by rw [sxStep2_false]
  simp only [runSteps_id _ h1, runSteps_id _ h2, sxToDelete_false, sxDeleteKeys, List.foldl_nil, sxStep1_false,
    sxStep2_false]

theorem fkInner1_false (st f fkSt fkF : Name) (id : Id) (s : St) (x : Id) :
    (fkInner1 st f fkSt fkF false id s x).1 = s := by
  unfold fkInner1; split
  · rfl
  · split <;> rfl

theorem fkStep1_false (st f fkSt fkF : Name) (s : St) (id : Id) :
    fkStep1 st f fkSt fkF false s id = (s, fkRep1 st f fkSt fkF s id) := by
  unfold fkStep1 fkRep1
  rw [runSteps_id _ (fkInner1_false st f fkSt fkF id)]

theorem fkDanglingStep_false (st f : Name) (n : Bool) (s : St) (id key : Id) :
    (fkDanglingStep st f n false s id key).1 = s := by
  unfold fkDanglingStep; simp

theorem fkStep2_false (st f : Name) (n : Bool) (fkSt fkF : Name) (s : St) (id : Id) :
    (fkStep2 st f n fkSt fkF false s id).1 = s := by
  unfold fkStep2; split
  · rfl
  · split
    · exact fkDanglingStep_false ..
    · split <;> rfl

theorem fkIndex_false (st f : Name) (n : Bool) (fkSt fkF : Name) (s : St) :
    fkIndexCheck st f n fkSt fkF false s = (s, fkRep st f n fkSt fkF s) := by
  unfold fkIndexCheck fkRep Proc.seq
  have h1 : ∀ s id, (fkStep1 st f fkSt fkF false s id).1 = s := fun s id => by rw [fkStep1_false]
  simp only [runSteps_id _ h1, runSteps_id _ (fkStep2_false st f n fkSt fkF), fkStep1_false]

theorem fcStep_false (st f : Name) (n : Bool) (linked : Name) (s : St) (id : Id) :
    (fcStep st f n linked false s id).1 = s := by
  unfold fcStep; split
  · rfl
  · split
    · exact fkDanglingStep_false ..
    · rfl

theorem fkCons_false (st f : Name) (n : Bool) (linked : Name) (s : St) :
    fkConsCheck st f n linked false s = (s, fcRep st f n linked s) := by
  unfold fkConsCheck fcRep
  rw [runSteps_id _ (fcStep_false st f n linked)]

theorem lkInner_false (st f oSt oF : Name) (id : Id) (s : St) (l : Id) :
    (lkInner st f oSt oF false id s l).1 = s := by
  unfold lkInner; split
  · rfl
  · split <;> rfl

theorem lkStep_false (st f oSt oF : Name) (s : St) (id : Id) :
    lkStep st f oSt oF false s id = (s, lkRep1 st f oSt oF s id) := by
  unfold lkStep lkRep1
  simp only [runSteps_id _ (lkInner_false st f oSt oF id), Bool.false_eq_true, if_false]

theorem link_false (st f oSt oF : Name) (hasInv : Bool) (s : St) :
    linkCheck st f oSt oF hasInv false s = (s, lkRep st f oSt oF hasInv s) := by
  unfold linkCheck lkRep Proc.seq
  have h1 : ∀ s id, (lkStep st f oSt oF false s id).1 = s := fun s id => by rw [lkStep_false]
  simp only [runSteps_id _ h1, lkStep_false]

theorem constraint_false (c : Constraint) (s : St) : c.check false s = (s, c.rep s) := by
  cases c with
  | unique st f n => exact unique_false st f n s
  | setIdx st f => exact set_false st f s
  | fkIndex st f n fkSt fkF => exact fkIndex_false st f n fkSt fkF s
  | fkCons st f n linked => exact fkCons_false st f n linked s
  | noop => rfl

theorem seqAll_id {α : Type} (f : α → Proc) (R : α → St → List Report) (l : List α) (s : St)
    (h : ∀ a ∈ l, f a s = (s, R a s)) : seqAll (l.map f) s = (s, l.flatMap fun a => R a s) := by
  induction l with
  | nil => rfl
  | cons a t ih =>
    have h1 := h a (List.mem_cons_self ..)
    have h2 := ih fun b hb => h b (List.mem_cons_of_mem _ hb)
    simp only [List.map_cons, seqAll_cons, Proc.seq, h1, h2, List.flatMap_cons]

theorem store_false (S : Schema) (sd : StoreDef) (s : St) : sd.check S false s = (s, sd.rep S s) := by
  unfold StoreDef.check StoreDef.rep Proc.seq
  rw [seqAll_id (LinkColl.check S false) (fun lc s => lc.rep S s) sd.links s
    (fun lc _ => link_false lc.st lc.f lc.oSt lc.oF (S.hasInverse lc) s)]
  simp only
  rw [seqAll_id (Constraint.check false) (fun c s => c.rep s) sd.constraints s (fun c _ => constraint_false c s)]

/-- **check-only run**: the state is returned unchanged and the report list is `checkReports` -/
theorem checkAll_false (S : Schema) (s : St) : checkAll S false s = (s, checkReports S s) := by
  unfold checkAll checkReports
  exact seqAll_id (StoreDef.check S false) (fun sd s => sd.rep S s) S s (fun sd _ => store_false S sd s)

end StorageModel.C09
