import StorageModel.Cursor.Compose
/-
  C14 — the scanner used as a cursor (boltz/query_scanners.go uniqueIndexScanner: Next / Seek /
  IsValid / Current, as built by newFilteredCursor and newCursorScanner) and ValidIdsCursors
  (boltz/store_query.go), literally.

  The filter is a predicate on the row id (`rowCursor.NextRow(id); filter.EvalBool(rowCursor)`);
  `skipRow id` is the child-store test
  `store.IsChildStore() && !store.IsEntityPresent(tx, id) && !store.IsExtended()`.
  `targetLimit = none` stands for math.MaxInt64.
-/
namespace StorageModel.Cursor
open StorageModel

structure ScanState (σ : Type) where
  cursor : σ
  current : Option Bytes
  offset : Nat
  collected : Nat

structure ScanCfg where
  skipRow : Bytes → Bool
  filter : Bytes → Bool
  targetOffset : Nat
  targetLimit : Option Nat

/-- the rows a scanner keeps: the row passes the child-store test and the filter -/
def ScanCfg.keep (cfg : ScanCfg) (x : Bytes) : Bool := !cfg.skipRow x && cfg.filter x

def ScanCfg.limitReached (cfg : ScanCfg) (collected : Nat) : Bool :=
  match cfg.targetLimit with
  | none => false
  | some l => collected ≥ l

/-- `func (scanner *uniqueIndexScanner) Next()` -/
def scanNext {σ} (M : Machine σ) (cfg : ScanCfg) : Nat → ScanState σ → Outcome (ScanState σ)
  | 0, _ => .err "fuel"
  | fuel + 1, st =>
    if !M.valid st.cursor then pure { st with current := none }
    else if cfg.limitReached st.collected then pure { st with current := none }
    else do
      let cur ← M.current st.cursor                 -- scanner.current = cursor.Current()
      let c' ← M.next st.cursor                     -- cursor.Next()
      let st1 : ScanState σ := { st with cursor := c', current := cur }
      let id := cur.getD []
      if cur.isNone then scanNext M cfg fuel st1    -- `if scanner.current == nil { continue }`: an element without a key is not a row
      else if cfg.skipRow id then scanNext M cfg fuel st1
      else if cfg.filter id then
        if st1.offset < cfg.targetOffset then scanNext M cfg fuel { st1 with offset := st1.offset + 1 }
        else pure { st1 with collected := st1.collected + 1 }
      else scanNext M cfg fuel st1

/-- the fallback of `Seek` for a wrapped cursor without `Seek`:
    `for scanner.IsValid() && string(scanner.current) < string(val) { scanner.Next() }` -/
def scanSeekLinear {σ} (M : Machine σ) (cfg : ScanCfg) (val : Bytes) (fuel : Nat) :
    Nat → ScanState σ → Outcome (ScanState σ)
  | 0, _ => .err "fuel"
  | n + 1, st =>
    match st.current with
    | some c => if c < val then do
        let st' ← scanNext M cfg fuel st
        scanSeekLinear M cfg val fuel n st'
      else pure st
    | none => pure st

def scanMachine {σ} (M : Machine σ) (cfg : ScanCfg) (fuel : Nat) : Machine (ScanState σ) where
  next := scanNext M cfg fuel
  seek := some fun val st =>
    match M.seek with
    | some f => do                                  -- seekableCursor.Seek(val); scanner.Next()
      let c' ← f val st.cursor
      scanNext M cfg fuel { st with cursor := c' }
    | none => scanSeekLinear M cfg val fuel fuel st
  seekS := none
  valid st := st.current.isSome
  current st := .ok st.current

/-- `newFilteredCursor` / `newCursorScanner`: build the scanner and call `Next()` once -/
def newScanCursor (c : AnyCursor) (cfg : ScanCfg) (fuel : Nat) : AnyCursor where
  σ := ScanState c.σ
  M := scanMachine c.M cfg fuel
  init := do
    let s ← c.init
    scanNext c.M cfg fuel { cursor := s, current := none, offset := 0, collected := 0 }

/-! ### ValidIdsCursors -/

/-- `for cursor.IsValid() && !cursor.IsExtendedDataPresent() { cursor.wrapped.Next() }` -/
def validSkip {σ} (M : Machine σ) (present : Bytes → Bool) : Nat → σ → Outcome σ
  | 0, _ => .err "fuel"
  | fuel + 1, s =>
    if M.valid s then do
      let c ← M.current s
      if !present (c.getD []) then do
        let s' ← M.next s
        validSkip M present fuel s'
      else pure s
    else pure s

def validIdsMachine {σ} (M : Machine σ) (present : Bytes → Bool) (fuel : Nat) : Machine σ where
  next s := do
    let s' ← M.next s
    validSkip M present fuel s'
  seek := M.seek.map fun f val s => do
    let s' ← f val s
    validSkip M present fuel s'
  seekS := none
  valid := M.valid
  current := M.current

/-- `IterateValidIds` on an extended store:
    `if validIdsCursor.IsValid() && !validIdsCursor.IsExtendedDataPresent() { validIdsCursor.Next() }` -/
def newValidIdsCursor (c : AnyCursor) (present : Bytes → Bool) (fuel : Nat) : AnyCursor where
  σ := c.σ
  M := validIdsMachine c.M present fuel
  init := do
    let s ← c.init
    if c.M.valid s then do
      let cur ← c.M.current s
      if !present (cur.getD []) then (validIdsMachine c.M present fuel).next s
      else pure s
    else pure s

end StorageModel.Cursor
