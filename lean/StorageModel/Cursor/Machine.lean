import StorageModel.Cursor.Basic
/-
  C14 — cursors as state machines, scripts, the list specification and the refinement notion.

  `Machine σ` is the Go interface `ast.SetCursor` (+ optional `Seek`, `SeekToString`) over a
  state `σ`: every method may panic (`Outcome`).  `Current()` returns a Go `[]byte`, modelled
  as `Option Bytes` (`none` = nil).  A *script* is a list of `Op`s; `Machine.run` performs it
  the way the harness drives the real cursor: after the cursor is opened and after every
  operation it calls `IsValid()` and, when valid, `Current()`.
-/
namespace StorageModel.Cursor
open StorageModel

structure Machine (σ : Type) where
  next : σ → Outcome σ
  /-- `Seek([]byte)`, if the Go type has the method -/
  seek : Option (Bytes → σ → Outcome σ)
  /-- `SeekToString(string)`, if the Go type has the method -/
  seekS : Option (Bytes → σ → Outcome σ)
  valid : σ → Bool
  current : σ → Outcome (Option Bytes)

inductive Op where
  | next
  | seek (v : Bytes)
  | seekS (v : Bytes)
  deriving Repr, DecidableEq

/-- one observation of a cursor -/
inductive Obs where
  | invalid
  | value (v : Option Bytes)   -- valid, `Current()` returned v (none = nil)
  | unsupported                -- the operation is not a method of this cursor type (state unchanged)
  | failed (e : String)
  | panic
  deriving Repr, DecidableEq

namespace Machine
variable {σ : Type}

def observe (M : Machine σ) (s : σ) : Obs :=
  if M.valid s then
    match M.current s with
    | .ok v => .value v
    | .err e => .failed e
    | .panic => .panic
  else .invalid

/-- the method an operation denotes, if the cursor type has it -/
def method (M : Machine σ) : Op → Option (σ → Outcome σ)
  | .next => some M.next
  | .seek v => M.seek.map (· v)
  | .seekS v => M.seekS.map (· v)

/-- run a script from state `s`; a panic ends the run (the harness recovers and stops) -/
def run (M : Machine σ) : List Op → σ → List Obs
  | [], _ => []
  | op :: ops, s =>
    match M.method op with
    | none => .unsupported :: run M ops s
    | some f =>
      match f s with
      | .ok s' => M.observe s' :: run M ops s'
      | .err e => [.failed e]
      | .panic => [.panic]

/-- open (may panic), observe, run the script -/
def openRun (M : Machine σ) (o : Outcome σ) (ops : List Op) : List Obs :=
  match o with
  | .ok s => M.observe s :: M.run ops s
  | .err e => [.failed e]
  | .panic => [.panic]

/-- `for ; c.IsValid(); c.Next() { out = append(out, c.Current()) }` with a step budget -/
def toList (M : Machine σ) : Nat → σ → Outcome (List (Option Bytes))
  | 0, _ => .err "fuel"
  | fuel + 1, s =>
    if M.valid s then do
      let v ← M.current s
      let s' ← M.next s
      let rest ← toList M fuel s'
      pure (v :: rest)
    else pure []

end Machine

/-- The specification of one cursor: the list it must enumerate and where a seek must land.
    `seek v rem` may depend on the remaining list (only the forward-only seek of a scanner
    over a non-seekable cursor does). -/
structure Spec where
  list : List Bytes
  seek : Option (Bytes → List Bytes → List Bytes)
  seekS : Option (Bytes → List Bytes → List Bytes)

namespace Spec

def observe (rem : List Bytes) : Obs :=
  match rem with
  | [] => .invalid
  | x :: _ => .value (some x)

def method (S : Spec) : Op → Option (List Bytes → List Bytes)
  | .next => some List.tail
  | .seek v => S.seek.map (· v)
  | .seekS v => S.seekS.map (· v)

def run (S : Spec) : List Op → List Bytes → List Obs
  | [], _ => []
  | op :: ops, rem =>
    match S.method op with
    | none => .unsupported :: run S ops rem
    | some f => observe (f rem) :: run S ops (f rem)

def openRun (S : Spec) (ops : List Op) : List Obs := observe S.list :: S.run ops S.list

/-- seek of a cursor of direction `d` over the list `L` (already in direction `d`):
    skip everything strictly before `v` -/
def seekIn (d : Dir) (L : List Bytes) (v : Bytes) : List Bytes :=
  L.dropWhile (fun x => decide (d.before x v))

/-- the standard specification: enumerate `L` (already in direction `d`); `Seek`, when the
    cursor type has it (`sk`), lands on the first element not before `v` -/
def std (d : Dir) (L : List Bytes) (sk : Bool) : Spec :=
  { list := L, seek := if sk then some fun v _ => seekIn d L v else none, seekS := none }

/-- a seekable cursor of direction `d` over `L` -/
abbrev seekable (d : Dir) (L : List Bytes) : Spec := std d L true

/-- a cursor without `Seek` -/
abbrev plain (L : List Bytes) : Spec := std .fwd L false

theorem std_false (d : Dir) (L : List Bytes) : std d L false = plain L := rfl

end Spec

/-- How an element is rendered by `Current()`: `some` for most cursors; cursors that read
    through `GetTypeAndValue` return nil for the empty element (empty ≡ nil convention). -/
abbrev Render := Bytes → Option Bytes

def renderNilEmpty : Render := fun e => if e.isEmpty then none else some e

def Obs.render (r : Render) : Obs → Obs
  | .value (some x) => .value (r x)
  | o => o

/-- `R` is a simulation between machine states and remaining lists: the machine `M`
    implements the specification `S` (elements rendered through `r`). -/
structure Refines {σ : Type} (M : Machine σ) (S : Spec) (r : Render) (R : σ → List Bytes → Prop) : Prop where
  valid : ∀ {s rem}, R s rem → M.valid s = !rem.isEmpty
  current : ∀ {s x t}, R s (x :: t) → M.current s = .ok (r x)
  next : ∀ {s rem}, R s rem → ∃ s', M.next s = .ok s' ∧ R s' rem.tail
  seek : match M.seek, S.seek with
    | some f, some g => ∀ v {s rem}, R s rem → ∃ s', f v s = .ok s' ∧ R s' (g v rem)
    | none, none => True
    | _, _ => False
  seekS : match M.seekS, S.seekS with
    | some f, some g => ∀ v {s rem}, R s rem → ∃ s', f v s = .ok s' ∧ R s' (g v rem)
    | none, none => True
    | _, _ => False

namespace Refines
variable {σ : Type} {M : Machine σ} {S : Spec} {r : Render} {R : σ → List Bytes → Prop}

theorem observe_eq (h : Refines M S r R) {s rem} (hR : R s rem) :
    M.observe s = (Spec.observe rem).render r := by
  unfold Machine.observe
  rw [h.valid hR]
  cases rem with
  | nil => rfl
  | cons x t => simp [h.current hR, Spec.observe, Obs.render]

theorem method_sim (h : Refines M S r R) (op : Op) :
    match M.method op, S.method op with
    | some f, some g => ∀ {s rem}, R s rem → ∃ s', f s = .ok s' ∧ R s' (g rem)
    | none, none => True
    | _, _ => False := by
  cases op with
  | next => simp only [Machine.method, Spec.method]; exact fun hR => h.next hR
  | seek v =>
    have := h.seek
    simp only [Machine.method, Spec.method]
    cases hm : M.seek <;> cases hs : S.seek <;> simp only [hm, hs, Option.map] at this ⊢
    all_goals first | (intro s rem hR; exact this v hR) | exact this
  | seekS v =>
    have := h.seekS
    simp only [Machine.method, Spec.method]
    cases hm : M.seekS <;> cases hs : S.seekS <;> simp only [hm, hs, Option.map] at this ⊢
    all_goals first | (intro s rem hR; exact this v hR) | exact this

/-- **Any interleaving of Next and Seek**: a machine that refines a spec produces, step by
    step, the observations of the spec. -/
theorem run_eq (h : Refines M S r R) : ∀ (ops : List Op) {s rem}, R s rem →
    M.run ops s = (S.run ops rem).map (Obs.render r)
  | [], _, _, _ => rfl
  | op :: ops, s, rem, hR => by
    have hm := h.method_sim op
    unfold Machine.run Spec.run
    cases hM : M.method op <;> cases hS : S.method op <;> simp only [hM, hS] at hm ⊢
    · simp [Obs.render, run_eq h ops hR]
    · obtain ⟨s', hs', hR'⟩ := hm hR
      simp [hs', h.observe_eq hR', run_eq h ops hR']

theorem openRun_eq (h : Refines M S r R) {s} (hR : R s S.list) (ops : List Op) :
    M.openRun (.ok s) ops = (S.openRun ops).map (Obs.render r) := by
  simp [Machine.openRun, Spec.openRun, h.observe_eq hR, h.run_eq ops hR]

/-- **Enumeration**: iterating to exhaustion yields exactly the remaining list, rendered. -/
theorem toList_eq (h : Refines M S r R) : ∀ (fuel : Nat) {s rem}, R s rem → rem.length < fuel →
    M.toList fuel s = .ok (rem.map r)
  | 0, _, _, _, hf => by omega
  | fuel + 1, s, rem, hR, hf => by
    unfold Machine.toList
    rw [h.valid hR]
    cases rem with
    | nil => rfl
    | cons x t =>
      obtain ⟨s', hs', hR'⟩ := h.next hR
      have ih := toList_eq h fuel hR' (by simpa using hf)
      simp only [List.tail_cons] at ih
      simp [h.current hR, hs', ih]

/-- after the remaining elements have been consumed the cursor is invalid and stays invalid
    under further `Next` calls -/
theorem exhausted (h : Refines M S r R) {s} (hR : R s []) :
    M.valid s = false ∧ ∃ s', M.next s = .ok s' ∧ R s' [] := by
  refine ⟨by simpa using h.valid hR, ?_⟩
  simpa using h.next hR

end Refines

theorem Obs.render_some (o : Obs) : o.render some = o := by
  cases o with
  | value v => cases v <;> rfl
  | _ => rfl

theorem map_render_some (l : List Obs) : l.map (Obs.render some) = l := by
  induction l with
  | nil => rfl
  | cons o t ih => simp [Obs.render_some, ih]

end StorageModel.Cursor
