import StorageModel.Cursor.Mem
import StorageModel.Cursor.BoltProofs
/-
  C14 — the in-memory cursors refine the list specification.
-/
namespace StorageModel.Cursor
open StorageModel

/-! ### emptyCursor, sliceSetCursor -/

theorem empty_refines : Refines emptyMachine (Spec.seekable .fwd []) some (fun _ rem => rem = []) where
  valid := by intro s rem h; subst h; rfl
  current := by intro s x t h; cases h
  next := by intro s rem h; subst h; exact ⟨(), rfl, rfl⟩
  seek := by
    show ∀ v {s rem}, rem = [] → ∃ s', _ = Outcome.ok s' ∧ Spec.seekIn .fwd [] v = []
    intro v s rem _; exact ⟨(), rfl, rfl⟩
  seekS := trivial

theorem emptyCursor_implements : emptyCursor.Implements (Spec.seekable .fwd []) some :=
  ⟨_, (), rfl, empty_refines, rfl⟩

theorem slice_refines (vals : List Bytes) : Refines sliceMachine (Spec.plain vals) some (fun s rem => s = rem) where
  valid := by intro s rem h; subst h; cases s <;> rfl
  current := by intro s x t h; subst h; rfl
  next := by intro s rem h; subst h; cases s <;> exact ⟨_, rfl, rfl⟩
  seek := trivial
  seekS := trivial

theorem sliceCursor_implements (vals : List Bytes) : (sliceCursor vals).Implements (Spec.plain vals) some :=
  ⟨_, vals, rfl, slice_refines vals, rfl⟩

/-! ### treeCursor: the explicit-stack walk is the in-order traversal, for every tree shape -/

/-- what the nodes waiting on the stack still contribute: the node's element, then its right subtree -/
def stackRest : List Tree → List Bytes
  | [] => []
  | .nil :: st => stackRest st
  | .node _ e r :: st => e :: r.inorder ++ stackRest st

def TreeCur.rem (c : TreeCur) : List Bytes :=
  match c.current with
  | .nil => []
  | .node _ e r => e :: r.inorder ++ stackRest c.stack

def RTree (c : TreeCur) (rem : List Bytes) : Prop :=
  c.rem = rem ∧ ∀ t ∈ c.stack, t.isNil = false

theorem treeDescend_ok : ∀ (t : Tree) (st : List Tree), t.isNil = false → (∀ u ∈ st, u.isNil = false) →
    ∃ c, treeDescend t st = .ok c ∧ RTree c (t.inorder ++ stackRest st)
  | .nil, _, h, _ => by simp [Tree.isNil] at h
  | .node .nil e r, st, _, hst => by
    refine ⟨{ stack := st, current := .node .nil e r }, rfl, ?_, hst⟩
    simp [TreeCur.rem, Tree.inorder]
  | .node (.node a b c) e r, st, _, hst => by
    have ih := treeDescend_ok (.node a b c) (.node (.node a b c) e r :: st) rfl (by
      intro u hu
      rcases List.mem_cons.1 hu with h | h
      · subst h; rfl
      · exact hst u h)
    obtain ⟨cur, hc, hR⟩ := ih
    refine ⟨cur, by simpa [treeDescend] using hc, ?_⟩
    simpa [Tree.inorder, stackRest, List.append_assoc] using hR

theorem tree_refines (L : List Bytes) (render : Render) :
    Refines (treeMachine render) (Spec.plain L) render RTree where
  valid := by
    intro c rem ⟨h, _⟩
    subst h
    obtain ⟨stack, current⟩ := c
    cases current <;> simp [treeMachine, TreeCur.rem, Tree.isNil]
  current := by
    intro c x t ⟨h, _⟩
    obtain ⟨stack, current⟩ := c
    cases current with
    | nil => simp [TreeCur.rem] at h
    | node l e r =>
      simp only [TreeCur.rem] at h
      injection h with h1 _
      simp [treeMachine, h1]
  next := by
    intro c rem ⟨h, hst⟩
    subst h
    obtain ⟨stack, current⟩ := c
    cases current with
    | nil => exact ⟨_, rfl, rfl, hst⟩
    | node l e r =>
      simp only [TreeCur.rem, List.tail_cons]
      cases r with
      | nil =>
        cases stack with
        | nil => exact ⟨_, rfl, by simp [TreeCur.rem, Tree.inorder, stackRest], by simp⟩
        | cons top rest =>
          have htop := hst top (List.mem_cons_self ..)
          refine ⟨{ stack := rest, current := top }, rfl, ?_, fun u hu => hst u (List.mem_cons_of_mem _ hu)⟩
          cases top with
          | nil => simp [Tree.isNil] at htop
          | node a b c => simp [TreeCur.rem, Tree.inorder, stackRest]
      | node a b c =>
        obtain ⟨cur, hc, hR⟩ := treeDescend_ok (.node a b c) stack rfl hst
        exact ⟨cur, by simpa [treeMachine, treeNext, Tree.isNil] using hc, hR⟩
  seek := trivial
  seekS := trivial

theorem newTreeCursor_ok (root : Tree) : ∃ c, newTreeCursor root = .ok c ∧ RTree c root.inorder := by
  cases root with
  | nil => exact ⟨_, rfl, rfl, by simp⟩
  | node l e r =>
    obtain ⟨c, hc, hR⟩ := treeDescend_ok (.node l e r) [] rfl (by simp)
    exact ⟨c, by simpa [newTreeCursor, Tree.isNil] using hc, by simpa [stackRest] using hR⟩

/-- `NewTreeCursor` never panics and the cursor enumerates the in-order sequence of the tree —
    for every binary tree, balanced or not, search tree or not -/
theorem treeCursor_implements (root : Tree) (render : Render) :
    ({ σ := TreeCur, M := treeMachine render, init := newTreeCursor root } : AnyCursor).Implements
      (Spec.plain root.inorder) render := by
  obtain ⟨c, hc, hR⟩ := newTreeCursor_ok root
  exact ⟨RTree, c, hc, tree_refines _ render, hR⟩

/-! ### the tree filled by `Add` holds the set in the order of its comparator -/

theorem sorted_append_cons {d : Dir} {A B : List Bytes} {e : Bytes} :
    Sorted d (A ++ e :: B) ↔ Sorted d A ∧ Sorted d B ∧ (∀ a ∈ A, d.before a e) ∧ (∀ b ∈ B, d.before e b) := by
  unfold Sorted
  rw [List.pairwise_append, List.pairwise_cons]
  constructor
  · rintro ⟨hA, ⟨heB, hB⟩, hAB⟩
    exact ⟨hA, hB, fun a ha => hAB a ha e (List.mem_cons_self ..), heB⟩
  · rintro ⟨hA, hB, hAe, heB⟩
    refine ⟨hA, ⟨heB, hB⟩, ?_⟩
    intro a ha b hb
    rcases List.mem_cons.1 hb with h | h
    · subst h; exact hAe a ha
    · exact Dir.before_trans (hAe a ha) (heB b h)

theorem mem_inorder_insert {d : Dir} {x z : Bytes} : ∀ {t : Tree},
    z ∈ (t.insert d x).inorder ↔ z = x ∨ z ∈ t.inorder
  | .nil => by simp [Tree.insert, Tree.inorder]
  | .node l e r => by
    unfold Tree.insert
    split
    · simp [Tree.inorder, mem_inorder_insert (t := l)]; grind
    · split
      · simp [Tree.inorder, mem_inorder_insert (t := r)]; grind
      · next h1 h2 =>
        have : x = e := Dir.eq_of_not_before h1 h2
        subst this; simp [Tree.inorder]; grind

theorem sorted_inorder_insert {d : Dir} {x : Bytes} : ∀ {t : Tree},
    Sorted d t.inorder → Sorted d (t.insert d x).inorder
  | .nil, _ => by simp [Tree.insert, Tree.inorder, Sorted]
  | .node l e r, h => by
    simp only [Tree.inorder] at h
    obtain ⟨hl, hr, hle, her⟩ := sorted_append_cons.1 h
    unfold Tree.insert
    split
    · next hxe =>
      simp only [Tree.inorder]
      refine sorted_append_cons.2 ⟨sorted_inorder_insert hl, hr, ?_, her⟩
      intro a ha
      rcases mem_inorder_insert.1 ha with h | h
      · subst h; exact hxe
      · exact hle a h
    · split
      · next _ hex =>
        simp only [Tree.inorder]
        refine sorted_append_cons.2 ⟨hl, sorted_inorder_insert hr, hle, ?_⟩
        intro b hb
        rcases mem_inorder_insert.1 hb with h | h
        · subst h; exact hex
        · exact her b h
      · next h1 h2 =>
        have : x = e := Dir.eq_of_not_before h1 h2
        subst this
        simpa [Tree.inorder] using h

theorem treeSet_inorder (d : Dir) (adds : List Bytes) :
    (adds.foldl (fun t x => t.insert d x) Tree.nil).inorder = sortD d adds := by
  have key : ∀ (adds : List Bytes) (t : Tree), Sorted d t.inorder →
      Sorted d (adds.foldl (fun t x => t.insert d x) t).inorder ∧
      ∀ z, z ∈ (adds.foldl (fun t x => t.insert d x) t).inorder ↔ z ∈ adds ∨ z ∈ t.inorder := by
    intro adds
    induction adds with
    | nil => intro t h; exact ⟨h, by simp⟩
    | cons x rest ih =>
      intro t h
      obtain ⟨hs, hm⟩ := ih (t.insert d x) (sorted_inorder_insert h)
      refine ⟨hs, fun z => ?_⟩
      rw [List.foldl_cons, hm z, mem_inorder_insert]
      simp only [List.mem_cons]; grind
  obtain ⟨hs, hm⟩ := key adds .nil (by simp [Tree.inorder, Sorted])
  exact sorted_ext hs sorted_sortD (fun z => by rw [hm z, mem_sortD]; simp [Tree.inorder])

/-- `TreeSet` + `ToCursor`: no panic (also for the empty set), elements in comparator order -/
theorem treeSetCursor_implements (d : Dir) (render : Render) (adds : List Bytes) :
    (treeSetCursor d render adds).Implements (Spec.plain (sortD d adds)) render := by
  have := treeCursor_implements (adds.foldl (fun t x => t.insert d x) .nil) render
  rwa [treeSet_inorder] at this

/-! ### skipping wrappers: filteredCursor (and, in Scanner proofs, ValidIdsCursors / the scanner) -/

/-- skip forward to the first element accepted by `q` -/
def skipTo (q : Bytes → Bool) (l : List Bytes) : List Bytes := l.dropWhile (fun x => !q x)

theorem filter_skipTo (q : Bytes → Bool) : ∀ (l : List Bytes), (skipTo q l).filter q = l.filter q
  | [] => rfl
  | x :: t => by
    by_cases hx : q x
    · simp [skipTo, List.dropWhile, hx]
    · have := filter_skipTo q t
      simp only [skipTo] at this
      simp [skipTo, List.dropWhile, List.filter, hx, this]

theorem skipTo_head {q : Bytes → Bool} {l : List Bytes} {x : Bytes} {t : List Bytes}
    (h : skipTo q l = x :: t) : q x = true := by
  have := dropWhile_head_false h
  simpa using this

theorem skipTo_length_le (q : Bytes → Bool) : ∀ (l : List Bytes), (skipTo q l).length ≤ l.length
  | [] => by simp [skipTo]
  | x :: t => by
    by_cases hx : q x
    · simp [skipTo, List.dropWhile, hx]
    · have := skipTo_length_le q t
      simp only [skipTo] at this
      simp [skipTo, List.dropWhile, hx]; omega

theorem skipTo_of_head {q : Bytes → Bool} {x : Bytes} {t : List Bytes} (h : q x = true) :
    skipTo q (x :: t) = x :: t := by simp [skipTo, List.dropWhile, h]

theorem skipTo_cons_not {q : Bytes → Bool} {x : Bytes} {t : List Bytes} (h : q x = false) :
    skipTo q (x :: t) = skipTo q t := by simp [skipTo, List.dropWhile, h]

section filtered
variable {σ : Type} {M : Machine σ} {S : Spec} {r : Render} {R : σ → List Bytes → Prop}

theorem filteredNext_spec (h : Refines M S r R) (p : Option Bytes → Bool) :
    ∀ (fuel : Nat) {s : σ} {rem : List Bytes}, R s rem → rem.length < fuel →
      ∃ s', filteredNext M p fuel s = .ok s' ∧ R s' (skipTo (fun x => p (r x)) rem.tail)
  | 0, _, _, _, hf => by omega
  | fuel + 1, s, rem, hR, hf => by
    unfold filteredNext
    rw [h.valid hR]
    cases rem with
    | nil => exact ⟨s, rfl, hR⟩
    | cons x t =>
      obtain ⟨s1, hs1, hR1⟩ := h.next hR
      simp only [List.tail_cons] at hR1 ⊢
      have hlen : t.length < fuel := by simpa using hf
      simp only [List.isEmpty_cons, Bool.not_false, if_true, hs1, Outcome.ok_bind, h.valid hR1]
      cases t with
      | nil =>
        obtain ⟨s', hs', hR'⟩ := filteredNext_spec h p fuel hR1 hlen
        simp only [List.isEmpty_nil, Bool.not_true, Bool.false_eq_true, if_false]
        exact ⟨s', hs', by simpa [skipTo] using hR'⟩
      | cons y t' =>
        simp only [List.isEmpty_cons, Bool.not_false, if_true, h.current hR1, Outcome.ok_bind]
        by_cases hp : p (r y) = true
        · simp only [hp, if_true]
          exact ⟨s1, rfl, by rw [skipTo_of_head (q := fun x => p (r x)) hp]; exact hR1⟩
        · have hp' : p (r y) = false := by simpa using hp
          obtain ⟨s', hs', hR'⟩ := filteredNext_spec h p fuel hR1 hlen
          simp only [hp', Bool.false_eq_true, if_false]
          refine ⟨s', hs', ?_⟩
          rw [skipTo_cons_not (q := fun x => p (r x)) hp']
          simpa using hR'

/-- the simulation of a filtered cursor: the wrapped cursor stands on an accepted element (or is
    exhausted), and what remains is the accepted part of the wrapped cursor's remainder -/
def RFilt (R : σ → List Bytes → Prop) (q : Bytes → Bool) (fuel : Nat) : FiltState σ → List Bytes → Prop
  | .empty, remF => remF = []
  | .wrap s, remF => ∃ rem, R s rem ∧ remF = rem.filter q ∧ rem.length < fuel ∧ (∀ x t, rem = x :: t → q x = true)

theorem filtered_refines (h : Refines M S r R) (p : Option Bytes → Bool) (fuel : Nat) (L : List Bytes) :
    Refines (filteredMachine M p fuel) (Spec.plain L) r (RFilt R (fun x => p (r x)) fuel) where
  valid := by
    intro st remF hR
    cases st with
    | empty => simp only [RFilt] at hR; subst hR; rfl
    | wrap s =>
      obtain ⟨rem, hRs, hrem, _, hhead⟩ := hR
      subst hrem
      simp only [filteredMachine, h.valid hRs]
      cases rem with
      | nil => rfl
      | cons x t => simp [List.filter, hhead x t rfl]
  current := by
    intro st x t hR
    cases st with
    | empty => simp [RFilt] at hR
    | wrap s =>
      obtain ⟨rem, hRs, hrem, _, hhead⟩ := hR
      cases rem with
      | nil => simp at hrem
      | cons y t' =>
        simp only [List.filter, hhead y t' rfl, List.cons.injEq] at hrem
        simp only [filteredMachine, h.current hRs, hrem.1]
  next := by
    intro st remF hR
    cases st with
    | empty => simp only [RFilt] at hR; subst hR; exact ⟨.empty, rfl, rfl⟩
    | wrap s =>
      obtain ⟨rem, hRs, hrem, hlen, hhead⟩ := hR
      obtain ⟨s', hs', hR'⟩ := filteredNext_spec h p fuel hRs hlen
      refine ⟨.wrap s', by simp [filteredMachine, hs'], _, hR', ?_, ?_, ?_⟩
      · subst hrem
        rw [filter_skipTo]
        cases rem with
        | nil => rfl
        | cons x t => simp [List.filter, hhead x t rfl]
      · have := skipTo_length_le (fun x => p (r x)) rem.tail
        have : rem.tail.length ≤ rem.length := by simp
        omega
      · intro x t hx; exact skipTo_head hx
  seek := trivial
  seekS := trivial

/-- `NewFilteredCursor(c, p)` over a cursor that implements `S` enumerates exactly the accepted
    elements of `S.list`, in the same order -/
theorem newFilteredCursor_implements {c : AnyCursor} {S : Spec} {r : Render} (h : c.Implements S r)
    (p : Option Bytes → Bool) {fuel : Nat} (hf : S.list.length < fuel) :
    (newFilteredCursor c p fuel).Implements (Spec.plain (S.list.filter (fun x => p (r x)))) r := by
  obtain ⟨R, s, hi, href, hR⟩ := h
  have hrefF := fun L => filtered_refines href p fuel L
  unfold AnyCursor.Implements newFilteredCursor
  simp only [hi, Outcome.ok_bind, href.valid hR]
  cases hL : S.list with
  | nil =>
    rw [hL] at hR
    exact ⟨_, .empty, by simp, hrefF _, by simp [RFilt, Spec.std]⟩
  | cons x t =>
    rw [hL] at hR hf
    simp only [List.isEmpty_cons, Bool.not_false, Bool.false_eq_true, if_false, href.current hR, Outcome.ok_bind]
    by_cases hp : p (r x) = true
    · refine ⟨_, .wrap s, by simp [hp], hrefF _, x :: t, hR, by simp [Spec.std], hf, ?_⟩
      intro y t' hy; injection hy with h1 _; subst h1; exact hp
    · have hp' : p (r x) = false := by simpa using hp
      obtain ⟨s', hs', hR'⟩ := filteredNext_spec href p fuel hR hf
      refine ⟨_, .wrap s', by simp [hp', hs'], hrefF _, _, hR', ?_, ?_, ?_⟩
      · simp only [Spec.std, List.tail_cons, filter_skipTo]
        simp [List.filter, hp']
      · have := skipTo_length_le (fun x => p (r x)) t
        simp only [List.tail_cons, List.length_cons] at hf ⊢; omega
      · intro y t' hy; exact skipTo_head hy

end filtered

/-! ### unionSetCursor -/

/-- the merge the union cursor performs on the remainders of its two operands -/
def merge (d : Dir) : List Bytes → List Bytes → List Bytes
  | [], l2 => l2
  | x :: t1, [] => x :: t1
  | x :: t1, y :: t2 =>
    if x = y then x :: merge d t1 t2
    else if d.before x y then x :: merge d t1 (y :: t2)
    else y :: merge d (x :: t1) t2
termination_by l1 l2 => l1.length + l2.length

theorem merge_nil_left (d : Dir) (l : List Bytes) : merge d [] l = l := by simp [merge]
theorem merge_nil_right (d : Dir) (l : List Bytes) : merge d l [] = l := by cases l <;> simp [merge]

theorem mem_merge {d : Dir} {z : Bytes} : ∀ (l1 l2 : List Bytes), z ∈ merge d l1 l2 ↔ z ∈ l1 ∨ z ∈ l2 := by
  intro l1 l2
  fun_induction merge d l1 l2 with
  | case1 l2 => simp
  | case2 x t1 => simp
  | case3 x t1 t2 ih => simp [ih]; grind
  | case4 x t1 y t2 hne hb ih => simp [ih]; grind
  | case5 x t1 y t2 hne hb ih => simp [ih]; grind

theorem sorted_merge {d : Dir} : ∀ (l1 l2 : List Bytes), Sorted d l1 → Sorted d l2 → Sorted d (merge d l1 l2) := by
  intro l1 l2
  fun_induction merge d l1 l2 with
  | case1 l2 => intro _ h; exact h
  | case2 x t1 => intro h _; exact h
  | case3 x t1 t2 ih =>
    intro h1 h2
    have h1' := List.pairwise_cons.1 h1
    have h2' := List.pairwise_cons.1 h2
    refine List.pairwise_cons.2 ⟨?_, ih h1'.2 h2'.2⟩
    intro z hz
    rcases (mem_merge _ _).1 hz with h | h
    · exact h1'.1 z h
    · exact h2'.1 z h
  | case4 x t1 y t2 hne hb ih =>
    intro h1 h2
    have h1' := List.pairwise_cons.1 h1
    have h2' := List.pairwise_cons.1 h2
    refine List.pairwise_cons.2 ⟨?_, ih h1'.2 h2⟩
    intro z hz
    rcases (mem_merge _ _).1 hz with h | h
    · exact h1'.1 z h
    · rcases List.mem_cons.1 h with e | h
      · subst e; exact hb
      · exact Dir.before_trans hb (h2'.1 z h)
  | case5 x t1 y t2 hne hb ih =>
    intro h1 h2
    have h1' := List.pairwise_cons.1 h1
    have h2' := List.pairwise_cons.1 h2
    have hyx : d.before y x := by
      rcases Classical.em (d.before y x) with h | h
      · exact h
      · exact absurd (Dir.eq_of_not_before hb h) hne
    refine List.pairwise_cons.2 ⟨?_, ih h1 h2'.2⟩
    intro z hz
    rcases (mem_merge _ _).1 hz with h | h
    · rcases List.mem_cons.1 h with e | h
      · subst e; exact hyx
      · exact Dir.before_trans hyx (h1'.1 z h)
    · exact h2'.1 z h

/-- merging two lists sorted in direction `d` gives the union set in direction `d` -/
theorem merge_eq_sortD {d : Dir} {l1 l2 : List Bytes} (h1 : Sorted d l1) (h2 : Sorted d l2) :
    merge d l1 l2 = sortD d (l1 ++ l2) :=
  sorted_ext (sorted_merge l1 l2 h1 h2) sorted_sortD (fun z => by rw [mem_merge, mem_sortD, List.mem_append])

/-- a render under which an element can be recognised again: `some`, and the nil-for-empty
    convention of `GetTypeAndValue` -/
def Faithful (r : Render) : Prop := ∀ x, (r x).getD [] = x

theorem faithful_some : Faithful some := fun _ => rfl
theorem faithful_nilEmpty : Faithful renderNilEmpty := fun x => by cases x <;> rfl

theorem bytesCompare_rendered {r₁ r₂ : Render} (h₁ : Faithful r₁) (h₂ : Faithful r₂) (x y : Bytes) :
    bytesCompare (r₁ x) (r₂ y) = if x < y then .lt else if y < x then .gt else .eq := by
  simp only [bytesCompare, h₁ x, h₂ y]

/-- what the union returns for an element: the first operand's rendering when the first operand
    holds it, else the second's -/
def unionRender (L₁ : List Bytes) (r₁ r₂ : Render) : Render := fun x => if x ∈ L₁ then r₁ x else r₂ x

theorem faithful_unionRender {L₁ : List Bytes} {r₁ r₂ : Render} (h₁ : Faithful r₁) (h₂ : Faithful r₂) :
    Faithful (unionRender L₁ r₁ r₂) := fun x => by
  unfold unionRender; split
  · exact h₁ x
  · exact h₂ x

section union
variable {σ₁ σ₂ : Type} {M₁ : Machine σ₁} {M₂ : Machine σ₂} {S₁ S₂ : Spec} {r₁ r₂ : Render}
  {R₁ : σ₁ → List Bytes → Prop} {R₂ : σ₂ → List Bytes → Prop}

/-- the head of a non-empty list is strictly before `x`-free: "x is before the head (or the list is empty)" -/
def BeforeHead (d : Dir) (x : Bytes) (l : List Bytes) : Prop :=
  l = [] ∨ ∃ y t, l = y :: t ∧ d.before x y

theorem BeforeHead.all {d : Dir} {x : Bytes} {l : List Bytes} (h : BeforeHead d x l) (hs : Sorted d l) :
    ∀ z ∈ l, d.before x z := by
  rcases h with rfl | ⟨y, t, rfl, hxy⟩
  · intro z hz; cases hz
  · intro z hz
    rcases List.mem_cons.1 hz with e | hz
    · subst e; exact hxy
    · exact Dir.before_trans hxy ((List.pairwise_cons.1 hs).1 z hz)

/-- one `Next()` of the union cursor: it emits the head of the merge of the operands'
    remainders, rendered by the operand it was taken from (the first one on a tie), and
    advances the operand(s) holding it -/
theorem unionNext_spec (h₁ : Refines M₁ S₁ r₁ R₁) (h₂ : Refines M₂ S₂ r₂ R₂) (hf₁ : Faithful r₁) (hf₂ : Faithful r₂)
    (d : Dir) {cur : Option Bytes} {v : Bool} {s1 : σ₁} {s2 : σ₂} {r1 r2 : List Bytes} (hR1 : R₁ s1 r1) (hR2 : R₂ s2 r2) :
    ∃ u', unionNext M₁ M₂ (d == .fwd) { current := cur, valid := v, fst := s1, snd := s2 } = .ok u' ∧
      ∃ r1' r2', R₁ u'.fst r1' ∧ R₂ u'.snd r2' ∧
        match merge d r1 r2 with
        | [] => u'.valid = false ∧ r1' = [] ∧ r2' = []
        | x :: t => u'.valid = true ∧ t = merge d r1' r2' ∧
            ((u'.current = r₁ x ∧ r1 = x :: r1' ∧ ((r2' = r2 ∧ BeforeHead d x r2) ∨ r2 = x :: r2')) ∨
             (u'.current = r₂ x ∧ r2 = x :: r2' ∧ r1' = r1 ∧ BeforeHead d x r1)) := by
  unfold unionNext
  simp only [h₁.valid hR1, h₂.valid hR2]
  cases r1 with
  | nil =>
    cases r2 with
    | nil =>
      exact ⟨{ current := none, valid := false, fst := s1, snd := s2 }, by simp, [], [], hR1, hR2, by simp [merge]⟩
    | cons y t2 =>
      obtain ⟨s2', hs2', hR2'⟩ := h₂.next hR2
      refine ⟨{ current := r₂ y, valid := true, fst := s1, snd := s2' }, by simp [h₂.current hR2, hs2'], [], t2, hR1, hR2', ?_⟩
      have hm : merge d [] (y :: t2) = y :: merge d [] t2 := by simp [merge]
      rw [hm]
      exact ⟨rfl, rfl, .inr ⟨rfl, rfl, rfl, .inl rfl⟩⟩
  | cons x t1 =>
    obtain ⟨s1', hs1', hR1'⟩ := h₁.next hR1
    cases r2 with
    | nil =>
      refine ⟨{ current := r₁ x, valid := true, fst := s1', snd := s2 }, by simp [h₁.current hR1, hs1'], t1, [], hR1', hR2, ?_⟩
      have hm : merge d (x :: t1) [] = x :: merge d t1 [] := by simp [merge, merge_nil_right]
      rw [hm]
      exact ⟨rfl, rfl, .inl ⟨rfl, rfl, .inl ⟨rfl, .inl rfl⟩⟩⟩
    | cons y t2 =>
      obtain ⟨s2', hs2', hR2'⟩ := h₂.next hR2
      simp only [List.isEmpty_cons, Bool.not_false, Bool.false_eq_true, if_false, h₁.current hR1,
        h₂.current hR2, Outcome.ok_bind, bytesCompare_rendered hf₁ hf₂, Bool.or_self]
      by_cases hxy : x = y
      · subst hxy
        refine ⟨{ current := r₁ x, valid := true, fst := s1', snd := s2' }, by simp [blt_irrefl, hs1', hs2'], t1, t2, hR1', hR2', ?_⟩
        have hm : merge d (x :: t1) (x :: t2) = x :: merge d t1 t2 := by simp [merge]
        rw [hm]
        exact ⟨rfl, rfl, .inl ⟨rfl, rfl, .inr rfl⟩⟩
      · by_cases hlt : x < y
        · cases d with
          | fwd =>
            refine ⟨{ current := r₁ x, valid := true, fst := s1', snd := s2 }, by simp [hlt, hs1'], t1, y :: t2, hR1', hR2, ?_⟩
            have hm : merge .fwd (x :: t1) (y :: t2) = x :: merge .fwd t1 (y :: t2) := by simp [merge, hxy, hlt]
            rw [hm]
            exact ⟨rfl, rfl, .inl ⟨rfl, rfl, .inl ⟨rfl, .inr ⟨y, t2, rfl, hlt⟩⟩⟩⟩
          | rev =>
            refine ⟨{ current := r₂ y, valid := true, fst := s1, snd := s2' }, by simp [hlt, hs2'], x :: t1, t2, hR1, hR2', ?_⟩
            have hm : merge .rev (x :: t1) (y :: t2) = y :: merge .rev (x :: t1) t2 := by
              simp [merge, hxy, blt_asymm hlt]
            rw [hm]
            exact ⟨rfl, rfl, .inr ⟨rfl, rfl, rfl, .inr ⟨x, t1, rfl, hlt⟩⟩⟩
        · have hgt : y < x := by
            rcases Classical.em (y < x) with h | h
            · exact h
            · exact absurd (beq_of_not_lt hlt h) hxy
          cases d with
          | fwd =>
            refine ⟨{ current := r₂ y, valid := true, fst := s1, snd := s2' }, by simp [hlt, hgt, hs2'], x :: t1, t2, hR1, hR2', ?_⟩
            have hm : merge .fwd (x :: t1) (y :: t2) = y :: merge .fwd (x :: t1) t2 := by simp [merge, hxy, hlt]
            rw [hm]
            exact ⟨rfl, rfl, .inr ⟨rfl, rfl, rfl, .inr ⟨x, t1, rfl, hgt⟩⟩⟩
          | rev =>
            refine ⟨{ current := r₁ x, valid := true, fst := s1', snd := s2 }, by simp [hlt, hgt, hs1'], t1, y :: t2, hR1', hR2, ?_⟩
            have hm : merge .rev (x :: t1) (y :: t2) = x :: merge .rev t1 (y :: t2) := by simp [merge, hxy, hgt]
            rw [hm]
            exact ⟨rfl, rfl, .inl ⟨rfl, rfl, .inl ⟨rfl, .inr ⟨y, t2, rfl, hgt⟩⟩⟩⟩

/-- the operands' remainders are sorted suffixes; whatever the second operand still holds that
    also belongs to the first operand's set is still ahead in the first operand -/
def RUnion (R₁ : σ₁ → List Bytes → Prop) (R₂ : σ₂ → List Bytes → Prop) (d : Dir) (L₁ : List Bytes)
    (r₁ r₂ : Render) (u : UnionState σ₁ σ₂) (rem : List Bytes) : Prop :=
  ∃ r1 r2, R₁ u.fst r1 ∧ R₂ u.snd r2 ∧ Sorted d r1 ∧ Sorted d r2 ∧ (∀ y ∈ r1, y ∈ L₁) ∧
    (∀ y ∈ r2, y ∈ L₁ → y ∈ r1) ∧
    match rem with
    | [] => u.valid = false ∧ r1 = [] ∧ r2 = []
    | x :: t => u.valid = true ∧ u.current = unionRender L₁ r₁ r₂ x ∧ t = merge d r1 r2

/-- from a step of `unionNext` to the simulation relation -/
theorem runion_of_step {d : Dir} {L₁ : List Bytes} {u' : UnionState σ₁ σ₂} {r1 r2 r1' r2' : List Bytes}
    (hR1' : R₁ u'.fst r1') (hR2' : R₂ u'.snd r2') (hs1 : Sorted d r1) (hs2 : Sorted d r2)
    (hsub : ∀ y ∈ r1, y ∈ L₁) (hinv : ∀ y ∈ r2, y ∈ L₁ → y ∈ r1)
    (hm : match merge d r1 r2 with
        | [] => u'.valid = false ∧ r1' = [] ∧ r2' = []
        | x :: t => u'.valid = true ∧ t = merge d r1' r2' ∧
            ((u'.current = r₁ x ∧ r1 = x :: r1' ∧ ((r2' = r2 ∧ BeforeHead d x r2) ∨ r2 = x :: r2')) ∨
             (u'.current = r₂ x ∧ r2 = x :: r2' ∧ r1' = r1 ∧ BeforeHead d x r1))) :
    RUnion R₁ R₂ d L₁ r₁ r₂ u' (merge d r1 r2) := by
  cases hmg : merge d r1 r2 with
  | nil =>
    rw [hmg] at hm
    obtain ⟨hv, e1, e2⟩ := hm
    subst e1 e2
    exact ⟨[], [], hR1', hR2', by simp [Sorted], by simp [Sorted], by simp, by simp, hv, rfl, rfl⟩
  | cons x t =>
    rw [hmg] at hm
    obtain ⟨hv, ht, hsrc⟩ := hm
    rcases hsrc with ⟨hc, e1, h2⟩ | ⟨hc, e2, e1, hb⟩
    · subst e1
      have hs1' := (List.pairwise_cons.1 hs1)
      have hxL : x ∈ L₁ := hsub x (List.mem_cons_self ..)
      have hcur : u'.current = unionRender L₁ r₁ r₂ x := by simp [unionRender, hxL, hc]
      rcases h2 with ⟨e2, hb⟩ | e2
      · subst e2
        have hall := hb.all hs2
        refine ⟨r1', r2', hR1', hR2', hs1'.2, hs2, fun y hy => hsub y (List.mem_cons_of_mem _ hy), ?_, hv, hcur, ht⟩
        intro y hy hyL
        rcases List.mem_cons.1 (hinv y hy hyL) with e | h
        · subst e; exact absurd (hall y hy) (Dir.before_irrefl d y)
        · exact h
      · subst e2
        have hs2' := (List.pairwise_cons.1 hs2)
        refine ⟨r1', r2', hR1', hR2', hs1'.2, hs2'.2, fun y hy => hsub y (List.mem_cons_of_mem _ hy), ?_, hv, hcur, ht⟩
        intro y hy hyL
        rcases List.mem_cons.1 (hinv y (List.mem_cons_of_mem _ hy) hyL) with e | h
        · subst e; exact absurd (hs2'.1 y hy) (Dir.before_irrefl d y)
        · exact h
    · subst e1 e2
      have hs2' := (List.pairwise_cons.1 hs2)
      have hall := hb.all hs1
      have hx1 : x ∉ r1' := fun hx => Dir.before_irrefl d x (hall x hx)
      have hxL : x ∉ L₁ := fun hx => hx1 (hinv x (List.mem_cons_self ..) hx)
      have hcur : u'.current = unionRender L₁ r₁ r₂ x := by simp [unionRender, hxL, hc]
      exact ⟨r1', r2', hR1', hR2', hs1, hs2'.2, hsub, fun y hy => hinv y (List.mem_cons_of_mem _ hy), hv, hcur, ht⟩

theorem union_refines (h₁ : Refines M₁ S₁ r₁ R₁) (h₂ : Refines M₂ S₂ r₂ R₂) (hf₁ : Faithful r₁) (hf₂ : Faithful r₂)
    (d : Dir) (L₁ L : List Bytes) :
    Refines (unionMachine M₁ M₂ (d == .fwd)) (Spec.plain L) (unionRender L₁ r₁ r₂) (RUnion R₁ R₂ d L₁ r₁ r₂) where
  valid := by
    intro u rem ⟨r1, r2, _, _, _, _, _, _, hm⟩
    cases rem with
    | nil => simp [unionMachine, hm.1]
    | cons x t => simp [unionMachine, hm.1]
  current := by
    intro u x t ⟨r1, r2, _, _, _, _, _, _, hm⟩
    simp [unionMachine, hm.2.1]
  next := by
    intro u rem ⟨r1, r2, hR1, hR2, hs1, hs2, hsub, hinv, hm⟩
    obtain ⟨cur, v, s1, s2⟩ := u
    obtain ⟨u', hu', r1', r2', hR1', hR2', hm'⟩ := unionNext_spec h₁ h₂ hf₁ hf₂ d (cur := cur) (v := v) hR1 hR2
    refine ⟨u', hu', ?_⟩
    have := runion_of_step (L₁ := L₁) hR1' hR2' hs1 hs2 hsub hinv hm'
    cases rem with
    | nil =>
      obtain ⟨_, e1, e2⟩ := hm
      subst e1 e2
      simpa [merge] using this
    | cons x t =>
      obtain ⟨_, _, ht⟩ := hm
      simp only [List.tail_cons, ht]
      exact this
  seek := trivial
  seekS := trivial

/-- `NewUnionSetCursor(a, b, forward)` over two cursors that implement lists sorted in the
    union's direction enumerates the merge of the two lists; each value is rendered the way the
    operand it comes from renders it (an operand may return nil for the empty element) -/
theorem newUnionSetCursor_implements {a b : AnyCursor} {S₁ S₂ : Spec} {r₁ r₂ : Render} (ha : a.Implements S₁ r₁)
    (hb : b.Implements S₂ r₂) (hf₁ : Faithful r₁) (hf₂ : Faithful r₂) (d : Dir)
    (hs1 : Sorted d S₁.list) (hs2 : Sorted d S₂.list) :
    (newUnionSetCursor a b (d == .fwd)).Implements (Spec.plain (merge d S₁.list S₂.list))
      (unionRender S₁.list r₁ r₂) := by
  obtain ⟨R₁, s1, hi1, href1, hR1⟩ := ha
  obtain ⟨R₂, s2, hi2, href2, hR2⟩ := hb
  obtain ⟨u', hu', r1', r2', hR1', hR2', hm'⟩ :=
    unionNext_spec href1 href2 hf₁ hf₂ d (cur := none) (v := false) hR1 hR2
  refine ⟨RUnion R₁ R₂ d S₁.list r₁ r₂, u', ?_, union_refines href1 href2 hf₁ hf₂ d _ _, ?_⟩
  · simp [newUnionSetCursor, hi1, hi2, hu']
  · exact runion_of_step hR1' hR2' hs1 hs2 (fun _ h => h) (fun _ _ h => h) hm'

end union

end StorageModel.Cursor
