import StorageModel.Cursor.Kinds
/-
  C14 — SEVERAL cursors alive at once over the same bucket / collection / store object, driven by an
  interleaved script.  In the code every cursor the library hands out owns its bbolt cursor and its
  adapter state (`bucket.Cursor()` per call), so the model of k live cursors is the product of k
  independent cursors: each one sees exactly the operations addressed to it.  A script is a list of
  `(i, op)`; after all cursors have been opened each is observed once (in opening order), then after
  every step the cursor that was operated is observed.
-/
namespace StorageModel.Cursor
open StorageModel

/-- the operations of an interleaved script addressed to cursor `i` -/
def projOps (i : Nat) : List (Nat × Op) → List Op
  | [] => []
  | (j, op) :: rest => if j = i then op :: projOps i rest else projOps i rest

/-- read the per-cursor observation lists in script order; `pos j` = how many observations of cursor
    `j` have been consumed; a cursor whose run ended (panic) ends the whole run -/
def weave (runs : Nat → List Obs) : (Nat → Nat) → List (Nat × Op) → List Obs
  | _, [] => []
  | pos, (i, _) :: rest =>
    match (runs i)[pos i]? with
    | some o => o :: weave runs (fun j => if j = i then pos j + 1 else pos j) rest
    | none => []

/-- the observations of `n` live cursors under an interleaved script -/
def interleave (n : Nat) (runs : Nat → List Obs) (script : List (Nat × Op)) : List Obs :=
  (List.range n).filterMap (fun i => (runs i)[0]?) ++ weave runs (fun _ => 1) script

/-- the model: `ds` opened together (one bucket object, one collection, one store), each an
    independent cursor -/
def multiRun (ds : List Desc) (script : List (Nat × Op)) : List Obs :=
  interleave ds.length (fun i => ((ds[i]?).getD .empty).open.run (projOps i script)) script

/-- the specification: every cursor behaves as if it were alone -/
def multiSpec (ds : List Desc) (script : List (Nat × Op)) : List Obs :=
  interleave ds.length
    (fun i => let d := (ds[i]?).getD .empty; (d.spec.openRun (projOps i script)).map (Obs.render d.render)) script

end StorageModel.Cursor
