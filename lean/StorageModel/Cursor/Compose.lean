import StorageModel.Cursor.Machine
/-
  C14 — a cursor of any Go type, packaged with its state type, and what it means for it to
  implement a specification.
-/
namespace StorageModel.Cursor
open StorageModel

/-- what a constructor / provider of the library returns: some cursor type, opened (the
    constructor itself may panic) -/
structure AnyCursor where
  σ : Type
  M : Machine σ
  init : Outcome σ

namespace AnyCursor

def run (c : AnyCursor) (ops : List Op) : List Obs := c.M.openRun c.init ops

def toList (c : AnyCursor) (fuel : Nat) : Outcome (List (Option Bytes)) :=
  match c.init with
  | .ok s => c.M.toList fuel s
  | .err e => .err e
  | .panic => .panic

/-- the constructor does not panic and the cursor refines `S` from its initial state -/
def Implements (c : AnyCursor) (S : Spec) (r : Render) : Prop :=
  ∃ (R : c.σ → List Bytes → Prop) (s : c.σ), c.init = .ok s ∧ Refines c.M S r R ∧ R s S.list

theorem Implements.run_eq {c : AnyCursor} {S : Spec} {r : Render} (h : c.Implements S r) (ops : List Op) :
    c.run ops = (S.openRun ops).map (Obs.render r) := by
  obtain ⟨R, s, hi, href, hR⟩ := h
  unfold run; rw [hi]
  exact href.openRun_eq hR ops

theorem Implements.toList_eq {c : AnyCursor} {S : Spec} {r : Render} (h : c.Implements S r)
    {fuel : Nat} (hf : S.list.length < fuel) : c.toList fuel = .ok (S.list.map r) := by
  obtain ⟨R, s, hi, href, hR⟩ := h
  unfold toList; rw [hi]
  exact href.toList_eq fuel hR hf

end AnyCursor
end StorageModel.Cursor
