import StorageModel.Cursor.Bolt
import StorageModel.Cursor.Stacked
import StorageModel.Cursor.Scanner
/-
  C14 — cursor objects that are RE-USED: opened again on another row / another bucket after
  having been left at any position.

  The library keeps one cursor object per query for a set symbol and re-opens it for every row the
  query visits (`rowCursorImpl.symbolCache` → `RuntimeEntitySetSymbol.OpenCursor(tx, rowId)`):

    entitySetSymbolRuntime      the object IS the cursor: `OpenCursor` overwrites `cursor` and `value`
                                of the object that was driven on the previous row
    compositeEntitySetSymbol    `OpenCursor` builds a new stackedCursor and stores it in `symbol.cursor`
    newCursorScanner            (sub-query `from <set> where …`): a new uniqueIndexScanner per row that
                                wraps the re-opened runtime symbol of the set

  A `Reusable` is such an object: the cursor methods (`M`) and `reopen k`, which takes the state the
  object was left in (anything) to the state after `OpenCursor` on row `k`.  A script is a sequence
  of segments `(k, ops)`: open on row `k`, observe, run `ops` (observing after each).  What has to
  hold (ReuseProofs.lean, Properties/C14.lean): after `open k` the object behaves like a fresh
  cursor over the set of row `k`, whatever happened before.
-/
namespace StorageModel.Cursor
open StorageModel

namespace Machine
variable {σ : Type}

/-- `run`, also returning the state the script ends in (`none` after a panic / an error) -/
def runSt (M : Machine σ) : List Op → σ → List Obs × Option σ
  | [], s => ([], some s)
  | op :: ops, s =>
    match M.method op with
    | none => let (o, fin) := runSt M ops s; (.unsupported :: o, fin)
    | some f =>
      match f s with
      | .ok s' => let (o, fin) := runSt M ops s'; (M.observe s' :: o, fin)
      | .err e => ([.failed e], none)
      | .panic => ([.panic], none)

end Machine

/-- a cursor object that can be opened again: `reopen k s` is `OpenCursor(tx, row k)` called on the
    object in state `s` -/
structure Reusable (σ κ : Type) where
  M : Machine σ
  reopen : κ → σ → Outcome σ

namespace Reusable
variable {σ κ : Type}

/-- run a sequence of segments on one object, the way the harness drives the real one: open on
    row `k`, observe, run the segment's operations; a panic ends the run -/
def run (U : Reusable σ κ) : List (κ × List Op) → σ → List Obs
  | [], _ => []
  | (k, ops) :: rest, s =>
    match U.reopen k s with
    | .ok s' =>
      let (o, fin) := U.M.runSt ops s'
      U.M.observe s' :: o ++
        (match fin with
         | some s'' => run U rest s''
         | none => [])
    | .err e => [.failed e]
    | .panic => [.panic]

end Reusable

/-! ### entitySetSymbolRuntime.OpenCursor -/

/-- ```
    symbol.cursor = symbol.openBoltCursor(tx, rowId)
    if symbol.cursor != nil { symbol.value, _ = symbol.cursor.First() } else { symbol.value = nil }
    return symbol
    ```
    on the object in state `s`; `bucket = none` when the entity or its list bucket is missing -/
def setSymReopen (bucket : Option (List Bytes)) (s : SetSymCur) : SetSymCur :=
  let s1 : SetSymCur := { s with cursor := bucket.map fun keys => { keys := keys, idx := 0 } }
  match s1.cursor with
  | some b => let (b', k) := b.first; { s1 with cursor := some b', value := k }
  | none => { s1 with value := none }

/-- the keys of the list bucket of a row: `none` = no bucket, `some xs` = a bucket holding the
    elements `xs` as strings -/
def setRowKeys (row : Option (List Bytes)) : Option (List Bytes) :=
  row.map fun xs => tagged typeString (dedupSort xs)

/-- the runtime symbol of a set field; `rows k` are the elements row `k` holds (`none`: the row has
    no bucket for the field, or does not exist) -/
def setSymReusable {κ : Type} (rows : κ → Option (List Bytes)) : Reusable SetSymCur κ where
  M := setSym
  reopen k s := .ok (setSymReopen (setRowKeys (rows k)) s)

/-- `GetRuntimeSymbol()`: `&entitySetSymbolRuntime{entitySetSymbolImpl: symbol}` -/
def setSymNew : SetSymCur := { cursor := none, value := none }

/-! ### compositeEntitySetSymbol.OpenCursor -/

/-- every call builds a new `stackedCursor` (nothing of the previous one is kept) and stores it in
    `symbol.cursor`; `rowOf k` is the row id -/
def compReusable {κ : Type} (chain : List Level) (fuel : Nat) (rowOf : κ → Option Bytes) : Reusable StackedCur κ where
  M := stackedMachine chain fuel
  reopen k _ := (stackedOpen chain (rowOf k) fuel).init

/-! ### the sub-query cursor: rowCursorImpl.OpenSetCursorForQuery -/

/-- ```
    setCursor := setRowSymbol.OpenCursor(rs.tx, rs.currentRow)
    return newCursorScanner(rs.tx, symbol.GetLinkedType(), setCursor, query)
    ```
    the set symbol's object is re-opened, a new scanner (counters zero) wraps it and `Next()` is
    called once -/
def scanReusable {σ κ : Type} (U : Reusable σ κ) (cfg : ScanCfg) (fuel : Nat) : Reusable (ScanState σ) κ where
  M := scanMachine U.M cfg fuel
  reopen k st := do
    let s' ← U.reopen k st.cursor
    scanNext U.M cfg fuel { cursor := s', current := none, offset := 0, collected := 0 }

/-! ### specifications -/

/-- the specification of the set-symbol cursor of a row: its elements in key order; no bucket = the empty set -/
def setRowSpec (row : Option (List Bytes)) : Spec := setSymSpec ((row.map dedupSort).getD [])

/-- the rows a scanner keeps: the wrapped cursor returns a key for the element, the row passes the
    child-store test and the filter -/
def ScanCfg.keepR (cfg : ScanCfg) (r : Render) (x : Bytes) : Bool := (r x).isSome && cfg.keep ((r x).getD [])

/-- the specification of the scanner over a wrapped cursor with specification `S`: the kept rows;
    `Seek(v)`: when the wrapped cursor has a `Seek`, whatever that lands on (for the set symbol: a
    raw key comparison), filtered; otherwise **forward only** — the remaining rows whose value is
    `≥ v` (`for scanner.IsValid() && string(scanner.current) < string(val) { scanner.Next() }`) -/
def scanSpecR (S : Spec) (r : Render) (keep : Bytes → Bool) : Spec where
  list := S.list.filter keep
  seek := some (match S.seek with
    | some g => fun v _ => (g v S.list).filter keep
    | none => fun v rem => rem.dropWhile (fun x => decide ((r x).getD [] < v)))
  seekS := none

/-- the window a paged scanner still has to show: of the kept rows `K` ahead, drop what is left of
    the offset, take what is left of the limit (`off` rows skipped and `col` rows returned so far) -/
def ScanCfg.page (cfg : ScanCfg) (off col : Nat) (K : List Bytes) : List Bytes :=
  match cfg.targetLimit with
  | none => K.drop (cfg.targetOffset - off)
  | some l => (K.drop (cfg.targetOffset - off)).take (l - col)

namespace Machine
/-- the cursor driven with `Next` only (the `SetCursor` interface) -/
def nextOnly {σ : Type} (M : Machine σ) : Machine σ := { M with seek := none, seekS := none }
end Machine

def Reusable.nextOnly {σ κ : Type} (U : Reusable σ κ) : Reusable σ κ := { U with M := U.M.nextOnly }

end StorageModel.Cursor
