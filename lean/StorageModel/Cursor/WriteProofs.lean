import StorageModel.Cursor.Write
import StorageModel.Cursor.ReuseProofs
/-
  C14 — re-opened / re-sought after a write: whatever the object cached, after the entry it walks
  the CURRENT set.
-/
namespace StorageModel.Cursor
open StorageModel

/-- a script run from related states ends in a related state, with the observations of the spec -/
theorem Refines.runSt_rel {σ : Type} {M : Machine σ} {S : Spec} {r : Render} {R : σ → List Bytes → Prop}
    (h : Refines M S r R) : ∀ (ops : List Op) {s rem}, R s rem →
    ∃ s' rem', M.runSt ops s = ((S.run ops rem).map (Obs.render r), some s') ∧ R s' rem'
  | [], s, rem, hR => ⟨s, rem, rfl, hR⟩
  | op :: ops, s, rem, hR => by
    have hm := h.method_sim op
    unfold Machine.runSt Spec.run
    cases hM : M.method op <;> cases hS : S.method op <;> simp only [hM, hS] at hm ⊢
    · obtain ⟨s', rem', hs', hR'⟩ := runSt_rel h ops hR
      exact ⟨s', rem', by simp [hs', Obs.render], hR'⟩
    · obtain ⟨s1, hs1, hR1⟩ := hm hR
      obtain ⟨s', rem', hs', hR'⟩ := runSt_rel h ops hR1
      exact ⟨s', rem', by simp [hs1, hs', h.observe_eq hR1], hR'⟩

/-- **What re-opening and re-seeking must achieve in a world that is written.**
    There is a family of simulations `R w k` (object state ~ remaining list of row `k` in world `w`) such that
    * in every world the methods refine the row's specification of THAT world;
    * `reopen w k` leads into `R w k` at the start of the row's current list **from every state**;
    * if the object re-reads on `Seek` (`reseekable`): from a state related to row `k` in ANY earlier world `w0`
      in which the row's bucket object was the same one, `Seek v` / `SeekToString v` on the object as it is found
      in world `w` leads into `R w k` at the place the specification of the CURRENT world prescribes. -/
def WObject.Implements {ω σ κ ι : Type} (U : WObject ω σ κ ι) (S : ω → κ → Spec) (r : ω → κ → Render) : Prop :=
  ∃ R : ω → κ → σ → List Bytes → Prop,
    (∀ w k, Refines (U.M w) (S w k) (r w k) (R w k)) ∧
    (∀ w k s, ∃ s', U.reopen w k s = .ok s' ∧ R w k s' (S w k).list) ∧
    (U.reseekable = true → ∀ w0 w k, U.ident w0 k = U.ident w k → ∀ s rem, R w0 k s rem →
      (∀ f g, (U.M w).seek = some f → (S w k).seek = some g →
        ∀ v, ∃ s', f v (U.rebase w k s) = .ok s' ∧ R w k s' (g v (S w k).list)) ∧
      (∀ f g, (U.M w).seekS = some f → (S w k).seekS = some g →
        ∀ v, ∃ s', f v (U.rebase w k s) = .ok s' ∧ R w k s' (g v (S w k).list)))

section run
variable {ω σ κ ι W : Type} [DecidableEq ι] {U : WObject ω σ κ ι} {S : ω → κ → Spec} {r : ω → κ → Render}
  {R : ω → κ → σ → List Bytes → Prop}

theorem WObject.run_eq_aux
    (href : ∀ w k, Refines (U.M w) (S w k) (r w k) (R w k))
    (hopen : ∀ w k s, ∃ s', U.reopen w k s = .ok s' ∧ R w k s' (S w k).list)
    (hre : U.reseekable = true → ∀ w0 w k, U.ident w0 k = U.ident w k → ∀ s rem, R w0 k s rem →
      (∀ f g, (U.M w).seek = some f → (S w k).seek = some g →
        ∀ v, ∃ s', f v (U.rebase w k s) = .ok s' ∧ R w k s' (g v (S w k).list)) ∧
      (∀ f g, (U.M w).seekS = some f → (S w k).seekS = some g →
        ∀ v, ∃ s', f v (U.rebase w k s) = .ok s' ∧ R w k s' (g v (S w k).list)))
    (apply : W → ω → ω) : ∀ (items : List (Item W κ)) (w : ω) (at_ : Option (κ × ι)) (s : σ),
    (∀ k i, at_ = some (k, i) → i = U.ident w k ∧ ∃ rem, R w k s rem) →
    U.run apply items w at_ s = specRunW S r U.ident U.reseekable apply items w at_
  | [], _, _, _, _ => rfl
  | it :: rest, w, at_, s, hinv => by
    -- what happens once the entry has led into the simulation of the current world
    have cont : ∀ (w' : ω) (k : κ) (s' : σ) (rem : List Bytes), R w' k s' rem →
        (let (o, fin) := (U.M w').runSt it.ops s'
         (U.M w').observe s' :: o ++
          (match fin with
           | some s'' => U.run apply rest w' (some (k, U.ident w' k)) s''
           | none => [])) =
        (Spec.observe rem :: (S w' k).run it.ops rem).map (Obs.render (r w' k)) ++
          specRunW S r U.ident U.reseekable apply rest w' (some (k, U.ident w' k)) := by
      intro w' k s' rem hR
      obtain ⟨s'', rem'', hrun, hR''⟩ := (href w' k).runSt_rel it.ops hR
      have ih := run_eq_aux href hopen hre apply rest w' (some (k, U.ident w' k)) s''
        (by
          intro k' i' h
          simp only [Option.some.injEq, Prod.mk.injEq] at h
          obtain ⟨hk, hi⟩ := h
          subst hk hi
          exact ⟨rfl, rem'', hR''⟩)
      simp only [hrun, ih, List.map_cons, (href w' k).observe_eq hR, List.cons_append]
    unfold WObject.run specRunW
    simp only
    generalize hw' : applyAll apply it.writes w = w'
    cases hent : it.entry with
    | «open» k =>
      obtain ⟨s', hs', hR'⟩ := hopen w' k s
      simp only [WObject.enter, specEnter, hs']
      exact cont w' k s' _ hR'
    | seek v =>
      cases at_ with
      | none => simp [WObject.enter, specEnter]
      | some ki =>
        obtain ⟨k, i⟩ := ki
        obtain ⟨hi, rem, hR⟩ := hinv k i rfl
        simp only [WObject.enter, specEnter]
        by_cases hc : (U.reseekable && decide (i = U.ident w' k)) = true
        · simp only [hc, if_true]
          simp only [Bool.and_eq_true, decide_eq_true_eq] at hc
          have hs := (href w' k).seek
          cases hM : (U.M w').seek with
          | none =>
            cases hS : (S w' k).seek with
            | none => rfl
            | some g => simp [hM, hS] at hs
          | some f =>
            cases hS : (S w' k).seek with
            | none => simp [hM, hS] at hs
            | some g =>
              obtain ⟨s', hs', hR'⟩ := (hre hc.1 w w' k (by rw [← hi, hc.2]) s rem hR).1 f g hM hS v
              simp only [hs']
              exact cont w' k s' _ hR'
        · simp [hc]
    | seekS v =>
      cases at_ with
      | none => simp [WObject.enter, specEnter]
      | some ki =>
        obtain ⟨k, i⟩ := ki
        obtain ⟨hi, rem, hR⟩ := hinv k i rfl
        simp only [WObject.enter, specEnter]
        by_cases hc : (U.reseekable && decide (i = U.ident w' k)) = true
        · simp only [hc, if_true]
          simp only [Bool.and_eq_true, decide_eq_true_eq] at hc
          have hs := (href w' k).seekS
          cases hM : (U.M w').seekS with
          | none =>
            cases hS : (S w' k).seekS with
            | none => rfl
            | some g => simp [hM, hS] at hs
          | some f =>
            cases hS : (S w' k).seekS with
            | none => simp [hM, hS] at hs
            | some g =>
              obtain ⟨s', hs', hR'⟩ := (hre hc.1 w w' k (by rw [← hi, hc.2]) s rem hR).2 f g hM hS v
              simp only [hs']
              exact cont w' k s' _ hR'
        · simp [hc]

/-- **After the entry the object walks the current set.**  An object that implements the row
    specifications of every world produces, for every script of writes / entries / operations, from every
    initial world and EVERY initial state (nothing opened yet), item by item exactly the observations of
    the list specification of the world as it is at that item. -/
theorem WObject.Implements.run_eq (h : U.Implements S r) (apply : W → ω → ω) (items : List (Item W κ)) (w : ω) (s : σ) :
    U.run apply items w none s = specRunW S r U.ident U.reseekable apply items w none := by
  obtain ⟨R, href, hopen, hre⟩ := h
  exact WObject.run_eq_aux href hopen hre apply items w none s (by intro k i h; cases h)

end run

/-! ### objects that are only re-opened -/

theorem WObject.ofFamily_implements {ω σ κ : Type} {U : ω → Reusable σ κ} {S : ω → κ → Spec} {r : ω → κ → Render}
    (h : ∀ w, (U w).Implements (S w) (r w)) : (WObject.ofFamily U).Implements S r := by
  classical
  have hex : ∀ w k, ∃ R : σ → List Bytes → Prop,
      Refines (U w).M (S w k) (r w k) R ∧ ∀ s, ∃ s', (U w).reopen k s = .ok s' ∧ R s' (S w k).list := fun w k => h w k
  refine ⟨fun w k => Classical.choose (hex w k), fun w k => (Classical.choose_spec (hex w k)).1,
    fun w k s => (Classical.choose_spec (hex w k)).2 s, ?_⟩
  intro hr; cases hr

/-! ### entitySetSymbolRuntime -/

/-- the simulation of the set symbol on a row: a bucket holding `xs`, or no bucket -/
def RSymRow (row : Option (List Bytes)) : SetSymCur → List Bytes → Prop :=
  match row with
  | some xs => RSym (dedupSort xs)
  | none => RSymNone

theorem setSym_refines_row (row : Option (List Bytes)) :
    Refines setSym (setRowSpec row) renderNilEmpty (RSymRow row) := by
  cases row with
  | none => simpa [setRowSpec, RSymRow] using setSym_refines_nobucket
  | some xs => simpa [setRowSpec, RSymRow] using setSym_refines (dedupSort xs)

theorem setSym_reopen_row (row : Option (List Bytes)) (s : SetSymCur) :
    RSymRow row (setSymReopen (setRowKeys row) s) (setRowSpec row).list := by
  cases row with
  | none => exact ⟨by simp [setRowKeys, setSymReopen_none], by simp [setRowSpec, setSymSpec]⟩
  | some xs =>
    have := setSym_open (dedupSort xs)
    simpa [RSymRow, setRowSpec, setSymSpec, setRowKeys, setSymReopen_some] using this

/-- `Seek` / `SeekToString` on an object that was opened on the row when it held `row0` and now holds
    `row` in the same bucket object (both exist, or there was and is none): the bbolt cursor searches
    the live bucket, the object stands where the specification of the CURRENT set says -/
theorem setSym_reseek_row (row0 row : Option (List Bytes)) (hsome : row0.isSome = row.isSome)
    {s : SetSymCur} {rem : List Bytes} (hR : RSymRow row0 s rem) :
    (∀ f g, setSym.seek = some f → (setRowSpec row).seek = some g →
      ∀ v, ∃ s', f v (setSymRebase (setRowKeys row) s) = .ok s' ∧ RSymRow row s' (g v (setRowSpec row).list)) ∧
    (∀ f g, setSym.seekS = some f → (setRowSpec row).seekS = some g →
      ∀ v, ∃ s', f v (setSymRebase (setRowKeys row) s) = .ok s' ∧ RSymRow row s' (g v (setRowSpec row).list)) := by
  cases row with
  | none =>
    -- no bucket then and now: the object has no bbolt cursor, `Seek` does nothing
    cases row0 with
    | some _ => simp at hsome
    | none =>
      obtain ⟨hs, _⟩ := hR
      subst hs
      refine ⟨?_, ?_⟩ <;>
      · intro f g hf hg v
        simp only [setSym, Option.some.injEq] at hf
        subst hf
        simp only [setRowSpec, Option.map_none, Option.getD_none, setSymSpec, Option.some.injEq] at hg
        subst hg
        exact ⟨_, rfl, by simp [setSymRebase], by simp [Spec.seekIn]⟩
  | some xs =>
    cases row0 with
    | none => simp at hsome
    | some xs0 =>
      obtain ⟨i, hb, _, _⟩ := hR
      obtain ⟨c, value⟩ := s
      simp only at hb; subst hb
      have hreb : setSymRebase (setRowKeys (some xs))
          { cursor := some { keys := tagged typeString (dedupSort xs0), idx := i }, value := value } =
          { cursor := some { keys := tagged typeString (dedupSort xs), idx := i }, value := value } := by
        simp [setSymRebase, setRowKeys]
      -- the state a properly opened cursor over the current set has at the same index
      have h0 := rsym_at (dedupSort xs) i
      have href := setSym_refines (dedupSort xs)
      refine ⟨?_, ?_⟩
      · intro f g hf hg v
        have hs := href.seek
        have hg' : (setSymSpec (dedupSort xs)).seek = some g := hg
        simp only [hf, hg'] at hs
        obtain ⟨s', hs', hR'⟩ := hs v h0
        refine ⟨s', ?_, ?_⟩
        · rw [hreb, ← hs']
          simp only [setSym, Option.some.injEq] at hf
          subst hf; rfl
        · simp only [setSymSpec, Option.some.injEq] at hg'
          subst hg'
          exact hR'
      · intro f g hf hg v
        have hs := href.seekS
        have hg' : (setSymSpec (dedupSort xs)).seekS = some g := hg
        simp only [hf, hg'] at hs
        obtain ⟨s', hs', hR'⟩ := hs v h0
        refine ⟨s', ?_, ?_⟩
        · rw [hreb, ← hs']
          simp only [setSym, Option.some.injEq] at hf
          subst hf; rfl
        · simp only [setSymSpec, Option.some.injEq] at hg'
          subst hg'
          exact hR'

theorem setSymW_implements {ω κ ι : Type} (rows : ω → κ → Option (List Bytes)) (ident : ω → κ → ι)
    (hid : ∀ w0 w k, ident w0 k = ident w k → (rows w0 k).isSome = (rows w k).isSome) :
    (setSymW rows ident).Implements (fun w k => setRowSpec (rows w k)) (fun _ _ => renderNilEmpty) :=
  ⟨fun w k => RSymRow (rows w k), fun w k => setSym_refines_row (rows w k),
    fun w k s => ⟨_, rfl, setSym_reopen_row (rows w k) s⟩,
    fun _ w0 w k hi _ _ hR => setSym_reseek_row (rows w0 k) (rows w k) (hid w0 w k hi) hR⟩

/-! ### the bolt cursor adapters: `Seek` searches the live bucket from its root -/

/-- `Seek` of an adapter reads nothing of the adapter's state but the bucket the bbolt cursor looks at -/
def SeekReadsKeysOnly (M : Machine BoltCur) : Prop :=
  ∀ f, M.seek = some f → ∀ v (s1 s2 : BoltCur), s1.b.keys = s2.b.keys → f v s1 = f v s2

theorem bolt_seek_keys (b1 b2 : Bolt) (h : b1.keys = b2.keys) (v : Bytes) : b1.seek v = b2.seek v := by
  obtain ⟨k1, i1⟩ := b1; obtain ⟨k2, i2⟩ := b2
  simp only at h; subst h
  rfl

theorem forwardBolt_seekKeys : SeekReadsKeysOnly forwardBolt := by
  intro f hf v s1 s2 h
  simp only [forwardBolt, Option.some.injEq] at hf
  subst hf
  simp only [bolt_seek_keys s1.b s2.b h]

theorem reverseBolt_seekKeys : SeekReadsKeysOnly reverseBolt := by
  intro f hf v s1 s2 h
  simp only [reverseBolt, Option.some.injEq] at hf
  subst hf
  simp only [bolt_seek_keys s1.b s2.b h]

theorem typedForwardBolt_seekKeys (tag : UInt8) : SeekReadsKeysOnly (typedForwardBolt tag) := by
  intro f hf v s1 s2 h
  simp only [typedForwardBolt, Option.some.injEq] at hf
  subst hf
  simp only [bolt_seek_keys s1.b s2.b h]

theorem typedReverseBolt_seekKeys (tag : UInt8) : SeekReadsKeysOnly (typedReverseBolt tag) := by
  intro f hf v s1 s2 h
  simp only [typedReverseBolt, Option.some.injEq] at hf
  subst hf
  simp only [bolt_seek_keys s1.b s2.b h]

/-- from ANY state of an adapter whose bbolt cursor looks at the bucket a freshly opened cursor `s0` looks
    at, `Seek v` leads where the specification says -/
theorem bolt_reseek {M : Machine BoltCur} {S : Spec} {R : BoltCur → List Bytes → Prop} (href : Refines M S some R)
    (hM : SeekReadsKeysOnly M) {s0 : BoltCur} (hR0 : R s0 S.list) {s : BoltCur} (hk : s.b.keys = s0.b.keys) :
    ∀ f g, M.seek = some f → S.seek = some g → ∀ v, ∃ s', f v s = .ok s' ∧ R s' (g v S.list) := by
  intro f g hf hg v
  have hs := href.seek
  simp only [hf, hg] at hs
  obtain ⟨s', hs', hR'⟩ := hs v hR0
  exact ⟨s', by rw [hM f hf v s s0 hk]; exact hs', hR'⟩

section boltW
variable {ω κ ι : Type}

theorem fwdW_implements (keys : ω → κ → List Bytes) (ident : ω → κ → ι) :
    (fwdW keys ident).Implements (fun w k => Spec.seekable .fwd (keys w k)) (fun _ _ => some) :=
  ⟨fun w k => RFwd (keys w k), fun w k => forwardBolt_refines (keys w k),
    fun w k _ => ⟨_, rfl, forwardBolt_open (keys w k)⟩,
    fun _ _ w k _ s _ _ =>
      ⟨bolt_reseek (forwardBolt_refines (keys w k)) forwardBolt_seekKeys (forwardBolt_open (keys w k))
          (s := boltRebase (keys w k) s) (by simp [boltRebase, newForwardBoltCursor, Bolt.first]),
        fun f _ hf => by simp [fwdW, forwardBolt] at hf⟩⟩

theorem revW_implements (keys : ω → κ → List Bytes) (ident : ω → κ → ι) (hK : ∀ w k, Asc (keys w k)) :
    (revW keys ident).Implements (fun w k => Spec.seekable .rev (keys w k).reverse) (fun _ _ => some) :=
  ⟨fun w k => RRev (keys w k), fun w k => reverseBolt_refines (hK w k),
    fun w k _ => ⟨_, rfl, reverseBolt_open (keys w k)⟩,
    fun _ _ w k _ s _ _ =>
      ⟨bolt_reseek (reverseBolt_refines (hK w k)) reverseBolt_seekKeys (reverseBolt_open (keys w k))
          (s := boltRebase (keys w k) s) (by simp [boltRebase, newReverseBoltCursor, Bolt.last]),
        fun f _ hf => by simp [revW, reverseBolt] at hf⟩⟩

theorem tfwdW_implements (tag : UInt8) (elems : ω → κ → List Bytes) (ident : ω → κ → ι) :
    (tfwdW tag elems ident).Implements (fun w k => Spec.seekable .fwd (elems w k)) (fun _ _ => some) :=
  ⟨fun w k => RFwdT tag (elems w k), fun w k => typedForwardBolt_refines tag (elems w k),
    fun w k _ => ⟨_, rfl, typedForwardBolt_open tag (elems w k)⟩,
    fun _ _ w k _ s _ _ =>
      ⟨bolt_reseek (typedForwardBolt_refines tag (elems w k)) (typedForwardBolt_seekKeys tag)
          (typedForwardBolt_open tag (elems w k)) (s := boltRebase (tagged tag (elems w k)) s)
          (by simp [boltRebase, newTypedForwardBoltCursor, Bolt.first]),
        fun f _ hf => by simp [tfwdW, typedForwardBolt] at hf⟩⟩

theorem trevW_implements (tag : UInt8) (elems : ω → κ → List Bytes) (ident : ω → κ → ι) (hE : ∀ w k, Asc (elems w k)) :
    (trevW tag elems ident).Implements (fun w k => Spec.seekable .rev (elems w k).reverse) (fun _ _ => some) :=
  ⟨fun w k => RRevT tag (elems w k), fun w k => typedReverseBolt_refines tag (hE w k),
    fun w k _ => ⟨_, rfl, typedReverseBolt_open tag (elems w k)⟩,
    fun _ _ w k _ s _ _ =>
      ⟨bolt_reseek (typedReverseBolt_refines tag (hE w k)) (typedReverseBolt_seekKeys tag)
          (typedReverseBolt_open tag (elems w k)) (s := boltRebase (tagged tag (elems w k)) s)
          (by simp [boltRebase, newTypedReverseBoltCursor, Bolt.last]),
        fun f _ hf => by simp [trevW, typedReverseBolt] at hf⟩⟩

end boltW

/-! ### the scanner around a written object -/

/-- **The scanner after a write.**  If the wrapped object implements the row specifications of every world
    (re-opened from any state; re-sought on the live bucket), so does the scanner around it, with the filter
    of the CURRENT world: `open` = the wrapped `open`, a new scanner, `Next()`; `Seek` = the wrapped `Seek`,
    then `Next()` — `current` and the wrapped position are both overwritten, the filter is asked again. -/
theorem scanW_implements {ω σ κ ι : Type} {U : WObject ω σ κ ι} {S : ω → κ → Spec} {r : ω → κ → Render}
    (h : U.Implements S r) (hS : ∀ w k, (S w k).SeekStateless) {cfg : ω → ScanCfg} (hcfg : ∀ w, (cfg w).Unpaged)
    {fuel : Nat} (hf : ∀ w k, (S w k).list.length + 1 < fuel)
    (hseek : U.reseekable = true → ∀ w, ∃ f, (U.M w).seek = some f) :
    (scanW U cfg fuel).Implements
      (fun w k => scanSpecR (S w k) (r w k) ((cfg w).keepR (r w k))) r := by
  obtain ⟨R, href, hopen, hre⟩ := h
  refine ⟨fun w k => RScanR (R w k) (r w k) ((cfg w).keepR (r w k)) (S w k).list.length,
    fun w k => scan_refinesR (href w k) (hS w k) (hcfg w) (Nat.le_refl _) (hf w k), ?_, ?_⟩
  · intro w k st
    obtain ⟨s', hs', hR'⟩ := hopen w k st.cursor
    obtain ⟨st', hst', rem', hRc, hle, hm⟩ :=
      scanNext_specR (href w k) (hcfg w) fuel (cur := none) (off := 0) (col := 0) hR' (by have := hf w k; omega)
    refine ⟨st', by simp [scanW, hs', hst'], ?_⟩
    exact rscanR_of_next (r := r w k) (keep := (cfg w).keepR (r w k)) hRc hle (Nat.le_refl _) hm
  · intro hrs w0 w k hi st remS hst
    obtain ⟨rem, hRc, _, _⟩ := hst
    obtain ⟨fi, hfi⟩ := hseek hrs w
    have hsk := (href w k).seek
    refine ⟨?_, ?_⟩
    · intro F G hF hG v
      cases hgS : (S w k).seek with
      | none => simp [hfi, hgS] at hsk
      | some gi =>
        obtain ⟨c1, hc1, hR1⟩ := (hre hrs w0 w k hi st.cursor rem hRc).1 fi gi hfi hgS v
        obtain ⟨_, hglen⟩ := hS w k gi hgS v (S w k).list
        obtain ⟨cursor, current, offset, collected⟩ := st
        obtain ⟨st', hst', rem', hR', hle, hm⟩ :=
          scanNext_specR (href w k) (hcfg w) fuel (cur := current) (off := offset) (col := collected) hR1
            (by have := hf w k; omega)
        simp only [scanW, scanMachine, hfi, Option.some.injEq] at hF
        subst hF
        simp only [scanSpecR, hgS, Option.some.injEq] at hG
        subst hG
        simp only at hc1
        refine ⟨st', by simp [scanW, hc1, hst'], ?_⟩
        exact rscanR_of_next (r := r w k) (keep := (cfg w).keepR (r w k)) hR' hle hglen hm
    · intro F G hF
      simp [scanW, scanMachine] at hF

end StorageModel.Cursor
