import StorageModel.Cursor.Reuse
/-
  C14 — cursor objects that are re-opened / re-sought AFTER THE SET UNDER THEM WAS REWRITTEN, inside
  one write transaction.

  The data a cursor walks is no longer fixed for the length of a script: a *world* `w : ω` assigns
  the sets to the rows, and `Write`s (a `store.Update` that deletes and re-creates the list bucket,
  a single key put / delete, a link added or removed, an entity created or deleted) transform it
  between the operations of one script.  What the code guarantees, and what this file models:

    * `OpenCursor` / the provider call / `OpenSetCursorForQuery` (an `open` entry) reads the row
      again: whatever state the object was left in, and whatever was cached in it (bbolt cursor,
      bucket, position, value, the row it was opened on), it then walks the CURRENT set;
    * `Seek` / `SeekToString` on a cursor whose bbolt bucket object is still the same one
      (`ident` unchanged: single key writes, a changed filter verdict, ids added to / removed from
      the entities bucket) searches the live bucket from its root: the cursor then stands in the
      CURRENT set (`rebase` = the same bbolt cursor, now looking at the current keys);
    * NOT promised, and therefore answered `unspecified` by the model and never generated: `Next`
      right after a write (bbolt: the position of a cursor is undefined after a mutation), and
      `Seek` on a cursor whose bucket was deleted and re-created (`ident` changed — the cursor
      still points into the deleted bucket) or that has no `Seek` that re-reads (`reseekable =
      false`: the forward-only fallback loop of the scanner over a stacked cursor).

  A script is a list of `Item`s: some writes, then an *entry* (`open k` | `seek v` | `seekS v`) that
  brings the object in line with the world, then ordinary operations in the now frozen world.
-/
namespace StorageModel.Cursor
open StorageModel

/-- how the object is brought in line with the world after writes -/
inductive Entry (κ : Type) where
  | «open» (k : κ)
  | seek (v : Bytes)
  | seekS (v : Bytes)

structure Item (W κ : Type) where
  writes : List W
  entry : Entry κ
  ops : List Op

def applyAll {ω W : Type} (apply : W → ω → ω) (ws : List W) (w : ω) : ω := ws.foldl (fun w x => apply x w) w

/-- a cursor object over a world that can be written.
    `M w`: the methods while the world is `w` (a composite symbol's chain, a scanner's filter read the world);
    `reopen w k s`: `OpenCursor(tx, row k)` on the object in state `s`;
    `rebase w k s`: the object opened on row `k`, as the library finds it once the world has become `w` —
      its bbolt cursor looks at the live bucket;
    `ident w k`: which bbolt bucket object holds the set of row `k` (changes when the bucket is deleted and
      re-created, appears or disappears). -/
structure WObject (ω σ κ ι : Type) where
  M : ω → Machine σ
  reopen : ω → κ → σ → Outcome σ
  rebase : ω → κ → σ → σ
  ident : ω → κ → ι
  reseekable : Bool

namespace WObject
variable {ω σ κ ι W : Type} [DecidableEq ι]

/-- the entry of an item in world `w`; `at_` = the row the object was last opened on and the
    identity its bucket had then.  `none`: the code makes no promise (see the head of the file). -/
def enter (U : WObject ω σ κ ι) (w : ω) (at_ : Option (κ × ι)) (e : Entry κ) (s : σ) : Option (κ × Outcome σ) :=
  match e with
  | .open k => some (k, U.reopen w k s)
  | .seek v =>
    match at_ with
    | some (k, i) =>
      if U.reseekable && decide (i = U.ident w k) then
        match (U.M w).seek with
        | some f => some (k, f v (U.rebase w k s))
        | none => none
      else none
    | none => none
  | .seekS v =>
    match at_ with
    | some (k, i) =>
      if U.reseekable && decide (i = U.ident w k) then
        match (U.M w).seekS with
        | some f => some (k, f v (U.rebase w k s))
        | none => none
      else none
    | none => none

/-- run a script on ONE object: per item the writes, the entry (observed), the operations (each observed) -/
def run (U : WObject ω σ κ ι) (apply : W → ω → ω) : List (Item W κ) → ω → Option (κ × ι) → σ → List Obs
  | [], _, _, _ => []
  | it :: rest, w, at_, s =>
    let w' := applyAll apply it.writes w
    match U.enter w' at_ it.entry s with
    | none => [.failed "unspecified"]
    | some (k, .ok s') =>
      let (o, fin) := (U.M w').runSt it.ops s'
      (U.M w').observe s' :: o ++
        (match fin with
         | some s'' => run U apply rest w' (some (k, U.ident w' k)) s''
         | none => [])
    | some (_, .err e) => [.failed e]
    | some (_, .panic) => [.panic]

end WObject

/-! ### the specification: the list specification of the CURRENT world, entry by entry -/

def specEnter {ω κ ι : Type} [DecidableEq ι] (S : ω → κ → Spec) (ident : ω → κ → ι) (reseekable : Bool)
    (w : ω) (at_ : Option (κ × ι)) (e : Entry κ) : Option (κ × List Bytes) :=
  match e with
  | .open k => some (k, (S w k).list)
  | .seek v =>
    match at_ with
    | some (k, i) =>
      if reseekable && decide (i = ident w k) then
        match (S w k).seek with
        | some g => some (k, g v (S w k).list)
        | none => none
      else none
    | none => none
  | .seekS v =>
    match at_ with
    | some (k, i) =>
      if reseekable && decide (i = ident w k) then
        match (S w k).seekS with
        | some g => some (k, g v (S w k).list)
        | none => none
      else none
    | none => none

def specRunW {ω κ ι W : Type} [DecidableEq ι] (S : ω → κ → Spec) (r : ω → κ → Render) (ident : ω → κ → ι)
    (reseekable : Bool) (apply : W → ω → ω) : List (Item W κ) → ω → Option (κ × ι) → List Obs
  | [], _, _ => []
  | it :: rest, w, at_ =>
    let w' := applyAll apply it.writes w
    match specEnter S ident reseekable w' at_ it.entry with
    | none => [.failed "unspecified"]
    | some (k, rem) =>
      (Spec.observe rem :: (S w' k).run it.ops rem).map (Obs.render (r w' k)) ++
        specRunW S r ident reseekable apply rest w' (some (k, ident w' k))

/-! ### objects that are only ever re-opened: a family of `Reusable`s, one per world -/

/-- `U w` is the object while the world is `w` (same Go object, same state type); an `open` entry
    re-opens it, `Seek` after a write is not promised to re-read -/
def WObject.ofFamily {ω σ κ : Type} (U : ω → Reusable σ κ) : WObject ω σ κ Unit where
  M w := (U w).M
  reopen w := (U w).reopen
  rebase _ _ s := s
  ident _ _ := ()
  reseekable := false

/-! ### entitySetSymbolRuntime over a written world -/

/-- the bbolt cursor of the object now looks at the live bucket (if the object has one) -/
def setSymRebase (bucket : Option (List Bytes)) (s : SetSymCur) : SetSymCur :=
  { s with cursor := s.cursor.map fun b => { b with keys := bucket.getD b.keys } }

def setSymW {ω κ ι : Type} (rows : ω → κ → Option (List Bytes)) (ident : ω → κ → ι) : WObject ω SetSymCur κ ι where
  M _ := setSym
  reopen w k s := .ok (setSymReopen (setRowKeys (rows w k)) s)
  rebase w k s := setSymRebase (setRowKeys (rows w k)) s
  ident := ident
  reseekable := true

/-! ### the bolt cursor adapters over one bucket that is written key by key -/

def boltRebase (keys : List Bytes) (s : BoltCur) : BoltCur := { s with b := { s.b with keys := keys } }

/-- `ForwardBoltCursor` over the raw keys `keys w k` -/
def fwdW {ω κ ι : Type} (keys : ω → κ → List Bytes) (ident : ω → κ → ι) : WObject ω BoltCur κ ι where
  M _ := forwardBolt
  reopen w k _ := .ok (newForwardBoltCursor (keys w k))
  rebase w k s := boltRebase (keys w k) s
  ident := ident
  reseekable := true

def revW {ω κ ι : Type} (keys : ω → κ → List Bytes) (ident : ω → κ → ι) : WObject ω BoltCur κ ι where
  M _ := reverseBolt
  reopen w k _ := .ok (newReverseBoltCursor (keys w k))
  rebase w k s := boltRebase (keys w k) s
  ident := ident
  reseekable := true

/-- `TypedForwardBoltCursor` over the elements `elems w k` stored under the type byte `tag` -/
def tfwdW {ω κ ι : Type} (tag : UInt8) (elems : ω → κ → List Bytes) (ident : ω → κ → ι) : WObject ω BoltCur κ ι where
  M _ := typedForwardBolt tag
  reopen w k _ := .ok (newTypedForwardBoltCursor (tagged tag (elems w k)))
  rebase w k s := boltRebase (tagged tag (elems w k)) s
  ident := ident
  reseekable := true

def trevW {ω κ ι : Type} (tag : UInt8) (elems : ω → κ → List Bytes) (ident : ω → κ → ι) : WObject ω BoltCur κ ι where
  M _ := typedReverseBolt tag
  reopen w k _ := .ok (newTypedReverseBoltCursor (tagged tag (elems w k)))
  rebase w k s := boltRebase (tagged tag (elems w k)) s
  ident := ident
  reseekable := true

/-! ### the scanner around such an object: the sub-query cursor, and the id cursor of `IterateIds` -/

/-- `newCursorScanner` / `newFilteredCursor` around the object `U`; the filter and the child-store
    test (`cfg w`) read the world: `rowCursor.NextRow(id); filter.EvalBool(rowCursor)` is evaluated
    when the scanner reaches the row, on the data of that moment.  `Seek` = the wrapped `Seek` (which
    searches the live bucket), then `Next()`: every cached field of the scanner is overwritten. -/
def scanW {ω σ κ ι : Type} (U : WObject ω σ κ ι) (cfg : ω → ScanCfg) (fuel : Nat) : WObject ω (ScanState σ) κ ι where
  M w := scanMachine (U.M w) (cfg w) fuel
  reopen w k st := do
    let s' ← U.reopen w k st.cursor
    scanNext (U.M w) (cfg w) fuel { cursor := s', current := none, offset := 0, collected := 0 }
  rebase w k st := { st with cursor := U.rebase w k st.cursor }
  ident := U.ident
  reseekable := U.reseekable

/-- the id cursor `store.IterateIds(tx, filter)` = `newFilteredCursor` around the forward cursor of the entities
    bucket (whose ids are `ids w`); the entities bucket is never replaced, so `Seek` always re-reads; the
    filter's verdict (`(cfg w).filter id`) is that of the world in which the scanner reaches the row -/
def idCursorW {ω : Type} (ids : ω → List Bytes) (cfg : ω → ScanCfg) (fuel : Nat) : WObject ω (ScanState BoltCur) Unit Unit :=
  scanW (fwdW (fun w _ => ids w) (fun _ _ => ())) cfg fuel

/-- what the id cursor must show: the ids the filter accepts, in key order; `Seek v`: the accepted ids from the first id `≥ v` on -/
def idSpec (ids : List Bytes) (keep : Bytes → Bool) : Spec where
  list := ids.filter keep
  seek := some fun v _ => (Spec.seekIn .fwd ids v).filter keep
  seekS := none

/-- the world after the items' writes -/
def worldAfter {ω W κ : Type} (apply : W → ω → ω) (items : List (Item W κ)) (w : ω) : ω :=
  items.foldl (fun w it => applyAll apply it.writes w) w

end StorageModel.Cursor
