import StorageModel.Cursor.Write
/-
  C14 — the concrete world the correspondence harness writes: two stores (`things`, `others`), and the
  write paths of the library that change the sets a cursor walks.

  What each write does to the buckets (read off boltz/typed_bucket.go, link_collection.go, link_collection_rc.go,
  store_crud.go, query_symbols.go; confirmed against the real stores on every run of the check):

    update id tags others boss   `store.Update(entity, nil)`: every field is written again.  `SetStringList` →
                                 `EmptyBucket`: the `tags` bucket is DELETED AND RE-CREATED, then filled;
                                 `SetLinkedIds` → `SetLinks`: single keys added to / removed from the existing bucket
    setTags id tags              `store.Update(entity, {tags})`: only the `tags` bucket, deleted and re-created
    putTag / delTag id x         `SetListEntry` / `DeleteListEntry`: one key put into / deleted from the bucket
    mapTag id x y                `entitySetSymbolImpl.Map`: the key of `x` deleted, the key of `y` put (same bucket)
    addLink / removeLink id o    `LinkCollection.AddLinks` / `RemoveLinks`: one key
    rcAdd / rcDrop id o          `IncrementLinkCount` / `DecrementLinkCount` down to zero: one key; the bucket is
                                 created (`GetOrCreatePath`) if the thing never had one
    delete id                    `DeleteById`: the entity bucket with everything below it is gone
    create id tags               `Create`: a new entity bucket (new `tags` and `others` buckets, no `rcOthers` bucket)
    updateOther o tags name      `others.Update(entity, nil)`
  A write that names a thing that does not exist fails inside the library and changes nothing.

  `inc` / `gen` record which bucket OBJECT holds a set: a bbolt cursor opened on the bucket of an earlier
  incarnation (`inc`: the entity was deleted and created again) or generation (`gen`: `tags` was rewritten by an
  update) still points into the deleted bucket; `Seek` on it re-reads nothing.
-/
namespace StorageModel.Cursor
open StorageModel

structure WThing where
  id : Bytes
  tags : List Bytes
  others : List Bytes
  boss : Option Bytes
  /-- ref-counted links; `none`: never linked, no bucket -/
  rc : Option (List Bytes)
  inc : Nat := 0
  gen : Nat := 0

structure WOther where
  id : Bytes
  tags : List Bytes
  name : Option Bytes

structure World where
  things : List WThing
  others : List WOther
  clock : Nat := 0

inductive Write where
  | update (id : Bytes) (tags others : List Bytes) (boss : Option Bytes)
  | setTags (id : Bytes) (tags : List Bytes)
  | putTag (id x : Bytes)
  | delTag (id x : Bytes)
  | mapTag (id x : Bytes) (y : Option Bytes)
  | addLink (id o : Bytes)
  | removeLink (id o : Bytes)
  | rcAdd (id o : Bytes)
  | rcDrop (id o : Bytes)
  | delete (id : Bytes)
  | create (id : Bytes) (tags : List Bytes)
  | updateOther (o : Bytes) (tags : List Bytes) (name : Option Bytes)

namespace World

def find (w : World) (id : Bytes) : Option WThing := w.things.find? (fun t => t.id == id)

/-- change the thing `id`, if there is one -/
def modify (w : World) (id : Bytes) (f : WThing → WThing) : World :=
  { w with things := w.things.map fun t => if t.id == id then f t else t }

def setAdd (xs : List Bytes) (x : Bytes) : List Bytes := if xs.contains x then xs else xs ++ [x]

def setDel (xs : List Bytes) (x : Bytes) : List Bytes := xs.filter (fun y => !(y == x))

def applyWrite (wr : Write) (w0 : World) : World :=
  let w : World := { w0 with clock := w0.clock + 1 }
  match wr with
  | .update id tags others boss => w.modify id fun t => { t with tags := tags, others := others, boss := boss, gen := w.clock }
  | .setTags id tags => w.modify id fun t => { t with tags := tags, gen := w.clock }
  | .putTag id x => w.modify id fun t => { t with tags := setAdd t.tags x }
  | .delTag id x => w.modify id fun t => { t with tags := setDel t.tags x }
  | .mapTag id x y => w.modify id fun t =>
      if t.tags.contains x then
        { t with tags := match y with
            | some y => setAdd (setDel t.tags x) y
            | none => setDel t.tags x }
      else t
  | .addLink id o => w.modify id fun t => { t with others := setAdd t.others o }
  | .removeLink id o => w.modify id fun t => { t with others := setDel t.others o }
  | .rcAdd id o => w.modify id fun t => { t with rc := some (setAdd (t.rc.getD []) o) }
  | .rcDrop id o => w.modify id fun t => { t with rc := some (setDel (t.rc.getD []) o) }
  | .delete id => { w with things := w.things.filter fun t => !(t.id == id) }
  | .create id tags =>
      match w.find id with
      | some _ => w
      | none => { w with things := w.things ++ [{ id := id, tags := tags, others := [], boss := none, rc := none,
                                                   inc := w.clock, gen := w.clock }] }
  | .updateOther o tags name =>
      { w with others := w.others.map fun x => if x.id == o then { x with tags := tags, name := name } else x }

/-! the sets the cursors walk -/

def tagsOf (w : World) (id : Bytes) : Option (List Bytes) := (w.find id).map (·.tags)
def othersOf (w : World) (id : Bytes) : Option (List Bytes) := (w.find id).map (·.others)
def rcOf (w : World) (id : Bytes) : Option (List Bytes) := (w.find id).bind (·.rc)

/-- the ids of the things, as the entities bucket holds them -/
def ids (w : World) : List Bytes := dedupSort (w.things.map (·.id))

/-- which bucket object holds the set: incarnation of the entity, generation of the bucket, does it exist -/
abbrev Ident := Option (Nat × Nat × Bool)

def tagsIdent (w : World) (id : Bytes) : Ident := (w.find id).map fun t => (t.inc, t.gen, true)
def othersIdent (w : World) (id : Bytes) : Ident := (w.find id).map fun t => (t.inc, 0, true)
def rcIdent (w : World) (id : Bytes) : Ident := (w.find id).map fun t => (t.inc, 0, t.rc.isSome)

theorem tagsIdent_some (w0 w : World) (k : Bytes) (h : tagsIdent w0 k = tagsIdent w k) :
    (tagsOf w0 k).isSome = (tagsOf w k).isSome := by
  have := congrArg Option.isSome h
  simpa [tagsIdent, tagsOf] using this

theorem othersIdent_some (w0 w : World) (k : Bytes) (h : othersIdent w0 k = othersIdent w k) :
    (othersOf w0 k).isSome = (othersOf w k).isSome := by
  have := congrArg Option.isSome h
  simpa [othersIdent, othersOf] using this

theorem rcIdent_some (w0 w : World) (k : Bytes) (h : rcIdent w0 k = rcIdent w k) :
    (rcOf w0 k).isSome = (rcOf w k).isSome := by
  unfold rcIdent rcOf at *
  cases h0 : w0.find k <;> cases h1 : w.find k <;> simp_all

end World

end StorageModel.Cursor
