import StorageModel.Cursor.Kinds
import StorageModel.Cursor.BoltProofs
import StorageModel.Cursor.MemProofs
import StorageModel.Cursor.ScannerProofs
/-
  C14 — every described cursor implements its specification (by induction on the description).
-/
namespace StorageModel.Cursor
open StorageModel

theorem insertD_length_le (d : Dir) (x : Bytes) : ∀ (l : List Bytes), (insertD d x l).length ≤ l.length + 1
  | [] => by simp [insertD]
  | y :: t => by
    unfold insertD
    split
    · simp
    · split
      · have := insertD_length_le d x t; simp; omega
      · simp

theorem sortD_length_le (d : Dir) : ∀ (xs : List Bytes), (sortD d xs).length ≤ xs.length
  | [] => by simp [sortD]
  | x :: t => by
    have ih := sortD_length_le d t
    have := insertD_length_le d x (sortD d t)
    show (insertD d x (sortD d t)).length ≤ t.length + 1
    omega

namespace Desc

theorem spec_list (d : Desc) : d.spec.list = d.list := by cases d <;> rfl

theorem spec_of_isStd : ∀ {d : Desc}, d.isStd = true → d.spec = Spec.std d.dir d.list d.seekable := by
  intro d h
  cases d <;> first | rfl | simp [isStd] at h

theorem list_length_le : ∀ (d : Desc), d.list.length ≤ d.size
  | fwd xs | tfwd _ xs | setsym xs => sortD_length_le .fwd xs
  | rev xs | trev _ xs => by simp only [list, size, List.length_reverse]; exact sortD_length_le .fwd xs
  | setsymNone | empty => by simp [list, size]
  | slice _ vals => by simp [list, size]
  | tree d _ adds => sortD_length_le d adds
  | filt i keep => Nat.le_trans (List.length_filter_le _ _) (list_length_le i)
  | scan i _ _ => Nat.le_trans (List.length_filter_le _ _) (list_length_le i)
  | validIds i _ => Nat.le_trans (List.length_filter_le _ _) (list_length_le i)
  | union d a b => by
    have ha := list_length_le a
    have hb := list_length_le b
    have := sortD_length_le d (a.list ++ b.list)
    simp only [list, size, List.length_append] at this ⊢
    omega

theorem list_lt_fuel (d : Desc) : d.list.length < d.fuel := by
  have := list_length_le d
  unfold fuel; omega

theorem render_getD (d : Desc) (x : Bytes) : (d.render x).getD [] = x := by
  by_cases h : d.renderNil = true
  · cases x <;> simp [render, renderNilEmpty, h]
  · simp [render, h]

theorem render_of_false {d : Desc} (h : d.renderNil = false) : d.render = some := by
  unfold render; simp [h]

theorem faithful_render (d : Desc) : Faithful d.render := render_getD d

theorem render_nonempty (d : Desc) {x : Bytes} (hx : x ≠ []) : d.render x = some x := by
  unfold render renderNilEmpty
  split
  · cases x with
    | nil => exact absurd rfl hx
    | cons a t => rfl
  · rfl

theorem renderNil_union (d : Dir) (a b : Desc) :
    (union d a b).renderNil = if a.list.contains [] then a.renderNil else b.renderNil := rfl

/-- the union returns an element the way the operand it takes it from renders it -/
theorem render_union (d : Dir) (a b : Desc) : unionRender a.list a.render b.render = (union d a b).render := by
  funext x
  by_cases hx : x = []
  · subst hx
    unfold unionRender
    by_cases hm : ([] : Bytes) ∈ a.list
    · have hc : a.list.contains [] = true := List.contains_iff_mem.2 hm
      simp only [hm, if_true]
      unfold render
      rw [renderNil_union, hc]; rfl
    · have hc : a.list.contains [] = false := by
        cases h : a.list.contains [] with
        | false => rfl
        | true => exact absurd (List.contains_iff_mem.1 h) hm
      simp only [hm, if_false]
      unfold render
      rw [renderNil_union, hc]; rfl
  · rw [render_nonempty _ hx]
    unfold unionRender
    split <;> exact render_nonempty _ hx

theorem sorted : ∀ (d : Desc), d.WF → Sorted d.dir d.list
  | fwd xs, _ | tfwd _ xs, _ | setsym xs, _ => sorted_sortD
  | rev xs, _ | trev _ xs, _ => asc_reverse sorted_sortD
  | setsymNone, _ | empty, _ => by simp [list, Sorted]
  | slice _ _, h => h
  | tree _ _ _, _ => sorted_sortD
  | filt i _, h => sorted_filter _ (sorted i h)
  | scan i _ _, h => sorted_filter _ (sorted i h.1)
  | validIds i _, h => sorted_filter _ (sorted i h.1)
  | union _ _ _, _ => sorted_sortD

/-- **every cursor kind implements its specification** -/
theorem implements : ∀ (d : Desc), d.WF → d.open.Implements d.spec d.render
  | fwd xs, _ => ⟨RFwd _, _, rfl, forwardBolt_refines _, forwardBolt_open _⟩
  | rev xs, _ => ⟨RRev _, _, rfl, reverseBolt_refines sorted_sortD, reverseBolt_open _⟩
  | tfwd tag xs, _ => ⟨RFwdT tag _, _, rfl, typedForwardBolt_refines tag _, typedForwardBolt_open tag _⟩
  | trev tag xs, _ => ⟨RRevT tag _, _, rfl, typedReverseBolt_refines tag sorted_sortD, typedReverseBolt_open tag _⟩
  | setsym xs, _ => ⟨RSym _, _, rfl, setSym_refines _, setSym_open _⟩
  | setsymNone, _ => ⟨RSymNone, _, rfl, setSym_refines_nobucket, rfl, rfl⟩
  | empty, _ => emptyCursor_implements
  | slice _ vals, _ => sliceCursor_implements vals
  | tree d ne adds, _ => by
    have := treeSetCursor_implements d (if ne then renderNilEmpty else some) adds
    cases ne <;> exact this
  | filt i keep, h => by
    have hi := implements i h
    have := newFilteredCursor_implements hi (fun o => mem keep (o.getD [])) (list_lt_fuel' i)
    simp only [render_getD, spec_list] at this
    show (newFilteredCursor i.open (fun o => mem keep (o.getD [])) i.fuel).Implements
      (Spec.plain (i.list.filter (mem keep))) i.render
    exact this
  | union d a b, h => by
    obtain ⟨ha, hb, hda, hdb⟩ := h
    have ia := implements a ha
    have ib := implements b hb
    have hsa := sorted a ha
    have hsb := sorted b hb
    rw [hda] at hsa; rw [hdb] at hsb
    have := newUnionSetCursor_implements ia ib (faithful_render a) (faithful_render b) d
      (by rwa [spec_list]) (by rwa [spec_list])
    rw [merge_eq_sortD (by rwa [spec_list]) (by rwa [spec_list])] at this
    simp only [spec_list] at this
    rw [render_union d a b] at this
    show (newUnionSetCursor a.open b.open (d == .fwd)).Implements (Spec.plain (sortD d (a.list ++ b.list)))
      (union d a b).render
    exact this
  | scan i skip keep, h => by
    obtain ⟨hw, hsk, hrn⟩ := h
    have hi := implements i hw
    have hstd : i.isStd = true := by cases i <;> first | rfl | simp [renderNil] at hrn
    rw [spec_of_isStd hstd, hsk, render_of_false hrn] at hi
    have key := newScanCursor_implements (cfg := { skipRow := mem skip, filter := mem keep, targetOffset := 0, targetLimit := none })
      hi (sorted i hw) ⟨rfl, rfl⟩ (list_lt_fuel i)
    show (newScanCursor i.open { skipRow := mem skip, filter := mem keep, targetOffset := 0, targetLimit := none }
      i.fuel).Implements (Spec.std i.dir (i.list.filter (fun x => !mem skip x && mem keep x)) i.seekable) some
    rw [hsk]; exact key
  | validIds i present, h => by
    obtain ⟨hw, hstd⟩ := h
    have hi := implements i hw
    rw [spec_of_isStd hstd] at hi
    have := newValidIdsCursor_implements hi (sorted i hw) (mem present) (list_lt_fuel i)
    simp only [render_getD] at this
    show (newValidIdsCursor i.open (mem present) i.fuel).Implements
      (Spec.std i.dir (i.list.filter (mem present)) i.seekable) i.render
    exact this
where
  list_lt_fuel' (i : Desc) : i.spec.list.length < i.fuel := by rw [spec_list]; exact list_lt_fuel i

/-! ### IteratorMatchingAllOf / IteratorMatchingAnyOf -/

/-- entity ids are keys: one value list per id -/
def Table.Functional (t : Table) : Prop := ∀ x r r', (x, r) ∈ t → (x, r') ∈ t → r = r'

theorem mem_idsWith {t : Table} {role x : Bytes} : x ∈ idsWith t role ↔ ∃ r, (x, r) ∈ t ∧ role ∈ r := by
  simp only [idsWith, List.mem_map, List.mem_filter, List.contains_iff_mem]
  constructor
  · rintro ⟨⟨y, r⟩, ⟨hm, hr⟩, rfl⟩; exact ⟨r, hm, hr⟩
  · rintro ⟨r, hm, hr⟩; exact ⟨(x, r), ⟨hm, hr⟩, rfl⟩

theorem mem_hasAll {t : Table} {vs : List Bytes} {x : Bytes} :
    x ∈ hasAll t vs ↔ ∃ r, (x, r) ∈ t ∧ ∀ v ∈ vs, v ∈ r := by
  simp only [hasAll, List.mem_map, List.mem_filter, List.all_eq_true, List.contains_iff_mem]
  constructor
  · rintro ⟨⟨y, r⟩, ⟨hm, hr⟩, rfl⟩; exact ⟨r, hm, hr⟩
  · rintro ⟨r, hm, hr⟩; exact ⟨(x, r), ⟨hm, hr⟩, rfl⟩

theorem mem_hasAny {t : Table} {vs : List Bytes} {x : Bytes} :
    x ∈ hasAny t vs ↔ ∃ r, (x, r) ∈ t ∧ ∃ v ∈ vs, v ∈ r := by
  simp only [hasAny, List.mem_map, List.mem_filter, List.any_eq_true, List.contains_iff_mem]
  constructor
  · rintro ⟨⟨y, r⟩, ⟨hm, hr⟩, rfl⟩; exact ⟨r, hm, hr⟩
  · rintro ⟨r, hm, hr⟩; exact ⟨(x, r), ⟨hm, hr⟩, rfl⟩

theorem openValueCursor_wf (t : Table) (role : Bytes) (d : Dir) : (openValueCursor t role d).WF := by
  unfold openValueCursor; split
  · trivial
  · cases d <;> trivial

theorem openValueCursor_list (t : Table) (role : Bytes) (d : Dir) :
    (openValueCursor t role d).list = sortD d (idsWith t role) := by
  unfold openValueCursor; split
  · next h => simp only [List.isEmpty_iff] at h; simp [list, h, sortD]
  · cases d
    · rfl
    · exact (sortD_rev _).symm

theorem mem_true {l : List Bytes} {x : Bytes} : mem l x = true ↔ x ∈ l := by
  simp [mem, List.contains_iff_mem]

theorem allOf_wf (d : Dir) (t : Table) : ∀ (values : List Bytes), (allOf d t values).WF
  | [] => trivial
  | [v] => openValueCursor_wf t v d
  | v :: _ :: _ => openValueCursor_wf t v d

theorem anyOf_wf (d : Dir) (t : Table) : ∀ (values : List Bytes), (anyOf d t values).WF
  | [] => trivial
  | [v] => openValueCursor_wf t v d
  | _ :: _ :: _ => trivial

theorem hasAll_singleton (t : Table) (v x : Bytes) : x ∈ hasAll t [v] ↔ x ∈ idsWith t v := by
  rw [mem_hasAll, mem_idsWith]; simp

theorem hasAny_singleton (t : Table) (v x : Bytes) : x ∈ hasAny t [v] ↔ x ∈ idsWith t v := by
  rw [mem_hasAny, mem_idsWith]; simp

/-- `IteratorMatchingAllOf` enumerates exactly the ids holding all the values, in order -/
theorem allOf_list (d : Dir) {t : Table} (ht : Table.Functional t) : ∀ (values : List Bytes), values ≠ [] →
    (allOf d t values).list = sortD d (hasAll t values)
  | [], h => absurd rfl h
  | [v], _ => by
    show (openValueCursor t v d).list = _
    rw [openValueCursor_list]
    exact sorted_ext sorted_sortD sorted_sortD (fun x => by rw [mem_sortD, mem_sortD, hasAll_singleton])
  | v :: w :: rest, _ => by
    show (openValueCursor t v d).list.filter (mem (hasAll t (w :: rest))) = _
    rw [openValueCursor_list]
    refine sorted_ext (sorted_filter _ sorted_sortD) sorted_sortD (fun x => ?_)
    rw [List.mem_filter, mem_sortD, mem_sortD, mem_true, mem_idsWith, mem_hasAll, mem_hasAll]
    constructor
    · rintro ⟨⟨r, hm, hv⟩, r', hm', hall⟩
      have := ht x r r' hm hm'; subst this
      exact ⟨r, hm, fun u hu => by
        rcases List.mem_cons.1 hu with e | hu
        · subst e; exact hv
        · exact hall u hu⟩
    · rintro ⟨r, hm, hall⟩
      exact ⟨⟨r, hm, hall v (List.mem_cons_self ..)⟩, r, hm, fun u hu => hall u (List.mem_cons_of_mem _ hu)⟩

/-- `IteratorMatchingAnyOf` enumerates exactly the ids holding at least one of the values, once each, in order -/
theorem anyOf_list (d : Dir) (t : Table) : ∀ (values : List Bytes), values ≠ [] →
    (anyOf d t values).list = sortD d (hasAny t values)
  | [], h => absurd rfl h
  | [v], _ => by
    show (openValueCursor t v d).list = _
    rw [openValueCursor_list]
    exact sorted_ext sorted_sortD sorted_sortD (fun x => by rw [mem_sortD, mem_sortD, hasAny_singleton])
  | v :: w :: rest, _ => by
    show sortD d _ = _
    refine sorted_ext sorted_sortD sorted_sortD (fun x => ?_)
    rw [mem_sortD, mem_sortD, mem_hasAny, List.mem_flatMap]
    constructor
    · rintro ⟨role, hrole, hx⟩
      obtain ⟨r, hm, hr⟩ := mem_idsWith.1 (mem_sortD.1 hx)
      exact ⟨r, hm, role, hrole, hr⟩
    · rintro ⟨r, hm, role, hrole, hr⟩
      exact ⟨role, hrole, mem_sortD.2 (mem_idsWith.2 ⟨r, hm, hr⟩)⟩

end Desc
end StorageModel.Cursor
