import StorageModel.Cursor.Machine
/-
  C14 — the bbolt cursor (modelled, not verified) and the adapters of
  boltz/query_bolt_cursors.go and boltz/query_symbols.go (entitySetSymbolRuntime), literally.

  bbolt model.  A bucket is its key list (ascending, no duplicates, no empty key); a
  `*bbolt.Cursor` is an index into it.  The index conventions are those of bbolt 1.4
  (cursor.go) as far as a caller can observe them:
    First        index 0
    Last         index n-1
    Next         if index < n-1 then index+1 and that key, else stay and return nil
    Prev         if index > 0 then index-1 and that key, else go to First and return nil
    Seek v       index = number of keys < v (binary search for the first key ≥ v); if that is
                 past the last key, `next()` is called, returns nil and leaves the index at n
                 — so a following Prev lands on the last key.
  The correspondence harness drives these against the real bbolt on every run.
-/
namespace StorageModel.Cursor
open StorageModel

structure Bolt where
  keys : List Bytes
  idx : Nat
  deriving Repr

namespace Bolt

def first (b : Bolt) : Bolt × Option Bytes := ({ b with idx := 0 }, b.keys[0]?)

def last (b : Bolt) : Bolt × Option Bytes :=
  ({ b with idx := b.keys.length - 1 }, b.keys[b.keys.length - 1]?)

def next (b : Bolt) : Bolt × Option Bytes :=
  if b.idx + 1 < b.keys.length then ({ b with idx := b.idx + 1 }, b.keys[b.idx + 1]?)
  else (b, none)

def prev (b : Bolt) : Bolt × Option Bytes :=
  if b.idx > 0 then ({ b with idx := b.idx - 1 }, b.keys[b.idx - 1]?)
  else ({ b with idx := 0 }, none)

/-- first index whose key is ≥ v -/
def lowerBound (keys : List Bytes) (v : Bytes) : Nat := (keys.takeWhile (fun k => decide (k < v))).length

def seek (b : Bolt) (v : Bytes) : Bolt × Option Bytes :=
  let i := lowerBound b.keys v
  ({ b with idx := i }, b.keys[i]?)

end Bolt

/-- `BaseBoltCursor`: the bbolt cursor and the current (possibly stripped) key; nil = exhausted -/
structure BoltCur where
  b : Bolt
  key : Option Bytes
  deriving Repr

/-- Go `bytes.Equal(a, b)` where `b` may be nil (nil and empty are equal) -/
def bytesEqual (a : Bytes) (b : Option Bytes) : Bool := a == b.getD []

/-! ### ForwardBoltCursor / ReverseBoltCursor -/

def newForwardBoltCursor (keys : List Bytes) : BoltCur :=
  let (b, k) := Bolt.first { keys := keys, idx := 0 }
  { b := b, key := k }

def forwardBolt : Machine BoltCur where
  next s := let (b, k) := s.b.next; .ok { b := b, key := k }
  seek := some fun v s => let (b, k) := s.b.seek v; .ok { b := b, key := k }
  seekS := none
  valid s := s.key.isSome
  current s := .ok s.key

def newReverseBoltCursor (keys : List Bytes) : BoltCur :=
  let (b, k) := Bolt.last { keys := keys, idx := 0 }
  { b := b, key := k }

def reverseBolt : Machine BoltCur where
  next s := let (b, k) := s.b.prev; .ok { b := b, key := k }
  seek := some fun v s =>
    let (b, k) := s.b.seek v
    if !bytesEqual v k then
      let (b', k') := b.prev
      .ok { b := b', key := k' }
    else .ok { b := b, key := k }
  seekS := none
  valid s := s.key.isSome
  current s := .ok s.key

/-! ### typed cursors -/

/-- `typedCursorKey`: strip the type byte; nil stays nil -/
def typedCursorKey : Option Bytes → Option Bytes
  | none => none
  | some [] => none
  | some (_ :: t) => some t

/-- `PrependFieldType(fieldType, val)` -/
def prependFieldType (tag : UInt8) (v : Bytes) : Bytes := tag :: v

def newTypedForwardBoltCursor (keys : List Bytes) : BoltCur :=
  let (b, k) := Bolt.first { keys := keys, idx := 0 }
  { b := b, key := typedCursorKey k }

def typedForwardBolt (tag : UInt8) : Machine BoltCur where
  next s := let (b, k) := s.b.next; .ok { b := b, key := typedCursorKey k }
  seek := some fun v s =>
    let searchVal := prependFieldType tag v
    let (b, k) := s.b.seek searchVal
    .ok { b := b, key := typedCursorKey k }
  seekS := none
  valid s := s.key.isSome
  current s := .ok s.key

def newTypedReverseBoltCursor (keys : List Bytes) : BoltCur :=
  let (b, k) := Bolt.last { keys := keys, idx := 0 }
  { b := b, key := typedCursorKey k }

def typedReverseBolt (tag : UInt8) : Machine BoltCur where
  next s := let (b, k) := s.b.prev; .ok { b := b, key := typedCursorKey k }
  seek := some fun v s =>
    let searchVal := prependFieldType tag v
    let (b, k) := s.b.seek searchVal
    if !bytesEqual searchVal k then
      -- f.Next()
      let (b', k') := b.prev
      .ok { b := b', key := typedCursorKey k' }
    else .ok { b := b, key := typedCursorKey k }
  seekS := none
  valid s := s.key.isSome
  current s := .ok s.key

/-! ### entitySetSymbolRuntime (boltz/query_symbols.go) -/

def typeString : UInt8 := 5

/-- `GetTypeAndValue(bytes)`'s value: nil for nil/empty input **and for a key holding only
    the type byte** (empty ≡ nil convention of the scalar field codec) -/
def getTypeAndValue_value : Option Bytes → Option Bytes
  | none => none
  | some [] => none
  | some [_] => none
  | some (_ :: t) => some t

/-- `cursor` is nil when the entity or its list bucket does not exist -/
structure SetSymCur where
  cursor : Option Bolt
  value : Option Bytes
  deriving Repr

/-- `OpenCursor(tx, rowId)`; `bucket = none` when `openBoltCursor` returns nil -/
def setSymOpen (bucket : Option (List Bytes)) : SetSymCur :=
  match bucket with
  | some keys => let (b, k) := Bolt.first { keys := keys, idx := 0 }; { cursor := some b, value := k }
  | none => { cursor := none, value := none }

def setSym : Machine SetSymCur where
  next s := match s.cursor with
    | some b => let (b', k) := b.next; .ok { cursor := some b', value := k }
    | none => .ok s
  seek := some fun v s => match s.cursor with
    | some b => let (b', k) := b.seek v; .ok { cursor := some b', value := k }
    | none => .ok s
  seekS := some fun v s => match s.cursor with
    | some b => let (b', k) := b.seek (prependFieldType typeString v); .ok { cursor := some b', value := k }
    | none => .ok s
  valid s := s.value.isSome
  current s := .ok (getTypeAndValue_value s.value)

/-- the keys of a typed list bucket holding the elements `E` -/
def tagged (tag : UInt8) (E : List Bytes) : List Bytes := E.map (prependFieldType tag)

/-- the specification of the set-symbol cursor over the elements `E` (ascending):
    `SeekToString v` lands on the first element ≥ v; the raw `Seek v` compares `v` with the
    *stored* keys (type byte included), i.e. lands on the first element `e` with `tag :: e ≥ v` -/
def setSymSpec (E : List Bytes) : Spec where
  list := E
  seek := some fun v _ => E.dropWhile (fun e => decide (prependFieldType typeString e < v))
  seekS := some fun v _ => Spec.seekIn .fwd E v

end StorageModel.Cursor
