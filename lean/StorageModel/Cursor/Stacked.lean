import StorageModel.Cursor.Bolt
import StorageModel.Cursor.Compose
/-
  C14 — stackedCursor (boltz/query_symbols.go): the cursor of a composite set symbol such as
  `others.tags`.  It walks a chain of path elements depth first; every path element iterates raw
  (typed) keys: an fkSetQueryPath the keys of a list bucket, an fkQueryPath the single typed value
  of a scalar field.  It is not a set cursor in the sense of C14 (an element reachable through two
  parents is produced twice, the order is that of the walk); its specification is the depth-first
  concatenation `expand`.
-/
namespace StorageModel.Cursor
open StorageModel

/-- a link of the chain: given the row key (value part of the parent's key; nil possible), the raw
    keys its query path element yields (`newQueryPath` + repeated `Next()`) -/
abbrev Level := Option Bytes → List Bytes

/-- `queryPathElem.Next()`: the next key or nil -/
def popKey : List Bytes → Option Bytes × List Bytes
  | [] => (none, [])
  | k :: t => (some k, t)

/-- `_, rowKey := GetTypeAndValue(key)` -/
def rowKeyOf (k : Bytes) : Option Bytes := getTypeAndValue_value (some k)

structure StackedCur where
  /-- the open path elements (what each still has to yield), deepest level first -/
  stack : List (List Bytes)
  key : Option Bytes
  deriving Repr

/-- `calculateNextCursorPosition(stackCursor, stackElem, key)`; `stack.length - 1` is `stackElem.Index()` -/
def calcNext (chain : List Level) : Nat → List (List Bytes) → Option Bytes → Outcome StackedCur
  | 0, _, _ => .err "fuel"
  | fuel + 1, stack, none =>                          -- end of this level of cursor
    match stack with
    | _ :: parent :: rest =>                          -- back up the stack, advance that cursor
      let (k, parent') := popKey parent
      calcNext chain fuel (parent' :: rest) k
    | _ => .ok { stack := stack, key := none }        -- end of total cursor
  | fuel + 1, stack, some k =>
    if stack.length = chain.length then .ok { stack := stack, key := some k }   -- top of the stack: a value
    else match chain[stack.length]? with
      | some lvl =>                                   -- hop up the stack
        let (k', it) := popKey (lvl (rowKeyOf k))
        calcNext chain fuel (it :: stack) k'
      | none => .panic

def stackedMachine (chain : List Level) (fuel : Nat) : Machine StackedCur where
  next c :=
    if c.key.isSome then                              -- if cursor.IsValid()
      match c.stack with
      | top :: rest =>
        let (k, top') := popKey top
        calcNext chain fuel (top' :: rest) k
      | [] => .panic
    else .ok c
  seek := none
  seekS := none
  valid c := c.key.isSome
  current c := .ok (match c.key with | some k => rowKeyOf k | none => none)

/-- `compositeEntitySetSymbol.OpenCursor(tx, rowId)` -/
def stackedOpen (chain : List Level) (rowId : Option Bytes) (fuel : Nat) : AnyCursor where
  σ := StackedCur
  M := stackedMachine chain fuel
  init :=
    match chain with
    | [] => .panic                                     -- symbol.chain[0]
    | l0 :: _ =>
      let (k, it) := popKey (l0 rowId)
      calcNext chain fuel [it] k

/-- specification: the raw keys below one key, depth first -/
def expandBelow : List Level → Bytes → List Bytes
  | [], k => [k]
  | l :: ls, k => (l (rowKeyOf k)).flatMap (expandBelow ls)

def stackedKeys (chain : List Level) (rowId : Option Bytes) : List Bytes :=
  match chain with
  | [] => []
  | l0 :: ls => (l0 rowId).flatMap (expandBelow ls)

/-- number of loop iterations a subtree can cost -/
def weightBelow : List Level → Bytes → Nat
  | [], _ => 2
  | l :: ls, k => 2 + ((l (rowKeyOf k)).map (weightBelow ls)).sum

def stackedFuel (chain : List Level) (rowId : Option Bytes) : Nat :=
  match chain with
  | [] => 1
  | l0 :: ls => ((l0 rowId).map (weightBelow ls)).sum + 3

end StorageModel.Cursor
