import StorageModel.Cursor.Bolt
import StorageModel.Cursor.Mem
import StorageModel.Cursor.Scanner
/-
  C14 — descriptions of the cursors the library hands out (`Desc`), the model that opens one
  (`Desc.open`: the literal adapters stacked on the bbolt model) and its specification
  (`Desc.spec`: the underlying set as a list in key order, and where a seek must land).

  A bolt bucket filled with the keys `xs` is the ascending duplicate-free list `dedupSort xs`
  (bbolt: modelled).
-/
namespace StorageModel.Cursor
open StorageModel

inductive Desc where
  /-- `ForwardBoltCursor` over a bucket with keys `xs` (TypedBucket.OpenSeekableCursor / OpenCursor(…, true),
      setIndex.OpenKeyCursor(…, true), NewForwardBoltCursor) -/
  | fwd (xs : List Bytes)
  /-- `ReverseBoltCursor` (OpenCursor(…, false), OpenKeyCursor(…, false), NewReverseBoltCursor) -/
  | rev (xs : List Bytes)
  /-- `TypedForwardBoltCursor` over a list bucket holding the elements `xs` under type byte `tag`
      (IterateStringList, OpenTypedCursor, setIndex.OpenValueCursor, GetRelatedEntitiesCursor, IterateLinks) -/
  | tfwd (tag : UInt8) (xs : List Bytes)
  | trev (tag : UInt8) (xs : List Bytes)
  /-- `entitySetSymbolRuntime.OpenCursor` over an existing list bucket / a missing one -/
  | setsym (xs : List Bytes)
  | setsymNone
  | empty
  /-- `sliceSetCursor{values}` (unexported; model and theorem only) -/
  | slice (d : Dir) (vals : List Bytes)
  /-- `NewTreeSet(d = fwd)`, `Add` each of `adds` in order, `ToCursor()`; `nilEmpty`: the empty element was added as nil -/
  | tree (d : Dir) (nilEmpty : Bool) (adds : List Bytes)
  /-- `NewFilteredCursor(inner, func(v) { v ∈ keep })` -/
  | filt (inner : Desc) (keep : List Bytes)
  /-- `NewUnionSetCursor(a, b, d = fwd)` -/
  | union (d : Dir) (a b : Desc)
  /-- `newFilteredCursor(tx, store, inner, filter)` without paging (IterateIds): rows in `skip` fail the
      child-store presence test, rows in `keep` satisfy the filter -/
  | scan (inner : Desc) (skip keep : List Bytes)
  /-- `ValidIdsCursors{wrapped: inner}` as built by IterateValidIds; `present`: ids with extended data -/
  | validIds (inner : Desc) (present : List Bytes)
  deriving Repr

namespace Desc

def dir : Desc → Dir
  | fwd _ | tfwd .. | setsym _ | setsymNone | empty => .fwd
  | rev _ | trev .. => .rev
  | slice d _ | tree d .. | union d .. => d
  | filt i _ | scan i .. | validIds i _ => i.dir

/-- number of stored elements: bounds every loop of the model -/
def size : Desc → Nat
  | fwd xs | rev xs | tfwd _ xs | trev _ xs | setsym xs | slice _ xs | tree _ _ xs => xs.length
  | setsymNone | empty => 0
  | filt i _ | scan i .. | validIds i _ => i.size
  | union _ a b => a.size + b.size

def fuel (d : Desc) : Nat := d.size + 2

def mem (l : List Bytes) (x : Bytes) : Bool := l.contains x

/-- the list the cursor must enumerate -/
def list : Desc → List Bytes
  | fwd xs | tfwd _ xs | setsym xs => dedupSort xs
  | rev xs | trev _ xs => (dedupSort xs).reverse
  | setsymNone | empty => []
  | slice _ vals => vals
  | tree d _ adds => sortD d adds
  | filt i keep => i.list.filter (mem keep)
  | union d a b => sortD d (a.list ++ b.list)
  | scan i skip keep => i.list.filter (fun x => !mem skip x && mem keep x)
  | validIds i present => i.list.filter (mem present)

/-- does `Current()` return nil for the empty element -/
def renderNil : Desc → Bool
  | setsym _ | setsymNone => true
  | tree _ ne _ => ne
  | filt i _ | validIds i _ => i.renderNil
  | union _ a b => if a.list.contains [] then a.renderNil else b.renderNil
  | _ => false

def render (d : Desc) : Render := if d.renderNil then renderNilEmpty else some

/-- the specification has the standard form (all kinds except the set-symbol cursor, whose raw
    `Seek` compares against stored keys) -/
def isStd : Desc → Bool
  | setsym _ | setsymNone => false
  | _ => true

/-- does the Go type have a `Seek` method that the model covers -/
def seekable : Desc → Bool
  | fwd _ | rev _ | tfwd .. | trev .. | setsym _ | setsymNone | empty => true
  | scan i .. => i.seekable
  | validIds i _ => i.seekable
  | _ => false

def spec : Desc → Spec
  | setsym xs => setSymSpec (dedupSort xs)
  | setsymNone => setSymSpec []
  | d => Spec.std d.dir d.list d.seekable

/-- the model: the literal adapters, stacked -/
def «open» : Desc → AnyCursor
  | fwd xs => { σ := BoltCur, M := forwardBolt, init := .ok (newForwardBoltCursor (dedupSort xs)) }
  | rev xs => { σ := BoltCur, M := reverseBolt, init := .ok (newReverseBoltCursor (dedupSort xs)) }
  | tfwd tag xs => { σ := BoltCur, M := typedForwardBolt tag,
                     init := .ok (newTypedForwardBoltCursor (tagged tag (dedupSort xs))) }
  | trev tag xs => { σ := BoltCur, M := typedReverseBolt tag,
                     init := .ok (newTypedReverseBoltCursor (tagged tag (dedupSort xs))) }
  | setsym xs => { σ := SetSymCur, M := setSym, init := .ok (setSymOpen (some (tagged typeString (dedupSort xs)))) }
  | setsymNone => { σ := SetSymCur, M := setSym, init := .ok (setSymOpen none) }
  | empty => emptyCursor
  | slice _ vals => sliceCursor vals
  | tree d ne adds => treeSetCursor d (if ne then renderNilEmpty else some) adds
  | filt i keep => newFilteredCursor i.open (fun o => mem keep (o.getD [])) i.fuel
  | union d a b => newUnionSetCursor a.open b.open (d == .fwd)
  | scan i skip keep =>
    newScanCursor i.open { skipRow := mem skip, filter := mem keep, targetOffset := 0, targetLimit := none } i.fuel
  | validIds i present => newValidIdsCursor i.open (mem present) i.fuel

/-- side conditions under which the description is one the library can produce and the
    theorems apply -/
def WF : Desc → Prop
  | slice d vals => Sorted d vals
  | filt i _ => i.WF
  | union d a b => a.WF ∧ b.WF ∧ a.dir = d ∧ b.dir = d
  | scan i .. => i.WF ∧ i.seekable = true ∧ i.renderNil = false
  | validIds i _ => i.WF ∧ i.isStd = true
  | _ => True

/-! ### IteratorMatchingAllOf / IteratorMatchingAnyOf (boltz/store_crud.go)

  The set index is represented by the table it indexes: for every entity id its list of
  values (roles).  `setIndex` keeps, for each value, a bucket with the typed ids of the entities
  holding it (that the index mirrors the entities is C03); a value nobody holds has no bucket. -/

abbrev Table := List (Bytes × List Bytes)

def idsWith (t : Table) (role : Bytes) : List Bytes := (t.filter (fun e => e.2.contains role)).map (·.1)

/-- `setIndex.OpenValueCursor(tx, key, forward)` -/
def openValueCursor (t : Table) (role : Bytes) (d : Dir) : Desc :=
  if (idsWith t role).isEmpty then .empty          -- indexBucket == nil → ast.OpenEmptyCursor
  else match d with
    | .fwd => .tfwd typeString (idsWith t role)
    | .rev => .trev typeString (idsWith t role)

/-- the ids whose value list contains every one of `values` (`stringz.ContainsAll`) -/
def hasAll (t : Table) (values : List Bytes) : List Bytes :=
  (t.filter (fun e => values.all e.2.contains)).map (·.1)

def hasAny (t : Table) (values : List Bytes) : List Bytes :=
  (t.filter (fun e => values.any e.2.contains)).map (·.1)

/-- `IteratorMatchingAllOf(readIndex, values)(tx, d)` -/
def allOf (d : Dir) (t : Table) : List Bytes → Desc
  | [] => .empty
  | [v] => openValueCursor t v d
  | v :: rest => .filt (openValueCursor t v d) (hasAll t rest)

/-- `IteratorMatchingAnyOf(readIndex, values)(tx, d)`: with two or more values a `TreeSet` is
    filled from `readIndex.Read`, which passes every id through `GetTypeAndValue` -/
def anyOf (d : Dir) (t : Table) : List Bytes → Desc
  | [] => .empty
  | [v] => openValueCursor t v d
  | values => .tree d true (values.flatMap fun role => dedupSort (idsWith t role))

end Desc
end StorageModel.Cursor
