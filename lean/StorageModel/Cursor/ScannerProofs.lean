import StorageModel.Cursor.Scanner
import StorageModel.Cursor.MemProofs
/-
  C14 — ValidIdsCursors and the scanner-as-cursor refine the list specification.
-/
namespace StorageModel.Cursor
open StorageModel

theorem sorted_filter {d : Dir} {L : List Bytes} (q : Bytes → Bool) (h : Sorted d L) : Sorted d (L.filter q) :=
  List.Pairwise.sublist List.filter_sublist h

/-- seeking commutes with filtering on a sorted list -/
theorem seekIn_filter {d : Dir} {L : List Bytes} (hL : Sorted d L) (q : Bytes → Bool) (v : Bytes) :
    (Spec.seekIn d L v).filter q = Spec.seekIn d (L.filter q) v := by
  unfold Spec.seekIn
  rw [dropWhile_eq_filter v hL, dropWhile_eq_filter v (sorted_filter q hL), List.filter_filter, List.filter_filter]
  congr 1; funext x; exact Bool.and_comm ..

theorem seekIn_length_le (d : Dir) (L : List Bytes) (v : Bytes) : (Spec.seekIn d L v).length ≤ L.length := by
  unfold Spec.seekIn
  exact (List.dropWhile_sublist _).length_le

section wrappers
variable {σ : Type} {M : Machine σ} {S : Spec} {r : Render} {R : σ → List Bytes → Prop}

/-! ### ValidIdsCursors -/

theorem validSkip_spec (h : Refines M S r R) (present : Bytes → Bool) :
    ∀ (fuel : Nat) {s : σ} {rem : List Bytes}, R s rem → rem.length < fuel →
      ∃ s', validSkip M present fuel s = .ok s' ∧ R s' (skipTo (fun x => present ((r x).getD [])) rem)
  | 0, _, _, _, hf => by omega
  | fuel + 1, s, rem, hR, hf => by
    unfold validSkip
    rw [h.valid hR]
    cases rem with
    | nil => exact ⟨s, rfl, hR⟩
    | cons x t =>
      simp only [List.isEmpty_cons, Bool.not_false, if_true, h.current hR, Outcome.ok_bind]
      by_cases hp : present ((r x).getD []) = true
      · simp only [hp, Bool.not_true, Bool.false_eq_true, if_false]
        exact ⟨s, rfl, by rw [skipTo_of_head (q := fun x => present ((r x).getD [])) hp]; exact hR⟩
      · have hp' : present ((r x).getD []) = false := by simpa using hp
        obtain ⟨s1, hs1, hR1⟩ := h.next hR
        obtain ⟨s', hs', hR'⟩ := validSkip_spec h present fuel hR1 (by simpa using hf)
        simp only [hp', Bool.not_false, if_true, hs1, Outcome.ok_bind]
        refine ⟨s', hs', ?_⟩
        rw [skipTo_cons_not (q := fun x => present ((r x).getD [])) hp']
        simpa using hR'

/-- the wrapped cursor stands on a present id (or is exhausted) -/
def RValid (R : σ → List Bytes → Prop) (q : Bytes → Bool) (n : Nat) (s : σ) (remF : List Bytes) : Prop :=
  ∃ rem, R s rem ∧ remF = rem.filter q ∧ rem.length ≤ n ∧ (∀ x t, rem = x :: t → q x = true)

theorem rvalid_of_skip {q : Bytes → Bool} {n : Nat} {s : σ} {rem : List Bytes}
    (hR : R s (skipTo q rem)) (hlen : rem.length ≤ n) : RValid R q n s (rem.filter q) :=
  ⟨skipTo q rem, hR, (filter_skipTo q rem).symm, Nat.le_trans (skipTo_length_le q rem) hlen,
    fun _ _ hx => skipTo_head hx⟩

theorem validIds_refines {d : Dir} {L : List Bytes} {sk : Bool} (h : Refines M (Spec.std d L sk) r R)
    (hL : Sorted d L) (present : Bytes → Bool) {fuel : Nat} (hf : L.length < fuel) :
    Refines (validIdsMachine M present fuel) (Spec.std d (L.filter (fun x => present ((r x).getD []))) sk) r
      (RValid R (fun x => present ((r x).getD [])) L.length) where
  valid := by
    intro s remF ⟨rem, hRs, hrem, _, hhead⟩
    subst hrem
    simp only [validIdsMachine, h.valid hRs]
    cases rem with
    | nil => rfl
    | cons x t => simp [List.filter, hhead x t rfl]
  current := by
    intro s x t ⟨rem, hRs, hrem, _, hhead⟩
    cases rem with
    | nil => simp at hrem
    | cons y t' =>
      simp only [List.filter, hhead y t' rfl, List.cons.injEq] at hrem
      simp only [validIdsMachine, h.current hRs, hrem.1]
  next := by
    intro s remF ⟨rem, hRs, hrem, hlen, hhead⟩
    obtain ⟨s1, hs1, hR1⟩ := h.next hRs
    have hlen1 : rem.tail.length ≤ L.length := by
      have : rem.tail.length ≤ rem.length := by simp
      omega
    obtain ⟨s', hs', hR'⟩ := validSkip_spec h present fuel hR1 (by omega)
    refine ⟨s', by simp [validIdsMachine, hs1, hs'], ?_⟩
    have := rvalid_of_skip (n := L.length) hR' hlen1
    subst hrem
    cases rem with
    | nil => exact this
    | cons x t => simpa [List.filter, hhead x t rfl] using this
  seek := by
    have hs := h.seek
    cases sk with
    | false =>
      cases hM : M.seek with
      | none => simp [validIdsMachine, hM, Spec.std]
      | some f => simp [hM, Spec.std] at hs
    | true =>
      cases hM : M.seek with
      | none => simp [hM, Spec.std] at hs
      | some f =>
        simp only [hM, Spec.std, if_true] at hs
        show match (validIdsMachine M present fuel).seek, (Spec.std d _ true).seek with
          | some f, some g => _ | none, none => True | _, _ => False
        simp only [validIdsMachine, hM, Option.map_some, Spec.std, if_true]
        intro v s remF ⟨rem, hRs, _, _, _⟩
        obtain ⟨s1, hs1, hR1⟩ := hs v hRs
        have hlen1 := seekIn_length_le d L v
        obtain ⟨s', hs', hR'⟩ := validSkip_spec h present fuel hR1 (by omega)
        refine ⟨s', by simp [hs1, hs'], ?_⟩
        have := rvalid_of_skip (n := L.length) hR' hlen1
        rwa [seekIn_filter hL] at this
  seekS := by
    have hs := h.seekS
    cases hM : M.seekS with
    | none => simp [validIdsMachine, Spec.std]
    | some f => simp [hM, Spec.std] at hs

end wrappers

/-- `IterateValidIds` on an extended store: exactly the ids with extended data, seekable -/
theorem newValidIdsCursor_implements {c : AnyCursor} {d : Dir} {L : List Bytes} {sk : Bool} {r : Render}
    (h : c.Implements (Spec.std d L sk) r) (hL : Sorted d L) (present : Bytes → Bool) {fuel : Nat}
    (hf : L.length < fuel) :
    (newValidIdsCursor c present fuel).Implements
      (Spec.std d (L.filter (fun x => present ((r x).getD []))) sk) r := by
  obtain ⟨R, s, hi, href, hR⟩ := h
  have hR : R s L := hR
  have hrefV := validIds_refines href hL present hf
  unfold AnyCursor.Implements newValidIdsCursor
  simp only [hi, Outcome.ok_bind, href.valid hR]
  cases L with
  | nil => exact ⟨_, s, by simp, hrefV, [], hR, rfl, by simp, by simp⟩
  | cons x t =>
    simp only [List.isEmpty_cons, Bool.not_false, if_true, href.current hR, Outcome.ok_bind]
    by_cases hp : present ((r x).getD []) = true
    · refine ⟨_, s, by simp [hp], hrefV, x :: t, hR, by simp [Spec.std], by simp, ?_⟩
      intro y t' hy; injection hy with h1 _; subst h1; exact hp
    · have hp' : present ((r x).getD []) = false := by simpa using hp
      obtain ⟨s1, hs1, hR1⟩ := href.next hR
      obtain ⟨s', hs', hR'⟩ := validSkip_spec href present fuel hR1 (by simp at hf ⊢; omega)
      refine ⟨_, s', by simp [hp', validIdsMachine, hs1, hs'], hrefV, ?_⟩
      have := rvalid_of_skip (R := R) (n := (x :: t).length) hR' (by simp)
      simpa [Spec.std, List.filter, hp'] using this

/-! ### the scanner used as a cursor (no paging: IterateIds) -/

def ScanCfg.Unpaged (cfg : ScanCfg) : Prop := cfg.targetOffset = 0 ∧ cfg.targetLimit = none

section scan
variable {σ : Type} {M : Machine σ} {S : Spec} {R : σ → List Bytes → Prop}

/-- one `Next()` of the scanner: it takes the next accepted row of the wrapped cursor's
    remainder and leaves the wrapped cursor just behind it -/
theorem scanNext_spec (h : Refines M S some R) {cfg : ScanCfg} (hcfg : cfg.Unpaged) :
    ∀ (fuel : Nat) {s : σ} {rem : List Bytes} {cur : Option Bytes} {off col : Nat}, R s rem → rem.length < fuel →
      ∃ st', scanNext M cfg fuel { cursor := s, current := cur, offset := off, collected := col } = .ok st' ∧
        ∃ rem', R st'.cursor rem' ∧ rem'.length ≤ rem.length ∧
          match skipTo cfg.keep rem with
          | [] => st'.current = none ∧ rem' = []
          | x :: t => st'.current = some x ∧ rem' = t
  | 0, _, _, _, _, _, _, hf => by omega
  | fuel + 1, s, rem, cur, off, col, hR, hf => by
    unfold scanNext
    simp only [h.valid hR, ScanCfg.limitReached, hcfg.2]
    cases rem with
    | nil => exact ⟨{ cursor := s, current := none, offset := off, collected := col }, by simp, [], hR, by simp, by simp [skipTo]⟩
    | cons x t =>
      obtain ⟨s1, hs1, hR1⟩ := h.next hR
      simp only [List.tail_cons] at hR1
      have hlen : t.length < fuel := by simpa using hf
      simp only [List.isEmpty_cons, Bool.not_false, Bool.not_true, Bool.false_eq_true, if_false,
        h.current hR, hs1, Outcome.ok_bind, Option.getD_some, Option.isNone_some, hcfg.1, Nat.not_lt_zero]
      by_cases hsk : cfg.skipRow x = true
      · have hk : cfg.keep x = false := by simp [ScanCfg.keep, hsk]
        obtain ⟨st', hst', rem', hR', hle, hm⟩ := scanNext_spec h hcfg fuel (cur := some x) (off := off) (col := col) hR1 hlen
        simp only [hsk, if_true]
        refine ⟨st', hst', rem', hR', by simp; omega, ?_⟩
        rw [skipTo_cons_not hk]; exact hm
      · have hsk' : cfg.skipRow x = false := by simpa using hsk
        simp only [hsk', Bool.false_eq_true, if_false]
        by_cases hfl : cfg.filter x = true
        · have hk : cfg.keep x = true := by simp [ScanCfg.keep, hsk', hfl]
          simp only [hfl, if_true]
          refine ⟨_, rfl, t, hR1, by simp, ?_⟩
          rw [skipTo_of_head hk]; exact ⟨rfl, rfl⟩
        · have hfl' : cfg.filter x = false := by simpa using hfl
          have hk : cfg.keep x = false := by simp [ScanCfg.keep, hfl']
          obtain ⟨st', hst', rem', hR', hle, hm⟩ := scanNext_spec h hcfg fuel (cur := some x) (off := off) (col := col) hR1 hlen
          simp only [hfl', Bool.false_eq_true, if_false]
          refine ⟨st', hst', rem', hR', by simp; omega, ?_⟩
          rw [skipTo_cons_not hk]; exact hm

/-- the scanner holds the current row; the wrapped cursor is already behind it -/
def RScan (R : σ → List Bytes → Prop) (keep : Bytes → Bool) (n : Nat) (st : ScanState σ) (remS : List Bytes) : Prop :=
  ∃ rem, R st.cursor rem ∧ rem.length ≤ n ∧
    ((st.current = none ∧ remS = [] ∧ rem.filter keep = []) ∨ ∃ x, st.current = some x ∧ remS = x :: rem.filter keep)

/-- from the state after a `scanNext` to the simulation relation: the remainder is the accepted
    part of what the wrapped cursor had left -/
theorem rscan_of_next {keep : Bytes → Bool} {n : Nat} {st' : ScanState σ} {rem rem' : List Bytes}
    (hR' : R st'.cursor rem') (hle : rem'.length ≤ rem.length) (hn : rem.length ≤ n)
    (hm : match skipTo keep rem with
      | [] => st'.current = none ∧ rem' = []
      | x :: t => st'.current = some x ∧ rem' = t) :
    RScan R keep n st' (rem.filter keep) := by
  refine ⟨rem', hR', by omega, ?_⟩
  rw [← filter_skipTo keep rem]
  cases hsk : skipTo keep rem with
  | nil =>
    rw [hsk] at hm
    exact .inl ⟨hm.1, rfl, by rw [hm.2]; rfl⟩
  | cons x t =>
    rw [hsk] at hm
    refine .inr ⟨x, hm.1, ?_⟩
    simp [List.filter, skipTo_head hsk, hm.2]

theorem scan_refines {d : Dir} {L : List Bytes} (h : Refines M (Spec.std d L true) some R) (hL : Sorted d L)
    {cfg : ScanCfg} (hcfg : cfg.Unpaged) {fuel : Nat} (hf : L.length < fuel) :
    Refines (scanMachine M cfg fuel) (Spec.std d (L.filter cfg.keep) true) some (RScan R cfg.keep L.length) where
  valid := by
    intro st remS ⟨rem, _, _, hc⟩
    rcases hc with ⟨hc, hr, _⟩ | ⟨x, hc, hr⟩ <;> simp [scanMachine, hc, hr]
  current := by
    intro st x t ⟨rem, _, _, hc⟩
    rcases hc with ⟨_, hr, _⟩ | ⟨y, hc, hr⟩
    · cases hr
    · injection hr with h1 _
      simp [scanMachine, hc, h1]
  next := by
    intro st remS ⟨rem, hRc, hlen, hc⟩
    obtain ⟨cursor, current, offset, collected⟩ := st
    obtain ⟨st', hst', rem', hR', hle, hm⟩ :=
      scanNext_spec h hcfg fuel (cur := current) (off := offset) (col := collected) hRc (by omega)
    refine ⟨st', hst', ?_⟩
    have := rscan_of_next (keep := cfg.keep) hR' hle hlen hm
    rcases hc with ⟨_, hr, hnone⟩ | ⟨x, _, hr⟩
    · subst hr; rw [hnone] at this; exact this
    · subst hr; exact this
  seek := by
    have hs := h.seek
    cases hM : M.seek with
    | none => simp [hM, Spec.std] at hs
    | some f =>
      simp only [hM, Spec.std, if_true] at hs
      show match (scanMachine M cfg fuel).seek, (Spec.std d (L.filter cfg.keep) true).seek with
        | some f, some g => _ | none, none => True | _, _ => False
      simp only [scanMachine, hM, Spec.std, if_true]
      intro v st remS ⟨rem, hRc, _, _⟩
      obtain ⟨cursor, current, offset, collected⟩ := st
      obtain ⟨c1, hc1, hR1⟩ := hs v hRc
      have hlen1 := seekIn_length_le d L v
      obtain ⟨st', hst', rem', hR', hle, hm⟩ :=
        scanNext_spec h hcfg fuel (cur := current) (off := offset) (col := collected) hR1 (by omega)
      refine ⟨st', by simp [hc1, hst'], ?_⟩
      have := rscan_of_next (keep := cfg.keep) hR' hle hlen1 hm
      rwa [seekIn_filter hL] at this
  seekS := by simp [scanMachine, Spec.std]

end scan

/-- `IterateIds` (newFilteredCursor without paging) over a seekable cursor of row ids: exactly
    the accepted rows, in order, seekable -/
theorem newScanCursor_implements {c : AnyCursor} {d : Dir} {L : List Bytes}
    (h : c.Implements (Spec.std d L true) some) (hL : Sorted d L) {cfg : ScanCfg} (hcfg : cfg.Unpaged)
    {fuel : Nat} (hf : L.length < fuel) :
    (newScanCursor c cfg fuel).Implements (Spec.std d (L.filter cfg.keep) true) some := by
  obtain ⟨R, s, hi, href, hR⟩ := h
  have hR : R s L := hR
  obtain ⟨st', hst', rem', hR', hle, hm⟩ :=
    scanNext_spec href hcfg fuel (cur := none) (off := 0) (col := 0) hR hf
  refine ⟨_, st', by simp [newScanCursor, hi, hst'], scan_refines href hL hcfg hf, ?_⟩
  exact rscan_of_next (keep := cfg.keep) hR' hle (Nat.le_refl _) hm

end StorageModel.Cursor
