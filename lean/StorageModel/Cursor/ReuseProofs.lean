import StorageModel.Cursor.Reuse
import StorageModel.Cursor.BoltProofs
import StorageModel.Cursor.StackedProofs
import StorageModel.Cursor.ScannerProofs
/-
  C14 — re-used cursor objects: after `open k` the object behaves like a fresh cursor over the set
  of row `k`, whatever state it was left in.
-/
namespace StorageModel.Cursor
open StorageModel

/-- a script run from related states ends in *some* state, with the observations of the spec -/
theorem Refines.runSt_eq {σ : Type} {M : Machine σ} {S : Spec} {r : Render} {R : σ → List Bytes → Prop}
    (h : Refines M S r R) : ∀ (ops : List Op) {s rem}, R s rem →
    ∃ s', M.runSt ops s = ((S.run ops rem).map (Obs.render r), some s')
  | [], s, _, _ => ⟨s, rfl⟩
  | op :: ops, s, rem, hR => by
    have hm := h.method_sim op
    unfold Machine.runSt Spec.run
    cases hM : M.method op <;> cases hS : S.method op <;> simp only [hM, hS] at hm ⊢
    · obtain ⟨s', hs'⟩ := runSt_eq h ops hR
      exact ⟨s', by simp [hs', Obs.render]⟩
    · obtain ⟨s1, hs1, hR1⟩ := hm hR
      obtain ⟨s', hs'⟩ := runSt_eq h ops hR1
      exact ⟨s', by simp [hs1, hs', h.observe_eq hR1]⟩

/-- **What re-opening must achieve.**  For every row `k` there is a simulation under which the
    object's methods refine the specification of row `k`, and `reopen k` leads into it at the
    start of the row's list **from every state** — no assumption on what was done to the object
    before (position, exhaustion, seeks, which row it was opened on). -/
def Reusable.Implements {σ κ : Type} (U : Reusable σ κ) (S : κ → Spec) (r : κ → Render) : Prop :=
  ∀ k, ∃ R : σ → List Bytes → Prop, Refines U.M (S k) (r k) R ∧ ∀ s, ∃ s', U.reopen k s = .ok s' ∧ R s' (S k).list

/-- **No state leaks across openings.**  An object that implements the row specifications
    produces, for every sequence of segments and from every initial state, segment by segment
    exactly what a fresh cursor over that row's set produces for the segment's script. -/
theorem Reusable.Implements.run_eq {σ κ : Type} {U : Reusable σ κ} {S : κ → Spec} {r : κ → Render}
    (h : U.Implements S r) : ∀ (segs : List (κ × List Op)) (s : σ),
    U.run segs s = segs.flatMap fun seg => ((S seg.1).openRun seg.2).map (Obs.render (r seg.1))
  | [], _ => rfl
  | (k, ops) :: rest, s => by
    obtain ⟨R, href, hopen⟩ := h k
    obtain ⟨s', hs', hR'⟩ := hopen s
    obtain ⟨s'', hrun⟩ := href.runSt_eq ops hR'
    unfold Reusable.run
    simp only [hs', hrun, run_eq h rest s'', List.flatMap_cons, Spec.openRun, List.map_cons, href.observe_eq hR',
      List.cons_append]

/-- … hence like the fresh cursors themselves -/
theorem Reusable.Implements.run_eq_fresh {σ κ : Type} {U : Reusable σ κ} {S : κ → Spec} {r : κ → Render}
    (h : U.Implements S r) {fresh : κ → AnyCursor} (hfresh : ∀ k, (fresh k).Implements (S k) (r k))
    (segs : List (κ × List Op)) (s : σ) :
    U.run segs s = segs.flatMap fun seg => (fresh seg.1).run seg.2 := by
  rw [h.run_eq segs s]
  congr 1; funext seg
  exact ((hfresh seg.1).run_eq seg.2).symm

/-! ### entitySetSymbolRuntime -/

theorem setSymReopen_some (keys : List Bytes) (s : SetSymCur) : setSymReopen (some keys) s = setSymOpen (some keys) := rfl

theorem setSymReopen_none (s : SetSymCur) : setSymReopen none s = { cursor := none, value := none } := rfl

theorem setSymReusable_implements {κ : Type} (rows : κ → Option (List Bytes)) :
    (setSymReusable rows).Implements (fun k => setRowSpec (rows k)) (fun _ => renderNilEmpty) := by
  intro k
  cases hrow : rows k with
  | none =>
    refine ⟨RSymNone, ?_, ?_⟩
    · show Refines setSym _ _ _
      simpa [setRowSpec, hrow] using setSym_refines_nobucket
    · intro s
      exact ⟨_, by simp [setSymReusable, hrow, setRowKeys, setSymReopen_none], rfl, by simp [setRowSpec, hrow, setSymSpec]⟩
  | some xs =>
    refine ⟨RSym (dedupSort xs), ?_, ?_⟩
    · show Refines setSym _ _ _
      simpa [setRowSpec, hrow] using setSym_refines (dedupSort xs)
    · intro s
      refine ⟨setSymOpen (some (tagged typeString (dedupSort xs))), by simp [setSymReusable, hrow, setRowKeys, setSymReopen_some], ?_⟩
      simpa [setRowSpec, hrow, setSymSpec] using setSym_open (dedupSort xs)

/-! ### compositeEntitySetSymbol -/

theorem compReusable_implements {κ : Type} (l0 : Level) (ls : List Level) (fuel : Nat) (rowOf : κ → Option Bytes)
    (hf : ∀ k, stackedFuel (l0 :: ls) (rowOf k) ≤ fuel) :
    (compReusable (l0 :: ls) fuel rowOf).Implements (fun k => Spec.plain (stackedKeys (l0 :: ls) (rowOf k)))
      (fun _ => rowKeyOf) := by
  intro k
  obtain ⟨R, s, hi, href, hR⟩ := stackedOpen_implements l0 ls (rowOf k) (hf k)
  exact ⟨R, href, fun _ => ⟨s, hi, hR⟩⟩

/-! ### the scanner over any wrapped cursor: values rendered through `r`, elements without a key
    skipped, `Seek` through the wrapped cursor's `Seek` or — for a wrapped cursor without one — the
    forward-only fallback loop -/

/-- the wrapped specification's `Seek` does not depend on the position, and does not invent elements -/
def Spec.SeekStateless (S : Spec) : Prop :=
  ∀ g, S.seek = some g → ∀ v rem, g v rem = g v S.list ∧ (g v S.list).length ≤ S.list.length

section scanR
variable {σ : Type} {M : Machine σ} {S : Spec} {r : Render} {R : σ → List Bytes → Prop}

theorem scanNext_specR (h : Refines M S r R) {cfg : ScanCfg} (hcfg : cfg.Unpaged) :
    ∀ (fuel : Nat) {s : σ} {rem : List Bytes} {cur : Option Bytes} {off col : Nat}, R s rem → rem.length < fuel →
      ∃ st', scanNext M cfg fuel { cursor := s, current := cur, offset := off, collected := col } = .ok st' ∧
        ∃ rem', R st'.cursor rem' ∧ rem'.length ≤ rem.length ∧
          match skipTo (cfg.keepR r) rem with
          | [] => st'.current = none ∧ rem' = []
          | x :: t => st'.current = r x ∧ (r x).isSome = true ∧ rem' = t
  | 0, _, _, _, _, _, _, hf => by omega
  | fuel + 1, s, rem, cur, off, col, hR, hf => by
    unfold scanNext
    simp only [h.valid hR, ScanCfg.limitReached, hcfg.2]
    cases rem with
    | nil => exact ⟨{ cursor := s, current := none, offset := off, collected := col }, by simp, [], hR, by simp, by simp [skipTo]⟩
    | cons x t =>
      obtain ⟨s1, hs1, hR1⟩ := h.next hR
      simp only [List.tail_cons] at hR1
      have hlen : t.length < fuel := by simpa using hf
      simp only [List.isEmpty_cons, Bool.not_false, Bool.not_true, Bool.false_eq_true, if_false,
        h.current hR, hs1, Outcome.ok_bind, hcfg.1, Nat.not_lt_zero]
      cases hrx : r x with
      | none =>
        have hk : cfg.keepR r x = false := by simp [ScanCfg.keepR, hrx]
        obtain ⟨st', hst', rem', hR', hle, hm⟩ := scanNext_specR h hcfg fuel (cur := none) (off := off) (col := col) hR1 hlen
        simp only [Option.isNone_none, if_true]
        refine ⟨st', hst', rem', hR', by simp; omega, ?_⟩
        rw [skipTo_cons_not hk]; exact hm
      | some y =>
        simp only [Option.isNone_some, Bool.false_eq_true, if_false, Option.getD_some]
        by_cases hsk : cfg.skipRow y = true
        · have hk : cfg.keepR r x = false := by simp [ScanCfg.keepR, ScanCfg.keep, hrx, hsk]
          obtain ⟨st', hst', rem', hR', hle, hm⟩ := scanNext_specR h hcfg fuel (cur := some y) (off := off) (col := col) hR1 hlen
          simp only [hsk, if_true]
          refine ⟨st', hst', rem', hR', by simp; omega, ?_⟩
          rw [skipTo_cons_not hk]; exact hm
        · have hsk' : cfg.skipRow y = false := by simpa using hsk
          simp only [hsk', Bool.false_eq_true, if_false]
          by_cases hfl : cfg.filter y = true
          · have hk : cfg.keepR r x = true := by simp [ScanCfg.keepR, ScanCfg.keep, hrx, hsk', hfl]
            simp only [hfl, if_true]
            refine ⟨_, rfl, t, hR1, by simp, ?_⟩
            rw [skipTo_of_head hk]; exact ⟨by simp [hrx], by simp [hrx], rfl⟩
          · have hfl' : cfg.filter y = false := by simpa using hfl
            have hk : cfg.keepR r x = false := by simp [ScanCfg.keepR, ScanCfg.keep, hrx, hfl']
            obtain ⟨st', hst', rem', hR', hle, hm⟩ := scanNext_specR h hcfg fuel (cur := some y) (off := off) (col := col) hR1 hlen
            simp only [hfl', Bool.false_eq_true, if_false]
            refine ⟨st', hst', rem', hR', by simp; omega, ?_⟩
            rw [skipTo_cons_not hk]; exact hm

/-- the scanner holds the current row (as the wrapped cursor rendered it); the wrapped cursor is
    already behind it -/
def RScanR (R : σ → List Bytes → Prop) (r : Render) (keep : Bytes → Bool) (n : Nat) (st : ScanState σ)
    (remS : List Bytes) : Prop :=
  ∃ rem, R st.cursor rem ∧ rem.length ≤ n ∧
    ((st.current = none ∧ remS = [] ∧ rem.filter keep = []) ∨
      ∃ x, st.current = r x ∧ (r x).isSome = true ∧ remS = x :: rem.filter keep)

theorem rscanR_of_next {keep : Bytes → Bool} {n : Nat} {st' : ScanState σ} {rem rem' : List Bytes}
    (hR' : R st'.cursor rem') (hle : rem'.length ≤ rem.length) (hn : rem.length ≤ n)
    (hm : match skipTo keep rem with
      | [] => st'.current = none ∧ rem' = []
      | x :: t => st'.current = r x ∧ (r x).isSome = true ∧ rem' = t) :
    RScanR R r keep n st' (rem.filter keep) := by
  refine ⟨rem', hR', by omega, ?_⟩
  rw [← filter_skipTo keep rem]
  cases hsk : skipTo keep rem with
  | nil =>
    rw [hsk] at hm
    exact .inl ⟨hm.1, rfl, by rw [hm.2]; rfl⟩
  | cons x t =>
    rw [hsk] at hm
    refine .inr ⟨x, hm.1, hm.2.1, ?_⟩
    simp [List.filter, skipTo_head hsk, hm.2.2]

/-- one `Next()` of the scanner from related states -/
theorem rscanR_next (h : Refines M S r R) {cfg : ScanCfg} (hcfg : cfg.Unpaged) {fuel n : Nat} (hf : n < fuel)
    {st : ScanState σ} {remS : List Bytes} (hst : RScanR R r (cfg.keepR r) n st remS) :
    ∃ st', scanNext M cfg fuel st = .ok st' ∧ RScanR R r (cfg.keepR r) n st' remS.tail := by
  obtain ⟨rem, hRc, hlen, hc⟩ := hst
  obtain ⟨cursor, current, offset, collected⟩ := st
  obtain ⟨st', hst', rem', hR', hle, hm⟩ :=
    scanNext_specR h hcfg fuel (cur := current) (off := offset) (col := collected) hRc (by omega)
  refine ⟨st', hst', ?_⟩
  have := rscanR_of_next (r := r) (keep := cfg.keepR r) hR' hle hlen hm
  rcases hc with ⟨_, hr, hnone⟩ | ⟨x, _, _, hr⟩
  · subst hr; rw [hnone] at this; exact this
  · subst hr; exact this

/-- **The fallback of `uniqueIndexScanner.Seek`** (the wrapped cursor has no `Seek`): the loop
    ends within the budget and leaves the scanner on the first *remaining* row whose value is not
    below `val` — it never moves backwards. -/
theorem scanSeekLinear_spec (h : Refines M S r R) {cfg : ScanCfg} (hcfg : cfg.Unpaged) (val : Bytes)
    {fuel n : Nat} (hf : n < fuel) :
    ∀ (m : Nat) {st : ScanState σ} {remS : List Bytes}, RScanR R r (cfg.keepR r) n st remS → remS.length < m →
      ∃ st', scanSeekLinear M cfg val fuel m st = .ok st' ∧
        RScanR R r (cfg.keepR r) n st' (remS.dropWhile (fun x => decide ((r x).getD [] < val)))
  | 0, _, _, _, hm => by omega
  | m + 1, st, remS, hst, hm => by
    unfold scanSeekLinear
    have hst0 := hst
    obtain ⟨rem, hRc, hlen, hc⟩ := hst
    rcases hc with ⟨hcur, hr, _⟩ | ⟨x, hcur, hsome, hr⟩
    · subst hr
      exact ⟨st, by simp [hcur], hst0⟩
    · obtain ⟨y, hy⟩ := Option.isSome_iff_exists.1 hsome
      subst hr
      simp only [hcur, hy]
      by_cases hlt : y < val
      · obtain ⟨st1, hst1, hR1⟩ := rscanR_next h hcfg hf hst0
        simp only [List.tail_cons] at hR1
        obtain ⟨st', hst', hR'⟩ := scanSeekLinear_spec h hcfg val hf m hR1 (by simpa using hm)
        refine ⟨st', by simp [hlt, hst1, hst'], ?_⟩
        simpa [List.dropWhile, hy, hlt] using hR'
      · refine ⟨st, by simp [hlt], ?_⟩
        simpa [List.dropWhile, hy, hlt] using hst0

/-- **The scanner as a cursor over any wrapped cursor** (`newCursorScanner`, `newFilteredCursor`
    without paging): exactly the kept rows in the wrapped order; `Seek` as `scanSpecR` says, for a
    wrapped cursor with `Seek` and for one without. -/
theorem scan_refinesR (h : Refines M S r R) (hS : S.SeekStateless) {cfg : ScanCfg} (hcfg : cfg.Unpaged)
    {fuel n : Nat} (hn : S.list.length ≤ n) (hf : n + 1 < fuel) :
    Refines (scanMachine M cfg fuel) (scanSpecR S r (cfg.keepR r)) r (RScanR R r (cfg.keepR r) n) where
  valid := by
    intro st remS ⟨rem, _, _, hc⟩
    rcases hc with ⟨hc, hr, _⟩ | ⟨x, hc, hsome, hr⟩
    · simp [scanMachine, hc, hr]
    · simp [scanMachine, hc, hr, hsome]
  current := by
    intro st x t ⟨rem, _, _, hc⟩
    rcases hc with ⟨_, hr, _⟩ | ⟨y, hc, _, hr⟩
    · cases hr
    · injection hr with h1 _
      simp [scanMachine, hc, h1]
  next := by
    intro st remS hst
    exact rscanR_next h hcfg (by omega) hst
  seek := by
    have hs := h.seek
    show match (scanMachine M cfg fuel).seek, (scanSpecR S r (cfg.keepR r)).seek with
      | some f, some g => _ | none, none => True | _, _ => False
    simp only [scanMachine, scanSpecR]
    intro v st remS hst
    cases hM : M.seek with
    | some f =>
      cases hSs : S.seek with
      | none => simp [hM, hSs] at hs
      | some g =>
        simp only [hM, hSs] at hs ⊢
        obtain ⟨rem, hRc, _, _⟩ := hst
        obtain ⟨cursor, current, offset, collected⟩ := st
        obtain ⟨c1, hc1, hR1⟩ := hs v hRc
        obtain ⟨hg, hglen⟩ := hS g hSs v rem
        rw [hg] at hR1
        obtain ⟨st', hst', rem', hR', hle, hm⟩ :=
          scanNext_specR h hcfg fuel (cur := current) (off := offset) (col := collected) hR1 (by omega)
        refine ⟨st', by simp [hc1, hst'], ?_⟩
        exact rscanR_of_next (r := r) (keep := cfg.keepR r) hR' hle (by omega) hm
    | none =>
      cases hSs : S.seek with
      | some g => simp [hM, hSs] at hs
      | none =>
        simp only
        have hlen : remS.length < fuel := by
          obtain ⟨rem, _, hlen, hc⟩ := hst
          rcases hc with ⟨_, hr, _⟩ | ⟨x, _, _, hr⟩
          · subst hr; simp; omega
          · subst hr
            have := List.length_filter_le (cfg.keepR r) rem
            simp only [List.length_cons]; omega
        exact scanSeekLinear_spec h hcfg v (by omega) fuel hst hlen
  seekS := by simp [scanMachine, scanSpecR]

end scanR

/-- **The sub-query cursor, re-opened row after row.**  If the set symbol's object implements
    the row specifications `S k` — from whatever state it was left in —, so does the scanner that
    `OpenSetCursorForQuery` wraps around it: after `open k` it is a fresh scanner over row `k`. -/
theorem scanReusable_implements {σ κ : Type} {U : Reusable σ κ} {S : κ → Spec} {r : κ → Render}
    (h : U.Implements S r) (hS : ∀ k, (S k).SeekStateless) {cfg : ScanCfg} (hcfg : cfg.Unpaged) {fuel : Nat}
    (hf : ∀ k, (S k).list.length + 1 < fuel) :
    (scanReusable U cfg fuel).Implements (fun k => scanSpecR (S k) (r k) (cfg.keepR (r k))) r := by
  intro k
  obtain ⟨R, href, hopen⟩ := h k
  refine ⟨RScanR R (r k) (cfg.keepR (r k)) (S k).list.length, scan_refinesR href (hS k) hcfg (Nat.le_refl _) (hf k), ?_⟩
  intro st
  obtain ⟨s', hs', hR'⟩ := hopen st.cursor
  obtain ⟨st', hst', rem', hRc, hle, hm⟩ :=
    scanNext_specR href hcfg fuel (cur := none) (off := 0) (col := 0) hR' (by have := hf k; omega)
  refine ⟨st', by simp [scanReusable, hs', hst'], ?_⟩
  exact rscanR_of_next (r := r k) (keep := cfg.keepR (r k)) hRc hle (Nat.le_refl _) hm

/-- `newCursorScanner` / `newFilteredCursor` (no paging) over ANY cursor, seekable or not, whatever
    it returns for the empty element -/
theorem newScanCursor_implementsR {c : AnyCursor} {S : Spec} {r : Render} (h : c.Implements S r)
    (hS : S.SeekStateless) {cfg : ScanCfg} (hcfg : cfg.Unpaged) {fuel : Nat} (hf : S.list.length + 1 < fuel) :
    (newScanCursor c cfg fuel).Implements (scanSpecR S r (cfg.keepR r)) r := by
  obtain ⟨R, s, hi, href, hR⟩ := h
  obtain ⟨st', hst', rem', hR', hle, hm⟩ :=
    scanNext_specR href hcfg fuel (cur := none) (off := 0) (col := 0) hR (by omega)
  refine ⟨_, st', by simp [newScanCursor, hi, hst'], scan_refinesR href hS hcfg (Nat.le_refl _) hf, ?_⟩
  exact rscanR_of_next (r := r) (keep := cfg.keepR r) hR' hle (Nat.le_refl _) hm

/-! ### the paged scanner (`skip` / `limit` of a sub-query), driven with `Next` -/

theorem ScanCfg.page_nil (cfg : ScanCfg) (off col : Nat) : cfg.page off col [] = [] := by
  unfold ScanCfg.page; cases cfg.targetLimit <;> simp

theorem ScanCfg.page_limit {cfg : ScanCfg} {col : Nat} (h : cfg.limitReached col = true) (off : Nat) (K : List Bytes) :
    cfg.page off col K = [] := by
  unfold ScanCfg.limitReached at h
  unfold ScanCfg.page
  cases hl : cfg.targetLimit with
  | none => simp [hl] at h
  | some l =>
    simp only [hl, decide_eq_true_eq] at h
    simp [show l - col = 0 by omega]

theorem ScanCfg.page_cons_skip {cfg : ScanCfg} {off : Nat} (h : off < cfg.targetOffset) (col : Nat) (x : Bytes)
    (K : List Bytes) : cfg.page off col (x :: K) = cfg.page (off + 1) col K := by
  unfold ScanCfg.page
  have : cfg.targetOffset - off = (cfg.targetOffset - (off + 1)) + 1 := by omega
  rw [this]; rfl

theorem ScanCfg.page_cons_take {cfg : ScanCfg} {off col : Nat} (h : ¬ off < cfg.targetOffset)
    (hl : cfg.limitReached col = false) (x : Bytes) (K : List Bytes) :
    cfg.page off col (x :: K) = x :: cfg.page off (col + 1) K := by
  unfold ScanCfg.limitReached at hl
  unfold ScanCfg.page
  have h0 : cfg.targetOffset - off = 0 := by omega
  cases hlim : cfg.targetLimit with
  | none => simp [h0]
  | some l =>
    simp only [hlim, decide_eq_false_iff_not, Nat.not_le] at hl
    have : l - col = (l - (col + 1)) + 1 := by omega
    simp [h0, this, List.take_succ_cons]

section scanP
variable {σ : Type} {M : Machine σ} {S : Spec} {r : Render} {R : σ → List Bytes → Prop}

/-- one `Next()` of a paged scanner: the head of the window, and the window shrinks to its tail -/
theorem scanNext_specP (h : Refines M S r R) (cfg : ScanCfg) :
    ∀ (fuel : Nat) {s : σ} {rem : List Bytes} {cur : Option Bytes} {off col : Nat}, R s rem → rem.length < fuel →
      ∃ st', scanNext M cfg fuel { cursor := s, current := cur, offset := off, collected := col } = .ok st' ∧
        ∃ rem', R st'.cursor rem' ∧ rem'.length ≤ rem.length ∧
          match cfg.page off col (rem.filter (cfg.keepR r)) with
          | [] => st'.current = none ∧ cfg.page st'.offset st'.collected (rem'.filter (cfg.keepR r)) = []
          | x :: t => st'.current = r x ∧ (r x).isSome = true ∧
              cfg.page st'.offset st'.collected (rem'.filter (cfg.keepR r)) = t
  | 0, _, _, _, _, _, _, hf => by omega
  | fuel + 1, s, rem, cur, off, col, hR, hf => by
    unfold scanNext
    simp only [h.valid hR]
    cases rem with
    | nil =>
      refine ⟨{ cursor := s, current := none, offset := off, collected := col }, by simp, [], hR, by simp, ?_⟩
      simp [ScanCfg.page_nil]
    | cons x t =>
      simp only [List.isEmpty_cons, Bool.not_false, Bool.not_true, Bool.false_eq_true, if_false]
      cases hlim : cfg.limitReached col with
      | true =>
        refine ⟨{ cursor := s, current := none, offset := off, collected := col }, by simp, x :: t, hR, by simp, ?_⟩
        simp [ScanCfg.page_limit hlim]
      | false =>
        obtain ⟨s1, hs1, hR1⟩ := h.next hR
        simp only [List.tail_cons] at hR1
        have hlen : t.length < fuel := by simpa using hf
        simp only [Bool.false_eq_true, if_false, h.current hR, hs1, Outcome.ok_bind]
        -- a row that is not kept: the window does not change
        have hdrop : cfg.keepR r x = false → ∀ c',
            ∃ st', scanNext M cfg fuel { cursor := s1, current := c', offset := off, collected := col } = .ok st' ∧
              ∃ rem', R st'.cursor rem' ∧ rem'.length ≤ (x :: t).length ∧
                match cfg.page off col ((x :: t).filter (cfg.keepR r)) with
                | [] => st'.current = none ∧ cfg.page st'.offset st'.collected (rem'.filter (cfg.keepR r)) = []
                | y :: t' => st'.current = r y ∧ (r y).isSome = true ∧
                    cfg.page st'.offset st'.collected (rem'.filter (cfg.keepR r)) = t' := by
          intro hk c'
          obtain ⟨st', hst', rem', hR', hle, hm⟩ := scanNext_specP h cfg fuel (cur := c') (off := off) (col := col) hR1 hlen
          refine ⟨st', hst', rem', hR', by simp; omega, ?_⟩
          simpa [List.filter, hk] using hm
        cases hrx : r x with
        | none =>
          simp only [Option.isNone_none, if_true]
          exact hdrop (by simp [ScanCfg.keepR, hrx]) none
        | some y =>
          simp only [Option.isNone_some, Bool.false_eq_true, if_false, Option.getD_some]
          by_cases hsk : cfg.skipRow y = true
          · simp only [hsk, if_true]
            exact hdrop (by simp [ScanCfg.keepR, ScanCfg.keep, hrx, hsk]) (some y)
          · have hsk' : cfg.skipRow y = false := by simpa using hsk
            simp only [hsk', Bool.false_eq_true, if_false]
            by_cases hfl : cfg.filter y = true
            · have hk : cfg.keepR r x = true := by simp [ScanCfg.keepR, ScanCfg.keep, hrx, hsk', hfl]
              simp only [hfl, if_true]
              by_cases hoff : off < cfg.targetOffset
              · obtain ⟨st', hst', rem', hR', hle, hm⟩ :=
                  scanNext_specP h cfg fuel (cur := some y) (off := off + 1) (col := col) hR1 hlen
                simp only [hoff, if_true]
                refine ⟨st', hst', rem', hR', by simp; omega, ?_⟩
                simpa [List.filter, hk, ScanCfg.page_cons_skip hoff] using hm
              · simp only [hoff, if_false]
                refine ⟨_, rfl, t, hR1, by simp, ?_⟩
                simp [List.filter, hk, ScanCfg.page_cons_take hoff hlim, hrx]
            · have hfl' : cfg.filter y = false := by simpa using hfl
              simp only [hfl', Bool.false_eq_true, if_false]
              exact hdrop (by simp [ScanCfg.keepR, ScanCfg.keep, hrx, hfl']) (some y)

def RScanP (R : σ → List Bytes → Prop) (r : Render) (cfg : ScanCfg) (n : Nat) (st : ScanState σ)
    (remS : List Bytes) : Prop :=
  ∃ rem, R st.cursor rem ∧ rem.length ≤ n ∧
    ((st.current = none ∧ remS = [] ∧ cfg.page st.offset st.collected (rem.filter (cfg.keepR r)) = []) ∨
      ∃ x, st.current = r x ∧ (r x).isSome = true ∧
        remS = x :: cfg.page st.offset st.collected (rem.filter (cfg.keepR r)))

theorem rscanP_of_next {cfg : ScanCfg} {n : Nat} {st' : ScanState σ} {rem' : List Bytes} {W : List Bytes}
    (hR' : R st'.cursor rem') (hn : rem'.length ≤ n)
    (hm : match W with
      | [] => st'.current = none ∧ cfg.page st'.offset st'.collected (rem'.filter (cfg.keepR r)) = []
      | x :: t => st'.current = r x ∧ (r x).isSome = true ∧
          cfg.page st'.offset st'.collected (rem'.filter (cfg.keepR r)) = t) :
    RScanP R r cfg n st' W := by
  refine ⟨rem', hR', hn, ?_⟩
  cases W with
  | nil => exact .inl ⟨hm.1, rfl, hm.2⟩
  | cons x t => exact .inr ⟨x, hm.1, hm.2.1, by rw [hm.2.2]⟩

/-- the paged scanner as a `Next`-only cursor: the window of the kept rows -/
theorem scan_refinesP (h : Refines M S r R) (cfg : ScanCfg) {fuel n : Nat} (hf : n < fuel) :
    Refines (scanMachine M cfg fuel).nextOnly (Spec.plain (cfg.page 0 0 (S.list.filter (cfg.keepR r)))) r
      (RScanP R r cfg n) where
  valid := by
    intro st remS ⟨rem, _, _, hc⟩
    rcases hc with ⟨hc, hr, _⟩ | ⟨x, hc, hsome, hr⟩
    · simp [Machine.nextOnly, scanMachine, hc, hr]
    · simp [Machine.nextOnly, scanMachine, hc, hr, hsome]
  current := by
    intro st x t ⟨rem, _, _, hc⟩
    rcases hc with ⟨_, hr, _⟩ | ⟨y, hc, _, hr⟩
    · cases hr
    · injection hr with h1 _
      simp [Machine.nextOnly, scanMachine, hc, h1]
  next := by
    intro st remS ⟨rem, hRc, hlen, hc⟩
    obtain ⟨cursor, current, offset, collected⟩ := st
    obtain ⟨st', hst', rem', hR', hle, hm⟩ :=
      scanNext_specP h cfg fuel (cur := current) (off := offset) (col := collected) hRc (by omega)
    refine ⟨st', hst', ?_⟩
    have := rscanP_of_next (r := r) (cfg := cfg) (n := n) hR' (by omega) hm
    rcases hc with ⟨_, hr, hnone⟩ | ⟨x, _, _, hr⟩
    · subst hr; simp only at hnone; rw [hnone] at this; exact this
    · subst hr; exact this
  seek := by simp [Machine.nextOnly, Spec.std]
  seekS := by simp [Machine.nextOnly, Spec.std]

end scanP

/-- **The paged sub-query cursor, re-opened row after row** (`Next` only): every opening starts a
    new window — the counters of the previous row's scanner do not carry over. -/
theorem scanReusable_implementsP {σ κ : Type} {U : Reusable σ κ} {S : κ → Spec} {r : κ → Render}
    (h : U.Implements S r) (cfg : ScanCfg) {fuel : Nat} (hf : ∀ k, (S k).list.length < fuel) :
    (scanReusable U cfg fuel).nextOnly.Implements
      (fun k => Spec.plain (cfg.page 0 0 ((S k).list.filter (cfg.keepR (r k))))) r := by
  intro k
  obtain ⟨R, href, hopen⟩ := h k
  refine ⟨RScanP R (r k) cfg (S k).list.length, scan_refinesP href cfg (hf k), ?_⟩
  intro st
  obtain ⟨s', hs', hR'⟩ := hopen st.cursor
  obtain ⟨st', hst', rem', hRc, hle, hm⟩ :=
    scanNext_specP href cfg fuel (cur := none) (off := 0) (col := 0) hR' (hf k)
  refine ⟨st', by simp [Reusable.nextOnly, scanReusable, hs', hst'], ?_⟩
  exact rscanP_of_next (r := r k) (cfg := cfg) hRc hle hm

/-! scripts of `Next` only do not see the `Seek` methods -/

def NextOnlyOps (ops : List Op) : Prop := ∀ op ∈ ops, op = Op.next

theorem Machine.runSt_nextOnly {σ : Type} (M : Machine σ) : ∀ (ops : List Op), NextOnlyOps ops → ∀ s,
    M.nextOnly.runSt ops s = M.runSt ops s
  | [], _, _ => rfl
  | op :: ops, hops, s => by
    have hop : op = .next := hops op (by simp)
    have hrest : NextOnlyOps ops := fun o ho => hops o (by simp [ho])
    subst hop
    unfold Machine.runSt
    simp only [Machine.method, Machine.nextOnly]
    cases hn : M.next s with
    | ok s' =>
      have := runSt_nextOnly M ops hrest s'
      simp only [Machine.nextOnly] at this
      simp [this, Machine.observe]
    | err e => rfl
    | panic => rfl

theorem Machine.observe_nextOnly {σ : Type} (M : Machine σ) (s : σ) : M.nextOnly.observe s = M.observe s := rfl

theorem Reusable.run_nextOnly {σ κ : Type} (U : Reusable σ κ) : ∀ (segs : List (κ × List Op)),
    (∀ seg ∈ segs, NextOnlyOps seg.2) → ∀ s, U.nextOnly.run segs s = U.run segs s
  | [], _, _ => rfl
  | (k, ops) :: rest, hsegs, s => by
    have hops : NextOnlyOps ops := hsegs (k, ops) (by simp)
    have hrest : ∀ seg ∈ rest, NextOnlyOps seg.2 := fun sg hs => hsegs sg (by simp [hs])
    have ih := run_nextOnly U rest hrest
    unfold Reusable.run
    show (match U.reopen k s with
      | .ok s' =>
        let (o, fin) := U.M.nextOnly.runSt ops s'
        U.M.nextOnly.observe s' :: o ++ (match fin with | some s'' => U.nextOnly.run rest s'' | none => [])
      | .err e => [.failed e]
      | .panic => [.panic]) = _
    cases hr : U.reopen k s with
    | ok s' =>
      simp only [U.M.runSt_nextOnly ops hops s', Machine.observe_nextOnly]
      cases hfin : U.M.runSt ops s' with
      | mk o fin =>
        cases fin with
        | none => rfl
        | some s'' => simp only [ih s'']
    | err e => rfl
    | panic => rfl

theorem setSymSpec_stateless (E : List Bytes) : (setSymSpec E).SeekStateless := by
  intro g hg v rem
  simp only [setSymSpec, Option.some.injEq] at hg
  subst hg
  exact ⟨rfl, (List.dropWhile_sublist _).length_le⟩

theorem plain_stateless (L : List Bytes) : (Spec.plain L).SeekStateless := by
  intro g hg
  simp [Spec.std] at hg

end StorageModel.Cursor
