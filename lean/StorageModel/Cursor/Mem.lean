import StorageModel.Cursor.Compose
/-
  C14 — the in-memory cursors of ast/cursors.go, literally:
  emptyCursor, filteredCursor, TreeSet / treeCursor, sliceSetCursor, unionSetCursor.

  Loops over a wrapped cursor (`for cursor.wrapped.IsValid() { … }`) take a step budget
  (`fuel`); running out of it is the outcome `err "fuel"`.  The theorems show that a budget
  larger than the number of remaining elements is never exhausted.
-/
namespace StorageModel.Cursor
open StorageModel

/-! ### emptyCursor -/

def emptyMachine : Machine Unit where
  next _ := .ok ()
  seek := some fun _ _ => .ok ()
  seekS := none
  valid _ := false
  current _ := .ok none

def emptyCursor : AnyCursor := { σ := Unit, M := emptyMachine, init := .ok () }

/-! ### filteredCursor -/

/-- `NewFilteredCursor` returns an `emptyCursor{}` or a `*filteredCursor` -/
inductive FiltState (σ : Type) where
  | empty
  | wrap (s : σ)

/-- `func (cursor *filteredCursor) Next()` -/
def filteredNext {σ} (M : Machine σ) (filter : Option Bytes → Bool) : Nat → σ → Outcome σ
  | 0, _ => .err "fuel"
  | fuel + 1, s =>
    if M.valid s then do                      -- for cursor.wrapped.IsValid() {
      let s1 ← M.next s                       --   cursor.wrapped.Next()
      if M.valid s1 then do                   --   if cursor.wrapped.IsValid() {
        let c ← M.current s1
        if filter c then pure s1              --     if cursor.filter(cursor.wrapped.Current()) { return }
        else filteredNext M filter fuel s1
      else filteredNext M filter fuel s1
    else pure s

def filteredMachine {σ} (M : Machine σ) (filter : Option Bytes → Bool) (fuel : Nat) : Machine (FiltState σ) where
  next
    | .empty => .ok .empty
    | .wrap s => do let s' ← filteredNext M filter fuel s; pure (.wrap s')
  seek := none        -- neither emptyCursor's Seek is reachable through SetCursor nor has filteredCursor one
  seekS := none
  valid
    | .empty => false
    | .wrap s => M.valid s
  current
    | .empty => .ok none
    | .wrap s => M.current s

/-- `NewFilteredCursor(cursor, filter)`; `cursor == nil` does not arise (every provider returns a cursor) -/
def newFilteredCursor (c : AnyCursor) (filter : Option Bytes → Bool) (fuel : Nat) : AnyCursor where
  σ := FiltState c.σ
  M := filteredMachine c.M filter fuel
  init := do
    let s ← c.init
    if !c.M.valid s then pure .empty
    else do
      let cur ← c.M.current s
      if !filter cur then do
        let s' ← filteredNext c.M filter fuel s     -- result.Next()
        pure (.wrap s')
      else pure (.wrap s)

/-! ### TreeSet / treeCursor -/

/-- `*llrb.Node`; `nil` is the Go nil pointer -/
inductive Tree where
  | nil
  | node (l : Tree) (e : Bytes) (r : Tree)
  deriving Repr

def Tree.isNil : Tree → Bool
  | .nil => true
  | .node .. => false

def Tree.inorder : Tree → List Bytes
  | .nil => []
  | .node l e r => l.inorder ++ e :: r.inorder

/-- `Tree.Insert` of biogo/store/llrb as far as the cursor can see it: binary-search-tree
    insertion under the comparator of the set's direction, replacing an equal element.
    (The rebalancing rotations of the real tree change the shape, not the in-order sequence;
    `tree_inorder` holds for every shape.) -/
def Tree.insert (d : Dir) (x : Bytes) : Tree → Tree
  | .nil => .node .nil x .nil
  | .node l e r =>
    if d.before x e then .node (l.insert d x) e r
    else if d.before e x then .node l e (r.insert d x)
    else .node l x r

structure TreeCur where
  stack : List Tree      -- top of the stack first
  current : Tree
  deriving Repr

/-- `func (cursor *treeCursor) next(node *llrb.Node)` — `node.Left` dereferences `node` -/
def treeDescend : Tree → List Tree → Outcome TreeCur
  | .nil, _ => .panic
  | .node l e r, stack =>
    match l with
    | .nil => .ok { stack := stack, current := .node l e r }
    | .node .. => treeDescend l (.node l e r :: stack)

/-- `NewTreeCursor(tree)` -/
def newTreeCursor (root : Tree) : Outcome TreeCur :=
  if !root.isNil then treeDescend root []
  else .ok { stack := [], current := .nil }

/-- `func (cursor *treeCursor) Next()` -/
def treeNext (c : TreeCur) : Outcome TreeCur :=
  match c.current with
  | .nil => .ok c                                   -- if cursor.current == nil { return }
  | .node _ _ r =>
    if !r.isNil then treeDescend r c.stack          -- cursor.next(cursor.current.Right)
    else match c.stack with
      | top :: rest => .ok { stack := rest, current := top }
      | [] => .ok { stack := [], current := .nil }

/-- `render`: how an element is returned by `Current()` (nil for the empty element when the
    set was filled from `GetTypeAndValue` values) -/
def treeMachine (render : Render) : Machine TreeCur where
  next := treeNext
  seek := none
  seekS := none
  valid c := !c.current.isNil
  current c := match c.current with
    | .nil => .panic                                 -- cursor.current.Elem on a nil node
    | .node _ e _ => .ok (render e)

/-- `TreeSet` filled with `Add` in the given order, then `ToCursor()` -/
def treeSetCursor (d : Dir) (render : Render) (adds : List Bytes) : AnyCursor where
  σ := TreeCur
  M := treeMachine render
  init := newTreeCursor (adds.foldl (fun t x => t.insert d x) .nil)

/-! ### sliceSetCursor -/

def sliceMachine : Machine (List Bytes) where
  next vs := .ok (match vs with | [] => [] | _ :: t => t)
  seek := none
  seekS := none
  valid vs := !vs.isEmpty
  current vs := match vs with
    | [] => .panic                                   -- cursor.values[0] on an empty slice
    | x :: _ => .ok (some x)

def sliceCursor (vals : List Bytes) : AnyCursor := { σ := List Bytes, M := sliceMachine, init := .ok vals }

/-! ### unionSetCursor -/

structure UnionState (σ₁ σ₂ : Type) where
  current : Option Bytes
  valid : Bool
  fst : σ₁
  snd : σ₂

/-- Go `bytes.Compare(a, b)` on possibly-nil slices -/
def bytesCompare (a b : Option Bytes) : Ordering :=
  let x := a.getD []
  let y := b.getD []
  if x < y then .lt else if y < x then .gt else .eq

/-- `func (cursor *unionSetCursor) Next()` -/
def unionNext {σ₁ σ₂} (M₁ : Machine σ₁) (M₂ : Machine σ₂) (forward : Bool) (u : UnionState σ₁ σ₂) :
    Outcome (UnionState σ₁ σ₂) :=
  -- an operand may return nil for the empty element, so validity is tracked separately
  let u := { u with valid := M₁.valid u.fst || M₂.valid u.snd }
  if !M₁.valid u.fst then
    if M₂.valid u.snd then do
      let c ← M₂.current u.snd
      let s2 ← M₂.next u.snd
      pure { u with current := c, snd := s2 }
    else pure { u with current := none }
  else if !M₂.valid u.snd then do
    let c ← M₁.current u.fst
    let s1 ← M₁.next u.fst
    pure { u with current := c, fst := s1 }
  else do
    let c1 ← M₁.current u.fst
    let c2 ← M₂.current u.snd
    match bytesCompare c1 c2 with
    | .eq => do
      let s1 ← M₁.next u.fst
      let s2 ← M₂.next u.snd
      pure { u with current := c1, fst := s1, snd := s2 }
    | .lt =>
      if forward then do
        let s1 ← M₁.next u.fst
        pure { u with current := c1, fst := s1 }
      else do
        let s2 ← M₂.next u.snd
        pure { u with current := c2, snd := s2 }
    | .gt =>
      if !forward then do
        let s1 ← M₁.next u.fst
        pure { u with current := c1, fst := s1 }
      else do
        let s2 ← M₂.next u.snd
        pure { u with current := c2, snd := s2 }

def unionMachine {σ₁ σ₂} (M₁ : Machine σ₁) (M₂ : Machine σ₂) (forward : Bool) : Machine (UnionState σ₁ σ₂) where
  next := unionNext M₁ M₂ forward
  seek := none
  seekS := none
  valid u := u.valid
  current u := .ok u.current

/-- `NewUnionSetCursor(fst, snd, forward)` -/
def newUnionSetCursor (a b : AnyCursor) (forward : Bool) : AnyCursor where
  σ := UnionState a.σ b.σ
  M := unionMachine a.M b.M forward
  init := do
    let s1 ← a.init
    let s2 ← b.init
    unionNext a.M b.M forward { current := none, valid := false, fst := s1, snd := s2 }

end StorageModel.Cursor
