import StorageModel.Cursor.Bolt
/-
  C14 — the bolt-backed cursors refine the list specification (all keys, all scripts).
-/
namespace StorageModel.Cursor
open StorageModel

/-! ### list facts -/

theorem dropWhile_append_all {α} {p : α → Bool} : ∀ {l1 l2 : List α}, (∀ x ∈ l1, p x = true) →
    (l1 ++ l2).dropWhile p = l2.dropWhile p
  | [], _, _ => rfl
  | x :: t, l2, h => by
    have hx := h x (List.mem_cons_self ..)
    simp [hx, dropWhile_append_all (l1 := t) (l2 := l2) (fun y hy => h y (List.mem_cons_of_mem _ hy))]

theorem dropWhile_none {α} {p : α → Bool} : ∀ {l : List α}, (∀ x ∈ l, p x = false) → l.dropWhile p = l
  | [], _ => rfl
  | x :: t, h => by simp [List.dropWhile, h x (List.mem_cons_self ..)]

theorem takeWhile_all {α} {p : α → Bool} : ∀ {l : List α} {a : α}, a ∈ l.takeWhile p → p a = true
  | x :: t, a, h => by
    by_cases hx : p x
    · simp only [List.takeWhile, hx, List.mem_cons] at h
      rcases h with e | h
      · subst e; exact hx
      · exact takeWhile_all h
    · simp [List.takeWhile, hx] at h

theorem takeWhile_length_le {α} (p : α → Bool) : ∀ (l : List α), (l.takeWhile p).length ≤ l.length
  | [] => by simp
  | x :: t => by
    by_cases hx : p x
    · simp [List.takeWhile, hx, takeWhile_length_le p t]
    · simp [List.takeWhile, hx]

theorem dropWhile_head_false {α} {p : α → Bool} : ∀ {l : List α} {x : α} {t : List α},
    l.dropWhile p = x :: t → p x = false
  | y :: l, x, t, h => by
    by_cases hy : p y
    · simp only [List.dropWhile, hy] at h; exact dropWhile_head_false h
    · simp only [List.dropWhile, hy] at h
      injection h with h1 _; subst h1; simpa using hy

theorem head?_drop' {α} (l : List α) (i : Nat) : (l.drop i).head? = l[i]? := by
  simp [List.head?_drop]

theorem take_succ_of_get {α} {l : List α} {i : Nat} {x : α} (h : l[i]? = some x) :
    l.take (i + 1) = l.take i ++ [x] := by
  rw [List.take_add_one, h]; rfl

theorem take_length_takeWhile {α} (p : α → Bool) : ∀ (l : List α), l.take (l.takeWhile p).length = l.takeWhile p
  | [] => rfl
  | x :: t => by
    by_cases hx : p x
    · simp [List.takeWhile, hx, take_length_takeWhile p t]
    · simp [List.takeWhile, hx]

/-- where a reverse seek must land, as a prefix of the ascending key list -/
theorem reverse_seek_prefix {K : List Bytes} (hK : Asc K) (v : Bytes) :
    K.reverse.dropWhile (fun x => decide (v < x)) =
      if K[Bolt.lowerBound K v]? = some v then (K.take (Bolt.lowerBound K v + 1)).reverse
      else (K.take (Bolt.lowerBound K v)).reverse := by
  let p : Bytes → Bool := fun k => decide (k < v)
  have hsplit : K = K.takeWhile p ++ K.dropWhile p := (List.takeWhile_append_dropWhile).symm
  have hA : ∀ a ∈ K.takeWhile p, a < v := fun a ha => by
    have := takeWhile_all ha; simpa [p] using this
  have hi : Bolt.lowerBound K v = (K.takeWhile p).length := rfl
  have hget : K[Bolt.lowerBound K v]? = (K.dropWhile p).head? := by
    rw [hi, ← head?_drop', drop_length_takeWhile]
  have htake : K.take (Bolt.lowerBound K v) = K.takeWhile p := by
    rw [hi]; exact take_length_takeWhile p K
  have hArev : (K.takeWhile p).reverse.dropWhile (fun x => decide (v < x)) = (K.takeWhile p).reverse := by
    apply dropWhile_none; intro a ha
    have := hA a (List.mem_reverse.1 ha)
    simpa using blt_asymm this
  cases hB : K.dropWhile p with
  | nil =>
    have hnone : K[Bolt.lowerBound K v]? = none := by rw [hget, hB]; rfl
    rw [hnone]; simp only [reduceCtorEq, if_false]
    rw [htake]
    have : K = K.takeWhile p := by conv => lhs; rw [hsplit, hB]; simp
    conv => lhs; rw [this]
    exact hArev
  | cons b0 B' =>
    have hsome : K[Bolt.lowerBound K v]? = some b0 := by rw [hget, hB]; rfl
    have hb0 : ¬ b0 < v := by
      have := dropWhile_head_false hB
      simpa [p] using this
    have hsorted : Asc (K.takeWhile p ++ b0 :: B') := by rw [← hB, ← hsplit]; exact hK
    have hB' : ∀ y ∈ B', b0 < y := by
      have := (List.pairwise_append.1 hsorted).2.1
      exact (List.pairwise_cons.1 this).1
    have hKrev : K.reverse = B'.reverse ++ (b0 :: (K.takeWhile p).reverse) := by
      conv => lhs; rw [hsplit, hB]
      simp
    rw [hsome, hKrev]
    by_cases hv : b0 = v
    · subst hv
      simp only [if_true]
      rw [dropWhile_append_all (fun y hy => by simpa using hB' y (List.mem_reverse.1 hy))]
      rw [take_succ_of_get hsome, htake]
      simp [List.dropWhile, blt_irrefl]
    · have hlt : v < b0 := by
        rcases Classical.em (v < b0) with h | h
        · exact h
        · exact absurd (beq_of_not_lt hb0 h) hv
      have : (some b0 = some v) = False := by simp [hv]
      simp only [this, if_false]
      rw [dropWhile_append_all (fun y hy => by simpa using blt_trans hlt (hB' y (List.mem_reverse.1 hy)))]
      rw [htake]
      simp only [List.dropWhile, hlt, decide_true]
      exact hArev

theorem lowerBound_le (K : List Bytes) (v : Bytes) : Bolt.lowerBound K v ≤ K.length :=
  takeWhile_length_le _ K

theorem lowerBound_nil (K : List Bytes) : Bolt.lowerBound K [] = 0 := by
  cases K with
  | nil => rfl
  | cons a t => simp [Bolt.lowerBound, List.takeWhile]

theorem bytesEqual_iff (v : Bytes) (k : Option Bytes) : bytesEqual v k = true ↔ k = some v ∨ (k = none ∧ v = []) := by
  cases k with
  | none => simp [bytesEqual]
  | some w =>
    simp only [bytesEqual, Option.getD_some, beq_iff_eq, Option.some.injEq, reduceCtorEq, false_and, or_false]
    exact eq_comm

/-! ### bbolt step lemmas -/

theorem Bolt.next_lt {K : List Bytes} {i : Nat} (h : i + 1 < K.length) :
    Bolt.next { keys := K, idx := i } = ({ keys := K, idx := i + 1 }, K[i + 1]?) := by
  simp [Bolt.next, h]

theorem Bolt.next_ge {K : List Bytes} {i : Nat} (h : ¬ i + 1 < K.length) :
    Bolt.next { keys := K, idx := i } = ({ keys := K, idx := i }, none) := by
  simp [Bolt.next, h]

theorem Bolt.prev_pos {K : List Bytes} {i : Nat} (h : 0 < i) :
    Bolt.prev { keys := K, idx := i } = ({ keys := K, idx := i - 1 }, K[i - 1]?) := by
  simp [Bolt.prev, h]

theorem Bolt.prev_zero {K : List Bytes} :
    Bolt.prev { keys := K, idx := 0 } = ({ keys := K, idx := 0 }, none) := by
  simp [Bolt.prev]

theorem Bolt.seek_eq {K : List Bytes} {i : Nat} (v : Bytes) :
    Bolt.seek { keys := K, idx := i } v = ({ keys := K, idx := Bolt.lowerBound K v }, K[Bolt.lowerBound K v]?) := rfl

/-! ### ForwardBoltCursor -/

def RFwd (K : List Bytes) (s : BoltCur) (rem : List Bytes) : Prop :=
  ∃ i, s.b = { keys := K, idx := i } ∧ s.key = rem.head? ∧
    match rem with
    | [] => K.length ≤ i + 1
    | _ :: _ => rem = K.drop i

theorem rfwd_at (K : List Bytes) (i : Nat) : RFwd K { b := { keys := K, idx := i }, key := K[i]? } (K.drop i) := by
  refine ⟨i, rfl, (head?_drop' K i).symm, ?_⟩
  split
  · next h => have := List.drop_eq_nil_iff.1 h; omega
  · rfl

theorem rfwd_end (K : List Bytes) (i : Nat) (h : K.length ≤ i + 1) :
    RFwd K { b := { keys := K, idx := i }, key := none } [] := ⟨i, rfl, rfl, h⟩

theorem forwardBolt_refines (K : List Bytes) :
    Refines forwardBolt (Spec.seekable .fwd K) some (RFwd K) where
  valid := by
    intro s rem ⟨_, _, hk, _⟩
    cases rem <;> simp [forwardBolt, hk]
  current := by
    intro s x t ⟨_, _, hk, _⟩
    simp [forwardBolt, hk]
  next := by
    intro s rem ⟨i, hb, hk, hm⟩
    obtain ⟨b, key⟩ := s
    simp only at hb hk hm; subst hb
    cases rem with
    | nil =>
      simp only at hm
      refine ⟨{ b := { keys := K, idx := i }, key := none }, ?_, rfwd_end K i hm⟩
      simp [forwardBolt, Bolt.next_ge (show ¬ i + 1 < K.length by omega)]
    | cons x t =>
      simp only at hm
      have ht : t = K.drop (i + 1) := by
        have := congrArg List.tail hm
        simpa using this
      by_cases hlt : i + 1 < K.length
      · refine ⟨{ b := { keys := K, idx := i + 1 }, key := K[i + 1]? }, ?_, ?_⟩
        · simp [forwardBolt, Bolt.next_lt hlt]
        · rw [List.tail_cons, ht]; exact rfwd_at K (i + 1)
      · refine ⟨{ b := { keys := K, idx := i }, key := none }, ?_, ?_⟩
        · simp [forwardBolt, Bolt.next_ge hlt]
        · have : t = [] := by rw [ht]; exact List.drop_eq_nil_iff.2 (by omega)
          rw [List.tail_cons, this]; exact rfwd_end K i (by omega)
  seek := by
    show ∀ v {s rem}, RFwd K s rem → ∃ s', _ = Outcome.ok s' ∧ RFwd K s' (Spec.seekIn .fwd K v)
    intro v s rem ⟨i, hb, _, _⟩
    obtain ⟨b, key⟩ := s
    simp only at hb; subst hb
    refine ⟨{ b := { keys := K, idx := Bolt.lowerBound K v }, key := K[Bolt.lowerBound K v]? }, rfl, ?_⟩
    have := rfwd_at K (Bolt.lowerBound K v)
    have e : K.drop (Bolt.lowerBound K v) = Spec.seekIn .fwd K v := drop_length_takeWhile _ K
    rwa [e] at this
  seekS := trivial

theorem forwardBolt_open (K : List Bytes) : RFwd K (newForwardBoltCursor K) K := by
  have := rfwd_at K 0
  simpa [newForwardBoltCursor, Bolt.first] using this

/-! ### ReverseBoltCursor -/

def RRev (K : List Bytes) (s : BoltCur) (rem : List Bytes) : Prop :=
  ∃ i, s.b = { keys := K, idx := i } ∧ s.key = rem.head? ∧
    match rem with
    | [] => i = 0
    | _ :: _ => rem = (K.take (i + 1)).reverse ∧ i < K.length

theorem rrev_at (K : List Bytes) (i : Nat) (hi : i < K.length) :
    RRev K { b := { keys := K, idx := i }, key := K[i]? } ((K.take (i + 1)).reverse) := by
  obtain ⟨x, hget⟩ : ∃ x, K[i]? = some x := ⟨K[i], List.getElem?_eq_getElem hi⟩
  have e : (K.take (i + 1)).reverse = x :: (K.take i).reverse := by
    rw [take_succ_of_get hget]; simp
  rw [hget]
  refine ⟨i, rfl, by rw [e]; rfl, ?_⟩
  rw [e]; exact ⟨rfl, hi⟩

theorem rrev_end (K : List Bytes) : RRev K { b := { keys := K, idx := 0 }, key := none } [] :=
  ⟨0, rfl, rfl, rfl⟩

/-- the state after `Prev` from index `i` is positioned on the reversed prefix of length `i` -/
theorem rrev_prev (K : List Bytes) (i : Nat) (hi : i ≤ K.length) :
    RRev K { b := (Bolt.prev { keys := K, idx := i }).1, key := (Bolt.prev { keys := K, idx := i }).2 }
      ((K.take i).reverse) := by
  by_cases h0 : 0 < i
  · have e : i - 1 + 1 = i := by omega
    have h := rrev_at K (i - 1) (by omega)
    rw [e] at h
    rw [Bolt.prev_pos h0]; exact h
  · have : i = 0 := by omega
    subst this
    rw [Bolt.prev_zero]; exact rrev_end K

theorem reverseBolt_refines {K : List Bytes} (hK : Asc K) :
    Refines reverseBolt (Spec.seekable .rev K.reverse) some (RRev K) where
  valid := by
    intro s rem ⟨_, _, hk, _⟩
    cases rem <;> simp [reverseBolt, hk]
  current := by
    intro s x t ⟨_, _, hk, _⟩
    simp [reverseBolt, hk]
  next := by
    intro s rem ⟨i, hb, hk, hm⟩
    obtain ⟨b, key⟩ := s
    simp only at hb hk hm; subst hb
    refine ⟨{ b := (Bolt.prev { keys := K, idx := i }).1, key := (Bolt.prev { keys := K, idx := i }).2 }, rfl, ?_⟩
    cases rem with
    | nil =>
      simp only at hm; subst hm
      rw [Bolt.prev_zero]; exact rrev_end K
    | cons x t =>
      simp only at hm
      obtain ⟨hrem, hlt⟩ := hm
      obtain ⟨y, hget⟩ : ∃ y, K[i]? = some y := ⟨K[i], List.getElem?_eq_getElem hlt⟩
      have ht : t = (K.take i).reverse := by
        rw [take_succ_of_get hget] at hrem
        simp only [List.reverse_append, List.reverse_cons, List.reverse_nil, List.nil_append,
          List.singleton_append, List.cons.injEq] at hrem
        exact hrem.2
      rw [List.tail_cons, ht]
      exact rrev_prev K i (by omega)
  seek := by
    show ∀ v {s rem}, RRev K s rem → ∃ s', _ = Outcome.ok s' ∧ RRev K s' (Spec.seekIn .rev K.reverse v)
    intro v s rem ⟨i, hb, _, _⟩
    obtain ⟨b, key⟩ := s
    simp only at hb; subst hb
    have hspec : Spec.seekIn .rev K.reverse v = K.reverse.dropWhile (fun x => decide (v < x)) := rfl
    rw [hspec, reverse_seek_prefix hK v]
    show ∃ s', (if (!bytesEqual v K[Bolt.lowerBound K v]?) = true then _ else _) = Outcome.ok s' ∧ _
    by_cases heq : bytesEqual v K[Bolt.lowerBound K v]? = true
    · rw [if_neg (by simp [heq])]
      refine ⟨_, rfl, ?_⟩
      rcases (bytesEqual_iff _ _).1 heq with h | ⟨h, hv⟩
      · rw [if_pos h]
        have hlt : Bolt.lowerBound K v < K.length := by
          rcases List.getElem?_eq_some_iff.1 h with ⟨hl, _⟩; exact hl
        exact rrev_at K (Bolt.lowerBound K v) hlt
      · rw [if_neg (by rw [h]; simp)]
        subst hv
        rw [lowerBound_nil] at h ⊢
        rw [h]; exact rrev_end K
    · rw [if_pos (by simpa using heq)]
      refine ⟨_, rfl, ?_⟩
      have hne : ¬ K[Bolt.lowerBound K v]? = some v := fun h => heq ((bytesEqual_iff _ _).2 (.inl h))
      rw [if_neg hne]
      exact rrev_prev K _ (lowerBound_le K v)
  seekS := trivial

theorem reverseBolt_open (K : List Bytes) : RRev K (newReverseBoltCursor K) K.reverse := by
  by_cases h : 0 < K.length
  · have := rrev_at K (K.length - 1) (by omega)
    have e : K.length - 1 + 1 = K.length := by omega
    rw [e, List.take_length] at this
    exact this
  · have : K = [] := List.eq_nil_of_length_eq_zero (by omega)
    subst this
    exact rrev_end []

/-! ### typed cursors: the bucket holds `tag :: e` for every element `e` -/

theorem tagged_get (tag : UInt8) (E : List Bytes) (i : Nat) :
    (tagged tag E)[i]? = E[i]?.map (prependFieldType tag) := by
  simp [tagged]

theorem typedCursorKey_tagged (tag : UInt8) (E : List Bytes) (i : Nat) :
    typedCursorKey (tagged tag E)[i]? = E[i]? := by
  rw [tagged_get]; cases E[i]? <;> rfl

theorem tagged_length (tag : UInt8) (E : List Bytes) : (tagged tag E).length = E.length := by
  simp [tagged]

theorem lowerBound_tagged (tag : UInt8) (E : List Bytes) (v : Bytes) :
    Bolt.lowerBound (tagged tag E) (prependFieldType tag v) = Bolt.lowerBound E v := by
  unfold Bolt.lowerBound tagged
  rw [List.takeWhile_map, List.length_map]
  congr 2
  funext k
  simp [prependFieldType]

theorem prepend_inj {tag : UInt8} {a b : Bytes} : prependFieldType tag a = prependFieldType tag b ↔ a = b := by
  simp [prependFieldType]

def RFwdT (tag : UInt8) (E : List Bytes) (s : BoltCur) (rem : List Bytes) : Prop :=
  ∃ i, s.b = { keys := tagged tag E, idx := i } ∧ s.key = rem.head? ∧
    match rem with
    | [] => E.length ≤ i + 1
    | _ :: _ => rem = E.drop i

theorem rfwdT_at (tag : UInt8) (E : List Bytes) (i : Nat) :
    RFwdT tag E { b := { keys := tagged tag E, idx := i }, key := E[i]? } (E.drop i) := by
  refine ⟨i, rfl, (head?_drop' E i).symm, ?_⟩
  split
  · next h => have := List.drop_eq_nil_iff.1 h; omega
  · rfl

theorem typedForwardBolt_refines (tag : UInt8) (E : List Bytes) :
    Refines (typedForwardBolt tag) (Spec.seekable .fwd E) some (RFwdT tag E) where
  valid := by
    intro s rem ⟨_, _, hk, _⟩
    cases rem <;> simp [typedForwardBolt, hk]
  current := by
    intro s x t ⟨_, _, hk, _⟩
    simp [typedForwardBolt, hk]
  next := by
    intro s rem ⟨i, hb, hk, hm⟩
    obtain ⟨b, key⟩ := s
    simp only at hb hk hm; subst hb
    cases rem with
    | nil =>
      simp only at hm
      refine ⟨{ b := { keys := tagged tag E, idx := i }, key := none }, ?_, ⟨i, rfl, rfl, hm⟩⟩
      simp [typedForwardBolt, Bolt.next_ge (show ¬ i + 1 < (tagged tag E).length by rw [tagged_length]; omega),
        typedCursorKey]
    | cons x t =>
      simp only at hm
      have ht : t = E.drop (i + 1) := by
        have := congrArg List.tail hm
        simpa using this
      by_cases hlt : i + 1 < E.length
      · refine ⟨{ b := { keys := tagged tag E, idx := i + 1 }, key := E[i + 1]? }, ?_, ?_⟩
        · simp only [typedForwardBolt, Bolt.next_lt (show i + 1 < (tagged tag E).length by rw [tagged_length]; exact hlt),
            typedCursorKey_tagged]
        · rw [List.tail_cons, ht]; exact rfwdT_at tag E (i + 1)
      · refine ⟨{ b := { keys := tagged tag E, idx := i }, key := none }, ?_, ?_⟩
        · simp [typedForwardBolt, Bolt.next_ge (show ¬ i + 1 < (tagged tag E).length by rw [tagged_length]; exact hlt),
            typedCursorKey]
        · have : t = [] := by rw [ht]; exact List.drop_eq_nil_iff.2 (by omega)
          rw [List.tail_cons, this]; exact ⟨i, rfl, rfl, by omega⟩
  seek := by
    show ∀ v {s rem}, RFwdT tag E s rem → ∃ s', _ = Outcome.ok s' ∧ RFwdT tag E s' (Spec.seekIn .fwd E v)
    intro v s rem ⟨i, hb, _, _⟩
    obtain ⟨b, key⟩ := s
    simp only at hb; subst hb
    refine ⟨{ b := { keys := tagged tag E, idx := Bolt.lowerBound E v }, key := E[Bolt.lowerBound E v]? }, ?_, ?_⟩
    · simp only [Bolt.seek_eq, lowerBound_tagged, typedCursorKey_tagged]
    · have := rfwdT_at tag E (Bolt.lowerBound E v)
      have e : E.drop (Bolt.lowerBound E v) = Spec.seekIn .fwd E v := drop_length_takeWhile _ E
      rwa [e] at this
  seekS := trivial

theorem typedForwardBolt_open (tag : UInt8) (E : List Bytes) :
    RFwdT tag E (newTypedForwardBoltCursor (tagged tag E)) E := by
  have := rfwdT_at tag E 0
  simpa [newTypedForwardBoltCursor, Bolt.first, typedCursorKey_tagged] using this

def RRevT (tag : UInt8) (E : List Bytes) (s : BoltCur) (rem : List Bytes) : Prop :=
  ∃ i, s.b = { keys := tagged tag E, idx := i } ∧ s.key = rem.head? ∧
    match rem with
    | [] => i = 0
    | _ :: _ => rem = (E.take (i + 1)).reverse ∧ i < E.length

theorem rrevT_at (tag : UInt8) (E : List Bytes) (i : Nat) (hi : i < E.length) :
    RRevT tag E { b := { keys := tagged tag E, idx := i }, key := E[i]? } ((E.take (i + 1)).reverse) := by
  obtain ⟨x, hget⟩ : ∃ x, E[i]? = some x := ⟨E[i], List.getElem?_eq_getElem hi⟩
  have e : (E.take (i + 1)).reverse = x :: (E.take i).reverse := by
    rw [take_succ_of_get hget]; simp
  rw [hget]
  refine ⟨i, rfl, by rw [e]; rfl, ?_⟩
  rw [e]; exact ⟨rfl, hi⟩

theorem rrevT_end (tag : UInt8) (E : List Bytes) :
    RRevT tag E { b := { keys := tagged tag E, idx := 0 }, key := none } [] := ⟨0, rfl, rfl, rfl⟩

theorem rrevT_prev (tag : UInt8) (E : List Bytes) (i : Nat) (hi : i ≤ E.length) :
    RRevT tag E { b := (Bolt.prev { keys := tagged tag E, idx := i }).1,
                  key := typedCursorKey (Bolt.prev { keys := tagged tag E, idx := i }).2 }
      ((E.take i).reverse) := by
  by_cases h0 : 0 < i
  · have e : i - 1 + 1 = i := by omega
    have h := rrevT_at tag E (i - 1) (by omega)
    rw [e] at h
    rw [Bolt.prev_pos h0]; simp only [typedCursorKey_tagged]; exact h
  · have : i = 0 := by omega
    subst this
    rw [Bolt.prev_zero]; exact rrevT_end tag E

theorem typedReverseBolt_refines (tag : UInt8) {E : List Bytes} (hE : Asc E) :
    Refines (typedReverseBolt tag) (Spec.seekable .rev E.reverse) some (RRevT tag E) where
  valid := by
    intro s rem ⟨_, _, hk, _⟩
    cases rem <;> simp [typedReverseBolt, hk]
  current := by
    intro s x t ⟨_, _, hk, _⟩
    simp [typedReverseBolt, hk]
  next := by
    intro s rem ⟨i, hb, hk, hm⟩
    obtain ⟨b, key⟩ := s
    simp only at hb hk hm; subst hb
    refine ⟨{ b := (Bolt.prev { keys := tagged tag E, idx := i }).1,
              key := typedCursorKey (Bolt.prev { keys := tagged tag E, idx := i }).2 }, rfl, ?_⟩
    cases rem with
    | nil =>
      simp only at hm; subst hm
      rw [Bolt.prev_zero]; exact rrevT_end tag E
    | cons x t =>
      simp only at hm
      obtain ⟨hrem, hlt⟩ := hm
      obtain ⟨y, hget⟩ : ∃ y, E[i]? = some y := ⟨E[i], List.getElem?_eq_getElem hlt⟩
      have ht : t = (E.take i).reverse := by
        rw [take_succ_of_get hget] at hrem
        simp only [List.reverse_append, List.reverse_cons, List.reverse_nil, List.nil_append,
          List.singleton_append, List.cons.injEq] at hrem
        exact hrem.2
      rw [List.tail_cons, ht]
      exact rrevT_prev tag E i (by omega)
  seek := by
    show ∀ v {s rem}, RRevT tag E s rem → ∃ s', _ = Outcome.ok s' ∧ RRevT tag E s' (Spec.seekIn .rev E.reverse v)
    intro v s rem ⟨i, hb, _, _⟩
    obtain ⟨b, key⟩ := s
    simp only at hb; subst hb
    have hspec : Spec.seekIn .rev E.reverse v = E.reverse.dropWhile (fun x => decide (v < x)) := rfl
    rw [hspec, reverse_seek_prefix hE v]
    show ∃ s', (if (!bytesEqual (prependFieldType tag v) (Bolt.seek _ (prependFieldType tag v)).2) = true then _ else _) = Outcome.ok s' ∧ _
    simp only [Bolt.seek_eq, lowerBound_tagged]
    have hiff : bytesEqual (prependFieldType tag v) (tagged tag E)[Bolt.lowerBound E v]? = true ↔
        E[Bolt.lowerBound E v]? = some v := by
      rw [bytesEqual_iff, tagged_get]
      cases E[Bolt.lowerBound E v]? with
      | none => simp [prependFieldType]
      | some w => simp [prepend_inj]
    by_cases heq : E[Bolt.lowerBound E v]? = some v
    · rw [if_neg (by simp [hiff.2 heq]), if_pos heq]
      refine ⟨_, rfl, ?_⟩
      have hlt : Bolt.lowerBound E v < E.length := by
        rcases List.getElem?_eq_some_iff.1 heq with ⟨hl, _⟩; exact hl
      simp only [typedCursorKey_tagged]
      exact rrevT_at tag E (Bolt.lowerBound E v) hlt
    · have : bytesEqual (prependFieldType tag v) (tagged tag E)[Bolt.lowerBound E v]? = false := by
        simpa using fun h => heq (hiff.1 h)
      rw [if_pos (by simp [this]), if_neg heq]
      refine ⟨_, rfl, ?_⟩
      exact rrevT_prev tag E _ (lowerBound_le E v)
  seekS := trivial

theorem typedReverseBolt_open (tag : UInt8) (E : List Bytes) :
    RRevT tag E (newTypedReverseBoltCursor (tagged tag E)) E.reverse := by
  by_cases h : 0 < E.length
  · have := rrevT_at tag E (E.length - 1) (by omega)
    have e : E.length - 1 + 1 = E.length := by omega
    rw [e, List.take_length] at this
    simpa [newTypedReverseBoltCursor, Bolt.last, tagged_length, typedCursorKey_tagged] using this
  · have : E = [] := List.eq_nil_of_length_eq_zero (by omega)
    subst this
    exact rrevT_end tag []

/-! ### entitySetSymbolRuntime -/

def RSym (E : List Bytes) (s : SetSymCur) (rem : List Bytes) : Prop :=
  ∃ i, s.cursor = some { keys := tagged typeString E, idx := i } ∧
    s.value = rem.head?.map (prependFieldType typeString) ∧
    match rem with
    | [] => E.length ≤ i + 1
    | _ :: _ => rem = E.drop i

theorem rsym_at (E : List Bytes) (i : Nat) :
    RSym E { cursor := some { keys := tagged typeString E, idx := i }, value := (tagged typeString E)[i]? } (E.drop i) := by
  refine ⟨i, rfl, by rw [tagged_get, head?_drop'], ?_⟩
  split
  · next h => have := List.drop_eq_nil_iff.1 h; omega
  · rfl

theorem getTypeAndValue_value_tagged (x : Bytes) :
    getTypeAndValue_value (some (prependFieldType typeString x)) = renderNilEmpty x := by
  cases x <;> rfl

theorem lowerBound_tagged_raw (tag : UInt8) (E : List Bytes) (v : Bytes) :
    Bolt.lowerBound (tagged tag E) v = (E.takeWhile (fun e => decide (prependFieldType tag e < v))).length := by
  unfold Bolt.lowerBound tagged
  rw [List.takeWhile_map, List.length_map]
  rfl

theorem setSym_refines (E : List Bytes) : Refines setSym (setSymSpec E) renderNilEmpty (RSym E) where
  valid := by
    intro s rem ⟨_, _, hk, _⟩
    cases rem <;> simp [setSym, hk]
  current := by
    intro s x t ⟨_, _, hk, _⟩
    simp only [setSym, hk, List.head?_cons, Option.map_some, getTypeAndValue_value_tagged]
  next := by
    intro s rem ⟨i, hb, hk, hm⟩
    obtain ⟨c, value⟩ := s
    simp only at hb hk hm; subst hb
    cases rem with
    | nil =>
      simp only at hm
      refine ⟨{ cursor := some { keys := tagged typeString E, idx := i }, value := none }, ?_, ⟨i, rfl, rfl, hm⟩⟩
      simp [setSym, Bolt.next_ge (show ¬ i + 1 < (tagged typeString E).length by rw [tagged_length]; omega)]
    | cons x t =>
      simp only at hm
      have ht : t = E.drop (i + 1) := by
        have := congrArg List.tail hm
        simpa using this
      by_cases hlt : i + 1 < E.length
      · refine ⟨{ cursor := some { keys := tagged typeString E, idx := i + 1 }, value := (tagged typeString E)[i + 1]? }, ?_, ?_⟩
        · simp only [setSym, Bolt.next_lt (show i + 1 < (tagged typeString E).length by rw [tagged_length]; exact hlt)]
        · rw [List.tail_cons, ht]; exact rsym_at E (i + 1)
      · refine ⟨{ cursor := some { keys := tagged typeString E, idx := i }, value := none }, ?_, ?_⟩
        · simp [setSym, Bolt.next_ge (show ¬ i + 1 < (tagged typeString E).length by rw [tagged_length]; exact hlt)]
        · have : t = [] := by rw [ht]; exact List.drop_eq_nil_iff.2 (by omega)
          rw [List.tail_cons, this]; exact ⟨i, rfl, rfl, by omega⟩
  seek := by
    show ∀ v {s rem}, RSym E s rem → ∃ s', _ = Outcome.ok s' ∧
      RSym E s' (E.dropWhile (fun e => decide (prependFieldType typeString e < v)))
    intro v s rem ⟨i, hb, _, _⟩
    obtain ⟨c, value⟩ := s
    simp only at hb; subst hb
    refine ⟨_, rfl, ?_⟩
    have := rsym_at E (Bolt.lowerBound (tagged typeString E) v)
    rw [lowerBound_tagged_raw] at this ⊢
    rwa [drop_length_takeWhile] at this
  seekS := by
    show ∀ v {s rem}, RSym E s rem → ∃ s', _ = Outcome.ok s' ∧ RSym E s' (Spec.seekIn .fwd E v)
    intro v s rem ⟨i, hb, _, _⟩
    obtain ⟨c, value⟩ := s
    simp only at hb; subst hb
    refine ⟨_, rfl, ?_⟩
    simp only [lowerBound_tagged]
    have := rsym_at E (Bolt.lowerBound E v)
    have e : E.drop (Bolt.lowerBound E v) = Spec.seekIn .fwd E v := drop_length_takeWhile _ E
    rwa [e] at this

theorem setSym_open (E : List Bytes) : RSym E (setSymOpen (some (tagged typeString E))) E := by
  have := rsym_at E 0
  simpa [setSymOpen, Bolt.first] using this

/-- the entity or its list bucket does not exist: the cursor is the empty cursor -/
def RSymNone (s : SetSymCur) (rem : List Bytes) : Prop := s = { cursor := none, value := none } ∧ rem = []

theorem setSym_refines_nobucket : Refines setSym (setSymSpec []) renderNilEmpty RSymNone where
  valid := by intro s rem ⟨hs, hr⟩; subst hs hr; rfl
  current := by intro s x t ⟨_, hr⟩; cases hr
  next := by intro s rem ⟨hs, hr⟩; subst hs hr; exact ⟨_, rfl, rfl, rfl⟩
  seek := by
    show ∀ v {s rem}, RSymNone s rem → ∃ s', _ = Outcome.ok s' ∧ RSymNone s' _
    intro v s rem ⟨hs, hr⟩; subst hs hr; exact ⟨_, rfl, rfl, rfl⟩
  seekS := by
    show ∀ v {s rem}, RSymNone s rem → ∃ s', _ = Outcome.ok s' ∧ RSymNone s' _
    intro v s rem ⟨hs, hr⟩; subst hs hr; exact ⟨_, rfl, rfl, rfl⟩

end StorageModel.Cursor
