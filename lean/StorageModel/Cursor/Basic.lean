import StorageModel.Base.Bytes
/-
  C14 — basics shared by the cursor models: Go partiality (`Outcome`), the byte-string order
  (`bytes.Compare` = lexicographic `<` on `List UInt8`), directions, strictly sorted lists,
  `dedupSort` (the spec's "set as a list in key order").
-/
namespace StorageModel.Cursor
open StorageModel

/-- Go partiality: a call returns, fails with an error, or panics. -/
inductive Outcome (α : Type) where
  | ok (a : α)
  | err (e : String)
  | panic
  deriving Repr, DecidableEq

namespace Outcome
@[inline] def bind {α β} (x : Outcome α) (f : α → Outcome β) : Outcome β :=
  match x with
  | .ok a => f a
  | .err e => .err e
  | .panic => .panic
instance : Monad Outcome where
  pure := .ok
  bind := Outcome.bind
@[simp] theorem ok_bind {α β} (a : α) (f : α → Outcome β) : (Outcome.ok a >>= f) = f a := rfl
@[simp] theorem panic_bind {α β} (f : α → Outcome β) : (Outcome.panic >>= f) = .panic := rfl
@[simp] theorem err_bind {α β} (e) (f : α → Outcome β) : (Outcome.err e >>= f) = .err e := rfl
@[simp] theorem pure_eq {α} (a : α) : (pure a : Outcome α) = .ok a := rfl
end Outcome

/-- iteration direction of a cursor: ascending key order or descending -/
inductive Dir where
  | fwd | rev
  deriving Repr, DecidableEq

/-- `d.before a b`: `a` is enumerated strictly before `b` by a cursor of direction `d`. -/
@[reducible] def Dir.before (d : Dir) (a b : Bytes) : Prop :=
  match d with
  | .fwd => a < b
  | .rev => b < a

instance (d : Dir) (a b : Bytes) : Decidable (d.before a b) := by
  cases d <;> simp only [Dir.before] <;> infer_instance

theorem blt_irrefl (a : Bytes) : ¬ a < a := List.lt_irrefl a
theorem blt_trans {a b c : Bytes} (h1 : a < b) (h2 : b < c) : a < c := List.lt_trans h1 h2
theorem blt_asymm {a b : Bytes} (h : a < b) : ¬ b < a := List.lt_asymm h
theorem beq_of_not_lt {a b : Bytes} (h1 : ¬ a < b) (h2 : ¬ b < a) : a = b :=
  List.le_antisymm (as := a) (bs := b) h2 h1
theorem ble_iff {a b : Bytes} : a ≤ b ↔ ¬ b < a := List.not_lt.symm

theorem Dir.before_irrefl (d : Dir) (a : Bytes) : ¬ d.before a a := by
  cases d <;> exact blt_irrefl a
theorem Dir.before_trans {d : Dir} {a b c : Bytes} (h1 : d.before a b) (h2 : d.before b c) : d.before a c := by
  cases d
  · exact blt_trans h1 h2
  · exact blt_trans h2 h1
theorem Dir.before_asymm {d : Dir} {a b : Bytes} (h : d.before a b) : ¬ d.before b a := by
  cases d
  · exact blt_asymm h
  · exact blt_asymm h
theorem Dir.eq_of_not_before {d : Dir} {a b : Bytes} (h1 : ¬ d.before a b) (h2 : ¬ d.before b a) : a = b := by
  cases d
  · exact beq_of_not_lt h1 h2
  · exact beq_of_not_lt h2 h1

/-- strictly sorted in direction `d` (hence duplicate free) -/
def Sorted (d : Dir) (l : List Bytes) : Prop := l.Pairwise d.before
abbrev Asc (l : List Bytes) : Prop := Sorted .fwd l

theorem sorted_reverse {d : Dir} {l : List Bytes} (h : Sorted d l) :
    Sorted (match d with | .fwd => .rev | .rev => .fwd) l.reverse := by
  unfold Sorted at *
  rw [List.pairwise_reverse]
  cases d <;> exact h

theorem asc_reverse {l : List Bytes} (h : Asc l) : Sorted .rev l.reverse := sorted_reverse (d := .fwd) h

/-- two strictly sorted lists with the same members are equal -/
theorem sorted_ext {d : Dir} : ∀ {a b : List Bytes}, Sorted d a → Sorted d b → (∀ x, x ∈ a ↔ x ∈ b) → a = b
  | [], [], _, _, _ => rfl
  | [], y :: _, _, _, h => by have := (h y).2 (List.mem_cons_self ..); simp at this
  | x :: _, [], _, _, h => by have := (h x).1 (List.mem_cons_self ..); simp at this
  | x :: s, y :: t, ha, hb, h => by
    have ha' := List.pairwise_cons.1 ha
    have hb' := List.pairwise_cons.1 hb
    have hxy : x = y := by
      have hx := (h x).1 (List.mem_cons_self ..)
      have hy := (h y).2 (List.mem_cons_self ..)
      rcases List.mem_cons.1 hx with e | hx'
      · exact e
      · rcases List.mem_cons.1 hy with e | hy'
        · exact e.symm
        · exact absurd (ha'.1 y hy') (Dir.before_asymm (hb'.1 x hx'))
    subst hxy
    have : s = t := sorted_ext ha'.2 hb'.2 (fun z => by
      constructor
      · intro hz
        rcases List.mem_cons.1 ((h z).1 (List.mem_cons_of_mem _ hz)) with e | h'
        · subst e; exact absurd (ha'.1 z hz) (Dir.before_irrefl d z)
        · exact h'
      · intro hz
        rcases List.mem_cons.1 ((h z).2 (List.mem_cons_of_mem _ hz)) with e | h'
        · subst e; exact absurd (hb'.1 z hz) (Dir.before_irrefl d z)
        · exact h')
    rw [this]

/-- insert into a list sorted in direction `d`, keeping one copy of an equal element
    (the replace-on-equal behaviour of llrb `Insert` and of a bolt `Put`) -/
def insertD (d : Dir) (x : Bytes) : List Bytes → List Bytes
  | [] => [x]
  | y :: t => if d.before x y then x :: y :: t else if d.before y x then y :: insertD d x t else y :: t

/-- the set `xs` as the list a cursor of direction `d` must produce -/
def sortD (d : Dir) (xs : List Bytes) : List Bytes := xs.foldr (insertD d) []

/-- ascending, duplicate free -/
abbrev dedupSort (xs : List Bytes) : List Bytes := sortD .fwd xs

/-- `order d l`: an ascending list read in direction `d` -/
def order (d : Dir) (l : List Bytes) : List Bytes :=
  match d with
  | .fwd => l
  | .rev => l.reverse

theorem mem_insertD {d : Dir} {x z : Bytes} : ∀ {l : List Bytes}, z ∈ insertD d x l ↔ z = x ∨ z ∈ l
  | [] => by simp [insertD]
  | y :: t => by
    unfold insertD
    split
    · simp
    · split
      · simp [mem_insertD (l := t)]; grind
      · next h1 h2 =>
        have : x = y := Dir.eq_of_not_before h1 h2
        subst this; simp

theorem sorted_insertD {d : Dir} {x : Bytes} : ∀ {l : List Bytes}, Sorted d l → Sorted d (insertD d x l)
  | [], _ => by simp [insertD, Sorted]
  | y :: t, h => by
    have h' := List.pairwise_cons.1 h
    unfold insertD
    split
    · next hxy =>
      refine List.pairwise_cons.2 ⟨?_, h⟩
      intro z hz
      rcases List.mem_cons.1 hz with e | hz
      · subst e; exact hxy
      · exact Dir.before_trans hxy (h'.1 z hz)
    · split
      · next _ hyx =>
        refine List.pairwise_cons.2 ⟨?_, sorted_insertD h'.2⟩
        intro z hz
        rcases mem_insertD.1 hz with e | hz
        · subst e; exact hyx
        · exact h'.1 z hz
      · exact h

theorem mem_sortD {d : Dir} {z : Bytes} : ∀ {xs : List Bytes}, z ∈ sortD d xs ↔ z ∈ xs
  | [] => by simp [sortD]
  | x :: t => by
    have ih := mem_sortD (d := d) (z := z) (xs := t)
    simp only [sortD, List.foldr_cons] at ih ⊢
    rw [mem_insertD, ih]; simp

theorem sorted_sortD {d : Dir} : ∀ {xs : List Bytes}, Sorted d (sortD d xs)
  | [] => by simp [sortD, Sorted]
  | x :: t => by
    have ih := sorted_sortD (d := d) (xs := t)
    simp only [sortD, List.foldr_cons] at ih ⊢
    exact sorted_insertD ih

/-- a descending sort is the reversed ascending sort -/
theorem sortD_rev (xs : List Bytes) : sortD .rev xs = (dedupSort xs).reverse :=
  sorted_ext (d := .rev) sorted_sortD (asc_reverse sorted_sortD) (fun z => by simp [mem_sortD])

theorem sortD_eq_order (d : Dir) (xs : List Bytes) : sortD d xs = order d (dedupSort xs) := by
  cases d
  · rfl
  · exact sortD_rev xs

theorem sorted_order (d : Dir) (xs : List Bytes) : Sorted d (order d (dedupSort xs)) := by
  rw [← sortD_eq_order]; exact sorted_sortD

/-- for a list sorted in direction `d`, skipping the elements strictly before `v` is the same
    as keeping the elements not before `v` -/
theorem dropWhile_eq_filter {d : Dir} (v : Bytes) : ∀ {l : List Bytes}, Sorted d l →
    l.dropWhile (fun x => decide (d.before x v)) = l.filter (fun x => !decide (d.before x v))
  | [], _ => rfl
  | x :: t, h => by
    have h' := List.pairwise_cons.1 h
    by_cases hx : d.before x v
    · simp [List.dropWhile, List.filter, hx, dropWhile_eq_filter v h'.2]
    · have hall : ∀ y ∈ t, ¬ d.before y v := fun y hy hyv => hx (Dir.before_trans (h'.1 y hy) hyv)
      have : t.filter (fun x => !decide (d.before x v)) = t := by
        apply List.filter_eq_self.2; intro y hy; simp [hall y hy]
      simp [List.dropWhile, List.filter, hx, this]

theorem drop_length_takeWhile {α} (p : α → Bool) : ∀ (l : List α), l.drop (l.takeWhile p).length = l.dropWhile p
  | [] => rfl
  | x :: t => by
    by_cases h : p x <;> simp [List.takeWhile, List.dropWhile, h, drop_length_takeWhile p t]

end StorageModel.Cursor
