import StorageModel.Cursor.Stacked
/-
  C14 — the stacked cursor enumerates the depth-first concatenation `stackedKeys`.
-/
namespace StorageModel.Cursor
open StorageModel

/-- what the open path elements still contribute (deepest level first); the element at the head
    of a stack of length `n` is at chain index `n-1`, so its keys expand through `chain.drop n` -/
def pendingOf (chain : List Level) : List (List Bytes) → List Bytes
  | [] => []
  | r :: rest => r.flatMap (expandBelow (chain.drop (rest.length + 1))) ++ pendingOf chain rest

def stackWeight (chain : List Level) : List (List Bytes) → Nat
  | [] => 0
  | r :: rest => (r.map (weightBelow (chain.drop (rest.length + 1)))).sum + 1 + stackWeight chain rest

def keyOut (chain : List Level) (depth : Nat) : Option Bytes → List Bytes
  | none => []
  | some k => expandBelow (chain.drop depth) k

def keyWeight (chain : List Level) (depth : Nat) : Option Bytes → Nat
  | none => 0
  | some k => weightBelow (chain.drop depth) k

def StackedCur.out (chain : List Level) (c : StackedCur) : List Bytes :=
  match c.key with
  | none => []
  | some k => k :: pendingOf chain c.stack

theorem flatMap_expand_nil (l : List Bytes) : l.flatMap (expandBelow []) = l := by
  induction l with
  | nil => rfl
  | cons x t ih => simp [List.flatMap_cons, expandBelow, ih]

theorem drop_cons_of_get {α} {l : List α} {n : Nat} {x : α} (h : l[n]? = some x) : l.drop n = x :: l.drop (n + 1) := by
  obtain ⟨hn, hx⟩ := List.getElem?_eq_some_iff.1 h
  rw [List.drop_eq_getElem_cons hn, hx]

theorem calcNext_spec (chain : List Level) : ∀ (fuel : Nat) (stack : List (List Bytes)) (key : Option Bytes),
    0 < stack.length → stack.length ≤ chain.length → (key = none → ∃ rest, stack = [] :: rest) →
    keyWeight chain stack.length key + stackWeight chain stack < fuel →
    ∃ cur, calcNext chain fuel stack key = .ok cur ∧
      cur.out chain = keyOut chain stack.length key ++ pendingOf chain stack ∧
      (cur.key.isSome → cur.stack.length = chain.length) ∧
      stackWeight chain cur.stack ≤ keyWeight chain stack.length key + stackWeight chain stack
  | 0, _, _, _, _, _, hf => by omega
  | fuel + 1, stack, none, hpos, hle, hhead, hf => by
    obtain ⟨rest', hst⟩ := hhead rfl
    subst hst
    cases rest' with
    | nil =>
      refine ⟨{ stack := [[]], key := none }, rfl, ?_, by simp, ?_⟩
      · simp [StackedCur.out, keyOut, pendingOf]
      · simp [keyWeight]
    | cons parent rest =>
      cases parent with
      | nil =>
        have ih := calcNext_spec chain fuel ([] :: rest) none (by simp) (by simp at hle ⊢; omega)
          (fun _ => ⟨rest, rfl⟩) (by simp [keyWeight, stackWeight] at hf ⊢; omega)
        obtain ⟨cur, hc, hout, hwf, hw⟩ := ih
        refine ⟨cur, by simpa [calcNext, popKey] using hc, ?_, hwf, ?_⟩
        · rw [hout]; simp [keyOut, pendingOf]
        · simp [keyWeight, stackWeight] at hw ⊢; omega
      | cons x p' =>
        have ih := calcNext_spec chain fuel (p' :: rest) (some x) (by simp) (by simp at hle ⊢; omega)
          (fun h => by cases h) (by simp [keyWeight, stackWeight] at hf ⊢; omega)
        obtain ⟨cur, hc, hout, hwf, hw⟩ := ih
        refine ⟨cur, by simpa [calcNext, popKey] using hc, ?_, hwf, ?_⟩
        · rw [hout]; simp [keyOut, pendingOf, List.flatMap_cons, List.append_assoc]
        · simp [keyWeight, stackWeight] at hw ⊢; omega
  | fuel + 1, stack, some k, hpos, hle, _, hf => by
    unfold calcNext
    by_cases hfull : stack.length = chain.length
    · simp only [hfull, if_true]
      refine ⟨{ stack := stack, key := some k }, rfl, ?_, fun _ => hfull, ?_⟩
      · simp [StackedCur.out, keyOut, hfull, expandBelow]
      · simp
    · simp only [hfull, if_false]
      have hlt : stack.length < chain.length := by omega
      obtain ⟨lvl, hlvl⟩ : ∃ lvl, chain[stack.length]? = some lvl := ⟨chain[stack.length], List.getElem?_eq_getElem hlt⟩
      have hdrop := drop_cons_of_get hlvl
      simp only [hlvl]
      cases hch : lvl (rowKeyOf k) with
      | nil =>
        have ih := calcNext_spec chain fuel ([] :: stack) none (by simp) (by simp; omega)
          (fun _ => ⟨stack, rfl⟩) (by
            simp [keyWeight, stackWeight, hdrop, weightBelow, hch] at hf ⊢; omega)
        obtain ⟨cur, hc, hout, hwf, hw⟩ := ih
        refine ⟨cur, by simpa [popKey] using hc, ?_, hwf, ?_⟩
        · rw [hout]; simp [keyOut, pendingOf, hdrop, expandBelow, hch]
        · simp [keyWeight, stackWeight, hdrop, weightBelow, hch] at hw ⊢; omega
      | cons c cs =>
        have ih := calcNext_spec chain fuel (cs :: stack) (some c) (by simp) (by simp; omega)
          (fun h => by cases h) (by
            simp [keyWeight, stackWeight, hdrop, weightBelow, hch] at hf ⊢; omega)
        obtain ⟨cur, hc, hout, hwf, hw⟩ := ih
        refine ⟨cur, by simpa [popKey] using hc, ?_, hwf, ?_⟩
        · rw [hout]; simp [keyOut, pendingOf, hdrop, expandBelow, hch, List.flatMap_cons, List.append_assoc]
        · simp [keyWeight, stackWeight, hdrop, weightBelow, hch] at hw ⊢; omega

def RStacked (chain : List Level) (fuel : Nat) (c : StackedCur) (rem : List Bytes) : Prop :=
  c.out chain = rem ∧ (c.key.isSome → c.stack.length = chain.length) ∧ stackWeight chain c.stack < fuel ∧
    0 < chain.length

theorem stacked_refines (chain : List Level) (fuel : Nat) (L : List Bytes) :
    Refines (stackedMachine chain fuel) (Spec.plain L) rowKeyOf (RStacked chain fuel) where
  valid := by
    intro c rem ⟨hout, _, _, _⟩
    subst hout
    obtain ⟨stack, key⟩ := c
    cases key <;> simp [stackedMachine, StackedCur.out]
  current := by
    intro c x t ⟨hout, _, _, _⟩
    obtain ⟨stack, key⟩ := c
    cases key with
    | none => simp [StackedCur.out] at hout
    | some k =>
      simp only [StackedCur.out] at hout
      injection hout with h1 _
      simp [stackedMachine, h1]
  next := by
    intro c rem ⟨hout, hwf, hfuel, hchain⟩
    subst hout
    obtain ⟨stack, key⟩ := c
    cases key with
    | none => exact ⟨_, rfl, rfl, hwf, hfuel, hchain⟩
    | some k =>
      have hlen : stack.length = chain.length := hwf rfl
      have hfuel' : stackWeight chain stack < fuel := hfuel
      cases stack with
      | nil => simp at hlen; omega
      | cons top rest =>
        simp only [stackedMachine, Option.isSome_some, if_true]
        have hpre : keyWeight chain (top :: rest).length (popKey top).1 + stackWeight chain ((popKey top).2 :: rest)
            ≤ stackWeight chain (top :: rest) := by
          cases top with
          | nil => simp [popKey, keyWeight, stackWeight]
          | cons x t => simp [popKey, keyWeight, stackWeight]; omega
        have ih := calcNext_spec chain fuel ((popKey top).2 :: rest) (popKey top).1 (by simp)
          (by simp at hlen ⊢; omega)
          (by
            intro h
            cases top with
            | nil => exact ⟨rest, rfl⟩
            | cons x t => simp [popKey] at h)
          (by simp only [List.length_cons] at hpre ⊢; omega)
        obtain ⟨cur, hc, hout, hwf', hw⟩ := ih
        refine ⟨cur, hc, ?_, hwf', by simp only [List.length_cons] at hpre hw ⊢; omega, hchain⟩
        rw [hout]
        have hd : chain.drop (rest.length + 1) = [] := List.drop_eq_nil_iff.2 (by simp at hlen; omega)
        cases top with
        | nil => simp [StackedCur.out, popKey, keyOut, pendingOf]
        | cons x t =>
          simp [StackedCur.out, popKey, keyOut, pendingOf, hd, expandBelow, flatMap_expand_nil]
  seek := trivial
  seekS := trivial

/-- `compositeEntitySetSymbol.OpenCursor`: for every non-empty chain, every row and a step budget
    of at least `stackedFuel`, the stacked cursor yields exactly the depth-first concatenation of
    the keys of its path elements (values without type byte), then stays invalid -/
theorem stackedOpen_implements (l0 : Level) (ls : List Level) (rowId : Option Bytes) {fuel : Nat}
    (hf : stackedFuel (l0 :: ls) rowId ≤ fuel) :
    (stackedOpen (l0 :: ls) rowId fuel).Implements (Spec.plain (stackedKeys (l0 :: ls) rowId)) rowKeyOf := by
  have hpre : keyWeight (l0 :: ls) 1 (popKey (l0 rowId)).1 + stackWeight (l0 :: ls) [(popKey (l0 rowId)).2]
      < fuel := by
    simp only [stackedFuel] at hf
    cases hch : l0 rowId with
    | nil => simp [hch] at hf; simp [popKey, keyWeight, stackWeight]; omega
    | cons c cs => simp [hch] at hf; simp [popKey, keyWeight, stackWeight]; omega
  obtain ⟨cur, hc, hout, hwf, hw⟩ := calcNext_spec (l0 :: ls) fuel [(popKey (l0 rowId)).2] (popKey (l0 rowId)).1
    (by simp) (by simp)
    (by
      intro h
      cases hch : l0 rowId with
      | nil => exact ⟨[], by simp [popKey]⟩
      | cons c cs => simp [hch, popKey] at h)
    hpre
  refine ⟨RStacked (l0 :: ls) fuel, cur, hc, stacked_refines _ _ _, ?_, hwf, by simp only [List.length_singleton] at hw; omega, by simp⟩
  rw [hout]
  cases hch : l0 rowId with
  | nil => simp [popKey, keyOut, pendingOf, stackedKeys, hch, Spec.std]
  | cons c cs => simp [popKey, keyOut, pendingOf, stackedKeys, hch, Spec.std, List.flatMap_cons]

end StorageModel.Cursor
