import StorageModel.Driver.C11
/- `driver <prop> [spec]` : reads case lines on stdin, prints the model's (or the spec's)
   output line per case. -/
def main (args : List String) : IO UInt32 := do
  match args with
  | ["c11"] => StorageModel.Driver.C11.run false; return 0
  | ["c11", "spec"] => StorageModel.Driver.C11.run true; return 0
  | _ => IO.eprintln "usage: driver <prop> [spec]"; return 2
