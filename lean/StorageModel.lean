import StorageModel.Properties.C11
