package main

import (
	"fmt"
	"go/ast"
	"go/token"
	"go/types"
	"strings"
)

// dbSnapshotPathOps reads, from DbImpl.SnapshotInTx, what happens to the PATH strings, in source order.  A string
// variable is tracked from the `string` parameters on, through every assignment whose right-hand side mentions a
// tracked variable; it is named with the number of assignments it has received so far (parameter = 0).
//
//	replace <v> <n> <old> <by>   <v> = strings.ReplaceAll(<v>, "<old>", <by>) — <v> now has version <n>;
//	                             <by>: date / time (a variable assigned from <x>.Format("20060102" / "150405")),
//	                             dbDir / dbFile (filepath.Dir / filepath.Base of <recv>.db.Path()), else the source text
//	assign <v> <n> <source>      any other assignment to a tracked variable (or from one), for the variables that reach one
//	                             of the other events
//	copy <v> <n>                 <tx>.CopyFile(<v>, ..)
//	mark <v> <n>                 <recv>.MarkAsSnapshot(<v>)
//	ret <v> <n>                  a `return <v>, ..` on the top level of the body
//
// (called from extractDbLocks; emitted into Generated/DbLocks.lean as `dbSnapshotPathOps` and into facts/dblocks.json)
func dbSnapshotPathOps(methods map[string]*ast.FuncDecl) []string {
	fd, ok := methods["SnapshotInTx"]
	if !ok || fd.Body == nil {
		return []string{"assign ? 0 missing-method-SnapshotInTx"}
	}
	ver := map[string]int{}
	tracked := map[string]bool{}
	for _, p := range fd.Type.Params.List {
		if id, ok := p.Type.(*ast.Ident); ok && id.Name == "string" {
			for _, n := range p.Names {
				tracked[n.Name] = true
			}
		}
	}
	clean := func(s string) string { return strings.Join(strings.Fields(s), "") }
	// variables assigned from <x>.Format("layout")
	formats := map[string]string{}
	ast.Inspect(fd.Body, func(n ast.Node) bool {
		as, ok := n.(*ast.AssignStmt)
		if !ok || len(as.Lhs) != 1 || len(as.Rhs) != 1 {
			return true
		}
		id, ok1 := as.Lhs[0].(*ast.Ident)
		call, ok2 := as.Rhs[0].(*ast.CallExpr)
		if !ok1 || !ok2 || len(call.Args) != 1 {
			return true
		}
		if se, ok := call.Fun.(*ast.SelectorExpr); ok && se.Sel.Name == "Format" {
			if lit, ok := call.Args[0].(*ast.BasicLit); ok && lit.Kind == token.STRING {
				switch strings.Trim(lit.Value, "\"`") {
				case "20060102":
					formats[id.Name] = "date"
				case "150405":
					formats[id.Name] = "time"
				default:
					formats[id.Name] = "format:" + clean(lit.Value)
				}
			}
		}
		return true
	})
	byOf := func(e ast.Expr) string {
		if id, ok := e.(*ast.Ident); ok {
			if f, ok := formats[id.Name]; ok {
				return f
			}
		}
		s := clean(types.ExprString(e))
		switch {
		case strings.HasPrefix(s, "filepath.Dir(") && strings.HasSuffix(s, ".db.Path())"):
			return "dbDir"
		case strings.HasPrefix(s, "filepath.Base(") && strings.HasSuffix(s, ".db.Path())"):
			return "dbFile"
		}
		return s
	}
	mentionsTracked := func(e ast.Expr) bool {
		found := false
		ast.Inspect(e, func(n ast.Node) bool {
			if id, ok := n.(*ast.Ident); ok && tracked[id.Name] {
				found = true
			}
			return !found
		})
		return found
	}
	argOf := func(call *ast.CallExpr) string {
		if len(call.Args) == 0 {
			return "? 0"
		}
		if id, ok := call.Args[0].(*ast.Ident); ok {
			return fmt.Sprintf("%s %d", id.Name, ver[id.Name])
		}
		return "? 0"
	}
	var out []string
	topLevel := map[ast.Stmt]bool{}
	for _, s := range fd.Body.List {
		topLevel[s] = true
	}
	ast.Inspect(fd.Body, func(n ast.Node) bool {
		switch x := n.(type) {
		case *ast.FuncLit:
			return false
		case *ast.AssignStmt:
			if len(x.Lhs) == 1 && len(x.Rhs) == 1 {
				if id, ok := x.Lhs[0].(*ast.Ident); ok {
					if call, ok := x.Rhs[0].(*ast.CallExpr); ok && clean(types.ExprString(call.Fun)) == "strings.ReplaceAll" && len(call.Args) == 3 {
						if a0, ok := call.Args[0].(*ast.Ident); ok && a0.Name == id.Name && tracked[id.Name] {
							old := "?"
							if lit, ok := call.Args[1].(*ast.BasicLit); ok && lit.Kind == token.STRING {
								old = strings.Trim(lit.Value, "\"`")
							}
							ver[id.Name]++
							out = append(out, fmt.Sprintf("replace %s %d %s %s", id.Name, ver[id.Name], old, byOf(call.Args[2])))
							return false
						}
					}
					if tracked[id.Name] || mentionsTracked(x.Rhs[0]) {
						// calls inside (CopyFile / MarkAsSnapshot) are events of their own: visit the children first
						tracked[id.Name] = true
						ver[id.Name]++
						out = append(out, fmt.Sprintf("assign %s %d %s", id.Name, ver[id.Name], clean(types.ExprString(x.Rhs[0]))))
					}
				}
			}
		case *ast.CallExpr:
			if se, ok := x.Fun.(*ast.SelectorExpr); ok {
				switch se.Sel.Name {
				case "CopyFile":
					out = append(out, "copy "+argOf(x))
				case "MarkAsSnapshot":
					out = append(out, "mark "+argOf(x))
				}
			}
		case *ast.ReturnStmt:
			if topLevel[x] && len(x.Results) > 0 {
				if id, ok := x.Results[0].(*ast.Ident); ok {
					out = append(out, fmt.Sprintf("ret %s %d", id.Name, ver[id.Name]))
				}
			}
		}
		return true
	})
	// an assignment matters only for a variable that reaches CopyFile / MarkAsSnapshot / ReplaceAll / the return
	used := map[string]bool{}
	for _, e := range out {
		if f := strings.Fields(e); f[0] != "assign" {
			used[f[1]] = true
		}
	}
	var kept []string
	for _, e := range out {
		if f := strings.Fields(e); f[0] == "assign" && !used[f[1]] {
			continue
		}
		kept = append(kept, e)
	}
	return kept
}

func dbSnapshotPathOpsLean(evs []string) string {
	var b strings.Builder
	b.WriteString("/-- what SnapshotInTx does with its path strings, in source order (variable, number of assignments so far) -/\n")
	b.WriteString("def dbSnapshotPathOps : List PathEv := [")
	for i, e := range evs {
		if i > 0 {
			b.WriteString(", ")
		}
		f := strings.SplitN(e, " ", 5)
		switch f[0] {
		case "replace":
			fmt.Fprintf(&b, ".replace %q %s %q %q", f[1], f[2], f[3], f[4])
		case "assign":
			fmt.Fprintf(&b, ".assign %q %s %q", f[1], f[2], strings.Join(f[3:], " "))
		default:
			fmt.Fprintf(&b, ".%s %q %s", f[0], f[1], f[2])
		}
	}
	b.WriteString("]\n")
	return b.String()
}
