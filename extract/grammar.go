package main

// extractGrammar (property C12): regenerates lean/StorageModel/Generated/Grammar.lean from
//
//   - zitiql/ZitiQl.g4: the ordered, labelled alternatives of the rule `boolExpr` with their
//     shape (primary / group / prefix NOT / binary `e op e` / suffix loop `e (op e)+`), the
//     letter fragments and the keyword tokens AND OR NOT TRUE FALSE, WS, LPAREN, RPAREN;
//   - zitiql/zitiql_parser.go: the numbers of the generated `func (p *ZitiQlParser)
//     boolExpr(_p int)` — for each recursive alternative the `p.Precpred(ctx, k)` guard, the
//     argument of the `p.boolExpr(k)` call that parses its operand and whether that call sits in
//     a generated `(...)+` loop — and the argument with which `Query()` enters the rule.
//
//   - ast/bolt_listener.go: the bodies of ToBoltListener.ExitAndExpr / ExitOrExpr / ExitNotExpr /
//     ExitGroup, compared (go/printer text without comments and layout) with the forms the Lean
//     model interprets, and the number of mentions of the field `.grouped` in package ast.
//
//   - ast/node_convert.go, node_expr.go, helper.go, node_query.go: signature + body of
//     BooleanLogicExprNode.TypeTransformBool, UntypedNotExprNode.TypeTransformBool, EvalBool of
//     AndExprNode / OrExprNode / NotExprNode, transformTypes, transformBools, PostProcess,
//     untypedQueryNode.TypeTransformBool, compared in the same way with the forms the model's
//     `transform` / `T.eval` follow (`boolTransform : TransformShape`): a simplification or rewrite
//     of the typed tree added there breaks obligation `transform_is_plain`.
//
// The generated parser is what runs; the .g4 file only documents it.  Both are emitted so that
// the Lean side can check that they still tell the same story (obligation
// `parser_numbers_match_grammar`) and so that the parser model is instantiated with the numbers
// the code contains *now*.
import (
	"crypto/sha256"
	"encoding/hex"
	"encoding/json"
	"fmt"
	"go/ast"
	"go/parser"
	"go/printer"
	"go/token"
	"os"
	"path/filepath"
	"regexp"
	"strconv"
	"strings"
)

type g4Alt struct {
	Text  string `json:"text"`
	Label string `json:"label"`
	Shape string `json:"shape"` // primary group prefixNot binary suffixLoop other
	Op    string `json:"op,omitempty"`
}

type g4ParserCall struct {
	Label  string `json:"label"`
	Level  int    `json:"level"`
	InLoop bool   `json:"inLoop"`
}

type grammarFacts struct {
	Alts       []g4Alt           `json:"boolExprAlts"`
	Fragments  map[string]string `json:"fragments"`
	Keywords   map[string]string `json:"keywords"`
	Ws         string            `json:"ws"`
	LParen     string            `json:"lparen"`
	RParen     string            `json:"rparen"`
	Precpreds  []g4ParserCall    `json:"precpreds"`
	Calls      []g4ParserCall    `json:"boolExprCalls"`
	StartCalls []int             `json:"startCalls"`
	Listener   map[string]string `json:"listenerMethods"`
	GroupedUse int               `json:"groupedUses"`
	Typing     map[string]string `json:"typingFunctions"`
	ParserHash string            `json:"parserSha256"`
	LexerHash  string            `json:"lexerSha256"`
	Notes      []string          `json:"notes,omitempty"`
}

const g4MissingNum = 999999 // sentinel: a number that could not be extracted (breaks the obligations)

func g4FileHash(path string) string {
	b, err := os.ReadFile(path)
	if err != nil {
		return "unreadable"
	}
	h := sha256.Sum256(b)
	return hex.EncodeToString(h[:])
}

// stripG4Comments removes // line comments and /* */ comments outside of quoted literals and
// character sets.
func stripG4Comments(src string) string {
	var b strings.Builder
	inQuote, inSet := false, false
	for i := 0; i < len(src); i++ {
		c := src[i]
		switch {
		case inQuote:
			b.WriteByte(c)
			if c == '\\' && i+1 < len(src) {
				i++
				b.WriteByte(src[i])
			} else if c == '\'' {
				inQuote = false
			}
		case inSet:
			b.WriteByte(c)
			if c == '\\' && i+1 < len(src) {
				i++
				b.WriteByte(src[i])
			} else if c == ']' {
				inSet = false
			}
		case c == '\'':
			inQuote = true
			b.WriteByte(c)
		case c == '[':
			inSet = true
			b.WriteByte(c)
		case c == '/' && i+1 < len(src) && src[i+1] == '/':
			for i < len(src) && src[i] != '\n' {
				i++
			}
			b.WriteByte('\n')
		case c == '/' && i+1 < len(src) && src[i+1] == '*':
			i += 2
			for i+1 < len(src) && !(src[i] == '*' && src[i+1] == '/') {
				i++
			}
			i++
		default:
			b.WriteByte(c)
		}
	}
	return b.String()
}

// g4Rules splits a grammar into `name : body ;` rules (fragment rules get the name "fragment X").
func g4Rules(src string) map[string]string {
	rules := map[string]string{}
	inQuote, inSet := false, false
	start := 0
	for i := 0; i < len(src); i++ {
		c := src[i]
		switch {
		case inQuote:
			if c == '\\' {
				i++
			} else if c == '\'' {
				inQuote = false
			}
		case inSet:
			if c == '\\' {
				i++
			} else if c == ']' {
				inSet = false
			}
		case c == '\'':
			inQuote = true
		case c == '[':
			inSet = true
		case c == ';':
			stmt := strings.TrimSpace(src[start:i])
			start = i + 1
			if k := strings.Index(stmt, ":"); k > 0 {
				name := strings.Join(strings.Fields(stmt[:k]), " ")
				rules[name] = strings.TrimSpace(stmt[k+1:])
			}
		}
	}
	return rules
}

// g4SplitAlts splits a rule body at top-level `|`.
func g4SplitAlts(body string) []string {
	var alts []string
	depth, start := 0, 0
	inQuote, inSet := false, false
	for i := 0; i < len(body); i++ {
		c := body[i]
		switch {
		case inQuote:
			if c == '\\' {
				i++
			} else if c == '\'' {
				inQuote = false
			}
		case inSet:
			if c == '\\' {
				i++
			} else if c == ']' {
				inSet = false
			}
		case c == '\'':
			inQuote = true
		case c == '[':
			inSet = true
		case c == '(':
			depth++
		case c == ')':
			depth--
		case c == '|' && depth == 0:
			alts = append(alts, body[start:i])
			start = i + 1
		}
	}
	return append(alts, body[start:])
}

var (
	g4ReBinary = regexp.MustCompile(`^boolExpr WS\+ (AND|OR) WS\+ boolExpr$`)
	g4ReSuffix = regexp.MustCompile(`^boolExpr \( ?WS\+ (AND|OR) WS\+ boolExpr ?\)\+$`)
)

func g4ClassifyAlt(text string) (shape, op string) {
	t := strings.Join(strings.Fields(text), " ")
	switch {
	case t == "LPAREN WS* boolExpr WS* RPAREN":
		return "group", ""
	case t == "NOT WS+ boolExpr":
		return "prefixNot", ""
	}
	if m := g4ReBinary.FindStringSubmatch(t); m != nil {
		return "binary", strings.ToLower(m[1])
	}
	if m := g4ReSuffix.FindStringSubmatch(t); m != nil {
		return "suffixLoop", strings.ToLower(m[1])
	}
	if !regexp.MustCompile(`\bboolExpr\b`).MatchString(t) {
		return "primary", ""
	}
	return "other", ""
}

// g4CharSet decodes an ANTLR character set such as `[aA]` or `[ \n\t\r]` (no ranges expected in
// the sets this extractor reads; a range yields ok=false).
func g4CharSet(s string) (string, bool) {
	s = strings.TrimSpace(s)
	if len(s) < 2 || s[0] != '[' || s[len(s)-1] != ']' {
		return "", false
	}
	s = s[1 : len(s)-1]
	var out []byte
	for i := 0; i < len(s); i++ {
		c := s[i]
		if c == '\\' && i+1 < len(s) {
			i++
			switch s[i] {
			case 'n':
				out = append(out, '\n')
			case 't':
				out = append(out, '\t')
			case 'r':
				out = append(out, '\r')
			case 'f':
				out = append(out, '\f')
			case '\\', ']', '-':
				out = append(out, s[i])
			default:
				return "", false
			}
			continue
		}
		if c == '-' && i > 0 && i+1 < len(s) {
			return "", false
		}
		out = append(out, c)
	}
	return string(out), true
}

func g4QuotedChar(s string) (string, bool) {
	s = strings.TrimSpace(s)
	if len(s) == 3 && s[0] == '\'' && s[2] == '\'' {
		return s[1:2], true
	}
	return "", false
}

func g4IsMethod(fd *ast.FuncDecl, recv, name string) bool {
	if fd.Recv == nil || len(fd.Recv.List) != 1 || fd.Name.Name != name {
		return false
	}
	st, ok := fd.Recv.List[0].Type.(*ast.StarExpr)
	if !ok {
		return false
	}
	id, ok := st.X.(*ast.Ident)
	return ok && id.Name == recv
}

func g4IntArg(e ast.Expr) (int, bool) {
	bl, ok := e.(*ast.BasicLit)
	if !ok || bl.Kind != token.INT {
		return 0, false
	}
	n, err := strconv.Atoi(bl.Value)
	return n, err == nil
}

func g4PMethodCall(e ast.Expr, name string) (*ast.CallExpr, bool) {
	call, ok := e.(*ast.CallExpr)
	if !ok {
		return nil, false
	}
	se, ok := call.Fun.(*ast.SelectorExpr)
	if !ok || se.Sel.Name != name {
		return nil, false
	}
	id, ok := se.X.(*ast.Ident)
	return call, ok && id.Name == "p"
}

var g4ReNewCtx = regexp.MustCompile(`^New(\w+)Context$`)

// scanBoolExprFunc walks the body of boolExpr(_p int) in source order.  The alternative a call
// belongs to is the context most recently assigned to `localctx` (`localctx =
// NewAndExprContext(...)` opens each generated case).
func scanBoolExprFunc(fd *ast.FuncDecl, res *grammarFacts) {
	label := ""
	var loops []*ast.ForStmt
	var visit func(n ast.Node) bool
	visit = func(n ast.Node) bool {
		switch x := n.(type) {
		case *ast.AssignStmt:
			if len(x.Lhs) == 1 && len(x.Rhs) == 1 {
				if id, ok := x.Lhs[0].(*ast.Ident); ok && id.Name == "localctx" {
					if call, ok := x.Rhs[0].(*ast.CallExpr); ok {
						if fn, ok := call.Fun.(*ast.Ident); ok {
							if m := g4ReNewCtx.FindStringSubmatch(fn.Name); m != nil && m[1] != "BoolExpr" {
								label = m[1]
							}
						}
					}
				}
			}
		case *ast.ForStmt:
			loops = append(loops, x)
			if x.Init != nil {
				ast.Inspect(x.Init, visit)
			}
			ast.Inspect(x.Body, visit)
			loops = loops[:len(loops)-1]
			return false
		case *ast.CallExpr:
			if call, ok := g4PMethodCall(x, "boolExpr"); ok && len(call.Args) == 1 {
				if k, ok := g4IntArg(call.Args[0]); ok {
					// a generated (...)+ loop: `for ok := true; ok; ok = _alt != 2 && ...`
					inLoop := false
					for _, l := range loops {
						if as, ok := l.Post.(*ast.AssignStmt); ok && len(as.Rhs) == 1 {
							found := false
							ast.Inspect(as.Rhs[0], func(m ast.Node) bool {
								if id, ok := m.(*ast.Ident); ok && id.Name == "_alt" {
									found = true
								}
								return true
							})
							if id, ok2 := as.Lhs[0].(*ast.Ident); ok2 && id.Name == "ok" && found {
								inLoop = true
							}
						}
					}
					res.Calls = append(res.Calls, g4ParserCall{Label: label, Level: k, InLoop: inLoop})
				}
			}
			if call, ok := g4PMethodCall(x, "Precpred"); ok && len(call.Args) == 2 {
				if k, ok := g4IntArg(call.Args[1]); ok {
					// the guard appears twice per alternative (once in the error message path);
					// record the first occurrence per label
					dup := false
					for _, c := range res.Precpreds {
						if c.Label == label {
							dup = true
							if c.Level != k {
								res.Notes = append(res.Notes, fmt.Sprintf("conflicting Precpred levels for %s: %d and %d", label, c.Level, k))
							}
						}
					}
					if !dup {
						res.Precpreds = append(res.Precpreds, g4ParserCall{Label: label, Level: k})
					}
				}
			}
		}
		return true
	}
	ast.Inspect(fd.Body, visit)
}

func extractGrammar(repo, gen, facts string) {
	res := grammarFacts{Fragments: map[string]string{}, Keywords: map[string]string{}}
	g4Path := filepath.Join(repo, "zitiql", "ZitiQl.g4")
	parserPath := filepath.Join(repo, "zitiql", "zitiql_parser.go")
	res.ParserHash = g4FileHash(parserPath)
	res.LexerHash = g4FileHash(filepath.Join(repo, "zitiql", "zitiql_lexer.go"))

	// ---- the grammar file
	if raw, err := os.ReadFile(g4Path); err != nil {
		res.Notes = append(res.Notes, "cannot read ZitiQl.g4: "+err.Error())
	} else {
		rules := g4Rules(stripG4Comments(string(raw)))
		if body, ok := rules["boolExpr"]; ok {
			for _, a := range g4SplitAlts(body) {
				text, lbl := strings.TrimSpace(a), ""
				if k := strings.LastIndex(text, "#"); k >= 0 {
					lbl = strings.TrimSpace(text[k+1:])
					text = strings.TrimSpace(text[:k])
				}
				shape, op := g4ClassifyAlt(text)
				res.Alts = append(res.Alts, g4Alt{Text: strings.Join(strings.Fields(text), " "), Label: lbl, Shape: shape, Op: op})
			}
		} else {
			res.Notes = append(res.Notes, "rule boolExpr not found in ZitiQl.g4")
		}
		for name, body := range rules {
			if strings.HasPrefix(name, "fragment ") {
				fn := strings.TrimPrefix(name, "fragment ")
				if len(fn) == 1 {
					if cs, ok := g4CharSet(body); ok {
						res.Fragments[fn] = cs
					}
				}
			}
		}
		for _, kw := range []string{"AND", "OR", "NOT", "fragment TRUE", "fragment FALSE"} {
			if body, ok := rules[kw]; ok {
				res.Keywords[strings.TrimPrefix(kw, "fragment ")] = strings.Join(strings.Fields(body), " ")
			} else {
				res.Notes = append(res.Notes, "token "+kw+" not found")
			}
		}
		if body, ok := rules["BOOL"]; !ok || strings.Join(strings.Fields(body), " ") != "TRUE | FALSE" {
			res.Notes = append(res.Notes, "BOOL is not TRUE | FALSE")
			delete(res.Keywords, "TRUE")
			delete(res.Keywords, "FALSE")
		}
		if cs, ok := g4CharSet(rules["WS"]); ok {
			res.Ws = cs
		} else {
			res.Notes = append(res.Notes, "WS is not a plain character set")
		}
		if c, ok := g4QuotedChar(rules["LPAREN"]); ok {
			res.LParen = c
		}
		if c, ok := g4QuotedChar(rules["RPAREN"]); ok {
			res.RParen = c
		}
	}

	// ---- the generated parser
	fset := token.NewFileSet()
	file, err := parser.ParseFile(fset, parserPath, nil, 0)
	if err != nil {
		res.Notes = append(res.Notes, "cannot parse zitiql_parser.go: "+err.Error())
	} else {
		for _, d := range file.Decls {
			fd, ok := d.(*ast.FuncDecl)
			if !ok || fd.Body == nil {
				continue
			}
			switch {
			case g4IsMethod(fd, "ZitiQlParser", "boolExpr"):
				scanBoolExprFunc(fd, &res)
			case g4IsMethod(fd, "ZitiQlParser", "Query"), g4IsMethod(fd, "ZitiQlParser", "BoolExpr"):
				ast.Inspect(fd.Body, func(n ast.Node) bool {
					if call, ok := g4PMethodCall2(n, "boolExpr"); ok && len(call.Args) == 1 {
						if k, ok := g4IntArg(call.Args[0]); ok {
							res.StartCalls = append(res.StartCalls, k)
						}
					}
					return true
				})
			}
		}
	}

	// ---- the hand-written listener methods that build the boolean structure
	res.Listener = map[string]string{}
	lfset := token.NewFileSet()
	if lfile, err := parser.ParseFile(lfset, filepath.Join(repo, "ast", "bolt_listener.go"), nil, 0); err != nil {
		res.Notes = append(res.Notes, "cannot parse ast/bolt_listener.go: "+err.Error())
	} else {
		for _, d := range lfile.Decls {
			fd, ok := d.(*ast.FuncDecl)
			if !ok || fd.Body == nil {
				continue
			}
			for _, name := range []string{"ExitAndExpr", "ExitOrExpr", "ExitNotExpr", "ExitGroup"} {
				if g4IsMethod(fd, "ToBoltListener", name) {
					var b strings.Builder
					_ = printer.Fprint(&b, lfset, fd.Body)
					res.Listener[name] = strings.Join(strings.Fields(b.String()), " ")
				}
			}
		}
	}
	// every mention of the field `.grouped` in package ast (non-test files)
	if ents, err := os.ReadDir(filepath.Join(repo, "ast")); err == nil {
		for _, e := range ents {
			if e.IsDir() || !strings.HasSuffix(e.Name(), ".go") || strings.HasSuffix(e.Name(), "_test.go") {
				continue
			}
			f, err := parser.ParseFile(token.NewFileSet(), filepath.Join(repo, "ast", e.Name()), nil, 0)
			if err != nil {
				continue
			}
			ast.Inspect(f, func(n ast.Node) bool {
				if se, ok := n.(*ast.SelectorExpr); ok && se.Sel.Name == "grouped" {
					res.GroupedUse++
				}
				return true
			})
		}
	}

	// ---- what happens to the boolean structure after the listener: typing and evaluation
	res.Typing = map[string]string{}
	for _, tf := range g4TypingFuncs {
		f, err := parser.ParseFile(token.NewFileSet(), filepath.Join(repo, "ast", tf.file), nil, 0)
		if err != nil {
			res.Notes = append(res.Notes, "cannot parse ast/"+tf.file+": "+err.Error())
			continue
		}
		for _, d := range f.Decls {
			fd, ok := d.(*ast.FuncDecl)
			if !ok || fd.Body == nil {
				continue
			}
			if (tf.recv == "" && fd.Recv == nil && fd.Name.Name == tf.name) || (tf.recv != "" && g4IsMethod(fd, tf.recv, tf.name)) {
				var b strings.Builder
				_ = printer.Fprint(&b, token.NewFileSet(), fd.Type)
				b.WriteString(" ")
				_ = printer.Fprint(&b, token.NewFileSet(), fd.Body)
				res.Typing[tf.key()] = strings.Join(strings.Fields(b.String()), " ")
			}
		}
	}

	js, _ := json.MarshalIndent(res, "", " ")
	writeIfChanged(filepath.Join(facts, "grammar.json"), string(js)+"\n")
	writeIfChanged(filepath.Join(gen, "Grammar.lean"), grammarLean(&res))
}

// canonical bodies (go/printer output, comments dropped, whitespace collapsed) of the listener
// methods the Lean model has an interpretation for
const (
	g4ExitBinPlain   = "{ bl.printDebug(c) right := bl.popNode() left := bl.popNode() if !bl.HasError() { bl.pushStack(&BooleanLogicExprNode{left: left, right: right, op: %s}) } }"
	g4ExitAndReassoc = "{ bl.printDebug(c) right := bl.popNode() left := bl.popNode() if !bl.HasError() { " +
		"if or, ok := right.(*BooleanLogicExprNode); ok && or.op == OrOp && !or.grouped { " +
		"left = &BooleanLogicExprNode{left: left, right: or.left, op: AndOp} " +
		"bl.pushStack(&BooleanLogicExprNode{left: left, right: or.right, op: OrOp}) return } " +
		"bl.pushStack(&BooleanLogicExprNode{left: left, right: right, op: AndOp}) } }"
	g4ExitNotPlain   = "{ bl.printDebug(c) expr := bl.popNode() if !bl.HasError() { bl.pushStack(&UntypedNotExprNode{expr: expr}) } }"
	g4ExitGroupMarks = "{ bl.printDebug(c) if node, ok := bl.peekStack().(*BooleanLogicExprNode); ok { node.grouped = true } }"
)

func g4ListenerLean(res *grammarFacts) string {
	and, or, not, grp := "unknown", "unknown", "unknown", "unknown"
	switch res.Listener["ExitAndExpr"] {
	case fmt.Sprintf(g4ExitBinPlain, "AndOp"):
		and = "plain"
	case g4ExitAndReassoc:
		and = "reassoc"
	}
	if res.Listener["ExitOrExpr"] == fmt.Sprintf(g4ExitBinPlain, "OrOp") {
		or = "plain"
	}
	if res.Listener["ExitNotExpr"] == g4ExitNotPlain {
		not = "plain"
	}
	if body, ok := res.Listener["ExitGroup"]; !ok {
		grp = "absent"
	} else if body == g4ExitGroupMarks {
		grp = "marks"
	}
	return fmt.Sprintf("/-- how ExitAndExpr / ExitOrExpr / ExitNotExpr / ExitGroup of ast/bolt_listener.go are written -/\n"+
		"def boolListener : ListenerShape :=\n  { andExit := .%s, orExit := .%s, notExit := .%s, groupExit := .%s, groupedUses := %d }\n\n",
		and, or, not, grp, res.GroupedUse)
}

// the functions of package ast that type and evaluate the boolean structure after the listener;
// `want` is the canonical text (go/printer output of signature + body, comments dropped,
// whitespace collapsed) of the form the Lean model (`transform`, `T.eval` of
// StorageModel/C12/Skel.lean) follows
type g4TypingFunc struct {
	file, recv, name string
	field            string // field of TransformShape the function belongs to
	want             string
}

func (t g4TypingFunc) key() string {
	if t.recv == "" {
		return t.name
	}
	return t.recv + "." + t.name
}

var g4TypingFuncs = []g4TypingFunc{
	{"node_convert.go", "BooleanLogicExprNode", "TypeTransformBool", "binTransform",
		`func(s SymbolTypes) (BoolNode, error) { if err := transformTypes(s, &node.left, &node.right); err != nil { return node, err } left, ok := node.left.(BoolNode) if !ok { return node, errors.Errorf("boolean logic expression LHS is of type %v, not bool", reflect.TypeOf(node.left)) } right, ok := node.right.(BoolNode) if !ok { return node, errors.Errorf("boolean logic expression RHS is of type %v, not bool", reflect.TypeOf(node.right)) } if node.op == AndOp { return &AndExprNode{left, right}, nil } if node.op == OrOp { return &OrExprNode{left, right}, nil } return node, errors.Errorf("unsupported boolean logic expression operation %v", node.op) }`},
	{"node_convert.go", "UntypedNotExprNode", "TypeTransformBool", "notTransform",
		`func(s SymbolTypes) (BoolNode, error) { if err := transformTypes(s, &node.expr); err != nil { return node, err } boolNode, ok := node.expr.(BoolNode) if !ok { return node, errors.Errorf("not expr must wrap bool expr. contains %v", reflect.TypeOf(node.expr)) } return &NotExprNode{expr: boolNode}, nil }`},
	{"node_expr.go", "AndExprNode", "EvalBool", "andEval",
		`func(s Symbols) bool { if !node.left.EvalBool(s) { return false } return node.right.EvalBool(s) }`},
	{"node_expr.go", "OrExprNode", "EvalBool", "orEval",
		`func(s Symbols) bool { leftResult := node.left.EvalBool(s) if leftResult { return true } return node.right.EvalBool(s) }`},
	{"node_expr.go", "NotExprNode", "EvalBool", "notEval",
		`func(s Symbols) bool { val := node.expr.EvalBool(s) return !val }`},
	{"node_convert.go", "", "transformTypes", "glue",
		`func(s SymbolTypes, nodes ...*Node) error { for _, node := range nodes { if sp, ok := (*node).(TypeTransformable); ok { transformed, err := sp.TypeTransform(s) if err != nil { return err } *node = transformed } if sp, ok := (*node).(BoolTypeTransformable); ok { transformed, err := sp.TypeTransformBool(s) if err != nil { return err } *node = transformed } } return nil }`},
	{"helper.go", "", "transformBools", "glue",
		`func(s SymbolTypes, nodes ...*BoolNode) error { for _, node := range nodes { if sp, ok := (*node).(BoolTypeTransformable); ok { transformed, err := sp.TypeTransformBool(s) if err != nil { return err } *node = transformed } } return nil }`},
	{"helper.go", "", "PostProcess", "glue",
		`func(symbolTypes SymbolTypes, node *BoolNode) error { setSymbolValidator := &SymbolValidator{symbolTypes: symbolTypes} (*node).Accept(setSymbolValidator) if setSymbolValidator.HasError() { return setSymbolValidator.GetError() } return transformBools(symbolTypes, node) }`},
	{"node_query.go", "untypedQueryNode", "TypeTransformBool", "glue",
		`func(s SymbolTypes) (BoolNode, error) { if err := transformTypes(s, &node.predicate); err != nil { return node, err } if _, err := node.sortBy.TypeTransform(s); err != nil { return node, err } boolNode, ok := node.predicate.(BoolNode) if !ok { return node, errors.Errorf("query expr predicate must be a boolean expr. contains %v", reflect.TypeOf(node.predicate)) } return &queryNode{Predicate: boolNode, SortBy: node.sortBy, Skip: node.skip, Limit: node.limit}, nil }`},
}

func g4TransformLean(res *grammarFacts) string {
	fields := []string{"binTransform", "notTransform", "andEval", "orEval", "notEval", "glue"}
	form := map[string]string{}
	for _, tf := range g4TypingFuncs {
		got, ok := res.Typing[tf.key()]
		f := "plain"
		if !ok {
			f = "absent"
		} else if got != tf.want {
			f = "unknown"
		}
		// a field covering several functions is plain only if all of them are
		if cur, seen := form[tf.field]; !seen || cur == "plain" {
			form[tf.field] = f
		}
	}
	var parts []string
	for _, f := range fields {
		parts = append(parts, fmt.Sprintf("%s := .%s", f, form[f]))
	}
	return "/-- how BooleanLogicExprNode.TypeTransformBool / UntypedNotExprNode.TypeTransformBool, EvalBool of\n" +
		"    AndExprNode / OrExprNode / NotExprNode and the transformTypes glue of package ast are written -/\n" +
		"def boolTransform : TransformShape :=\n  { " + strings.Join(parts[:3], ", ") + ",\n    " + strings.Join(parts[3:], ", ") + " }\n\n"
}

func g4PMethodCall2(n ast.Node, name string) (*ast.CallExpr, bool) {
	e, ok := n.(ast.Expr)
	if !ok {
		return nil, false
	}
	return g4PMethodCall(e, name)
}

func g4LeanStr(s string) string { return strconv.Quote(s) }

func g4LeanChars(s string) string {
	parts := []string{}
	for _, r := range s {
		parts = append(parts, fmt.Sprintf("Char.ofNat %d", r))
	}
	return "[" + strings.Join(parts, ", ") + "]"
}

func grammarLean(res *grammarFacts) string {
	var b strings.Builder
	b.WriteString("import StorageModel.C12.Grammar\n")
	b.WriteString("/- GENERATED by /verif/extract (grammar.go) from zitiql/ZitiQl.g4, zitiql/zitiql_parser.go, ast/bolt_listener.go and the typing functions of package ast — do not edit. -/\n")
	b.WriteString("namespace StorageModel.Generated\nopen StorageModel.C12\n\n")

	// alternatives of boolExpr, in file order
	b.WriteString("/-- the labelled alternatives of `boolExpr` in ZitiQl.g4, in file order -/\n")
	b.WriteString("def boolExprAlts : List AltShape :=\n  [")
	for i, a := range res.Alts {
		if i > 0 {
			b.WriteString(",\n   ")
		}
		switch a.Shape {
		case "primary", "group", "prefixNot":
			fmt.Fprintf(&b, ".%s %s", a.Shape, g4LeanStr(a.Label))
		case "binary", "suffixLoop":
			fmt.Fprintf(&b, ".%s .%s %s", a.Shape, a.Op, g4LeanStr(a.Label))
		default:
			fmt.Fprintf(&b, ".other %s", g4LeanStr(a.Text))
		}
	}
	b.WriteString("]\n\n")

	// numbers of the generated parser
	labelOf := func(shape []string, op string) string {
		for _, a := range res.Alts {
			for _, s := range shape {
				if a.Shape == s && a.Op == op {
					return a.Label
				}
			}
		}
		return ""
	}
	prec := func(label string) int {
		for _, c := range res.Precpreds {
			if c.Label == label && label != "" {
				return c.Level
			}
		}
		return g4MissingNum
	}
	call := func(label string) (int, bool) {
		n, lvl, loop := 0, g4MissingNum, false
		for _, c := range res.Calls {
			if c.Label == label && label != "" {
				n++
				lvl, loop = c.Level, c.InLoop
			}
		}
		if n != 1 {
			return g4MissingNum, false
		}
		return lvl, loop
	}
	andL := labelOf([]string{"binary", "suffixLoop"}, "and")
	orL := labelOf([]string{"binary", "suffixLoop"}, "or")
	notL := labelOf([]string{"prefixNot"}, "")
	grpL := labelOf([]string{"group"}, "")
	andR, andLoop := call(andL)
	orR, orLoop := call(orL)
	notR, _ := call(notL)
	grpR, _ := call(grpL)
	start := g4MissingNum
	if len(res.StartCalls) > 0 {
		start = res.StartCalls[0]
		for _, s := range res.StartCalls {
			if s != start {
				start = g4MissingNum
			}
		}
	}
	b.WriteString("/-- the numbers in `func (p *ZitiQlParser) boolExpr(_p int)` of zitiql_parser.go -/\n")
	fmt.Fprintf(&b, "def boolExprParser : ParserNums :=\n  { andPrec := %d, andRight := %d, andLoop := %v,\n    orPrec := %d, orRight := %d, orLoop := %v,\n    notLevel := %d, groupLevel := %d, startLevel := %d }\n\n",
		prec(andL), andR, andLoop, prec(orL), orR, orLoop, notR, grpR, start)

	b.WriteString(g4ListenerLean(res))
	b.WriteString(g4TransformLean(res))

	// keyword tokens as fragment sequences
	b.WriteString("/-- keyword tokens of the lexer grammar, each letter fragment expanded to its character set -/\n")
	b.WriteString("def keywords : List KeywordDef :=\n  [")
	first := true
	for _, kw := range []string{"AND", "OR", "NOT", "TRUE", "FALSE"} {
		body, ok := res.Keywords[kw]
		if !ok {
			continue
		}
		var sets []string
		good := true
		for _, f := range strings.Fields(body) {
			cs, ok := res.Fragments[f]
			if !ok {
				good = false
				break
			}
			sets = append(sets, g4LeanChars(cs))
		}
		if !good {
			continue
		}
		if !first {
			b.WriteString(",\n   ")
		}
		first = false
		fmt.Fprintf(&b, "{ name := %s, letters := [%s] }", g4LeanStr(kw), strings.Join(sets, ", "))
	}
	b.WriteString("]\n\n")
	fmt.Fprintf(&b, "def wsChars : List Char := %s\n", g4LeanChars(res.Ws))
	fmt.Fprintf(&b, "def lparenChars : List Char := %s\n", g4LeanChars(res.LParen))
	fmt.Fprintf(&b, "def rparenChars : List Char := %s\n", g4LeanChars(res.RParen))
	b.WriteString("\nend StorageModel.Generated\n")
	return b.String()
}
