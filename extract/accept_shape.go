package main

// accept_shape.go (property C20): the decision structure of the public-symbol validator itself,
// read from the Go source and written as data that the Lean model interprets
// (lean/StorageModel/C20/Table.lean: ValidatorShape; C20/Shape.lean: interpreters, GoodShape).
//
//	boltz/store_query.go  BaseStore.IsPublicSymbol            -> DTree   (decision tree over lookups in the store's key sets)
//	boltz/validate.go     publicSymbolValidator.VisitSymbol   -> []VStmt (guarded assignments to visitor.err / early returns)
//	boltz/validate.go     ValidateSymbolsArePublic            -> []WStmt (fresh validator, walk, returned error)
//	ast/node_query.go     methods of queryNode of the form `return recv.F`   -> getters
//
// Everything that is not one of the recognised shapes becomes `unknown` / `other` with the source
// text, which no good shape contains: the obligation `validator_good` then fails.

import (
	"bytes"
	"fmt"
	"go/ast"
	"go/parser"
	"go/printer"
	"go/token"
	"path/filepath"
	"sort"
	"strconv"
	"strings"
)

type shapeOut struct {
	IsPublic    string      `json:"isPublic"`    // Lean term of type DTree
	VisitSymbol string      `json:"visitSymbol"` // Lean term of type List VStmt
	Walk        string      `json:"walk"`        // Lean term of type List WStmt
	Getters     [][2]string `json:"getters"`
	Fields      []string    `json:"validatorFields"`
	Notes       []string    `json:"notes,omitempty"`
}

func srcOf(fset *token.FileSet, n ast.Node) string {
	var b bytes.Buffer
	_ = printer.Fprint(&b, fset, n)
	s := strings.Join(strings.Fields(b.String()), " ")
	if len(s) > 160 {
		s = s[:160] + "…"
	}
	return s
}

// ------------------------------------------------------------------------------ IsPublicSymbol

type ipsVal struct {
	kind string // name | cond | parts | idxFirst | idxLast | parent (the store's parent store) | mapEntry (store.mapSymbols[<lean>])
	lean string // Lean term (NameE for name, CondE for cond)
}

type ipsCtx struct {
	fset  *token.FileSet
	recv  string // receiver variable (store)
	param string // the symbol parameter
}

func (c *ipsCtx) other(kind string, n ast.Node) string {
	return fmt.Sprintf("(.other %s)", leanStr(kind+": "+srcOf(c.fset, n)))
}

func isStringsCall(e ast.Expr, names ...string) (*ast.CallExpr, string, bool) {
	call, ok := e.(*ast.CallExpr)
	if !ok {
		return nil, "", false
	}
	sel, ok := call.Fun.(*ast.SelectorExpr)
	if !ok || !isIdent(sel.X, "strings") {
		return nil, "", false
	}
	for _, n := range names {
		if sel.Sel.Name == n {
			return call, n, true
		}
	}
	return nil, "", false
}

func isDotLit(e ast.Expr) bool {
	bl, ok := e.(*ast.BasicLit)
	if !ok {
		return false
	}
	return (bl.Kind == token.STRING && (bl.Value == `"."` || bl.Value == "`.`")) || (bl.Kind == token.CHAR && bl.Value == `'.'`)
}

func intLit(e ast.Expr) (int, bool) {
	neg := false
	if u, ok := e.(*ast.UnaryExpr); ok && u.Op == token.SUB {
		neg = true
		e = u.X
	}
	bl, ok := e.(*ast.BasicLit)
	if !ok || bl.Kind != token.INT {
		return 0, false
	}
	n, err := strconv.Atoi(bl.Value)
	if err != nil {
		return 0, false
	}
	if neg {
		n = -n
	}
	return n, true
}

// value of an expression under the environment
func (c *ipsCtx) value(e ast.Expr, env map[string]ipsVal) (ipsVal, bool) {
	switch e := e.(type) {
	case *ast.ParenExpr:
		return c.value(e.X, env)
	case *ast.Ident:
		if e.Name == c.param {
			return ipsVal{"name", ".sym"}, true
		}
		if e.Name == "true" || e.Name == "false" {
			return ipsVal{"cond", "(.const " + e.Name + ")"}, true
		}
		v, ok := env[e.Name]
		return v, ok
	case *ast.SelectorExpr:
		// store.parent
		if f, ok := recvField(e, c.recv); ok && f == "parent" {
			return ipsVal{"parent", ""}, true
		}
		// <m>.key for `m := store.mapSymbols[<n>]`: the bucket key the map symbol named <n> is stored under
		if v, ok := c.value(e.X, env); ok && v.kind == "mapEntry" && e.Sel.Name == "key" {
			return ipsVal{"name", "(.mapKey " + v.lean + ")"}, true
		}
	case *ast.CallExpr:
		// store.GetParentStore() (returns store.parent)
		if sel, ok := e.Fun.(*ast.SelectorExpr); ok && isIdent(sel.X, c.recv) && sel.Sel.Name == "GetParentStore" && len(e.Args) == 0 {
			return ipsVal{"parent", ""}, true
		}
		// <parent>.IsPublicSymbol(<name>): the same method, run by the parent store
		if sel, ok := e.Fun.(*ast.SelectorExpr); ok && sel.Sel.Name == "IsPublicSymbol" && len(e.Args) == 1 {
			if v, ok := c.value(sel.X, env); ok && v.kind == "parent" {
				return ipsVal{"cond", "(.parentPublic " + c.name(e.Args[0], env) + ")"}, true
			}
		}
		if call, _, ok := isStringsCall(e, "Split"); ok && len(call.Args) == 2 && isIdent(call.Args[0], c.param) && isDotLit(call.Args[1]) {
			return ipsVal{"parts", ""}, true
		}
		if call, _, ok := isStringsCall(e, "Index", "IndexByte", "IndexRune"); ok && len(call.Args) == 2 && isIdent(call.Args[0], c.param) && isDotLit(call.Args[1]) {
			return ipsVal{"idxFirst", ""}, true
		}
		if call, _, ok := isStringsCall(e, "LastIndex", "LastIndexByte"); ok && len(call.Args) == 2 && isIdent(call.Args[0], c.param) && isDotLit(call.Args[1]) {
			return ipsVal{"idxLast", ""}, true
		}
		if call, _, ok := isStringsCall(e, "Contains", "ContainsRune"); ok && len(call.Args) == 2 && isIdent(call.Args[0], c.param) && isDotLit(call.Args[1]) {
			return ipsVal{"cond", "(.segsMoreThan 1)"}, true
		}
	case *ast.IndexExpr:
		if f, ok := recvField(e.X, c.recv); ok && f == "mapSymbols" {
			return ipsVal{"mapEntry", c.name(e.Index, env)}, true
		}
		if v, ok := c.value(e.X, env); ok && v.kind == "parts" {
			if n, ok := intLit(e.Index); ok && n == 0 {
				return ipsVal{"name", ".firstSeg"}, true
			}
		}
	case *ast.SliceExpr:
		if isIdent(e.X, c.param) && e.Low == nil && e.High != nil && !e.Slice3 {
			if v, ok := c.value(e.High, env); ok {
				switch v.kind {
				case "idxFirst":
					return ipsVal{"name", ".firstSeg"}, true
				case "idxLast":
					return ipsVal{"name", ".uptoLastDot"}, true
				}
			}
		}
	}
	return ipsVal{}, false
}

func (c *ipsCtx) name(e ast.Expr, env map[string]ipsVal) string {
	if v, ok := c.value(e, env); ok && v.kind == "name" {
		return v.lean
	}
	return c.other("name", e)
}

// store.<tbl>[key] -> (.lookup tbl key)
func (c *ipsCtx) lookup(e ast.Expr, env map[string]ipsVal) (string, bool) {
	ix, ok := e.(*ast.IndexExpr)
	if !ok {
		return "", false
	}
	f, ok := recvField(ix.X, c.recv)
	if !ok {
		return "", false
	}
	tbl := fmt.Sprintf("(.other %s)", leanStr(f))
	switch f {
	case "publicSymbols":
		tbl = ".pub"
	case "mapSymbols":
		tbl = ".maps"
	}
	return fmt.Sprintf("(.lookup %s %s)", tbl, c.name(ix.Index, env)), true
}

func (c *ipsCtx) cond(e ast.Expr, env map[string]ipsVal) string {
	switch e := e.(type) {
	case *ast.ParenExpr:
		return c.cond(e.X, env)
	case *ast.UnaryExpr:
		if e.Op == token.NOT {
			return "(.not " + c.cond(e.X, env) + ")"
		}
	case *ast.BinaryExpr:
		switch e.Op {
		case token.LAND:
			return "(.and " + c.cond(e.X, env) + " " + c.cond(e.Y, env) + ")"
		case token.LOR:
			return "(.or " + c.cond(e.X, env) + " " + c.cond(e.Y, env) + ")"
		case token.EQL:
			// store.parent == nil
			if x, y := e.X, e.Y; isNil(x) || isNil(y) {
				if isNil(x) {
					x = y
				}
				if v, ok := c.value(x, env); ok && v.kind == "parent" {
					return "(.not .hasParent)"
				}
				if v, ok := c.value(x, env); ok && v.kind == "mapEntry" {
					return "(.not (.lookup .maps " + v.lean + "))"
				}
			}
		case token.GTR, token.GEQ, token.NEQ:
			// store.parent != nil
			if x, y := e.X, e.Y; e.Op == token.NEQ && (isNil(x) || isNil(y)) {
				if isNil(x) {
					x = y
				}
				if v, ok := c.value(x, env); ok && v.kind == "parent" {
					return ".hasParent"
				}
				if v, ok := c.value(x, env); ok && v.kind == "mapEntry" {
					return "(.lookup .maps " + v.lean + ")"
				}
			}
			n, okn := intLit(e.Y)
			if !okn {
				break
			}
			// len(parts) > n
			if call, ok := e.X.(*ast.CallExpr); ok && isIdent(call.Fun, "len") && len(call.Args) == 1 {
				if v, ok := c.value(call.Args[0], env); ok && v.kind == "parts" {
					switch {
					case e.Op == token.GTR && n >= 0:
						return fmt.Sprintf("(.segsMoreThan %d)", n)
					case e.Op == token.GEQ && n >= 1:
						return fmt.Sprintf("(.segsMoreThan %d)", n-1)
					}
				}
			}
			if v, ok := c.value(e.X, env); ok && (v.kind == "idxFirst" || v.kind == "idxLast") {
				switch {
				case (e.Op == token.GEQ && n == 0) || (e.Op == token.GTR && n == -1) || (e.Op == token.NEQ && n == -1):
					return "(.segsMoreThan 1)"
				case (e.Op == token.GTR && n == 0) || (e.Op == token.GEQ && n == 1):
					if v.kind == "idxFirst" {
						return ".dotNotFirst"
					}
					return ".lastDotNotFirst"
				}
			}
		}
	default:
		if v, ok := c.value(e, env); ok && v.kind == "cond" {
			return v.lean
		}
	}
	return c.other("cond", e)
}

func copyEnv(env map[string]ipsVal) map[string]ipsVal {
	r := map[string]ipsVal{}
	for k, v := range env {
		r[k] = v
	}
	return r
}

// bind the variables of `lhs := rhs`; false if the statement is not understood
func (c *ipsCtx) assign(s *ast.AssignStmt, env map[string]ipsVal) bool {
	if s.Tok != token.DEFINE || len(s.Rhs) != 1 {
		return false
	}
	switch len(s.Lhs) {
	case 1:
		id, ok := s.Lhs[0].(*ast.Ident)
		if !ok {
			return false
		}
		if v, ok := c.value(s.Rhs[0], env); ok {
			env[id.Name] = v
			return true
		}
	case 2: // _, ok := store.tbl[key]
		okId, ok := s.Lhs[1].(*ast.Ident)
		if !ok {
			return false
		}
		if l, ok := c.lookup(s.Rhs[0], env); ok {
			v, isId := s.Lhs[0].(*ast.Ident)
			if !isId {
				return false
			}
			if v.Name != "_" {
				// m, ok := store.mapSymbols[<n>]: the entry is only understood as the carrier of its `.key`
				me, isEntry := c.value(s.Rhs[0], env)
				if !isEntry || me.kind != "mapEntry" {
					return false
				}
				env[v.Name] = me
			}
			if okId.Name != "_" {
				env[okId.Name] = ipsVal{"cond", l}
			}
			return true
		}
	}
	return false
}

func (c *ipsCtx) tree(stmts []ast.Stmt, env map[string]ipsVal) string {
	if len(stmts) == 0 {
		return "(.unknown \"falls off the end\")"
	}
	s, rest := stmts[0], stmts[1:]
	switch s := s.(type) {
	case *ast.ReturnStmt:
		if len(s.Results) == 1 {
			return "(.ret " + c.cond(s.Results[0], env) + ")"
		}
	case *ast.AssignStmt:
		env = copyEnv(env)
		if c.assign(s, env) {
			return c.tree(rest, env)
		}
	case *ast.IfStmt:
		inner := copyEnv(env)
		if s.Init != nil {
			as, ok := s.Init.(*ast.AssignStmt)
			if !ok || !c.assign(as, inner) {
				break
			}
		}
		cond := c.cond(s.Cond, inner)
		thenT := c.tree(append(append([]ast.Stmt{}, s.Body.List...), rest...), inner)
		var elseT string
		switch el := s.Else.(type) {
		case nil:
			elseT = c.tree(rest, env)
		case *ast.BlockStmt:
			elseT = c.tree(append(append([]ast.Stmt{}, el.List...), rest...), inner)
		case *ast.IfStmt:
			elseT = c.tree(append([]ast.Stmt{el}, rest...), inner)
		default:
			elseT = fmt.Sprintf("(.unknown %s)", leanStr(srcOf(c.fset, s.Else)))
		}
		return "(.ite " + cond + " " + thenT + " " + elseT + ")"
	case *ast.BlockStmt:
		return c.tree(append(append([]ast.Stmt{}, s.List...), rest...), env)
	}
	return fmt.Sprintf("(.unknown %s)", leanStr(srcOf(c.fset, s)))
}

func firstParamName(fd *ast.FuncDecl) string {
	if fd.Type.Params == nil || len(fd.Type.Params.List) == 0 || len(fd.Type.Params.List[0].Names) == 0 {
		return ""
	}
	return fd.Type.Params.List[0].Names[0].Name
}

// ----------------------------------------------------------------------------------- VisitSymbol

type vsCtx struct {
	fset  *token.FileSet
	recv  string
	param string
}

func (c *vsCtx) lit(e ast.Expr, pos bool) string {
	switch e := e.(type) {
	case *ast.ParenExpr:
		return c.lit(e.X, pos)
	case *ast.UnaryExpr:
		if e.Op == token.NOT {
			return c.lit(e.X, !pos)
		}
	case *ast.BinaryExpr:
		if (e.Op == token.EQL || e.Op == token.NEQ) && isNil(e.Y) {
			if f, ok := recvField(e.X, c.recv); ok && f == "err" {
				return fmt.Sprintf("⟨.errNil, %v⟩", pos == (e.Op == token.EQL))
			}
		}
	case *ast.CallExpr:
		// recv.store.IsPublicSymbol(symbol)
		if sel, ok := e.Fun.(*ast.SelectorExpr); ok && sel.Sel.Name == "IsPublicSymbol" && len(e.Args) == 1 && isIdent(e.Args[0], c.param) {
			if f, ok := recvField(sel.X, c.recv); ok && f == "store" {
				return fmt.Sprintf("⟨.isPublic, %v⟩", pos)
			}
		}
	}
	return fmt.Sprintf("⟨.other %s, %v⟩", leanStr(srcOf(c.fset, e)), pos)
}

func (c *vsCtx) conj(e ast.Expr) []string {
	if p, ok := e.(*ast.ParenExpr); ok {
		return c.conj(p.X)
	}
	if be, ok := e.(*ast.BinaryExpr); ok && be.Op == token.LAND {
		return append(c.conj(be.X), c.conj(be.Y)...)
	}
	return []string{c.lit(e, true)}
}

// recv.err = ast.NewUnknownSymbolError(arg)
func (c *vsCtx) setErr(s ast.Stmt) (string, bool) {
	as, ok := s.(*ast.AssignStmt)
	if !ok || as.Tok != token.ASSIGN || len(as.Lhs) != 1 || len(as.Rhs) != 1 {
		return "", false
	}
	if f, ok := recvField(as.Lhs[0], c.recv); !ok || f != "err" {
		return "", false
	}
	call, ok := as.Rhs[0].(*ast.CallExpr)
	if ok && len(call.Args) == 1 {
		if sel, ok := call.Fun.(*ast.SelectorExpr); ok && isIdent(sel.X, "ast") && sel.Sel.Name == "NewUnknownSymbolError" {
			if isIdent(call.Args[0], c.param) {
				return ".symbol", true
			}
			return fmt.Sprintf("(.other %s)", leanStr(srcOf(c.fset, call.Args[0]))), true
		}
	}
	return fmt.Sprintf("(.other %s)", leanStr(srcOf(c.fset, as.Rhs[0]))), true
}

func (c *vsCtx) stmts(list []ast.Stmt) []string {
	var out []string
	for _, s := range list {
		other := fmt.Sprintf(".other %s", leanStr(srcOf(c.fset, s)))
		switch s := s.(type) {
		case *ast.IfStmt:
			if s.Init == nil && s.Else == nil && len(s.Body.List) == 1 {
				conds := "[" + strings.Join(c.conj(s.Cond), ", ") + "]"
				if arg, ok := c.setErr(s.Body.List[0]); ok {
					out = append(out, fmt.Sprintf(".setErrIf %s %s", conds, arg))
					continue
				}
				if rs, ok := s.Body.List[0].(*ast.ReturnStmt); ok && len(rs.Results) == 0 {
					out = append(out, fmt.Sprintf(".returnIf %s", conds))
					continue
				}
			}
			out = append(out, other)
		case *ast.ReturnStmt:
			if len(s.Results) == 0 {
				out = append(out, ".returnIf []")
				continue
			}
			out = append(out, other)
		default:
			if arg, ok := c.setErr(s); ok {
				out = append(out, fmt.Sprintf(".setErrIf [] %s", arg))
				continue
			}
			out = append(out, other)
		}
	}
	return out
}

// ---------------------------------------------------------------------- ValidateSymbolsArePublic

func walkStmts(fset *token.FileSet, fd *ast.FuncDecl) []string {
	query := firstParamName(fd)
	visitor := ""
	var out []string
	for _, s := range fd.Body.List {
		other := fmt.Sprintf(".other %s", leanStr(srcOf(fset, s)))
		switch s := s.(type) {
		case *ast.AssignStmt:
			// visitor := &publicSymbolValidator{k: v, …}
			if s.Tok == token.DEFINE && len(s.Lhs) == 1 && len(s.Rhs) == 1 {
				if id, ok := s.Lhs[0].(*ast.Ident); ok {
					if u, ok := s.Rhs[0].(*ast.UnaryExpr); ok && u.Op == token.AND {
						if cl, ok := u.X.(*ast.CompositeLit); ok && isIdent(cl.Type, "publicSymbolValidator") {
							var fields []string
							keyed := true
							for _, el := range cl.Elts {
								kv, ok := el.(*ast.KeyValueExpr)
								if !ok {
									keyed = false
									break
								}
								if k, ok := kv.Key.(*ast.Ident); ok {
									fields = append(fields, k.Name)
								}
							}
							if keyed {
								visitor = id.Name
								out = append(out, ".newVisitor "+leanStrList(fields))
								continue
							}
						}
					}
				}
			}
			out = append(out, other)
		case *ast.ExprStmt:
			if call, ok := s.X.(*ast.CallExpr); ok && len(call.Args) == 1 && isIdent(call.Args[0], visitor) {
				if sel, ok := call.Fun.(*ast.SelectorExpr); ok && sel.Sel.Name == "Accept" {
					if isIdent(sel.X, query) {
						out = append(out, ".acceptQuery")
						continue
					}
					if inner, ok := sel.X.(*ast.CallExpr); ok && len(inner.Args) == 0 {
						if isel, ok := inner.Fun.(*ast.SelectorExpr); ok && isIdent(isel.X, query) {
							out = append(out, ".acceptGetter "+leanStr(isel.Sel.Name))
							continue
						}
					}
				}
			}
			out = append(out, other)
		case *ast.ReturnStmt:
			if len(s.Results) == 1 {
				if f, ok := recvField(s.Results[0], visitor); ok && f == "err" {
					out = append(out, ".returnErr")
					continue
				}
			}
			out = append(out, other)
		case *ast.IfStmt:
			if s.Else == nil && len(s.Body.List) == 1 {
				if rs, ok := s.Body.List[0].(*ast.ReturnStmt); ok && len(rs.Results) == 1 && isNil(rs.Results[0]) {
					src := srcOf(fset, s.Cond)
					if s.Init != nil {
						src = srcOf(fset, s.Init) + "; " + src
					}
					out = append(out, ".returnNilIf "+leanStr(src))
					continue
				}
			}
			out = append(out, other)
		default:
			out = append(out, other)
		}
	}
	return out
}

// --------------------------------------------------------------------------------------- driver

func extractValidatorShape(repo string, p *acceptPkg) shapeOut {
	res := shapeOut{IsPublic: "(.unknown \"IsPublicSymbol not found\")", VisitSymbol: "[.other \"VisitSymbol not found\"]",
		Walk: "[.other \"ValidateSymbolsArePublic not found\"]", Getters: [][2]string{}, Fields: []string{}}
	fset := token.NewFileSet()
	if sf, err := parser.ParseFile(fset, filepath.Join(repo, "boltz", "store_query.go"), nil, 0); err == nil {
		for _, d := range sf.Decls {
			fd, ok := d.(*ast.FuncDecl)
			if !ok || fd.Name.Name != "IsPublicSymbol" || recvTypeName(fd) != "BaseStore" || fd.Body == nil {
				continue
			}
			c := &ipsCtx{fset: fset, recv: recvVarName(fd), param: firstParamName(fd)}
			res.IsPublic = c.tree(fd.Body.List, map[string]ipsVal{})
		}
	} else {
		res.Notes = append(res.Notes, "boltz/store_query.go: "+err.Error())
	}
	// other implementations of IsPublicSymbol in boltz (a second store type would need its own tree)
	if files, err := parseDirNoTests(token.NewFileSet(), filepath.Join(repo, "boltz")); err == nil {
		for _, f := range files {
			for _, d := range f.Decls {
				if fd, ok := d.(*ast.FuncDecl); ok && fd.Name.Name == "IsPublicSymbol" && fd.Recv != nil && recvTypeName(fd) != "BaseStore" {
					res.Notes = append(res.Notes, "IsPublicSymbol also implemented by "+recvTypeName(fd))
					res.IsPublic = fmt.Sprintf("(.unknown %s)", leanStr("second implementation of IsPublicSymbol: "+recvTypeName(fd)))
				}
			}
		}
	}
	if vf, err := parser.ParseFile(fset, filepath.Join(repo, "boltz", "validate.go"), nil, 0); err == nil {
		for _, d := range vf.Decls {
			switch d := d.(type) {
			case *ast.FuncDecl:
				if d.Body == nil {
					continue
				}
				if recvTypeName(d) == "publicSymbolValidator" && d.Name.Name == "VisitSymbol" {
					c := &vsCtx{fset: fset, recv: recvVarName(d), param: firstParamName(d)}
					res.VisitSymbol = "[" + strings.Join(c.stmts(d.Body.List), ", ") + "]"
				}
				if d.Recv == nil && d.Name.Name == "ValidateSymbolsArePublic" {
					res.Walk = "[" + strings.Join(walkStmts(fset, d), ", ") + "]"
				}
			case *ast.GenDecl:
				for _, sp := range d.Specs {
					ts, ok := sp.(*ast.TypeSpec)
					if !ok || ts.Name.Name != "publicSymbolValidator" {
						continue
					}
					if st, ok := ts.Type.(*ast.StructType); ok {
						for _, f := range st.Fields.List {
							if len(f.Names) == 0 {
								res.Fields = append(res.Fields, srcOf(fset, f.Type))
							}
							for _, n := range f.Names {
								res.Fields = append(res.Fields, n.Name)
							}
						}
					}
				}
			}
		}
	} else {
		res.Notes = append(res.Notes, "boltz/validate.go: "+err.Error())
	}
	// getters of queryNode: `func (node *queryNode) GetX() T { return node.F }` with F a node-valued field
	if p != nil {
		isChild := map[string]bool{}
		k := acceptKind{}
		p.fieldsOf("queryNode", map[string]bool{}, &k)
		for _, c := range k.Children {
			isChild[c.Field] = true
		}
		for name, fd := range p.methods["queryNode"] {
			if fd.Body == nil || len(fd.Body.List) != 1 || (fd.Type.Params != nil && len(fd.Type.Params.List) != 0) {
				continue
			}
			if rs, ok := fd.Body.List[0].(*ast.ReturnStmt); ok && len(rs.Results) == 1 {
				if f, ok := recvField(rs.Results[0], recvVarName(fd)); ok && isChild[f] {
					res.Getters = append(res.Getters, [2]string{name, f})
				}
			}
		}
		sort.Slice(res.Getters, func(i, j int) bool { return res.Getters[i][0] < res.Getters[j][0] })
	}
	return res
}

func (s shapeOut) lean() string {
	var b strings.Builder
	b.WriteString("/-- BaseStore.IsPublicSymbol, publicSymbolValidator.VisitSymbol and ValidateSymbolsArePublic as data\n")
	b.WriteString("    (boltz/store_query.go, boltz/validate.go); interpreted by C20/Shape.lean -/\n")
	b.WriteString("def validatorShape : ValidatorShape :=\n")
	fmt.Fprintf(&b, "  { isPublic := %s,\n", s.IsPublic)
	fmt.Fprintf(&b, "    visitSymbol := %s,\n", s.VisitSymbol)
	fmt.Fprintf(&b, "    walk := %s,\n", s.Walk)
	b.WriteString("    getters := [")
	for i, g := range s.Getters {
		if i > 0 {
			b.WriteString(", ")
		}
		fmt.Fprintf(&b, "(%s, %s)", leanStr(g[0]), leanStr(g[1]))
	}
	b.WriteString("] }\n")
	fmt.Fprintf(&b, "/-- fields of the struct boltz.publicSymbolValidator -/\n")
	fmt.Fprintf(&b, "def validatorFields : List String := %s\n", leanStrList(s.Fields))
	return b.String()
}
