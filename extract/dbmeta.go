package main

import (
	"fmt"
	"go/ast"
	"strings"
)

// dbMetaOps reads, for the DbImpl methods that work on the `meta` bucket (GetTimelineId, GetSnapshotId,
// MarkAsSnapshot), the sequence of bolt TRANSACTIONS on the method's top level and, inside each, the
// events on the three markers in source order:
//
//	tx view|update [ read <key> | write <key> | guard [<keys>] | idF ]     <recv>.View(func..) / <recv>.Update(nil, func..)
//	decide [<keys>]                                                        an `if` OUTSIDE any transaction whose condition
//	                                                                       uses values read from the markers in an earlier one
//
//	read   <x>.GetBoolWithDefault(<Key>, ..) / GetString(<Key>) / GetBool(<Key>)
//	write  <x>.SetString(<Key>, ..) / SetBool(<Key>, ..)
//	guard  an `if` inside the transaction whose body contains the idF call or a write, with the keys its
//	       condition depends on through variables assigned from reads IN THE SAME transaction function
//	idF    a call of the parameter idF
//
// A check-then-act split (decision taken on values read in one transaction, acted upon in another) shows as
// more than one `tx`, a `decide`, or an `idF`/`write` without a `guard` in front.
// (called from extractDbLocks; emitted into Generated/DbLocks.lean and facts/dblocks.json)
var dbMetaOpNames = []string{"GetTimelineId", "GetSnapshotId", "MarkAsSnapshot"}

var dbMetaKeys = map[string]string{"SnapshotId": "snapshotId", "ResetTimeline": "resetTimeline", "TimelineId": "timelineId"}

type dbMetaStep struct {
	Kind string   `json:"kind"` // view, update, decide
	Evs  []string `json:"events,omitempty"`
	Keys []string `json:"keys,omitempty"`
}

func metaKeyOf(e ast.Expr) (string, bool) {
	if id, ok := e.(*ast.Ident); ok {
		k, ok := dbMetaKeys[id.Name]
		return k, ok
	}
	return "", false
}

// metaRead / metaWrite: is this call a read / write of one of the markers?
func metaAccess(call *ast.CallExpr) (kind, key string) {
	se, ok := call.Fun.(*ast.SelectorExpr)
	if !ok || len(call.Args) == 0 {
		return "", ""
	}
	k, ok := metaKeyOf(call.Args[0])
	if !ok {
		return "", ""
	}
	switch se.Sel.Name {
	case "GetBoolWithDefault", "GetString", "GetBool", "GetStringWithDefault", "Get":
		return "read", k
	case "SetString", "SetBool", "Put", "Delete", "DeleteValue":
		return "write", k
	}
	return "", ""
}

type metaWalker struct {
	vars map[string][]string // variable -> marker keys its value was read from
}

func (w *metaWalker) keysOfExpr(e ast.Expr) []string {
	seen := map[string]bool{}
	var keys []string
	ast.Inspect(e, func(n ast.Node) bool {
		switch x := n.(type) {
		case *ast.FuncLit:
			return false
		case *ast.Ident:
			for _, k := range w.vars[x.Name] {
				if !seen[k] {
					seen[k] = true
					keys = append(keys, k)
				}
			}
		case *ast.CallExpr:
			if kind, k := metaAccess(x); kind == "read" && !seen[k] {
				seen[k] = true
				keys = append(keys, k)
			}
		}
		return true
	})
	return keys
}

// containsAct: does the block contain an idF call or a marker write (outside nested function literals)?
func containsAct(n ast.Node) bool {
	found := false
	ast.Inspect(n, func(n ast.Node) bool {
		switch x := n.(type) {
		case *ast.FuncLit:
			return false
		case *ast.CallExpr:
			if id, ok := x.Fun.(*ast.Ident); ok && id.Name == "idF" {
				found = true
			}
			if kind, _ := metaAccess(x); kind == "write" {
				found = true
			}
		}
		return !found
	})
	return found
}

// events of one transaction function, in source order
func (w *metaWalker) txEvents(body *ast.BlockStmt) []string {
	var evs []string
	var visitStmt func(s ast.Stmt)
	visitExpr := func(e ast.Node) {
		ast.Inspect(e, func(n ast.Node) bool {
			switch x := n.(type) {
			case *ast.FuncLit:
				return false
			case *ast.CallExpr:
				if id, ok := x.Fun.(*ast.Ident); ok && id.Name == "idF" {
					evs = append(evs, "idF")
				}
				if kind, k := metaAccess(x); kind != "" {
					evs = append(evs, kind+" "+k)
				}
			}
			return true
		})
	}
	visitStmt = func(s ast.Stmt) {
		switch x := s.(type) {
		case *ast.AssignStmt:
			for _, r := range x.Rhs {
				visitExpr(r)
			}
			// remember which markers a variable's value comes from
			if len(x.Rhs) == 1 {
				keys := w.keysOfExpr(x.Rhs[0])
				if len(keys) > 0 {
					for _, l := range x.Lhs {
						if id, ok := l.(*ast.Ident); ok && id.Name != "_" {
							w.vars[id.Name] = keys
						}
					}
				}
			}
		case *ast.IfStmt:
			if x.Init != nil {
				visitStmt(x.Init)
			}
			if containsAct(x.Body) || (x.Else != nil && containsAct(x.Else)) {
				keys := w.keysOfExpr(x.Cond)
				evs = append(evs, "guard "+strings.Join(keys, ","))
			}
			visitExpr(x.Cond)
			for _, b := range x.Body.List {
				visitStmt(b)
			}
			if x.Else != nil {
				visitStmt(x.Else)
			}
		case *ast.BlockStmt:
			for _, b := range x.List {
				visitStmt(b)
			}
		case *ast.ForStmt:
			for _, b := range x.Body.List {
				visitStmt(b)
			}
		case *ast.RangeStmt:
			for _, b := range x.Body.List {
				visitStmt(b)
			}
		case nil:
		default:
			visitExpr(s)
		}
	}
	for _, s := range body.List {
		visitStmt(s)
	}
	return evs
}

// the transaction call `<recv>.View(func..)` / `<recv>.Update(<ctx>, func..)` / Batch in an expression, if any
func txCallIn(n ast.Node) (kind string, fn *ast.FuncLit) {
	ast.Inspect(n, func(n ast.Node) bool {
		if fn != nil {
			return false
		}
		call, ok := n.(*ast.CallExpr)
		if !ok {
			return true
		}
		se, ok := call.Fun.(*ast.SelectorExpr)
		if !ok || len(call.Args) == 0 {
			return true
		}
		lit, ok := call.Args[len(call.Args)-1].(*ast.FuncLit)
		if !ok {
			return true
		}
		switch se.Sel.Name {
		case "View":
			kind, fn = "view", lit
		case "Update", "Batch":
			kind, fn = "update", lit
		}
		return fn == nil
	})
	return
}

func dbMetaOps(methods map[string]*ast.FuncDecl) map[string][]dbMetaStep {
	res := map[string][]dbMetaStep{}
	for _, name := range dbMetaOpNames {
		m, ok := methods[name]
		if !ok {
			continue
		}
		w := &metaWalker{vars: map[string][]string{}}
		steps := []dbMetaStep{}
		var top func(s ast.Stmt)
		top = func(s ast.Stmt) {
			if kind, fn := txCallIn(s); fn != nil {
				if _, isIf := s.(*ast.IfStmt); !isIf {
					steps = append(steps, dbMetaStep{Kind: kind, Evs: w.txEvents(fn.Body)})
					return
				}
			}
			switch x := s.(type) {
			case *ast.IfStmt:
				if x.Init != nil {
					top(x.Init)
				}
				if keys := w.keysOfExpr(x.Cond); len(keys) > 0 {
					steps = append(steps, dbMetaStep{Kind: "decide", Keys: keys})
				}
				for _, b := range x.Body.List {
					top(b)
				}
				if x.Else != nil {
					top(x.Else)
				}
			case *ast.BlockStmt:
				for _, b := range x.List {
					top(b)
				}
			case *ast.ForStmt:
				for _, b := range x.Body.List {
					top(b)
				}
			case *ast.DeferStmt, *ast.GoStmt:
				// a deferred / spawned closure working on the markers would be a step of its own
				if kind, fn := txCallIn(x); fn != nil {
					steps = append(steps, dbMetaStep{Kind: kind, Evs: w.txEvents(fn.Body)})
				}
			}
		}
		for _, s := range m.Body.List {
			top(s)
		}
		res[name] = steps
	}
	return res
}

func leanKey(k string) string { return "." + k }

func leanKeys(ks []string) string {
	parts := []string{}
	for _, k := range ks {
		if k != "" {
			parts = append(parts, leanKey(k))
		}
	}
	return "[" + strings.Join(parts, ", ") + "]"
}

func dbMetaOpsLean(ops map[string][]dbMetaStep) string {
	var b strings.Builder
	b.WriteString("/-- the bolt transactions of the methods working on the `meta` bucket, and the marker events inside each -/\n")
	b.WriteString("def dbMetaOps : MetaOps := [\n")
	first := true
	for _, name := range dbMetaOpNames {
		steps, ok := ops[name]
		if !ok {
			continue
		}
		if !first {
			b.WriteString(",\n")
		}
		first = false
		var ss []string
		for _, s := range steps {
			if s.Kind == "decide" {
				ss = append(ss, ".decide "+leanKeys(s.Keys))
				continue
			}
			var evs []string
			for _, e := range s.Evs {
				f := strings.SplitN(e, " ", 2)
				switch f[0] {
				case "idF":
					evs = append(evs, ".idF")
				case "read", "write":
					evs = append(evs, "."+f[0]+" "+leanKey(f[1]))
				case "guard":
					ks := []string{}
					if len(f) > 1 && f[1] != "" {
						ks = strings.Split(f[1], ",")
					}
					evs = append(evs, ".guard "+leanKeys(ks))
				}
			}
			ss = append(ss, fmt.Sprintf(".tx .%s [%s]", s.Kind, strings.Join(evs, ", ")))
		}
		fmt.Fprintf(&b, "  (%q, [%s])", name, strings.Join(ss, ", "))
	}
	b.WriteString("]\n")
	return b.String()
}
