package main

import (
	"encoding/json"
	"fmt"
	"go/ast"
	"go/parser"
	"go/token"
	"os"
	"path/filepath"
	"sort"
	"strings"
)

// extractGlobals lists every package-level `var` of zitiql, ast, boltz and objectz (non-test files)
// together with every place in a function body that
//
//	assigns to it            x = …, x += …, x++          (how = assign)
//	writes an element/field  x[k] = …, delete(x, k), x.f = …, *x = …   (how = elem / field)
//	takes its address        &x  (e.g. errors.As(err, &x): the callee writes through it)   (how = addr)
//
// and classifies the variable (sync.Pool / atomic.* / sync.Mutex|RWMutex / struct with its own sync.Once / plain) and the write
// site (inside `func init()`; lexically after a `.Lock()` call in the same function).
//
// Identifier resolution uses go/parser's per-file object resolution: an identifier counts as the
// package variable when it has that name and is either unresolved in its file (declared in another
// file of the package) or resolves to the package-level declaration itself — a local variable or
// parameter of the same name shadows it.
//
// Limits (stated in the C18 notes): writes through an alias created elsewhere (p := &x in one
// function, *p = … in another; a method with pointer receiver called on x) are not seen; function
// literals used as initialisers of package-level variables are not scanned.
//
// Output: lean/StorageModel/Generated/Globals.lean and facts/globals.json.
type globalWrite struct {
	Func      string `json:"func"`
	How       string `json:"how"`
	InInit    bool   `json:"inInit"`
	UnderLock bool   `json:"underLock"`
	Pos       string `json:"pos"`
}

type globalVar struct {
	Pkg    string        `json:"pkg"`
	Name   string        `json:"name"`
	Kind   string        `json:"kind"`
	Decl   string        `json:"decl"`
	Writes []globalWrite `json:"writes"`
}

func typeText(e ast.Expr) string {
	switch x := e.(type) {
	case nil:
		return ""
	case *ast.Ident:
		return x.Name
	case *ast.SelectorExpr:
		return typeText(x.X) + "." + x.Sel.Name
	case *ast.StarExpr:
		return "*" + typeText(x.X)
	case *ast.UnaryExpr:
		return x.Op.String() + typeText(x.X)
	case *ast.CompositeLit:
		return typeText(x.Type) + "{}"
	case *ast.CallExpr:
		return typeText(x.Fun) + "()"
	case *ast.MapType:
		return "map"
	case *ast.ArrayType:
		return "[]" + typeText(x.Elt)
	case *ast.IndexExpr:
		return typeText(x.X)
	}
	return "?"
}

func globalKind(typ ast.Expr, val ast.Expr) string {
	t := strings.TrimPrefix(typeText(typ), "*")
	v := strings.TrimPrefix(typeText(val), "&")
	v = strings.TrimSuffix(v, "{}")
	for _, s := range []string{t, v} {
		switch {
		case s == "sync.Pool":
			return "syncPool"
		case strings.HasPrefix(s, "atomic."):
			return "atomic"
		case s == "sync.Mutex" || s == "sync.RWMutex":
			return "mutex"
		}
	}
	// a struct that carries its own sync.Once (ANTLR's generated static data: filled inside once.Do)
	if st, ok := typ.(*ast.StructType); ok && st.Fields != nil {
		for _, f := range st.Fields.List {
			if typeText(f.Type) == "sync.Once" {
				return "once"
			}
		}
	}
	return "plain"
}

func baseIdent(e ast.Expr) (*ast.Ident, string) {
	how := "assign"
	for {
		switch x := e.(type) {
		case *ast.Ident:
			return x, how
		case *ast.IndexExpr:
			e, how = x.X, "elem"
		case *ast.SelectorExpr:
			e, how = x.X, "field"
		case *ast.StarExpr:
			e, how = x.X, "elem"
		case *ast.ParenExpr:
			e = x.X
		default:
			return nil, how
		}
	}
}

func extractGlobals(repo, gen, facts string) {
	var all []globalVar
	var notes []string
	for _, pkg := range []string{"zitiql", "ast", "boltz", "objectz"} {
		dir := filepath.Join(repo, pkg)
		entries, err := os.ReadDir(dir)
		if err != nil {
			notes = append(notes, "cannot read "+dir)
			continue
		}
		fset := token.NewFileSet()
		var files []*ast.File
		var names []string
		for _, e := range entries {
			n := e.Name()
			if e.IsDir() || !strings.HasSuffix(n, ".go") || strings.HasSuffix(n, "_test.go") {
				continue
			}
			f, err := parser.ParseFile(fset, filepath.Join(dir, n), nil, 0)
			if err != nil {
				notes = append(notes, "parse error "+pkg+"/"+n)
				continue
			}
			files = append(files, f)
			names = append(names, n)
		}
		vars := map[string]*globalVar{}
		specs := map[*ast.ValueSpec]bool{}
		var order []string
		for fi, f := range files {
			for _, d := range f.Decls {
				gd, ok := d.(*ast.GenDecl)
				if !ok || gd.Tok != token.VAR {
					continue
				}
				for _, sp := range gd.Specs {
					vs := sp.(*ast.ValueSpec)
					specs[vs] = true
					for i, n := range vs.Names {
						if n.Name == "_" {
							continue
						}
						var val ast.Expr
						if i < len(vs.Values) {
							val = vs.Values[i]
						}
						vars[n.Name] = &globalVar{Pkg: pkg, Name: n.Name, Kind: globalKind(vs.Type, val),
							Decl: fmt.Sprintf("%s/%s:%d", pkg, names[fi], fset.Position(n.Pos()).Line)}
						order = append(order, n.Name)
					}
				}
			}
		}
		isPkgVar := func(id *ast.Ident) *globalVar {
			if id == nil {
				return nil
			}
			v, ok := vars[id.Name]
			if !ok {
				return nil
			}
			if id.Obj == nil {
				return v
			}
			if vs, ok := id.Obj.Decl.(*ast.ValueSpec); ok && specs[vs] {
				return v
			}
			return nil
		}
		for fi, f := range files {
			for _, d := range f.Decls {
				fd, ok := d.(*ast.FuncDecl)
				if !ok || fd.Body == nil {
					continue
				}
				fname := fd.Name.Name
				if fd.Recv != nil && len(fd.Recv.List) == 1 {
					fname = strings.TrimPrefix(typeText(fd.Recv.List[0].Type), "*") + "." + fname
				}
				inInit := fd.Recv == nil && fd.Name.Name == "init"
				var lockPos []token.Pos
				ast.Inspect(fd.Body, func(n ast.Node) bool {
					if c, ok := n.(*ast.CallExpr); ok {
						if se, ok := c.Fun.(*ast.SelectorExpr); ok && se.Sel.Name == "Lock" {
							lockPos = append(lockPos, c.Pos())
						}
					}
					return true
				})
				record := func(v *globalVar, how string, pos token.Pos) {
					under := false
					for _, lp := range lockPos {
						if lp < pos {
							under = true
						}
					}
					v.Writes = append(v.Writes, globalWrite{Func: fname, How: how, InInit: inInit, UnderLock: under,
						Pos: fmt.Sprintf("%s/%s:%d", pkg, names[fi], fset.Position(pos).Line)})
				}
				ast.Inspect(fd.Body, func(n ast.Node) bool {
					switch x := n.(type) {
					case *ast.AssignStmt:
						if x.Tok == token.DEFINE {
							return true
						}
						for _, l := range x.Lhs {
							id, how := baseIdent(l)
							if v := isPkgVar(id); v != nil {
								record(v, how, l.Pos())
							}
						}
					case *ast.IncDecStmt:
						id, how := baseIdent(x.X)
						if v := isPkgVar(id); v != nil {
							record(v, how, x.Pos())
						}
					case *ast.UnaryExpr:
						if x.Op == token.AND {
							id, _ := baseIdent(x.X)
							if v := isPkgVar(id); v != nil {
								record(v, "addr", x.Pos())
							}
						}
					case *ast.CallExpr:
						if fid, ok := x.Fun.(*ast.Ident); ok && fid.Name == "delete" && len(x.Args) == 2 {
							id, _ := baseIdent(x.Args[0])
							if v := isPkgVar(id); v != nil {
								record(v, "elem", x.Pos())
							}
						}
					case *ast.RangeStmt:
						if x.Tok == token.ASSIGN {
							for _, l := range []ast.Expr{x.Key, x.Value} {
								if l == nil {
									continue
								}
								id, how := baseIdent(l)
								if v := isPkgVar(id); v != nil {
									record(v, how, l.Pos())
								}
							}
						}
					}
					return true
				})
			}
		}
		sort.Strings(order)
		for _, n := range order {
			all = append(all, *vars[n])
		}
	}
	type fact struct {
		Globals []globalVar `json:"globals"`
		Notes   []string    `json:"notes,omitempty"`
	}
	js, _ := json.MarshalIndent(fact{all, notes}, "", " ")
	writeIfChanged(filepath.Join(facts, "globals.json"), string(js)+"\n")

	var b strings.Builder
	b.WriteString("import StorageModel.C18.Globals\n")
	b.WriteString("/- GENERATED by /verif/extract from the package-level vars of zitiql, ast, boltz, objectz — do not edit. -/\n")
	b.WriteString("namespace StorageModel.Generated\nopen StorageModel.C18\n")
	b.WriteString("def globals : List GlobalVar := [\n")
	for i, v := range all {
		if i > 0 {
			b.WriteString(",\n")
		}
		fmt.Fprintf(&b, "  { pkg := %q, name := %q, kind := .%s, writes := [", v.Pkg, v.Name, v.Kind)
		for j, w := range v.Writes {
			if j > 0 {
				b.WriteString(", ")
			}
			fmt.Fprintf(&b, "{ func := %q, how := .%s, inInit := %v, underLock := %v }", w.Func, w.How, w.InInit, w.UnderLock)
		}
		b.WriteString("] }")
	}
	b.WriteString("]\nend StorageModel.Generated\n")
	writeIfChanged(filepath.Join(gen, "Globals.lean"), b.String())
}
