package main

import (
	"encoding/json"
	"fmt"
	"go/ast"
	"go/parser"
	"go/token"
	"os"
	"path/filepath"
	"sort"
	"strconv"
	"strings"
)

// extractGlobals lists every package-level `var` of zitiql, ast, boltz and objectz (non-test files)
// together with every place in a function body that
//
//	assigns to it            x = …, x += …, x++          (how = assign)
//	writes an element/field  x[k] = …, delete(x, k), x.f = …, *x = …   (how = elem / field)
//	takes its address        &x  (e.g. errors.As(err, &x): the callee writes through it)   (how = addr)
//
// and classifies the variable (sync.Pool / atomic.* / sync.Mutex|RWMutex / struct with its own sync.Once / plain) and the write
// site (inside `func init()`; lexically after a `.Lock()` call in the same function).
//
// ESCAPES (round 2).  For every variable additionally
//
//	typ      its type as far as the syntax tells (declared type, or the type of the initialiser:
//	         &T{…}, T{…}, make(T), NewX(…) -> first result type of the package's func NewX)
//	mutable  whether a holder of (an alias of) the value can change state others see: the type is a
//	         slice or map, or a (pointer to a) named type of the package that has a method with
//	         pointer receiver writing a receiver field/element ("mutator"), or a struct type with a
//	         field of such a type (two levels)
//	escapes  every function that hands the variable out: `return x` / `return &x` / x inside a
//	         composite literal, slice expression, append(…) or type assertion that is returned
//	         (how = returned); x (or a local alias of it: q := x … ) stored into a field or element
//	         of another object (how = stored); x (or an alias) given as an argument to a call other than a
//	         builtin (how = passed; `&x` arguments are in the writes table).  Local aliases are followed inside one function,
//	         flow-insensitively.  A reference `pkg.X` from another of the four packages counts too.  An element
//	         x[k] of a package-level map / slice counts when the element type is mutable; so does a value taken
//	         out of a package-level container of another module (sync.Map & co: x.Load(k), x.Get(k)).
//
// A plain variable that is mutable AND escapes is ONE object shared by every caller of that function.
//
// CLOSURES (round 2).  A second table: every function literal inside a function of the four
// packages that outlives the call which created it — it is returned, put into a composite literal,
// stored into a field/element, or assigned to a local that is (returned / put into a literal / stored) —
// with the variables it captures from the enclosing function (locals, parameters, receiver) and
// WRITES (assignment, element/field write, ++/--, address taken, delete, range assignment).  Such a
// variable is allocated once per call of the enclosing constructor and shared by every invocation
// of the closure (e.g. one buffer per symbol instead of one per evaluation).
//
// Identifier resolution uses go/parser's per-file object resolution: an identifier counts as the
// package variable when it has that name and is either unresolved in its file (declared in another
// file of the package) or resolves to the package-level declaration itself — a local variable or
// parameter of the same name shadows it.
//
// Limits (stated in the C18 notes): writes through an alias created elsewhere (p := &x in one
// function, *p = … in another; a method with pointer receiver called on x) are not seen; function
// literals used as initialisers of package-level variables are not scanned; function literals passed
// as call arguments (callbacks) are not in the closure table; types from other modules are opaque.
//
// Output: lean/StorageModel/Generated/Globals.lean and facts/globals.json.
type globalWrite struct {
	Func      string `json:"func"`
	How       string `json:"how"`
	InInit    bool   `json:"inInit"`
	UnderLock bool   `json:"underLock"`
	Pos       string `json:"pos"`
}

type globalEscape struct {
	Func string `json:"func"`
	How  string `json:"how"` // returned | stored | passed
	Pos  string `json:"pos"`
}

type globalVar struct {
	Pkg        string         `json:"pkg"`
	Name       string         `json:"name"`
	Kind       string         `json:"kind"`
	Decl       string         `json:"decl"`
	Type       string         `json:"type"`
	Mutable    bool           `json:"mutable"`
	MutableWhy string         `json:"mutableWhy,omitempty"`
	Writes     []globalWrite  `json:"writes"`
	Escapes    []globalEscape `json:"escapes"`

	typeExpr    ast.Expr
	elemMutable bool // map / slice whose element type is mutable
}

type capturedWrite struct {
	Var       string `json:"var"`
	How       string `json:"how"`
	Decl      string `json:"decl"` // local | param | recv
	UnderLock bool   `json:"underLock"`
	Pos       string `json:"pos"`
}

type closureRec struct {
	Pkg    string          `json:"pkg"`
	Func   string          `json:"func"`
	Escape string          `json:"escape"` // returned | stored
	Pos    string          `json:"pos"`
	Writes []capturedWrite `json:"writes"`
}

func typeText(e ast.Expr) string {
	switch x := e.(type) {
	case nil:
		return ""
	case *ast.Ident:
		return x.Name
	case *ast.SelectorExpr:
		return typeText(x.X) + "." + x.Sel.Name
	case *ast.StarExpr:
		return "*" + typeText(x.X)
	case *ast.UnaryExpr:
		return x.Op.String() + typeText(x.X)
	case *ast.CompositeLit:
		return typeText(x.Type) + "{}"
	case *ast.CallExpr:
		return typeText(x.Fun) + "()"
	case *ast.MapType:
		return "map"
	case *ast.ArrayType:
		return "[]" + typeText(x.Elt)
	case *ast.IndexExpr:
		return typeText(x.X)
	}
	return "?"
}

func globalKind(typ ast.Expr, val ast.Expr) string {
	t := strings.TrimPrefix(typeText(typ), "*")
	v := strings.TrimPrefix(typeText(val), "&")
	v = strings.TrimSuffix(v, "{}")
	for _, s := range []string{t, v} {
		switch {
		case s == "sync.Pool":
			return "syncPool"
		case strings.HasPrefix(s, "atomic."):
			return "atomic"
		case s == "sync.Mutex" || s == "sync.RWMutex":
			return "mutex"
		}
	}
	// a struct that carries its own sync.Once (ANTLR's generated static data: filled inside once.Do)
	if st, ok := typ.(*ast.StructType); ok && st.Fields != nil {
		for _, f := range st.Fields.List {
			if typeText(f.Type) == "sync.Once" {
				return "once"
			}
		}
	}
	return "plain"
}

func baseIdent(e ast.Expr) (*ast.Ident, string) {
	how := "assign"
	for {
		switch x := e.(type) {
		case *ast.Ident:
			return x, how
		case *ast.IndexExpr:
			e, how = x.X, "elem"
		case *ast.SelectorExpr:
			e, how = x.X, "field"
		case *ast.StarExpr:
			e, how = x.X, "elem"
		case *ast.ParenExpr:
			e = x.X
		default:
			return nil, how
		}
	}
}

// one parsed package
type gPkg struct {
	name    string
	fset    *token.FileSet
	files   []*ast.File
	names   []string
	vars    map[string]*globalVar
	specs   map[*ast.ValueSpec]bool
	order   []string
	types   map[string]*ast.TypeSpec
	results map[string]ast.Expr // func name -> first result type
	// type name -> methods with pointer receiver that write a field/element of the receiver
	mutators map[string][]string
}

const storageImportPrefix = "github.com/openziti/storage/"

func (p *gPkg) pos(fi int, pos token.Pos) string {
	return fmt.Sprintf("%s/%s:%d", p.name, p.names[fi], p.fset.Position(pos).Line)
}

// typeOfValue: the type expression of an initialiser, as far as syntax tells
func (p *gPkg) typeOfValue(val ast.Expr) ast.Expr {
	switch x := val.(type) {
	case *ast.CompositeLit:
		return x.Type
	case *ast.UnaryExpr:
		if x.Op == token.AND {
			if t := p.typeOfValue(x.X); t != nil {
				return &ast.StarExpr{X: t}
			}
		}
	case *ast.ParenExpr:
		return p.typeOfValue(x.X)
	case *ast.CallExpr:
		if id, ok := x.Fun.(*ast.Ident); ok {
			if (id.Name == "make" || id.Name == "new") && len(x.Args) > 0 {
				if id.Name == "new" {
					return &ast.StarExpr{X: x.Args[0]}
				}
				return x.Args[0]
			}
			if r, ok := p.results[id.Name]; ok {
				return r
			}
		}
	}
	return nil
}

// mutableType: can a holder of a value of this type change state that other holders see?
func (p *gPkg) mutableType(t ast.Expr, depth int) (bool, string) {
	if t == nil || depth > 3 {
		return false, ""
	}
	switch x := t.(type) {
	case *ast.MapType:
		return true, "map"
	case *ast.ArrayType:
		if x.Len == nil {
			return true, "slice"
		}
		return p.mutableType(x.Elt, depth+1)
	case *ast.ChanType:
		return false, ""
	case *ast.ParenExpr:
		return p.mutableType(x.X, depth)
	case *ast.IndexExpr: // generic instantiation
		return p.mutableType(x.X, depth)
	case *ast.SelectorExpr:
		// a container of another module holding arbitrary values (sync.Map, cmap.ConcurrentMap, lru.Cache …)
		if tt := typeText(x); strings.Contains(x.Sel.Name, "Map") || strings.Contains(x.Sel.Name, "Cache") {
			return true, tt + " (container)"
		}
		return false, ""
	case *ast.StarExpr:
		if id, ok := x.X.(*ast.Ident); ok {
			if ms := p.mutators[id.Name]; len(ms) > 0 {
				return true, "*" + id.Name + " has pointer-receiver mutators " + strings.Join(ms, ",")
			}
		}
		return p.mutableType(x.X, depth+1)
	case *ast.Ident:
		ts, ok := p.types[x.Name]
		if !ok {
			return false, ""
		}
		if st, ok := ts.Type.(*ast.StructType); ok {
			if st.Fields != nil {
				for _, f := range st.Fields.List {
					if m, why := p.mutableType(f.Type, depth+1); m {
						fn := "embedded"
						if len(f.Names) > 0 {
							fn = f.Names[0].Name
						}
						return true, x.Name + "." + fn + ": " + why
					}
				}
			}
			return false, ""
		}
		if _, ok := ts.Type.(*ast.InterfaceType); ok {
			return false, ""
		}
		return p.mutableType(ts.Type, depth+1)
	}
	return false, ""
}

func extractGlobals(repo, gen, facts string) {
	var all []globalVar
	var closures []closureRec
	var notes []string
	pkgs := map[string]*gPkg{}
	var pkgOrder []*gPkg

	// ---------------------------------------------------------------- phase 1: declarations
	for _, pkg := range []string{"zitiql", "ast", "boltz", "objectz"} {
		dir := filepath.Join(repo, pkg)
		entries, err := os.ReadDir(dir)
		if err != nil {
			notes = append(notes, "cannot read "+dir)
			continue
		}
		p := &gPkg{name: pkg, fset: token.NewFileSet(), vars: map[string]*globalVar{}, specs: map[*ast.ValueSpec]bool{},
			types: map[string]*ast.TypeSpec{}, results: map[string]ast.Expr{}, mutators: map[string][]string{}}
		for _, e := range entries {
			n := e.Name()
			if e.IsDir() || !strings.HasSuffix(n, ".go") || strings.HasSuffix(n, "_test.go") {
				continue
			}
			f, err := parser.ParseFile(p.fset, filepath.Join(dir, n), nil, 0)
			if err != nil {
				notes = append(notes, "parse error "+pkg+"/"+n)
				continue
			}
			p.files = append(p.files, f)
			p.names = append(p.names, n)
		}
		var ctors []*ast.FuncDecl
		for _, f := range p.files {
			for _, d := range f.Decls {
				switch x := d.(type) {
				case *ast.GenDecl:
					if x.Tok == token.TYPE {
						for _, sp := range x.Specs {
							ts := sp.(*ast.TypeSpec)
							p.types[ts.Name.Name] = ts
						}
					}
				case *ast.FuncDecl:
					if x.Recv == nil && x.Type.Results != nil && len(x.Type.Results.List) > 0 {
						p.results[x.Name.Name] = x.Type.Results.List[0].Type
						ctors = append(ctors, x)
					}
					if x.Recv != nil && len(x.Recv.List) == 1 && x.Body != nil && len(x.Recv.List[0].Names) == 1 {
						rt := x.Recv.List[0].Type
						star, isPtr := rt.(*ast.StarExpr)
						if !isPtr {
							continue
						}
						tn := typeText(star.X)
						recv := x.Recv.List[0].Names[0]
						writes := false
						ast.Inspect(x.Body, func(n ast.Node) bool {
							check := func(l ast.Expr) {
								id, how := baseIdent(l)
								if id != nil && id.Obj != nil && id.Obj == recv.Obj && how != "assign" {
									writes = true
								}
							}
							switch y := n.(type) {
							case *ast.AssignStmt:
								if y.Tok != token.DEFINE {
									for _, l := range y.Lhs {
										check(l)
									}
								}
							case *ast.IncDecStmt:
								check(y.X)
							}
							return true
						})
						if writes {
							p.mutators[tn] = append(p.mutators[tn], x.Name.Name)
						}
					}
				}
			}
		}
		for _, ms := range p.mutators {
			sort.Strings(ms)
		}
		// a constructor declared to return an interface of the package: what its first `return` builds
		for _, x := range ctors {
			id, ok := x.Type.Results.List[0].Type.(*ast.Ident)
			if !ok || x.Body == nil {
				continue
			}
			ts, ok := p.types[id.Name]
			if !ok {
				continue
			}
			if _, isIface := ts.Type.(*ast.InterfaceType); !isIface {
				continue
			}
			var built ast.Expr
			ast.Inspect(x.Body, func(n ast.Node) bool {
				if r, ok := n.(*ast.ReturnStmt); ok && built == nil && len(r.Results) > 0 {
					switch r.Results[0].(type) {
					case *ast.CompositeLit, *ast.UnaryExpr:
						built = p.typeOfValue(r.Results[0])
					}
				}
				return true
			})
			if built != nil {
				p.results[x.Name.Name] = built
			}
		}
		for fi, f := range p.files {
			for _, d := range f.Decls {
				gd, ok := d.(*ast.GenDecl)
				if !ok || gd.Tok != token.VAR {
					continue
				}
				for _, sp := range gd.Specs {
					vs := sp.(*ast.ValueSpec)
					p.specs[vs] = true
					for i, n := range vs.Names {
						if n.Name == "_" {
							continue
						}
						var val ast.Expr
						if i < len(vs.Values) {
							val = vs.Values[i]
						}
						te := vs.Type
						if vt := p.typeOfValue(val); vt != nil {
							// an interface-typed declaration holds what the initialiser builds
							if te == nil {
								te = vt
							} else if id, ok := te.(*ast.Ident); ok {
								if ts, ok := p.types[id.Name]; ok {
									if _, isIface := ts.Type.(*ast.InterfaceType); isIface {
										te = vt
									}
								}
							}
						}
						tt := typeText(te)
						if te == nil && val != nil {
							tt = typeText(val) // opaque: built by another module's function
						}
						v := &globalVar{Pkg: pkg, Name: n.Name, Kind: globalKind(vs.Type, val), Decl: p.pos(fi, n.Pos()),
							Type: tt, typeExpr: te, Writes: []globalWrite{}, Escapes: []globalEscape{}}
						v.Mutable, v.MutableWhy = p.mutableType(te, 0)
						switch ct := te.(type) {
						case *ast.MapType:
							v.elemMutable, _ = p.mutableType(ct.Value, 1)
						case *ast.ArrayType:
							v.elemMutable, _ = p.mutableType(ct.Elt, 1)
						}
						p.vars[n.Name] = v
						p.order = append(p.order, n.Name)
					}
				}
			}
		}
		pkgs[pkg] = p
		pkgOrder = append(pkgOrder, p)
	}

	// ---------------------------------------------------------------- phase 2: function bodies
	for _, p := range pkgOrder {
		for fi, f := range p.files {
			// local import names of the other storage packages
			imports := map[string]*gPkg{}
			for _, im := range f.Imports {
				path, err := strconv.Unquote(im.Path.Value)
				if err != nil || !strings.HasPrefix(path, storageImportPrefix) {
					continue
				}
				q, ok := pkgs[strings.TrimPrefix(path, storageImportPrefix)]
				if !ok {
					continue
				}
				name := q.name
				if im.Name != nil {
					name = im.Name.Name
				}
				imports[name] = q
			}
			isPkgVar := func(id *ast.Ident) *globalVar {
				if id == nil {
					return nil
				}
				v, ok := p.vars[id.Name]
				if !ok {
					return nil
				}
				if id.Obj == nil {
					return v
				}
				if vs, ok := id.Obj.Decl.(*ast.ValueSpec); ok && p.specs[vs] {
					return v
				}
				return nil
			}
			// pkg.X of another storage package
			foreignVar := func(e ast.Expr) *globalVar {
				se, ok := e.(*ast.SelectorExpr)
				if !ok {
					return nil
				}
				id, ok := se.X.(*ast.Ident)
				if !ok || id.Obj != nil {
					return nil
				}
				if q, ok := imports[id.Name]; ok {
					return q.vars[se.Sel.Name]
				}
				return nil
			}
			// the package variable an lvalue / operand is rooted in, and how it is reached
			rootVar := func(e ast.Expr) (*globalVar, string) {
				how := "assign"
				for {
					if v := foreignVar(e); v != nil {
						return v, how
					}
					switch x := e.(type) {
					case *ast.Ident:
						return isPkgVar(x), how
					case *ast.IndexExpr:
						e, how = x.X, "elem"
					case *ast.SelectorExpr:
						e, how = x.X, "field"
					case *ast.StarExpr:
						e, how = x.X, "elem"
					case *ast.ParenExpr:
						e = x.X
					default:
						return nil, how
					}
				}
			}
			for _, d := range f.Decls {
				fd, ok := d.(*ast.FuncDecl)
				if !ok || fd.Body == nil {
					continue
				}
				fname := fd.Name.Name
				if fd.Recv != nil && len(fd.Recv.List) == 1 {
					fname = strings.TrimPrefix(typeText(fd.Recv.List[0].Type), "*") + "." + fname
				}
				inInit := fd.Recv == nil && fd.Name.Name == "init"
				var lockPos []token.Pos
				ast.Inspect(fd.Body, func(n ast.Node) bool {
					if c, ok := n.(*ast.CallExpr); ok {
						if se, ok := c.Fun.(*ast.SelectorExpr); ok && se.Sel.Name == "Lock" {
							lockPos = append(lockPos, c.Pos())
						}
					}
					return true
				})
				underLock := func(pos token.Pos, from, to token.Pos) bool {
					for _, lp := range lockPos {
						if lp < pos && lp >= from && lp < to {
							return true
						}
					}
					return false
				}
				record := func(v *globalVar, how string, pos token.Pos) {
					v.Writes = append(v.Writes, globalWrite{Func: fname, How: how, InInit: inInit,
						UnderLock: underLock(pos, fd.Pos(), fd.End()), Pos: p.pos(fi, pos)})
				}
				ast.Inspect(fd.Body, func(n ast.Node) bool {
					switch x := n.(type) {
					case *ast.AssignStmt:
						if x.Tok == token.DEFINE {
							return true
						}
						for _, l := range x.Lhs {
							if v, how := rootVar(l); v != nil {
								record(v, how, l.Pos())
							}
						}
					case *ast.IncDecStmt:
						if v, how := rootVar(x.X); v != nil {
							record(v, how, x.Pos())
						}
					case *ast.UnaryExpr:
						if x.Op == token.AND {
							if v, _ := rootVar(x.X); v != nil {
								record(v, "addr", x.Pos())
							}
						}
					case *ast.CallExpr:
						if fid, ok := x.Fun.(*ast.Ident); ok && fid.Name == "delete" && len(x.Args) == 2 {
							if v, _ := rootVar(x.Args[0]); v != nil {
								record(v, "elem", x.Pos())
							}
						}
					case *ast.RangeStmt:
						if x.Tok == token.ASSIGN {
							for _, l := range []ast.Expr{x.Key, x.Value} {
								if l == nil {
									continue
								}
								if v, how := rootVar(l); v != nil {
									record(v, how, l.Pos())
								}
							}
						}
					}
					return true
				})

				// ---- escapes of package variables, and escaping function literals
				aliasVar := map[*ast.Object]*globalVar{} // local -> the package variable it aliases / contains
				aliasLit := map[*ast.Object]*ast.FuncLit{}
				var carries func(e ast.Expr) (*globalVar, *ast.FuncLit)
				carries = func(e ast.Expr) (*globalVar, *ast.FuncLit) {
					if e == nil {
						return nil, nil
					}
					if v := foreignVar(e); v != nil {
						return v, nil
					}
					switch x := e.(type) {
					case *ast.Ident:
						if v := isPkgVar(x); v != nil {
							return v, nil
						}
						if x.Obj != nil {
							return aliasVar[x.Obj], aliasLit[x.Obj]
						}
					case *ast.FuncLit:
						return nil, x
					case *ast.ParenExpr:
						return carries(x.X)
					case *ast.UnaryExpr:
						if x.Op == token.AND {
							return carries(x.X)
						}
					case *ast.SliceExpr:
						return carries(x.X)
					case *ast.TypeAssertExpr:
						return carries(x.X)
					case *ast.KeyValueExpr:
						return carries(x.Value)
					case *ast.CompositeLit:
						for _, el := range x.Elts {
							if v, l := carries(el); v != nil || l != nil {
								return v, l
							}
						}
					case *ast.SelectorExpr:
						// a field of a local that aliases / was taken out of a package variable
						if id, ok := x.X.(*ast.Ident); ok && id.Obj != nil && isPkgVar(id) == nil {
							return aliasVar[id.Obj], nil
						}
					case *ast.IndexExpr:
						// an element of a package-level map / slice whose element type is itself mutable
						if v, _ := rootVar(x.X); v != nil && v.elemMutable {
							return v, nil
						}
					case *ast.CallExpr:
						// a value taken out of a package-level container (cache.Load(k), cache.Get(k))
						if se, ok := x.Fun.(*ast.SelectorExpr); ok {
							switch se.Sel.Name {
							case "Load", "LoadOrStore", "LoadAndDelete", "Swap", "Get", "GetOrCompute", "Peek":
								if v, _ := rootVar(se.X); v != nil && strings.HasSuffix(v.MutableWhy, "(container)") {
									return v, nil
								}
							}
						}
						if id, ok := x.Fun.(*ast.Ident); ok && id.Name == "append" {
							for _, a := range x.Args {
								if v, l := carries(a); v != nil || l != nil {
									return v, l
								}
							}
						}
					}
					return nil, nil
				}
				isLocal := func(e ast.Expr) *ast.Object {
					id, ok := e.(*ast.Ident)
					if !ok || id.Obj == nil || id.Name == "_" || isPkgVar(id) != nil {
						return nil
					}
					return id.Obj
				}
				// aliases, to a fixed point (flow-insensitive)
				for round := 0; round < 4; round++ {
					changed := false
					ast.Inspect(fd.Body, func(n ast.Node) bool {
						bind := func(l ast.Expr, r ast.Expr) {
							obj := isLocal(l)
							if obj == nil {
								return
							}
							v, lit := carries(r)
							if v != nil && aliasVar[obj] == nil {
								aliasVar[obj] = v
								changed = true
							}
							if lit != nil && aliasLit[obj] == nil {
								aliasLit[obj] = lit
								changed = true
							}
						}
						switch x := n.(type) {
						case *ast.AssignStmt:
							if len(x.Lhs) == len(x.Rhs) {
								for i := range x.Lhs {
									bind(x.Lhs[i], x.Rhs[i])
								}
							} else if len(x.Rhs) == 1 && len(x.Lhs) == 2 { // v, ok := m[k] / c.Load(k) / y.(T)
								bind(x.Lhs[0], x.Rhs[0])
							}
						case *ast.ValueSpec:
							if len(x.Names) == len(x.Values) {
								for i := range x.Names {
									bind(x.Names[i], x.Values[i])
								}
							}
						}
						return true
					})
					if !changed {
						break
					}
				}
				escLit := map[*ast.FuncLit]string{}
				var litOrder []*ast.FuncLit
				var escapeVar func(v *globalVar, how string, pos token.Pos)
				escape := func(e ast.Expr, how string, pos token.Pos) {
					v, lit := carries(e)
					escapeVar(v, how, pos)
					if lit != nil {
						if _, ok := escLit[lit]; !ok {
							escLit[lit] = how
							litOrder = append(litOrder, lit)
						}
					}
				}
				escapeVar = func(v *globalVar, how string, pos token.Pos) {
					if v != nil {
						dup := false
						for _, ex := range v.Escapes {
							if ex.Func == fname && ex.How == how && ex.Pos == p.pos(fi, pos) {
								dup = true
							}
						}
						if !dup {
							v.Escapes = append(v.Escapes, globalEscape{Func: fname, How: how, Pos: p.pos(fi, pos)})
						}
					}
				}
				ast.Inspect(fd.Body, func(n ast.Node) bool {
					switch x := n.(type) {
					case *ast.ReturnStmt:
						for _, r := range x.Results {
							escape(r, "returned", r.Pos())
						}
					case *ast.AssignStmt:
						if len(x.Lhs) == len(x.Rhs) {
							for i, l := range x.Lhs {
								switch l.(type) {
								case *ast.SelectorExpr, *ast.IndexExpr, *ast.StarExpr:
									escape(x.Rhs[i], "stored", x.Rhs[i].Pos())
								}
							}
						}
					case *ast.CallExpr:
						// handed to another function (which may keep or change it): only package variables, not literals
						if id, ok := x.Fun.(*ast.Ident); ok {
							switch id.Name {
							case "len", "cap", "delete", "append", "copy", "clear", "print", "println", "panic", "min", "max", "new", "make",
								"close", "recover", "real", "imag", "complex",
								// conversions to predeclared types copy (string(x)) or do not alias
								"string", "bool", "byte", "rune", "int", "int8", "int16", "int32", "int64", "uint", "uint8", "uint16",
								"uint32", "uint64", "uintptr", "float32", "float64", "complex64", "complex128":
								return true
							}
						}
						for _, a := range x.Args {
							if u, ok := a.(*ast.UnaryExpr); ok && u.Op == token.AND {
								continue // &x is in the writes table already (how = addr)
							}
							if v, _ := carries(a); v != nil {
								escapeVar(v, "passed", a.Pos())
							}
						}
					case *ast.CompositeLit:
						// a function literal inside a composite literal outlives the call if the literal does; a
						// composite literal that is only a local temporary is rare enough to count it
						for _, el := range x.Elts {
							val := el
							if kv, ok := el.(*ast.KeyValueExpr); ok {
								val = kv.Value
							}
							if lit, ok := val.(*ast.FuncLit); ok {
								if _, ok := escLit[lit]; !ok {
									escLit[lit] = "stored"
									litOrder = append(litOrder, lit)
								}
							}
						}
					}
					return true
				})
				sort.Slice(litOrder, func(i, j int) bool { return litOrder[i].Pos() < litOrder[j].Pos() })
				for _, lit := range litOrder {
					rec := closureRec{Pkg: p.name, Func: fname, Escape: escLit[lit], Pos: p.pos(fi, lit.Pos()), Writes: []capturedWrite{}}
					captured := func(e ast.Expr, forceHow string, pos token.Pos) {
						id, how := baseIdent(e)
						if id == nil || id.Obj == nil || id.Name == "_" {
							return
						}
						dp := id.Obj.Pos()
						if dp < fd.Pos() || dp >= fd.End() || (dp >= lit.Pos() && dp < lit.End()) {
							return
						}
						if forceHow != "" {
							how = forceHow
						}
						decl := "local"
						if fd.Recv != nil && dp >= fd.Recv.Pos() && dp < fd.Recv.End() {
							decl = "recv"
						} else if dp >= fd.Type.Pos() && dp < fd.Type.End() {
							decl = "param"
						}
						rec.Writes = append(rec.Writes, capturedWrite{Var: id.Name, How: how, Decl: decl,
							UnderLock: underLock(pos, lit.Pos(), lit.End()), Pos: p.pos(fi, pos)})
					}
					ast.Inspect(lit.Body, func(n ast.Node) bool {
						switch x := n.(type) {
						case *ast.AssignStmt:
							if x.Tok == token.DEFINE {
								return true
							}
							for _, l := range x.Lhs {
								captured(l, "", l.Pos())
							}
						case *ast.IncDecStmt:
							captured(x.X, "", x.Pos())
						case *ast.UnaryExpr:
							if x.Op == token.AND {
								captured(x.X, "addr", x.Pos())
							}
						case *ast.CallExpr:
							if fid, ok := x.Fun.(*ast.Ident); ok && fid.Name == "delete" && len(x.Args) == 2 {
								captured(x.Args[0], "elem", x.Pos())
							}
						case *ast.RangeStmt:
							if x.Tok == token.ASSIGN {
								for _, l := range []ast.Expr{x.Key, x.Value} {
									if l != nil {
										captured(l, "", l.Pos())
									}
								}
							}
						}
						return true
					})
					closures = append(closures, rec)
				}
			}
		}
	}
	for _, p := range pkgOrder {
		sort.Strings(p.order)
		for _, n := range p.order {
			all = append(all, *p.vars[n])
		}
	}
	appends := extractAppends(pkgOrder)
	nodeWrites := extractNodeWrites(pkgOrder)
	configCalls := extractConfigCalls(pkgOrder)
	listeners := extractListenerDiscipline(pkgOrder)
	paramWrites := extractParamWrites(pkgOrder)
	sliceGetters, resultAppends := extractSliceGetters(pkgOrder)
	fieldWrites, fieldNotes := extractFieldWrites(pkgOrder)
	notes = append(notes, fieldNotes...)
	pools, poolPuts, freeLists := extractPools(pkgOrder)
	type fact struct {
		Globals       []globalVar          `json:"globals"`
		Closures      []closureRec         `json:"closures"`
		Appends       []appendRow          `json:"appends"`
		NodeWrites    []nodeWrite          `json:"nodeWrites"`
		ConfigCalls   []configCall         `json:"configCalls"`
		Listeners     []listenerDiscipline `json:"listeners"`
		ParamWrites   []paramWrite         `json:"paramWrites"`
		SliceGetters  []sliceGetter        `json:"sliceGetters"`
		ResultAppends []resultAppend       `json:"resultAppends"`
		FieldWrites   []fieldWrite         `json:"fieldWrites"`
		Pools         []poolDecl           `json:"pools"`
		PoolPuts      []poolPut            `json:"poolPuts"`
		FreeLists     []freeList           `json:"freeLists"`
		Notes         []string             `json:"notes,omitempty"`
	}
	js, _ := json.MarshalIndent(fact{all, closures, appends, nodeWrites, configCalls, listeners, paramWrites, sliceGetters, resultAppends, fieldWrites, pools, poolPuts, freeLists, notes}, "", " ")
	writeIfChanged(filepath.Join(facts, "globals.json"), string(js)+"\n")

	var b strings.Builder
	b.WriteString("import StorageModel.C18.Globals\nimport StorageModel.C18.ParserPool\n")
	b.WriteString("/- GENERATED by /verif/extract from the package-level vars and the escaping function literals of zitiql, ast, boltz, objectz — do not edit. -/\n")
	b.WriteString("namespace StorageModel.Generated\nopen StorageModel.C18\n")
	b.WriteString("def globals : List GlobalVar := [\n")
	for i, v := range all {
		if i > 0 {
			b.WriteString(",\n")
		}
		fmt.Fprintf(&b, "  { pkg := %q, name := %q, kind := .%s, writes := [", v.Pkg, v.Name, v.Kind)
		for j, w := range v.Writes {
			if j > 0 {
				b.WriteString(", ")
			}
			fmt.Fprintf(&b, "{ func := %q, how := .%s, inInit := %v, underLock := %v }", w.Func, w.How, w.InInit, w.UnderLock)
		}
		fmt.Fprintf(&b, "], typ := %q, mutable := %v, escapes := [", v.Type, v.Mutable)
		for j, e := range v.Escapes {
			if j > 0 {
				b.WriteString(", ")
			}
			fmt.Fprintf(&b, "{ func := %q, how := .%s }", e.Func, e.How)
		}
		b.WriteString("] }")
	}
	b.WriteString("]\n\n")
	b.WriteString("def closures : List Closure := [\n")
	for i, c := range closures {
		if i > 0 {
			b.WriteString(",\n")
		}
		fmt.Fprintf(&b, "  { pkg := %q, func := %q, escape := .%s, writes := [", c.Pkg, c.Func, c.Escape)
		for j, w := range c.Writes {
			if j > 0 {
				b.WriteString(", ")
			}
			decl := w.Decl
			if decl == "local" {
				decl = "loc" // `local` is a Lean keyword
			}
			fmt.Fprintf(&b, "{ name := %q, how := .%s, decl := .%s, underLock := %v }", w.Var, w.How, decl, w.UnderLock)
		}
		b.WriteString("] }")
	}
	b.WriteString("]\n\n")
	b.WriteString("def appends : List AppendRow := [\n")
	for i, a := range appends {
		if i > 0 {
			b.WriteString(",\n")
		}
		fmt.Fprintf(&b, "  { pkg := %q, func := %q, operand := %q, via := %q, how := .%s }", a.Pkg, a.Func, a.Operand, a.Via, a.How)
	}
	b.WriteString("]\n\n")
	b.WriteString("def nodeWrites : List NodeWrite := [\n")
	for i, w := range nodeWrites {
		if i > 0 {
			b.WriteString(",\n")
		}
		fmt.Fprintf(&b, "  { typ := %q, method := %q, field := %q, how := .%s, phase := .%s }", w.Type, w.Method, w.Field, w.How, w.Phase)
	}
	b.WriteString("]\n\n")
	b.WriteString("def configCalls : List ConfigCall := [\n")
	for i, c := range configCalls {
		if i > 0 {
			b.WriteString(",\n")
		}
		fmt.Fprintf(&b, "  { pkg := %q, func := %q, callee := %q, inInit := %v }", c.Pkg, c.Func, c.Callee, c.InInit)
	}
	b.WriteString("]\n\n")
	for _, l := range listeners {
		fmt.Fprintf(&b, "def %sListeners : ParserPool.Discipline :=\n  { removeBeforeAlways := %v, removeBeforePlain := %v, removeAfterDeferred := %v, addsCollector := %v }\n",
			l.Recogniser, l.RemoveBeforeAlways, l.RemoveBeforePlain, l.RemoveAfterDeferred, l.AddsCollector)
	}
	b.WriteString("\ndef paramWrites : List ParamWrite := [\n")
	for i, w := range paramWrites {
		if i > 0 {
			b.WriteString(",\n")
		}
		fmt.Fprintf(&b, "  { pkg := %q, func := %q, param := %q, how := .%s, api := .%s }", w.Pkg, w.Func, w.Param, w.How, w.Api)
	}
	b.WriteString("]\n\ndef sliceGetters : List SliceGetter := [\n")
	for i, g := range sliceGetters {
		if i > 0 {
			b.WriteString(",\n")
		}
		fmt.Fprintf(&b, "  { pkg := %q, func := %q, name := %q, returns := %q }", g.Pkg, g.Func, g.Name, g.Returns)
	}
	b.WriteString("]\n\ndef resultAppends : List ResultAppend := [\n")
	for i, r := range resultAppends {
		if i > 0 {
			b.WriteString(",\n")
		}
		fmt.Fprintf(&b, "  { pkg := %q, func := %q, getter := %q, via := %q }", r.Pkg, r.Func, r.Getter, r.Via)
	}
	b.WriteString("]\n\ndef fieldWrites : List FieldWrite := [\n")
	for i, w := range fieldWrites {
		if i > 0 {
			b.WriteString(",\n")
		}
		fmt.Fprintf(&b, "  { pkg := %q, typ := %q, method := %q, field := %q, how := .%s, api := .%s, shared := %v, underLock := %v }",
			w.Pkg, w.Type, w.Method, w.Field, w.How, w.Api, w.Shared, w.UnderLock)
	}
	b.WriteString("]\n\ndef pools : List PoolDecl := [\n")
	for i, w := range pools {
		if i > 0 {
			b.WriteString(",\n")
		}
		fmt.Fprintf(&b, "  { pkg := %q, name := %q, decl := %q }", w.Pkg, w.Name, w.Decl)
	}
	b.WriteString("]\n\ndef poolPuts : List PoolPut := [\n")
	for i, w := range poolPuts {
		if i > 0 {
			b.WriteString(",\n")
		}
		fmt.Fprintf(&b, "  { pkg := %q, pool := %q, func := %q, arg := %q, argKind := .%s, deferred := %v, usedAfter := %v, escapes := %q }",
			w.Pkg, w.Pool, w.Func, w.Arg, w.ArgKind, w.Deferred, w.UsedAfter, w.Escapes)
	}
	b.WriteString("]\n\ndef freeLists : List FreeList := [\n")
	for i, w := range freeLists {
		if i > 0 {
			b.WriteString(",\n")
		}
		fmt.Fprintf(&b, "  { pkg := %q, name := %q, typ := %q, func := %q }", w.Pkg, w.Name, w.Type, w.Func)
	}
	b.WriteString("]\nend StorageModel.Generated\n")
	writeIfChanged(filepath.Join(gen, "Globals.lean"), b.String())
}
