package main

import (
	"go/ast"
	"go/token"
	"strconv"
	"strings"
)

// NODE WRITES (round 4, C18).  Fourth table of Generated/Globals.lean: every write to the receiver's state in a method of
// an ast NODE type — a type of package ast with a method `Accept` or `Eval…` (the parsed filter: predicates, constants,
// symbols, arrays, set functions, query / sort / paging nodes).  A parsed query can be evaluated by many read transactions
// at once (QueryIdsC and friends take the compiled query), so evaluation must not write node state; per-evaluation state
// belongs to the `Symbols` argument (the row cursor).  Rows are classified by the method's phase:
//
//	setup   TypeTransform… / Set… / Adopt… / PostProcess… : run while the query is being built / adjusted by its one owner
//	eval    everything else (Eval…, Accept, String, IsConst, GetType, Symbol, getters …)
//
// PROCESS-WIDE CONFIG CALLS (round 4).  Fifth table: calls from the four packages into other modules that configure
// process-wide state (deny-list by import path + function), and assignments to package-level variables of other modules
// (`os.Stderr = …`, `time.Local = …`).  Such a call from a request path (parse, query) is an unsynchronised write to state
// every other goroutine reads.
type nodeWrite struct {
	Type   string `json:"type"`
	Method string `json:"method"`
	Field  string `json:"field"`
	How    string `json:"how"`
	Phase  string `json:"phase"` // setup | eval
	Pos    string `json:"pos"`
}

type configCall struct {
	Pkg    string `json:"pkg"`
	Func   string `json:"func"`
	Callee string `json:"callee"`
	InInit bool   `json:"inInit"`
	Pos    string `json:"pos"`
}

// import path (suffix) -> functions that set process-wide state
var processWideDenyList = map[string][]string{
	"github.com/antlr4-go/antlr/v4":    {"ConfigureRuntime"},
	"log":                              {"SetOutput", "SetFlags", "SetPrefix", "SetDefault"},
	"log/slog":                         {"SetDefault", "SetLogLoggerLevel"},
	"github.com/sirupsen/logrus":       {"SetLevel", "SetOutput", "SetFormatter", "SetReportCaller", "AddHook", "SetBufferPool"},
	"github.com/michaelquigley/pfxlog": {"GlobalInit", "GlobalConfig", "SetDefaultLogger", "SetPrefix", "SetFormatter"},
	"os":                               {"Setenv", "Unsetenv", "Clearenv", "Chdir"},
	"math/rand":                        {"Seed"},
	"runtime":                          {"GOMAXPROCS", "SetFinalizer", "SetBlockProfileRate", "SetMutexProfileFraction"},
	"runtime/debug":                    {"SetGCPercent", "SetMaxThreads", "SetMaxStack", "SetMemoryLimit", "SetPanicOnFault", "SetTraceback"},
	"flag":                             {"Parse", "Set"},
	"net/http":                         {"Handle", "HandleFunc"},
	"time":                             {},
	"syscall":                          {"Setenv", "Chdir", "Umask", "Setrlimit"},
}

func nodePhase(method string) string {
	for _, pfx := range []string{"TypeTransform", "Set", "Adopt", "PostProcess", "set", "adopt"} {
		if strings.HasPrefix(method, pfx) {
			return "setup"
		}
	}
	return "eval"
}

func extractNodeWrites(pkgOrder []*gPkg) []nodeWrite {
	var rows []nodeWrite
	for _, p := range pkgOrder {
		if p.name != "ast" {
			continue
		}
		// node types: a method Accept or Eval…
		isNode := map[string]bool{}
		for _, f := range p.files {
			for _, d := range f.Decls {
				fd, ok := d.(*ast.FuncDecl)
				if !ok || fd.Recv == nil || len(fd.Recv.List) != 1 {
					continue
				}
				if fd.Name.Name == "Accept" || strings.HasPrefix(fd.Name.Name, "Eval") {
					isNode[strings.TrimPrefix(typeText(fd.Recv.List[0].Type), "*")] = true
				}
			}
		}
		for fi, f := range p.files {
			for _, d := range f.Decls {
				fd, ok := d.(*ast.FuncDecl)
				if !ok || fd.Recv == nil || len(fd.Recv.List) != 1 || fd.Body == nil || len(fd.Recv.List[0].Names) != 1 {
					continue
				}
				tn := strings.TrimPrefix(typeText(fd.Recv.List[0].Type), "*")
				if !isNode[tn] {
					continue
				}
				recv := fd.Recv.List[0].Names[0]
				record := func(l ast.Expr, pos token.Pos) {
					id, how := baseIdent(l)
					if id == nil || id.Obj == nil || id.Obj != recv.Obj || how == "assign" {
						return
					}
					// the field chain, as written
					field := strings.TrimPrefix(sliceExprText(l), recv.Name+".")
					rows = append(rows, nodeWrite{Type: tn, Method: fd.Name.Name, Field: field, How: how,
						Phase: nodePhase(fd.Name.Name), Pos: p.pos(fi, pos)})
				}
				ast.Inspect(fd.Body, func(n ast.Node) bool {
					switch x := n.(type) {
					case *ast.AssignStmt:
						if x.Tok != token.DEFINE {
							for _, l := range x.Lhs {
								record(l, l.Pos())
							}
						}
					case *ast.IncDecStmt:
						record(x.X, x.Pos())
					case *ast.CallExpr:
						if fid, ok := x.Fun.(*ast.Ident); ok && fid.Name == "delete" && len(x.Args) == 2 {
							record(&ast.IndexExpr{X: x.Args[0]}, x.Pos())
						}
					case *ast.RangeStmt:
						if x.Tok == token.ASSIGN {
							for _, l := range []ast.Expr{x.Key, x.Value} {
								if l != nil {
									record(l, l.Pos())
								}
							}
						}
					}
					return true
				})
			}
		}
	}
	return rows
}

func extractConfigCalls(pkgOrder []*gPkg) []configCall {
	var rows []configCall
	for _, p := range pkgOrder {
		for fi, f := range p.files {
			imports := map[string]string{} // local name -> import path
			for _, im := range f.Imports {
				path, err := strconv.Unquote(im.Path.Value)
				if err != nil {
					continue
				}
				name := path[strings.LastIndex(path, "/")+1:]
				if name == "v4" || name == "v2" || name == "v3" {
					parts := strings.Split(path, "/")
					name = parts[len(parts)-2]
				}
				if im.Name != nil {
					name = im.Name.Name
				}
				imports[name] = path
			}
			foreign := func(e ast.Expr) (string, string, bool) {
				se, ok := e.(*ast.SelectorExpr)
				if !ok {
					return "", "", false
				}
				id, ok := se.X.(*ast.Ident)
				if !ok || id.Obj != nil {
					return "", "", false
				}
				path, ok := imports[id.Name]
				if !ok || strings.HasPrefix(path, storageImportPrefix) {
					return "", "", false
				}
				return path, se.Sel.Name, true
			}
			for _, d := range f.Decls {
				fd, ok := d.(*ast.FuncDecl)
				if !ok || fd.Body == nil {
					continue
				}
				fname := fd.Name.Name
				if fd.Recv != nil && len(fd.Recv.List) == 1 {
					fname = strings.TrimPrefix(typeText(fd.Recv.List[0].Type), "*") + "." + fname
				}
				inInit := fd.Recv == nil && fd.Name.Name == "init"
				ast.Inspect(fd.Body, func(n ast.Node) bool {
					switch x := n.(type) {
					case *ast.CallExpr:
						if path, fn, ok := foreign(x.Fun); ok {
							for _, denied := range processWideDenyList[path] {
								if denied == fn {
									rows = append(rows, configCall{Pkg: p.name, Func: fname, Callee: path + "." + fn, InInit: inInit, Pos: p.pos(fi, x.Pos())})
								}
							}
						}
					case *ast.AssignStmt:
						if x.Tok != token.DEFINE {
							for _, l := range x.Lhs {
								// pkg.Var = … / pkg.Var.f = … of another module
								e := l
								for {
									if path, v, ok := foreign(e); ok {
										rows = append(rows, configCall{Pkg: p.name, Func: fname, Callee: path + "." + v + " = …", InInit: inInit, Pos: p.pos(fi, l.Pos())})
										break
									}
									switch y := e.(type) {
									case *ast.SelectorExpr:
										e = y.X
										continue
									case *ast.IndexExpr:
										e = y.X
										continue
									case *ast.StarExpr:
										e = y.X
										continue
									case *ast.ParenExpr:
										e = y.X
										continue
									}
									break
								}
							}
						}
					}
					return true
				})
			}
		}
	}
	return rows
}
