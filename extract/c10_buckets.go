package main

// C10 extractor for the "structural bucket does not exist" class (go/parser + go/ast only).
//
// In package boltz a bucket that was never created is a nil *TypedBucket.  From the source:
//
//	nilGetters   functions / methods whose first result is *TypedBucket and which can return nil: the body has
//	             `return nil` or returns the call of such a function directly (fixpoint, by name)
//	nilSafe      methods with receiver *TypedBucket that may be called on nil: the first statement is
//	             `if <recv> == nil { … return }`, or the receiver is only ever used as the receiver of such
//	             methods (fixpoint)
//	sites        every selector `<x>.<M>` (method call or field access, M not nil-safe) in a non-test file of
//	             boltz whose <x> is the call of a nil getter (`store.GetEntitiesBucket(tx).OpenCursor`: never
//	             guarded) or an identifier assigned from one in the same function (guarded = the function
//	             compares that identifier with nil)
//
// -> Generated/C10Buckets.lean, facts/c10_buckets.json

import (
	"encoding/json"
	"fmt"
	"go/ast"
	"go/token"
	"path/filepath"
	"sort"
	"strings"
)

type c10BucketSite struct {
	File    string `json:"file"`
	Func    string `json:"func"`
	Expr    string `json:"expr"`
	Count   int    `json:"count"`
	Guarded bool   `json:"guarded"`
}

func c10IsTypedBucketPtr(e ast.Expr) bool {
	st, ok := e.(*ast.StarExpr)
	if !ok {
		return false
	}
	id, ok := st.X.(*ast.Ident)
	return ok && id.Name == "TypedBucket"
}

// the read path: the query files as a whole (a helper a site moves into stays in view), the read functions of the
// other files by name
var c10BucketReadFiles = map[string]bool{"boltz/query_scanners.go": true, "boltz/store_query.go": true, "boltz/query_cursor.go": true}
var c10BucketReadFuncs = map[string]bool{"BaseStore.FindById": true, "BaseStore.LoadById": true, "BaseStore.LoadEntity": true,
	"BaseStore.GetRelatedEntitiesIdList": true, "BaseStore.GetRelatedEntitiesCursor": true, "BaseStore.IsEntityRelated": true,
	"BaseStore.IsEntityPresent": true, "BaseStore.getEntityBucketForLoad": true, "BaseStore.GetEntityBucket": true,
	"BaseStore.GetEntitiesBucket": true, "setIndex.Read": true, "setIndex.ReadKeys": true, "setIndex.OpenKeyCursor": true,
	"setIndex.OpenValueCursor": true, "uniqueIndex.Read": true, "linkCollectionImpl.IterateLinks": true, "linkCollectionImpl.IsLinked": true,
	"LinkedSetSymbol.IsLinked": true, "TypedBucket.GetMap": true, "TypedBucket.GetStringList": true, "TypedBucket.IsStringListEmpty": true,
	"TypedBucket.getMarshaled": true, "TypedBucket.ReadStringList": true, "entitySetSymbolImpl.openBoltCursor": true, "Path": true}

func c10BucketReadPath(file, label string) bool {
	return c10BucketReadFiles[file] || c10BucketReadFuncs[label]
}

func c10CalleeName(call *ast.CallExpr) string {
	switch f := call.Fun.(type) {
	case *ast.Ident:
		return f.Name
	case *ast.SelectorExpr:
		return f.Sel.Name
	}
	return ""
}

func extractC10Buckets(repo, gen, facts string) {
	fset, files, names := c10ParseDir(filepath.Join(repo, "boltz"))
	type fn struct {
		file string
		decl *ast.FuncDecl
	}
	var fns []fn
	for i, f := range files {
		if strings.HasSuffix(names[i], "_test.go") {
			continue
		}
		for _, d := range f.Decls {
			if fd, ok := d.(*ast.FuncDecl); ok && fd.Body != nil {
				fns = append(fns, fn{"boltz/" + names[i], fd})
			}
		}
	}
	returnsBucket := func(fd *ast.FuncDecl) bool {
		return fd.Type.Results != nil && len(fd.Type.Results.List) > 0 && c10IsTypedBucketPtr(fd.Type.Results.List[0].Type)
	}
	// nil-returning getters
	nilGetters := map[string]bool{}
	for changed := true; changed; {
		changed = false
		for _, f := range fns {
			if !returnsBucket(f.decl) || nilGetters[f.decl.Name.Name] {
				continue
			}
			found := false
			ast.Inspect(f.decl.Body, func(n ast.Node) bool {
				if _, isLit := n.(*ast.FuncLit); isLit {
					return false
				}
				if r, ok := n.(*ast.ReturnStmt); ok && len(r.Results) > 0 {
					switch x := r.Results[0].(type) {
					case *ast.Ident:
						if x.Name == "nil" {
							// `return nil, err`: the error is what the caller tests
							alone := true
							for _, o := range r.Results[1:] {
								if oi, ok := o.(*ast.Ident); !ok || oi.Name != "nil" {
									alone = false
								}
							}
							if alone {
								found = true
							}
						}
					case *ast.CallExpr:
						if nilGetters[c10CalleeName(x)] {
							found = true
						}
					}
				}
				return true
			})
			if found {
				nilGetters[f.decl.Name.Name] = true
				changed = true
			}
		}
	}
	// nil-safe methods of *TypedBucket
	nilSafe := map[string]bool{}
	recvOf := func(fd *ast.FuncDecl) string {
		if fd.Recv == nil || len(fd.Recv.List) != 1 || !c10IsTypedBucketPtr(fd.Recv.List[0].Type) || len(fd.Recv.List[0].Names) != 1 {
			return ""
		}
		return fd.Recv.List[0].Names[0].Name
	}
	for changed := true; changed; {
		changed = false
		for _, f := range fns {
			r := recvOf(f.decl)
			if r == "" || nilSafe[f.decl.Name.Name] {
				continue
			}
			safe := false
			if len(f.decl.Body.List) > 0 {
				if is, ok := f.decl.Body.List[0].(*ast.IfStmt); ok && is.Init == nil {
					if be, ok := is.Cond.(*ast.BinaryExpr); ok && be.Op == token.EQL {
						x, okx := be.X.(*ast.Ident)
						y, oky := be.Y.(*ast.Ident)
						if okx && oky && x.Name == r && y.Name == "nil" && len(is.Body.List) > 0 {
							if _, isRet := is.Body.List[len(is.Body.List)-1].(*ast.ReturnStmt); isRet {
								safe = true
							}
						}
					}
				}
			}
			if !safe {
				// every use of the receiver is `<recv>.<nil-safe method>(…)`
				uses, okUses := 0, 0
				ast.Inspect(f.decl.Body, func(n ast.Node) bool {
					if call, ok := n.(*ast.CallExpr); ok {
						if sel, ok := call.Fun.(*ast.SelectorExpr); ok {
							if id, ok := sel.X.(*ast.Ident); ok && id.Name == r && nilSafe[sel.Sel.Name] {
								okUses++
							}
						}
					}
					if id, ok := n.(*ast.Ident); ok && id.Name == r {
						uses++
					}
					return true
				})
				safe = uses > 0 && uses == okUses
			}
			if safe {
				nilSafe[f.decl.Name.Name] = true
				changed = true
			}
		}
	}
	// sites
	var sites []c10BucketSite
	add := func(file, label, expr string, guarded bool) {
		for i := range sites {
			if sites[i].File == file && sites[i].Func == label && sites[i].Expr == expr {
				sites[i].Count++
				return
			}
		}
		sites = append(sites, c10BucketSite{file, label, expr, 1, guarded})
	}
	for _, f := range fns {
		label := c10FuncLabel(f.decl)
		if !c10BucketReadPath(f.file, label) {
			continue
		}
		maybeNil := map[string]bool{}
		nilCmp := map[string]bool{}
		ast.Inspect(f.decl.Body, func(n ast.Node) bool {
			switch s := n.(type) {
			case *ast.AssignStmt:
				if len(s.Lhs) >= 1 && len(s.Rhs) == 1 {
					if call, ok := s.Rhs[0].(*ast.CallExpr); ok && nilGetters[c10CalleeName(call)] {
						if id, ok := s.Lhs[0].(*ast.Ident); ok {
							maybeNil[id.Name] = true
						}
					}
				}
			case *ast.ValueSpec:
				if len(s.Names) >= 1 && len(s.Values) == 1 {
					if call, ok := s.Values[0].(*ast.CallExpr); ok && nilGetters[c10CalleeName(call)] {
						maybeNil[s.Names[0].Name] = true
					}
				}
			case *ast.BinaryExpr:
				if s.Op == token.EQL || s.Op == token.NEQ {
					x, okx := s.X.(*ast.Ident)
					y, oky := s.Y.(*ast.Ident)
					if okx && oky {
						if y.Name == "nil" {
							nilCmp[x.Name] = true
						}
						if x.Name == "nil" {
							nilCmp[y.Name] = true
						}
					}
				}
			}
			return true
		})
		ast.Inspect(f.decl.Body, func(n ast.Node) bool {
			sel, ok := n.(*ast.SelectorExpr)
			if !ok || nilSafe[sel.Sel.Name] {
				return true
			}
			switch x := sel.X.(type) {
			case *ast.Ident:
				if maybeNil[x.Name] {
					add(f.file, label, x.Name+"."+sel.Sel.Name, nilCmp[x.Name])
				}
			case *ast.CallExpr:
				if nilGetters[c10CalleeName(x)] {
					add(f.file, label, c10ExprText(fset, x)+"."+sel.Sel.Name, false)
				}
			}
			return true
		})
	}
	sort.SliceStable(sites, func(i, j int) bool {
		a, b := sites[i], sites[j]
		if a.File != b.File {
			return a.File < b.File
		}
		if a.Func != b.Func {
			return a.Func < b.Func
		}
		return a.Expr < b.Expr
	})
	keys := func(m map[string]bool) []string {
		var ks []string
		for k := range m {
			ks = append(ks, k)
		}
		sort.Strings(ks)
		return ks
	}
	js, _ := json.MarshalIndent(map[string]interface{}{"nilGetters": keys(nilGetters), "nilSafe": keys(nilSafe), "sites": sites}, "", " ")
	writeIfChanged(filepath.Join(facts, "c10_buckets.json"), string(js)+"\n")

	var b strings.Builder
	b.WriteString("/- GENERATED by /verif/extract (c10_buckets.go) — do not edit.\n")
	b.WriteString("   A bucket that was never created is a nil *TypedBucket.  nilGetters: functions of package boltz that can\n")
	b.WriteString("   return a nil *TypedBucket; nilSafeMethods: *TypedBucket methods that test their receiver for nil first;\n")
	b.WriteString("   bucketSites: (file, function, `<x>.<member>`, occurrences, guarded) for every other member selected on\n")
	b.WriteString("   the result of a nil getter — directly on the call (never guarded) or through an identifier assigned from\n")
	b.WriteString("   it (guarded = the function compares the identifier with nil). -/\n")
	b.WriteString("namespace StorageModel.Generated.C10\n")
	strList := func(name string, ks []string) {
		fmt.Fprintf(&b, "def %s : List String := [", name)
		for i, k := range ks {
			if i > 0 {
				b.WriteString(", ")
			}
			fmt.Fprintf(&b, "%q", k)
		}
		b.WriteString("]\n")
	}
	strList("nilGetters", keys(nilGetters))
	strList("nilSafeMethods", keys(nilSafe))
	b.WriteString("def bucketSites : List (String × String × String × Nat × Bool) := [\n")
	for i, s := range sites {
		sep := ","
		if i == len(sites)-1 {
			sep = ""
		}
		fmt.Fprintf(&b, "  (%q, %q, %q, %d, %v)%s\n", s.File, s.Func, s.Expr, s.Count, s.Guarded, sep)
	}
	b.WriteString("]\n")
	fmt.Fprintf(&b, "/-- ast.Parse: every statement guarded by `EnableQueryDebug.Load()` mentions only parameters of Parse, no local of it -/\ndef astParseDebugReadsOnlyInput : Bool := %v\n", c10DebugReadsOnlyInput(repo))
	b.WriteString("end StorageModel.Generated.C10\n")
	writeIfChanged(filepath.Join(gen, "C10Buckets.lean"), b.String())
}

// c10DebugReadsOnlyInput: in ast/helper.go Parse, do the bodies of all `if EnableQueryDebug.Load() {…}` statements
// avoid every local variable of Parse?  (false also when Parse is not found)
func c10DebugReadsOnlyInput(repo string) bool {
	fset, files, names := c10ParseDir(filepath.Join(repo, "ast"))
	for i, f := range files {
		if names[i] != "helper.go" {
			continue
		}
		for _, d := range f.Decls {
			fd, ok := d.(*ast.FuncDecl)
			if !ok || fd.Name.Name != "Parse" || fd.Recv != nil || fd.Body == nil {
				continue
			}
			locals := map[string]bool{}
			ast.Inspect(fd.Body, func(n ast.Node) bool {
				switch s := n.(type) {
				case *ast.AssignStmt:
					if s.Tok == token.DEFINE {
						for _, l := range s.Lhs {
							if id, ok := l.(*ast.Ident); ok {
								locals[id.Name] = true
							}
						}
					}
				case *ast.ValueSpec:
					for _, id := range s.Names {
						locals[id.Name] = true
					}
				}
				return true
			})
			okAll := true
			ast.Inspect(fd.Body, func(n ast.Node) bool {
				is, ok := n.(*ast.IfStmt)
				if !ok || !strings.Contains(c10ExprText(fset, is.Cond), "EnableQueryDebug") {
					return true
				}
				ast.Inspect(is.Body, func(m ast.Node) bool {
					if id, ok := m.(*ast.Ident); ok && locals[id.Name] {
						okAll = false
					}
					return true
				})
				return true
			})
			return okAll
		}
	}
	return false
}
