package main

import (
	"go/ast"
	"sort"
	"strings"
)

// SLICE GETTERS AND APPENDS ONTO THEIR RESULTS (round 9, C18).  The append table (globals_appends.go) does not follow
// a slice through a call: a getter that returns a STORED slice hands every caller the same backing array, and a caller
// doing `append(result, …)` writes into its spare capacity.  Two tables, joined in Lean by bare function name
// (go/parser only, no type information: over-approximating):
//
//	sliceGetters    every function / method of the four packages with a single slice result (`[]T`) that returns a
//	                stored slice: `x.f` / `x.f.g` rooted at the receiver, a parameter or a package variable, a slice
//	                expression of one, a local aliasing one (flow-insensitive), `append(stored, …)`, or the result of a
//	                call to another such getter (`via`, to a fixed point)
//	resultAppends   every `append(first, …)` whose first argument is the result of a call to a function of the four
//	                packages with a slice result: written directly `append(G(), …)`, through a local `x := G()`, or
//	                through a slice PARAMETER of a function F (`func F(p []T) { p = append(p, …) }`) at each call site
//	                `F(G())` / `x := G(); F(x)` (via = F)
//
// Obligation (Lean): no resultAppends row names a getter of sliceGetters.
type sliceGetter struct {
	Pkg     string `json:"pkg"`
	Func    string `json:"func"`    // Type.Method or function name
	Name    string `json:"name"`    // bare name (join key)
	Returns string `json:"returns"` // the stored expression, or "via G()"
	Pos     string `json:"pos"`
}

type resultAppend struct {
	Pkg    string `json:"pkg"`
	Func   string `json:"func"`   // the function containing the append (or the call site when via != "")
	Getter string `json:"getter"` // bare name of the function whose result is appended to
	Via    string `json:"via"`    // "" | local x | parameter p of F
	Pos    string `json:"pos"`
}

func isSliceType(e ast.Expr) bool {
	t, ok := e.(*ast.ArrayType)
	return ok && t.Len == nil
}

func calleeName(c *ast.CallExpr) string {
	switch f := c.Fun.(type) {
	case *ast.Ident:
		switch f.Name {
		case "append", "make", "new", "copy", "len", "cap", "string":
			return ""
		}
		return f.Name
	case *ast.SelectorExpr:
		return f.Sel.Name
	}
	return ""
}

func extractSliceGetters(pkgOrder []*gPkg) ([]sliceGetter, []resultAppend) {
	type fnInfo struct {
		p       *gPkg
		fi      int
		fd      *ast.FuncDecl
		name    string
		roots   map[*ast.Object]bool // receiver and parameters
		sparams map[*ast.Object]int  // slice parameters by position
	}
	var fns []*fnInfo
	sliceResult := map[string]bool{} // bare names of functions of the four packages with a single slice result
	for _, p := range pkgOrder {
		for fi, f := range p.files {
			if strings.HasPrefix(p.names[fi], "zitiql_") {
				continue
			}
			for _, d := range f.Decls {
				fd, ok := d.(*ast.FuncDecl)
				if !ok || fd.Body == nil {
					continue
				}
				fn := &fnInfo{p: p, fi: fi, fd: fd, name: fd.Name.Name, roots: map[*ast.Object]bool{}, sparams: map[*ast.Object]int{}}
				if fd.Recv != nil && len(fd.Recv.List) == 1 {
					fn.name = strings.TrimPrefix(typeText(fd.Recv.List[0].Type), "*") + "." + fd.Name.Name
					for _, n := range fd.Recv.List[0].Names {
						if n.Obj != nil {
							fn.roots[n.Obj] = true
						}
					}
				}
				pos := 0
				for _, fl := range fd.Type.Params.List {
					if len(fl.Names) == 0 {
						pos++
					}
					for _, n := range fl.Names {
						if n.Obj != nil && n.Name != "_" {
							fn.roots[n.Obj] = true
							if isSliceType(fl.Type) {
								fn.sparams[n.Obj] = pos
							}
						}
						pos++
					}
				}
				if r := fd.Type.Results; r != nil && len(r.List) == 1 && len(r.List[0].Names) <= 1 && isSliceType(r.List[0].Type) {
					sliceResult[fd.Name.Name] = true
				}
				fns = append(fns, fn)
			}
		}
	}
	isPkgVar := func(fn *fnInfo, id *ast.Ident) bool {
		v, ok := fn.p.vars[id.Name]
		if !ok || v == nil {
			return false
		}
		if id.Obj == nil {
			return true // declared in another file of the package
		}
		vs, ok := id.Obj.Decl.(*ast.ValueSpec)
		return ok && fn.p.specs[vs]
	}
	// --- getters ---
	stored := map[string]bool{} // bare names
	var getters []sliceGetter
	seen := map[string]bool{}
	for round := 0; round < 6; round++ {
		changed := false
		for _, fn := range fns {
			r := fn.fd.Type.Results
			if r == nil || len(r.List) != 1 || len(r.List[0].Names) > 1 || !isSliceType(r.List[0].Type) {
				continue
			}
			alias := map[*ast.Object]string{}
			var storedExpr func(e ast.Expr) string
			storedExpr = func(e ast.Expr) string {
				switch x := e.(type) {
				case *ast.ParenExpr:
					return storedExpr(x.X)
				case *ast.SliceExpr:
					return storedExpr(x.X)
				case *ast.Ident:
					if x.Obj != nil {
						if s, ok := alias[x.Obj]; ok {
							return s
						}
					}
					if isPkgVar(fn, x) {
						return x.Name
					}
				case *ast.SelectorExpr:
					root := x.X
					for {
						if s, ok := root.(*ast.SelectorExpr); ok {
							root = s.X
							continue
						}
						break
					}
					if id, ok := root.(*ast.Ident); ok && id.Obj != nil && (fn.roots[id.Obj] || isPkgVar(fn, id)) {
						return sliceExprText(x)
					}
				case *ast.CallExpr:
					if id, ok := x.Fun.(*ast.Ident); ok && id.Name == "append" && len(x.Args) > 0 {
						return storedExpr(x.Args[0])
					}
					if n := calleeName(x); n != "" && stored[n] {
						return "via " + n + "()"
					}
				}
				return ""
			}
			for k := 0; k < 3; k++ {
				ast.Inspect(fn.fd.Body, func(n ast.Node) bool {
					bind := func(l, r ast.Expr) {
						id, ok := l.(*ast.Ident)
						if !ok || id.Obj == nil || id.Name == "_" || fn.roots[id.Obj] {
							return
						}
						if _, have := alias[id.Obj]; have {
							return
						}
						if s := storedExpr(r); s != "" {
							alias[id.Obj] = s
						}
					}
					switch x := n.(type) {
					case *ast.AssignStmt:
						if len(x.Lhs) == len(x.Rhs) {
							for i := range x.Lhs {
								bind(x.Lhs[i], x.Rhs[i])
							}
						}
					case *ast.ValueSpec:
						if len(x.Names) == len(x.Values) {
							for i := range x.Names {
								bind(x.Names[i], x.Values[i])
							}
						}
					}
					return true
				})
			}
			ast.Inspect(fn.fd.Body, func(n ast.Node) bool {
				if _, ok := n.(*ast.FuncLit); ok {
					return false
				}
				ret, ok := n.(*ast.ReturnStmt)
				if !ok || len(ret.Results) != 1 {
					return true
				}
				if s := storedExpr(ret.Results[0]); s != "" {
					key := fn.p.name + "." + fn.name + " " + s
					if !seen[key] {
						seen[key] = true
						getters = append(getters, sliceGetter{Pkg: fn.p.name, Func: fn.name, Name: fn.fd.Name.Name, Returns: s, Pos: fn.p.pos(fn.fi, ret.Pos())})
					}
					if !stored[fn.fd.Name.Name] {
						stored[fn.fd.Name.Name] = true
						changed = true
					}
				}
				return true
			})
		}
		if !changed {
			break
		}
	}
	// --- appends onto results ---
	// functions that append onto a slice parameter: bare name -> positions
	appendsOntoParam := map[string]map[int]bool{}
	for _, fn := range fns {
		if len(fn.sparams) == 0 {
			continue
		}
		ast.Inspect(fn.fd.Body, func(n ast.Node) bool {
			c, ok := n.(*ast.CallExpr)
			if !ok || len(c.Args) == 0 {
				return true
			}
			if id, ok := c.Fun.(*ast.Ident); !ok || id.Name != "append" {
				return true
			}
			if id, ok := c.Args[0].(*ast.Ident); ok && id.Obj != nil {
				if k, ok := fn.sparams[id.Obj]; ok {
					if appendsOntoParam[fn.fd.Name.Name] == nil {
						appendsOntoParam[fn.fd.Name.Name] = map[int]bool{}
					}
					appendsOntoParam[fn.fd.Name.Name][k] = true
				}
			}
			return true
		})
	}
	var rows []resultAppend
	rseen := map[string]bool{}
	for _, fn := range fns {
		fromCall := map[*ast.Object]string{} // local := G()
		ast.Inspect(fn.fd.Body, func(n ast.Node) bool {
			as, ok := n.(*ast.AssignStmt)
			if !ok || len(as.Rhs) != 1 || len(as.Lhs) < 1 {
				return true
			}
			c, ok := as.Rhs[0].(*ast.CallExpr)
			if !ok {
				return true
			}
			g := calleeName(c)
			if g == "" || !sliceResult[g] {
				return true
			}
			if id, ok := as.Lhs[0].(*ast.Ident); ok && id.Obj != nil && id.Name != "_" {
				fromCall[id.Obj] = g
			}
			return true
		})
		getterOf := func(e ast.Expr) (string, string) {
			switch x := e.(type) {
			case *ast.CallExpr:
				if g := calleeName(x); g != "" && sliceResult[g] {
					return g, ""
				}
			case *ast.Ident:
				if x.Obj != nil {
					if g, ok := fromCall[x.Obj]; ok {
						return g, x.Name
					}
				}
			}
			return "", ""
		}
		add := func(g, via string, c *ast.CallExpr) {
			key := fn.p.name + "." + fn.name + " " + g + " " + via
			if rseen[key] {
				return
			}
			rseen[key] = true
			rows = append(rows, resultAppend{Pkg: fn.p.name, Func: fn.name, Getter: g, Via: via, Pos: fn.p.pos(fn.fi, c.Pos())})
		}
		ast.Inspect(fn.fd.Body, func(n ast.Node) bool {
			c, ok := n.(*ast.CallExpr)
			if !ok || len(c.Args) == 0 {
				return true
			}
			if id, ok := c.Fun.(*ast.Ident); ok && id.Name == "append" {
				if g, via := getterOf(c.Args[0]); g != "" {
					add(g, via, c)
				}
				return true
			}
			if f := calleeName(c); f != "" {
				for k := range appendsOntoParam[f] {
					if k < len(c.Args) {
						if g, _ := getterOf(c.Args[k]); g != "" {
							add(g, "parameter of "+f, c)
						}
					}
				}
			}
			return true
		})
	}
	sort.SliceStable(getters, func(i, j int) bool {
		if getters[i].Pkg != getters[j].Pkg {
			return getters[i].Pkg < getters[j].Pkg
		}
		return getters[i].Func < getters[j].Func
	})
	sort.SliceStable(rows, func(i, j int) bool {
		if rows[i].Pkg != rows[j].Pkg {
			return rows[i].Pkg < rows[j].Pkg
		}
		return rows[i].Func < rows[j].Func
	})
	return getters, rows
}
