package main

import (
	"go/ast"
	"go/token"
	"strings"
)

// APPENDS (round 3, C18).  Third table of Generated/Globals.lean: every `append(first, …)` in a function of
// zitiql / ast / boltz / objectz that touches a STORED slice — a struct field `x.f` (a slice that lives as long as the
// object: store, symbol, index, definition, listener …), a package-level variable, a slice expression of one, or a
// local that may alias one (`p := x.f`, `p := x.f[:n]`, `p = q` with q such a local, `p = append(p, …)` keeps p's state;
// flow-insensitive, inside one function) — classified by what happens to the result:
//
//	assignedBack  x.f = append(x.f, …)         the object grows its own slice (registration code); the result is not
//	                                           handed to anybody else
//	copyOut       append(fresh, x.f...)        a stored slice is only READ, spread into a slice that is fresh in this
//	                                           function (nil `var`, []T{}, make, the result of such an append): the
//	                                           idiom for building a per-call copy
//	ontoShared    p := x.f; q := append(p, …)  the result goes somewhere else (a local, a return value, an argument,
//	              f(append(x.f, …))            another field): when the stored slice has spare capacity the appended
//	                                           elements are written into ITS backing array, under every earlier result
//	                                           of the same expression — slices handed out to different callers alias
//
// A local is fresh when every assignment to it is a nil declaration, a composite literal, make(…), a call other than
// append, or an append whose first argument is fresh (slices.Clone / bytes.Clone included: calls).  Parameters are not
// tracked (a slice parameter belongs to the caller).
type appendRow struct {
	Pkg     string `json:"pkg"`
	Func    string `json:"func"`
	Operand string `json:"operand"` // the stored slice, as written: self.path, store.symbols …
	Via     string `json:"via"`     // "" when the operand is written in the append itself, else the aliasing local
	How     string `json:"how"`     // assignedBack | copyOut | ontoShared
	Dest    string `json:"dest"`    // where the result goes (documentation)
	Pos     string `json:"pos"`
}

func sliceExprText(e ast.Expr) string {
	switch x := e.(type) {
	case *ast.Ident:
		return x.Name
	case *ast.SelectorExpr:
		return sliceExprText(x.X) + "." + x.Sel.Name
	case *ast.ParenExpr:
		return sliceExprText(x.X)
	case *ast.SliceExpr:
		return sliceExprText(x.X) + "[:]"
	case *ast.IndexExpr:
		return sliceExprText(x.X) + "[]"
	case *ast.StarExpr:
		return "*" + sliceExprText(x.X)
	case *ast.CallExpr:
		return sliceExprText(x.Fun) + "()"
	}
	return "?"
}

func extractAppends(pkgOrder []*gPkg) []appendRow {
	var rows []appendRow
	for _, p := range pkgOrder {
		for fi, f := range p.files {
			if strings.HasPrefix(p.names[fi], "zitiql_") { // ANTLR generated code
				continue
			}
			imported := map[string]bool{}
			for _, im := range f.Imports {
				path := strings.Trim(im.Path.Value, `"`)
				name := path[strings.LastIndex(path, "/")+1:]
				if im.Name != nil {
					name = im.Name.Name
				}
				imported[name] = true
			}
			isPkgVar := func(id *ast.Ident) bool {
				v, ok := p.vars[id.Name]
				if !ok || v == nil {
					return false
				}
				if id.Obj == nil {
					return true
				}
				vs, ok := id.Obj.Decl.(*ast.ValueSpec)
				return ok && p.specs[vs]
			}
			for _, d := range f.Decls {
				fd, ok := d.(*ast.FuncDecl)
				if !ok || fd.Body == nil {
					continue
				}
				fname := fd.Name.Name
				if fd.Recv != nil && len(fd.Recv.List) == 1 {
					fname = strings.TrimPrefix(typeText(fd.Recv.List[0].Type), "*") + "." + fname
				}
				// stored(e): e denotes a slice kept in an object / package variable; returns its text
				alias := map[*ast.Object]string{} // local -> the stored slice it may alias
				var stored func(e ast.Expr) (string, string)
				stored = func(e ast.Expr) (text string, via string) {
					switch x := e.(type) {
					case *ast.ParenExpr:
						return stored(x.X)
					case *ast.SliceExpr:
						return stored(x.X)
					case *ast.SelectorExpr:
						if id, ok := x.X.(*ast.Ident); ok && id.Obj == nil && imported[id.Name] {
							// pkg.Var of another package: a package variable there (only slices are ever appended to)
							return sliceExprText(x), ""
						}
						return sliceExprText(x), ""
					case *ast.Ident:
						if isPkgVar(x) {
							return x.Name, ""
						}
						if x.Obj != nil {
							if t, ok := alias[x.Obj]; ok {
								return t, x.Name
							}
						}
					}
					return "", ""
				}
				isAppend := func(e ast.Expr) *ast.CallExpr {
					c, ok := e.(*ast.CallExpr)
					if !ok || len(c.Args) == 0 {
						return nil
					}
					if id, ok := c.Fun.(*ast.Ident); ok && id.Name == "append" && id.Obj == nil {
						return c
					}
					return nil
				}
				// may-alias locals, to a fixed point
				for round := 0; round < 5; round++ {
					changed := false
					bind := func(l, r ast.Expr) {
						id, ok := l.(*ast.Ident)
						if !ok || id.Obj == nil || id.Name == "_" || isPkgVar(id) {
							return
						}
						if _, have := alias[id.Obj]; have {
							return
						}
						src := r
						if c := isAppend(r); c != nil {
							src = c.Args[0]
						}
						if t, _ := stored(src); t != "" {
							alias[id.Obj] = t
							changed = true
						}
					}
					ast.Inspect(fd.Body, func(n ast.Node) bool {
						switch x := n.(type) {
						case *ast.AssignStmt:
							if len(x.Lhs) == len(x.Rhs) {
								for i := range x.Lhs {
									bind(x.Lhs[i], x.Rhs[i])
								}
							}
						case *ast.ValueSpec:
							if len(x.Names) == len(x.Values) {
								for i := range x.Names {
									bind(x.Names[i], x.Values[i])
								}
							}
						}
						return true
					})
					if !changed {
						break
					}
				}
				// destinations of append calls
				dest := map[*ast.CallExpr]string{}
				back := map[*ast.CallExpr]bool{}
				ast.Inspect(fd.Body, func(n ast.Node) bool {
					switch x := n.(type) {
					case *ast.AssignStmt:
						if len(x.Lhs) == len(x.Rhs) {
							for i := range x.Rhs {
								if c := isAppend(x.Rhs[i]); c != nil {
									lt := sliceExprText(x.Lhs[i])
									dest[c] = "assigned to " + lt
									if lt == sliceExprText(c.Args[0]) {
										// x.f = append(x.f, …): a field / package variable grows in place; p = append(p, …) on an
										// aliasing local is NOT back-assignment to the stored slice
										if _, isLocal := x.Lhs[i].(*ast.Ident); !isLocal || isPkgVar(x.Lhs[i].(*ast.Ident)) {
											back[c] = true
										}
									}
								}
							}
						}
					case *ast.ValueSpec:
						for i := range x.Values {
							if c := isAppend(x.Values[i]); c != nil && i < len(x.Names) {
								dest[c] = "assigned to " + x.Names[i].Name
							}
						}
					case *ast.ReturnStmt:
						for _, r := range x.Results {
							if c := isAppend(r); c != nil {
								dest[c] = "returned"
							}
						}
					case *ast.CallExpr:
						for _, a := range x.Args {
							if c := isAppend(a); c != nil {
								if _, ok := dest[c]; !ok {
									dest[c] = "argument of " + sliceExprText(x.Fun)
								}
							}
						}
					case *ast.KeyValueExpr:
						if c := isAppend(x.Value); c != nil {
							dest[c] = "field " + sliceExprText(x.Key) + " of a composite literal"
						}
					}
					return true
				})
				ast.Inspect(fd.Body, func(n ast.Node) bool {
					c, ok := n.(ast.Expr)
					if !ok {
						return true
					}
					call := isAppend(c)
					if call == nil {
						return true
					}
					d := dest[call]
					if d == "" {
						d = "used in an expression"
					}
					if t, via := stored(call.Args[0]); t != "" {
						how := "ontoShared"
						if back[call] {
							how = "assignedBack"
						}
						rows = append(rows, appendRow{Pkg: p.name, Func: fname, Operand: t, Via: via, How: how, Dest: d, Pos: p.pos(fi, call.Pos())})
						return true
					}
					// first argument fresh: stored slices that are only spread into it
					if call.Ellipsis != token.NoPos && len(call.Args) == 2 {
						if t, via := stored(call.Args[1]); t != "" {
							rows = append(rows, appendRow{Pkg: p.name, Func: fname, Operand: t, Via: via, How: "copyOut", Dest: d, Pos: p.pos(fi, call.Pos())})
						}
					}
					return true
				})
			}
		}
	}
	return rows
}
