package main

// extractReturns (C07 / C08): regenerates from boltz/store_crud.go, boltz/store.go, boltz/db.go and
// boltz/tx_context.go
//
//   - the return paths of Create / Update / DeleteById / DeleteWhere and of the helpers they use
//     (processDeleteConstraints, fireParentEvent, fireEvents, processPreCommit): for every tested
//     error, what the code returns there (`return err` -> propagate, `return nil` -> returnNil, error
//     not tested / dropped -> ignore), the expression of the final return, and whether fireEvents
//     queues the post-commit work after the veto check;
//   - the places from which post-commit work is started (only through tx.OnCommit) and the shape of
//     the three listener adapters (for every change kind: `go f(x)` when the registered type is
//     asynchronous, `f(x)` otherwise).
//
//   - how the error holder travels (C07): newIndexingContext chains the parent store's context with the
//     same holder; IndexingContext.ProcessBeforeUpdate / ProcessAfterUpdate / ProcessBeforeDelete run the
//     parent's context first and their own constraints only `if !ctx.ErrHolder.HasError()`;
//     PersistContext.GetParentContext lets the parent bucket record into the child bucket's holder;
//     ProceedWithSet refuses to write while the holder has an error; the order of the stages in Create /
//     Update / processDeleteConstraints (boltz/indexes.go, base.go, typed_bucket.go, store_crud.go).
//
// Output: Generated/CrudReturns.lean (the model's table and the delivery facts, about which the C07 /
// C08 theorems are stated) and facts/returns.json (the same, readable).

import (
	"bytes"
	"encoding/json"
	"fmt"
	"go/ast"
	"go/parser"
	"go/printer"
	"go/token"
	"path/filepath"
	"sort"
	"strings"
)

type retFacts struct {
	Sites      map[string]string `json:"sites"`
	Flags      map[string]bool   `json:"flags"`
	Holder     map[string]bool   `json:"holder"`
	Adapters   []string          `json:"adapters"`
	Recognised bool              `json:"recognised"`
	Notes      []string          `json:"notes,omitempty"`
}

type retCtx struct {
	fset  *token.FileSet
	facts *retFacts
}

func (c *retCtx) text(n ast.Node) string {
	if n == nil {
		return ""
	}
	var b bytes.Buffer
	_ = printer.Fprint(&b, c.fset, n)
	return strings.Join(strings.Fields(b.String()), " ")
}

func (c *retCtx) note(format string, a ...interface{}) {
	c.facts.Notes = append(c.facts.Notes, fmt.Sprintf(format, a...))
	c.facts.Recognised = false
}

func recvName(fd *ast.FuncDecl) string {
	if fd.Recv == nil || len(fd.Recv.List) == 0 {
		return ""
	}
	t := fd.Recv.List[0].Type
	if s, ok := t.(*ast.StarExpr); ok {
		t = s.X
	}
	switch v := t.(type) {
	case *ast.Ident:
		return v.Name
	case *ast.IndexExpr:
		if id, ok := v.X.(*ast.Ident); ok {
			return id.Name
		}
	case *ast.IndexListExpr:
		if id, ok := v.X.(*ast.Ident); ok {
			return id.Name
		}
	}
	return ""
}

func findFunc(files []*ast.File, recv, name string) *ast.FuncDecl {
	for _, f := range files {
		for _, d := range f.Decls {
			if fd, ok := d.(*ast.FuncDecl); ok && fd.Name.Name == name && recvName(fd) == recv && fd.Body != nil {
				return fd
			}
		}
	}
	return nil
}

// flatten the statement lists of a function: every statement with the list it lives in and its index
type stmtPos struct {
	list []ast.Stmt
	idx  int
}

func allStmts(body *ast.BlockStmt) []stmtPos {
	var res []stmtPos
	var walk func(list []ast.Stmt)
	walk = func(list []ast.Stmt) {
		for i, s := range list {
			res = append(res, stmtPos{list, i})
			switch v := s.(type) {
			case *ast.BlockStmt:
				walk(v.List)
			case *ast.IfStmt:
				walk(v.Body.List)
				for e := v.Else; e != nil; {
					switch ev := e.(type) {
					case *ast.BlockStmt:
						walk(ev.List)
						e = nil
					case *ast.IfStmt:
						walk(ev.Body.List)
						e = ev.Else
					default:
						e = nil
					}
				}
			case *ast.ForStmt:
				walk(v.Body.List)
			case *ast.RangeStmt:
				walk(v.Body.List)
			}
		}
	}
	walk(body.List)
	return res
}

// classify the body of an `if <error test> { ... }`: what is returned
func (c *retCtx) classifyBody(body *ast.BlockStmt, errName string) string {
	if len(body.List) == 0 {
		return "ignore"
	}
	ret, ok := body.List[0].(*ast.ReturnStmt)
	if !ok || len(ret.Results) == 0 {
		return "unknown"
	}
	last := c.text(ret.Results[len(ret.Results)-1])
	switch {
	case last == "nil":
		return "returnNil"
	case errName != "" && last == errName:
		return "propagate"
	case errName == "" && last != "":
		return "propagate"
	}
	return "unknown"
}

// errVarOf: the identifier tested by `X != nil`
func (c *retCtx) errVarOf(cond ast.Expr) string {
	be, ok := cond.(*ast.BinaryExpr)
	if !ok || be.Op != token.NEQ || c.text(be.Y) != "nil" {
		return ""
	}
	return c.text(be.X)
}

// siteByCall: how the function treats the error of the (first) call whose text contains `pattern`
func (c *retCtx) siteByCall(fd *ast.FuncDecl, pattern string) string {
	for _, sp := range allStmts(fd.Body) {
		s := sp.list[sp.idx]
		switch v := s.(type) {
		case *ast.IfStmt:
			if v.Init != nil && strings.Contains(c.text(v.Init), pattern) {
				if ev := c.errVarOf(v.Cond); ev != "" && strings.Contains(c.text(v.Init), ev) {
					return c.classifyBody(v.Body, ev)
				}
				return "unknown"
			}
		case *ast.AssignStmt:
			if !strings.Contains(c.text(v), pattern) {
				continue
			}
			// the error is the last assigned variable; it must be tested by the next statement
			lhs := c.text(v.Lhs[len(v.Lhs)-1])
			if lhs == "_" {
				return "ignore"
			}
			if sp.idx+1 < len(sp.list) {
				if next, ok := sp.list[sp.idx+1].(*ast.IfStmt); ok && next.Init == nil && c.errVarOf(next.Cond) == lhs {
					return c.classifyBody(next.Body, lhs)
				}
			}
			return "ignore"
		case *ast.ExprStmt:
			if strings.Contains(c.text(v), pattern) {
				return "ignore"
			}
		case *ast.ReturnStmt:
			if strings.Contains(c.text(v), pattern) {
				return "propagate"
			}
		}
	}
	return "absent"
}

// siteByCond: an `if <cond containing pattern> { return <non-nil expression> }` validation
func (c *retCtx) siteByCond(fd *ast.FuncDecl, pattern string) string {
	for _, sp := range allStmts(fd.Body) {
		if v, ok := sp.list[sp.idx].(*ast.IfStmt); ok && v.Init == nil && strings.Contains(c.text(v.Cond), pattern) {
			return c.classifyBody(v.Body, "")
		}
	}
	return "ignore"
}

func (c *retCtx) finalReturn(fd *ast.FuncDecl) string {
	if n := len(fd.Body.List); n > 0 {
		if ret, ok := fd.Body.List[n-1].(*ast.ReturnStmt); ok && len(ret.Results) > 0 {
			return c.text(ret.Results[len(ret.Results)-1])
		}
	}
	return "?"
}

func combine(a ...string) string {
	for _, x := range a[1:] {
		if x != a[0] {
			return "unknown"
		}
	}
	return a[0]
}

// containsOutside: does `needle` occur in the function outside of nodes accepted by `inside`?
func (c *retCtx) occurrences(root ast.Node, needle string, inside func(stack []ast.Node) bool) (in, out int) {
	var stack []ast.Node
	ast.Inspect(root, func(n ast.Node) bool {
		if n == nil {
			stack = stack[:len(stack)-1]
			return true
		}
		stack = append(stack, n)
		switch n.(type) {
		case *ast.CallExpr, *ast.SelectorExpr, *ast.Ident:
		default:
			return true
		}
		if c.text(n) == needle || (func() bool { ce, ok := n.(*ast.CallExpr); return ok && c.text(ce.Fun) == needle })() {
			if inside(stack) {
				in++
			} else {
				out++
			}
			return false
		}
		return true
	})
	return
}

func (c *retCtx) insideOnCommit(stack []ast.Node) bool {
	for _, n := range stack {
		if ce, ok := n.(*ast.CallExpr); ok && strings.HasSuffix(c.text(ce.Fun), ".OnCommit") {
			return true
		}
	}
	return false
}

// shape of an adapter's ProcessPostCommit: for every `if/else if` branch on the change kind, whether
// the listener is started with `go` under IsAsync() and called directly otherwise
func (c *retCtx) adapterShape(fd *ast.FuncDecl) string {
	var parts []string
	var visitIf func(s *ast.IfStmt)
	visitIf = func(s *ast.IfStmt) {
		cond := c.text(s.Cond)
		kind := "?"
		switch {
		case strings.Contains(cond, "EntityCreated") && strings.Contains(cond, "IsCreate()"):
			kind = "created"
		case strings.Contains(cond, "EntityUpdated") && strings.Contains(cond, "IsUpdate()"):
			kind = "updated"
		case strings.Contains(cond, "EntityDeleted") && strings.Contains(cond, "IsDelete()"):
			kind = "deleted"
		}
		body := "?"
		if len(s.Body.List) == 1 {
			if inner, ok := s.Body.List[0].(*ast.IfStmt); ok && c.text(inner.Cond) == "changeType.IsAsync()" && len(inner.Body.List) == 1 {
				thenS, elseS := "?", "?"
				if g, ok := inner.Body.List[0].(*ast.GoStmt); ok {
					thenS = "go " + argOf(c, g.Call)
				}
				if eb, ok := inner.Else.(*ast.BlockStmt); ok && len(eb.List) == 1 {
					if es, ok := eb.List[0].(*ast.ExprStmt); ok {
						if call, ok := es.X.(*ast.CallExpr); ok {
							elseS = "call " + argOf(c, call)
						}
					}
				}
				body = thenS + " | " + elseS
			}
		}
		parts = append(parts, kind+": "+body)
		if next, ok := s.Else.(*ast.IfStmt); ok {
			visitIf(next)
		} else if s.Else != nil {
			parts = append(parts, "else: ?")
		}
	}
	if len(fd.Body.List) == 1 {
		if rs, ok := fd.Body.List[0].(*ast.RangeStmt); ok && c.text(rs.X) == "self.changeTypes" && len(rs.Body.List) == 1 {
			if is, ok := rs.Body.List[0].(*ast.IfStmt); ok {
				visitIf(is)
				return strings.Join(parts, "; ")
			}
		}
	}
	return "unrecognised"
}

func argOf(c *retCtx, call *ast.CallExpr) string {
	if len(call.Args) != 1 {
		return "?"
	}
	return c.text(call.Args[0])
}

func extractReturns(repo, gen, facts string) {
	fset := token.NewFileSet()
	parse := func(name string) *ast.File {
		f, err := parser.ParseFile(fset, filepath.Join(repo, "boltz", name), nil, 0)
		if err != nil {
			panic(err)
		}
		return f
	}
	crud, store, db, txc := parse("store_crud.go"), parse("store.go"), parse("db.go"), parse("tx_context.go")
	files := []*ast.File{crud, store, db, txc}
	holderFiles := []*ast.File{crud, parse("base.go"), parse("indexes.go"), parse("typed_bucket.go"), parse("link_collection.go")}
	rf := &retFacts{Sites: map[string]string{}, Flags: map[string]bool{}, Holder: map[string]bool{}, Recognised: true}
	c := &retCtx{fset: fset, facts: rf}
	need := func(recv, name string) *ast.FuncDecl {
		fd := findFunc(files, recv, name)
		if fd == nil {
			c.note("function %s.%s not found", recv, name)
			return &ast.FuncDecl{Name: ast.NewIdent(name), Body: &ast.BlockStmt{}}
		}
		return fd
	}
	create, update := need("BaseStore", "Create"), need("BaseStore", "Update")
	del, delWhere := need("BaseStore", "DeleteById"), need("BaseStore", "DeleteWhere")
	pdc, fpe := need("BaseStore", "processDeleteConstraints"), need("BaseStore", "fireParentEvent")
	fire, ppc := need("EntityChangeState", "fireEvents"), need("EntityChangeState", "processPreCommit")

	s := rf.Sites
	s["createValidate"] = combine(c.siteByCond(create, `GetId() == ""`), c.siteByCond(create, "IsEntityPresent("))
	s["createPersist"] = c.siteByCond(create, "bucket.HasError()")
	s["createLoad"] = c.siteByCall(create, "changeFlow.loadFinalState()")
	s["createParentEvent"] = c.siteByCall(create, "store.fireParentEvent(changeFlow)")
	s["createOwnEvent"] = c.siteByCall(create, "changeFlow.fireEvents()")
	s["createFinal"] = c.finalReturn(create)
	s["updateDelegate"] = func() string {
		for _, sp := range allStmts(update.Body) {
			if v, ok := sp.list[sp.idx].(*ast.IfStmt); ok && v.Init != nil && strings.Contains(c.text(v.Init), "HandleUpdate(") {
				if c.text(v.Cond) != "handled" || !strings.HasPrefix(c.text(v.Init), "handled, err :=") {
					return "unknown"
				}
				return c.classifyBody(v.Body, "err")
			}
		}
		return "absent"
	}()
	s["updateValidate"] = c.siteByCond(update, `GetId() == ""`)
	s["updateFind"] = c.siteByCall(update, "store.FindById(")
	s["updateNotFound"] = combine(c.siteByCond(update, "!found"), c.siteByCond(update, "bucket == nil"))
	s["updateLoad"] = c.siteByCall(update, "changeFlow.loadFinalState()")
	s["updateParentEvent"] = c.siteByCall(update, "store.fireParentEvent(changeFlow)")
	s["updateOwnEvent"] = c.siteByCall(update, "changeFlow.fireEvents()")
	s["updateFinal"] = c.finalReturn(update)
	s["deleteDelegate"] = func() string {
		for _, sp := range allStmts(del.Body) {
			if v, ok := sp.list[sp.idx].(*ast.IfStmt); ok && c.text(v.Cond) == "store.parent != nil" && len(v.Body.List) > 0 {
				if ret, ok := v.Body.List[len(v.Body.List)-1].(*ast.ReturnStmt); ok && len(ret.Results) == 1 {
					if c.text(ret.Results[0]) == "store.parent.DeleteById(ctx, id)" {
						return "propagate"
					}
					if c.text(ret.Results[0]) == "nil" {
						return "returnNil"
					}
				}
				return "unknown"
			}
		}
		return "absent"
	}()
	s["deleteFind"] = c.siteByCall(del, "store.FindById(")
	s["deleteNotFound"] = c.siteByCond(del, "!found")
	s["deleteHandleDelete"] = c.siteByCall(del, "handler.HandleDelete(")
	s["deleteChildConstraints"] = c.siteByCall(del, "handler.GetStore().processDeleteConstraints(")
	s["deleteOwnConstraints"] = c.siteByCall(del, "store.impl.processDeleteConstraints(")
	s["deleteBucketErr"] = c.siteByCond(del, "bucket.Err != nil")
	s["deleteFireEvents"] = c.siteByCall(del, "changeFlow.fireEvents()")
	s["deleteFinal"] = c.finalReturn(del)
	s["deleteWhereQuery"] = c.siteByCall(delWhere, "store.QueryIds(")
	s["deleteWhereDelete"] = c.siteByCall(delWhere, "DeleteById(ctx, id)")
	s["deleteWhereFinal"] = c.finalReturn(delWhere)
	s["pdcInit"] = c.siteByCall(pdc, "changeFlow.init(ctx)")
	s["pdcFinal"] = c.finalReturn(pdc)
	s["fireEventsVeto"] = c.siteByCall(fire, "self.processPreCommit()")
	s["preCommitLoop"] = c.siteByCall(ppc, "constraint.ProcessPreCommit(self)")
	s["parentEventReturn"] = c.siteByCall(fpe, ".fireEvents()")

	// fireEvents: tx.OnCommit(self.processPostCommit) must come after the veto check
	vetoIdx, queueIdx := -1, -1
	for i, st := range fire.Body.List {
		t := c.text(st)
		if strings.Contains(t, "self.processPreCommit()") && vetoIdx < 0 {
			vetoIdx = i
		}
		if strings.Contains(t, "OnCommit(self.processPostCommit)") && queueIdx < 0 {
			queueIdx = i
		}
	}
	if queueIdx < 0 {
		c.note("fireEvents does not register processPostCommit with OnCommit")
	}
	rf.Flags["queueAfterVeto"] = vetoIdx >= 0 && queueIdx > vetoIdx

	// post-commit work is started through tx.OnCommit only
	dbUpdate, dbBatch := need("DbImpl", "Update"), need("DbImpl", "Batch")
	in, out := c.occurrences(dbUpdate, "listener", c.insideOnCommit)
	rf.Flags["txCompleteOnlyOnCommit"] = in >= 1 && out == 0
	bin, bout := c.occurrences(dbBatch, "listener", c.insideOnCommit)
	rf.Flags["batchTxCompleteOnlyOnCommit"] = bin >= 1 && bout == 0
	rf.Flags["updateRunsPreCommit"] = c.siteByCall(dbUpdate, "ctx.runPreCommitActions()") == "propagate"
	rf.Flags["batchRunsPreCommit"] = c.siteByCall(dbBatch, "ctx.runPreCommitActions()") == "propagate"
	rf.Flags["updateReturnsBodyError"] = c.siteByCall(dbUpdate, "err := fn(ctx)") == "propagate"
	rf.Flags["batchReturnsBodyError"] = c.siteByCall(dbBatch, "err := fn(ctx)") == "propagate"
	nested := func(fd *ast.FuncDecl) bool {
		return c.finalReturn(fd) == "fn(ctx)" && strings.Contains(c.text(fd.Body), "if ctx.Tx() == nil {")
	}
	rf.Flags["nestedCallRunsBody"] = nested(dbUpdate) && nested(dbBatch)
	hcIn, hcOut := 0, 0
	for _, f := range []*ast.File{txc, db, store, crud} {
		a, b := c.occurrences(f, "self.handleCommit", c.insideOnCommit)
		hcIn, hcOut = hcIn+a, hcOut+b
	}
	rf.Flags["handleCommitOnlyOnCommit"] = hcIn == 1 && hcOut == 0
	hc := need("mutateContext", "handleCommit")
	rf.Flags["commitActionsInOneGoroutine"] = func() bool {
		if len(hc.Body.List) != 1 {
			return false
		}
		g, ok := hc.Body.List[0].(*ast.GoStmt)
		return ok && strings.Contains(c.text(g), "for _, hook := range self.commitActions { hook() }")
	}()
	ppIn, ppOut := 0, 0
	for _, f := range []*ast.File{store, crud, db, txc} {
		a, b := c.occurrences(f, "self.processPostCommit", c.insideOnCommit)
		ppIn, ppOut = ppIn+a, ppOut+b
	}
	rf.Flags["postCommitOnlyOnCommit"] = ppIn == 1 && ppOut == 0
	pcIn := 0
	for _, f := range files {
		for _, d := range f.Decls {
			if fd, ok := d.(*ast.FuncDecl); ok && fd.Body != nil && strings.Contains(c.text(fd.Body), ".ProcessPostCommit(") {
				key := recvName(fd) + "." + fd.Name.Name
				if key != "EntityChangeState.processPostCommit" && key != "untypedEntityConstraintWrapper.ProcessPostCommit" {
					pcIn++
				}
			}
		}
	}
	rf.Flags["constraintPostCommitOnlyFromProcessPostCommit"] = pcIn == 0

	// every listener registration gives its adapter a change-type list of its own (first type, then a copy of the
	// additional ones): the caller's variadic slice is never shared
	copies := true
	for _, name := range []string{"AddEntityEventListener", "AddEntityEventListenerF", "AddListener", "AddEntityIdListener"} {
		fd := need("BaseStore", name)
		copies = copies && strings.Contains(c.text(fd.Body), "append([]EntityEventType{changeType}, changeTypes...)")
	}
	rf.Flags["registrationCopiesChangeTypes"] = copies
	for _, name := range []string{"entityListenerAdapter", "entityFunctionListenerAdapter", "untypedEventListenerWrapper"} {
		fd := need(name, "ProcessPostCommit")
		rf.Adapters = append(rf.Adapters, name+" = "+c.adapterShape(fd))
		pre := need(name, "ProcessPreCommit")
		rf.Flags[name+"PreCommitNil"] = len(pre.Body.List) == 1 && c.text(pre.Body.List[0]) == "return nil"
	}

	// ---- how the error holder travels
	needH := func(recv, name string) *ast.FuncDecl {
		fd := findFunc(holderFiles, recv, name)
		if fd == nil {
			c.note("function %s.%s not found", recv, name)
			return &ast.FuncDecl{Name: ast.NewIdent(name), Body: &ast.BlockStmt{}}
		}
		return fd
	}
	topIndex := func(fd *ast.FuncDecl, pattern string) int {
		for i, st := range fd.Body.List {
			if strings.Contains(c.text(st), pattern) {
				return i
			}
		}
		return -1
	}
	ordered := func(fd *ast.FuncDecl, patterns ...string) bool {
		last := -1
		for _, p := range patterns {
			i := topIndex(fd, p)
			if i < 0 || i <= last {
				return false
			}
			last = i
		}
		return true
	}
	h := rf.Holder
	nic := needH("BaseStore", "newIndexingContext")
	nicText := c.text(nic.Body)
	h["newIndexingContextChainsParentWithSameHolder"] = strings.Contains(nicText, "if store.parent != nil { parentContext = store.parent.newIndexingContext(isCreate, ctx, id, holder) }") &&
		strings.Contains(nicText, "Parent: parentContext,") && strings.Contains(nicText, "ErrHolder: holder,")
	for _, stage := range []string{"ProcessBeforeUpdate", "ProcessAfterUpdate", "ProcessBeforeDelete"} {
		fd := needH("IndexingContext", stage)
		want := "{ if ctx.Parent != nil { ctx.Parent." + stage + "() } if !ctx.ErrHolder.HasError() { for _, index := range ctx.constraints { index." + stage + "(ctx) } } }"
		h["indexingContext"+stage+"ParentFirstThenOwnUnlessError"] = c.text(fd.Body) == want
	}
	h["typedBucketProceedWithSetChecksHolder"] = strings.HasPrefix(c.text(needH("TypedBucket", "ProceedWithSet").Body), "{ return bucket.Err == nil && ")
	h["persistContextProceedWithSetAsksBucket"] = c.text(needH("PersistContext", "ProceedWithSet").Body) == "{ return ctx.Bucket.ProceedWithSet(field, ctx.FieldChecker) }"
	settersGuarded := true
	for _, name := range []string{"SetString", "SetStringP", "SetStringList"} {
		fd := needH("TypedBucket", name)
		ok := false
		if len(fd.Body.List) == 2 {
			if is, isIf := fd.Body.List[0].(*ast.IfStmt); isIf && is.Init == nil && is.Else == nil &&
				strings.HasPrefix(c.text(is.Cond), "bucket.ProceedWithSet(name, ") && c.text(fd.Body.List[1]) == "return bucket" {
				ok = true
			}
		}
		settersGuarded = settersGuarded && ok
	}
	h["typedBucketSettersWriteOnlyIfProceedWithSet"] = settersGuarded
	// errors raised inside the typed-bucket setters while a map value is persisted travel up to the entity bucket
	putList, putMap, setM := needH("TypedBucket", "PutList"), needH("TypedBucket", "PutMap"), needH("TypedBucket", "setMarshaled")
	putListText := c.text(putList.Body)
	h["putListSizeMarkerKeepsElementError"] = strings.Contains(putListText, "listBucket.setMarshaled(string(key), val, true) }") &&
		strings.Contains(putListText, "} listBucket.SetInt32(ListSizeKeyName, int32(len(value)), nil) bucket.Err = listBucket.Err }")
	h["putMapHandsUpNestedError"] = strings.Contains(c.text(putMap.Body), "for key, val := range value { tagsBucket.setMarshaled(key, val, allowNested) } bucket.Err = tagsBucket.Err }")
	setMText := c.text(setM.Body)
	h["setMarshaledRejectsUnknownTypesAndStopsOnError"] = strings.HasPrefix(setMText, "{ if bucket.Err != nil { return bucket }") &&
		strings.Contains(setMText, "default: bucket.SetError(errors.Errorf(\"unsupported type %v in map\", reflect.TypeOf(val))) }") &&
		strings.Contains(setMText, "case []interface{}: if allowNested { bucket.PutList(name, val, nil) }") &&
		strings.Contains(setMText, "case map[string]interface{}: if allowNested { bucket.PutMap(name, val, nil, true) }")
	h["persistContextSetMapAllowsNesting"] = c.text(needH("PersistContext", "SetMap").Body) == "{ ctx.Bucket.PutMap(field, value, ctx.FieldChecker, true) }"
	// link operations hand the error of the reverse side on; SetLinkedIds records what SetLinks returns
	h["linkReturnsErrorOfReverseSide"] = strings.HasSuffix(c.text(needH("linkCollectionImpl", "link").Body),
		"return collection.otherField.AddLink(tx, associatedId, id) }")
	h["setLinkedIdsRecordsSetLinksError"] = strings.Contains(c.text(needH("PersistContext", "SetLinkedIds").Body),
		"ctx.Bucket.SetError(collection.SetLinks(ctx.Bucket.Tx(), ctx.Id, value))")
	h["updateBeforeUpdateThenPersistThenAfterUpdate"] = ordered(update,
		"indexingContext := store.newIndexingContext(false, ctx, entity.GetId(), bucket)",
		"indexingContext.ProcessBeforeUpdate()",
		"store.entityStrategy.PersistEntity(entity, persistCtx)",
		"indexingContext.ProcessAfterUpdate()") && strings.Contains(c.text(update.Body), "Bucket: bucket,")
	h["createPersistThenHolderCheckThenAfterUpdate"] = ordered(create,
		"indexingContext := store.newIndexingContext(true, ctx, entity.GetId(), bucket)",
		"store.entityStrategy.PersistEntity(entity, persistCtx)",
		"if bucket.HasError() {",
		"indexingContext.ProcessAfterUpdate()") && strings.Contains(c.text(create.Body), "Bucket: bucket,")
	h["deleteConstraintsBeforeDeleteOnFreshHolder"] = ordered(pdc,
		"errHolder := &errorz.ErrorHolderImpl{}",
		"indexingContext := store.newIndexingContext(false, ctx, id, errHolder)",
		"indexingContext.ProcessBeforeDelete()",
		"return changeFlow, errHolder.")
	persistShares := "unknown"
	for _, sp := range allStmts(needH("PersistContext", "GetParentContext").Body) {
		if as, ok := sp.list[sp.idx].(*ast.AssignStmt); ok && strings.Contains(c.text(as), "ErrorHolderImpl") {
			switch c.text(as) {
			case "result.Bucket.ErrorHolderImpl = ctx.Bucket.ErrorHolderImpl":
				persistShares = "true"
			case "ctx.Bucket.ErrorHolderImpl = result.Bucket.ErrorHolderImpl":
				persistShares = "false"
			default:
				persistShares = "unknown"
			}
			break
		}
	}
	if persistShares == "unknown" {
		c.note("PersistContext.GetParentContext: no reading for how the error holder is shared")
		persistShares = "false"
	}
	s["persistSharesHolder"] = persistShares
	for k, v := range h {
		if !v {
			c.note("holder plumbing: %s does not have the modelled shape", k)
		}
	}

	// ---- Lean
	ret := func(key string) string {
		switch s[key] {
		case "propagate":
			return ".propagate"
		case "returnNil":
			return ".returnNil"
		case "ignore", "absent":
			return ".ignore"
		}
		c.note("site %s: unrecognised shape (%s)", key, s[key])
		return ".ignore"
	}
	holder := func(key string, holders ...string) string {
		for _, h := range holders {
			if s[key] == h {
				return "true"
			}
		}
		if s[key] != "nil" {
			c.note("final return %s: unrecognised expression %q", key, s[key])
		}
		return "false"
	}
	// sites the model has no parameter for must have their only modelled shape
	for key, want := range map[string]string{"deleteHandleDelete": "propagate", "deleteBucketErr": "propagate", "deleteFinal": "nil", "deleteWhereFinal": "nil"} {
		if s[key] != want {
			c.note("site %s is %q, the model only knows %q", key, s[key], want)
		}
	}
	var b strings.Builder
	b.WriteString("import StorageModel.Tx.Types\n")
	b.WriteString("/- GENERATED by /verif/extract/returns.go from boltz/store_crud.go, store.go, db.go, tx_context.go — do not edit. -/\n")
	b.WriteString("namespace StorageModel.Generated\nopen StorageModel.Tx\n\n")
	fields := []string{"createValidate", "createPersist", "createLoad", "createParentEvent", "createOwnEvent"}
	lines := []string{}
	for _, f := range fields {
		lines = append(lines, fmt.Sprintf("    %s := %s", f, ret(f)))
	}
	lines = append(lines, "    createFinalHolder := "+holder("createFinal", "bucket.Err", "bucket.GetError()"))
	for _, f := range []string{"updateDelegate", "updateValidate", "updateFind", "updateNotFound", "updateLoad", "updateParentEvent", "updateOwnEvent"} {
		lines = append(lines, fmt.Sprintf("    %s := %s", f, ret(f)))
	}
	lines = append(lines, "    updateFinalHolder := "+holder("updateFinal", "bucket.Err", "bucket.GetError()"))
	for _, f := range []string{"deleteDelegate", "deleteFind", "deleteNotFound", "deleteChildConstraints", "deleteOwnConstraints", "deleteFireEvents", "deleteWhereQuery", "deleteWhereDelete", "pdcInit"} {
		lines = append(lines, fmt.Sprintf("    %s := %s", f, ret(f)))
	}
	lines = append(lines, "    pdcFinalHolder := "+holder("pdcFinal", "errHolder.Err", "errHolder.GetError()"))
	lines = append(lines, "    fireEventsVeto := "+ret("fireEventsVeto"))
	lines = append(lines, fmt.Sprintf("    queueAfterVeto := %v", rf.Flags["queueAfterVeto"]))
	lines = append(lines, "    preCommitLoop := "+ret("preCommitLoop"))
	lines = append(lines, "    parentEventReturn := "+ret("parentEventReturn"))
	lines = append(lines, "    persistSharesHolder := "+s["persistSharesHolder"])
	fmt.Fprintf(&b, "def crudReturns : CrudReturns :=\n  { recognised := %v\n%s }\n\n", rf.Recognised, strings.Join(lines, "\n"))

	flagNames := make([]string, 0, len(rf.Flags))
	for k := range rf.Flags {
		flagNames = append(flagNames, k)
	}
	sort.Strings(flagNames)
	b.WriteString("/-- where post-commit work is started, and the shape of the listener adapters -/\n")
	b.WriteString("def deliveryFlags : List (String × Bool) :=\n  [")
	for i, k := range flagNames {
		if i > 0 {
			b.WriteString(",\n   ")
		}
		fmt.Fprintf(&b, "(%q, %v)", k, rf.Flags[k])
	}
	holderNames := make([]string, 0, len(rf.Holder))
	for k := range rf.Holder {
		holderNames = append(holderNames, k)
	}
	sort.Strings(holderNames)
	b.WriteString("]\n\n/-- how the error holder travels: chained indexing contexts, stage order, ProceedWithSet -/\n")
	b.WriteString("def holderFlags : List (String × Bool) :=\n  [")
	for i, k := range holderNames {
		if i > 0 {
			b.WriteString(",\n   ")
		}
		fmt.Fprintf(&b, "(%q, %v)", k, rf.Holder[k])
	}
	b.WriteString("]\n\ndef adapterShapes : List String :=\n  [")
	for i, a := range rf.Adapters {
		if i > 0 {
			b.WriteString(",\n   ")
		}
		fmt.Fprintf(&b, "%q", a)
	}
	b.WriteString("]\n\nend StorageModel.Generated\n")
	writeIfChanged(filepath.Join(gen, "CrudReturns.lean"), b.String())
	js, _ := json.MarshalIndent(rf, "", " ")
	writeIfChanged(filepath.Join(facts, "returns.json"), string(js)+"\n")
}
