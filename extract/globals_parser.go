package main

import (
	"go/ast"
	"go/token"
)

// LISTENER DISCIPLINE (round 5, C18; fix 956c2a8).  From `func parse` of zitiql/util.go: for the pooled parser
// (the local assigned from parserPool.Get()) and the pooled lexer (lexerPool.Get()), what the function does with the
// recogniser's error listeners — the shape C18/ParserPool.lean is parameterised by:
//
//	removeBeforeAlways   a statement `X.RemoveErrorListeners()` at the top level of the function body (not inside an if),
//	                     before every X.AddErrorListener(…) and before the parse starts
//	removeBeforePlain    X.RemoveErrorListeners() inside a branch of an `if` (the pre-fix shape: only when !debug)
//	removeAfterDeferred  a top-level `defer X.RemoveErrorListeners()` registered AFTER `defer <pool>.Put(X)`: deferred
//	                     calls run last-in-first-out, so the listeners are gone before the recogniser is back in the pool
//	addsCollector        a top-level `X.AddErrorListener(el)` with el a parameter of the function
type listenerDiscipline struct {
	Recogniser          string `json:"recogniser"`
	Var                 string `json:"var"`
	RemoveBeforeAlways  bool   `json:"removeBeforeAlways"`
	RemoveBeforePlain   bool   `json:"removeBeforePlain"`
	RemoveAfterDeferred bool   `json:"removeAfterDeferred"`
	AddsCollector       bool   `json:"addsCollector"`
}

func extractListenerDiscipline(pkgOrder []*gPkg) []listenerDiscipline {
	res := []listenerDiscipline{{Recogniser: "parser"}, {Recogniser: "lexer"}}
	pools := map[string]int{"parserPool": 0, "lexerPool": 1}
	for _, p := range pkgOrder {
		if p.name != "zitiql" {
			continue
		}
		for _, f := range p.files {
			for _, d := range f.Decls {
				fd, ok := d.(*ast.FuncDecl)
				if !ok || fd.Recv != nil || fd.Name.Name != "parse" || fd.Body == nil {
					continue
				}
				params := map[*ast.Object]bool{}
				for _, fl := range fd.Type.Params.List {
					for _, n := range fl.Names {
						if n.Obj != nil {
							params[n.Obj] = true
						}
					}
				}
				// X := <pool>.Get().(*T)
				vars := map[*ast.Object]int{}
				for _, st := range fd.Body.List {
					as, ok := st.(*ast.AssignStmt)
					if !ok || len(as.Lhs) != 1 || len(as.Rhs) != 1 {
						continue
					}
					id, ok := as.Lhs[0].(*ast.Ident)
					if !ok || id.Obj == nil {
						continue
					}
					var found *int
					ast.Inspect(as.Rhs[0], func(n ast.Node) bool {
						if se, ok := n.(*ast.SelectorExpr); ok && se.Sel.Name == "Get" {
							if pid, ok := se.X.(*ast.Ident); ok {
								if k, ok := pools[pid.Name]; ok {
									found = &k
								}
							}
						}
						return true
					})
					if found != nil {
						vars[id.Obj] = *found
						res[*found].Var = id.Name
					}
				}
				// method call X.M(args) -> (which recogniser, M, args)
				callOn := func(e ast.Expr) (int, string, []ast.Expr, bool) {
					c, ok := e.(*ast.CallExpr)
					if !ok {
						return 0, "", nil, false
					}
					se, ok := c.Fun.(*ast.SelectorExpr)
					if !ok {
						return 0, "", nil, false
					}
					id, ok := se.X.(*ast.Ident)
					if !ok || id.Obj == nil {
						return 0, "", nil, false
					}
					k, ok := vars[id.Obj]
					return k, se.Sel.Name, c.Args, ok
				}
				firstAdd := [2]token.Pos{token.NoPos, token.NoPos}
				firstUse := [2]token.Pos{token.NoPos, token.NoPos} // p.Start_() / NewCommonTokenStream(lexer, …)
				topRemove := [2]token.Pos{token.NoPos, token.NoPos}
				putDefer := [2]token.Pos{token.NoPos, token.NoPos}
				removeDefer := [2]token.Pos{token.NoPos, token.NoPos}
				ast.Inspect(fd.Body, func(n ast.Node) bool {
					if e, ok := n.(ast.Expr); ok {
						if k, m, _, ok := callOn(e); ok {
							switch m {
							case "AddErrorListener":
								if firstAdd[k] == token.NoPos {
									firstAdd[k] = e.Pos()
								}
							case "Start_", "NextToken":
								if firstUse[k] == token.NoPos {
									firstUse[k] = e.Pos()
								}
							}
						}
					}
					return true
				})
				for _, st := range fd.Body.List {
					switch x := st.(type) {
					case *ast.ExprStmt:
						if k, m, args, ok := callOn(x.X); ok {
							switch m {
							case "RemoveErrorListeners":
								if topRemove[k] == token.NoPos {
									topRemove[k] = x.Pos()
								}
							case "AddErrorListener":
								if len(args) == 1 {
									if id, ok := args[0].(*ast.Ident); ok && id.Obj != nil && params[id.Obj] {
										res[k].AddsCollector = true
									}
								}
							}
						}
					case *ast.DeferStmt:
						if k, m, _, ok := callOn(x.Call); ok && m == "RemoveErrorListeners" {
							removeDefer[k] = x.Pos()
						}
						// defer <pool>.Put(X)
						if se, ok := x.Call.Fun.(*ast.SelectorExpr); ok && se.Sel.Name == "Put" && len(x.Call.Args) == 1 {
							if id, ok := x.Call.Args[0].(*ast.Ident); ok && id.Obj != nil {
								if k, ok := vars[id.Obj]; ok {
									putDefer[k] = x.Pos()
								}
							}
						}
					case *ast.IfStmt:
						ast.Inspect(x, func(n ast.Node) bool {
							if e, ok := n.(ast.Expr); ok {
								if k, m, _, ok := callOn(e); ok && m == "RemoveErrorListeners" {
									res[k].RemoveBeforePlain = true
								}
							}
							return true
						})
					}
				}
				for k := 0; k < 2; k++ {
					res[k].RemoveBeforeAlways = topRemove[k] != token.NoPos &&
						(firstAdd[k] == token.NoPos || topRemove[k] < firstAdd[k]) &&
						(firstUse[k] == token.NoPos || topRemove[k] < firstUse[k])
					res[k].RemoveAfterDeferred = removeDefer[k] != token.NoPos && putDefer[k] != token.NoPos && removeDefer[k] > putDefer[k]
				}
			}
		}
	}
	return res
}
