package main

import (
	"bytes"
	"encoding/json"
	"go/ast"
	"go/parser"
	"go/printer"
	"go/token"
	"path/filepath"
)

// extractC09Quirks reads the two places of the integrity checker for which the C09 model has both
// variants (the code as found, and the code after the repairs proposed in /verif/fixes/proposed):
//
//	iterateLinksCreates  linkCollectionImpl.IterateLinks obtains the link bucket through the creating
//	                     getFieldBucket / GetOrCreatePath (true) or through a read-only GetPath (false)
//	emptyUniqueIsNil     the entity loop of uniqueIndex.CheckIntegrity skips an empty value like nil:
//	                     `fieldType == TypeNil || len(fieldVal) == 0` (true) or `fieldType == TypeNil` (false)
//	linkRemoveDeferred   linkCollectionImpl.CheckIntegrity calls RemoveLink for dangling links in a loop AFTER the
//	                     link-cursor loop (true) or inside it, i.e. deletes under its own cursor (false)
//
//	fkRepairAtPath       the dangling-reference repair of fkIndex.CheckIntegrity AND fkConstraint.CheckIntegrity clears the
//	                     value where it is stored: `tryFix := index.nullable && fix && len(path) > 0` and
//	                     `fieldBucket.Put([]byte(path[len(path)-1]), nil)` (true); or attempts it only for direct keys:
//	                     `tryFix := index.nullable && fix && len(index.symbol.GetPath()) == 1` and
//	                     `entityBucket.Put([]byte(index.symbol.GetPath()[0]), nil)` (false)
//
// Anything else is written as recognised = false, which breaks the obligation `quirks_recognised`.
type c09Quirks struct {
	IterateLinksCreates bool   `json:"iterateLinksCreates"`
	EmptyUniqueIsNil    bool   `json:"emptyUniqueIsNil"`
	LinkRemoveDeferred  bool   `json:"linkRemoveDeferred"`
	FkRepairAtPath      bool   `json:"fkRepairAtPath"`
	Recognised          bool   `json:"recognised"`
	Note                string `json:"note,omitempty"`
}

func c09Method(file *ast.File, recv, name string) *ast.FuncDecl {
	for _, d := range file.Decls {
		fd, ok := d.(*ast.FuncDecl)
		if !ok || fd.Recv == nil || fd.Name.Name != name || len(fd.Recv.List) != 1 {
			continue
		}
		t := fd.Recv.List[0].Type
		if st, ok := t.(*ast.StarExpr); ok {
			t = st.X
		}
		if id, ok := t.(*ast.Ident); ok && id.Name == recv {
			return fd
		}
	}
	return nil
}

func c09Render(fset *token.FileSet, n ast.Node) string {
	var b bytes.Buffer
	_ = printer.Fprint(&b, fset, n)
	return b.String()
}

func extractC09Quirks(repo, gen, facts string) {
	q := c09Quirks{Recognised: true}
	fset := token.NewFileSet()
	note := func(s string) {
		q.Recognised = false
		if q.Note != "" {
			q.Note += "; "
		}
		q.Note += s
	}
	if f, err := parser.ParseFile(fset, filepath.Join(repo, "boltz", "link_collection.go"), nil, 0); err != nil {
		note("link_collection.go does not parse")
	} else if fd := c09Method(f, "linkCollectionImpl", "IterateLinks"); fd == nil || fd.Body == nil {
		note("linkCollectionImpl.IterateLinks not found")
	} else {
		creating, readonly := false, false
		ast.Inspect(fd.Body, func(n ast.Node) bool {
			if call, ok := n.(*ast.CallExpr); ok {
				if se, ok := call.Fun.(*ast.SelectorExpr); ok {
					switch se.Sel.Name {
					case "getFieldBucket", "getFieldBucketForStringId", "GetOrCreatePath", "GetOrCreateBucket":
						creating = true
					case "GetPath", "GetBucket":
						readonly = true
					}
				}
			}
			return true
		})
		switch {
		case creating:
			q.IterateLinksCreates = true
		case readonly:
			q.IterateLinksCreates = false
		default:
			note("IterateLinks: neither a creating nor a read-only bucket lookup found")
		}
	}
	if f, err := parser.ParseFile(fset, filepath.Join(repo, "boltz", "link_collection.go"), nil, 0); err == nil {
		if fd := c09Method(f, "linkCollectionImpl", "CheckIntegrity"); fd == nil || fd.Body == nil {
			note("linkCollectionImpl.CheckIntegrity not found")
		} else {
			callsRemove := func(n ast.Node) bool {
				found := false
				ast.Inspect(n, func(m ast.Node) bool {
					if call, ok := m.(*ast.CallExpr); ok {
						if se, ok := call.Fun.(*ast.SelectorExpr); ok && se.Sel.Name == "RemoveLink" {
							found = true
						}
					}
					return true
				})
				return found
			}
			// the entity loop is the last top-level `for` of the body; its first nested `for` is the link-cursor loop
			var outer *ast.ForStmt
			for _, st := range fd.Body.List {
				if fs, ok := st.(*ast.ForStmt); ok {
					outer = fs
				}
			}
			if outer == nil {
				note("linkCollectionImpl.CheckIntegrity: entity loop not found")
			} else {
				var inner ast.Stmt
				after := false
				for _, st := range outer.Body.List {
					switch x := st.(type) {
					case *ast.ForStmt:
						if inner == nil {
							inner = x
							continue
						}
						if callsRemove(x) {
							after = true
						}
					case *ast.RangeStmt:
						if inner != nil && callsRemove(x) {
							after = true
						}
					}
				}
				switch {
				case inner == nil:
					note("linkCollectionImpl.CheckIntegrity: link-cursor loop not found")
				case callsRemove(inner) && !after:
					q.LinkRemoveDeferred = false
				case !callsRemove(inner) && after:
					q.LinkRemoveDeferred = true
				default:
					note("linkCollectionImpl.CheckIntegrity: RemoveLink neither only inside nor only after the link-cursor loop")
				}
			}
		}
	}
	if f, err := parser.ParseFile(fset, filepath.Join(repo, "boltz", "indexes.go"), nil, 0); err != nil {
		note("indexes.go does not parse")
	} else if fd := c09Method(f, "uniqueIndex", "CheckIntegrity"); fd == nil || fd.Body == nil {
		note("uniqueIndex.CheckIntegrity not found")
	} else {
		found := 0
		ast.Inspect(fd.Body, func(n ast.Node) bool {
			if is, ok := n.(*ast.IfStmt); ok {
				switch c09Render(fset, is.Cond) {
				case "fieldType == TypeNil":
					found++
					q.EmptyUniqueIsNil = false
				case "fieldType == TypeNil || len(fieldVal) == 0", "len(fieldVal) == 0 || fieldType == TypeNil":
					found++
					q.EmptyUniqueIsNil = true
				}
			}
			return true
		})
		if found != 1 {
			note("uniqueIndex.CheckIntegrity: nil test of the entity loop not recognised")
		}
	}
	if f, err := parser.ParseFile(fset, filepath.Join(repo, "boltz", "indexes.go"), nil, 0); err == nil {
		newShape, oldShape := 0, 0
		for _, recv := range []string{"fkIndex", "fkConstraint"} {
			fd := c09Method(f, recv, "CheckIntegrity")
			if fd == nil || fd.Body == nil {
				note(recv + ".CheckIntegrity not found")
				continue
			}
			tryFix, put := "", ""
			ast.Inspect(fd.Body, func(n ast.Node) bool {
				switch x := n.(type) {
				case *ast.AssignStmt:
					if len(x.Lhs) == 1 && len(x.Rhs) == 1 {
						if id, ok := x.Lhs[0].(*ast.Ident); ok && id.Name == "tryFix" {
							tryFix = c09Render(fset, x.Rhs[0])
						}
					}
				case *ast.CallExpr:
					if se, ok := x.Fun.(*ast.SelectorExpr); ok && se.Sel.Name == "Put" && len(x.Args) == 2 {
						if c09Render(fset, x.Args[1]) == "nil" {
							put = c09Render(fset, x)
						}
					}
				}
				return true
			})
			switch {
			case tryFix == "index.nullable && fix && len(path) > 0" && put == "fieldBucket.Put([]byte(path[len(path)-1]), nil)":
				newShape++
			case tryFix == "index.nullable && fix && len(index.symbol.GetPath()) == 1" &&
				put == "entityBucket.Put([]byte(index.symbol.GetPath()[0]), nil)":
				oldShape++
			default:
				note(recv + ".CheckIntegrity: dangling-reference repair not recognised (tryFix := " + tryFix + "; " + put + ")")
			}
		}
		switch {
		case newShape == 2:
			q.FkRepairAtPath = true
		case oldShape == 2:
			q.FkRepairAtPath = false
		case newShape+oldShape == 2:
			note("fkIndex and fkConstraint repair dangling references differently")
		}
	}
	b := func(v bool) string {
		if v {
			return "true"
		}
		return "false"
	}
	lean := "/- generated by /verif/extract (c09quirks.go) from boltz/link_collection.go and boltz/indexes.go; do not edit -/\n" +
		"namespace StorageModel.Generated\n\n" +
		"/-- linkCollectionImpl.IterateLinks creates the link bucket (GetOrCreatePath) -/\n" +
		"def c09IterateLinksCreates : Bool := " + b(q.IterateLinksCreates) + "\n\n" +
		"/-- uniqueIndex.CheckIntegrity's entity loop treats an empty value like nil -/\n" +
		"def c09EmptyUniqueIsNil : Bool := " + b(q.EmptyUniqueIsNil) + "\n\n" +
		"/-- linkCollectionImpl.CheckIntegrity removes dangling links after its link-cursor loop -/\n" +
		"def c09LinkRemoveDeferred : Bool := " + b(q.LinkRemoveDeferred) + "\n\n" +
		"/-- fkIndex / fkConstraint .CheckIntegrity clear a dangling nullable reference at the symbol's path (prefix ++ [key]) -/\n" +
		"def c09FkRepairAtPath : Bool := " + b(q.FkRepairAtPath) + "\n\n" +
		"/-- all code sites had one of the shapes the extractor knows -/\n" +
		"def c09QuirksRecognised : Bool := " + b(q.Recognised) + "\n\n" +
		"end StorageModel.Generated\n"
	writeIfChanged(filepath.Join(gen, "C09Quirks.lean"), lean)
	js, _ := json.MarshalIndent(q, "", " ")
	writeIfChanged(filepath.Join(facts, "c09quirks.json"), string(js)+"\n")
}
