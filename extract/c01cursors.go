package main

// cursor-state extractor (C01): where the per-scan state of a query evaluation is created.
//
//   boltz/query_cursor.go   newRowCursor            returns a rowCursorImpl with a new, empty symbolCache
//                           (*rowCursorImpl).getSymbol          the cache of the receiver, filled from rs.entity.GetSymbol
//                           (*rowCursorImpl).OpenSetCursorForQuery  opens the receiver's own symbol on the receiver's row and
//                                                   hands (rs.tx, symbol.GetLinkedType(), setCursor, query) to newCursorScanner
//   boltz/query_scanners.go newCursorScanner        builds the scanner with rowCursor: newRowCursor(store, tx)
//   boltz/store_query.go    (*BaseStore).GetSymbol  hands out setSymbol.GetRuntimeSymbol() for a registered set symbol
//
// Writes facts/c01cursors.json (the normalised source text of those pieces + the booleans) and
// Generated/C01Cursors.lean (the booleans: they select the row-cursor policy of the Lean cursor machine,
// Filter/CursorsCode.lean).  A piece of another shape yields false, which breaks `codePolicy_fresh`.

import (
	"encoding/json"
	"fmt"
	"go/ast"
	"go/parser"
	"go/token"
	"path/filepath"
	"strings"
)

type c01CursorFacts struct {
	NewRowCursor            []string `json:"newRowCursor"`
	GetSymbol               []string `json:"getSymbol"`
	OpenSetCursorForQuery   []string `json:"openSetCursorForQuery"`
	NewCursorScannerLiteral string   `json:"newCursorScannerLiteral"`
	StoreGetSymbolSetBranch string   `json:"storeGetSymbolSetBranch"`

	NewRowCursorHasOwnCache    bool   `json:"newRowCursorHasOwnCache"`
	GetSymbolUsesOwnCache      bool   `json:"getSymbolUsesOwnCache"`
	OpenForQueryUsesOwnSymbol  bool   `json:"openForQueryUsesOwnSymbol"`
	SubScanGetsNewRowCursor    bool   `json:"subScanGetsNewRowCursor"`
	SetSymbolsAreRuntimeCopies bool   `json:"setSymbolsAreRuntimeCopies"`
	Note                       string `json:"note,omitempty"`
}

func c01FuncBody(path, recv, name string) (fset *token.FileSet, fd *ast.FuncDecl) {
	fset = token.NewFileSet()
	file, err := parser.ParseFile(fset, path, nil, 0)
	if err != nil {
		return fset, nil
	}
	for _, d := range file.Decls {
		f, ok := d.(*ast.FuncDecl)
		if !ok || f.Body == nil || f.Name.Name != name || pagingRecvTypeName(f) != recv {
			continue
		}
		return fset, f
	}
	return fset, nil
}

func analyseC01Cursors(repo string) (res c01CursorFacts) {
	defer func() {
		if r := recover(); r != nil {
			res = c01CursorFacts{Note: fmt.Sprint("extractor panic: ", r)}
		}
	}()
	cursorFile := filepath.Join(repo, "boltz", "query_cursor.go")

	// newRowCursor: `return &rowCursorImpl{symbolCache: map[string]EntitySymbol{}, entity: entity, tx: tx}`
	if fset, fd := c01FuncBody(cursorFile, "", "newRowCursor"); fd != nil {
		res.NewRowCursor = pagingStmtTexts(fset, fd.Body.List)
		if len(fd.Body.List) == 1 {
			if ret, ok := fd.Body.List[0].(*ast.ReturnStmt); ok && len(ret.Results) == 1 {
				if un, ok := ret.Results[0].(*ast.UnaryExpr); ok && un.Op == token.AND {
					if lit, ok := un.X.(*ast.CompositeLit); ok && pagingNodeText(fset, lit.Type) == "rowCursorImpl" {
						for _, e := range lit.Elts {
							kv, ok := e.(*ast.KeyValueExpr)
							if !ok || pagingNodeText(fset, kv.Key) != "symbolCache" {
								continue
							}
							if m, ok := kv.Value.(*ast.CompositeLit); ok && len(m.Elts) == 0 {
								if _, isMap := m.Type.(*ast.MapType); isMap {
									res.NewRowCursorHasOwnCache = true
								}
							}
						}
					}
				}
			}
		}
	}

	// getSymbol: the receiver's cache, filled from the receiver's store
	if fset, fd := c01FuncBody(cursorFile, "rowCursorImpl", "getSymbol"); fd != nil {
		res.GetSymbol = pagingStmtTexts(fset, fd.Body.List)
		res.GetSymbolUsesOwnCache = pagingSameStrings(res.GetSymbol, []string{
			"result, found := rs.symbolCache[name]",
			"if !found { result = rs.entity.GetSymbol(name) if result != nil { rs.symbolCache[name] = result } }",
			"return result",
		})
	}

	// OpenSetCursorForQuery
	if fset, fd := c01FuncBody(cursorFile, "rowCursorImpl", "OpenSetCursorForQuery"); fd != nil {
		res.OpenSetCursorForQuery = pagingStmtTexts(fset, fd.Body.List)
		has := func(s string) bool {
			for _, t := range res.OpenSetCursorForQuery {
				if t == s {
					return true
				}
			}
			return false
		}
		n := len(res.OpenSetCursorForQuery)
		res.OpenForQueryUsesOwnSymbol = n > 0 && has("symbol := rs.getSymbol(name)") &&
			has("setRowSymbol, ok := symbol.(RuntimeEntitySetSymbol)") &&
			has("setCursor := setRowSymbol.OpenCursor(rs.tx, rs.currentRow)") &&
			res.OpenSetCursorForQuery[n-1] == "return newCursorScanner(rs.tx, symbol.GetLinkedType(), setCursor, query)"
	}

	// newCursorScanner(tx, store, cursor, query): &uniqueIndexScanner{…, rowCursor: newRowCursor(store, tx), …}
	if fset, fd := c01FuncBody(filepath.Join(repo, "boltz", "query_scanners.go"), "", "newCursorScanner"); fd != nil {
		var ps []string
		if fd.Type.Params != nil {
			for _, f := range fd.Type.Params.List {
				for _, nm := range f.Names {
					ps = append(ps, nm.Name+" "+pagingNodeText(fset, f.Type))
				}
			}
		}
		params := "(" + strings.Join(ps, ", ") + ")"
		ast.Inspect(fd.Body, func(n ast.Node) bool {
			lit, ok := n.(*ast.CompositeLit)
			if !ok || pagingNodeText(fset, lit.Type) != "uniqueIndexScanner" {
				return true
			}
			res.NewCursorScannerLiteral = params + " " + pagingNodeText(fset, lit)
			for _, e := range lit.Elts {
				kv, ok := e.(*ast.KeyValueExpr)
				if !ok || pagingNodeText(fset, kv.Key) != "rowCursor" {
					continue
				}
				if pagingNodeText(fset, kv.Value) == "newRowCursor(store, tx)" &&
					strings.Contains(params, "tx *bbolt.Tx") && strings.Contains(params, "store Store") {
					res.SubScanGetsNewRowCursor = true
				}
			}
			return false
		})
	}

	// BaseStore.GetSymbol: a runtime copy of a registered set symbol
	if fset, fd := c01FuncBody(filepath.Join(repo, "boltz", "store_query.go"), "BaseStore", "GetSymbol"); fd != nil {
		ast.Inspect(fd.Body, func(n ast.Node) bool {
			is, ok := n.(*ast.IfStmt)
			if !ok || is.Init == nil {
				return true
			}
			if pagingNodeText(fset, is.Init) == "setSymbol, ok := result.(EntitySetSymbol)" {
				res.StoreGetSymbolSetBranch = pagingNodeText(fset, is)
				res.SetSymbolsAreRuntimeCopies = pagingNodeText(fset, is.Cond) == "ok" && is.Else == nil &&
					len(is.Body.List) == 1 && pagingNodeText(fset, is.Body.List[0]) == "return setSymbol.GetRuntimeSymbol()"
				return false
			}
			return true
		})
	}
	return
}

func extractC01Cursors(repo, gen, facts string) {
	f := analyseC01Cursors(repo)
	js, _ := json.MarshalIndent(f, "", " ")
	writeIfChanged(filepath.Join(facts, "c01cursors.json"), string(js)+"\n")
	var b strings.Builder
	b.WriteString("/- GENERATED by /verif/extract (c01cursors.go) from boltz/query_cursor.go, query_scanners.go, store_query.go — do not edit -/\n")
	b.WriteString("namespace StorageModel.Generated.C01Cursors\n\n")
	b.WriteString("/-- `newRowCursor` returns a row cursor with a new, empty `symbolCache` -/\n")
	b.WriteString(fmt.Sprintf("def newRowCursorHasOwnCache : Bool := %v\n", f.NewRowCursorHasOwnCache))
	b.WriteString("/-- `rowCursorImpl.getSymbol` reads and fills the receiver's `symbolCache` from the receiver's store -/\n")
	b.WriteString(fmt.Sprintf("def getSymbolUsesOwnCache : Bool := %v\n", f.GetSymbolUsesOwnCache))
	b.WriteString("/-- `OpenSetCursorForQuery` opens the receiver's own symbol on the receiver's row and calls\n    `newCursorScanner(rs.tx, symbol.GetLinkedType(), setCursor, query)` -/\n")
	b.WriteString(fmt.Sprintf("def openForQueryUsesOwnSymbol : Bool := %v\n", f.OpenForQueryUsesOwnSymbol))
	b.WriteString("/-- `newCursorScanner` builds its scanner with `rowCursor: newRowCursor(store, tx)` -/\n")
	b.WriteString(fmt.Sprintf("def subScanGetsNewRowCursor : Bool := %v\n", f.SubScanGetsNewRowCursor))
	b.WriteString("/-- `BaseStore.GetSymbol` hands out `GetRuntimeSymbol()` for a registered set symbol -/\n")
	b.WriteString(fmt.Sprintf("def setSymbolsAreRuntimeCopies : Bool := %v\n", f.SetSymbolsAreRuntimeCopies))
	b.WriteString("\nend StorageModel.Generated.C01Cursors\n")
	writeIfChanged(filepath.Join(gen, "C01Cursors.lean"), b.String())
}
