// C10: the grammar file as data, and the generated lexer / parser tied to it.
//
//   - zitiql/ZitiQl.g4 is parsed completely (lexer rules, fragments, parser rules, in file order;
//     quoted literals, character sets with ranges / escapes / negation, rule references, grouping,
//     `?` `*` `+`, alternative labels) and emitted as `Rx` syntax trees in
//     Generated/C10Lexer.lean.  The Lean side (C10/G4.lean) resolves the references, numbers the
//     tokens and *interprets* the result: the reference lexer runs the generated rules, the
//     relational grammar semantics `Derives` runs over the generated parser rules.
//   - zitiql/zitiql_lexer.go and zitiql_parser.go: the `serializedATN` literals are decoded
//     (ANTLR 4 serialisation version 4) and summarised per rule as the multiset of their
//     non-epsilon transition labels (character classes / token classes, rule calls, precedence
//     predicates) + rule → token type + state counts + a SHA-256 of the literal, together with
//     the LiteralNames / SymbolicNames / RuleNames tables, into Generated/C10Atn.lean.  The Lean
//     side computes the same summary from the grammar file's rules and proves them equal, so a
//     lexer / parser that was generated from a different grammar breaks an obligation; the
//     hashes are pinned in C10/Expected.lean.
//
// go/parser + go/ast only (and a hand-written reader for the .g4 syntax).
package main

import (
	"crypto/sha256"
	"encoding/hex"
	"encoding/json"
	"fmt"
	"go/ast"
	"go/parser"
	"go/token"
	"os"
	"path/filepath"
	"sort"
	"strconv"
	"strings"
)

// ---------------------------------------------------------------------------- .g4 syntax trees

type rx struct {
	Kind   string   `json:"k"` // lit set ref seq alt opt star plus eps
	Lit    []int    `json:"lit,omitempty"`
	Neg    bool     `json:"neg,omitempty"`
	Ranges [][2]int `json:"ranges,omitempty"`
	Name   string   `json:"name,omitempty"`
	Subs   []*rx    `json:"subs,omitempty"`
}

type g4Rule struct {
	Name     string   `json:"name"`
	Fragment bool     `json:"fragment"`
	Body     *rx      `json:"body"`
	Labels   []string `json:"labels"`
}

type g4Tok struct {
	kind string // id lit set punct
	text string
	lit  []int
	rng  [][2]int
}

type g4Lexer struct {
	src  []rune
	pos  int
	toks []g4Tok
	err  string
}

func (l *g4Lexer) fail(msg string) {
	if l.err == "" {
		l.err = fmt.Sprintf("%s at offset %d", msg, l.pos)
	}
}

// escape after a backslash (l.pos on the character after the backslash); inSet allows \- and \]
func (l *g4Lexer) escape(inSet bool) (int, bool) {
	if l.pos >= len(l.src) {
		l.fail("dangling backslash")
		return 0, false
	}
	c := l.src[l.pos]
	l.pos++
	switch c {
	case 'n':
		return '\n', true
	case 't':
		return '\t', true
	case 'r':
		return '\r', true
	case 'f':
		return '\f', true
	case 'b':
		return '\b', true
	case '\\', '\'':
		return int(c), true
	case '-', ']':
		if inSet {
			return int(c), true
		}
	case 'u':
		if l.pos < len(l.src) && l.src[l.pos] == '{' {
			end := l.pos + 1
			for end < len(l.src) && l.src[end] != '}' {
				end++
			}
			if end < len(l.src) {
				if v, err := strconv.ParseInt(string(l.src[l.pos+1:end]), 16, 32); err == nil {
					l.pos = end + 1
					return int(v), true
				}
			}
		} else if l.pos+4 <= len(l.src) {
			if v, err := strconv.ParseInt(string(l.src[l.pos:l.pos+4]), 16, 32); err == nil {
				l.pos += 4
				return int(v), true
			}
		}
	}
	l.fail("unsupported escape \\" + string(c))
	return 0, false
}

func c10NormRanges(rs [][2]int) [][2]int {
	sort.Slice(rs, func(i, j int) bool {
		if rs[i][0] != rs[j][0] {
			return rs[i][0] < rs[j][0]
		}
		return rs[i][1] < rs[j][1]
	})
	var out [][2]int
	for _, r := range rs {
		if n := len(out); n > 0 && r[0] <= out[n-1][1]+1 {
			if r[1] > out[n-1][1] {
				out[n-1][1] = r[1]
			}
			continue
		}
		out = append(out, r)
	}
	return out
}

func (l *g4Lexer) run() {
	for l.pos < len(l.src) && l.err == "" {
		c := l.src[l.pos]
		switch {
		case c == ' ' || c == '\t' || c == '\n' || c == '\r':
			l.pos++
		case c == '/' && l.pos+1 < len(l.src) && l.src[l.pos+1] == '/':
			for l.pos < len(l.src) && l.src[l.pos] != '\n' {
				l.pos++
			}
		case c == '/' && l.pos+1 < len(l.src) && l.src[l.pos+1] == '*':
			l.pos += 2
			for l.pos+1 < len(l.src) && !(l.src[l.pos] == '*' && l.src[l.pos+1] == '/') {
				l.pos++
			}
			l.pos += 2
		case c == '\'':
			l.pos++
			var cps []int
			closed := false
			for l.pos < len(l.src) {
				d := l.src[l.pos]
				l.pos++
				if d == '\'' {
					closed = true
					break
				}
				if d == '\\' {
					v, ok := l.escape(false)
					if !ok {
						return
					}
					cps = append(cps, v)
					continue
				}
				cps = append(cps, int(d))
			}
			if !closed || len(cps) == 0 {
				l.fail("bad quoted literal")
				return
			}
			l.toks = append(l.toks, g4Tok{kind: "lit", lit: cps})
		case c == '[':
			l.pos++
			var items []int // code points; -1 marks an unescaped '-'
			closed := false
			for l.pos < len(l.src) {
				d := l.src[l.pos]
				l.pos++
				if d == ']' {
					closed = true
					break
				}
				if d == '\\' {
					v, ok := l.escape(true)
					if !ok {
						return
					}
					items = append(items, v)
					continue
				}
				if d == '-' {
					items = append(items, -1)
					continue
				}
				items = append(items, int(d))
			}
			if !closed {
				l.fail("unterminated character set")
				return
			}
			var rs [][2]int
			for i := 0; i < len(items); i++ {
				v := items[i]
				if v == -1 {
					v = '-' // a '-' that is first or last, or follows a range, is itself
				}
				if i+2 < len(items) && items[i+1] == -1 && items[i+2] != -1 {
					hi := items[i+2]
					if hi < v {
						l.fail("reversed range in character set")
						return
					}
					rs = append(rs, [2]int{v, hi})
					i += 2
					continue
				}
				rs = append(rs, [2]int{v, v})
			}
			if len(rs) == 0 {
				l.fail("empty character set")
				return
			}
			l.toks = append(l.toks, g4Tok{kind: "set", rng: c10NormRanges(rs)})
		case c == '_' || (c >= 'a' && c <= 'z') || (c >= 'A' && c <= 'Z'):
			st := l.pos
			for l.pos < len(l.src) {
				d := l.src[l.pos]
				if d == '_' || (d >= 'a' && d <= 'z') || (d >= 'A' && d <= 'Z') || (d >= '0' && d <= '9') {
					l.pos++
				} else {
					break
				}
			}
			l.toks = append(l.toks, g4Tok{kind: "id", text: string(l.src[st:l.pos])})
		case strings.ContainsRune(":;|()?*+~#", c):
			l.toks = append(l.toks, g4Tok{kind: "punct", text: string(c)})
			l.pos++
		default:
			l.fail("unsupported character " + strconv.QuoteRune(c))
		}
	}
}

type g4Parser struct {
	toks []g4Tok
	pos  int
	err  string
}

func (p *g4Parser) fail(msg string) {
	if p.err == "" {
		p.err = fmt.Sprintf("%s at token %d", msg, p.pos)
	}
}

func (p *g4Parser) peekPunct(s string) bool {
	return p.pos < len(p.toks) && p.toks[p.pos].kind == "punct" && p.toks[p.pos].text == s
}

func c10MkList(kind string, subs []*rx) *rx {
	if len(subs) == 0 {
		return &rx{Kind: "eps"}
	}
	if len(subs) == 1 {
		return subs[0]
	}
	return &rx{Kind: kind, Subs: subs}
}

// alternatives up to `;` or `)`; labels only reported for the outermost call
func (p *g4Parser) alts() (*rx, []string) {
	var as []*rx
	var labels []string
	for {
		var elems []*rx
		label := ""
		for p.pos < len(p.toks) && p.err == "" {
			if p.peekPunct("|") || p.peekPunct(";") || p.peekPunct(")") {
				break
			}
			if p.peekPunct("#") {
				p.pos++
				if p.pos < len(p.toks) && p.toks[p.pos].kind == "id" {
					label = p.toks[p.pos].text
					p.pos++
				} else {
					p.fail("label expected after #")
				}
				continue
			}
			elems = append(elems, p.element())
		}
		as = append(as, c10MkList("seq", elems))
		labels = append(labels, label)
		if p.peekPunct("|") {
			p.pos++
			continue
		}
		break
	}
	return c10MkList("alt", as), labels
}

func (p *g4Parser) atom() *rx {
	if p.pos >= len(p.toks) {
		p.fail("unexpected end")
		return &rx{Kind: "eps"}
	}
	t := p.toks[p.pos]
	switch {
	case t.kind == "lit":
		p.pos++
		return &rx{Kind: "lit", Lit: t.lit}
	case t.kind == "set":
		p.pos++
		return &rx{Kind: "set", Ranges: t.rng}
	case t.kind == "id":
		p.pos++
		return &rx{Kind: "ref", Name: t.text}
	case t.kind == "punct" && t.text == "(":
		p.pos++
		r, _ := p.alts()
		if !p.peekPunct(")") {
			p.fail("expected )")
		} else {
			p.pos++
		}
		return r
	case t.kind == "punct" && t.text == "~":
		p.pos++
		a := p.atom()
		switch {
		case a.Kind == "set" && !a.Neg:
			return &rx{Kind: "set", Neg: true, Ranges: a.Ranges}
		case a.Kind == "lit" && len(a.Lit) == 1:
			return &rx{Kind: "set", Neg: true, Ranges: [][2]int{{a.Lit[0], a.Lit[0]}}}
		}
		p.fail("unsupported operand of ~")
		return a
	}
	p.fail("unexpected token " + t.kind + " " + t.text)
	p.pos++
	return &rx{Kind: "eps"}
}

func (p *g4Parser) element() *rx {
	a := p.atom()
	for p.pos < len(p.toks) && p.toks[p.pos].kind == "punct" {
		switch p.toks[p.pos].text {
		case "?":
			a = &rx{Kind: "opt", Subs: []*rx{a}}
		case "*":
			a = &rx{Kind: "star", Subs: []*rx{a}}
		case "+":
			a = &rx{Kind: "plus", Subs: []*rx{a}}
		default:
			return a
		}
		p.pos++
	}
	return a
}

// c10ParseG4 reads a combined grammar: `grammar X;` followed by rules.
func c10ParseG4(src string) ([]g4Rule, string) {
	lx := &g4Lexer{src: []rune(src)}
	lx.run()
	if lx.err != "" {
		return nil, "ZitiQl.g4: " + lx.err
	}
	p := &g4Parser{toks: lx.toks}
	if !(len(p.toks) >= 3 && p.toks[0].kind == "id" && p.toks[0].text == "grammar" && p.toks[1].kind == "id" && p.toks[2].text == ";") {
		return nil, "ZitiQl.g4: `grammar <name>;` header expected (combined grammar)"
	}
	p.pos = 3
	var rules []g4Rule
	seen := map[string]bool{}
	for p.pos < len(p.toks) && p.err == "" {
		r := g4Rule{}
		if p.toks[p.pos].kind == "id" && p.toks[p.pos].text == "fragment" {
			r.Fragment = true
			p.pos++
		}
		if p.pos >= len(p.toks) || p.toks[p.pos].kind != "id" {
			p.fail("rule name expected")
			break
		}
		r.Name = p.toks[p.pos].text
		p.pos++
		if !p.peekPunct(":") {
			p.fail("unsupported rule syntax (only `name : alternatives ;`) in rule " + r.Name)
			break
		}
		p.pos++
		r.Body, r.Labels = p.alts()
		if !p.peekPunct(";") {
			p.fail("expected ; after rule " + r.Name)
			break
		}
		p.pos++
		if seen[r.Name] {
			p.fail("rule defined twice: " + r.Name)
		}
		seen[r.Name] = true
		rules = append(rules, r)
	}
	if p.err != "" {
		return nil, "ZitiQl.g4: " + p.err
	}
	return rules, ""
}

func c10NatList(xs []int) string {
	var parts []string
	for _, x := range xs {
		parts = append(parts, strconv.Itoa(x))
	}
	return "[" + strings.Join(parts, ", ") + "]"
}

func c10Ranges(rs [][2]int) string {
	var parts []string
	for _, r := range rs {
		parts = append(parts, fmt.Sprintf("(%d, %d)", r[0], r[1]))
	}
	return "[" + strings.Join(parts, ", ") + "]"
}

func (r *rx) lean() string {
	switch r.Kind {
	case "eps":
		return ".eps"
	case "lit":
		return "(.lit " + c10NatList(r.Lit) + ")"
	case "set":
		return fmt.Sprintf("(.set %v %s)", r.Neg, c10Ranges(r.Ranges))
	case "ref":
		return fmt.Sprintf("(.ref %q)", r.Name)
	case "opt", "star", "plus":
		return "(." + r.Kind + " " + r.Subs[0].lean() + ")"
	case "seq", "alt":
		// right-nested binary
		s := r.Subs[len(r.Subs)-1].lean()
		for i := len(r.Subs) - 2; i >= 0; i-- {
			s = "(." + r.Kind + " " + r.Subs[i].lean() + " " + s + ")"
		}
		return s
	}
	return ".eps"
}

func c10StrList(xs []string) string {
	var parts []string
	for _, x := range xs {
		parts = append(parts, strconv.Quote(x))
	}
	return "[" + strings.Join(parts, ", ") + "]"
}

// ---------------------------------------------------------------------------- serialized ATN

type atnLeaf struct {
	Kind   string   `json:"k"` // cls call pred other
	Neg    bool     `json:"neg,omitempty"`
	Ranges [][2]int `json:"ranges,omitempty"`
	Arg    int      `json:"arg,omitempty"`
	Arg2   int      `json:"arg2,omitempty"`
}

func (l atnLeaf) lean() string {
	switch l.Kind {
	case "cls":
		return fmt.Sprintf(".cls %v %s", l.Neg, c10Ranges(l.Ranges))
	case "call":
		return fmt.Sprintf(".call %d %d", l.Arg, l.Arg2)
	case "pred":
		return fmt.Sprintf(".pred %d", l.Arg)
	}
	return fmt.Sprintf(".other %d", l.Arg)
}

func (l atnLeaf) key() string { return l.lean() }

type atnSummary struct {
	File          string      `json:"file"`
	Note          string      `json:"note,omitempty"`
	Sha256        string      `json:"sha256"`
	FileSha256    string      `json:"fileSha256"`
	Length        int         `json:"length"`
	Version       int         `json:"version"`
	GrammarType   int         `json:"grammarType"`
	MaxTokenType  int         `json:"maxTokenType"`
	States        int         `json:"states"`
	Decisions     int         `json:"decisions"`
	Modes         int         `json:"modes"`
	LexerActions  int         `json:"lexerActions"`
	RuleTokenType []int       `json:"ruleTokenType"` // lexer: token type of each rule (0 = fragment)
	Precedence    []int       `json:"precedenceRules"`
	RuleStates    []int       `json:"ruleStates"`
	Leaves        [][]atnLeaf `json:"leaves"`
	LiteralNames  []string    `json:"literalNames"`
	SymbolicNames []string    `json:"symbolicNames"`
	RuleNames     []string    `json:"ruleNames"`
}

// c10StaticDataOf finds, in the generated file, the assignments `staticData.<field> = <composite literal>`.
func c10StaticDataOf(path string) (ints []int, names map[string][]string, note string) {
	names = map[string][]string{}
	fset := token.NewFileSet()
	f, err := parser.ParseFile(fset, path, nil, 0)
	if err != nil {
		return nil, names, "cannot parse " + filepath.Base(path)
	}
	found := false
	ast.Inspect(f, func(n ast.Node) bool {
		as, ok := n.(*ast.AssignStmt)
		if !ok || len(as.Lhs) != 1 || len(as.Rhs) != 1 {
			return true
		}
		se, ok := as.Lhs[0].(*ast.SelectorExpr)
		if !ok {
			return true
		}
		cl, ok := as.Rhs[0].(*ast.CompositeLit)
		if !ok {
			return true
		}
		switch se.Sel.Name {
		case "serializedATN":
			if found {
				note = "serializedATN assigned more than once"
			}
			found = true
			for _, e := range cl.Elts {
				neg := false
				if u, ok := e.(*ast.UnaryExpr); ok && u.Op == token.SUB {
					neg = true
					e = u.X
				}
				bl, ok := e.(*ast.BasicLit)
				if !ok || bl.Kind != token.INT {
					note = "serializedATN: non-literal element"
					return true
				}
				v, err := strconv.Atoi(bl.Value)
				if err != nil {
					note = "serializedATN: bad integer"
					return true
				}
				if neg {
					v = -v
				}
				ints = append(ints, v)
			}
		case "LiteralNames", "SymbolicNames", "RuleNames":
			var xs []string
			for _, e := range cl.Elts {
				bl, ok := e.(*ast.BasicLit)
				if !ok || bl.Kind != token.STRING {
					note = se.Sel.Name + ": non-literal element"
					return true
				}
				s, err := strconv.Unquote(bl.Value)
				if err != nil {
					note = se.Sel.Name + ": bad string"
					return true
				}
				xs = append(xs, s)
			}
			names[se.Sel.Name] = xs
		}
		return true
	})
	if !found && note == "" {
		note = "serializedATN not found"
	}
	return ints, names, note
}

func c10DecodeATN(path string) atnSummary {
	s := atnSummary{File: filepath.Base(path), FileSha256: g4FileHash(path)}
	data, names, note := c10StaticDataOf(path)
	s.LiteralNames, s.SymbolicNames, s.RuleNames = names["LiteralNames"], names["SymbolicNames"], names["RuleNames"]
	if note != "" {
		s.Note = note
		return s
	}
	var hb strings.Builder
	for _, v := range data {
		hb.WriteString(strconv.Itoa(v))
		hb.WriteByte(',')
	}
	h := sha256.Sum256([]byte(hb.String()))
	s.Sha256 = hex.EncodeToString(h[:])
	s.Length = len(data)
	pos := 0
	bad := false
	rd := func() int {
		if pos >= len(data) {
			bad = true
			return 0
		}
		v := data[pos]
		pos++
		return v
	}
	s.Version = rd()
	s.GrammarType = rd()
	s.MaxTokenType = rd()
	nstates := rd()
	if bad || nstates < 0 || nstates > len(data) {
		s.Note = "truncated ATN"
		return s
	}
	s.States = nstates
	stateRule := make([]int, nstates)
	for i := 0; i < nstates && !bad; i++ {
		st := rd()
		if st == 0 {
			stateRule[i] = -1
			continue
		}
		stateRule[i] = rd()
		if st == 12 || st == 3 || st == 4 || st == 5 { // LOOP_END: loop back state; block starts: end state
			rd()
		}
	}
	for n := rd(); n > 0 && !bad; n-- { // non-greedy states
		rd()
	}
	for n := rd(); n > 0 && !bad; n-- { // precedence rule start states
		st := rd()
		if st >= 0 && st < nstates {
			s.Precedence = append(s.Precedence, stateRule[st])
		}
	}
	nrules := rd()
	if bad || nrules < 0 || nrules > len(data) {
		s.Note = "truncated ATN (rules)"
		return s
	}
	ruleStart := make([]int, nrules)
	for i := 0; i < nrules && !bad; i++ {
		ruleStart[i] = rd()
		if s.GrammarType == 0 {
			s.RuleTokenType = append(s.RuleTokenType, rd())
		}
	}
	s.Modes = rd()
	for i := 0; i < s.Modes && !bad; i++ {
		rd()
	}
	nsets := rd()
	var sets [][][2]int
	for i := 0; i < nsets && !bad; i++ {
		n := rd()
		var rs [][2]int
		if rd() != 0 { // contains EOF
			rs = append(rs, [2]int{0, 0})
		}
		for j := 0; j < n && !bad; j++ {
			a, b := rd(), rd()
			rs = append(rs, [2]int{a, b})
		}
		sets = append(sets, c10NormRanges(rs))
	}
	nedges := rd()
	s.Leaves = make([][]atnLeaf, nrules)
	s.RuleStates = make([]int, nrules)
	for _, r := range stateRule {
		if r >= 0 && r < nrules {
			s.RuleStates[r]++
		}
	}
	startRule := map[int]int{}
	for i, st := range ruleStart {
		startRule[st] = i
	}
	for i := 0; i < nedges && !bad; i++ {
		src, _, tt, a1, a2, a3 := rd(), rd(), rd(), rd(), rd(), rd()
		if src < 0 || src >= nstates || stateRule[src] < 0 || stateRule[src] >= nrules {
			if tt != 1 {
				s.Note = "edge from a state without rule"
			}
			continue // the tokens start state has only epsilon edges
		}
		r := stateRule[src]
		eofOr := func(v int) int { // parser token EOF (-1) is written as 0; lexer code points are >= 0 anyway
			if a3 != 0 {
				return 0
			}
			return v
		}
		var leaf *atnLeaf
		switch tt {
		case 1: // epsilon
		case 2:
			leaf = &atnLeaf{Kind: "cls", Ranges: [][2]int{{eofOr(a1), a2}}}
		case 3:
			leaf = &atnLeaf{Kind: "call", Arg: a2, Arg2: a3}
			if rs, ok := startRule[a1]; !ok || rs != a2 {
				s.Note = "rule transition whose start state is not the start of its rule"
			}
		case 5:
			leaf = &atnLeaf{Kind: "cls", Ranges: [][2]int{{eofOr(a1), eofOr(a1)}}}
		case 7, 8:
			if a1 < 0 || a1 >= len(sets) {
				s.Note = "set index out of range"
				continue
			}
			leaf = &atnLeaf{Kind: "cls", Neg: tt == 8, Ranges: sets[a1]}
		case 10:
			leaf = &atnLeaf{Kind: "pred", Arg: a1}
		default: // predicate, action, wildcard: not produced by this grammar
			leaf = &atnLeaf{Kind: "other", Arg: tt}
		}
		if leaf != nil {
			s.Leaves[r] = append(s.Leaves[r], *leaf)
		}
	}
	s.Decisions = rd()
	for i := 0; i < s.Decisions && !bad; i++ {
		rd()
	}
	if s.GrammarType == 0 {
		s.LexerActions = rd()
		for i := 0; i < s.LexerActions && !bad; i++ {
			rd()
			rd()
			rd()
		}
	}
	if bad {
		s.Note = "truncated ATN"
	} else if pos != len(data) {
		s.Note = fmt.Sprintf("trailing data after the ATN (%d of %d read)", pos, len(data))
	}
	for _, ls := range s.Leaves {
		sort.SliceStable(ls, func(i, j int) bool { return ls[i].key() < ls[j].key() })
	}
	return s
}

func (s atnSummary) lean(name string, b *strings.Builder) {
	fmt.Fprintf(b, "def %s : AtnSummary :=\n", name)
	fmt.Fprintf(b, "  { fileSha256 := %q,\n", s.FileSha256)
	fmt.Fprintf(b, "    note := %q, sha256 := %q, length := %d, version := %d, grammarType := %d,\n", s.Note, s.Sha256, s.Length, s.Version, s.GrammarType)
	fmt.Fprintf(b, "    maxTokenType := %d, states := %d, decisions := %d, modes := %d, lexerActions := %d,\n", s.MaxTokenType, s.States, s.Decisions, s.Modes, s.LexerActions)
	fmt.Fprintf(b, "    ruleTokenType := %s,\n    precedenceRules := %s,\n    ruleStates := %s,\n", c10NatList(s.RuleTokenType), c10NatList(s.Precedence), c10NatList(s.RuleStates))
	fmt.Fprintf(b, "    literalNames := %s,\n    symbolicNames := %s,\n    ruleNames := %s,\n", c10StrList(s.LiteralNames), c10StrList(s.SymbolicNames), c10StrList(s.RuleNames))
	b.WriteString("    leaves := [\n")
	for i, ls := range s.Leaves {
		var parts []string
		for _, l := range ls {
			parts = append(parts, l.lean())
		}
		sep := ","
		if i == len(s.Leaves)-1 {
			sep = ""
		}
		fmt.Fprintf(b, "      [%s]%s\n", strings.Join(parts, ", "), sep)
	}
	b.WriteString("    ] }\n")
}

func extractC10Lexer(repo, gen, facts string) {
	g4Path := filepath.Join(repo, "zitiql", "ZitiQl.g4")
	var rules []g4Rule
	note := ""
	if raw, err := os.ReadFile(g4Path); err != nil {
		note = "cannot read ZitiQl.g4"
	} else {
		rules, note = c10ParseG4(string(raw))
	}
	js, _ := json.MarshalIndent(map[string]any{"note": note, "rules": rules}, "", " ")
	writeIfChanged(filepath.Join(facts, "c10_g4.json"), string(js)+"\n")

	var b strings.Builder
	b.WriteString("import StorageModel.C10.G4\n")
	b.WriteString("/- GENERATED by /verif/extract (c10_lexer.go) from zitiql/ZitiQl.g4 — do not edit.\n")
	b.WriteString("   Every rule of the grammar file in file order: (name, is-fragment, body, labels of the top-level\n")
	b.WriteString("   alternatives).  Character sets are sorted, merged code-point ranges. -/\n")
	b.WriteString("namespace StorageModel.Generated.C10\nopen StorageModel.C10.G4\n")
	fmt.Fprintf(&b, "def g4Note : String := %q\n", note)
	b.WriteString("def g4Rules : List Rule := [\n")
	for i, r := range rules {
		sep := ","
		if i == len(rules)-1 {
			sep = ""
		}
		fmt.Fprintf(&b, "  ⟨%q, %v, %s, %s⟩%s\n", r.Name, r.Fragment, r.Body.lean(), c10StrList(r.Labels), sep)
	}
	b.WriteString("]\nend StorageModel.Generated.C10\n")
	writeIfChanged(filepath.Join(gen, "C10Lexer.lean"), b.String())

	lex := c10DecodeATN(filepath.Join(repo, "zitiql", "zitiql_lexer.go"))
	par := c10DecodeATN(filepath.Join(repo, "zitiql", "zitiql_parser.go"))
	ja, _ := json.MarshalIndent(map[string]any{"lexer": lex, "parser": par}, "", " ")
	writeIfChanged(filepath.Join(facts, "c10_atn.json"), string(ja)+"\n")
	var a strings.Builder
	a.WriteString("import StorageModel.C10.G4\n")
	a.WriteString("/- GENERATED by /verif/extract (c10_lexer.go) from the `serializedATN` literals and name tables of\n")
	a.WriteString("   zitiql/zitiql_lexer.go and zitiql/zitiql_parser.go — do not edit.  leaves: per rule, the sorted\n")
	a.WriteString("   non-epsilon transition labels (code-point / token-type classes with EOF written as 0, rule calls\n")
	a.WriteString("   with precedence, precedence predicates). -/\n")
	a.WriteString("namespace StorageModel.Generated.C10\nopen StorageModel.C10.G4\n")
	lex.lean("lexerAtn", &a)
	par.lean("parserAtn", &a)
	a.WriteString("end StorageModel.Generated.C10\n")
	writeIfChanged(filepath.Join(gen, "C10Atn.lean"), a.String())
}
