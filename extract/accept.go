package main

// extractAccept (property C20) reads every struct type of /repo/ast that has an
// Accept(Visitor) method and writes what that method does with the visitor:
//
//	children   node-valued struct fields (node interface / *kind / kind / slices of those;
//	           embedded structs are flattened, as Go promotes their fields), declaration order
//	steps      the statements of the Accept body in source order:
//	             visitor.VisitSymbol(recv.f, …)                         -> announce f
//	             recv.f.Accept(visitor)                                  -> forward f
//	             for _, c := range recv.f { c.Accept(visitor) }          -> forward f
//	             if recv.f != nil { recv.f.Accept(visitor) }             -> forward f (guarded)
//	             visitor.VisitXxx(…)                                     -> hook VisitXxx
//	             anything else                                           -> unknown
//	nilSafe    the whole body is `if recv != nil { … }`
//	symFields  string fields returned by the type's Symbol() method or passed to VisitSymbol
//	opaque     fields of non-node interface / map-of-node type (could hide a node)
//
// plus, from boltz/validate.go and ast/visitor.go, which Visitor methods the public-symbol
// validator overrides and whether every DefaultVisitor method is empty.
//
// Output: Generated/AcceptTable.lean (compiled into the C20 theorems) and facts/accept.json
// (read by the C20 harness generator and check for coverage accounting).

import (
	"bytes"
	"crypto/sha256"
	"encoding/json"
	"fmt"
	"go/ast"
	"go/parser"
	"go/printer"
	"go/token"
	"os"
	"path/filepath"
	"sort"
	"strings"
)

type acceptChild struct {
	Field  string `json:"field"`
	Many   bool   `json:"many"`
	Static string `json:"static"` // "iface" | "ptr" | "val"
	Kind   string `json:"kind,omitempty"`
}

type acceptStep struct {
	Op      string `json:"op"` // announce | forward | hook | unknown
	Arg     string `json:"arg"`
	Guarded bool   `json:"guarded,omitempty"`
}

type acceptKind struct {
	Name      string        `json:"name"`
	NilSafe   bool          `json:"nilSafe"`
	Children  []acceptChild `json:"children"`
	StrFields []string      `json:"strFields"`
	SymFields []string      `json:"symFields"`
	Opaque    []string      `json:"opaque"`
	Steps     []acceptStep  `json:"steps"`
	Exported  bool          `json:"exported"`
	// fields whose type is a named integer type of package ast (BinaryOp, SetFunction, boolBinaryOp, …)
	EnumFields []string `json:"enumFields"`
	// node interfaces of package ast whose method set is contained in the method set of *Kind
	Ifaces []string `json:"ifaces"`
	// the constant GetType() returns ("" if it computes something)
	GetType string `json:"getType"`
	// Accept has a value receiver (the kind lives in interfaces by value and cannot be a nil pointer there)
	ValueRecv bool `json:"valueRecv"`
}

type acceptFacts struct {
	Kinds                  []acceptKind      `json:"kinds"`
	NodeInterfaces         []string          `json:"nodeInterfaces"`
	ValidatorOverrides     []string          `json:"validatorOverrides"`
	ValidatorEmbedsDefault bool              `json:"validatorEmbedsDefault"`
	DefaultVisitorNonEmpty []string          `json:"defaultVisitorNonEmpty"`
	SourceHashes           map[string]string `json:"sourceHashes"`
	EnumConsts             [][2]string       `json:"enumConsts"`
	Api                    apiOut            `json:"api"`
	Shape                  shapeOut          `json:"validatorShape"`
	Note                   string            `json:"note,omitempty"`
}

type acceptPkg struct {
	fset    *token.FileSet
	structs map[string]*ast.StructType
	ifaces  map[string]*ast.InterfaceType
	methods map[string]map[string]*ast.FuncDecl
	nodeIf  map[string]int // 0 unknown, 1 in progress, 2 yes, 3 no
	// `type X int`
	namedInts map[string]bool
	// constants of the named integer types, in source order: name, value (iota blocks and explicit literals)
	enumConsts [][2]string
	enumTypes  []string // type of enumConsts[i]
	files      []*ast.File
}

func parseDirNoTests(fset *token.FileSet, dir string) ([]*ast.File, error) {
	ents, err := os.ReadDir(dir)
	if err != nil {
		return nil, err
	}
	var files []*ast.File
	for _, e := range ents {
		n := e.Name()
		if e.IsDir() || !strings.HasSuffix(n, ".go") || strings.HasSuffix(n, "_test.go") {
			continue
		}
		f, err := parser.ParseFile(fset, filepath.Join(dir, n), nil, 0)
		if err != nil {
			return nil, err
		}
		files = append(files, f)
	}
	return files, nil
}

func recvTypeName(fd *ast.FuncDecl) string {
	if fd.Recv == nil || len(fd.Recv.List) != 1 {
		return ""
	}
	t := fd.Recv.List[0].Type
	if s, ok := t.(*ast.StarExpr); ok {
		t = s.X
	}
	if ix, ok := t.(*ast.IndexExpr); ok {
		t = ix.X
	}
	if id, ok := t.(*ast.Ident); ok {
		return id.Name
	}
	return ""
}

func recvVarName(fd *ast.FuncDecl) string {
	if fd.Recv == nil || len(fd.Recv.List) != 1 || len(fd.Recv.List[0].Names) != 1 {
		return ""
	}
	return fd.Recv.List[0].Names[0].Name
}

func loadAcceptPkg(dir string) (*acceptPkg, error) {
	p := &acceptPkg{fset: token.NewFileSet(), structs: map[string]*ast.StructType{}, ifaces: map[string]*ast.InterfaceType{},
		methods: map[string]map[string]*ast.FuncDecl{}, nodeIf: map[string]int{}, namedInts: map[string]bool{}}
	files, err := parseDirNoTests(p.fset, dir)
	if err != nil {
		return nil, err
	}
	p.files = files
	for _, f := range files {
		for _, d := range f.Decls {
			switch d := d.(type) {
			case *ast.GenDecl:
				if d.Tok == token.CONST {
					p.constBlock(d)
				}
				if d.Tok != token.TYPE {
					continue
				}
				for _, sp := range d.Specs {
					ts := sp.(*ast.TypeSpec)
					switch t := ts.Type.(type) {
					case *ast.StructType:
						p.structs[ts.Name.Name] = t
					case *ast.InterfaceType:
						p.ifaces[ts.Name.Name] = t
					case *ast.Ident:
						if t.Name == "int" || t.Name == "int32" || t.Name == "int64" || t.Name == "uint8" {
							p.namedInts[ts.Name.Name] = true
						}
					}
				}
			case *ast.FuncDecl:
				if rt := recvTypeName(d); rt != "" {
					if p.methods[rt] == nil {
						p.methods[rt] = map[string]*ast.FuncDecl{}
					}
					p.methods[rt][d.Name.Name] = d
				}
			}
		}
	}
	return p, nil
}

// constants of a typed const block: `X T = iota` followed by implicit repetitions, or `X T = <int literal>`
func (p *acceptPkg) constBlock(d *ast.GenDecl) {
	curType, iotaBased := "", false
	for i, sp := range d.Specs {
		vs, ok := sp.(*ast.ValueSpec)
		if !ok {
			continue
		}
		if vs.Type != nil || len(vs.Values) > 0 {
			curType, iotaBased = "", false
			if id, ok := vs.Type.(*ast.Ident); ok && len(vs.Values) == 1 && len(vs.Names) == 1 {
				if isIdent(vs.Values[0], "iota") {
					curType, iotaBased = id.Name, true
				} else if bl, ok := vs.Values[0].(*ast.BasicLit); ok && bl.Kind == token.INT {
					p.enumConsts = append(p.enumConsts, [2]string{vs.Names[0].Name, bl.Value})
					p.enumTypes = append(p.enumTypes, id.Name)
					continue
				}
			}
		}
		if iotaBased && len(vs.Names) == 1 {
			p.enumConsts = append(p.enumConsts, [2]string{vs.Names[0].Name, fmt.Sprint(i)})
			p.enumTypes = append(p.enumTypes, curType)
		}
	}
}

// isNodeIface: the interface's method set contains Accept (directly or through embedding)
func (p *acceptPkg) isNodeIface(name string) bool {
	switch p.nodeIf[name] {
	case 1, 3:
		return false
	case 2:
		return true
	}
	it, ok := p.ifaces[name]
	if !ok {
		return false
	}
	p.nodeIf[name] = 1
	res := false
	for _, m := range it.Methods.List {
		if len(m.Names) > 0 {
			for _, n := range m.Names {
				if n.Name == "Accept" {
					res = true
				}
			}
		} else if id, ok := m.Type.(*ast.Ident); ok && p.isNodeIface(id.Name) {
			res = true
		}
	}
	if res {
		p.nodeIf[name] = 2
	} else {
		p.nodeIf[name] = 3
	}
	return res
}

func (p *acceptPkg) hasAccept(name string) bool {
	_, ok := p.methods[name]["Accept"]
	return ok
}

// isKind: a struct with its own Accept method, or one that gets a promoted Accept from an embedded kind
func (p *acceptPkg) isKind(name string) bool {
	st, ok := p.structs[name]
	if !ok {
		return false
	}
	if p.hasAccept(name) {
		return true
	}
	return p.promotedFrom(st, map[string]bool{name: true}) != ""
}

func (p *acceptPkg) promotedFrom(st *ast.StructType, seen map[string]bool) string {
	for _, f := range st.Fields.List {
		if len(f.Names) != 0 {
			continue
		}
		t := f.Type
		if s, ok := t.(*ast.StarExpr); ok {
			t = s.X
		}
		id, ok := t.(*ast.Ident)
		if !ok || seen[id.Name] {
			continue
		}
		seen[id.Name] = true
		if inner, ok := p.structs[id.Name]; ok {
			if p.hasAccept(id.Name) {
				return id.Name
			}
			if r := p.promotedFrom(inner, seen); r != "" {
				return r
			}
		}
	}
	return ""
}

// classify a field type: returns (child, isString, isOpaque)
func (p *acceptPkg) classify(t ast.Expr) (c *acceptChild, isStr bool, opaque bool) {
	switch t := t.(type) {
	case *ast.Ident:
		switch {
		case t.Name == "string":
			return nil, true, false
		case t.Name == "any":
			return nil, false, true
		case p.isNodeIface(t.Name):
			return &acceptChild{Static: "iface"}, false, false
		case p.isKind(t.Name):
			return &acceptChild{Static: "val", Kind: t.Name}, false, false
		}
		if _, ok := p.ifaces[t.Name]; ok {
			return nil, false, true
		}
		if st, ok := p.structs[t.Name]; ok && p.structHidesNodes(st, map[string]bool{t.Name: true}) {
			return nil, false, true
		}
		return nil, false, false
	case *ast.StarExpr:
		if id, ok := t.X.(*ast.Ident); ok {
			if p.isKind(id.Name) {
				return &acceptChild{Static: "ptr", Kind: id.Name}, false, false
			}
			if st, ok := p.structs[id.Name]; ok && p.structHidesNodes(st, map[string]bool{id.Name: true}) {
				return nil, false, true
			}
			return nil, false, false
		}
		c, _, o := p.classify(t.X)
		return nil, false, o || c != nil
	case *ast.ArrayType:
		c, _, o := p.classify(t.Elt)
		if c != nil {
			if c.Many { // slice of slices: not representable as one slot
				return nil, false, true
			}
			c.Many = true
			return c, false, false
		}
		return nil, false, o
	case *ast.MapType:
		c, _, o := p.classify(t.Value)
		c2, _, o2 := p.classify(t.Key)
		return nil, false, o || o2 || c != nil || c2 != nil
	case *ast.InterfaceType:
		return nil, false, true
	case *ast.FuncType:
		return nil, false, !funcTypeIsPlain(t)
	case *ast.ChanType:
		c, _, o := p.classify(t.Value)
		return nil, false, o || c != nil
	}
	return nil, false, false
}

// a non-kind struct used as a field type that itself contains node-valued or opaque fields
func (p *acceptPkg) structHidesNodes(st *ast.StructType, seen map[string]bool) bool {
	for _, f := range st.Fields.List {
		t := f.Type
		if s, ok := t.(*ast.StarExpr); ok {
			t = s.X
		}
		if id, ok := t.(*ast.Ident); ok {
			if seen[id.Name] {
				continue
			}
			seen[id.Name] = true
		}
		c, _, o := p.classify(f.Type)
		if c != nil || o {
			return true
		}
	}
	return false
}

// fields of a struct with embedded value structs flattened (Go promotes their fields)
func (p *acceptPkg) fieldsOf(name string, seen map[string]bool, k *acceptKind) {
	st := p.structs[name]
	if st == nil || seen[name] {
		return
	}
	seen[name] = true
	for _, f := range st.Fields.List {
		if len(f.Names) == 0 {
			// embedded
			if id, ok := f.Type.(*ast.Ident); ok {
				if _, isStruct := p.structs[id.Name]; isStruct {
					p.fieldsOf(id.Name, seen, k)
					continue
				}
				c, s, o := p.classify(f.Type)
				p.addField(k, id.Name, c, s, o)
				continue
			}
			if se, ok := f.Type.(*ast.StarExpr); ok {
				if id, ok := se.X.(*ast.Ident); ok {
					c, s, o := p.classify(f.Type)
					p.addField(k, id.Name, c, s, o)
				}
			}
			continue
		}
		for _, n := range f.Names {
			c, s, o := p.classify(f.Type)
			var cc *acceptChild
			if c != nil {
				cp := *c
				cc = &cp
			}
			p.addField(k, n.Name, cc, s, o)
		}
	}
}

func (p *acceptPkg) addField(k *acceptKind, name string, c *acceptChild, isStr, opaque bool) {
	switch {
	case c != nil:
		c.Field = name
		k.Children = append(k.Children, *c)
	case isStr:
		k.StrFields = append(k.StrFields, name)
	case opaque:
		k.Opaque = append(k.Opaque, name)
	}
}

func isIdent(e ast.Expr, name string) bool {
	id, ok := e.(*ast.Ident)
	return ok && name != "" && name != "_" && id.Name == name
}

// recv.f  -> f
func recvField(e ast.Expr, recv string) (string, bool) {
	se, ok := e.(*ast.SelectorExpr)
	if !ok || !isIdent(se.X, recv) {
		return "", false
	}
	return se.Sel.Name, true
}

func isNil(e ast.Expr) bool {
	id, ok := e.(*ast.Ident)
	return ok && id.Name == "nil"
}

func stmtKind(s ast.Stmt) string {
	return strings.TrimPrefix(fmt.Sprintf("%T", s), "*ast.")
}

func analyseAcceptStmts(stmts []ast.Stmt, recv, vis string) []acceptStep {
	var steps []acceptStep
	unknown := func(what string) { steps = append(steps, acceptStep{Op: "unknown", Arg: what}) }
	for _, s := range stmts {
		switch s := s.(type) {
		case *ast.ExprStmt:
			call, ok := s.X.(*ast.CallExpr)
			if !ok {
				unknown("expression statement")
				continue
			}
			sel, ok := call.Fun.(*ast.SelectorExpr)
			if !ok {
				unknown("call")
				continue
			}
			switch {
			case isIdent(sel.X, vis) && sel.Sel.Name == "VisitSymbol":
				if len(call.Args) >= 1 {
					if f, ok := recvField(call.Args[0], recv); ok {
						steps = append(steps, acceptStep{Op: "announce", Arg: f})
						continue
					}
				}
				unknown("VisitSymbol with an argument that is not a field of the receiver")
			case isIdent(sel.X, vis):
				steps = append(steps, acceptStep{Op: "hook", Arg: sel.Sel.Name})
			case sel.Sel.Name == "Accept" && len(call.Args) == 1 && isIdent(call.Args[0], vis):
				if f, ok := recvField(sel.X, recv); ok {
					steps = append(steps, acceptStep{Op: "forward", Arg: f})
				} else {
					unknown("Accept on something that is not a field of the receiver")
				}
			default:
				unknown("call " + sel.Sel.Name)
			}
		case *ast.RangeStmt:
			f, ok := recvField(s.X, recv)
			val, okv := s.Value.(*ast.Ident)
			if ok && okv && s.Body != nil && len(s.Body.List) == 1 {
				if es, ok := s.Body.List[0].(*ast.ExprStmt); ok {
					if call, ok := es.X.(*ast.CallExpr); ok && len(call.Args) == 1 && isIdent(call.Args[0], vis) {
						if sel, ok := call.Fun.(*ast.SelectorExpr); ok && sel.Sel.Name == "Accept" && isIdent(sel.X, val.Name) {
							steps = append(steps, acceptStep{Op: "forward", Arg: f})
							continue
						}
					}
				}
			}
			unknown("range loop")
		case *ast.IfStmt:
			be, ok := s.Cond.(*ast.BinaryExpr)
			if ok && s.Init == nil && s.Else == nil && be.Op == token.NEQ && isNil(be.Y) {
				if f, ok := recvField(be.X, recv); ok {
					for _, in := range analyseAcceptStmts(s.Body.List, recv, vis) {
						switch {
						case in.Op == "forward" && in.Arg == f:
							in.Guarded = true
							steps = append(steps, in)
						case in.Op == "hook":
							unknown("conditional callback " + in.Arg)
						case in.Op == "unknown":
							steps = append(steps, in)
						default:
							unknown("conditional " + in.Op + " " + in.Arg)
						}
					}
					continue
				}
			}
			unknown("if statement")
		default:
			unknown(stmtKind(s))
		}
	}
	return steps
}

func (p *acceptPkg) analyseKind(name string) acceptKind {
	k := acceptKind{Name: name, Children: []acceptChild{}, StrFields: []string{}, SymFields: []string{}, Opaque: []string{},
		Steps: []acceptStep{}, Exported: ast.IsExported(name)}
	p.fieldsOf(name, map[string]bool{}, &k)
	fd := p.methods[name]["Accept"]
	if fd == nil {
		from := p.promotedFrom(p.structs[name], map[string]bool{name: true})
		k.Steps = append(k.Steps, acceptStep{Op: "unknown", Arg: "Accept promoted from embedded " + from})
	} else {
		recv := recvVarName(fd)
		vis := ""
		if fd.Type.Params != nil && len(fd.Type.Params.List) == 1 && len(fd.Type.Params.List[0].Names) == 1 {
			vis = fd.Type.Params.List[0].Names[0].Name
			if id, ok := fd.Type.Params.List[0].Type.(*ast.Ident); !ok || id.Name != "Visitor" {
				k.Steps = append(k.Steps, acceptStep{Op: "unknown", Arg: "Accept parameter is not a Visitor"})
			}
		} else if fd.Type.Params != nil && len(fd.Type.Params.List) != 1 {
			k.Steps = append(k.Steps, acceptStep{Op: "unknown", Arg: "Accept signature"})
		}
		body := fd.Body.List
		if len(body) == 1 {
			if is, ok := body[0].(*ast.IfStmt); ok && is.Init == nil && is.Else == nil {
				if be, ok := is.Cond.(*ast.BinaryExpr); ok && be.Op == token.NEQ && isIdent(be.X, recv) && isNil(be.Y) {
					k.NilSafe = true
					body = is.Body.List
				}
			}
		}
		k.Steps = append(k.Steps, analyseAcceptStmts(body, recv, vis)...)
	}
	// symbol-holding string fields
	isStrField := func(f string) bool {
		for _, s := range k.StrFields {
			if s == f {
				return true
			}
		}
		return false
	}
	sym := map[string]bool{}
	if sd := p.methods[name]["Symbol"]; sd != nil && sd.Body != nil && len(sd.Body.List) == 1 {
		if rs, ok := sd.Body.List[0].(*ast.ReturnStmt); ok && len(rs.Results) == 1 {
			if f, ok := recvField(rs.Results[0], recvVarName(sd)); ok && isStrField(f) {
				sym[f] = true
			}
		}
	}
	for _, s := range k.Steps {
		if s.Op == "announce" {
			sym[s.Arg] = true
		}
	}
	for _, f := range k.StrFields {
		if sym[f] {
			k.SymFields = append(k.SymFields, f)
		}
	}
	var extra []string
	for f := range sym { // announced but not a string field of the struct: keep it visible
		if !isStrField(f) {
			extra = append(extra, f)
		}
	}
	sort.Strings(extra)
	k.SymFields = append(k.SymFields, extra...)
	p.typeFacts(&k)
	return k
}

func funcSource(fset *token.FileSet, fd *ast.FuncDecl) string {
	var b bytes.Buffer
	_ = printer.Fprint(&b, fset, fd)
	return b.String()
}

func leanStr(s string) string {
	return "\"" + strings.NewReplacer("\\", "\\\\", "\"", "\\\"", "\n", "\\n").Replace(s) + "\""
}

func leanStrList(xs []string) string {
	parts := make([]string, len(xs))
	for i, x := range xs {
		parts[i] = leanStr(x)
	}
	return "[" + strings.Join(parts, ", ") + "]"
}

func extractAccept(repo, gen, facts string) {
	res := acceptFacts{Kinds: []acceptKind{}, NodeInterfaces: []string{}, ValidatorOverrides: []string{},
		DefaultVisitorNonEmpty: []string{}, SourceHashes: map[string]string{}, EnumConsts: [][2]string{}}
	res.Shape = shapeOut{IsPublic: "(.unknown \"extractor failure\")", VisitSymbol: "[.other \"extractor failure\"]",
		Walk: "[.other \"extractor failure\"]", Getters: [][2]string{}, Fields: []string{}}
	func() {
		defer func() {
			if r := recover(); r != nil {
				res.Note = fmt.Sprintf("extractor failure: %v", r)
				res.Kinds = append(res.Kinds, acceptKind{Name: "extractor-failure", Children: []acceptChild{}, StrFields: []string{},
					SymFields: []string{}, Opaque: []string{}, Steps: []acceptStep{{Op: "unknown", Arg: res.Note}},
					EnumFields: []string{}, Ifaces: []string{}})
			}
		}()
		p, err := loadAcceptPkg(filepath.Join(repo, "ast"))
		if err != nil {
			panic(err)
		}
		res.Shape = extractValidatorShape(repo, p)
		var names []string
		for n := range p.structs {
			if p.isKind(n) {
				names = append(names, n)
			}
		}
		sort.Strings(names)
		for _, n := range names {
			res.Kinds = append(res.Kinds, p.analyseKind(n))
		}
		res.EnumConsts = p.usedEnumConsts(res.Kinds)
		res.Api = apiOut{SymbolVia: map[string]string{}, QueryApi: p.queryApi(), AliasSites: p.aliasSites(p.files)}
		for _, k := range res.Kinds {
			if v := p.symbolVia(k.Name); v != "" {
				res.Api.SymbolVia[k.Name] = v
			}
		}
		for n := range p.ifaces {
			if p.isNodeIface(n) {
				res.NodeInterfaces = append(res.NodeInterfaces, n)
			}
		}
		sort.Strings(res.NodeInterfaces)
		// DefaultVisitor: every method must have an empty body
		for n, fd := range p.methods["DefaultVisitor"] {
			if fd.Body != nil && len(fd.Body.List) != 0 {
				res.DefaultVisitorNonEmpty = append(res.DefaultVisitorNonEmpty, n)
			}
		}
		sort.Strings(res.DefaultVisitorNonEmpty)
		// boltz/validate.go: the validator
		fset := token.NewFileSet()
		hashFunc := func(key string, fd *ast.FuncDecl) {
			res.SourceHashes[key] = fmt.Sprintf("%x", sha256.Sum256([]byte(funcSource(fset, fd))))[:16]
		}
		if vf, err := parser.ParseFile(fset, filepath.Join(repo, "boltz", "validate.go"), nil, 0); err == nil {
			for _, d := range vf.Decls {
				switch d := d.(type) {
				case *ast.FuncDecl:
					if recvTypeName(d) == "publicSymbolValidator" {
						res.ValidatorOverrides = append(res.ValidatorOverrides, d.Name.Name)
						hashFunc("publicSymbolValidator."+d.Name.Name, d)
					} else if d.Recv == nil && d.Name.Name == "ValidateSymbolsArePublic" {
						hashFunc("ValidateSymbolsArePublic", d)
					}
				case *ast.GenDecl:
					for _, sp := range d.Specs {
						ts, ok := sp.(*ast.TypeSpec)
						if !ok || ts.Name.Name != "publicSymbolValidator" {
							continue
						}
						if st, ok := ts.Type.(*ast.StructType); ok {
							for _, f := range st.Fields.List {
								if se, ok := f.Type.(*ast.SelectorExpr); ok && len(f.Names) == 0 && isIdent(se.X, "ast") && se.Sel.Name == "DefaultVisitor" {
									res.ValidatorEmbedsDefault = true
								}
							}
						}
					}
				}
			}
		} else {
			res.Note = "boltz/validate.go: " + err.Error()
		}
		sort.Strings(res.ValidatorOverrides)
		if sf, err := parser.ParseFile(fset, filepath.Join(repo, "boltz", "store_query.go"), nil, 0); err == nil {
			for _, d := range sf.Decls {
				if fd, ok := d.(*ast.FuncDecl); ok && (fd.Name.Name == "IsPublicSymbol" || fd.Name.Name == "MakeSymbolPublic") {
					hashFunc("BaseStore."+fd.Name.Name, fd)
				}
			}
		}
	}()

	js, _ := json.MarshalIndent(res, "", " ")
	writeIfChanged(filepath.Join(facts, "accept.json"), string(js)+"\n")

	var b strings.Builder
	b.WriteString("import StorageModel.C20.Table\n")
	b.WriteString("/- GENERATED by /verif/extract (accept.go) from ast/*.go, boltz/validate.go — do not edit. -/\n")
	b.WriteString("namespace StorageModel.Generated\nopen StorageModel.C20\n\n")
	b.WriteString("def acceptTable : Table := [\n")
	for i, k := range res.Kinds {
		fmt.Fprintf(&b, "  { name := %s, nilSafe := %v,\n    children := [", leanStr(k.Name), k.NilSafe)
		for j, c := range k.Children {
			if j > 0 {
				b.WriteString(", ")
			}
			st := ".iface"
			if c.Static != "iface" {
				st = fmt.Sprintf("(.%s %s)", c.Static, leanStr(c.Kind))
			}
			fmt.Fprintf(&b, "⟨%s, %v, %s⟩", leanStr(c.Field), c.Many, st)
		}
		fmt.Fprintf(&b, "],\n    strFields := %s, symFields := %s, opaqueFields := %s,\n", leanStrList(k.StrFields),
			leanStrList(k.SymFields), leanStrList(k.Opaque))
		fmt.Fprintf(&b, "    enumFields := %s, ifaces := %s, getType := %s, valueRecv := %v,\n    steps := [", leanStrList(k.EnumFields),
			leanStrList(k.Ifaces), leanStr(k.GetType), k.ValueRecv)
		for j, s := range k.Steps {
			if j > 0 {
				b.WriteString(", ")
			}
			switch s.Op {
			case "forward":
				fmt.Fprintf(&b, ".forward %s %v", leanStr(s.Arg), s.Guarded)
			default:
				fmt.Fprintf(&b, ".%s %s", s.Op, leanStr(s.Arg))
			}
		}
		b.WriteString("] }")
		if i+1 < len(res.Kinds) {
			b.WriteString(",")
		}
		b.WriteString("\n")
	}
	b.WriteString("]\n\n")
	fmt.Fprintf(&b, "/-- methods of boltz.publicSymbolValidator (everything else comes from the embedded DefaultVisitor) -/\n")
	fmt.Fprintf(&b, "def validatorOverrides : List String := %s\n", leanStrList(res.ValidatorOverrides))
	fmt.Fprintf(&b, "def validatorEmbedsDefault : Bool := %v\n", res.ValidatorEmbedsDefault)
	fmt.Fprintf(&b, "/-- DefaultVisitor methods whose body is not empty -/\n")
	fmt.Fprintf(&b, "def defaultVisitorNonEmpty : List String := %s\n", leanStrList(res.DefaultVisitorNonEmpty))
	b.WriteString("\n/-- constants of the enumeration types that occur as fields of node kinds (BinaryOp, SetFunction, boolBinaryOp) -/\n")
	b.WriteString("def enumConsts : List (String × Nat) := [")
	for i, c := range res.EnumConsts {
		if i > 0 {
			b.WriteString(", ")
		}
		fmt.Fprintf(&b, "(%s, %s)", leanStr(c[0]), c[1])
	}
	b.WriteString("]\n\n")
	b.WriteString(res.Shape.lean())
	b.WriteString("\n")
	b.WriteString(res.Api.lean(res.Kinds))
	b.WriteString("\nend StorageModel.Generated\n")
	writeIfChanged(filepath.Join(gen, "AcceptTable.lean"), b.String())
}
