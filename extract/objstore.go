package main

// objstore extractor (C19): what does an objectz.ObjectStore object (and package objectz) keep BETWEEN calls?
//
//	fields           the fields of `struct ObjectStore`
//	pkgVars          the package-level variables of objectz
//	writes           every place outside NewObjectStore / Add…Symbol (the set-up of a store) where a function of the package
//	                 assigns to / increments a store field or a package variable (also below it: `self.cache.m[k] = v`),
//	                 calls a method on one (`self.cache.Store(k, v)`), or hands one to delete / clear / copy
//	entryRecognised  QueryEntities = "parse; on error return; return QueryEntitiesC(query)",
//	                 QueryEntitiesC = "a fresh memSortingScanner; return s.Scan(self, query)"
//
// Writes facts/objstore.json and Generated/ObjectzStore.lean.  The history model of Query/ObjectzHistory.lean carries no
// state of the store object from one call to the next; `objectz_store_facts_expected` compares these facts with that.

import (
	"encoding/json"
	"fmt"
	"go/ast"
	"go/parser"
	"go/token"
	"os"
	"path/filepath"
	"sort"
	"strings"
)

type objStoreFacts struct {
	Fields          []string `json:"fields"`
	PkgVars         []string `json:"pkgVars"`
	Writes          []string `json:"writes"`
	QueryEntities   []string `json:"queryEntities"`
	QueryEntitiesC  []string `json:"queryEntitiesC"`
	EntryRecognised bool     `json:"entryRecognised"`
	Note            string   `json:"note,omitempty"`
}

var objstQueryEntities = []string{
	"query, err := ast.Parse(self, queryString)",
	"if err != nil { return nil, 0, err }",
	"return self.QueryEntitiesC(query)",
}

var objstQueryEntitiesC = []string{
	"s := &memSortingScanner[T]{}",
	"return s.Scan(self, query)",
}

// objstTouches: does the expression reach through a store field (a selector named like one) or start at a package
// variable?  Returns a rendering of the place, "" if not.
func objstTouches(e ast.Expr, fields, vars map[string]bool) string {
	for {
		switch x := e.(type) {
		case *ast.ParenExpr:
			e = x.X
		case *ast.StarExpr:
			e = x.X
		case *ast.IndexExpr:
			e = x.X
		case *ast.IndexListExpr:
			e = x.X
		case *ast.SliceExpr:
			e = x.X
		case *ast.UnaryExpr:
			e = x.X
		case *ast.TypeAssertExpr:
			e = x.X
		case *ast.SelectorExpr:
			if fields[x.Sel.Name] {
				return "." + x.Sel.Name
			}
			e = x.X
		case *ast.Ident:
			if vars[x.Name] {
				return x.Name
			}
			return ""
		default:
			return ""
		}
	}
}

func analyseObjStore(dir string) (res objStoreFacts) {
	res.Fields, res.PkgVars, res.Writes = []string{}, []string{}, []string{}
	defer func() {
		if r := recover(); r != nil {
			res.EntryRecognised = false
			res.Note = fmt.Sprint("extractor panic: ", r)
		}
	}()
	entries, err := os.ReadDir(dir)
	if err != nil {
		res.Note = err.Error()
		return
	}
	fset := token.NewFileSet()
	var files []*ast.File
	for _, e := range entries {
		if e.IsDir() || !strings.HasSuffix(e.Name(), ".go") || strings.HasSuffix(e.Name(), "_test.go") {
			continue
		}
		f, err := parser.ParseFile(fset, filepath.Join(dir, e.Name()), nil, 0)
		if err != nil {
			res.Note = "parse error: " + err.Error()
			return
		}
		files = append(files, f)
	}
	fields, vars := map[string]bool{}, map[string]bool{}
	for _, f := range files {
		for _, d := range f.Decls {
			gd, ok := d.(*ast.GenDecl)
			if !ok {
				continue
			}
			for _, sp := range gd.Specs {
				switch s := sp.(type) {
				case *ast.ValueSpec:
					if gd.Tok == token.VAR {
						for _, n := range s.Names {
							if n.Name != "_" {
								vars[n.Name] = true
								res.PkgVars = append(res.PkgVars, n.Name)
							}
						}
					}
				case *ast.TypeSpec:
					st, ok := s.Type.(*ast.StructType)
					if !ok || s.Name.Name != "ObjectStore" {
						continue
					}
					for _, fl := range st.Fields.List {
						if len(fl.Names) == 0 { // embedded
							name := pagingNodeText(fset, fl.Type)
							fields[name] = true
							res.Fields = append(res.Fields, "embedded "+name)
						}
						for _, n := range fl.Names {
							fields[n.Name] = true
							res.Fields = append(res.Fields, n.Name)
						}
					}
				}
			}
		}
	}
	sort.Strings(res.PkgVars)
	seen := map[string]bool{}
	note := func(fn, what string) {
		w := fn + ": " + what
		if !seen[w] {
			seen[w] = true
			res.Writes = append(res.Writes, w)
		}
	}
	foundQE, foundQEC := false, false
	for _, f := range files {
		for _, d := range f.Decls {
			fd, ok := d.(*ast.FuncDecl)
			if !ok || fd.Body == nil {
				continue
			}
			recv := pagingRecvTypeName(fd)
			name := fd.Name.Name
			if recv != "" {
				name = recv + "." + name
			}
			if recv == "ObjectStore" && fd.Name.Name == "QueryEntities" {
				foundQE = true
				res.QueryEntities = pagingStmtTexts(fset, fd.Body.List)
			}
			if recv == "ObjectStore" && fd.Name.Name == "QueryEntitiesC" {
				foundQEC = true
				res.QueryEntitiesC = pagingStmtTexts(fset, fd.Body.List)
			}
			// the set-up of a store
			if fd.Name.Name == "NewObjectStore" || (recv == "ObjectStore" && strings.HasPrefix(fd.Name.Name, "Add") && strings.HasSuffix(fd.Name.Name, "Symbol")) {
				continue
			}
			ast.Inspect(fd.Body, func(n ast.Node) bool {
				switch x := n.(type) {
				case *ast.AssignStmt:
					if x.Tok == token.DEFINE {
						return true
					}
					for _, l := range x.Lhs {
						if w := objstTouches(l, fields, vars); w != "" {
							note(name, "assigns "+w)
						}
					}
				case *ast.IncDecStmt:
					if w := objstTouches(x.X, fields, vars); w != "" {
						note(name, "assigns "+w)
					}
				case *ast.CallExpr:
					switch fun := x.Fun.(type) {
					case *ast.SelectorExpr:
						if w := objstTouches(fun.X, fields, vars); w != "" {
							note(name, "calls "+w+"."+fun.Sel.Name)
						}
					case *ast.Ident:
						if (fun.Name == "delete" || fun.Name == "clear" || fun.Name == "copy") && len(x.Args) > 0 {
							if w := objstTouches(x.Args[0], fields, vars); w != "" {
								note(name, fun.Name+" "+w)
							}
						}
					}
				case *ast.UnaryExpr:
					if x.Op == token.AND {
						if w := objstTouches(x.X, fields, vars); w != "" {
							note(name, "takes the address of "+w)
						}
					}
				}
				return true
			})
		}
	}
	sort.Strings(res.Writes)
	res.EntryRecognised = foundQE && foundQEC && pagingSameStrings(res.QueryEntities, objstQueryEntities) &&
		pagingSameStrings(res.QueryEntitiesC, objstQueryEntitiesC)
	return
}

func objstLeanList(xs []string) string {
	var q []string
	for _, x := range xs {
		q = append(q, "\""+strings.NewReplacer("\\", "\\\\", "\"", "\\\"").Replace(x)+"\"")
	}
	return "[" + strings.Join(q, ", ") + "]"
}

func extractObjStore(repo, gen, facts string) {
	f := analyseObjStore(filepath.Join(repo, "objectz"))
	js, _ := json.MarshalIndent(f, "", " ")
	writeIfChanged(filepath.Join(facts, "objstore.json"), string(js)+"\n")
	var b strings.Builder
	b.WriteString("import StorageModel.Query.ObjStoreFacts\n")
	b.WriteString("/- GENERATED by /verif/extract (objstore.go) from objectz/*.go — do not edit -/\n")
	b.WriteString("namespace StorageModel.Generated\nopen StorageModel.Query\n\n")
	b.WriteString(fmt.Sprintf("def objectzStore : ObjStoreFacts := ⟨%s, %s, %s, %v⟩\n", objstLeanList(f.Fields), objstLeanList(f.PkgVars),
		objstLeanList(f.Writes), f.EntryRecognised))
	b.WriteString("\nend StorageModel.Generated\n")
	writeIfChanged(filepath.Join(gen, "ObjectzStore.lean"), b.String())
}
