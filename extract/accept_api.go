package main

// accept_api.go (property C20): the routes OTHER than Accept by which a node (and with it a
// symbol) gets into or out of a query —
//
//	symbolVia    how a kind's Symbol() method computes its result: `return recv.f` (string field)
//	             or `return recv.c.Symbol()` (delegated to child c)
//	queryApi     every method of queryNode that belongs to the exported interface ast.Query,
//	             classified: get (returns recv.F, or recv.F.m() with m returning the elements of a
//	             slice field G: path [F, G]) / set (recv.F = param) / adopt (recv.F = other.F with
//	             other := param.(*queryNode)) / build (recv.F = &K{…} without node arguments) /
//	             scalar (reads recv.F.<non-node>) / eval (delegates EvalBool etc. to a child) / unknown
//	aliasSites   every composite literal of a kind that sets an alias field (a non-node interface
//	             field holding the same node as a child field, AnyOfSetExprNode.seekablePredicate):
//	             ok iff the literal also sets the aliased child field and the alias value is that
//	             child's value under a type assertion; every other write to an alias field is a site
//	             that is not ok
//	funcFields   struct fields of func type whose signature mentions anything but basic types
//	             (a closure there can capture a node: reported as opaque)

import (
	"fmt"
	"go/ast"
	"go/token"
	"sort"
	"strings"
)

type apiMethod struct {
	Method string   `json:"method"`
	Class  string   `json:"class"` // get | set | adopt | build | scalar | eval | unknown
	Path   []string `json:"path"`
	Note   string   `json:"note,omitempty"`
}

type aliasSite struct {
	Kind  string `json:"kind"`
	Field string `json:"field"`
	Func  string `json:"func"`
	Ok    bool   `json:"ok"`
	Note  string `json:"note,omitempty"`
}

type apiOut struct {
	SymbolVia  map[string]string `json:"symbolVia"` // kind -> "field:f" | "child:c" | "other:<src>"
	QueryApi   []apiMethod       `json:"queryApi"`
	AliasSites []aliasSite       `json:"aliasSites"`
}

func isBasicTypeExpr(e ast.Expr) bool {
	switch t := e.(type) {
	case *ast.Ident:
		switch t.Name {
		case "string", "bool", "int", "int8", "int16", "int32", "int64", "uint", "uint8", "uint16", "uint32", "uint64",
			"float32", "float64", "byte", "rune", "error":
			return true
		}
	case *ast.StarExpr:
		return isBasicTypeExpr(t.X)
	case *ast.ArrayType:
		return isBasicTypeExpr(t.Elt)
	}
	return false
}

// a func-typed field over basic types only cannot capture a node in a way that matters to a caller
// inspecting the struct (its closure still could, but then the literal that builds it is in this package
// and takes no node: see funcLiteralCaptures) — anything else is opaque
func funcTypeIsPlain(ft *ast.FuncType) bool {
	for _, fl := range []*ast.FieldList{ft.Params, ft.Results} {
		if fl == nil {
			continue
		}
		for _, f := range fl.List {
			if !isBasicTypeExpr(f.Type) {
				return false
			}
		}
	}
	return true
}

func (p *acceptPkg) symbolVia(kind string) string {
	ms := p.kindMethods(kind, map[string]bool{})
	fd := ms["Symbol"]
	if fd == nil || fd.Body == nil {
		return ""
	}
	recv := recvVarName(fd)
	if len(fd.Body.List) == 1 {
		if rs, ok := fd.Body.List[0].(*ast.ReturnStmt); ok && len(rs.Results) == 1 {
			if f, ok := recvField(rs.Results[0], recv); ok {
				return "field:" + f
			}
			if call, ok := rs.Results[0].(*ast.CallExpr); ok && len(call.Args) == 0 {
				if sel, ok := call.Fun.(*ast.SelectorExpr); ok && sel.Sel.Name == "Symbol" {
					if f, ok := recvField(sel.X, recv); ok {
						return "child:" + f
					}
				}
			}
		}
	}
	return "other:" + srcOf(p.fset, fd.Body)
}

// type of a struct field (flattened): the *ast.Expr as written
func (p *acceptPkg) fieldType(kind, field string, seen map[string]bool) ast.Expr {
	st := p.structs[kind]
	if st == nil || seen[kind] {
		return nil
	}
	seen[kind] = true
	for _, f := range st.Fields.List {
		if len(f.Names) == 0 {
			if id, ok := f.Type.(*ast.Ident); ok {
				if t := p.fieldType(id.Name, field, seen); t != nil {
					return t
				}
			}
			continue
		}
		for _, n := range f.Names {
			if n.Name == field {
				return f.Type
			}
		}
	}
	return nil
}

func ptrKindName(e ast.Expr) string {
	if s, ok := e.(*ast.StarExpr); ok {
		if id, ok := s.X.(*ast.Ident); ok {
			return id.Name
		}
	}
	return ""
}

// does method m of kind K return the elements of slice field G (possibly behind `if recv == nil { return nil }`)?
func (p *acceptPkg) elementsOf(kind, method string) (string, bool) {
	fd := p.methods[kind][method]
	if fd == nil || fd.Body == nil {
		return "", false
	}
	recv := recvVarName(fd)
	field := ""
	resultVar := ""
	for _, s := range fd.Body.List {
		switch s := s.(type) {
		case *ast.IfStmt: // if recv == nil { return nil }
			be, ok := s.Cond.(*ast.BinaryExpr)
			if ok && be.Op == token.EQL && isIdent(be.X, recv) && isNil(be.Y) && s.Else == nil && len(s.Body.List) == 1 {
				if rs, ok := s.Body.List[0].(*ast.ReturnStmt); ok && len(rs.Results) == 1 && isNil(rs.Results[0]) {
					continue
				}
			}
			return "", false
		case *ast.DeclStmt: // var result []T
			gd, ok := s.Decl.(*ast.GenDecl)
			if !ok || gd.Tok != token.VAR || len(gd.Specs) != 1 {
				return "", false
			}
			vs := gd.Specs[0].(*ast.ValueSpec)
			if len(vs.Names) != 1 || len(vs.Values) != 0 {
				return "", false
			}
			resultVar = vs.Names[0].Name
		case *ast.RangeStmt: // for _, x := range recv.G { result = append(result, x) }
			g, ok := recvField(s.X, recv)
			val, okv := s.Value.(*ast.Ident)
			if !ok || !okv || len(s.Body.List) != 1 {
				return "", false
			}
			as, ok := s.Body.List[0].(*ast.AssignStmt)
			if !ok || len(as.Lhs) != 1 || len(as.Rhs) != 1 || !isIdent(as.Lhs[0], resultVar) {
				return "", false
			}
			call, ok := as.Rhs[0].(*ast.CallExpr)
			if !ok || !isIdent(call.Fun, "append") || len(call.Args) != 2 || !isIdent(call.Args[0], resultVar) || !isIdent(call.Args[1], val.Name) {
				return "", false
			}
			field = g
		case *ast.ReturnStmt:
			if len(s.Results) != 1 || !isIdent(s.Results[0], resultVar) {
				return "", false
			}
		default:
			return "", false
		}
	}
	return field, field != ""
}

func (p *acceptPkg) queryApi() []apiMethod {
	var res []apiMethod
	want := p.ifaceMethods("Query", map[string]bool{})
	var names []string
	for m := range want {
		names = append(names, m)
	}
	sort.Strings(names)
	children := map[string]bool{}
	k := acceptKind{}
	p.fieldsOf("queryNode", map[string]bool{}, &k)
	for _, c := range k.Children {
		children[c.Field] = true
	}
	for _, m := range names {
		if m == "Accept" || m == "String" || m == "GetType" {
			continue
		}
		fd := p.methods["queryNode"][m]
		if fd == nil || fd.Body == nil {
			res = append(res, apiMethod{Method: m, Class: "unknown", Path: []string{}, Note: "no method body on queryNode"})
			continue
		}
		res = append(res, p.classifyApi(m, fd, children))
	}
	return res
}

func (p *acceptPkg) classifyApi(m string, fd *ast.FuncDecl, children map[string]bool) apiMethod {
	recv := recvVarName(fd)
	unknown := apiMethod{Method: m, Class: "unknown", Path: []string{}, Note: srcOf(p.fset, fd.Body)}
	body := fd.Body.List
	param := firstParamName(fd)
	// get: return recv.F  |  return recv.F.m()  |  eval: return recv.F.EvalX(args) / recv.F.IsConst()
	if len(body) == 1 {
		if rs, ok := body[0].(*ast.ReturnStmt); ok && len(rs.Results) == 1 {
			if f, ok := recvField(rs.Results[0], recv); ok && children[f] {
				return apiMethod{Method: m, Class: "get", Path: []string{f}}
			}
			if call, ok := rs.Results[0].(*ast.CallExpr); ok {
				if sel, ok := call.Fun.(*ast.SelectorExpr); ok {
					if f, ok := recvField(sel.X, recv); ok && children[f] {
						if len(call.Args) == 0 {
							if kn := ptrKindName(p.fieldType("queryNode", f, map[string]bool{})); kn != "" {
								if g, ok := p.elementsOf(kn, sel.Sel.Name); ok {
									return apiMethod{Method: m, Class: "get", Path: []string{f, g}}
								}
							}
						}
						if strings.HasPrefix(sel.Sel.Name, "Eval") || sel.Sel.Name == "IsConst" {
							return apiMethod{Method: m, Class: "eval", Path: []string{f}}
						}
					}
				}
			}
		}
		// set: recv.F = param   |  build: recv.F = &K{…literal without identifiers other than param of basic type}
		if as, ok := body[0].(*ast.AssignStmt); ok && as.Tok == token.ASSIGN && len(as.Lhs) == 1 && len(as.Rhs) == 1 {
			if f, ok := recvField(as.Lhs[0], recv); ok && children[f] {
				if isIdent(as.Rhs[0], param) {
					return apiMethod{Method: m, Class: "set", Path: []string{f}}
				}
				if u, ok := as.Rhs[0].(*ast.UnaryExpr); ok && u.Op == token.AND {
					if cl, ok := u.X.(*ast.CompositeLit); ok && paramIsBasic(fd) {
						if id, ok := cl.Type.(*ast.Ident); ok {
							return apiMethod{Method: m, Class: "build", Path: []string{f}, Note: id.Name}
						}
					}
				}
			}
		}
	}
	// scalar: if recv.F == nil { return nil }; return &recv.F.<x>
	if len(body) == 2 {
		if is, ok := body[0].(*ast.IfStmt); ok && is.Init == nil && is.Else == nil {
			if be, ok := is.Cond.(*ast.BinaryExpr); ok && be.Op == token.EQL && isNil(be.Y) {
				if f, ok := recvField(be.X, recv); ok && children[f] {
					if rs, ok := body[1].(*ast.ReturnStmt); ok && len(rs.Results) == 1 {
						if u, ok := rs.Results[0].(*ast.UnaryExpr); ok && u.Op == token.AND {
							if sel, ok := u.X.(*ast.SelectorExpr); ok {
								if f2, ok := recvField(sel.X, recv); ok && f2 == f {
									return apiMethod{Method: m, Class: "scalar", Path: []string{f}}
								}
							}
						}
					}
				}
			}
		}
	}
	// adopt: other, ok := param.(*queryNode); if !ok { return err }; recv.F = other.F; return nil
	if len(body) == 4 {
		as0, ok0 := body[0].(*ast.AssignStmt)
		_, ok1 := body[1].(*ast.IfStmt)
		as2, ok2 := body[2].(*ast.AssignStmt)
		rs, ok3 := body[3].(*ast.ReturnStmt)
		if ok0 && ok1 && ok2 && ok3 && as0.Tok == token.DEFINE && len(as0.Lhs) == 2 && len(as0.Rhs) == 1 && len(rs.Results) == 1 && isNil(rs.Results[0]) {
			if ta, ok := as0.Rhs[0].(*ast.TypeAssertExpr); ok && isIdent(ta.X, param) && ptrKindName(ta.Type) == "queryNode" {
				if other, ok := as0.Lhs[0].(*ast.Ident); ok && as2.Tok == token.ASSIGN && len(as2.Lhs) == 1 && len(as2.Rhs) == 1 {
					f, okf := recvField(as2.Lhs[0], recv)
					g, okg := recvField(as2.Rhs[0], other.Name)
					if okf && okg && f == g && children[f] {
						return apiMethod{Method: m, Class: "adopt", Path: []string{f}}
					}
				}
			}
		}
	}
	return unknown
}

func paramIsBasic(fd *ast.FuncDecl) bool {
	if fd.Type.Params == nil {
		return true
	}
	for _, f := range fd.Type.Params.List {
		if !isBasicTypeExpr(f.Type) {
			return false
		}
	}
	return true
}

// alias fields: opaque fields that the C20 specification lists as aliases (the table obligation allows exactly these)
var c20AliasFields = map[string]map[string]string{"AnyOfSetExprNode": {"seekablePredicate": "predicate"}}

func (p *acceptPkg) aliasSites(files []*ast.File) []aliasSite {
	var res []aliasSite
	aliasNames := map[string]bool{}
	for _, m := range c20AliasFields {
		for f := range m {
			aliasNames[f] = true
		}
	}
	for _, file := range files {
		for _, d := range file.Decls {
			fd, ok := d.(*ast.FuncDecl)
			if !ok || fd.Body == nil {
				continue
			}
			fname := fd.Name.Name
			if rt := recvTypeName(fd); rt != "" {
				fname = rt + "." + fname
			}
			// type assertions `a, ok := b.(T)` in this function: a -> b
			asserted := map[string]string{}
			ast.Inspect(fd.Body, func(n ast.Node) bool {
				if as, ok := n.(*ast.AssignStmt); ok && len(as.Lhs) >= 1 && len(as.Rhs) == 1 {
					if ta, ok := as.Rhs[0].(*ast.TypeAssertExpr); ok {
						if a, ok := as.Lhs[0].(*ast.Ident); ok {
							if b, ok := ta.X.(*ast.Ident); ok {
								asserted[a.Name] = b.Name
							}
						}
					}
				}
				return true
			})
			ast.Inspect(fd.Body, func(n ast.Node) bool {
				switch n := n.(type) {
				case *ast.CompositeLit:
					id, ok := n.Type.(*ast.Ident)
					if !ok || c20AliasFields[id.Name] == nil {
						return true
					}
					vals := map[string]ast.Expr{}
					for _, el := range n.Elts {
						if kv, ok := el.(*ast.KeyValueExpr); ok {
							if k, ok := kv.Key.(*ast.Ident); ok {
								vals[k.Name] = kv.Value
							}
						}
					}
					for alias, of := range c20AliasFields[id.Name] {
						av, set := vals[alias]
						if !set {
							continue
						}
						site := aliasSite{Kind: id.Name, Field: alias, Func: fname}
						ov, has := vals[of]
						a, aok := av.(*ast.Ident)
						o, ook := ov.(*ast.Ident)
						switch {
						case !has:
							site.Note = "literal sets " + alias + " without " + of
						case !aok || !ook:
							site.Note = "values are not plain identifiers"
						case asserted[a.Name] != o.Name && a.Name != o.Name:
							site.Note = fmt.Sprintf("%s is not %s under a type assertion", a.Name, o.Name)
						default:
							site.Ok = true
						}
						res = append(res, site)
					}
				case *ast.AssignStmt:
					for _, l := range n.Lhs {
						if sel, ok := l.(*ast.SelectorExpr); ok && aliasNames[sel.Sel.Name] {
							res = append(res, aliasSite{Kind: "?", Field: sel.Sel.Name, Func: fname, Note: "assignment outside a composite literal"})
						}
					}
				}
				return true
			})
		}
	}
	sort.Slice(res, func(i, j int) bool { return res[i].Func+res[i].Field < res[j].Func+res[j].Field })
	return res
}

func (o apiOut) lean(kinds []acceptKind) string {
	var b strings.Builder
	b.WriteString("/-- how each kind's `Symbol()` computes its result: a string field of the receiver, or the `Symbol()` of a child -/\n")
	b.WriteString("def symbolVia : List (String × SymVia) := [")
	first := true
	for _, k := range kinds {
		v := o.SymbolVia[k.Name]
		if v == "" {
			continue
		}
		if !first {
			b.WriteString(", ")
		}
		first = false
		switch {
		case strings.HasPrefix(v, "field:"):
			fmt.Fprintf(&b, "(%s, .field %s)", leanStr(k.Name), leanStr(v[6:]))
		case strings.HasPrefix(v, "child:"):
			fmt.Fprintf(&b, "(%s, .child %s)", leanStr(k.Name), leanStr(v[6:]))
		default:
			fmt.Fprintf(&b, "(%s, .other %s)", leanStr(k.Name), leanStr(v))
		}
	}
	b.WriteString("]\n\n")
	b.WriteString("/-- the methods of queryNode that make up the exported interface ast.Query (Accept, String, GetType excepted) -/\n")
	b.WriteString("def queryApi : List ApiMethod := [")
	for i, m := range o.QueryApi {
		if i > 0 {
			b.WriteString(", ")
		}
		switch m.Class {
		case "unknown":
			fmt.Fprintf(&b, ".unknown %s %s", leanStr(m.Method), leanStr(m.Note))
		case "build":
			fmt.Fprintf(&b, ".build %s %s %s", leanStr(m.Method), leanStr(m.Path[0]), leanStr(m.Note))
		case "get":
			fmt.Fprintf(&b, ".get %s %s", leanStr(m.Method), leanStrList(m.Path))
		default:
			fmt.Fprintf(&b, ".%s %s %s", m.Class, leanStr(m.Method), leanStr(m.Path[0]))
		}
	}
	b.WriteString("]\n\n")
	b.WriteString("/-- every place in package ast that writes an alias field (kind, field, function, the aliased child is set to the same node) -/\n")
	b.WriteString("def aliasSites : List (String × String × String × Bool) := [")
	for i, s := range o.AliasSites {
		if i > 0 {
			b.WriteString(", ")
		}
		fmt.Fprintf(&b, "(%s, %s, %s, %v)", leanStr(s.Kind), leanStr(s.Field), leanStr(s.Func), s.Ok)
	}
	b.WriteString("]\n")
	return b.String()
}
