package main

import (
	"fmt"
	"go/ast"
	"go/parser"
	"go/token"
	"go/types"
	"os"
	"path/filepath"
	"sort"
	"strings"
)

// dbInTxApis lists the exported DbImpl methods that a TRANSACTION BODY calls:
//
//   - by signature: the method takes the running transaction (a `*bbolt.Tx` or `MutateContext` parameter) —
//     SnapshotInTx, RootBucket, and Update / Batch (called with the context of the running transaction);
//   - by use: the repository itself (non-test code) calls the method lexically inside a function literal passed
//     to <x>.Update / View / Batch on a receiver named `…db` (or on the DbImpl receiver inside boltz/db.go) —
//     e.g. migrationManager.Migrate: m.db.SnapshotInTx(ctx.Tx(), m.db.GetDefaultSnapshotPath()) within m.db.Update.
//
// Such a method runs under the transaction's read hold on reloadLock; if it takes the read lock itself the
// acquisition is recursive and deadlocks with a restore waiting for the write lock.
// Syntactic: no type information; receivers are recognised by name.
func dbInTxApis(repo string, methods map[string]*ast.FuncDecl, notes *[]string) [][2]string {
	why := map[string]string{}
	for name, m := range methods {
		if !ast.IsExported(name) || m.Type.Params == nil {
			continue
		}
		for _, p := range m.Type.Params.List {
			ty := types.ExprString(p.Type)
			if ty == "*bbolt.Tx" || ty == "MutateContext" {
				why[name] = "takes " + ty
			}
		}
	}
	skip := map[string]bool{"Update": true, "View": true, "Batch": true, "Close": true, "Open": true}
	fset := token.NewFileSet()
	_ = filepath.Walk(repo, func(path string, info os.FileInfo, err error) error {
		if err != nil {
			return nil
		}
		if info.IsDir() {
			base := filepath.Base(path)
			if path != repo && (strings.HasPrefix(base, ".") || base == "vendor" || base == "testdata") {
				return filepath.SkipDir
			}
			return nil
		}
		if !strings.HasSuffix(path, ".go") || strings.HasSuffix(path, "_test.go") {
			return nil
		}
		file, err := parser.ParseFile(fset, path, nil, 0)
		if err != nil {
			return nil
		}
		rel, _ := filepath.Rel(repo, path)
		inDbGo := rel == filepath.Join("boltz", "db.go")
		ast.Inspect(file, func(n ast.Node) bool {
			call, ok := n.(*ast.CallExpr)
			if !ok || len(call.Args) == 0 {
				return true
			}
			se, ok := call.Fun.(*ast.SelectorExpr)
			if !ok || !(se.Sel.Name == "Update" || se.Sel.Name == "View" || se.Sel.Name == "Batch") {
				return true
			}
			lit, ok := call.Args[len(call.Args)-1].(*ast.FuncLit)
			if !ok {
				return true
			}
			ast.Inspect(lit.Body, func(n ast.Node) bool {
				c, ok := n.(*ast.CallExpr)
				if !ok {
					return true
				}
				s2, ok := c.Fun.(*ast.SelectorExpr)
				if !ok {
					return true
				}
				name := s2.Sel.Name
				if _, isMethod := methods[name]; !isMethod || !ast.IsExported(name) || skip[name] {
					return true
				}
				recv := exprText(s2.X)
				last := recv
				if i := strings.LastIndex(recv, "."); i >= 0 {
					last = recv[i+1:]
				}
				if strings.HasSuffix(strings.ToLower(last), "db") || (inDbGo && recv == "self") {
					if !strings.Contains(why[name], "called in") {
						pos := fset.Position(c.Pos())
						extra := fmt.Sprintf("called in a transaction body at %s:%d", rel, pos.Line)
						if w, ok := why[name]; ok {
							extra = w + "; " + extra
						}
						why[name] = extra
					}
				}
				return true
			})
			return true
		})
		return nil
	})
	var names []string
	for n := range why {
		names = append(names, n)
	}
	sort.Strings(names)
	res := [][2]string{}
	for _, n := range names {
		res = append(res, [2]string{n, why[n]})
	}
	return res
}
