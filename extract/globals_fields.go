package main

import (
	"go/ast"
	"go/token"
	"sort"
	"strings"
)

// RECEIVER STATE WRITTEN ON READ PATHS, and OBJECT POOLS (round 14, C18).
//
// Table `fieldWrites` of Generated/Globals.lean: every write a method of zitiql / ast / boltz / objectz (generated parser
// files excluded) makes to the state of its RECEIVER — recv.f = … (assign; `append` when the right-hand side is an append),
// recv.f[k] = … (elem: map store / slice element), recv.f.g = … (field), recv.f++ (incdec), delete(recv.f, k) / clear(recv.f)
// (delete).  A value receiver is a copy: only elem / delete rows are listed for it (maps and slices are shared with the
// original).  Each row carries
//
//	api     read  = the method's name marks it as a read API (apiKind, the rule of the parameter-write table), or it is
//	                reachable from one through calls (call graph by BARE function / method name over the four packages —
//	                over-approximating; `via` names the read API it was reached from);   write = everything else
//	shared  the receiver type is never constructed (composite literal T{…} / &T{…}, new(T)) inside a function that is a
//	        read API or reachable from one: every instance was made at registration / open time and is the one object all
//	        callers share (BaseStore, DbImpl, ObjectStore, the symbol and index types).  A type that a read path constructs
//	        itself (row cursor, scanners, query nodes, runtime copies of set symbols, typed buckets) is per-call state.
//	underLock  lexically after a `.Lock()` call in the same method
//
// Not seen: writes through a local alias of a receiver field (m := recv.f; m[k] = v IS seen — aliases of receiver fields
// made by `x := recv.f` are followed inside the method — but not through a pointer handed to another function), method
// calls on a field that mutate it (recv.symbols.Put(…): the container's own business, e.g. concurrenz.CopyOnWriteMap),
// types constructed on BOTH paths (count as per-call).
type fieldWrite struct {
	Pkg       string `json:"pkg"`
	Type      string `json:"type"`
	Method    string `json:"method"`
	Field     string `json:"field"`
	How       string `json:"how"`
	Api       string `json:"api"`
	Via       string `json:"via"`
	Shared    bool   `json:"shared"`
	UnderLock bool   `json:"underLock"`
	Pos       string `json:"pos"`
}

// Table `pools`: every sync.Pool of the four packages (package-level variable or struct field; by declared type or
// initialiser).  Table `poolPuts`: every `<pool>.Put(x)`:
//
//	argKind   localFromGet  x is a local of the function assigned from `<pool>.Get()` (with or without type assertion)
//	          receiver / field / param / other   — the object is (also) held by somebody who outlives this function
//	deferred  the Put is the call of a defer statement
//	usedAfter (non-deferred Put only) x is mentioned after the Put in the function
//	escapes   x is returned / stored into a field, element or package variable / put into a composite literal / captured
//	          by a function literal that is not itself deferred  ("" = none; passing x as a call argument is allowed)
//
// Table `freeLists`: package-level variables of slice-of-pointer / channel type that a function outside init() writes
// (a hand-made pool).
type poolDecl struct {
	Pkg  string `json:"pkg"`
	Name string `json:"name"`
	Decl string `json:"decl"` // var | field
	Pos  string `json:"pos"`
}

type poolPut struct {
	Pkg       string `json:"pkg"`
	Pool      string `json:"pool"`
	Func      string `json:"func"`
	Arg       string `json:"arg"`
	ArgKind   string `json:"argKind"`
	Deferred  bool   `json:"deferred"`
	UsedAfter bool   `json:"usedAfter"`
	Escapes   string `json:"escapes"`
	Pos       string `json:"pos"`
}

type freeList struct {
	Pkg  string `json:"pkg"`
	Name string `json:"name"`
	Type string `json:"type"`
	Func string `json:"func"`
}

func bareTypeName(s string) string {
	s = strings.TrimPrefix(s, "*")
	if i := strings.Index(s, "["); i > 0 {
		s = s[:i]
	}
	return s
}

type fwFunc struct {
	p    *gPkg
	fi   int
	fd   *ast.FuncDecl
	name string // bare
	full string // Type.Method or Func
	recv string // bare type name, "" for functions
}

func extractFieldWrites(pkgOrder []*gPkg) ([]fieldWrite, []string) {
	var fns []*fwFunc
	byName := map[string][]*fwFunc{}
	pkgNames := map[string]bool{}
	for _, p := range pkgOrder {
		pkgNames[p.name] = true
		for fi, f := range p.files {
			if strings.HasPrefix(p.names[fi], "zitiql_") {
				continue
			}
			for _, d := range f.Decls {
				fd, ok := d.(*ast.FuncDecl)
				if !ok || fd.Body == nil {
					continue
				}
				fn := &fwFunc{p: p, fi: fi, fd: fd, name: fd.Name.Name, full: fd.Name.Name}
				if fd.Recv != nil && len(fd.Recv.List) == 1 {
					fn.recv = bareTypeName(typeText(fd.Recv.List[0].Type))
					fn.full = fn.recv + "." + fd.Name.Name
				}
				fns = append(fns, fn)
				byName[fn.name] = append(byName[fn.name], fn)
			}
		}
	}
	// read reachability (by bare name, to a fixed point); via = the read API a function was first reached from
	via := map[*fwFunc]string{}
	var work []*fwFunc
	for _, fn := range fns {
		// (opening the database is not a read API of an open store: the package-level Open… functions are no roots)
		if fn.name != "init" && apiKind(fn.name) == "read" && !(fn.recv == "" && strings.HasPrefix(fn.name, "Open")) {
			via[fn] = ""
			work = append(work, fn)
		}
	}
	for len(work) > 0 {
		fn := work[0]
		work = work[1:]
		root := via[fn]
		if root == "" {
			root = fn.p.name + "." + fn.full
		}
		ast.Inspect(fn.fd.Body, func(n ast.Node) bool {
			c, ok := n.(*ast.CallExpr)
			if !ok {
				return true
			}
			callee := ""
			fun := c.Fun
			if ix, ok := fun.(*ast.IndexExpr); ok { // generic instantiation f[T](…)
				fun = ix.X
			}
			switch x := fun.(type) {
			case *ast.Ident:
				callee = x.Name
			case *ast.SelectorExpr:
				callee = x.Sel.Name
			}
			for _, g := range byName[callee] {
				if _, seen := via[g]; !seen {
					via[g] = root
					work = append(work, g)
				}
			}
			return true
		})
	}
	// types constructed on a read path
	perCall := map[string]string{} // pkg.Type -> where
	for _, fn := range fns {
		if _, reach := via[fn]; !reach {
			continue
		}
		mark := func(t ast.Expr) {
			if st, ok := t.(*ast.StarExpr); ok {
				t = st.X
			}
			if ix, ok := t.(*ast.IndexExpr); ok {
				t = ix.X
			}
			if ix, ok := t.(*ast.IndexListExpr); ok {
				t = ix.X
			}
			switch x := t.(type) {
			case *ast.Ident:
				if _, isType := fn.p.types[x.Name]; isType {
					k := fn.p.name + "." + x.Name
					if _, ok := perCall[k]; !ok {
						perCall[k] = fn.p.name + "." + fn.full
					}
				}
			case *ast.SelectorExpr:
				if id, ok := x.X.(*ast.Ident); ok && pkgNames[id.Name] {
					k := id.Name + "." + x.Sel.Name
					if _, ok := perCall[k]; !ok {
						perCall[k] = fn.p.name + "." + fn.full
					}
				}
			}
		}
		ast.Inspect(fn.fd.Body, func(n ast.Node) bool {
			switch x := n.(type) {
			case *ast.CompositeLit:
				if x.Type != nil {
					mark(x.Type)
				}
			case *ast.CallExpr:
				if id, ok := x.Fun.(*ast.Ident); ok && id.Name == "new" && len(x.Args) == 1 {
					mark(x.Args[0])
				}
			}
			return true
		})
	}
	// long-lived types: handed the transaction on every call (a method with a *bbolt.Tx parameter) or built for sharing
	// (a field of a sync / atomic / concurrenz type), and everything reachable from one through field types (named types of
	// the four packages, implementers of interfaces by method-name inclusion)
	longLived := map[string]string{} // pkg.Type -> why
	pkgByName := map[string]*gPkg{}
	for _, p := range pkgOrder {
		pkgByName[p.name] = p
	}
	methodsOf := map[string]map[string]bool{}
	for _, fn := range fns {
		if fn.recv == "" {
			continue
		}
		k := fn.p.name + "." + fn.recv
		if methodsOf[k] == nil {
			methodsOf[k] = map[string]bool{}
		}
		methodsOf[k][fn.name] = true
		if _, pc := perCall[k]; pc {
			continue
		}
		if strings.HasPrefix(fn.name, "Add") || strings.HasPrefix(fn.name, "Register") {
			if _, ok := longLived[k]; !ok {
				longLived[k] = "has the registration method " + fn.name
			}
		}
		for _, fl := range fn.fd.Type.Params.List {
			if typeText(fl.Type) == "*bbolt.Tx" {
				if _, ok := longLived[k]; !ok {
					longLived[k] = "method " + fn.name + " takes the transaction as a parameter"
				}
			}
		}
	}
	var ifaceMethods func(p *gPkg, name string, depth int) []string
	ifaceMethods = func(p *gPkg, name string, depth int) []string {
		ts, ok := p.types[name]
		if !ok || depth > 4 {
			return nil
		}
		it, ok := ts.Type.(*ast.InterfaceType)
		if !ok {
			return nil
		}
		var ms []string
		for _, m := range it.Methods.List {
			if len(m.Names) > 0 {
				for _, n := range m.Names {
					ms = append(ms, n.Name)
				}
			} else if id, ok := m.Type.(*ast.Ident); ok {
				ms = append(ms, ifaceMethods(p, id.Name, depth+1)...)
			}
		}
		return ms
	}
	var typeQueue []string
	for _, p := range pkgOrder {
		for name, ts := range p.types {
			st, ok := ts.Type.(*ast.StructType)
			if !ok {
				continue
			}
			for _, fl := range st.Fields.List {
				t := typeText(fl.Type)
				if strings.Contains(t, "sync.") || strings.Contains(t, "atomic.") || strings.Contains(t, "concurrenz.") {
					k := p.name + "." + name
					if _, pc := perCall[k]; pc {
						continue
					}
					if _, ok := longLived[k]; !ok {
						longLived[k] = "has a field of type " + t
					}
				}
			}
		}
	}
	for k := range longLived {
		typeQueue = append(typeQueue, k)
	}
	sort.Strings(typeQueue)
	for len(typeQueue) > 0 {
		k := typeQueue[0]
		typeQueue = typeQueue[1:]
		dot := strings.Index(k, ".")
		p := pkgByName[k[:dot]]
		ts, ok := p.types[k[dot+1:]]
		if !ok {
			continue
		}
		st, ok := ts.Type.(*ast.StructType)
		if !ok {
			continue
		}
		add := func(q *gPkg, name string) {
			reach := func(key string) {
				if _, pc := perCall[key]; pc {
					return // a type the read path constructs itself: per-call state, and not followed further
				}
				if _, ok := longLived[key]; !ok {
					longLived[key] = "reachable from " + k
					typeQueue = append(typeQueue, key)
				}
			}
			ts2, ok := q.types[name]
			if !ok {
				return
			}
			if _, isIface := ts2.Type.(*ast.InterfaceType); isIface {
				ms := ifaceMethods(q, name, 0)
				if len(ms) == 0 {
					return
				}
				for tk, have := range methodsOf {
					all := true
					for _, m := range ms {
						if !have[m] {
							all = false
							break
						}
					}
					if all {
						reach(tk)
					}
				}
				return
			}
			reach(q.name + "." + name)
		}
		for _, fl := range st.Fields.List {
			ast.Inspect(fl.Type, func(n ast.Node) bool {
				switch x := n.(type) {
				case *ast.FuncType:
					return false
				case *ast.SelectorExpr:
					if id, ok := x.X.(*ast.Ident); ok && pkgByName[id.Name] != nil {
						add(pkgByName[id.Name], x.Sel.Name)
					}
					return false
				case *ast.Ident:
					add(p, x.Name)
				}
				return true
			})
		}
	}
	var rows []fieldWrite
	for _, fn := range fns {
		fd := fn.fd
		if fn.recv == "" || len(fd.Recv.List[0].Names) != 1 {
			continue
		}
		recv := fd.Recv.List[0].Names[0]
		if recv.Name == "_" {
			continue
		}
		_, ptrRecv := fd.Recv.List[0].Type.(*ast.StarExpr)
		// local aliases of receiver fields: x := recv.f  (maps, slices and pointers share the field's memory)
		alias := map[*ast.Object]string{}
		ast.Inspect(fd.Body, func(n ast.Node) bool {
			as, ok := n.(*ast.AssignStmt)
			if !ok || as.Tok != token.DEFINE || len(as.Lhs) != len(as.Rhs) {
				return true
			}
			for i, l := range as.Lhs {
				lid, ok := l.(*ast.Ident)
				if !ok || lid.Obj == nil {
					continue
				}
				if se, ok := as.Rhs[i].(*ast.SelectorExpr); ok {
					if id, how := baseIdent(se); id != nil && id.Obj == recv.Obj && how == "field" {
						alias[lid.Obj] = strings.TrimPrefix(sliceExprText(se), recv.Name+".")
					}
				}
			}
			return true
		})
		var lockPos []token.Pos
		ast.Inspect(fd.Body, func(n ast.Node) bool {
			if c, ok := n.(*ast.CallExpr); ok {
				if se, ok := c.Fun.(*ast.SelectorExpr); ok && se.Sel.Name == "Lock" {
					lockPos = append(lockPos, c.Pos())
				}
			}
			return true
		})
		api, viaName := "write", ""
		if v, reach := via[fn]; reach {
			api, viaName = "read", v
		}
		_, isPerCall := perCall[fn.p.name+"."+fn.recv]
		_, isLong := longLived[fn.p.name+"."+fn.recv]
		record := func(l ast.Expr, how string, pos token.Pos) {
			id, h := baseIdent(l)
			if id == nil || id.Obj == nil {
				return
			}
			field := ""
			if id.Obj == recv.Obj {
				if h == "assign" {
					return
				}
				field = strings.TrimPrefix(sliceExprText(l), recv.Name+".")
			} else if a, ok := alias[id.Obj]; ok {
				if h == "assign" {
					return // the local itself is re-bound
				}
				field = a + strings.TrimPrefix(sliceExprText(l), id.Name) + " (through local " + id.Name + ")"
			} else {
				return
			}
			if how == "" {
				how = h
				if _, isIdx := l.(*ast.IndexExpr); !isIdx && h == "elem" {
					how = "field"
				}
			}
			if !ptrRecv && how != "elem" && how != "delete" {
				return
			}
			under := false
			for _, lp := range lockPos {
				if lp < pos {
					under = true
				}
			}
			rows = append(rows, fieldWrite{Pkg: fn.p.name, Type: fn.recv, Method: fd.Name.Name, Field: field, How: how, Api: api,
				Via: viaName, Shared: isLong && !isPerCall, UnderLock: under, Pos: fn.p.pos(fn.fi, pos)})
		}
		ast.Inspect(fd.Body, func(n ast.Node) bool {
			switch x := n.(type) {
			case *ast.AssignStmt:
				if x.Tok != token.DEFINE {
					for i, l := range x.Lhs {
						how := ""
						if _, isIdx := l.(*ast.IndexExpr); isIdx {
							how = "elem"
						} else if i < len(x.Rhs) {
							if c, ok := x.Rhs[i].(*ast.CallExpr); ok {
								if fid, ok := c.Fun.(*ast.Ident); ok && fid.Name == "append" {
									how = "append"
								}
							}
						}
						if how == "" {
							if _, isSel := l.(*ast.SelectorExpr); isSel {
								// recv.f = … is an assignment of the field; recv.f.g = … a nested field write
								if se := l.(*ast.SelectorExpr); true {
									if _, direct := se.X.(*ast.Ident); direct {
										how = "assign"
									} else {
										how = "field"
									}
								}
							}
						}
						record(l, how, l.Pos())
					}
				}
			case *ast.IncDecStmt:
				record(x.X, "incdec", x.Pos())
			case *ast.CallExpr:
				if fid, ok := x.Fun.(*ast.Ident); ok && ((fid.Name == "delete" && len(x.Args) == 2) || (fid.Name == "clear" && len(x.Args) == 1)) {
					record(&ast.IndexExpr{X: x.Args[0]}, "delete", x.Pos())
				}
			case *ast.RangeStmt:
				if x.Tok == token.ASSIGN {
					for _, l := range []ast.Expr{x.Key, x.Value} {
						if l != nil {
							record(l, "", l.Pos())
						}
					}
				}
			}
			return true
		})
	}
	var notes []string
	var pcs []string
	for k, w := range perCall {
		pcs = append(pcs, k+" (in "+w+")")
	}
	sort.Strings(pcs)
	notes = append(notes, "types constructed on a read path (per-call state): "+strings.Join(pcs, ", "))
	var lls []string
	for k, w := range longLived {
		if _, pc := perCall[k]; !pc {
			lls = append(lls, k+" ("+w+")")
		}
	}
	sort.Strings(lls)
	notes = append(notes, "shared long-lived types: "+strings.Join(lls, ", "))
	return rows, notes
}

func mentionsSyncPool(e ast.Expr) bool {
	found := false
	if e == nil {
		return false
	}
	ast.Inspect(e, func(n ast.Node) bool {
		if _, isFn := n.(*ast.FuncLit); isFn {
			return false
		}
		if se, ok := n.(*ast.SelectorExpr); ok {
			if id, ok := se.X.(*ast.Ident); ok && id.Name == "sync" && se.Sel.Name == "Pool" {
				found = true
			}
		}
		return true
	})
	return found
}

func extractPools(pkgOrder []*gPkg) ([]poolDecl, []poolPut, []freeList) {
	var pools []poolDecl
	var puts []poolPut
	var frees []freeList
	for _, p := range pkgOrder {
		poolNames := map[string]bool{}
		for fi, f := range p.files {
			for _, d := range f.Decls {
				gd, ok := d.(*ast.GenDecl)
				if !ok {
					continue
				}
				for _, sp := range gd.Specs {
					switch x := sp.(type) {
					case *ast.ValueSpec:
						if gd.Tok != token.VAR {
							continue
						}
						for i, n := range x.Names {
							var val ast.Expr
							if i < len(x.Values) {
								val = x.Values[i]
							}
							if mentionsSyncPool(x.Type) || mentionsSyncPool(val) {
								poolNames[n.Name] = true
								pools = append(pools, poolDecl{Pkg: p.name, Name: n.Name, Decl: "var", Pos: p.pos(fi, n.Pos())})
							}
						}
					case *ast.TypeSpec:
						st, ok := x.Type.(*ast.StructType)
						if !ok {
							continue
						}
						for _, fl := range st.Fields.List {
							if mentionsSyncPool(fl.Type) {
								for _, n := range fl.Names {
									poolNames[n.Name] = true
									pools = append(pools, poolDecl{Pkg: p.name, Name: x.Name.Name + "." + n.Name, Decl: "field", Pos: p.pos(fi, n.Pos())})
								}
							}
						}
					}
				}
			}
		}
		// hand-made pools: package-level slice-of-pointer / channel variables written outside init
		for _, n := range p.order {
			v := p.vars[n]
			if strings.HasPrefix(v.Type, "[]*") || strings.HasPrefix(v.Type, "chan ") || strings.HasPrefix(v.Type, "[]interface") || strings.HasPrefix(v.Type, "[]any") {
				for _, w := range v.Writes {
					if !w.InInit {
						frees = append(frees, freeList{Pkg: p.name, Name: v.Name, Type: v.Type, Func: w.Func})
						break
					}
				}
			}
		}
		poolOf := func(e ast.Expr) string {
			switch x := e.(type) {
			case *ast.Ident:
				if poolNames[x.Name] {
					return x.Name
				}
			case *ast.SelectorExpr:
				if poolNames[x.Sel.Name] {
					return sliceExprText(x)
				}
			}
			return ""
		}
		for fi, f := range p.files {
			if strings.HasPrefix(p.names[fi], "zitiql_") {
				continue
			}
			for _, d := range f.Decls {
				fd, ok := d.(*ast.FuncDecl)
				if !ok || fd.Body == nil {
					continue
				}
				fname := fd.Name.Name
				var recvObj *ast.Object
				if fd.Recv != nil && len(fd.Recv.List) == 1 {
					fname = bareTypeName(typeText(fd.Recv.List[0].Type)) + "." + fname
					if len(fd.Recv.List[0].Names) == 1 {
						recvObj = fd.Recv.List[0].Names[0].Obj
					}
				}
				params := map[*ast.Object]bool{}
				for _, fl := range fd.Type.Params.List {
					for _, n := range fl.Names {
						params[n.Obj] = true
					}
				}
				// locals assigned from <pool>.Get()
				fromGet := map[*ast.Object]bool{}
				ast.Inspect(fd.Body, func(n ast.Node) bool {
					as, ok := n.(*ast.AssignStmt)
					if !ok || len(as.Rhs) == 0 {
						return true
					}
					r := as.Rhs[0]
					if ta, ok := r.(*ast.TypeAssertExpr); ok {
						r = ta.X
					}
					if c, ok := r.(*ast.CallExpr); ok {
						if se, ok := c.Fun.(*ast.SelectorExpr); ok && se.Sel.Name == "Get" && poolOf(se.X) != "" {
							if id, ok := as.Lhs[0].(*ast.Ident); ok && id.Obj != nil {
								fromGet[id.Obj] = true
							}
						}
					}
					return true
				})
				deferred := map[*ast.CallExpr]bool{}
				deferredLits := map[*ast.FuncLit]bool{}
				ast.Inspect(fd.Body, func(n ast.Node) bool {
					if ds, ok := n.(*ast.DeferStmt); ok {
						deferred[ds.Call] = true
						if fl, ok := ds.Call.Fun.(*ast.FuncLit); ok {
							deferredLits[fl] = true
						}
					}
					return true
				})
				var walk func(n ast.Node, inDeferredLit bool)
				record := func(c *ast.CallExpr, pool string, isDeferred bool) {
					row := poolPut{Pkg: p.name, Pool: pool, Func: fname, Deferred: isDeferred, Pos: p.pos(fi, c.Pos()), ArgKind: "other"}
					if len(c.Args) != 1 {
						puts = append(puts, row)
						return
					}
					arg := c.Args[0]
					row.Arg = sliceExprText(arg)
					var obj *ast.Object
					switch x := arg.(type) {
					case *ast.Ident:
						obj = x.Obj
						switch {
						case obj != nil && obj == recvObj:
							row.ArgKind = "receiver"
						case obj != nil && params[obj]:
							row.ArgKind = "param"
						case obj != nil && fromGet[obj]:
							row.ArgKind = "localFromGet"
						}
					case *ast.SelectorExpr:
						row.ArgKind = "field"
					}
					if obj != nil && row.ArgKind == "localFromGet" {
						mentions := func(e ast.Node) bool {
							m := false
							if e == nil {
								return false
							}
							ast.Inspect(e, func(n ast.Node) bool {
								if id, ok := n.(*ast.Ident); ok && id.Obj == obj {
									m = true
								}
								return true
							})
							return m
						}
						ast.Inspect(fd.Body, func(n ast.Node) bool {
							switch x := n.(type) {
							case *ast.ReturnStmt:
								for _, r := range x.Results {
									if mentions(r) && row.Escapes == "" {
										row.Escapes = "returned"
									}
								}
							case *ast.AssignStmt:
								for i, l := range x.Lhs {
									if i >= len(x.Rhs) {
										break
									}
									direct := false
									switch r := x.Rhs[i].(type) {
									case *ast.Ident:
										direct = r.Obj == obj
									case *ast.UnaryExpr:
										direct = mentions(r)
									case *ast.CompositeLit:
										direct = mentions(r)
									}
									if !direct {
										continue
									}
									if id, ok := l.(*ast.Ident); ok && id.Obj != nil {
										if vs, isSpec := id.Obj.Decl.(*ast.ValueSpec); !isSpec || !p.specs[vs] {
											continue // a local alias
										}
									}
									if row.Escapes == "" {
										row.Escapes = "stored into " + sliceExprText(l)
									}
								}
							case *ast.FuncLit:
								if !deferredLits[x] && mentions(x.Body) && row.Escapes == "" {
									row.Escapes = "captured by a function literal"
								}
							case *ast.SendStmt:
								if mentions(x.Value) && row.Escapes == "" {
									row.Escapes = "sent on a channel"
								}
							}
							return true
						})
						if !isDeferred {
							ast.Inspect(fd.Body, func(n ast.Node) bool {
								if id, ok := n.(*ast.Ident); ok && id.Obj == obj && id.Pos() > c.End() {
									row.UsedAfter = true
								}
								return true
							})
						}
					}
					puts = append(puts, row)
				}
				walk = func(n ast.Node, _ bool) {
					ast.Inspect(n, func(n ast.Node) bool {
						c, ok := n.(*ast.CallExpr)
						if !ok {
							return true
						}
						if se, ok := c.Fun.(*ast.SelectorExpr); ok && se.Sel.Name == "Put" {
							if pool := poolOf(se.X); pool != "" {
								record(c, pool, deferred[c])
							}
						}
						return true
					})
				}
				walk(fd.Body, false)
			}
		}
	}
	return pools, puts, frees
}
