package main

// accept_types.go (property C20): what the type-directed transformation consults —
// which node interfaces a kind implements (method-set inclusion, by method name), the constant its
// GetType() returns, its enumeration-typed fields, and the constants of those enumerations.

import (
	"go/ast"
	"sort"
)

// method names of an interface of package ast (embedded interfaces expanded; fmt.Stringer = String)
func (p *acceptPkg) ifaceMethods(name string, seen map[string]bool) map[string]bool {
	res := map[string]bool{}
	it, ok := p.ifaces[name]
	if !ok || seen[name] {
		return res
	}
	seen[name] = true
	for _, m := range it.Methods.List {
		if len(m.Names) > 0 {
			for _, n := range m.Names {
				res[n.Name] = true
			}
			continue
		}
		switch t := m.Type.(type) {
		case *ast.Ident:
			for k := range p.ifaceMethods(t.Name, seen) {
				res[k] = true
			}
		case *ast.SelectorExpr:
			if isIdent(t.X, "fmt") && t.Sel.Name == "Stringer" {
				res["String"] = true
			} else {
				res["?"+t.Sel.Name] = true // unknown foreign interface: never satisfied
			}
		}
	}
	return res
}

// method names of *K: its own methods and those promoted from embedded structs
func (p *acceptPkg) kindMethods(name string, seen map[string]bool) map[string]*ast.FuncDecl {
	res := map[string]*ast.FuncDecl{}
	st, ok := p.structs[name]
	if !ok || seen[name] {
		return res
	}
	seen[name] = true
	for _, f := range st.Fields.List {
		if len(f.Names) != 0 {
			continue
		}
		t := f.Type
		if s, ok := t.(*ast.StarExpr); ok {
			t = s.X
		}
		if id, ok := t.(*ast.Ident); ok {
			for k, v := range p.kindMethods(id.Name, seen) {
				res[k] = v
			}
		}
	}
	for k, v := range p.methods[name] { // own methods shadow promoted ones
		res[k] = v
	}
	return res
}

func (p *acceptPkg) typeFacts(k *acceptKind) {
	k.EnumFields, k.Ifaces = []string{}, []string{}
	ms := p.kindMethods(k.Name, map[string]bool{})
	var inames []string
	for n := range p.ifaces {
		inames = append(inames, n)
	}
	sort.Strings(inames)
	for _, in := range inames {
		want := p.ifaceMethods(in, map[string]bool{})
		if len(want) == 0 {
			continue
		}
		ok := true
		for m := range want {
			if ms[m] == nil {
				ok = false
			}
		}
		if ok {
			k.Ifaces = append(k.Ifaces, in)
		}
	}
	if fd := ms["GetType"]; fd != nil && fd.Body != nil && len(fd.Body.List) == 1 {
		if rs, ok := fd.Body.List[0].(*ast.ReturnStmt); ok && len(rs.Results) == 1 {
			if id, ok := rs.Results[0].(*ast.Ident); ok {
				k.GetType = id.Name
			}
		}
	}
	if fd := ms["Accept"]; fd != nil && fd.Recv != nil && len(fd.Recv.List) == 1 {
		_, isPtr := fd.Recv.List[0].Type.(*ast.StarExpr)
		k.ValueRecv = !isPtr
	}
	p.enumFieldsOf(k.Name, map[string]bool{}, k)
}

// enumeration-typed fields, embedded structs flattened, declaration order
func (p *acceptPkg) enumFieldsOf(name string, seen map[string]bool, k *acceptKind) {
	st := p.structs[name]
	if st == nil || seen[name] {
		return
	}
	seen[name] = true
	for _, f := range st.Fields.List {
		if len(f.Names) == 0 {
			if id, ok := f.Type.(*ast.Ident); ok {
				p.enumFieldsOf(id.Name, seen, k)
			}
			continue
		}
		if id, ok := f.Type.(*ast.Ident); ok && p.namedInts[id.Name] {
			for _, n := range f.Names {
				k.EnumFields = append(k.EnumFields, n.Name)
			}
		}
	}
}

// constants of the enumerations that occur as field types of some kind
func (p *acceptPkg) usedEnumConsts(kinds []acceptKind) [][2]string {
	used := map[string]bool{}
	for _, k := range kinds {
		p.enumTypesOf(k.Name, map[string]bool{}, used)
	}
	res := [][2]string{}
	for i, c := range p.enumConsts {
		if used[p.enumTypes[i]] {
			res = append(res, c)
		}
	}
	return res
}

func (p *acceptPkg) enumTypesOf(name string, seen, used map[string]bool) {
	st := p.structs[name]
	if st == nil || seen[name] {
		return
	}
	seen[name] = true
	for _, f := range st.Fields.List {
		if id, ok := f.Type.(*ast.Ident); ok {
			if len(f.Names) == 0 {
				p.enumTypesOf(id.Name, seen, used)
			} else if p.namedInts[id.Name] {
				used[id.Name] = true
			}
		}
	}
}
