package main

import (
	"bytes"
	"encoding/json"
	"fmt"
	"go/ast"
	"go/parser"
	"go/printer"
	"go/token"
	"path/filepath"
	"sort"
	"strings"
)

// extractC16Setters reads the persistence setters an entity strategy can call — the methods of
// *TypedBucket in boltz/typed_bucket.go that take a FieldChecker, and the Set* / GetAndSet* methods
// of *PersistContext in boltz/base.go — and tells the C16 model which of the shapes it has a
// meaning for (StorageModel.C16.Write) each one has:
//
//	gated:     [x := recv.Get…(…)]* ; if recv.ProceedWithSet(field[, checker]) { … } ; [return …]*
//	           — nothing but read-only Get… assignments before the gate, nothing but returns after it
//	required:  gated, and the gated block starts with `if value == "" { …SetError(…); return }`
//	delegate:  the body is one call of a TypedBucket setter on ctx.Bucket handing on ctx.FieldChecker
//	unknown:   anything else (breaks the obligation every_setter_is_a_gated_write)
//
// and whether the two ProceedWithSet functions are what the model's Bkt.proceedWithSet says:
// `bucket.Err == nil && (checker == nil || checker.IsUpdated(name))` and
// `ctx.Bucket.ProceedWithSet(field, ctx.FieldChecker)`.
type c16SetterFacts struct {
	Setters map[string]string `json:"setters"`
	GateOk  bool              `json:"gate_ok"`
	Notes   []string          `json:"notes,omitempty"`
}

func c16Src(fset *token.FileSet, n ast.Node) string {
	var b bytes.Buffer
	_ = printer.Fprint(&b, fset, n)
	return strings.Join(strings.Fields(b.String()), " ")
}

func c16RecvType(fd *ast.FuncDecl) string {
	if fd.Recv == nil || len(fd.Recv.List) != 1 {
		return ""
	}
	if st, ok := fd.Recv.List[0].Type.(*ast.StarExpr); ok {
		if id, ok := st.X.(*ast.Ident); ok {
			return id.Name
		}
	}
	return ""
}

func c16HasCheckerParam(fd *ast.FuncDecl) bool {
	for _, p := range fd.Type.Params.List {
		if id, ok := p.Type.(*ast.Ident); ok && id.Name == "FieldChecker" {
			return true
		}
	}
	return false
}

func c16IsGateCall(e ast.Expr) bool {
	call, ok := e.(*ast.CallExpr)
	if !ok {
		return false
	}
	se, ok := call.Fun.(*ast.SelectorExpr)
	return ok && se.Sel.Name == "ProceedWithSet"
}

// a statement that only reads: `x := recv.Get…(…)`
func c16IsReadOnly(s ast.Stmt) bool {
	as, ok := s.(*ast.AssignStmt)
	if !ok || as.Tok != token.DEFINE || len(as.Rhs) != 1 {
		return false
	}
	call, ok := as.Rhs[0].(*ast.CallExpr)
	if !ok {
		return false
	}
	se, ok := call.Fun.(*ast.SelectorExpr)
	return ok && strings.HasPrefix(se.Sel.Name, "Get") && !strings.HasPrefix(se.Sel.Name, "GetAndSet") &&
		!strings.HasPrefix(se.Sel.Name, "GetOrCreate")
}

func c16HasCall(n ast.Node) bool {
	found := false
	ast.Inspect(n, func(x ast.Node) bool {
		if _, ok := x.(*ast.CallExpr); ok {
			found = true
		}
		return !found
	})
	return found
}

func c16Shape(fset *token.FileSet, fd *ast.FuncDecl, bucketSetters map[string]bool) string {
	body := fd.Body.List
	// delegate: one statement, a call ctx.Bucket.<setter>(…, ctx.FieldChecker[, …])
	if len(body) == 1 {
		var e ast.Expr
		switch s := body[0].(type) {
		case *ast.ExprStmt:
			e = s.X
		case *ast.ReturnStmt:
			if len(s.Results) == 1 {
				e = s.Results[0]
			}
		}
		if call, ok := e.(*ast.CallExpr); ok {
			if se, ok := call.Fun.(*ast.SelectorExpr); ok && bucketSetters[se.Sel.Name] && c16Src(fset, se.X) == "ctx.Bucket" {
				for _, a := range call.Args {
					if c16Src(fset, a) == "ctx.FieldChecker" {
						return "delegate"
					}
				}
			}
		}
	}
	i := 0
	for i < len(body) && c16IsReadOnly(body[i]) {
		i++
	}
	if i >= len(body) {
		return "unknown"
	}
	ifs, ok := body[i].(*ast.IfStmt)
	if !ok || ifs.Init != nil || ifs.Else != nil || !c16IsGateCall(ifs.Cond) {
		return "unknown"
	}
	for _, s := range body[i+1:] {
		rs, ok := s.(*ast.ReturnStmt)
		if !ok || c16HasCall(rs) {
			return "unknown"
		}
	}
	if len(ifs.Body.List) > 0 {
		if inner, ok := ifs.Body.List[0].(*ast.IfStmt); ok && inner.Init == nil && inner.Else == nil &&
			c16Src(fset, inner.Cond) == `value == ""` {
			src := c16Src(fset, inner.Body)
			if n := len(inner.Body.List); n > 0 && strings.Contains(src, "SetError(") {
				if _, ok := inner.Body.List[n-1].(*ast.ReturnStmt); ok {
					return "required"
				}
			}
			return "unknown"
		}
	}
	return "gated"
}

func extractC16Setters(repo, gen, facts string) {
	res := c16SetterFacts{Setters: map[string]string{}}
	fset := token.NewFileSet()
	gateBucket, gateCtx := false, false

	bucketSetters := map[string]bool{}
	var bucketDecls, ctxDecls []*ast.FuncDecl
	if file, err := parser.ParseFile(fset, filepath.Join(repo, "boltz", "typed_bucket.go"), nil, 0); err != nil {
		res.Notes = append(res.Notes, "parse error: "+err.Error())
	} else {
		for _, d := range file.Decls {
			fd, ok := d.(*ast.FuncDecl)
			if !ok || fd.Body == nil || c16RecvType(fd) != "TypedBucket" {
				continue
			}
			if fd.Name.Name == "ProceedWithSet" {
				gateBucket = len(fd.Body.List) == 1 &&
					c16Src(fset, fd.Body.List[0]) == "return bucket.Err == nil && (checker == nil || checker.IsUpdated(name))"
				continue
			}
			if c16HasCheckerParam(fd) {
				bucketSetters[fd.Name.Name] = true
				bucketDecls = append(bucketDecls, fd)
			}
		}
	}
	if file, err := parser.ParseFile(fset, filepath.Join(repo, "boltz", "base.go"), nil, 0); err != nil {
		res.Notes = append(res.Notes, "parse error: "+err.Error())
	} else {
		for _, d := range file.Decls {
			fd, ok := d.(*ast.FuncDecl)
			if !ok || fd.Body == nil || c16RecvType(fd) != "PersistContext" {
				continue
			}
			n := fd.Name.Name
			if n == "ProceedWithSet" {
				gateCtx = len(fd.Body.List) == 1 &&
					c16Src(fset, fd.Body.List[0]) == "return ctx.Bucket.ProceedWithSet(field, ctx.FieldChecker)"
				continue
			}
			if strings.HasPrefix(n, "Set") || strings.HasPrefix(n, "GetAndSet") || strings.HasPrefix(n, "Put") {
				ctxDecls = append(ctxDecls, fd)
			}
		}
	}
	for _, fd := range bucketDecls {
		res.Setters["TypedBucket."+fd.Name.Name] = c16Shape(fset, fd, nil)
	}
	for _, fd := range ctxDecls {
		res.Setters["PersistContext."+fd.Name.Name] = c16Shape(fset, fd, bucketSetters)
	}
	res.GateOk = gateBucket && gateCtx
	if !gateBucket {
		res.Notes = append(res.Notes, "TypedBucket.ProceedWithSet is not `bucket.Err == nil && (checker == nil || checker.IsUpdated(name))`")
	}
	if !gateCtx {
		res.Notes = append(res.Notes, "PersistContext.ProceedWithSet is not `ctx.Bucket.ProceedWithSet(field, ctx.FieldChecker)`")
	}

	js, _ := json.MarshalIndent(res, "", " ")
	writeIfChanged(filepath.Join(facts, "c16setters.json"), string(js)+"\n")

	var names []string
	for n := range res.Setters {
		names = append(names, n)
	}
	sort.Strings(names)
	var b strings.Builder
	b.WriteString("import StorageModel.C16.Model\n")
	b.WriteString("/- GENERATED by /verif/extract from boltz/typed_bucket.go and boltz/base.go (the persistence setters an\n")
	b.WriteString("   entity strategy can call, and ProceedWithSet) — do not edit. -/\n")
	b.WriteString("namespace StorageModel.Generated\n")
	b.WriteString("open StorageModel.C16 in\n")
	b.WriteString("def c16Setters : List (String × SetterShape) := [\n")
	for i, n := range names {
		sep := ","
		if i == len(names)-1 {
			sep = ""
		}
		fmt.Fprintf(&b, "  (%q, .%s)%s\n", n, res.Setters[n], sep)
	}
	b.WriteString("]\n")
	b.WriteString("/-- both ProceedWithSet functions are `bucket.Err == nil && (checker == nil || checker.IsUpdated(name))` -/\n")
	fmt.Fprintf(&b, "def c16GateOk : Bool := %v\n", res.GateOk)
	b.WriteString("end StorageModel.Generated\n")
	writeIfChanged(filepath.Join(gen, "C16Setters.lean"), b.String())
}
