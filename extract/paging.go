package main

// paging extractor (C02, C19): reads `scanner.setPaging`, the `maxResults` computation and the
// eviction test of the sorting scanners in boltz/query_scanners.go and objectz/object_store.go, and the
// branch chain of the float64 sort comparators (boltz/query_sort.go, objectz/object_store_sort.go: is the
// NaN branch of 1532996 there?).
//
// Writes facts/paging.json (normalised source text of those pieces + the derived booleans) and
// Generated/PagingFacts.lean (the booleans, which parameterise the Lean model's arithmetic).
// A piece whose shape is not one the model has a reading for yields recognised = false, which
// breaks the obligation `paging_facts_expected`.

import (
	"bytes"
	"encoding/json"
	"fmt"
	"go/ast"
	"go/parser"
	"go/printer"
	"go/token"
	"path/filepath"
	"strings"
)

type pagingPkgFacts struct {
	File              string   `json:"file"`
	SetPaging         []string `json:"setPaging"`
	MaxResults        []string `json:"maxResults"`
	MatchBlock        []string `json:"matchBlock"`
	EvictCond         string   `json:"evictCond"`
	Recognised        bool     `json:"recognised"`
	ClampNegativeSkip bool     `json:"clampNegativeSkip"`
	OverflowGuard     bool     `json:"overflowGuard"`
	EvictStrict       bool     `json:"evictStrict"`
	Note              string   `json:"note,omitempty"`
	// the float64 sort comparator of the package (query_sort.go / object_store_sort.go)
	FloatCmp floatCmpFacts `json:"floatCmp"`
}

// floatCmpFacts: the if / else-if chain of the float64 symbol comparator on its two keys.
type floatCmpFacts struct {
	File       string   `json:"file"`
	Chain      []string `json:"chain"` // condition: body, one entry per branch
	Recognised bool     `json:"recognised"`
	NanFirst   bool     `json:"nanFirst"` // the NaN branch (NaN before every number, NaNs tie) is present
	Note       string   `json:"note,omitempty"`
}

var floatCmpOld = []string{
	"s1 == nil: { if s2 != nil { result = -1 } }",
	"s2 == nil: { result = 1 }",
	"*s1 < *s2: { result = -1 }",
	"*s1 > *s2: { result = 1 }",
}

const floatCmpNaNBranch = "*s1 != *s1 || *s2 != *s2: { if *s1 == *s1 { result = 1 } else if *s2 == *s2 { result = -1 } }"

// analyseFloatCmp reads method `method` of receiver type `recv` in `path`: `result := 0`, then ONE if / else-if chain
// over s1, s2, then the direction flip.
func analyseFloatCmp(path, recv, method string) (res floatCmpFacts) {
	res.File = filepath.Base(filepath.Dir(path)) + "/" + filepath.Base(path)
	defer func() {
		if r := recover(); r != nil {
			res.Recognised = false
			res.Note = fmt.Sprint("extractor panic: ", r)
		}
	}()
	fset := token.NewFileSet()
	file, err := parser.ParseFile(fset, path, nil, 0)
	if err != nil {
		res.Note = "parse error: " + err.Error()
		return
	}
	for _, d := range file.Decls {
		fd, ok := d.(*ast.FuncDecl)
		if !ok || fd.Body == nil || fd.Name.Name != method || pagingRecvTypeName(fd) != recv {
			continue
		}
		var rest []string
		for _, st := range fd.Body.List {
			is, ok := st.(*ast.IfStmt)
			if !ok || len(res.Chain) > 0 {
				rest = append(rest, pagingNodeText(fset, st))
				continue
			}
			for cur := is; cur != nil; {
				// strip the comments inside the bodies: print the statements only
				res.Chain = append(res.Chain, pagingNodeText(fset, cur.Cond)+": { "+strings.Join(pagingStmtTexts(fset, cur.Body.List), "; ")+" }")
				next, _ := cur.Else.(*ast.IfStmt)
				if cur.Else != nil && next == nil {
					res.Chain = append(res.Chain, "else: "+pagingNodeText(fset, cur.Else))
				}
				cur = next
			}
		}
		frameOk := len(rest) == 5 && strings.HasPrefix(rest[0], "s1 := ") && strings.HasPrefix(rest[1], "s2 := ") &&
			rest[2] == "result := 0" && rest[3] == "if c.forward { return result }" && rest[4] == "return -result"
		withNaN := append(append(append([]string{}, floatCmpOld[:2]...), floatCmpNaNBranch), floatCmpOld[2:]...)
		switch {
		case frameOk && pagingSameStrings(res.Chain, withNaN):
			res.Recognised, res.NanFirst = true, true
		case frameOk && pagingSameStrings(res.Chain, floatCmpOld):
			res.Recognised, res.NanFirst = true, false
		default:
			res.Note = fmt.Sprintf("unrecognised comparator shape (frame ok = %v)", frameOk)
		}
		return
	}
	res.Note = "method not found"
	return
}

func pagingNodeText(fset *token.FileSet, n ast.Node) string {
	var b bytes.Buffer
	if err := printer.Fprint(&b, fset, n); err != nil {
		return "<unprintable>"
	}
	// one line, single spaces
	return strings.Join(strings.Fields(b.String()), " ")
}

func pagingStmtTexts(fset *token.FileSet, stmts []ast.Stmt) []string {
	var out []string
	for _, s := range stmts {
		out = append(out, pagingNodeText(fset, s))
	}
	return out
}

var setPagingWithClamp = []string{
	"if query.GetSkip() == nil { query.SetSkip(0) }",
	"s.targetOffset = *query.GetSkip()",
	"if s.targetOffset < 0 { s.targetOffset = 0 }",
	"if query.GetLimit() == nil || *query.GetLimit() < 0 { query.SetLimit(math.MaxInt64) }",
	"s.targetLimit = *query.GetLimit()",
}

func pagingSameStrings(a, b []string) bool {
	if len(a) != len(b) {
		return false
	}
	for i := range a {
		if a[i] != b[i] {
			return false
		}
	}
	return true
}

func pagingRecvTypeName(fd *ast.FuncDecl) string {
	if fd.Recv == nil || len(fd.Recv.List) != 1 {
		return ""
	}
	t := fd.Recv.List[0].Type
	if st, ok := t.(*ast.StarExpr); ok {
		t = st.X
	}
	switch x := t.(type) {
	case *ast.Ident:
		return x.Name
	case *ast.IndexExpr:
		if id, ok := x.X.(*ast.Ident); ok {
			return id.Name
		}
	}
	return ""
}

func analysePagingFile(path, scannerType, scanFunc string) (res pagingPkgFacts) {
	res.File = filepath.Base(filepath.Dir(path)) + "/" + filepath.Base(path)
	defer func() {
		if r := recover(); r != nil {
			res.Recognised = false
			res.Note = fmt.Sprint("extractor panic: ", r)
		}
	}()
	fset := token.NewFileSet()
	file, err := parser.ParseFile(fset, path, nil, 0)
	if err != nil {
		res.Note = "parse error: " + err.Error()
		return
	}
	okSet, okMax, okEvict := false, false, false
	for _, d := range file.Decls {
		fd, ok := d.(*ast.FuncDecl)
		if !ok || fd.Body == nil {
			continue
		}
		if fd.Name.Name == "setPaging" && pagingRecvTypeName(fd) == "scanner" {
			res.SetPaging = pagingStmtTexts(fset, fd.Body.List)
			without := append(append([]string{}, setPagingWithClamp[:2]...), setPagingWithClamp[3:]...)
			switch {
			case pagingSameStrings(res.SetPaging, setPagingWithClamp):
				res.ClampNegativeSkip, okSet = true, true
			case pagingSameStrings(res.SetPaging, without):
				res.ClampNegativeSkip, okSet = false, true
			}
		}
		if fd.Name.Name == scanFunc && pagingRecvTypeName(fd) == scannerType {
			stmts := fd.Body.List
			for i, s := range stmts {
				as, ok := s.(*ast.AssignStmt)
				if !ok || len(as.Lhs) != 1 {
					continue
				}
				id, ok := as.Lhs[0].(*ast.Ident)
				if !ok || id.Name != "maxResults" {
					continue
				}
				res.MaxResults = append(res.MaxResults, pagingNodeText(fset, s))
				sumOk := pagingNodeText(fset, s) == "maxResults := scanner.targetOffset + scanner.targetLimit"
				// statements between the assignment and the scan loop
				j := i + 1
				for ; j < len(stmts); j++ {
					if _, isFor := stmts[j].(*ast.ForStmt); isFor {
						break
					}
					res.MaxResults = append(res.MaxResults, pagingNodeText(fset, stmts[j]))
				}
				between := res.MaxResults[1:]
				switch {
				case sumOk && len(between) == 0:
					res.OverflowGuard, okMax = false, true
				case sumOk && len(between) == 1 && between[0] == "if maxResults < 0 { maxResults = math.MaxInt64 }":
					res.OverflowGuard, okMax = true, true
				}
				// the scan loop: find `if query.EvalBool(rowCursor) { Insert; count++; if count ? maxResults { DeleteMax } }`
				if j < len(stmts) {
					ast.Inspect(stmts[j], func(n ast.Node) bool {
						is, ok := n.(*ast.IfStmt)
						if !ok {
							return true
						}
						if pagingNodeText(fset, is.Cond) != "query.EvalBool(rowCursor)" {
							return true
						}
						res.MatchBlock = pagingStmtTexts(fset, is.Body.List)
						if len(is.Body.List) == 3 {
							if ev, ok := is.Body.List[2].(*ast.IfStmt); ok {
								res.EvictCond = pagingNodeText(fset, ev.Cond)
								bodyOk := len(ev.Body.List) == 1 && pagingNodeText(fset, ev.Body.List[0]) == "results.DeleteMax()" && ev.Else == nil
								insertOk := strings.HasPrefix(res.MatchBlock[0], "results.Insert(") && res.MatchBlock[1] == "scanner.count++"
								if bodyOk && insertOk {
									switch res.EvictCond {
									case "scanner.count > maxResults":
										res.EvictStrict, okEvict = true, true
									case "scanner.count >= maxResults":
										res.EvictStrict, okEvict = false, true
									}
								}
							}
						}
						return false
					})
				}
				break
			}
		}
	}
	res.Recognised = okSet && okMax && okEvict
	if !res.Recognised && res.Note == "" {
		res.Note = fmt.Sprintf("unrecognised shape: setPaging=%v maxResults=%v evict=%v", okSet, okMax, okEvict)
	}
	return
}

func leanFloatCmpFacts(f floatCmpFacts) string {
	return fmt.Sprintf("⟨%v, %v⟩", f.Recognised, f.NanFirst)
}

func leanPagingFacts(f pagingPkgFacts) string {
	return fmt.Sprintf("⟨%v, %v, %v, %v⟩", f.Recognised, f.ClampNegativeSkip, f.OverflowGuard, f.EvictStrict)
}

func extractPaging(repo, gen, facts string) {
	boltzF := analysePagingFile(filepath.Join(repo, "boltz", "query_scanners.go"), "sortingScanner", "ScanCursor")
	objF := analysePagingFile(filepath.Join(repo, "objectz", "object_store.go"), "memSortingScanner", "Scan")
	boltzF.FloatCmp = analyseFloatCmp(filepath.Join(repo, "boltz", "query_sort.go"), "float64SymbolComparator", "Compare")
	objF.FloatCmp = analyseFloatCmp(filepath.Join(repo, "objectz", "object_store_sort.go"), "objectFloat64SymbolComparator", "compare")
	js, _ := json.MarshalIndent(map[string]pagingPkgFacts{"boltz": boltzF, "objectz": objF}, "", " ")
	writeIfChanged(filepath.Join(facts, "paging.json"), string(js)+"\n")

	var b strings.Builder
	b.WriteString("import StorageModel.Query.PagingFacts\n")
	b.WriteString("/- GENERATED by /verif/extract (paging.go) from boltz/query_scanners.go and objectz/object_store.go — do not edit -/\n")
	b.WriteString("namespace StorageModel.Generated\nopen StorageModel.Query\n\n")
	b.WriteString("def boltzPaging : PagingFacts := " + leanPagingFacts(boltzF) + "\n")
	b.WriteString("def objectzPaging : PagingFacts := " + leanPagingFacts(objF) + "\n")
	b.WriteString("def boltzFloatCmp : FloatCmpFacts := " + leanFloatCmpFacts(boltzF.FloatCmp) + "\n")
	b.WriteString("def objectzFloatCmp : FloatCmpFacts := " + leanFloatCmpFacts(objF.FloatCmp) + "\n")
	b.WriteString("\nend StorageModel.Generated\n")
	writeIfChanged(filepath.Join(gen, "PagingFacts.lean"), b.String())
}
