package main

import (
	"go/ast"
	"go/token"
	"strings"
	"unicode"
)

// WRITES THROUGH PARAMETERS (round 5, C18).  Table `paramWrites` of Generated/Globals.lean: every function / method of
// zitiql, ast, boltz, objectz (generated parser files excluded) that WRITES THROUGH a parameter of slice, map or pointer
// type — the memory belongs to the caller, who may hand the same slice to several goroutines:
//
//	elem      param[i] = …, param[i]++, *param = …, param.f = … on a pointer parameter is NOT listed (builders / contexts)
//	sort      param given to sort.Strings / Ints / Float64s / Slice / SliceStable / Sort / Stable, slices.Sort… / Reverse
//	copyDst   copy(param, …)
//	delete    delete(param, k), clear(param)
//	appendIn  append(param[:k], …)  (re-uses the caller's backing array from position k)
//	via       param handed to another function of the same package that writes through the corresponding parameter
//	          (by function / method NAME and argument position; to a fixed point)
//
// A local alias of the parameter (v := param, rest := param[1:], v = w with w an alias) counts as the parameter
// (flow-insensitive, inside one function).  Each row carries the API kind of the function, by its name:
//
//	read   Find… Iterat… Query… Read… Eval… Is… Get… Load… List… Open… Has… Count… Contains… Compare… Parse… String…
//	       Seek Current Next Accept Lookup… Resolve… (first letter case-insensitive)
//	write  everything else (Set… Update… Create… Delete… Add… Persist… Fill… Process… Check… Init… new… )
type paramWrite struct {
	Pkg   string `json:"pkg"`
	Func  string `json:"func"`
	Param string `json:"param"`
	Index int    `json:"index"`
	How   string `json:"how"`
	Api   string `json:"api"`
	Pos   string `json:"pos"`
}

var readApiPrefixes = []string{"find", "iterat", "query", "read", "eval", "is", "get", "load", "list", "open", "has", "count",
	"contains", "compare", "parse", "string", "seek", "current", "next", "accept", "lookup", "resolve", "scan", "visit"}

func apiKind(name string) string {
	if i := strings.LastIndex(name, "."); i >= 0 {
		name = name[i+1:]
	}
	l := strings.ToLower(name)
	for _, p := range readApiPrefixes {
		if strings.HasPrefix(l, p) {
			// "is" / "get" … must be a word of their own: Issue… is not Is…
			rest := name[len(p):]
			if rest == "" || unicode.IsUpper(rune(rest[0])) || unicode.IsDigit(rune(rest[0])) || rest[0] == '_' || len(p) > 3 {
				return "read"
			}
		}
	}
	return "write"
}

var sortFuncs = map[string]map[string]bool{
	"sort":   {"Strings": true, "Ints": true, "Float64s": true, "Slice": true, "SliceStable": true, "Sort": true, "Stable": true},
	"slices": {"Sort": true, "SortFunc": true, "SortStableFunc": true, "Reverse": true},
}

func extractParamWrites(pkgOrder []*gPkg) []paramWrite {
	var rows []paramWrite
	for _, p := range pkgOrder {
		type fnInfo struct {
			fi     int
			fd     *ast.FuncDecl
			name   string
			params []*ast.Object // by position
			alias  map[*ast.Object]int
			wrote  map[int]bool
		}
		var fns []*fnInfo
		byName := map[string][]*fnInfo{} // bare function / method name
		for fi, f := range p.files {
			if strings.HasPrefix(p.names[fi], "zitiql_") {
				continue
			}
			for _, d := range f.Decls {
				fd, ok := d.(*ast.FuncDecl)
				if !ok || fd.Body == nil {
					continue
				}
				fn := &fnInfo{fi: fi, fd: fd, name: fd.Name.Name, alias: map[*ast.Object]int{}, wrote: map[int]bool{}}
				if fd.Recv != nil && len(fd.Recv.List) == 1 {
					fn.name = strings.TrimPrefix(typeText(fd.Recv.List[0].Type), "*") + "." + fd.Name.Name
				}
				for _, fl := range fd.Type.Params.List {
					refType := false
					switch t := fl.Type.(type) {
					case *ast.ArrayType:
						refType = t.Len == nil
					case *ast.MapType, *ast.StarExpr:
						refType = true
					case *ast.Ellipsis:
						refType = true // variadic: f(xs...) passes the caller's slice
					}
					if len(fl.Names) == 0 {
						fn.params = append(fn.params, nil)
					}
					for _, n := range fl.Names {
						if refType && n.Obj != nil && n.Name != "_" {
							fn.params = append(fn.params, n.Obj)
							fn.alias[n.Obj] = len(fn.params) - 1
						} else {
							fn.params = append(fn.params, nil)
						}
					}
				}
				fns = append(fns, fn)
				byName[fd.Name.Name] = append(byName[fd.Name.Name], fn)
			}
		}
		// which parameter an expression is (an alias of): param, param[a:b], (param)
		var paramOf func(fn *fnInfo, e ast.Expr) (int, bool)
		paramOf = func(fn *fnInfo, e ast.Expr) (int, bool) {
			switch x := e.(type) {
			case *ast.Ident:
				if x.Obj != nil {
					k, ok := fn.alias[x.Obj]
					return k, ok
				}
			case *ast.ParenExpr:
				return paramOf(fn, x.X)
			case *ast.SliceExpr:
				return paramOf(fn, x.X)
			}
			return 0, false
		}
		isPtrParam := func(fn *fnInfo, k int) bool {
			n := 0
			for _, fl := range fn.fd.Type.Params.List {
				cnt := len(fl.Names)
				if cnt == 0 {
					cnt = 1
				}
				if k < n+cnt {
					_, ok := fl.Type.(*ast.StarExpr)
					return ok
				}
				n += cnt
			}
			return false
		}
		for _, fn := range fns {
			// aliases to a fixed point
			for round := 0; round < 4; round++ {
				changed := false
				ast.Inspect(fn.fd.Body, func(n ast.Node) bool {
					bind := func(l, r ast.Expr) {
						id, ok := l.(*ast.Ident)
						if !ok || id.Obj == nil || id.Name == "_" {
							return
						}
						if _, have := fn.alias[id.Obj]; have {
							return
						}
						if k, ok := paramOf(fn, r); ok && !isPtrParam(fn, k) {
							fn.alias[id.Obj] = k
							changed = true
						}
					}
					switch x := n.(type) {
					case *ast.AssignStmt:
						if len(x.Lhs) == len(x.Rhs) {
							for i := range x.Lhs {
								bind(x.Lhs[i], x.Rhs[i])
							}
						}
					case *ast.ValueSpec:
						if len(x.Names) == len(x.Values) {
							for i := range x.Names {
								bind(x.Names[i], x.Values[i])
							}
						}
					}
					return true
				})
				if !changed {
					break
				}
			}
		}
		record := func(fn *fnInfo, k int, how string, pos token.Pos) {
			name := "?"
			if k < len(fn.params) && fn.params[k] != nil {
				name = fn.params[k].Name
			}
			for _, r := range rows {
				if r.Pkg == p.name && r.Func == fn.name && r.Index == k && r.How == how {
					return
				}
			}
			fn.wrote[k] = true
			rows = append(rows, paramWrite{Pkg: p.name, Func: fn.name, Param: name, Index: k, How: how, Api: apiKind(fn.name), Pos: p.pos(fn.fi, pos)})
		}
		// direct writes
		for _, fn := range fns {
			fn := fn
			lhs := func(l ast.Expr, pos token.Pos) {
				switch x := l.(type) {
				case *ast.IndexExpr:
					if k, ok := paramOf(fn, x.X); ok {
						record(fn, k, "elem", pos)
					}
				case *ast.StarExpr:
					if k, ok := paramOf(fn, x.X); ok {
						record(fn, k, "elem", pos)
					}
				}
			}
			ast.Inspect(fn.fd.Body, func(n ast.Node) bool {
				switch x := n.(type) {
				case *ast.AssignStmt:
					if x.Tok != token.DEFINE {
						for _, l := range x.Lhs {
							lhs(l, l.Pos())
						}
					}
				case *ast.IncDecStmt:
					lhs(x.X, x.Pos())
				case *ast.CallExpr:
					switch f := x.Fun.(type) {
					case *ast.Ident:
						if f.Obj == nil && len(x.Args) > 0 {
							switch f.Name {
							case "copy":
								if k, ok := paramOf(fn, x.Args[0]); ok {
									record(fn, k, "copyDst", x.Pos())
								}
							case "delete", "clear":
								if k, ok := paramOf(fn, x.Args[0]); ok {
									record(fn, k, "delete", x.Pos())
								}
							case "append":
								if se, ok := x.Args[0].(*ast.SliceExpr); ok {
									if k, ok := paramOf(fn, se.X); ok {
										record(fn, k, "appendIn", x.Pos())
									}
								}
							}
						}
					case *ast.SelectorExpr:
						if id, ok := f.X.(*ast.Ident); ok && id.Obj == nil && sortFuncs[id.Name][f.Sel.Name] && len(x.Args) > 0 {
							arg := x.Args[0]
							// sort.Sort(sort.StringSlice(param)) / sort.Sort(sort.Reverse(sort.StringSlice(param)))
							for {
								if c, ok := arg.(*ast.CallExpr); ok && len(c.Args) == 1 {
									arg = c.Args[0]
									continue
								}
								break
							}
							if k, ok := paramOf(fn, arg); ok {
								record(fn, k, "sort", x.Pos())
							}
						}
					}
				}
				return true
			})
		}
		// handed on to a function of the package that writes through the corresponding parameter
		for round := 0; round < 5; round++ {
			changed := false
			for _, fn := range fns {
				fn := fn
				ast.Inspect(fn.fd.Body, func(n ast.Node) bool {
					c, ok := n.(*ast.CallExpr)
					if !ok {
						return true
					}
					var callee string
					switch f := c.Fun.(type) {
					case *ast.Ident:
						callee = f.Name
					case *ast.SelectorExpr:
						callee = f.Sel.Name
					case *ast.IndexExpr: // generic instantiation f[T](…)
						if id, ok := f.X.(*ast.Ident); ok {
							callee = id.Name
						}
					}
					for _, g := range byName[callee] {
						for ai, a := range c.Args {
							k, ok := paramOf(fn, a)
							if !ok {
								continue
							}
							gi := ai
							if gi >= len(g.params) { // variadic tail
								gi = len(g.params) - 1
							}
							if gi >= 0 && g.wrote[gi] && !fn.wrote[k] {
								record(fn, k, "via", c.Pos())
								changed = true
							}
						}
					}
					return true
				})
			}
			if !changed {
				break
			}
		}
	}
	return rows
}
