package main

// C10 extractors (go/parser + go/ast only):
//
//	classes: for every struct type of package ast that implements ast.Node, the ast interfaces whose
//	         method names are all in its method set (own methods + methods promoted from embedded
//	         structs), and the NodeType constant its GetType() returns when the body is a single
//	         `return NodeTypeX`            -> Generated/C10Classes.lean, facts/c10_classes.json
//	sites:   every single-value (unchecked) type assertion, every dereference `*x` of an identifier
//	         in expression position and every index with a constant subscript in the listener /
//	         transform / eval / cursor files -> Generated/C10Sites.lean, facts/c10_sites.json
//	wiring:  which error listeners zitiql.parse installs on the lexer and on the parser
//	                                        -> Generated/C10Sites.lean, facts/c10_wiring.json
import (
	"bytes"
	"encoding/json"
	"fmt"
	"go/ast"
	"go/parser"
	"go/printer"
	"go/token"
	"os"
	"path/filepath"
	"sort"
	"strings"
)

var c10Ifaces = []string{"AsStringArrayable", "BoolNode", "BoolTypeTransformable", "DatetimeNode", "Float64Node", "Int64Node",
	"Node", "Query", "SeekOptimizableBoolNode", "SortField", "StringNode", "SymbolNode", "TypeTransformable"}

type c10Class struct {
	Name    string   `json:"name"`
	Ifaces  []string `json:"ifaces"`
	GetType string   `json:"getType"`
}

func c10ParseDir(dir string) (*token.FileSet, []*ast.File, []string) {
	fset := token.NewFileSet()
	ents, _ := os.ReadDir(dir)
	var files []*ast.File
	var names []string
	for _, e := range ents {
		n := e.Name()
		if !strings.HasSuffix(n, ".go") || strings.HasSuffix(n, "_test.go") {
			continue
		}
		f, err := parser.ParseFile(fset, filepath.Join(dir, n), nil, 0)
		if err != nil {
			continue
		}
		files = append(files, f)
		names = append(names, n)
	}
	return fset, files, names
}

func c10RecvName(fd *ast.FuncDecl) string {
	if fd.Recv == nil || len(fd.Recv.List) == 0 {
		return ""
	}
	t := fd.Recv.List[0].Type
	if s, ok := t.(*ast.StarExpr); ok {
		t = s.X
	}
	if ix, ok := t.(*ast.IndexExpr); ok {
		t = ix.X
	}
	if id, ok := t.(*ast.Ident); ok {
		return id.Name
	}
	return ""
}

func extractC10Classes(repo, gen, facts string) {
	_, files, _ := c10ParseDir(filepath.Join(repo, "ast"))
	ifaceMethods := map[string][]string{} // own methods
	ifaceEmbeds := map[string][]string{}
	structEmbeds := map[string][]string{}
	methods := map[string]map[string]bool{}
	getType := map[string]string{}
	for _, f := range files {
		for _, d := range f.Decls {
			switch d := d.(type) {
			case *ast.GenDecl:
				for _, sp := range d.Specs {
					ts, ok := sp.(*ast.TypeSpec)
					if !ok {
						continue
					}
					switch t := ts.Type.(type) {
					case *ast.InterfaceType:
						for _, m := range t.Methods.List {
							if len(m.Names) == 0 {
								switch e := m.Type.(type) {
								case *ast.Ident:
									ifaceEmbeds[ts.Name.Name] = append(ifaceEmbeds[ts.Name.Name], e.Name)
								case *ast.SelectorExpr: // fmt.Stringer
									if e.Sel.Name == "Stringer" {
										ifaceMethods[ts.Name.Name] = append(ifaceMethods[ts.Name.Name], "String")
									}
								}
							} else {
								for _, n := range m.Names {
									ifaceMethods[ts.Name.Name] = append(ifaceMethods[ts.Name.Name], n.Name)
								}
							}
						}
						if _, ok := ifaceMethods[ts.Name.Name]; !ok {
							ifaceMethods[ts.Name.Name] = nil
						}
					case *ast.StructType:
						structEmbeds[ts.Name.Name] = nil
						for _, fl := range t.Fields.List {
							if len(fl.Names) == 0 {
								ft := fl.Type
								if s, ok := ft.(*ast.StarExpr); ok {
									ft = s.X
								}
								if id, ok := ft.(*ast.Ident); ok {
									structEmbeds[ts.Name.Name] = append(structEmbeds[ts.Name.Name], id.Name)
								}
							}
						}
					}
				}
			case *ast.FuncDecl:
				r := c10RecvName(d)
				if r == "" {
					continue
				}
				if methods[r] == nil {
					methods[r] = map[string]bool{}
				}
				methods[r][d.Name.Name] = true
				if d.Name.Name == "GetType" && d.Body != nil && len(d.Body.List) == 1 {
					if ret, ok := d.Body.List[0].(*ast.ReturnStmt); ok && len(ret.Results) == 1 {
						if id, ok := ret.Results[0].(*ast.Ident); ok {
							getType[r] = id.Name
						}
					}
				}
			}
		}
	}
	var allIface func(name string, seen map[string]bool) []string
	allIface = func(name string, seen map[string]bool) []string {
		if seen[name] {
			return nil
		}
		seen[name] = true
		res := append([]string{}, ifaceMethods[name]...)
		for _, e := range ifaceEmbeds[name] {
			res = append(res, allIface(e, seen)...)
		}
		return res
	}
	var methodSet func(name string, seen map[string]bool) map[string]bool
	methodSet = func(name string, seen map[string]bool) map[string]bool {
		res := map[string]bool{}
		if seen[name] {
			return res
		}
		seen[name] = true
		for m := range methods[name] {
			res[m] = true
		}
		for _, e := range structEmbeds[name] {
			for m := range methodSet(e, seen) {
				res[m] = true
			}
		}
		return res
	}
	getTypeOf := func(name string) string {
		if g, ok := getType[name]; ok {
			return g
		}
		if methods[name]["GetType"] {
			return ""
		}
		for _, e := range structEmbeds[name] {
			if g, ok := getType[e]; ok {
				return g
			}
		}
		return ""
	}
	var classes []c10Class
	for name := range structEmbeds {
		ms := methodSet(name, map[string]bool{})
		c := c10Class{Name: name, Ifaces: []string{}, GetType: getTypeOf(name)}
		for _, in := range c10Ifaces {
			need := allIface(in, map[string]bool{})
			ok := len(need) > 0
			for _, m := range need {
				if !ms[m] {
					ok = false
				}
			}
			if ok {
				c.Ifaces = append(c.Ifaces, in)
			}
		}
		isNode := false
		for _, i := range c.Ifaces {
			if i == "Node" {
				isNode = true
			}
		}
		if isNode {
			classes = append(classes, c)
		}
	}
	sort.Slice(classes, func(i, j int) bool { return classes[i].Name < classes[j].Name })
	js, _ := json.MarshalIndent(classes, "", " ")
	writeIfChanged(filepath.Join(facts, "c10_classes.json"), string(js)+"\n")
	var b strings.Builder
	b.WriteString("/- GENERATED by /verif/extract (c10.go) from ast/*.go — do not edit.\n")
	b.WriteString("   (Go struct implementing ast.Node, ast interfaces it implements, constant GetType() or \"\") -/\n")
	b.WriteString("namespace StorageModel.Generated.C10\n")
	b.WriteString("def classTable : List (String × List String × String) := [\n")
	for i, c := range classes {
		q := make([]string, len(c.Ifaces))
		for k, s := range c.Ifaces {
			q[k] = fmt.Sprintf("%q", s)
		}
		sep := ","
		if i == len(classes)-1 {
			sep = ""
		}
		fmt.Fprintf(&b, "  (%q, [%s], %q)%s\n", c.Name, strings.Join(q, ", "), c.GetType, sep)
	}
	b.WriteString("]\n")
	// the same table in numbers, for fast evaluation: row k describes the k-th class of the (sorted)
	// table; bit j of the mask is set when the class implements the j-th interface of
	// [AsStringArrayable BoolNode BoolTypeTransformable DatetimeNode Float64Node Int64Node Node Query
	//  SeekOptimizableBoolNode SortField StringNode SymbolNode TypeTransformable]; the last number is the
	// constant GetType(): 0 Bool 1 Datetime 2 Float64 3 Int64 4 String 5 AnyType 6 Other 7 none
	b.WriteString("def classRows : List (Nat × Nat) := [")
	ntCode := map[string]int{"NodeTypeBool": 0, "NodeTypeDatetime": 1, "NodeTypeFloat64": 2, "NodeTypeInt64": 3, "NodeTypeString": 4, "NodeTypeAnyType": 5, "NodeTypeOther": 6}
	for i, c := range classes {
		mask := 0
		for j, in := range c10Ifaces {
			for _, have := range c.Ifaces {
				if have == in {
					mask |= 1 << j
				}
			}
		}
		code, ok := ntCode[c.GetType]
		if !ok {
			code = 7
		}
		if i > 0 {
			b.WriteString(", ")
		}
		fmt.Fprintf(&b, "(%d, %d)", mask, code)
	}
	b.WriteString("]\nend StorageModel.Generated.C10\n")
	writeIfChanged(filepath.Join(gen, "C10Classes.lean"), b.String())
}

// --------------------------------------------------------------------------------- sites

type c10Site struct {
	File string `json:"file"`
	Func string `json:"func"`
	Kind string `json:"kind"` // assert | deref | index | slice
	Expr string `json:"expr"`
	// number of occurrences in the function, and (deref only) whether the function compares the
	// dereferenced identifier with nil anywhere (`x == nil` / `x != nil`)
	Count      int  `json:"count"`
	NilChecked bool `json:"nilChecked"`
}

func c10ExprText(fset *token.FileSet, e ast.Node) string {
	var buf bytes.Buffer
	_ = printer.Fprint(&buf, fset, e)
	return strings.Join(strings.Fields(buf.String()), " ")
}

func c10FuncLabel(fd *ast.FuncDecl) string {
	if r := c10RecvName(fd); r != "" {
		return r + "." + fd.Name.Name
	}
	return fd.Name.Name
}

// pointer types written with a builtin element type (`x.(*bool)`) are not dereferences
var c10BuiltinTypes = map[string]bool{"bool": true, "string": true, "int": true, "int32": true, "int64": true, "float64": true,
	"byte": true, "uint64": true, "uint32": true, "any": true}

// c10FuncFilter: for files of which only some functions belong to the modelled path
var c10FuncFilter = map[string]func(label string) bool{
	"boltz/typed_bucket.go": func(l string) bool { return strings.HasPrefix(l, "FieldTo") || strings.HasPrefix(l, "BytesTo") },
	"boltz/store_query.go": func(l string) bool {
		return strings.HasSuffix(l, ".newRowComparator") || strings.HasSuffix(l, ".NewScanner") || strings.HasSuffix(l, ".QueryIdsC")
	},
}

func c10SitesOfFile(fset *token.FileSet, rel string, f *ast.File, typeNames map[string]bool) []c10Site {
	var res []c10Site
	add := func(label, kind, expr string, nilChecked bool) {
		for i := range res {
			if res[i].Func == label && res[i].Kind == kind && res[i].Expr == expr {
				res[i].Count++
				return
			}
		}
		res = append(res, c10Site{File: rel, Func: label, Kind: kind, Expr: expr, Count: 1, NilChecked: nilChecked})
	}
	for _, d := range f.Decls {
		fd, ok := d.(*ast.FuncDecl)
		if !ok || fd.Body == nil {
			continue
		}
		label := c10FuncLabel(fd)
		if flt, ok := c10FuncFilter[rel]; ok && !flt(label) {
			continue
		}
		checked := map[*ast.TypeAssertExpr]bool{}
		nilCmp := map[string]bool{}
		nilCmpCall := map[string]bool{}
		ast.Inspect(fd.Body, func(n ast.Node) bool {
			switch s := n.(type) {
			case *ast.BinaryExpr:
				if s.Op == token.EQL || s.Op == token.NEQ {
					if y, ok := s.Y.(*ast.Ident); ok && y.Name == "nil" {
						if x, ok := s.X.(*ast.Ident); ok {
							nilCmp[x.Name] = true
						}
						if x, ok := s.X.(*ast.CallExpr); ok {
							nilCmpCall[c10ExprText(fset, x)] = true
						}
					}
				}
			case *ast.AssignStmt:
				if len(s.Lhs) == 2 && len(s.Rhs) == 1 {
					if ta, ok := s.Rhs[0].(*ast.TypeAssertExpr); ok {
						checked[ta] = true
					}
				}
			case *ast.ValueSpec:
				if len(s.Names) == 2 && len(s.Values) == 1 {
					if ta, ok := s.Values[0].(*ast.TypeAssertExpr); ok {
						checked[ta] = true
					}
				}
			}
			return true
		})
		ast.Inspect(fd.Body, func(n ast.Node) bool {
			switch e := n.(type) {
			case *ast.TypeAssertExpr:
				if e.Type != nil && !checked[e] {
					add(label, "assert", c10ExprText(fset, e), false)
				}
			case *ast.StarExpr:
				if id, ok := e.X.(*ast.Ident); ok && !typeNames[id.Name] && !c10BuiltinTypes[id.Name] {
					add(label, "deref", "*"+id.Name, nilCmp[id.Name])
				}
				// `*f(x)`: dereference of a call result (checked = the same call is compared with nil)
				if call, ok := e.X.(*ast.CallExpr); ok {
					if _, isParen := call.Fun.(*ast.ParenExpr); !isParen {
						txt := c10ExprText(fset, call)
						add(label, "deref", "*"+txt, nilCmpCall[txt])
					}
				}
			case *ast.IndexExpr:
				switch ix := e.Index.(type) {
				case *ast.BasicLit:
					_ = ix
					add(label, "index", c10ExprText(fset, e), false)
				case *ast.BinaryExpr:
					if _, ok := ix.Y.(*ast.BasicLit); ok {
						add(label, "index", c10ExprText(fset, e), false)
					}
				}
			case *ast.SliceExpr:
				add(label, "slice", c10ExprText(fset, e), false)
			}
			return true
		})
	}
	return res
}

type c10Wiring struct {
	LexerCollects  bool   `json:"lexerCollects"`  // lexer.AddErrorListener(<the collecting listener parameter>)
	LexerSilenced  bool   `json:"lexerSilenced"`  // lexer.RemoveErrorListeners()
	ParserCollects bool   `json:"parserCollects"` // p.AddErrorListener(<the collecting listener parameter>)
	ListenerWalked bool   `json:"listenerWalked"` // ParseTreeWalkerDefault.Walk(l, tree)
	ParserCleared  bool   `json:"parserCleared"`  // p.RemoveErrorListeners() as a plain top-level statement (every path, before use)
	ParserClearedDeferred bool `json:"parserClearedDeferred"` // defer p.RemoveErrorListeners(): nothing left behind in the pool
	Note           string `json:"note,omitempty"`
}

func extractC10Wiring(repo string) c10Wiring {
	w := c10Wiring{}
	fset := token.NewFileSet()
	f, err := parser.ParseFile(fset, filepath.Join(repo, "zitiql", "util.go"), nil, 0)
	if err != nil {
		w.Note = "parse error"
		return w
	}
	for _, d := range f.Decls {
		fd, ok := d.(*ast.FuncDecl)
		if !ok || fd.Name.Name != "parse" || fd.Recv != nil || fd.Body == nil {
			continue
		}
		// the collecting listener is the parameter of type antlr.ErrorListener
		elName := ""
		for _, p := range fd.Type.Params.List {
			if se, ok := p.Type.(*ast.SelectorExpr); ok && se.Sel.Name == "ErrorListener" && len(p.Names) == 1 {
				elName = p.Names[0].Name
			}
		}
		// variables holding the lexer / the parser: assigned from <x>Pool.Get().(*ZitiQlLexer|*ZitiQlParser)
		kind := map[string]string{}
		ast.Inspect(fd.Body, func(n ast.Node) bool {
			as, ok := n.(*ast.AssignStmt)
			if !ok || len(as.Lhs) != 1 || len(as.Rhs) != 1 {
				return true
			}
			id, ok := as.Lhs[0].(*ast.Ident)
			if !ok {
				return true
			}
			txt := c10ExprText(fset, as.Rhs[0])
			if strings.Contains(txt, "ZitiQlLexer") {
				kind[id.Name] = "lexer"
			} else if strings.Contains(txt, "ZitiQlParser") {
				kind[id.Name] = "parser"
			}
			return true
		})
		// top-level statements of the body: plain / deferred `p.RemoveErrorListeners()`
		for _, st := range fd.Body.List {
			var call *ast.CallExpr
			deferred := false
			switch x := st.(type) {
			case *ast.ExprStmt:
				call, _ = x.X.(*ast.CallExpr)
			case *ast.DeferStmt:
				call, deferred = x.Call, true
			}
			if call == nil {
				continue
			}
			if se, ok := call.Fun.(*ast.SelectorExpr); ok && se.Sel.Name == "RemoveErrorListeners" {
				if recv, ok := se.X.(*ast.Ident); ok && kind[recv.Name] == "parser" {
					if deferred {
						w.ParserClearedDeferred = true
					} else {
						w.ParserCleared = true
					}
				}
			}
		}
		ast.Inspect(fd.Body, func(n ast.Node) bool {
			call, ok := n.(*ast.CallExpr)
			if !ok {
				return true
			}
			se, ok := call.Fun.(*ast.SelectorExpr)
			if !ok {
				return true
			}
			if se.Sel.Name == "Walk" && len(call.Args) == 2 {
				w.ListenerWalked = true
			}
			recv, ok := se.X.(*ast.Ident)
			if !ok {
				return true
			}
			switch se.Sel.Name {
			case "AddErrorListener":
				if len(call.Args) == 1 {
					if a, ok := call.Args[0].(*ast.Ident); ok && a.Name == elName && elName != "" {
						if kind[recv.Name] == "lexer" {
							w.LexerCollects = true
						}
						if kind[recv.Name] == "parser" {
							w.ParserCollects = true
						}
					}
				}
			case "RemoveErrorListeners":
				if kind[recv.Name] == "lexer" {
					w.LexerSilenced = true
				}
			}
			return true
		})
	}
	return w
}

func extractC10Sites(repo, gen, facts string) {
	var sites []c10Site
	add := func(dir string, match func(string) bool) {
		fset, files, names := c10ParseDir(filepath.Join(repo, dir))
		typeNames := map[string]bool{}
		for _, f := range files {
			for _, d := range f.Decls {
				if gd, ok := d.(*ast.GenDecl); ok {
					for _, sp := range gd.Specs {
						if ts, ok := sp.(*ast.TypeSpec); ok {
							typeNames[ts.Name.Name] = true
						}
					}
				}
			}
		}
		for i, f := range files {
			if match(names[i]) {
				sites = append(sites, c10SitesOfFile(fset, dir+"/"+names[i], f, typeNames)...)
			}
		}
	}
	add("ast", func(n string) bool {
		return n == "bolt_listener.go" || n == "node_convert.go" || n == "cursors.go" || n == "helper.go" || strings.HasPrefix(n, "node_")
	})
	add("boltz", func(n string) bool {
		return n == "query_cursor.go" || n == "query_sort.go" || n == "query_scanners.go" || n == "store_query.go" || n == "typed_bucket.go"
	})
	add("zitiql", func(n string) bool { return n == "util.go" })
	add("objectz", func(n string) bool { return !strings.HasSuffix(n, "_test.go") })
	sort.SliceStable(sites, func(i, j int) bool {
		a, b := sites[i], sites[j]
		if a.File != b.File {
			return a.File < b.File
		}
		if a.Func != b.Func {
			return a.Func < b.Func
		}
		if a.Kind != b.Kind {
			return a.Kind < b.Kind
		}
		return a.Expr < b.Expr
	})
	js, _ := json.MarshalIndent(sites, "", " ")
	writeIfChanged(filepath.Join(facts, "c10_sites.json"), string(js)+"\n")
	w := extractC10Wiring(repo)
	jw, _ := json.MarshalIndent(w, "", " ")
	writeIfChanged(filepath.Join(facts, "c10_wiring.json"), string(jw)+"\n")

	// listener methods of ToBoltListener (a new callback is a new piece of the stack machine)
	_, files, names := c10ParseDir(filepath.Join(repo, "ast"))
	var callbacks []string
	for i, f := range files {
		if names[i] != "bolt_listener.go" {
			continue
		}
		for _, d := range f.Decls {
			if fd, ok := d.(*ast.FuncDecl); ok && c10RecvName(fd) == "ToBoltListener" {
				n := fd.Name.Name
				if strings.HasPrefix(n, "Enter") || strings.HasPrefix(n, "Exit") || strings.HasPrefix(n, "Visit") {
					callbacks = append(callbacks, n)
				}
			}
		}
	}
	sort.Strings(callbacks)

	var b strings.Builder
	b.WriteString("/- GENERATED by /verif/extract (c10.go) — do not edit.\n")
	b.WriteString("   partialSites: (file, function, kind, expression) of every single-value type assertion, identifier\n")
	b.WriteString("   dereference, constant index and slice expression in the listener / transform / eval / cursor files.\n")
	b.WriteString("   wiring: (lexer gets the collecting listener, lexer's default listeners removed, parser gets the\n")
	b.WriteString("   collecting listener, listener walked over the tree) in zitiql.parse. -/\n")
	b.WriteString("namespace StorageModel.Generated.C10\n")
	b.WriteString("def partialSites : List (String × String × String × String × Nat × Bool) := [\n")
	for i, s := range sites {
		sep := ","
		if i == len(sites)-1 {
			sep = ""
		}
		fmt.Fprintf(&b, "  (%q, %q, %q, %q, %d, %v)%s\n", s.File, s.Func, s.Kind, s.Expr, s.Count, s.NilChecked, sep)
	}
	b.WriteString("]\n")
	fmt.Fprintf(&b, "def wiring : Bool × Bool × Bool × Bool := (%v, %v, %v, %v)\n", w.LexerCollects, w.LexerSilenced, w.ParserCollects, w.ListenerWalked)
	fmt.Fprintf(&b, "/-- pooled parser: listeners removed before use on every path, and again (deferred) after use -/\ndef wiringPool : Bool × Bool := (%v, %v)\n", w.ParserCleared, w.ParserClearedDeferred)
	fmt.Fprintf(&b, "/-- objectz memSortingScanner.Scan: does `cursor == nil` come before the first `cursor.Current()` -/\ndef objScanNilTestFirst : Bool := %v\n", c10ObjScanNilTestFirst(repo))
	fmt.Fprintf(&b, "/-- ast.Parse: the listener handed to zitiql.Parse is a local variable whose only definition in the function is\n    `:= NewListener()`, and NewListener returns a composite literal with fresh `&Stack{}` operand stacks and no error -/\ndef astParseListenerPerCall : Bool := %v\n", c10AstParseListenerPerCall(repo))
	b.WriteString("def listenerCallbacks : List String := [")
	for i, c := range callbacks {
		if i > 0 {
			b.WriteString(", ")
		}
		fmt.Fprintf(&b, "%q", c)
	}
	b.WriteString("]\nend StorageModel.Generated.C10\n")
	writeIfChanged(filepath.Join(gen, "C10Sites.lean"), b.String())
}

// c10ObjScanNilTestFirst: in objectz/object_store.go memSortingScanner.Scan, is the iterator compared
// with nil before it is first used (`cursor.Current()`)?  false also when the function is not found.
func c10ObjScanNilTestFirst(repo string) bool {
	fset := token.NewFileSet()
	f, err := parser.ParseFile(fset, filepath.Join(repo, "objectz", "object_store.go"), nil, 0)
	if err != nil {
		return false
	}
	for _, d := range f.Decls {
		fd, ok := d.(*ast.FuncDecl)
		if !ok || fd.Body == nil || fd.Name.Name != "Scan" || c10RecvName(fd) != "memSortingScanner" {
			continue
		}
		firstUse, nilTest := token.NoPos, token.NoPos
		ast.Inspect(fd.Body, func(n ast.Node) bool {
			switch e := n.(type) {
			case *ast.CallExpr:
				if se, ok := e.Fun.(*ast.SelectorExpr); ok {
					if id, ok := se.X.(*ast.Ident); ok && id.Name == "cursor" && firstUse == token.NoPos {
						firstUse = e.Pos()
					}
				}
			case *ast.BinaryExpr:
				if x, ok := e.X.(*ast.Ident); ok && x.Name == "cursor" && e.Op == token.EQL {
					if y, ok := e.Y.(*ast.Ident); ok && y.Name == "nil" && nilTest == token.NoPos {
						nilTest = e.Pos()
					}
				}
			}
			return true
		})
		return nilTest != token.NoPos && (firstUse == token.NoPos || nilTest < firstUse)
	}
	return false
}

// c10AstParseListenerPerCall: in ast/helper.go Parse, is the listener that is handed to zitiql.Parse /
// ParseWithDebug an identifier that the function defines exactly once, by `x := NewListener()`, never
// assigns again and never takes from anywhere else (a pool, a package variable, a parameter); and does
// NewListener (ast/bolt_listener.go) return `&ToBoltListener{...}` whose stacks / currentStack fields are
// `&Stack{}` and whose err field is absent or nil?  false also when anything is not found.
func c10AstParseListenerPerCall(repo string) bool {
	fset := token.NewFileSet()
	f, err := parser.ParseFile(fset, filepath.Join(repo, "ast", "helper.go"), nil, 0)
	if err != nil {
		return false
	}
	okParse := false
	for _, d := range f.Decls {
		fd, ok := d.(*ast.FuncDecl)
		if !ok || fd.Body == nil || fd.Recv != nil || fd.Name.Name != "Parse" {
			continue
		}
		// the identifier passed as listener
		name := ""
		calls := 0
		ast.Inspect(fd.Body, func(n ast.Node) bool {
			ce, ok := n.(*ast.CallExpr)
			if !ok {
				return true
			}
			se, ok := ce.Fun.(*ast.SelectorExpr)
			if !ok {
				return true
			}
			pkg, ok := se.X.(*ast.Ident)
			if !ok || pkg.Name != "zitiql" || (se.Sel.Name != "Parse" && se.Sel.Name != "ParseWithDebug") || len(ce.Args) < 2 {
				return true
			}
			calls++
			if id, ok := ce.Args[1].(*ast.Ident); ok {
				if name == "" || name == id.Name {
					name = id.Name
				} else {
					name = "?"
				}
			} else {
				name = "?"
			}
			return true
		})
		if calls == 0 || name == "" || name == "?" {
			return false
		}
		for _, p := range fd.Type.Params.List {
			for _, n := range p.Names {
				if n.Name == name {
					return false
				}
			}
		}
		defs, fresh := 0, 0
		ast.Inspect(fd.Body, func(n ast.Node) bool {
			switch st := n.(type) {
			case *ast.AssignStmt:
				for i, l := range st.Lhs {
					if id, ok := l.(*ast.Ident); ok && id.Name == name {
						defs++
						if st.Tok == token.DEFINE && len(st.Lhs) == len(st.Rhs) {
							if ce, ok := st.Rhs[i].(*ast.CallExpr); ok && len(ce.Args) == 0 {
								if fn, ok := ce.Fun.(*ast.Ident); ok && fn.Name == "NewListener" {
									fresh++
								}
							}
						}
					}
				}
			case *ast.ValueSpec:
				for _, id := range st.Names {
					if id.Name == name {
						defs++
					}
				}
			case *ast.UnaryExpr:
				// &listener: could be re-pointed through the address
				if id, ok := st.X.(*ast.Ident); ok && st.Op == token.AND && id.Name == name {
					defs++
				}
			}
			return true
		})
		okParse = defs == 1 && fresh == 1
	}
	if !okParse {
		return false
	}
	g, err := parser.ParseFile(fset, filepath.Join(repo, "ast", "bolt_listener.go"), nil, 0)
	if err != nil {
		return false
	}
	for _, d := range g.Decls {
		fd, ok := d.(*ast.FuncDecl)
		if !ok || fd.Body == nil || fd.Recv != nil || fd.Name.Name != "NewListener" {
			continue
		}
		if len(fd.Body.List) != 1 {
			return false
		}
		rs, ok := fd.Body.List[0].(*ast.ReturnStmt)
		if !ok || len(rs.Results) != 1 {
			return false
		}
		ue, ok := rs.Results[0].(*ast.UnaryExpr)
		if !ok || ue.Op != token.AND {
			return false
		}
		cl, ok := ue.X.(*ast.CompositeLit)
		if !ok {
			return false
		}
		if id, ok := cl.Type.(*ast.Ident); !ok || id.Name != "ToBoltListener" {
			return false
		}
		freshStack := func(e ast.Expr) bool {
			u, ok := e.(*ast.UnaryExpr)
			if !ok || u.Op != token.AND {
				return false
			}
			c, ok := u.X.(*ast.CompositeLit)
			if !ok || len(c.Elts) != 0 {
				return false
			}
			id, ok := c.Type.(*ast.Ident)
			return ok && id.Name == "Stack"
		}
		stacks, cur, errOk := false, false, true
		for _, el := range cl.Elts {
			kv, ok := el.(*ast.KeyValueExpr)
			if !ok {
				return false
			}
			k, ok := kv.Key.(*ast.Ident)
			if !ok {
				return false
			}
			switch k.Name {
			case "stacks":
				stacks = freshStack(kv.Value)
			case "currentStack":
				cur = freshStack(kv.Value)
			case "err":
				id, ok := kv.Value.(*ast.Ident)
				errOk = ok && id.Name == "nil"
			}
		}
		return stacks && cur && errOk
	}
	return false
}

func extractC10(repo, gen, facts string) {
	extractC10Classes(repo, gen, facts)
	extractC10Sites(repo, gen, facts)
	extractC10Lexer(repo, gen, facts)
	extractC10Buckets(repo, gen, facts)
}
