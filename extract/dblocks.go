package main

import (
	"encoding/json"
	"fmt"
	"go/ast"
	"go/parser"
	"go/token"
	"go/types"
	"path/filepath"
	"sort"
	"strings"
)

// extractDbLocks reads boltz/db.go and writes, for every entry point of *DbImpl, the sequence of
// lock / database-handle events on its main path, with calls between DbImpl methods inlined:
//
//	rlock runlock wlock wunlock   self.reloadLock.RLock/RUnlock/Lock/Unlock (a deferred unlock is
//	                              placed at the end of the function that defers it)
//	dbtx                          self.db.View / Update / Batch  (a bolt transaction on the open handle)
//	copy                          <tx>.CopyFile / <tx>.WriteTo
//	persist                       os.Create (persistSnapshot)
//	close reopen rename             self.db.Close, bbolt.Open, os.Rename
//	fire                          a `go` statement (restore listeners)
//
// Main path: an `if` whose body ends in return/panic is an error path and is skipped, except
// `if ctx.Tx() == nil { … }` (the top-level-transaction path of Update/Batch), which is taken and
// ends the function.  Function-literal arguments are inlined where the callee calls them or hands
// them to self.db.View/Update/Batch.  Calls on other receivers (the second DbImpl opened by
// MarkAsSnapshot) are not followed: they use another lock.
//
// Also written: the field list of `type DbImpl struct` (name, type) — the state a DbImpl carries between
// calls (and the package-level variables of db.go).  The model's `Sys` accounts for exactly these (handle, lock, listener slices); a new field (a
// cache of something read from the file, say) is state the model does not have.
//
// Output: lean/StorageModel/Generated/DbLocks.lean and facts/dblocks.json.
type dbLockWalker struct {
	methods map[string]*ast.FuncDecl
	recv    map[string]string // method -> receiver name
	note    []string
	nested  bool // walk the path taken when the method is called from INSIDE a transaction (ctx.Tx() != nil)
}

type dbFrame struct {
	recv     string
	bind     map[string]ast.Expr // parameter name -> argument expression (function literals / bound idents)
	bindEnv  map[string]*dbFrame // the frame in which the bound expression must be resolved
	deferred []string
	out      *[]string
	depth    int
	done     bool
}

func (w *dbLockWalker) lockCall(call *ast.CallExpr, recv string) (string, bool) {
	se, ok := call.Fun.(*ast.SelectorExpr)
	if !ok {
		return "", false
	}
	inner, ok := se.X.(*ast.SelectorExpr)
	if !ok {
		return "", false
	}
	id, ok := inner.X.(*ast.Ident)
	if !ok || id.Name != recv || inner.Sel.Name != "reloadLock" {
		return "", false
	}
	switch se.Sel.Name {
	case "RLock":
		return "rlock", true
	case "RUnlock":
		return "runlock", true
	case "Lock":
		return "wlock", true
	case "Unlock":
		return "wunlock", true
	}
	return "", false
}

func terminates(b *ast.BlockStmt) bool {
	if b == nil || len(b.List) == 0 {
		return false
	}
	switch s := b.List[len(b.List)-1].(type) {
	case *ast.ReturnStmt:
		return true
	case *ast.ExprStmt:
		if c, ok := s.X.(*ast.CallExpr); ok {
			if id, ok := c.Fun.(*ast.Ident); ok && id.Name == "panic" {
				return true
			}
		}
	}
	return false
}

func exprText(e ast.Expr) string {
	switch x := e.(type) {
	case *ast.Ident:
		return x.Name
	case *ast.SelectorExpr:
		return exprText(x.X) + "." + x.Sel.Name
	case *ast.CallExpr:
		return exprText(x.Fun) + "()"
	case *ast.BinaryExpr:
		return exprText(x.X) + " " + x.Op.String() + " " + exprText(x.Y)
	}
	return "?"
}

func (w *dbLockWalker) emit(f *dbFrame, ev string) { *f.out = append(*f.out, ev) }

// inlineFunc runs a function value (literal, or identifier bound to one) in a fresh frame
func (w *dbLockWalker) inlineFunc(f *dbFrame, e ast.Expr) {
	if f.depth > 8 {
		w.note = append(w.note, "inline depth exceeded")
		return
	}
	switch x := e.(type) {
	case *ast.FuncLit:
		nf := &dbFrame{recv: f.recv, bind: f.bind, bindEnv: f.bindEnv, out: f.out, depth: f.depth + 1}
		w.block(nf, x.Body)
		w.finish(nf)
	case *ast.Ident:
		if b, ok := f.bind[x.Name]; ok {
			env := f.bindEnv[x.Name]
			nf := &dbFrame{recv: env.recv, bind: env.bind, bindEnv: env.bindEnv, out: f.out, depth: f.depth + 1}
			w.inlineFunc(nf, b)
		}
	}
}

func (w *dbLockWalker) finish(f *dbFrame) {
	for i := len(f.deferred) - 1; i >= 0; i-- {
		w.emit(f, f.deferred[i])
	}
	f.deferred = nil
}

func (w *dbLockWalker) call(f *dbFrame, call *ast.CallExpr, deferred bool) {
	if ev, ok := w.lockCall(call, f.recv); ok {
		if deferred {
			f.deferred = append(f.deferred, ev)
		} else {
			w.emit(f, ev)
		}
		return
	}
	if deferred {
		return // other deferred calls (ctx.setTx(nil), closures closing files) carry no lock events
	}
	// arguments first (nested calls such as bytes.NewBuffer(..) or self.db.Path())
	for _, a := range call.Args {
		if _, isLit := a.(*ast.FuncLit); !isLit {
			w.expr(f, a)
		}
	}
	switch fun := call.Fun.(type) {
	case *ast.Ident:
		// call of a bound function parameter: fn(ctx)
		if _, ok := f.bind[fun.Name]; ok {
			w.inlineFunc(f, fun)
		}
	case *ast.SelectorExpr:
		text := exprText(fun)
		switch {
		case text == f.recv+".db.View" || text == f.recv+".db.Update" || text == f.recv+".db.Batch":
			w.emit(f, "dbtx")
			for _, a := range call.Args {
				w.inlineFunc(f, a)
			}
		case text == f.recv+".db.Close":
			w.emit(f, "close")
		case text == "bbolt.Open":
			w.emit(f, "reopen")
		case text == "os.Rename":
			w.emit(f, "rename")
		case text == "os.Create":
			w.emit(f, "persist")
		case fun.Sel.Name == "CopyFile" || fun.Sel.Name == "WriteTo":
			w.emit(f, "copy")
		default:
			if id, ok := fun.X.(*ast.Ident); ok && id.Name == f.recv {
				if m, ok := w.methods[fun.Sel.Name]; ok {
					w.inlineMethod(f, m, call.Args)
				}
			}
		}
	}
}

func (w *dbLockWalker) inlineMethod(f *dbFrame, m *ast.FuncDecl, args []ast.Expr) {
	if f.depth > 8 {
		w.note = append(w.note, "inline depth exceeded")
		return
	}
	nf := &dbFrame{recv: w.recv[m.Name.Name], bind: map[string]ast.Expr{}, bindEnv: map[string]*dbFrame{}, out: f.out, depth: f.depth + 1}
	i := 0
	if m.Type.Params != nil {
		for _, p := range m.Type.Params.List {
			for _, n := range p.Names {
				if i < len(args) {
					switch a := args[i].(type) {
					case *ast.FuncLit:
						nf.bind[n.Name] = a
						nf.bindEnv[n.Name] = f
					case *ast.Ident:
						if _, ok := f.bind[a.Name]; ok {
							nf.bind[n.Name] = a
							nf.bindEnv[n.Name] = f
						}
					}
				}
				i++
			}
		}
	}
	w.block(nf, m.Body)
	w.finish(nf)
}

func (w *dbLockWalker) expr(f *dbFrame, e ast.Expr) {
	if e == nil || f.done {
		return
	}
	switch x := e.(type) {
	case *ast.CallExpr:
		w.call(f, x, false)
	case *ast.BinaryExpr:
		w.expr(f, x.X)
		w.expr(f, x.Y)
	case *ast.UnaryExpr:
		w.expr(f, x.X)
	case *ast.ParenExpr:
		w.expr(f, x.X)
	}
}

func (w *dbLockWalker) block(f *dbFrame, b *ast.BlockStmt) {
	if b == nil {
		return
	}
	for _, st := range b.List {
		if f.done {
			return
		}
		w.stmt(f, st)
	}
}

func (w *dbLockWalker) stmt(f *dbFrame, st ast.Stmt) {
	switch s := st.(type) {
	case *ast.ExprStmt:
		w.expr(f, s.X)
	case *ast.AssignStmt:
		for _, r := range s.Rhs {
			w.expr(f, r)
		}
	case *ast.DeclStmt:
		// var x T — no calls of interest
	case *ast.DeferStmt:
		w.call(f, s.Call, true)
	case *ast.GoStmt:
		w.emit(f, "fire")
	case *ast.ReturnStmt:
		for _, r := range s.Results {
			w.expr(f, r)
		}
		f.done = true
	case *ast.IfStmt:
		if s.Init != nil {
			w.stmt(f, s.Init)
		}
		w.expr(f, s.Cond)
		if terminates(s.Body) {
			if exprText(s.Cond) == "ctx.Tx() == nil" && !(w.nested && f.depth == 0) {
				w.block(f, s.Body) // the top-level-transaction path; its return ends the function
			}
			return
		}
		w.block(f, s.Body)
	case *ast.RangeStmt:
		w.block(f, s.Body)
	case *ast.ForStmt:
		w.block(f, s.Body)
	case *ast.BlockStmt:
		w.block(f, s)
	}
}

var dbLockEntryPoints = []string{"Update", "Batch", "View", "Stats", "RootBucket", "Snapshot", "SnapshotInTx",
	"StreamToWriter", "RestoreSnapshot", "RestoreFromReader", "GetSnapshotId", "GetTimelineId"}

func extractDbLocks(repo, gen, facts string) {
	fset := token.NewFileSet()
	file, err := parser.ParseFile(fset, filepath.Join(repo, "boltz", "db.go"), nil, 0)
	w := &dbLockWalker{methods: map[string]*ast.FuncDecl{}, recv: map[string]string{}}
	res := map[string][]string{}
	inTx := map[string][]string{}
	var allNames []string
	var fields [][2]string
	pkgVars := []string{}
	if err != nil {
		w.note = append(w.note, "parse error: "+err.Error())
	} else {
		for _, d := range file.Decls {
			if gd, ok := d.(*ast.GenDecl); ok {
				for _, sp := range gd.Specs {
					if vs, ok := sp.(*ast.ValueSpec); ok && gd.Tok == token.VAR {
						for _, n := range vs.Names {
							pkgVars = append(pkgVars, n.Name)
						}
					}
					ts, ok := sp.(*ast.TypeSpec)
					if !ok || ts.Name.Name != "DbImpl" {
						continue
					}
					st, ok := ts.Type.(*ast.StructType)
					if !ok {
						w.note = append(w.note, "DbImpl is not a struct")
						continue
					}
					for _, fl := range st.Fields.List {
						ty := types.ExprString(fl.Type)
						if len(fl.Names) == 0 {
							fields = append(fields, [2]string{"", ty}) // embedded
						}
						for _, n := range fl.Names {
							fields = append(fields, [2]string{n.Name, ty})
						}
					}
				}
			}
			fd, ok := d.(*ast.FuncDecl)
			if !ok || fd.Recv == nil || len(fd.Recv.List) != 1 || fd.Body == nil {
				continue
			}
			star, ok := fd.Recv.List[0].Type.(*ast.StarExpr)
			if !ok {
				continue
			}
			if id, ok := star.X.(*ast.Ident); !ok || id.Name != "DbImpl" {
				continue
			}
			if len(fd.Recv.List[0].Names) == 1 {
				w.methods[fd.Name.Name] = fd
				w.recv[fd.Name.Name] = fd.Recv.List[0].Names[0].Name
			}
		}
		// the fixed entry points first (the obligations name them), then every other exported method
		var others []string
		for name := range w.methods {
			known := false
			for _, k := range dbLockEntryPoints {
				known = known || k == name
			}
			if !known && ast.IsExported(name) {
				others = append(others, name)
			}
		}
		sort.Strings(others)
		allNames = append(append([]string{}, dbLockEntryPoints...), others...)
		for _, name := range allNames {
			m, ok := w.methods[name]
			if !ok {
				w.note = append(w.note, "missing method "+name)
				continue
			}
			var out []string
			// entry points that take a caller-supplied function get an opaque body marker: nothing
			f := &dbFrame{recv: w.recv[name], bind: map[string]ast.Expr{}, bindEnv: map[string]*dbFrame{}, out: &out}
			w.block(f, m.Body)
			w.finish(f)
			res[name] = out
			// the same method on the path taken when it is called from inside a transaction
			var outN []string
			w.nested = true
			fn := &dbFrame{recv: w.recv[name], bind: map[string]ast.Expr{}, bindEnv: map[string]*dbFrame{}, out: &outN}
			w.block(fn, m.Body)
			w.finish(fn)
			w.nested = false
			inTx[name] = outN
		}
	}
	inTxApis := dbInTxApis(repo, w.methods, &w.note)
	metaOps := dbMetaOps(w.methods)
	pathOps := dbSnapshotPathOps(w.methods)
	type fact struct {
		Programs map[string][]string     `json:"programs"`
		InTx     map[string][]string     `json:"in_tx_programs"`
		InTxApis [][2]string             `json:"in_tx_apis"`
		Fields   [][2]string             `json:"dbimpl_fields"`
		PkgVars  []string                `json:"db_go_package_vars"`
		MetaOps  map[string][]dbMetaStep `json:"meta_ops"`
		PathOps  []string                `json:"snapshot_path_ops"`
		Notes    []string                `json:"notes,omitempty"`
	}
	js, _ := json.MarshalIndent(fact{res, inTx, inTxApis, fields, pkgVars, metaOps, pathOps, w.note}, "", " ")
	writeIfChanged(filepath.Join(facts, "dblocks.json"), string(js)+"\n")

	var b strings.Builder
	b.WriteString("import StorageModel.C17.LockTable\n")
	b.WriteString("/- GENERATED by /verif/extract from boltz/db.go (DbImpl lock/handle events per entry point) — do not edit. -/\n")
	b.WriteString("namespace StorageModel.Generated\nopen StorageModel.C17\n")
	b.WriteString("def dbLockPrograms : List (String × List LockEv) := [\n")
	writeTable := func(t map[string][]string) {
		first := true
		for _, name := range allNames {
			evs, ok := t[name]
			if !ok {
				continue
			}
			if !first {
				b.WriteString(",\n")
			}
			first = false
			parts := []string{}
			for _, e := range evs {
				parts = append(parts, "."+e)
			}
			fmt.Fprintf(&b, "  (%q, [%s])", name, strings.Join(parts, ", "))
		}
		b.WriteString("]\n")
	}
	writeTable(res)
	b.WriteString("/-- the same methods on the path taken when they are called from INSIDE a transaction (`ctx.Tx() != nil`) -/\n")
	b.WriteString("def dbInTxPrograms : List (String × List LockEv) := [\n")
	writeTable(inTx)
	b.WriteString("/-- the methods a transaction body calls: those that take the transaction (`*bbolt.Tx` / `MutateContext` parameter) and\n    those the repository itself calls inside a function passed to Update / View / Batch (name, why) -/\n")
	b.WriteString("def dbInTxApis : List (String × String) := [")
	for i, a := range inTxApis {
		if i > 0 {
			b.WriteString(", ")
		}
		fmt.Fprintf(&b, "(%q, %q)", a[0], a[1])
	}
	b.WriteString("]\n")
	b.WriteString("/-- the fields of `type DbImpl struct` (name, type) -/\n")
	b.WriteString("def dbImplFields : List (String × String) := [")
	for i, f := range fields {
		if i > 0 {
			b.WriteString(", ")
		}
		fmt.Fprintf(&b, "(%q, %q)", f[0], f[1])
	}
	b.WriteString("]\n/-- package-level variables declared in boltz/db.go -/\ndef dbGoPackageVars : List String := [")
	for i, v := range pkgVars {
		if i > 0 {
			b.WriteString(", ")
		}
		fmt.Fprintf(&b, "%q", v)
	}
	b.WriteString("]\n")
	b.WriteString(dbMetaOpsLean(metaOps))
	b.WriteString(dbSnapshotPathOpsLean(pathOps))
	b.WriteString("end StorageModel.Generated\n")
	writeIfChanged(filepath.Join(gen, "DbLocks.lean"), b.String())
}
