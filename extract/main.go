// Fact extractors: regenerate small Lean data files and JSON fact files from /repo's
// current source (go/parser + go/ast only).
//
//	extract <repo> <leanGeneratedDir> <factsDir>
package main

import (
	"fmt"
	"os"
	"path/filepath"
)

func writeIfChanged(path string, content string) {
	old, err := os.ReadFile(path)
	if err == nil && string(old) == content {
		return
	}
	if err := os.MkdirAll(filepath.Dir(path), 0o755); err != nil {
		panic(err)
	}
	if err := os.WriteFile(path, []byte(content), 0o644); err != nil {
		panic(err)
	}
}

func main() {
	if len(os.Args) != 4 {
		fmt.Fprintln(os.Stderr, "usage: extract <repo> <leanGeneratedDir> <factsDir>")
		os.Exit(2)
	}
	repo, gen, facts := os.Args[1], os.Args[2], os.Args[3]
	extractUnescape(repo, gen, facts)
	extractPaging(repo, gen, facts)
	extractObjStore(repo, gen, facts)
	extractReturns(repo, gen, facts)
	extractC10(repo, gen, facts)
	extractDbLocks(repo, gen, facts)
	extractGlobals(repo, gen, facts)
	extractGrammar(repo, gen, facts)
	extractAccept(repo, gen, facts)
	extractC15Create(repo, gen, facts)
	extractC09Quirks(repo, gen, facts)
	extractC16Setters(repo, gen, facts)
	extractC01Cursors(repo, gen, facts)
}
