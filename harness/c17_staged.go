package main

import (
	"encoding/hex"
	"fmt"
	"io"
	"os"
	"strconv"
	"strings"
	"sync/atomic"
	"time"

	"github.com/openziti/storage/boltz"
	"go.etcd.io/bbolt"
)

// C17 — observations made DURING a restore / snapshot (model: lean/StorageModel/C17/Staged.lean).
//
// RestoreFromReader(snapshot io.Reader) runs the caller's Read inside persistSnapshot, before the reload
// lock is taken; the reader below calls back into the same Db from there (single goroutine, deterministic).
// Restore listeners look at the database themselves (their own View) when they are invoked.
// Transactions that copy the file (View/Update + SnapshotInTx, StreamToWriter) make reading calls around
// the copy.  Not issued from inside a transaction: anything that opens a read-write transaction
// (GetTimelineId, Update) — bbolt documents that opening a read-write transaction in a goroutine that has
// a read-only transaction open can deadlock (re-mapping the file waits for the read transaction), and
// db.Update inside db.Update blocks on bbolt's writer lock; a restore called from inside a transaction
// waits for its own read hold.

// listener: what every registered restore listener does when invoked
func (e *c17Env) listener() {
	// both block on the reload lock until the restore that started us has unlocked
	d := e.op("gsid") + " " + e.dump()
	e.mu.Lock()
	e.seen = append(e.seen, d)
	e.mu.Unlock()
	e.fired.Add(1)
}

var c17ListenerWait = 3 * time.Second

// settle is called by the goroutine that called Restore*, right after it returned: every listener
// registered now has been started once by that restore; wait for them, then take the dump and count the
// invocations that saw it.
func (e *c17Env) settle() (int, string) {
	e.expected += int64(e.listeners)
	deadline := time.Now().Add(c17ListenerWait)
	for e.fired.Load() < e.expected && time.Now().Before(deadline) {
		time.Sleep(200 * time.Microsecond)
	}
	if e.fired.Load() < e.expected {
		c17ListenerWait = 50 * time.Millisecond // they are not coming; do not spend 3 s on every later restore
	} else if e.listeners > 0 {
		time.Sleep(time.Millisecond) // an invocation too many would show up in the next count
	}
	post := e.dump()
	want := e.op("gsid") + " " + post
	e.mu.Lock()
	for _, d := range e.seen {
		if d == want {
			e.good++
		}
	}
	e.seen = nil
	e.mu.Unlock()
	return e.good, post
}

type c17Cb struct {
	pos      byte // f, m, e
	permille int
	op       string
}

// c17CbReader wraps a reader behaviour; it is the `snapshot` handed to RestoreFromReader
type c17CbReader struct {
	inner     *c17Reader
	total     int
	delivered int
	pending   []c17Cb
	e         *c17Env
	obs       []string
}

func (r *c17CbReader) due(c c17Cb) bool {
	switch c.pos {
	case 'f':
		return true
	case 'm':
		return r.total*c.permille <= r.delivered*1000
	}
	return false
}

func (r *c17CbReader) issue() {
	c := r.pending[0]
	r.pending = r.pending[1:]
	r.obs = append(r.obs, strings.ReplaceAll(r.e.op(c.op), ":", "~"))
}

func (r *c17CbReader) Read(p []byte) (int, error) {
	for len(r.pending) > 0 && r.due(r.pending[0]) {
		r.issue()
	}
	n, err := r.inner.Read(p)
	r.delivered += n
	if err == io.EOF {
		for len(r.pending) > 0 {
			r.issue()
		}
	}
	return n, err
}

func c17ParseCbs(s string) ([]c17Cb, bool) {
	if s == "-" {
		return nil, true
	}
	var res []c17Cb
	for _, part := range strings.Split(s, ";") {
		i := strings.Index(part, "=")
		if i < 1 {
			return nil, false
		}
		c := c17Cb{pos: part[0], op: strings.ReplaceAll(part[i+1:], "~", ":")}
		switch c.pos {
		case 'f', 'e':
			if i != 1 {
				return nil, false
			}
		case 'm':
			n, err := strconv.Atoi(part[1:i])
			if err != nil {
				return nil, false
			}
			c.permille = n
		default:
			return nil, false
		}
		res = append(res, c)
	}
	return res, true
}

func c17Inner(obs []string) string {
	if len(obs) == 0 {
		return "-"
	}
	return strings.Join(obs, "|")
}

// restc:<k>:<pre>:<chunk>:<d|s>:<cbs>
func (e *c17Env) restoreCb(f []string) string {
	if len(f) != 6 {
		return "bad-op"
	}
	cbs, ok := c17ParseCbs(f[5])
	if !ok {
		return "bad-op"
	}
	data, err := os.ReadFile(e.slotFile(f[1])) // the slot as it is when the restore is entered
	if err != nil {
		return "nofile"
	}
	inner := &c17Reader{data: data, eofData: f[4] == "d"}
	if f[2] != "-" {
		for _, p := range strings.Split(f[2], "+") {
			n, _ := strconv.Atoi(p)
			inner.pre = append(inner.pre, n)
		}
	}
	if f[3] != "w" {
		inner.chunk, _ = strconv.Atoi(f[3])
	}
	rd := &c17CbReader{inner: inner, total: len(data), pending: cbs, e: e}
	// the calls come back into the Db on the goroutine that runs the restore; should one of them block on
	// the reload lock (a restore that calls Read with the lock held) the watchdog reports it
	done := make(chan interface{}, 1)
	go func() {
		defer func() { done <- recover() }()
		e.db.RestoreFromReader(rd)
	}()
	select {
	case rec := <-done:
		if rec != nil {
			panic(rec)
		}
	case <-time.After(2 * c17Watchdog):
		e.dead = true
		_ = os.RemoveAll(e.dir)
		return "hang:" + c17LockStacks()
	}
	fired, post := e.settle()
	return fmt.Sprintf("restoredc:%d:%s:%s", fired, post, c17Inner(rd.obs))
}

func (e *c17Env) ro(acts string) []string {
	var res []string
	if acts == "-" {
		return res
	}
	for _, a := range acts {
		switch a {
		case 'g':
			res = append(res, strings.ReplaceAll(e.op("gsid"), ":", "~"))
		case 'd':
			res = append(res, strings.ReplaceAll(e.op("dump"), ":", "~"))
		}
	}
	return res
}

// c17CbWriter is the writer handed to StreamToWriter: tx.WriteTo writes meta page 0, meta page 1, then the
// data pages; the calls are issued from inside the 1st and the 3rd Write
type c17CbWriter struct {
	w         io.Writer
	n         int
	e         *c17Env
	pre, post string
	preObs    []string
	postObs   []string
	preDone   bool
	postDone  bool
}

func (w *c17CbWriter) Write(p []byte) (int, error) {
	if w.n == 0 && !w.preDone {
		w.preDone = true
		w.preObs = w.e.ro(w.pre)
	}
	if w.n == 2 && !w.postDone {
		w.postDone = true
		w.postObs = w.e.ro(w.post)
	}
	w.n++
	return w.w.Write(p)
}

// snaptc:<k>:<pre>:<post>   snapuc:<k>:<ws>:<pre>:<post>   streamc:<k>:<pre>:<post>
func (e *c17Env) inTx(f []string) string {
	var pre, post []string
	var main string
	at := e.dump()
	switch {
	case f[0] == "snaptc" && len(f) == 4:
		var id, actual string
		err := e.db.View(func(tx *bbolt.Tx) error {
			pre = e.ro(f[2])
			var err error
			actual, id, err = e.db.SnapshotInTx(tx, e.slot(f[1]))
			post = e.ro(f[3])
			return err
		})
		e.setSlot(f[1], actual, err)
		main = e.snapped(id, err, at)
	case f[0] == "snapuc" && len(f) == 5:
		var id, actual string
		err := e.db.Update(nil, func(ctx boltz.MutateContext) error {
			if err := c17Writes(ctx.Tx(), f[2]); err != nil {
				return err
			}
			pre = e.ro(f[3])
			var err error
			actual, id, err = e.db.SnapshotInTx(ctx.Tx(), e.slot(f[1]))
			post = e.ro(f[4])
			return err
		})
		e.setSlot(f[1], actual, err)
		main = e.snapped(id, err, at)
	case f[0] == "streamc" && len(f) == 4:
		file, err := os.Create(e.slot(f[1]))
		if err != nil {
			return "err"
		}
		w := &c17CbWriter{w: file, e: e, pre: f[2], post: f[3]}
		err = e.db.StreamToWriter(w)
		_ = file.Close()
		if !w.preDone || !w.postDone {
			return "bad-stream" // fewer than three Write calls: not the WriteTo this harness was written against
		}
		pre, post = w.preObs, w.postObs
		if err != nil {
			main = "err"
		} else {
			e.setSlot(f[1], e.slot(f[1]), nil)
			main = "streamed:" + at
		}
	default:
		return "bad-op"
	}
	return fmt.Sprintf("intx:%s:%s:%s", c17Inner(pre), strings.ReplaceAll(main, ":", "~"), c17Inner(post))
}

// ------------------------------------------------------------------ generator

func c17GenCbOp(r *rng, slots int) string {
	x := r.intn(100)
	slot := r.intn(slots)
	switch {
	case x < 30:
		return "gsid"
	case x < 50:
		ok := "1"
		if r.chance(1, 8) {
			ok = "0"
		}
		return "gtl:" + pick(r, []string{"d", "d", "i", "i", "f"}) + ":" + ok
	case x < 58:
		return "dump"
	case x < 72:
		c := "c"
		if r.chance(1, 6) {
			c = "r"
		}
		return "tx:" + c17GenWrites(r) + ":" + c
	case x < 80:
		return fmt.Sprintf("%s:%d", pick(r, []string{"snap", "snapt", "stream"}), slot)
	case x < 84:
		return fmt.Sprintf("snapu:%d:%s", slot, c17GenWrites(r))
	case x < 90:
		return "listen"
	case x < 96:
		return fmt.Sprintf("rest:%d", slot)
	default:
		return fmt.Sprintf("restr:%d:%s", slot, c17GenReader(r))
	}
}

func c17GenPos(r *rng) string {
	switch r.intn(6) {
	case 0, 1:
		return "f"
	case 2:
		return "e"
	case 3:
		return pick(r, []string{"m0", "m1", "m500", "m999", "m1000"})
	default:
		return fmt.Sprintf("m%d", r.intn(1001))
	}
}

func c17GenCbs(r *rng, slots int) string {
	n := 1 + r.intn(4)
	var cbs []string
	for i := 0; i < n; i++ {
		cbs = append(cbs, c17GenPos(r)+"="+strings.ReplaceAll(c17GenCbOp(r, slots), ":", "~"))
	}
	return strings.Join(cbs, ";")
}

func c17GenRestc(r *rng, slot, slots int) string {
	return fmt.Sprintf("restc:%d:%s:%s", slot, c17GenReader(r), c17GenCbs(r, slots))
}

func c17GenRo(r *rng) string {
	return pick(r, []string{"-", "g", "d", "gd", "dg", "gg"})
}

func c17GenInTx(r *rng, slot int) string {
	switch r.intn(3) {
	case 0:
		return fmt.Sprintf("snaptc:%d:%s:%s", slot, c17GenRo(r), c17GenRo(r))
	case 1:
		return fmt.Sprintf("snapuc:%d:%s:%s:%s", slot, c17GenWrites(r), c17GenRo(r), c17GenRo(r))
	}
	return fmt.Sprintf("streamc:%d:%s:%s", slot, c17GenRo(r), c17GenRo(r))
}

// fixed histories of the shape "the live database already carries the id of an earlier restore; a DIFFERENT
// snapshot streams in while the caller polls / requests / writes / snapshots from inside the reader; then
// every observation is made again": one per call kind x position x reader behaviour
func c17GenStagedFixed(out io.Writer, tier string) {
	calls := []string{"gsid", "gtl~d~1", "gtl~i~1", "gtl~f~1", "gtl~d~0", "dump", "tx~p0.1/p5.3~c", "snap~1", "snapt~2", "stream~2", "listen", "rest~0", "restr~0~0+1~7~d",
		"gsid;%s=gtl~d~1;%s=gsid", "listen;%s=rest~0;%s=gsid", "snap~1;%s=gsid;%s=tx~d0~c"}
	poss := []string{"f", "m500", "e"}
	readers := []string{"-:w:s", "-:w:d", "0+1+0+3:4096:s", "-:7:d"}
	i := 0
	for _, c := range calls {
		for _, p := range poss {
			rd := readers[i%len(readers)]
			i++
			cb := p + "=" + c
			if strings.Contains(c, "%s") {
				cb = p + "=" + fmt.Sprintf(c, poss[i%3], "e")
			}
			// snapshot 1 restored (live db carries id 1, timeline settled), snapshot 2 of a later state streams in
			fmt.Fprintf(out, "seq listen tx:p0.1/p4.2:c snap:0 rest:0 gsid gtl:d:1 tx:p0.2/p3.3:c snap:1 tx:p0.3/d4:c restc:1:%s:%s gsid gtl:d:1 gtl:i:1 dump\n", rd, cb)
		}
	}
	// the same without any earlier restore, through the transaction-internal snapshot routes
	for _, route := range []string{"snaptc:0:gd:dg", "snapuc:0:p1.1/d0:gd:gd", "streamc:0:g:d"} {
		fmt.Fprintf(out, "seq tx:p0.1/p4.2:c %s tx:p0.3:c restc:0:-:512:d:f=gsid;m300=gtl~i~1;e=dump gsid gtl:f:1 gtl:d:1 dump\n", route)
	}
	if tier == "thorough" {
		// every position against a > 1 MB snapshot, byte-wise thresholds straddling the copy buffers
		for _, p := range []string{"f", "m1", "m31", "m32", "m500", "m999", "m1000", "e"} {
			for _, rd := range []string{"-:w:d", "-:32768:s", "-:1048577:d"} {
				fmt.Fprintf(out, "seq tx:p0.1:c snap:0 rest:0 tx:p1.5/p3.4:c snap:1 tx:p0.3:c restc:1:%s:%s=gsid;%s=gtl~d~1 gsid gtl:d:1 dump\n", rd, p, p)
			}
		}
	}
}

// ------------------------------------------------------------------ concurrent GetTimelineId requests

// tlconc <K> <modes> <pre>: after a restore of a marked snapshot (pre = 1: the snapshot already carries a timeline
// id), K goroutines call GetTimelineId(mode_i, idF) released together (modes d / i only: a forced reset is allowed
// to generate).  The first idF call keeps its caller's write transaction open until every request has entered idF
// or 200 ms have passed — on this code the others are waiting for bbolt's writer lock by then, having decided
// nothing yet; a GetTimelineId that decides in an earlier transaction has decided by then.  A tx-complete listener
// pauses 3 ms after every commit (outside bbolt's writer lock), which opens the window between two transactions
// of one request.
// -> ok (one idF call, every request returned that id, it is the stored one, a later request returns it too)
//
//	| tlrace:calls=<n>:ids=<distinct returned>:stored=<T..>
func c17TlConc(k int, modes string, pre string) string {
	e, err := c17Open()
	if err != nil {
		return "setup-failed"
	}
	defer e.close()
	if e.op("tx:p0.1/p4.2:c") != "ok" {
		return "setup-failed"
	}
	var calls, started atomic.Int64
	base := int64(0)
	if pre == "1" {
		if _, err := e.db.GetTimelineId(boltz.TimelineModeInitIfEmpty, func() (string, error) { return "T1", nil }); err != nil {
			return "setup-failed"
		}
		base = 1
	}
	if !strings.HasPrefix(e.op("snap:0"), "snapped") || e.op("tx:p0.3:c") != "ok" || !strings.HasPrefix(e.op("rest:0"), "restored") {
		return "setup-failed"
	}
	// every Update commit of this Db is followed (after bbolt released its writer lock, before the committing
	// request goes on) by a short pause: a request that acts in SEVERAL transactions lets the others in between them
	e.db.AddTxCompleteListener(func(boltz.MutateContext) { time.Sleep(3 * time.Millisecond) })
	idF := func() (string, error) {
		n := calls.Add(1)
		if n == 1 {
			deadline := time.Now().Add(200 * time.Millisecond)
			for time.Now().Before(deadline) && (started.Load() < int64(k) || calls.Load() < int64(k)) {
				time.Sleep(time.Millisecond)
			}
		}
		return fmt.Sprintf("T%d", base+n), nil
	}
	release := make(chan struct{})
	type res struct {
		id  string
		err error
	}
	results := make(chan res, k)
	for i := 0; i < k; i++ {
		mode := boltz.TimelineModeDefault
		if i < len(modes) && modes[i] == 'i' {
			mode = boltz.TimelineModeInitIfEmpty
		}
		go func() {
			defer func() {
				if rec := recover(); rec != nil {
					results <- res{err: fmt.Errorf("panic: %v", rec)}
				}
			}()
			<-release
			started.Add(1)
			id, err := e.db.GetTimelineId(mode, idF)
			results <- res{id, err}
		}()
	}
	close(release)
	ids := map[string]bool{}
	for i := 0; i < k; i++ {
		select {
		case r := <-results:
			if r.err != nil {
				return "txerr:gtl:" + hex.EncodeToString([]byte(r.err.Error()))
			}
			ids[r.id] = true
		case <-time.After(4 * c17Watchdog):
			e.dead = true
			_ = os.RemoveAll(e.dir)
			return "hang:" + c17LockStacks()
		}
	}
	stored := "-"
	_ = e.db.View(func(tx *bbolt.Tx) error {
		if b := boltz.Path(tx, boltz.Metadata); b != nil {
			if s := b.GetString(boltz.TimelineId); s != nil {
				stored = *s
			}
		}
		return nil
	})
	later, err := e.db.GetTimelineId(boltz.TimelineModeDefault, idF)
	if err != nil {
		return "txerr:gtl:" + hex.EncodeToString([]byte(err.Error()))
	}
	ids[later] = true
	want := fmt.Sprintf("T%d", base+1)
	if calls.Load() == 1 && len(ids) == 1 && ids[want] && stored == want {
		return "ok"
	}
	return fmt.Sprintf("tlrace:calls=%d:ids=%d:stored=%s", calls.Load(), len(ids), stored)
}

func c17GenTlConc(out io.Writer, tier string, r *rng) {
	fmt.Fprintf(out, "tlconc 2 dd 1\ntlconc 4 ddii 1\ntlconc 3 iii 0\ntlconc 8 dididddi 0\n")
	if tier == "thorough" {
		for i := 0; i < 20; i++ {
			k := 2 + r.intn(7)
			modes := ""
			for j := 0; j < k; j++ {
				modes += pick(r, []string{"d", "i"})
			}
			fmt.Fprintf(out, "tlconc %d %s %d\n", k, modes, r.intn(2))
		}
	}
}
