package main

import (
	"bufio"
	"fmt"
	"strconv"
	"strings"

	"github.com/openziti/storage/ast"
)

// m <s> <filter in prefix form> . <field>...
//
// A whole filter over the field f: comparisons `f <op> lit` and in-lists `f [not] in [lit, ...]` under and / or / not,
// the literals drawn from a small pool around s (s itself more than once, so the same token text occurs several
// times in one filter, under different operators - in particular next to icontains, whose operand is upper-cased when
// the filter is compiled). Every occurrence of a literal must keep its denotation.
//
//	A x y | O x y | N x | C <op> <lit> <s> | I <0|1> <k> (<lit> <s>)^k
type c11Node struct {
	kind string // A O N C I
	kids []*c11Node
	op   string
	neg  bool
	strs []string
}

func c11GenLeaf(r *rng, pool []string, ascii bool) *c11Node {
	if r.chance(1, 4) {
		n := &c11Node{kind: "I", neg: r.chance(1, 3)}
		for k := 1 + r.intn(3); k > 0; k-- {
			n.strs = append(n.strs, pick(r, pool))
		}
		return n
	}
	ops := c11Ops
	if ascii {
		ops = c11OpsAscii
		if r.chance(1, 3) {
			ops = []string{"icontains", "nicontains"}
		}
	}
	return &c11Node{kind: "C", op: pick(r, ops), strs: []string{pick(r, pool)}}
}

func c11GenTree(r *rng, pool []string, ascii bool, depth int) *c11Node {
	if depth == 0 || r.chance(1, 4) {
		return c11GenLeaf(r, pool, ascii)
	}
	switch r.intn(5) {
	case 0:
		return &c11Node{kind: "N", kids: []*c11Node{c11GenTree(r, pool, ascii, depth-1)}}
	case 1, 2:
		return &c11Node{kind: "A", kids: []*c11Node{c11GenTree(r, pool, ascii, depth-1), c11GenTree(r, pool, ascii, depth-1)}}
	default:
		return &c11Node{kind: "O", kids: []*c11Node{c11GenTree(r, pool, ascii, depth-1), c11GenTree(r, pool, ascii, depth-1)}}
	}
}

func (n *c11Node) wire(b *strings.Builder) {
	switch n.kind {
	case "C":
		fmt.Fprintf(b, " C %s %s %s", n.op, toWire(c11Escape(n.strs[0], nil, true)), toWire(n.strs[0]))
	case "I":
		neg := 0
		if n.neg {
			neg = 1
		}
		fmt.Fprintf(b, " I %d %d", neg, len(n.strs))
		for _, s := range n.strs {
			fmt.Fprintf(b, " %s %s", toWire(c11Escape(s, nil, true)), toWire(s))
		}
	default:
		b.WriteString(" " + n.kind)
		for _, k := range n.kids {
			k.wire(b)
		}
	}
}

func c11EmitMixed(out *bufio.Writer, s string, r *rng) {
	ascii := c11IsAscii(s)
	s2 := s + pick(r, c11Alphabet)
	if rs := []rune(s); r.chance(1, 2) && len(rs) > 0 {
		s2 = string(rs[:len(rs)-1])
	}
	pool := []string{s, s, s, s2}
	if ascii {
		pool = append(pool, strings.ToUpper(s))
	}
	if rs := []rune(s); len(rs) > 1 {
		pool = append(pool, string(rs[1:]))
	}
	tree := c11GenTree(r, pool, ascii, 1+r.intn(2))
	if tree.kind == "C" || tree.kind == "I" {
		// at least two comparisons
		other := c11GenLeaf(r, pool, ascii)
		tree = &c11Node{kind: pick(r, []string{"A", "O"}), kids: []*c11Node{tree, other}}
		if r.chance(1, 2) {
			tree.kids[0], tree.kids[1] = tree.kids[1], tree.kids[0]
		}
	}
	var b strings.Builder
	tree.wire(&b)
	fmt.Fprintf(out, "m %s%s .", toWire(s), b.String())
	fs := c11Fields(s, r)
	for _, p := range pool[2:] {
		fs = append(fs, p)
		if ascii {
			fs = append(fs, strings.ToLower(p))
		}
	}
	for _, f := range fs {
		fmt.Fprintf(out, " %s", toWire(f))
	}
	out.WriteByte('\n')
}

// c11ParseMixed rebuilds the filter text from the prefix form; returns the text and the remaining tokens
func c11ParseMixed(tok []string) (string, []string, bool) {
	if len(tok) == 0 {
		return "", nil, false
	}
	switch tok[0] {
	case "A", "O":
		a, rest, ok := c11ParseMixed(tok[1:])
		if !ok {
			return "", nil, false
		}
		b, rest, ok := c11ParseMixed(rest)
		if !ok {
			return "", nil, false
		}
		if tok[0] == "A" {
			return "(" + a + " and " + b + ")", rest, true
		}
		return "(" + a + " or " + b + ")", rest, true
	case "N":
		a, rest, ok := c11ParseMixed(tok[1:])
		if !ok {
			return "", nil, false
		}
		return "(not (" + a + "))", rest, true
	case "C":
		if len(tok) < 4 {
			return "", nil, false
		}
		q := c11CmpText(tok[1], fromWire(tok[2]))
		return q, tok[4:], q != ""
	case "I":
		if len(tok) < 3 {
			return "", nil, false
		}
		k, err := strconv.Atoi(tok[2])
		if err != nil || len(tok) < 3+2*k {
			return "", nil, false
		}
		var lits []string
		for i := 0; i < k; i++ {
			lits = append(lits, fromWire(tok[3+2*i]))
		}
		q := "f in [" + strings.Join(lits, ", ") + "]"
		if tok[1] == "1" {
			q = "f not in [" + strings.Join(lits, ", ") + "]"
		}
		return q, tok[3+2*k:], true
	}
	return "", nil, false
}

func c11CmpText(op, lit string) string {
	switch op {
	case "eq":
		return "f = " + lit
	case "ne":
		return "f != " + lit
	case "in":
		return "f in [" + lit + "]"
	case "nin":
		return "f not in [" + lit + "]"
	case "contains":
		return "f contains " + lit
	case "ncontains":
		return "f not contains " + lit
	case "icontains":
		return "f icontains " + lit
	case "nicontains":
		return "f not icontains " + lit
	}
	return ""
}

func c11ExecMixed(f []string) string {
	q, rest, ok := c11ParseMixed(f[2:])
	if !ok || len(rest) == 0 || rest[0] != "." {
		return "bad-case"
	}
	syms := newMemSymbols()
	syms.types["f"] = ast.NodeTypeString
	query, err := ast.Parse(syms, q)
	if err != nil {
		return "parse-error"
	}
	var b strings.Builder
	for _, fv := range rest[1:] {
		syms.scalars["f"] = fromWire(fv)
		if query.EvalBool(syms) {
			b.WriteByte('1')
		} else {
			b.WriteByte('0')
		}
	}
	return b.String()
}
