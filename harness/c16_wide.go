package main

// C16 — the WIDE schema family (case kinds ending in W: HW, HCW, HBW, HNW, HPW).
//
// systemEntityConstraint.ProcessBeforeUpdate does not stop an Update: it puts its error into the entity bucket's error
// holder, PersistEntity runs all the same, and the update writes nothing only because EVERY setter the entity strategy
// calls asks TypedBucket.ProceedWithSet first (model: Bkt / Write / runWrites, theorem refused_update_any_strategy).
// Which setters a strategy uses is a parameter of the schema.  The plain family persists name / owner / level with
// SetString only; the wide strategies persist
//
//	name   through ctx.GetAndSetString, owner through ctx.SetStringP, level (child store) through ctx.SetStringP
//
// and, next to the name (in the child store: next to the level), one COPY derived from it through every other setter
// of PersistContext / TypedBucket:
//
//	<f>.req SetRequiredString   <f>.p  SetStringP (nil for "")   <f>.i32 SetInt32   <f>.i64 SetInt64   <f>.odd SetBool
//	<f>.tp  SetTimeP            <f>.t  SetTime                   <f>.f   SetFloat64
//	<f>.l   SetStringList       <f>.l2 GetAndSetStringList       <f>.m   SetMap (PutMap)   <f>.pl PutList
//
// The field checker of the harness treats `<f>.<x>` as `<f>` (c16Checker.IsUpdated), so the copies are written exactly
// when the field is: in the model they are the one write of `name` (`level`).  FillEntity reads the copies back; a copy
// that disagrees with the field shows in the view (`<name>?<copy>`, level `?bad:<copy>`), i.e. differs from the model
// and from the spec.

import (
	"reflect"
	"time"

	"github.com/openziti/storage/boltz"
)

func c16WideKind(kind string) (string, bool) {
	if n := len(kind); n > 1 && kind[n-1] == 'W' {
		return kind[:n-1], true
	}
	return kind, false
}

// a small content hash: the numeric copies depend on the bytes of the value, not only on its length
func c16WideHash(value string) int {
	h := 7
	for i := 0; i < len(value); i++ {
		h = (h*31 + int(value[i])) % 1000003
	}
	return h
}

func c16WidePersist(ctx *boltz.PersistContext, f string, value string) {
	n := c16WideHash(value)
	ctx.SetRequiredString(f+".req", "r"+value)
	var p *string
	if value != "" {
		p = &value
	}
	ctx.SetStringP(f+".p", p)
	ctx.SetInt32(f+".i32", int32(n))
	ctx.SetInt64(f+".i64", int64(n)+1)
	ctx.SetBool(f+".odd", n%2 == 1)
	t := time.Unix(int64(n)+5000, 0).UTC()
	ctx.SetTimeP(f+".tp", &t)
	ctx.Bucket.SetTime(f+".t", t, ctx.FieldChecker)
	ctx.Bucket.SetFloat64(f+".f", float64(n)+0.5, ctx.FieldChecker)
	ctx.SetStringList(f+".l", []string{"v" + value})
	ctx.GetAndSetStringList(f+".l2", []string{"w" + value, "w"})
	ctx.SetMap(f+".m", map[string]interface{}{"v": value})
	ctx.Bucket.PutList(f+".pl", []interface{}{value}, ctx.FieldChecker)
}

// the first copy that disagrees with the field ("" = all agree)
func c16WideCheck(b *boltz.TypedBucket, f string, value string) string {
	n := c16WideHash(value)
	if b.GetStringWithDefault(f+".req", "") != "r"+value {
		return "req"
	}
	if p := b.GetString(f + ".p"); (value == "") != (p == nil) || (p != nil && *p != value) {
		return "p"
	}
	if v := b.GetInt32(f + ".i32"); v == nil || *v != int32(n) {
		return "i32"
	}
	if v := b.GetInt64(f + ".i64"); v == nil || *v != int64(n)+1 {
		return "i64"
	}
	if v := b.GetBool(f + ".odd"); v == nil || *v != (n%2 == 1) {
		return "odd"
	}
	t := time.Unix(int64(n)+5000, 0).UTC()
	if v := b.GetTime(f + ".tp"); v == nil || !v.Equal(t) {
		return "tp"
	}
	if v := b.GetTime(f + ".t"); v == nil || !v.Equal(t) {
		return "t"
	}
	if v := b.GetFloat64(f + ".f"); v == nil || *v != float64(n)+0.5 {
		return "f"
	}
	if v := b.GetStringList(f + ".l"); !reflect.DeepEqual(v, []string{"v" + value}) {
		return "l"
	}
	want := []string{"w", "w" + value}
	if value == "" {
		want = []string{"w"}
	}
	if v := b.GetStringList(f + ".l2"); !reflect.DeepEqual(v, want) {
		return "l2"
	}
	if v := b.GetMap(f + ".m"); len(v) != 1 || v["v"] != value {
		return "m"
	}
	if v := b.GetList(f + ".pl"); len(v) != 1 || v[0] != value {
		return "pl"
	}
	return ""
}

// ---------------------------------------------------------------------------- generator

// the setter family: a system / ordinary entity (with or without child data), then ONE update — full, patch (checker
// naming the field the copies hang on, other fields, nothing), write-back, through S or through the child store — from
// every kind of context, in the creating or a later transaction, aborting or keep-going body; then a read-back and an
// ordinary probe.  In the wide kinds every setter of PersistContext / TypedBucket is on the path of that update.
func c16Setters(out interface{ WriteString(string) (int, error) }, kind string) {
	base, _ := c16WideKind(kind)
	a, o1, o2 := toWire("a"), toWire("o1"), toWire("o2")
	n0, n1, l0, l1 := toWire("n0"), toWire("n1"), toWire("l0"), toWire("l1")
	vias := []string{"c", "C"}
	if base == "HP" {
		vias = []string{"c"}
	}
	checkers := []string{"n", "name", "tags", "owner", "name,tags,owner,level", "level", "-", "isSystem,createdAt"}
	for _, via := range vias {
		for _, cflag := range []string{"t", "f"} {
			create := "c:s:" + a + ":" + cflag + ":" + n0 + ":" + c16Rest("t", "1000", "2000", "t0") + ":" + o1
			if via == "C" {
				create = "C:s:" + a + ":" + cflag + ":" + n0 + ":" + c16Rest("t", "1000", "2000", "t0") + ":" + o1 + ":" + l0
			}
			var updates []string
			for _, ctx := range c16CtxKinds {
				for _, ch := range checkers {
					// name "" exercises the nil branch of SetStringP; owner o2 the fk lookup after the write
					for _, nm := range []string{n1, "-"} {
						updates = append(updates, "u:"+ctx+":"+a+":f:"+nm+":"+ch+":"+c16Rest("f", "3000", "z", "t1")+":"+o1)
					}
					updates = append(updates, "u:"+ctx+":"+a+":t:"+n1+":"+ch+":"+c16Rest("t", "3000", "3000", "~")+":"+o2)
					updates = append(updates, "b:"+ctx+":"+a+":"+ch)
					if base != "HP" {
						updates = append(updates, "U:"+ctx+":"+a+":f:"+n1+":"+ch+":"+c16Rest("f", "3000", "z", "t1")+":"+o1+":"+l1)
					}
				}
			}
			for _, upd := range updates {
				for _, mode := range []string{"a", "k"} {
					out.WriteString(kind + " " + a + "/" + o1 + "," + o2 + " Sa!oc:o:" + o1 + ";oc:o:" + o2 + ";" + create +
						" O" + mode + "!" + upd + ";r:" + a + " Ok!u:o:" + a + ":f:" + toWire("n2") + ":n:" + c16Rest("f", "z", "z", "~") + ":-;r:" + a + "\n")
				}
				out.WriteString(kind + " " + a + "/" + o1 + "," + o2 + " Sk!oc:o:" + o1 + ";oc:o:" + o2 + ";" + create + ";" + upd + ";r:" + a +
					" Oa!r:" + a + "\n")
			}
		}
	}
}
