package main

// C09 harness, part 4: the integrity checker over a FAMILY of schemas drawn per case.  A symbol has a NAME,
// a stored KEY / PATH (AddSymbolWithKey / AddFkSymbolWithKey, with or without a prefix) and a store; an index,
// fk constraint or link collection is DECLARED BY a root, a plain child or an extended child store, on a symbol
// of its own or on one granted by its parent.  The first harness (c09.go) wires name == key everywhere and
// declares every fk index / link collection on a root store; here the case line carries the schema:
//
//	N:<txmode>:<schema descriptor> @H <history> @C <corruptions> @S <state>
//
// Descriptor (no blanks): declarations joined by ",", fields by "/", path elements by ">", in REGISTRATION order
// (stores: things, owners are roots; things_x is the EXTENDED child "ext" of things, things_p the PLAIN child "pl"):
//
//	s/<store>/<name>/<path>                 AddSymbolWithKey(name, string, key, prefix...)      path = prefix ++ [key]
//	k/<store>/<name>/<path>/<linked>        AddFkSymbolWithKey(name, key, linked, prefix...)
//	l/<store>/<name>                        AddSetSymbol(name, string)
//	L/<store>/<name>/<listStore>            AddFkSetSymbol(name, listStore)
//	U/<decl>/<symStore>/<name>/<n|N>        <decl>.AddUniqueIndex / AddNullableUniqueIndex(symbol)
//	X/<decl>/<symStore>/<name>              <decl>.AddSetIndex(symbol)
//	F/<decl>/<symStore>/<name>/<n|N>/<fkStore>/<fkName>   <decl>.AddFkIndex / AddNullableFkIndex(symbol, fkSymbol)
//	C/<decl>/<symStore>/<name>/<n|N>        <decl>.AddFkConstraint(symbol, nullable, CascadeNone)
//	K/<decl>/<symStore>/<name>/<oStore>/<oName>           <decl>.AddLinkCollection(symbol, otherSymbol)
//
// History ops (values in wire form, "~" nil):
//
//	c <store> <id> <name>=<v> ... <set name>=<list>      Create through <store> (a child store: also the parent's fields)
//	u <store> <id> ...                                   Update through <store>
//	d <store> <id>                                       DeleteById through <store>
//	k <decl> <name> <id> <list>                          SetLinks on the link collection <decl> declares on <name>
//
// Corruptions: as c09Corrupt, addressed PHYSICALLY: `EF <store> <id> <path> <v>` writes the key at <path> of the
// entity bucket (the child store's data bucket for a child store), `EA/ED <store> <id> <bucket> <elem>`,
// `UP/UD/SA/SD/SK/SX/SJ <symStore>.<NAME> ...` the bucket indexes/<entity type>/<NAME>, `XD/XC <child> <id>`.
//
// State: `E <store> <id> (<path> <v>)* (<set path> <s>)* ^<extras>` with one pair per declared symbol of the store in
// declaration order, read at the symbol's PATH, and every key of the bucket that no symbol accounts for listed in
// <extras> (hex(path)=hex(value), or hex(path):b for a bucket) — a repair written under the wrong key shows there
// or in another symbol's value; `U` / `X` lines per declared index, read at indexes/<entity type>/<NAME>.

import (
	"bufio"
	"encoding/hex"
	"fmt"
	"os"
	"sort"
	"strings"

	"github.com/openziti/foundation/v2/errorz"
	"github.com/openziti/storage/ast"
	"github.com/openziti/storage/boltz"
	"go.etcd.io/bbolt"
)

// ----------------------------------------------------------------------------------- descriptor

type c09nSym struct {
	store, name string
	path        []string
	linked      string // fk scalar: linked store; fk set: list store
	isSet, isFk bool
}

func (s *c09nSym) key() string      { return s.path[len(s.path)-1] }
func (s *c09nSym) prefix() []string { return s.path[:len(s.path)-1] }

type c09nDecl struct {
	kind             string // U X F C K
	decl, st, name   string
	nullable         bool
	oStore, oName    string
}

type c09nDesc struct {
	text  string
	syms  []*c09nSym
	decls []c09nDecl
}

var c09nStoreOrder = []string{c09Things, c09ThingsX, c09ThingsP, c09Owners}

func c09nParseDesc(text string) (*c09nDesc, error) {
	d := &c09nDesc{text: text}
	for _, t := range strings.Split(text, ",") {
		if t == "" {
			continue
		}
		f := strings.Split(t, "/")
		bad := fmt.Errorf("bad declaration %q", t)
		switch f[0] {
		case "s":
			if len(f) != 4 {
				return nil, bad
			}
			d.syms = append(d.syms, &c09nSym{store: f[1], name: f[2], path: strings.Split(f[3], ">")})
		case "k":
			if len(f) != 5 {
				return nil, bad
			}
			d.syms = append(d.syms, &c09nSym{store: f[1], name: f[2], path: strings.Split(f[3], ">"), linked: f[4], isFk: true})
		case "l":
			if len(f) != 3 {
				return nil, bad
			}
			d.syms = append(d.syms, &c09nSym{store: f[1], name: f[2], path: []string{f[2]}, isSet: true})
		case "L":
			if len(f) != 4 {
				return nil, bad
			}
			d.syms = append(d.syms, &c09nSym{store: f[1], name: f[2], path: []string{f[2]}, linked: f[3], isSet: true, isFk: true})
		case "U", "C":
			if len(f) != 5 {
				return nil, bad
			}
			d.decls = append(d.decls, c09nDecl{kind: f[0], decl: f[1], st: f[2], name: f[3], nullable: f[4] == "N"})
		case "X":
			if len(f) != 4 {
				return nil, bad
			}
			d.decls = append(d.decls, c09nDecl{kind: "X", decl: f[1], st: f[2], name: f[3]})
		case "F":
			if len(f) != 7 {
				return nil, bad
			}
			d.decls = append(d.decls, c09nDecl{kind: "F", decl: f[1], st: f[2], name: f[3], nullable: f[4] == "N", oStore: f[5], oName: f[6]})
		case "K":
			if len(f) != 6 {
				return nil, bad
			}
			d.decls = append(d.decls, c09nDecl{kind: "K", decl: f[1], st: f[2], name: f[3], oStore: f[4], oName: f[5]})
		default:
			return nil, bad
		}
	}
	return d, nil
}

func (d *c09nDesc) sym(store, name string) *c09nSym {
	for _, s := range d.syms {
		if s.store == store && s.name == name {
			return s
		}
	}
	return nil
}

func (d *c09nDesc) scalars(store string) []*c09nSym {
	var res []*c09nSym
	for _, s := range d.syms {
		if s.store == store && !s.isSet {
			res = append(res, s)
		}
	}
	return res
}

func (d *c09nDesc) sets(store string) []*c09nSym {
	var res []*c09nSym
	for _, s := range d.syms {
		if s.store == store && s.isSet {
			res = append(res, s)
		}
	}
	return res
}

// ----------------------------------------------------------------------------------- stores

type c09nEnt struct {
	Id  string
	Typ string
	F   map[string]*string
	S   map[string][]string
}

func (e *c09nEnt) GetId() string         { return e.Id }
func (e *c09nEnt) SetId(id string)       { e.Id = id }
func (e *c09nEnt) GetEntityType() string { return e.Typ }

type c09nStrategy struct {
	store  string
	desc   *c09nDesc
	parent *boltz.BaseStore[*c09nEnt]
}

func (s *c09nStrategy) NewEntity() *c09nEnt {
	return &c09nEnt{Typ: c09EntType(s.store), F: map[string]*string{}, S: map[string][]string{}}
}

func (s *c09nStrategy) FillEntity(e *c09nEnt, b *boltz.TypedBucket) {
	if e.F == nil {
		e.F, e.S = map[string]*string{}, map[string][]string{}
	}
	if s.parent != nil {
		_, err := s.parent.LoadEntity(b.Tx(), e.Id, e)
		b.SetError(err)
	}
	for _, y := range s.desc.scalars(s.store) {
		if bb := b.GetPath(y.prefix()...); bb != nil {
			e.F[y.name] = bb.GetString(y.key())
		}
	}
	for _, y := range s.desc.sets(s.store) {
		if !y.isFk {
			e.S[y.name] = b.GetStringList(y.name)
		}
	}
}

func (s *c09nStrategy) PersistEntity(e *c09nEnt, ctx *boltz.PersistContext) {
	if s.parent != nil {
		s.parent.GetEntityStrategy().PersistEntity(e, ctx.GetParentContext())
	}
	for _, y := range s.desc.scalars(s.store) {
		bb := ctx.Bucket.GetOrCreatePath(y.prefix()...)
		bb.SetStringP(y.key(), e.F[y.name], ctx.FieldChecker)
		if bb.HasError() {
			ctx.Bucket.SetError(bb.GetError())
		}
	}
	for _, y := range s.desc.sets(s.store) {
		if !y.isFk {
			ctx.SetStringList(y.name, e.S[y.name])
		}
	}
}

type c09nStores struct {
	desc   *c09nDesc
	byName map[string]*boltz.BaseStore[*c09nEnt]
	syms   map[string]boltz.EntitySymbol // "store.name"
	links  map[string]boltz.LinkCollection // "decl.name"
}

func c09nNewStores(desc *c09nDesc) *c09nStores {
	s := &c09nStores{desc: desc, byName: map[string]*boltz.BaseStore[*c09nEnt]{}, syms: map[string]boltz.EntitySymbol{},
		links: map[string]boltz.LinkCollection{}}
	root := func(name string) *boltz.BaseStore[*c09nEnt] {
		st := boltz.NewBaseStore(boltz.StoreDefinition[*c09nEnt]{
			EntityType:      name,
			EntityStrategy:  &c09nStrategy{store: name, desc: desc},
			BasePath:        []string{c09Root},
			EntityNotFoundF: func(id string) error { return boltz.NewNotFoundError(name, "id", id) },
		})
		st.InitImpl(st)
		st.AddIdSymbol("id", ast.NodeTypeString)
		return st
	}
	a, b := root(c09Things), root(c09Owners)
	s.byName[c09Things], s.byName[c09Owners] = a, b
	child := func(name string, extended bool) *boltz.BaseStore[*c09nEnt] {
		st := boltz.NewBaseStore(boltz.StoreDefinition[*c09nEnt]{
			EntityStrategy:  &c09nStrategy{store: name, desc: desc, parent: a},
			BasePath:        []string{c09ChildPath[name]},
			Parent:          a,
			ParentMapper:    func(e boltz.Entity) boltz.Entity { return e },
			EntityNotFoundF: func(id string) error { return boltz.NewNotFoundError(c09Things, "id", id) },
		})
		if extended {
			st = st.Extended()
		}
		st.InitImpl(st)
		return st
	}
	ax, ap := child(c09ThingsX, true), child(c09ThingsP, false)
	s.byName[c09ThingsX], s.byName[c09ThingsP] = ax, ap
	for _, c := range []*boltz.BaseStore[*c09nEnt]{ax, ap} {
		c := c
		a.RegisterChildStoreStrategy(&boltz.ChildStoreUpdateHandler[*c09nEnt, *c09nEnt]{
			Store: c,
			Mapper: func(ctx boltz.MutateContext, parent *c09nEnt) (*c09nEnt, bool) {
				if !c.IsEntityPresent(ctx.Tx(), parent.Id) {
					return nil, false
				}
				ch, found, _ := c.FindById(ctx.Tx(), parent.Id)
				if !found || ch == nil {
					return nil, false
				}
				for _, y := range desc.scalars(c09Things) {
					ch.F[y.name] = parent.F[y.name]
				}
				for _, y := range desc.sets(c09Things) {
					if !y.isFk {
						ch.S[y.name] = parent.S[y.name]
					}
				}
				return ch, true
			},
		})
	}
	// symbols in declaration order, then the declarations in registration order
	for _, y := range desc.syms {
		st := s.byName[y.store]
		var sym boltz.EntitySymbol
		switch {
		case y.isSet && y.isFk:
			sym = st.AddFkSetSymbol(y.name, s.byName[y.linked])
		case y.isSet:
			sym = st.AddSetSymbol(y.name, ast.NodeTypeString)
		case y.isFk:
			sym = st.AddFkSymbolWithKey(y.name, y.key(), s.byName[y.linked], y.prefix()...)
		default:
			sym = st.AddSymbolWithKey(y.name, ast.NodeTypeString, y.key(), y.prefix()...)
		}
		s.syms[y.store+"."+y.name] = sym
	}
	for _, dc := range desc.decls {
		st := s.byName[dc.decl]
		sym := s.syms[dc.st+"."+dc.name]
		switch dc.kind {
		case "U":
			if dc.nullable {
				st.AddNullableUniqueIndex(sym)
			} else {
				st.AddUniqueIndex(sym)
			}
		case "X":
			st.AddSetIndex(sym.(boltz.EntitySetSymbol))
		case "F":
			fk := s.syms[dc.oStore+"."+dc.oName].(boltz.EntitySetSymbol)
			if dc.nullable {
				st.AddNullableFkIndex(sym, fk)
			} else {
				st.AddFkIndex(sym, fk)
			}
		case "C":
			st.AddFkConstraint(sym, dc.nullable, boltz.CascadeNone)
		case "K":
			s.links[dc.decl+"."+dc.name] = st.AddLinkCollection(sym, s.syms[dc.oStore+"."+dc.oName])
		}
	}
	return s
}

func (s *c09nStores) all() []boltz.Store {
	var res []boltz.Store
	for _, n := range c09nStoreOrder {
		res = append(res, s.byName[n])
	}
	return res
}

type c09nDb struct {
	dir string
	db  *bbolt.DB
	st  *c09nStores
}

func c09nOpen(desc *c09nDesc) *c09nDb {
	dir, err := os.MkdirTemp("", "verif-*")
	if err != nil {
		panic(err)
	}
	opts := *bbolt.DefaultOptions
	opts.NoSync = true
	opts.NoFreelistSync = true
	db, err := bbolt.Open(dir+"/t.db", 0600, &opts)
	if err != nil {
		_ = os.RemoveAll(dir)
		panic(err)
	}
	d := &c09nDb{dir: dir, db: db, st: c09nNewStores(desc)}
	err = db.Update(func(tx *bbolt.Tx) error {
		eh := &errorz.ErrorHolderImpl{}
		for _, n := range c09nStoreOrder {
			d.st.byName[n].InitializeIndexes(tx, eh)
		}
		rb, err := tx.CreateBucketIfNotExists([]byte(c09Root))
		if err != nil {
			return err
		}
		if _, err := rb.CreateBucketIfNotExists([]byte(c09Things)); err != nil {
			return err
		}
		if _, err := rb.CreateBucketIfNotExists([]byte(c09Owners)); err != nil {
			return err
		}
		return eh.GetError()
	})
	if err != nil {
		d.close()
		panic(err)
	}
	return d
}

func (d *c09nDb) close() {
	_ = d.db.Close()
	_ = os.RemoveAll(d.dir)
}

// ----------------------------------------------------------------------------------- history

func (d *c09nDb) entity(store, id string, kvs []string) *c09nEnt {
	e := &c09nEnt{Id: id, Typ: c09EntType(store), F: map[string]*string{}, S: map[string][]string{}}
	for _, kv := range kvs {
		p := strings.SplitN(kv, "=", 2)
		if len(p) != 2 {
			continue
		}
		isSet := false
		for _, st := range []string{store, c09EntType(store)} {
			if y := d.st.desc.sym(st, p[0]); y != nil && y.isSet {
				isSet = true
			}
		}
		if isSet {
			e.S[p[0]] = c09ParseList(p[1])
		} else {
			e.F[p[0]] = c09Opt(p[1])
		}
	}
	return e
}

func c09nApply(d *c09nDb, op string) (err error) {
	f := strings.Split(op, " ")
	defer func() {
		if r := recover(); r != nil {
			err = fmt.Errorf("panic: %v", r)
		}
	}()
	return d.db.Update(func(tx *bbolt.Tx) error {
		ctx := c09Ctx(tx)
		switch f[0] {
		case "c":
			return d.st.byName[f[1]].Create(ctx, d.entity(f[1], fromWire(f[2]), f[3:]))
		case "u":
			return d.st.byName[f[1]].Update(ctx, d.entity(f[1], fromWire(f[2]), f[3:]), nil)
		case "d":
			return d.st.byName[f[1]].DeleteById(ctx, fromWire(f[2]))
		case "k":
			lc := d.st.links[f[1]+"."+f[2]]
			if lc == nil {
				return fmt.Errorf("no link collection %s.%s", f[1], f[2])
			}
			return lc.SetLinks(tx, fromWire(f[3]), c09ParseList(f[4]))
		}
		return fmt.Errorf("unknown op %s", f[0])
	})
}

// ----------------------------------------------------------------------------------- corruptions

func c09nCorrupt(tx *bbolt.Tx, f []string) error {
	idxBucket := func(idx string) *bbolt.Bucket {
		p := strings.SplitN(idx, ".", 2)
		return c09Bucket(tx, c09Root, boltz.IndexesBucket, c09EntType(p[0]), p[1])
	}
	switch f[0] {
	case "EF":
		eb := c09EntityBucket(tx, f[1], fromWire(f[2]))
		if eb == nil {
			return nil
		}
		path := strings.Split(f[3], ">")
		for _, p := range path[:len(path)-1] {
			nb, err := eb.CreateBucketIfNotExists([]byte(p))
			if err != nil {
				return nil
			}
			eb = nb
		}
		key := []byte(path[len(path)-1])
		if eb.Bucket(key) != nil {
			return nil
		}
		if f[4] == "~" {
			return eb.Put(key, []byte{byte(boltz.TypeNil)})
		}
		return eb.Put(key, c09Typed(fromWire(f[4])))
	case "UP", "UD", "SA", "SD", "SK", "SX", "SJ":
		if idxBucket(f[1]) == nil {
			return nil
		}
		// the index primitives of c09Corrupt address indexes/<entity type>/<name>: same layout
		return c09Corrupt(tx, f)
	default: // EA ED XD XC: physical addressing already
		return c09Corrupt(tx, f)
	}
}

// ----------------------------------------------------------------------------------- state dump

func c09nSetStr(b *bbolt.Bucket) string {
	if b == nil {
		return "~"
	}
	var el []string
	c := b.Cursor()
	for k, _ := c.First(); k != nil; k, _ = c.Next() {
		if len(k) > 0 && k[0] == byte(boltz.TypeString) {
			el = append(el, toWire(string(k[1:])))
		} else {
			el = append(el, "?"+hex.EncodeToString(k))
		}
	}
	return "=" + strings.Join(el, ",")
}

func c09nStateDump(desc *c09nDesc, tx *bbolt.Tx) string {
	var out []string
	for _, store := range c09nStoreOrder {
		sb := c09Bucket(tx, c09Root, c09EntType(store))
		if sb == nil {
			continue
		}
		childPath, isChild := c09ChildPath[store]
		scalars, sets := desc.scalars(store), desc.sets(store)
		c := sb.Cursor()
		for id, v := c.First(); id != nil; id, v = c.Next() {
			if v != nil {
				if !isChild {
					out = append(out, "J", store, toWire(string(id)))
				}
				continue
			}
			eb := sb.Bucket(id)
			if isChild {
				if eb = eb.Bucket([]byte(childPath)); eb == nil {
					continue
				}
			}
			out = append(out, "E", store, toWire(string(id)))
			known := map[string]bool{} // joined paths accounted for
			prefixes := map[string]bool{}
			if !isChild && store == c09Things {
				for _, cp := range c09ChildPath {
					known[cp] = true
				}
			}
			for _, y := range scalars {
				known[strings.Join(y.path, ">")] = true
				for i := 1; i < len(y.path); i++ {
					prefixes[strings.Join(y.path[:i], ">")] = true
				}
				bb := eb
				for _, p := range y.prefix() {
					if bb != nil {
						bb = bb.Bucket([]byte(p))
					}
				}
				tok := "~"
				if bb != nil {
					raw := bb.Get([]byte(y.key()))
					ft, val := boltz.GetTypeAndValue(raw)
					switch {
					case ft == boltz.TypeNil:
						tok = "~"
					case ft == boltz.TypeString:
						tok = toWire(string(val))
					default:
						tok = "?" + hex.EncodeToString(raw)
					}
					if raw == nil && bb.Bucket([]byte(y.key())) != nil {
						tok = "?bucket"
					}
				}
				out = append(out, strings.Join(y.path, ">"), tok)
			}
			for _, y := range sets {
				known[y.name] = true
				if eb.Get([]byte(y.name)) != nil {
					out = append(out, y.name, "?plain")
				} else {
					out = append(out, y.name, c09nSetStr(eb.Bucket([]byte(y.name))))
				}
			}
			// every key no declared symbol accounts for
			var extras []string
			var walk func(b *bbolt.Bucket, at []string)
			walk = func(b *bbolt.Bucket, at []string) {
				cc := b.Cursor()
				for k, v := cc.First(); k != nil; k, v = cc.Next() {
					p := strings.Join(append(append([]string{}, at...), string(k)), ">")
					if known[p] {
						continue
					}
					if v == nil {
						if prefixes[p] {
							walk(b.Bucket(k), append(append([]string{}, at...), string(k)))
						} else {
							extras = append(extras, hex.EncodeToString([]byte(p))+":b")
						}
					} else {
						extras = append(extras, hex.EncodeToString([]byte(p))+"="+hex.EncodeToString(v))
					}
				}
			}
			walk(eb, nil)
			out = append(out, "^"+strings.Join(extras, ","))
		}
	}
	for _, dc := range desc.decls {
		if dc.kind != "U" {
			continue
		}
		b := c09Bucket(tx, c09Root, boltz.IndexesBucket, c09EntType(dc.st), dc.name)
		var ent []string
		if b != nil {
			c := b.Cursor()
			for k, v := c.First(); k != nil; k, v = c.Next() {
				if v == nil {
					ent = append(ent, toWire(string(k)), "?bucket")
				} else {
					ent = append(ent, toWire(string(k)), toWire(string(v)))
				}
			}
		}
		out = append(out, "U", dc.st+"."+dc.name, itoa(len(ent)/2))
		out = append(out, ent...)
	}
	for _, dc := range desc.decls {
		if dc.kind != "X" {
			continue
		}
		b := c09Bucket(tx, c09Root, boltz.IndexesBucket, c09EntType(dc.st), dc.name)
		var ent []string
		if b != nil {
			c := b.Cursor()
			for k, v := c.First(); k != nil; k, v = c.Next() {
				if v != nil {
					ent = append(ent, toWire(string(k)), "!")
				} else {
					ent = append(ent, toWire(string(k)), c09nSetStr(b.Bucket(k)))
				}
			}
		}
		out = append(out, "X", dc.st+"."+dc.name, itoa(len(ent)/2))
		out = append(out, ent...)
	}
	return strings.Join(out, " ")
}

// ----------------------------------------------------------------------------------- reports

// the code labels a constraint's reports "<entity type>.<symbol name>"; the model by "<symbol store>.<symbol name>"
func (d *c09nDesc) modelIdx(idx string) string {
	p := strings.SplitN(idx, ".", 2)
	if len(p) != 2 {
		return idx
	}
	for _, dc := range d.decls {
		if dc.kind != "K" && c09EntType(dc.st) == p[0] && dc.name == p[1] {
			return dc.st + "." + dc.name
		}
	}
	return idx
}

func c09nClassify(d *c09nDesc, msg string, fixed bool) string {
	fl := "f"
	if fixed {
		fl = "t"
	}
	for _, p := range c09Pats {
		if m := p.re.FindStringSubmatch(msg); m != nil {
			idx, subj := p.build(m)
			parts := []string{p.class, d.modelIdx(idx)}
			for _, s := range subj {
				if s == "(nil)" {
					parts = append(parts, "~")
				} else {
					parts = append(parts, toWire(s))
				}
			}
			parts = append(parts, fl)
			return strings.Join(parts, ":")
		}
	}
	return "unknown:" + toWire(msg) + ":" + fl
}

// ----------------------------------------------------------------------------------- exec

// mode token "N:<txmode>:<descriptor>"
func c09nMode(mode string) (string, *c09nDesc, bool) {
	p := strings.SplitN(mode, ":", 3)
	if len(p) != 3 || p[0] != "N" {
		return "", nil, false
	}
	d, err := c09nParseDesc(p[2])
	if err != nil {
		return "", nil, false
	}
	return p[1], d, true
}

func c09nPrepare(desc *c09nDesc, history, corrupt []string) (*c09nDb, string) {
	d := c09nOpen(desc)
	for _, op := range history {
		if err := c09nApply(d, op); err != nil && os.Getenv("C09_DEBUG") != "" {
			fmt.Fprintln(os.Stderr, "op failed:", op, err)
		}
	}
	if len(corrupt) > 0 {
		err := d.db.Update(func(tx *bbolt.Tx) error {
			for _, c := range corrupt {
				if err := c09nCorrupt(tx, strings.Split(c, " ")); err != nil {
					return err
				}
			}
			return nil
		})
		if err != nil {
			d.close()
			panic(err)
		}
	}
	var st string
	_ = d.db.View(func(tx *bbolt.Tx) error {
		st = c09nStateDump(desc, tx)
		return nil
	})
	return d, st
}

func c09nExec(c *c09Case) string {
	txmode, desc, ok := c09nMode(c.mode)
	if !ok {
		return "bad-case"
	}
	d, st := c09nPrepare(desc, c.history, c.corrupt)
	defer d.close()
	if st != c.state {
		return "state-mismatch " + st
	}
	stores := d.st.all()
	if txmode == "tx1r" {
		for i, j := 0, len(stores)-1; i < j; i, j = i+1, j-1 {
			stores[i], stores[j] = stores[j], stores[i]
		}
	}
	check := func(tx *bbolt.Tx, s boltz.Store, fix bool, out *[]string) error {
		err := s.CheckIntegrity(c09Ctx(tx), fix, func(err error, fixed bool) {
			*out = append(*out, c09nClassify(desc, err.Error(), fixed))
		})
		if err != nil {
			*out = append(*out, "err")
		}
		return err
	}
	var parts []string
	var d2 string
	oneTx := txmode == "tx1" || txmode == "tx1r"
	var outer *bbolt.Tx
	view := func(f func(tx *bbolt.Tx)) {
		if oneTx {
			f(outer)
		} else {
			_ = d.db.View(func(tx *bbolt.Tx) error { f(tx); return nil })
		}
	}
	raw := func() (s string) { view(func(tx *bbolt.Tx) { s = c09RawDump(tx) }); return }
	canon := func() (s string) { view(func(tx *bbolt.Tx) { s = c09nStateDump(desc, tx) }); return }
	run := func() {
		for phase := 1; phase <= 4; phase++ {
			fix := phase%2 == 0
			var before string
			if !fix {
				before = raw()
			}
			var rep []string
			for _, s := range stores {
				s := s
				if oneTx {
					_ = check(outer, s, fix, &rep)
				} else {
					_ = d.db.Update(func(tx *bbolt.Tx) error { return check(tx, s, fix, &rep) })
				}
			}
			parts = append(parts, fmt.Sprintf("R%d %s", phase, c09Reports(rep)))
			switch phase {
			case 1, 3:
				if raw() == before {
					parts = append(parts, "same")
				} else {
					parts = append(parts, "changed D "+canon())
				}
			case 2:
				d2 = canon()
				parts = append(parts, "D2 "+d2)
			case 4:
				if canon() == d2 {
					parts = append(parts, "same")
				} else {
					parts = append(parts, "differs")
				}
			}
		}
	}
	if oneTx {
		_ = d.db.Update(func(tx *bbolt.Tx) error { outer = tx; run(); return nil })
	} else {
		run()
	}
	return strings.Join(parts, " | ")
}

// ----------------------------------------------------------------------------------- schema family

// c09nFamily: one schema of the family.
//
//	nv    0 key == name; 1 key = name + "K" (name != key); 2 the keys of a store's scalar symbols ROTATED (the key of
//	      one symbol is the name of another); 3 nested: unique-indexed and non-nullable-fk symbols under the prefix
//	      bucket "sub" with key name+"K" (len(path) == 2), nullable fks key = name + "K"; 4 like 3 with the nullable
//	      fks nested as well
//	dO, dD, dB, dL   the store that owns the symbol and declares: owner (nullable fk index -> owners.things), dep
//	      (nullable fk constraint -> owners), boss (nullable fk index -> things.minions), groups (link collection
//	      <-> owners.members)
//	tF    the store owners.fav (nullable fk index) points at: back-references in <tF>.fans
//	depByChild   dep is a symbol of things, the constraint is declared BY things_x (a granted symbol)
type c09nParams struct {
	nv                 int
	dO, dD, dB, dL, tF string
	depByChild         bool
}

func (p c09nParams) desc() string {
	type sc struct {
		store, name, linked string
		nullableFk, indexed bool
	}
	var scalars []sc
	add := func(store, name, linked string, nullableFk, indexed bool) {
		scalars = append(scalars, sc{store, name, linked, nullableFk, indexed})
	}
	dD := p.dD
	if p.depByChild {
		dD = c09Things
	}
	add(c09Things, "name", "", false, true)
	add(c09Things, "alias", "", false, true)
	add(c09Things, "home", c09Owners, false, true)
	add(p.dO, "owner", c09Owners, true, false)
	add(dD, "dep", c09Owners, true, false)
	add(p.dB, "boss", c09Things, true, false)
	add(c09ThingsX, "badge", "", false, true)
	add(c09ThingsX, "tag", "", false, true)
	add(c09ThingsP, "code", "", false, true)
	add(c09ThingsP, "nick", "", false, true)
	add(c09Owners, "label", "", false, true)
	add(c09Owners, "fav", p.tF, true, false)
	// paths
	byStore := map[string][]int{}
	for i, s := range scalars {
		byStore[s.store] = append(byStore[s.store], i)
	}
	path := make([]string, len(scalars))
	for i, s := range scalars {
		switch p.nv {
		case 0:
			path[i] = s.name
		case 1:
			path[i] = s.name + "K"
		case 2:
			l := byStore[s.store]
			for j, k := range l {
				if k == i {
					path[i] = scalars[l[(j+1)%len(l)]].name
				}
			}
		case 3:
			if s.nullableFk {
				path[i] = s.name + "K"
			} else {
				path[i] = "sub>" + s.name + "K"
			}
		default:
			path[i] = "sub>" + s.name + "K"
		}
	}
	var out []string
	for i, s := range scalars {
		if s.linked != "" {
			out = append(out, "k/"+s.store+"/"+s.name+"/"+path[i]+"/"+s.linked)
		} else {
			out = append(out, "s/"+s.store+"/"+s.name+"/"+path[i])
		}
	}
	out = append(out,
		"l/things/roles", "l/things_x/caps",
		"L/owners/residents/things", "L/owners/things/"+p.dO, "L/things/minions/"+p.dB, "L/"+p.tF+"/fans/owners",
		"L/"+p.dL+"/groups/owners", "L/owners/members/"+p.dL,
		// registration order
		"U/things/things/name/n", "U/things/things/alias/N", "X/things/things/roles",
		"F/things/things/home/n/owners/residents",
		"F/"+p.dO+"/"+p.dO+"/owner/N/owners/things")
	if p.depByChild {
		out = append(out, "C/things_x/things/dep/N")
	} else {
		out = append(out, "C/"+p.dD+"/"+p.dD+"/dep/N")
	}
	out = append(out,
		"F/"+p.dB+"/"+p.dB+"/boss/N/things/minions",
		"U/things_x/things_x/badge/n", "U/things_x/things_x/tag/N", "X/things_x/things_x/caps",
		"U/things_p/things_p/code/n", "U/things_p/things_p/nick/N",
		"U/owners/owners/label/N",
		"F/owners/owners/fav/N/"+p.tF+"/fans",
		"K/"+p.dL+"/"+p.dL+"/groups/owners/members", "K/owners/owners/members/"+p.dL+"/groups")
	return strings.Join(out, ",")
}

var c09nThingStores = []string{c09Things, c09ThingsX, c09ThingsP}

func c09nRandomParams(r *rng, maxNv int) c09nParams {
	p := c09nParams{nv: r.intn(maxNv + 1), dO: pick(r, c09nThingStores), dD: pick(r, c09nThingStores), dB: pick(r, c09nThingStores),
		dL: pick(r, c09nThingStores), tF: pick(r, c09nThingStores)}
	if r.chance(1, 6) {
		p.depByChild = true
	}
	return p
}

// ----------------------------------------------------------------------------------- generator

type c09nGen struct {
	p    c09nParams
	desc *c09nDesc
	r    *rng
}

// the fields a create / update through `store` carries: those of the store and of its parent
func (g *c09nGen) fieldsOf(store string) []*c09nSym {
	var res []*c09nSym
	for _, st := range []string{c09EntType(store), store} {
		for _, y := range g.desc.syms {
			if y.store == st && (!y.isSet || !y.isFk) {
				res = append(res, y)
			}
		}
		if st == store {
			break
		}
	}
	return res
}

var c09nPools = map[string][]string{
	"name": c09Names, "alias": c09Aliases, "roles": c09Roles, "badge": c09Badges, "tag": c09Tags, "caps": c09Caps,
	"code": c09Codes, "nick": c09Nicks, "label": c09Labels,
}

func (g *c09nGen) thingOp(verb, store, id string, liveA, liveB []string, emptyStr bool) string {
	r := g.r
	pickOr := func(live, all []string) string {
		if len(live) == 0 || r.chance(1, 10) {
			return pick(r, all)
		}
		return pick(r, live)
	}
	toks := []string{verb, store, toWire(id)}
	for _, y := range g.fieldsOf(store) {
		var v string
		switch {
		case y.isSet:
			v = c09List(c09Subset(r, c09nPools[y.name]))
		case y.name == "name" || y.name == "badge" || y.name == "code":
			v = pick(r, c09nPools[y.name])
			if r.chance(2, 3) {
				v = y.name[:1] + id[1:]
			}
			v = toWire(v)
		case y.name == "home":
			v = toWire(pickOr(liveB, c09BIds))
		case y.linked == c09Owners:
			v = "~"
			if r.chance(2, 3) {
				v = toWire(pickOr(liveB, c09BIds))
			}
		case y.linked != "": // boss
			v = "~"
			if r.chance(1, 3) {
				v = toWire(pickOr(liveA, c09AIds))
			}
		default:
			v = c09OptPick(r, c09nPools[y.name], 1, 3)
		}
		if emptyStr && !y.isSet && y.name != "name" && y.name != "badge" && y.name != "code" && y.name != "home" && r.chance(1, 5) {
			v = "-"
		}
		toks = append(toks, y.name+"="+v)
	}
	return strings.Join(toks, " ")
}

func (g *c09nGen) ownerOp(verb, id string, liveA []string) string {
	r := g.r
	label := c09OptPick(r, c09Labels, 1, 2)
	fav := "~"
	if r.chance(1, 2) && len(liveA) > 0 {
		fav = toWire(pick(r, liveA))
	}
	return fmt.Sprintf("%s owners %s label=%s fav=%s", verb, toWire(id), label, fav)
}

func (g *c09nGen) history(n int, emptyStr bool) []string {
	r := g.r
	var h []string
	var liveA, liveB []string
	addLive := func(l []string, x string) []string {
		for _, y := range l {
			if y == x {
				return l
			}
		}
		return append(l, x)
	}
	for _, b := range c09BIds {
		if r.chance(4, 5) {
			h = append(h, g.ownerOp("c", b, nil))
			liveB = addLive(liveB, b)
		}
	}
	for _, a := range c09AIds {
		if r.chance(2, 3) {
			h = append(h, g.thingOp("c", pick(r, c09nThingStores), a, liveA, liveB, emptyStr))
			liveA = addLive(liveA, a)
		}
	}
	for i := 0; i < n; i++ {
		switch k := r.intn(20); {
		case k < 7:
			id := pick(r, c09AIds)
			h = append(h, g.thingOp("c", pick(r, c09nThingStores), id, liveA, liveB, emptyStr))
			liveA = addLive(liveA, id)
		case k < 11:
			h = append(h, g.thingOp("u", pick(r, c09nThingStores), pick(r, c09AIds), liveA, liveB, emptyStr))
		case k < 12:
			h = append(h, "d "+pick(r, []string{c09Things, c09Things, c09ThingsX})+" "+toWire(pick(r, c09AIds)))
		case k < 13:
			h = append(h, "d owners "+toWire(pick(r, c09BIds)))
		case k < 15:
			id := pick(r, c09BIds)
			h = append(h, g.ownerOp(pick(r, []string{"c", "u"}), id, liveA))
			liveB = addLive(liveB, id)
		case k < 18:
			h = append(h, fmt.Sprintf("k %s groups %s %s", g.p.dL, toWire(pick(r, c09AIds)), c09List(c09Subset(r, c09BIds))))
		default:
			h = append(h, fmt.Sprintf("k owners members %s %s", toWire(pick(r, c09BIds)), c09List(c09Subset(r, c09AIds))))
		}
	}
	return h
}

// every class of corruption on every declared index / symbol of the schema, over the id / value universes
func (g *c09nGen) catalogue() []string {
	w := toWire
	var cs []string
	aIds := append(append([]string{}, c09AIds...), c09GhostA)
	bIds := append(append([]string{}, c09BIds...), c09GhostB)
	idsOf := func(store string) ([]string, []string) {
		if store == c09Owners {
			return c09BIds, bIds
		}
		return c09AIds, aIds
	}
	for _, dc := range g.desc.decls {
		y := g.desc.sym(dc.st, dc.name)
		idx := dc.st + "." + dc.name
		pth := strings.Join(y.path, ">")
		live, all := idsOf(dc.st)
		switch dc.kind {
		case "U":
			pool := append(append([]string{}, c09nPools[dc.name]...), "zz")
			for _, k := range pool {
				cs = append(cs, "UD "+idx+" "+w(k))
				for _, id := range all {
					cs = append(cs, "UP "+idx+" "+w(k)+" "+w(id))
				}
			}
			for _, id := range live {
				for _, v := range append([]string{"~", "-"}, pool[:2]...) {
					cs = append(cs, "EF "+dc.st+" "+w(id)+" "+pth+" "+c09W(v))
				}
			}
		case "X":
			pool := append(append([]string{}, c09nPools[dc.name]...), "zz")
			for _, k := range pool {
				cs = append(cs, "SK "+idx+" "+w(k), "SX "+idx+" "+w(k), "SJ "+idx+" "+w(k))
				for _, id := range all {
					cs = append(cs, "SA "+idx+" "+w(k)+" "+w(id), "SD "+idx+" "+w(k)+" "+w(id))
				}
				for _, id := range live {
					cs = append(cs, "EA "+dc.st+" "+w(id)+" "+dc.name+" "+w(k), "ED "+dc.st+" "+w(id)+" "+dc.name+" "+w(k))
				}
			}
		case "F", "C":
			_, tall := idsOf(y.linked)
			for _, id := range live {
				for _, v := range append([]string{"~", "-"}, tall...) {
					cs = append(cs, "EF "+dc.st+" "+w(id)+" "+pth+" "+c09W(v))
				}
			}
			if dc.kind == "F" {
				tlive, _ := idsOf(dc.oStore)
				for _, t := range tlive {
					for _, id := range all {
						cs = append(cs, "EA "+dc.oStore+" "+w(t)+" "+dc.oName+" "+w(id), "ED "+dc.oStore+" "+w(t)+" "+dc.oName+" "+w(id))
					}
				}
			}
		case "K":
			_, oall := idsOf(dc.oStore)
			for _, id := range live {
				for _, o := range oall {
					cs = append(cs, "EA "+dc.st+" "+w(id)+" "+dc.name+" "+w(o), "ED "+dc.st+" "+w(id)+" "+dc.name+" "+w(o))
				}
			}
		}
	}
	for _, id := range c09AIds {
		for _, st := range []string{c09ThingsX, c09ThingsP} {
			cs = append(cs, "XD "+st+" "+w(id), "XC "+st+" "+w(id))
		}
	}
	return cs
}

// a fixed healthy population: a1 parent-only, a2 extension data, a3 plain-child data, a11 both; every fk set
func (g *c09nGen) fixedHistory() []string {
	w := toWire
	thing := func(verb, store, id, name, boss string) string {
		toks := []string{verb, store, w(id)}
		for _, y := range g.fieldsOf(store) {
			var v string
			switch y.name {
			case "name":
				v = w(name)
			case "alias":
				v = w("x" + id[1:])
			case "roles":
				v = c09List([]string{"r1", "r" + id[1:]})
			case "home", "owner", "dep":
				v = w("b1")
			case "boss":
				v = boss
			case "badge":
				v = w("g" + id[1:])
			case "tag":
				v = w("t" + id[1:])
			case "caps":
				v = c09List([]string{"c1"})
			case "code":
				v = w("k" + id[1:])
			case "nick":
				v = w("q" + id[1:])
			}
			toks = append(toks, y.name+"="+v)
		}
		return strings.Join(toks, " ")
	}
	h := []string{
		"c owners " + w("b1") + " label=" + w("l1") + " fav=~",
		"c owners " + w("b2") + " label=~ fav=~",
		thing("c", c09Things, "a1", "n1", "~"),
		thing("c", c09ThingsX, "a2", "n2", w("a1")),
		thing("c", c09ThingsP, "a3", "n3", w("a1")),
		thing("c", c09ThingsX, "a11", "n4", w("a1")),
		thing("c", c09ThingsP, "a11", "n4", w("a1")),
		// a1 gains the data of the stores that own a movable symbol, so that every fk has a referrer
		"u owners " + w("b2") + " label=~ fav=" + w("a11"),
		fmt.Sprintf("k %s groups %s %s", g.p.dL, w("a11"), c09List([]string{"b1", "b2"})),
	}
	return h
}

// one corruption of every class aimed at a11 (a member of every store) / b1 / b2
func (g *c09nGen) fixedCatalogue() []string {
	w := toWire
	var cs []string
	for _, dc := range g.desc.decls {
		y := g.desc.sym(dc.st, dc.name)
		idx := dc.st + "." + dc.name
		pth := strings.Join(y.path, ">")
		holder, ghost, other := "a11", "a9", "a2"
		if dc.st == c09Owners {
			holder, ghost, other = "b2", "b9", "b1"
		}
		switch dc.kind {
		case "U":
			val := map[string]string{"name": "n4", "alias": "x11", "badge": "g11", "tag": "t11", "code": "k11", "nick": "q11", "label": "l1"}[dc.name]
			if dc.st == c09Owners {
				holder = "b1"
			}
			cs = append(cs,
				"UD "+idx+" "+w(val),                   // entry missing
				"UP "+idx+" "+w(val)+" "+w(ghost),      // wrong target, no such entity
				"UP "+idx+" "+w("zz")+" "+w(holder),    // extra entry -> stale
				"EF "+dc.st+" "+w(holder)+" "+pth+" "+w("zy"), // holder moved: stale + missing
				"EF "+dc.st+" "+w(holder)+" "+pth+" ~") // nil
			_ = other
		case "X":
			val := map[string]string{"roles": "r1", "caps": "c1"}[dc.name]
			cs = append(cs,
				"SD "+idx+" "+w(val)+" "+w(holder), "SX "+idx+" "+w(val), "SA "+idx+" "+w(val)+" "+w(ghost),
				"SK "+idx+" "+w("zy"), "SJ "+idx+" "+w("q"), "EA "+dc.st+" "+w(holder)+" "+dc.name+" "+w("zz"),
				"ED "+dc.st+" "+w(holder)+" "+dc.name+" "+w(val))
		case "F", "C":
			tghost, tother := "b9", "b2"
			if y.linked != c09Owners {
				tghost, tother = "a9", "a2"
			}
			cs = append(cs,
				"EF "+dc.st+" "+w(holder)+" "+pth+" "+w(tghost), // DANGLING reference: the repair rewrites the field
				"EF "+dc.st+" "+w(holder)+" "+pth+" ~",
				"EF "+dc.st+" "+w(holder)+" "+pth+" -",
				"EF "+dc.st+" "+w(holder)+" "+pth+" "+w(tother)) // refers elsewhere: back-reference stale + missing
			if dc.kind == "F" {
				target := "b1"
				if dc.oStore != c09Owners {
					target = "a1"
					if dc.name == "fav" {
						target = "a11"
					}
				}
				cs = append(cs,
					"ED "+dc.oStore+" "+w(target)+" "+dc.oName+" "+w(holder), // back-reference missing
					"EA "+dc.oStore+" "+w(target)+" "+dc.oName+" "+w(ghost))  // back-reference to a missing entity
			}
		case "K":
			oghost, olive := "b9", "b1"
			if dc.st == c09Owners {
				oghost, olive = "a9", "a11"
				holder = "b1"
			}
			cs = append(cs,
				"EA "+dc.st+" "+w(holder)+" "+dc.name+" "+w(oghost), // dangling link
				"ED "+dc.st+" "+w(holder)+" "+dc.name+" "+w(olive))  // one-sided (the other side keeps its entry)
		}
	}
	cs = append(cs, "XD things_x "+w("a11"), "XD things_p "+w("a11"), "XC things_x "+w("a1"), "XC things_p "+w("a1"))
	return cs
}

func c09nEmit(out *bufio.Writer, tx string, desc string, history, corrupt []string) {
	c09EmitCase(out, "N:"+tx+":"+desc, history, corrupt)
}

// nv 4: the nullable fks stored under a prefix too (on the code before the repair C09-nested-fk-repair a dangling
// reference of such a symbol was never repaired); C09N_NO_NESTED leaves the variant out
func c09nMaxNv() int {
	if os.Getenv("C09N_NO_NESTED") != "" {
		return 3
	}
	return 4
}

func c09nGenCases(tier string, r *rng, out *bufio.Writer) {
	thorough := tier == "thorough"
	maxNv := c09nMaxNv()
	// 1. the structured part: every naming variant x every declaring store (all movable declarations on the same
	//    store), a healthy population and one corruption of every class on every declared index / symbol
	var fam []c09nParams
	for nv := 0; nv <= maxNv; nv++ {
		for _, d := range c09nThingStores {
			fam = append(fam, c09nParams{nv: nv, dO: d, dD: d, dB: d, dL: d, tF: d})
		}
		fam = append(fam, c09nParams{nv: nv, dO: c09ThingsX, dD: c09ThingsX, dB: c09ThingsP, dL: c09ThingsP, tF: c09Things, depByChild: true})
	}
	for fi, p := range fam {
		// quick: name == key schemas are the first harness' ground; keep the mixed one only
		if !thorough && p.nv == 0 && !p.depByChild {
			continue
		}
		desc, _ := c09nParseDesc(p.desc())
		g := &c09nGen{p: p, desc: desc, r: r}
		h := g.fixedHistory()
		fc := g.fixedCatalogue()
		c09nEmit(out, "sep", desc.text, h, nil)
		for ci, c := range fc {
			// quick: every corruption of a foreign key, a back-reference list, a link list or the membership of a
			// child store (the classes whose repair WRITES an entity bucket), one in five of the index-only ones
			if !thorough && (strings.HasPrefix(c, "U") || strings.HasPrefix(c, "S")) && (ci+fi)%6 != 0 {
				continue
			}
			c09nEmit(out, "sep", desc.text, h, []string{c})
		}
		npairs := 3
		if thorough {
			npairs = 60
		}
		for i := 0; i < npairs; i++ {
			a, b := r.intn(len(fc)), r.intn(len(fc))
			if a != b {
				tx := "sep"
				if i%3 == 1 {
					tx = "tx1"
				} else if i%3 == 2 {
					tx = "tx1r"
				}
				c09nEmit(out, tx, desc.text, h, []string{fc[a], fc[b]})
			}
		}
	}
	// 2. random schemas of the family, random histories, 0-4 corruptions from the schema's catalogue
	n := 120
	if thorough {
		n = 4000
	}
	for i := 0; i < n; i++ {
		p := c09nRandomParams(r, maxNv)
		desc, _ := c09nParseDesc(p.desc())
		g := &c09nGen{p: p, desc: desc, r: r}
		h := g.history(3+r.intn(10), i%5 == 4)
		cat := g.catalogue()
		k := r.intn(5)
		var cs []string
		for j := 0; j < k; j++ {
			cs = append(cs, pick(r, cat))
		}
		tx := "sep"
		if i%8 == 6 {
			tx = "tx1"
		} else if i%8 == 7 {
			tx = "tx1r"
		}
		c09nEmit(out, tx, desc.text, h, cs)
	}
}

var _ = sort.Strings
