// Correspondence harness: runs the real openziti/storage code (built from /repo's working
// tree through the replace directive) on generated or replayed cases.
//
//	harness <prop> gen  [-tier quick|thorough] [-seed N]   -> case lines on stdout
//	harness <prop> exec                                     -> reads case lines on stdin, prints one
//	                                                           implementation-output line per case
//
// The same case lines are fed to the Lean driver (the model's executable definitions);
// /verif/checks/*.py diffs the two output streams.
package main

import (
	"bufio"
	"flag"
	"fmt"
	"os"
	"sort"
	"strconv"
	"sync"
	"time"
)

type propHarness struct {
	gen  func(tier string, seed uint64, out *bufio.Writer)
	exec func(line string) string
}

var props = map[string]*propHarness{}

func register(name string, p *propHarness) { props[name] = p }

func main() {
	if len(os.Args) < 3 {
		names := []string{}
		for k := range props {
			names = append(names, k)
		}
		sort.Strings(names)
		fmt.Fprintf(os.Stderr, "usage: harness <prop> gen|exec  (props: %v)\n", names)
		os.Exit(2)
	}
	p, ok := props[os.Args[1]]
	if !ok {
		fmt.Fprintf(os.Stderr, "unknown property %s\n", os.Args[1])
		os.Exit(2)
	}
	fs := flag.NewFlagSet("harness", flag.ExitOnError)
	tier := fs.String("tier", "quick", "quick|thorough")
	seed := fs.Uint64("seed", 1, "PRNG seed")
	_ = fs.Parse(os.Args[3:])
	out := bufio.NewWriterSize(os.Stdout, 1<<20)
	defer out.Flush()
	switch os.Args[2] {
	case "gen":
		p.gen(*tier, *seed, out)
	case "exec":
		in := bufio.NewScanner(os.Stdin)
		in.Buffer(make([]byte, 1<<20), 1<<28)
		// Watchdog: a case that does not return within VERIF_CASE_TIMEOUT seconds (default 60) is
		// reported as the outcome "hang" and the process exits with status 3; the runner re-starts the
		// harness on the remaining cases.  Output is flushed per case so that, after a hang or a fatal
		// runtime error (not recoverable in Go), the lines written so far identify the case.
		limit := 60 * time.Second
		if v, err := strconv.Atoi(os.Getenv("VERIF_CASE_TIMEOUT")); err == nil && v > 0 {
			limit = time.Duration(v) * time.Second
		}
		var mu sync.Mutex
		started := time.Now()
		busy := false
		go func() {
			for {
				time.Sleep(500 * time.Millisecond)
				mu.Lock()
				if busy && time.Since(started) > limit {
					out.WriteString("hang\n")
					out.Flush()
					os.Exit(3)
				}
				mu.Unlock()
			}
		}()
		for in.Scan() {
			line := in.Text()
			if line == "" {
				continue
			}
			mu.Lock()
			started, busy = time.Now(), true
			mu.Unlock()
			res := safeExec(p.exec, line)
			mu.Lock()
			busy = false
			out.WriteString(res)
			out.WriteByte('\n')
			out.Flush()
			mu.Unlock()
		}
	default:
		fmt.Fprintf(os.Stderr, "unknown mode %s\n", os.Args[2])
		os.Exit(2)
	}
}

// safeExec turns a Go panic in the implementation into the observable outcome "panic".
func safeExec(f func(string) string, line string) (res string) {
	defer func() {
		if r := recover(); r != nil {
			res = fmt.Sprintf("panic %q", fmt.Sprint(r))
		}
	}()
	return f(line)
}
