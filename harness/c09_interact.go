package main

// C09 harness, part 3: INTERACTING corruptions — several corruptions aimed at one shared target
// (one index value, one foreign-key pair, one link pair, one entity, one bucket, a store that is empty
// at check time).  A single corruption, or corruptions on unrelated targets, exercise each branch of
// the checker on its own; the defects of this class need two or three of them to meet: a duplicate
// whose index entry is missing as well, a plain key sitting where a missing value bucket belongs, a
// stale and a missing back-reference of one referrer, a dangling link next to a one-sided one.
//
// For every target the corruption CLASSES that can be aimed at it are instantiated (c09*Classes); the
// generator emits every pair (both tiers; the thorough tier also in the opposite order of application
// and with both stores checked inside one transaction), every triple (thorough) or a seeded sample of
// ten triples per target (quick).  The same class builders serve the random histories: a target is chosen from
// the state the history produced (c09FocusCorruptions).

import (
	"bufio"
	"strings"
)

type c09Target struct {
	name    string
	history []string
	classes []string
}

func c09Opt2(s string) string {
	if s == "" {
		return "~"
	}
	return toWire(s)
}

// unique index `store.field` (idx), value v held by `holder`; `other` holds otherVal ("" = nil),
// `third` is one more entity, ghost an id without entity, fresh a value nobody holds
func c09UqClasses(store, field, v, holder, other, third, ghost, otherVal, fresh string) []string {
	idx := store + "." + field
	w := toWire
	cs := []string{
		"UD " + idx + " " + w(v),                                 // entry missing
		"UP " + idx + " " + w(v) + " " + w(other),                // wrong target (existing entity)
		"UP " + idx + " " + w(v) + " " + w(ghost),                // wrong target (no such entity)
		"EF " + store + " " + w(other) + " " + field + " " + w(v), // a second holder: duplicate
		"EF " + store + " " + w(holder) + " " + field + " " + w(fresh), // the holder moves away: entry stale
		"EF " + store + " " + w(holder) + " " + field + " ~",     // the holder's field is nil
		"EF " + store + " " + w(holder) + " " + field + " -",     // ... or the empty string
		"UP " + idx + " " + w(fresh) + " " + w(holder),           // an extra entry pointing at the holder
	}
	if third != "" {
		cs = append(cs, "EF "+store+" "+w(third)+" "+field+" "+w(v)) // a third holder
	}
	if otherVal != "" {
		cs = append(cs,
			"UD "+idx+" "+w(otherVal),                                // the second holder's own entry is missing
			"EF "+store+" "+w(holder)+" "+field+" "+w(otherVal)) // the holder takes the other's value
	}
	return cs
}

// set index things.roles, value v held by holder (and holder2, "" = none); non: an entity without v
func c09SxClasses(v, holder, holder2, non, ghost string) []string {
	return c09SxClassesOf(c09Things, "roles", v, holder, holder2, non, ghost)
}

// the same for the set index store.field (store may be a child store of things)
func c09SxClassesOf(store, field, v, holder, holder2, non, ghost string) []string {
	cs := c09SxClassesThings(v, holder, holder2, non, ghost)
	if store == c09Things && field == "roles" {
		return cs
	}
	for i, c := range cs {
		c = strings.Replace(c, " things.roles ", " "+store+"."+field+" ", 1)
		if strings.HasPrefix(c, "ED things ") || strings.HasPrefix(c, "EA things ") {
			c = c[:3] + store + c[9:]
			c = strings.Replace(c, " roles ", " "+field+" ", 1)
		}
		cs[i] = c
	}
	return cs
}

func c09SxClassesThings(v, holder, holder2, non, ghost string) []string {
	idx := "things.roles"
	w := toWire
	cs := []string{
		"SD " + idx + " " + w(v) + " " + w(holder), // entry missing
		"SX " + idx + " " + w(v),                   // whole key missing
		"SJ " + idx + " " + w(v),                   // (after SX) a plain key where the value bucket belongs
		"SK " + idx + " " + w(v),                   // (after SX) an empty value bucket
		"SA " + idx + " " + w(v) + " " + w(ghost),  // dangling entry
		"ED things " + w(holder) + " roles " + w(v), // the holder lost the value: entry stale
		"SJ " + idx + " " + w(v+"0"),               // a plain key right after the key
		"SJ " + idx + " " + w(v[:len(v)-1]),        // a plain key right before the key
	}
	if holder2 != "" {
		cs = append(cs, "SD "+idx+" "+w(v)+" "+w(holder2), "ED things "+w(holder2)+" roles "+w(v))
	}
	if non != "" {
		cs = append(cs, "SA "+idx+" "+w(v)+" "+w(non), "EA things "+w(non)+" roles "+w(v))
	}
	return cs
}

// fk index src.field -> dst.set: a refers to b; sib ("" = none) refers to b as well; b2 another target
func c09FkClasses(src, field, dst, set, a, sib, b, b2, ghostSrc, ghostDst string) []string {
	w := toWire
	cs := []string{
		"ED " + dst + " " + w(b) + " " + set + " " + w(a),          // back-reference missing
		"EF " + src + " " + w(a) + " " + field + " ~",             // reference nil: back-reference stale
		"EF " + src + " " + w(a) + " " + field + " -",             // reference "" (no reference either): back-reference stale
		"EF " + src + " " + w(a) + " " + field + " " + w(ghostDst), // dangling reference
		"EA " + dst + " " + w(b) + " " + set + " " + w(ghostSrc),   // back-reference of a missing referrer
	}
	if b2 != "" {
		cs = append(cs,
			"EF "+src+" "+w(a)+" "+field+" "+w(b2), // refers elsewhere: stale at b, missing at b2
			"EA "+dst+" "+w(b2)+" "+set+" "+w(a))   // a second target claims the referrer
	}
	if sib != "" {
		cs = append(cs, "ED "+dst+" "+w(b)+" "+set+" "+w(sib), "EF "+src+" "+w(sib)+" "+field+" "+w(ghostDst))
	}
	return cs
}

// link pair things.groups <-> owners.members: a <-> b linked; a2 ("" = none) linked to b as well; b2 ("")
// another owner linked to a; a3 ("") a thing not linked to b
func c09LinkClasses(a, b, a2, b2, a3, ghostA, ghostB, ghostB2 string) []string {
	w := toWire
	cs := []string{
		"ED things " + w(a) + " groups " + w(b),       // forward link gone: one-sided from owners
		"ED owners " + w(b) + " members " + w(a),      // reverse link gone: one-sided from things
		"EA things " + w(a) + " groups " + w(ghostB),  // dangling link
		"EA things " + w(a) + " groups " + w(ghostB2), // a second dangling link, adjacent key
		"EA owners " + w(b) + " members " + w(ghostA), // dangling link on the other side
		// dangling links that sort BEFORE every real id: the cursor meets them before the one-sided link
		"EA things " + w(a) + " groups " + w("b0"),
		"EA owners " + w(b) + " members " + w("a0"),
	}
	if a2 != "" {
		cs = append(cs, "ED things "+w(a2)+" groups "+w(b), "ED owners "+w(b)+" members "+w(a2))
	}
	if b2 != "" {
		cs = append(cs, "ED things "+w(a)+" groups "+w(b2), "ED owners "+w(b2)+" members "+w(a))
	}
	if a3 != "" {
		cs = append(cs, "EA things "+w(a3)+" groups "+w(b), "EA owners "+w(b)+" members "+w(a3))
	}
	return cs
}

// everything aimed at ONE entity a of things (o: another thing, with name oName and alias oAlias)
func c09EntityClasses(a, o, oName, oAlias, role, link, minion string) []string {
	w := toWire
	cs := []string{
		"EF things " + w(a) + " name " + w(oName), // duplicate name
		"EF things " + w(a) + " owner " + w(c09GhostB),
		"EF things " + w(a) + " home " + w(c09GhostB),
		"EF things " + w(a) + " dep " + w(c09GhostB),
		"EF things " + w(a) + " req " + w(c09GhostB),
		"EF things " + w(a) + " req ~",
		"EF things " + w(a) + " req -",
		"EF things " + w(a) + " owner -",
		"EF things " + w(a) + " dep -",
		"EF things " + w(a) + " boss -",
		"EF things " + w(a) + " boss " + w(c09GhostA),
		"EF things " + w(a) + " boss " + w(a), // refers to itself
		"EA things " + w(a) + " roles " + w("r3"),
		"EA things " + w(a) + " groups " + w(c09GhostB),
		"EA things " + w(a) + " minions " + w(c09GhostA),
		"UP things.name " + w("zz") + " " + w(a),
		"SA things.roles " + w("zz") + " " + w(a),
	}
	if oAlias != "" {
		cs = append(cs, "EF things "+w(a)+" alias "+w(oAlias))
	}
	if role != "" {
		cs = append(cs, "ED things "+w(a)+" roles "+w(role))
	}
	if link != "" {
		cs = append(cs, "ED things "+w(a)+" groups "+w(link))
	}
	if minion != "" {
		cs = append(cs, "ED things "+w(a)+" minions "+w(minion))
	}
	_ = o
	return cs
}

// a store that is EMPTY at check time: only its indexes and the other store's lists can be damaged
func c09EmptyStoreClasses(owner string) []string {
	w := toWire
	cs := []string{
		"UP things.name " + w("n1") + " " + w("a1"),
		"UP things.name " + w("zz") + " " + w(c09GhostA),
		"UP things.alias " + w("x1") + " " + w("a1"),
		"SA things.roles " + w("r1") + " " + w("a1"),
		"SA things.roles " + w("r1") + " " + w("a2"),
		"SK things.roles " + w("r2"),
		"SJ things.roles " + w("r10"),
	}
	if owner != "" {
		cs = append(cs,
			"EA owners "+w(owner)+" things "+w("a1"),
			"EA owners "+w(owner)+" residents "+w("a1"),
			"EA owners "+w(owner)+" members "+w("a1"))
	} else {
		cs = append(cs, "UP owners.label "+w("l1")+" "+w("b1"), "UP owners.label "+w("l2")+" "+w(c09GhostB))
	}
	return cs
}

// membership of the child stores: m is a member of `store` (with unique value uv in field uf), p a thing without
// that store's data, whose id sorts BEFORE every member when p is the smallest id
func c09MemberClasses(store, uf, uv, m, p string) []string {
	w := toWire
	idx := store + "." + uf
	return []string{
		"XD " + store + " " + w(m),                  // the member loses its data bucket: its index entries dangle
		"XC " + store + " " + w(p),                  // a thing gains an EMPTY data bucket: a member without any field
		"UP " + idx + " " + w(uv) + " " + w(p),       // the member's entry points at a thing that is not a member
		"UP " + idx + " " + w("zz") + " " + w(p),     // an extra entry pointing at a non-member
		"UD " + idx + " " + w(uv),                   // the member's entry is missing
		"EF " + store + " " + w(m) + " " + uf + " ~", // nil in the member's non-nullable field
		"EF " + store + " " + w(m) + " " + uf + " -", // ... or the empty string
		"EF things " + w(p) + " name " + w("zz"),     // the parent's own index is stale for the non-member
		"UD things.name " + w("n1"),
	}
}

func c09ThingOp(kind, id, name, alias, roles, owner, home, dep, req, boss string) string {
	return strings.Join([]string{kind, toWire(id), toWire(name), c09Opt2(alias), roles, c09Opt2(owner), toWire(home),
		c09Opt2(dep), toWire(req), c09Opt2(boss)}, " ")
}

// the stores after everything (or everything of `things`) was created and deleted again
var c09EmptiedThingsHistory = []string{
	"cB " + toWire("b1") + " " + toWire("l1"),
	"cB " + toWire("b2") + " ~",
	c09ThingOp("cA", "a1", "n1", "x1", c09List([]string{"r1", "r2"}), "b1", "b1", "b2", "b1", ""),
	c09ThingOp("cA", "a2", "n2", "", c09List([]string{"r1"}), "b1", "b2", "", "b2", ""),
	"lA " + toWire("a1") + " " + c09List([]string{"b1", "b2"}),
	"dA " + toWire("a1"),
	"dA " + toWire("a2"),
}

var c09EmptiedAllHistory = append(append([]string{}, c09EmptiedThingsHistory...), "dB "+toWire("b1"), "dB "+toWire("b2"))

// the shared targets of the fixed state (c09FixedHistory) and of the emptied stores
func c09SharedTargets() []c09Target {
	h := c09FixedHistory
	return []c09Target{
		{"uq things.name n1", h, c09UqClasses("things", "name", "n1", "a1", "a2", "a11", c09GhostA, "n2", "n5")},
		{"uq things.alias x1", h, c09UqClasses("things", "alias", "x1", "a1", "a3", "a2", c09GhostA, "x2", "x3")},
		{"uq owners.label l1", h, c09UqClasses("owners", "label", "l1", "b1", "b3", "b2", c09GhostB, "l2", "l3")},
		{"sx things.roles r1", h, c09SxClasses("r1", "a1", "a11", "a3", c09GhostA)},
		{"sx things.roles r11", h, c09SxClasses("r11", "a3", "", "a1", c09GhostA)},
		{"fk things.owner a1->b1", h, c09FkClasses("things", "owner", "owners", "things", "a1", "a11", "b1", "b2", c09GhostA, c09GhostB)},
		{"fk things.home a1->b1", h, c09FkClasses("things", "home", "owners", "residents", "a1", "a11", "b1", "b2", c09GhostA, c09GhostB)},
		{"fk things.boss a2->a1", h, append(c09FkClasses("things", "boss", "things", "minions", "a2", "a3", "a1", "a11", c09GhostA, c09GhostA),
			"EF things "+toWire("a2")+" boss "+toWire("a2"), "EF things "+toWire("a1")+" boss "+toWire("a2"))},
		{"link a1<->b1", h, c09LinkClasses("a1", "b1", "a11", "b11", "a3", c09GhostA, c09GhostB, "b8")},
		{"entity a1", h, c09EntityClasses("a1", "a2", "n2", "x2", "r1", "b2", "a2")},
		// the child stores: extended things_x = {a11 (g4, t1, caps c1 c2), a3 (g3, caps c1)}, plain things_p = {a2 (k2, m1),
		// a3 (k3, q1, m1 m2)}; a1 — the smallest id — is parent-only
		{"uq things_x.badge g4", h, c09UqClasses("things_x", "badge", "g4", "a11", "a3", "", c09GhostA, "g3", "g9")},
		{"uq things_x.tag t1", h, c09UqClasses("things_x", "tag", "t1", "a11", "a3", "", c09GhostA, "", "t9")},
		{"uq things_p.code k2", h, c09UqClasses("things_p", "code", "k2", "a2", "a3", "", c09GhostA, "k3", "k9")},
		{"uq things_p.nick q1", h, c09UqClasses("things_p", "nick", "q1", "a3", "a2", "", c09GhostA, "", "q9")},
		{"sx things_x.caps c1", h, c09SxClassesOf("things_x", "caps", "c1", "a11", "a3", "", c09GhostA)},
		{"sx things_p.marks m2", h, c09SxClassesOf("things_p", "marks", "m2", "a3", "", "a2", c09GhostA)},
		{"members of things_x", h, append(c09MemberClasses("things_x", "badge", "g4", "a11", "a1"),
			"EF things_x "+toWire("a11")+" sponsor "+toWire(c09GhostB), "EF things_x "+toWire("a11")+" sponsor ~", "XD things_x "+toWire("a3"))},
		{"members of things_p", h, append(c09MemberClasses("things_p", "code", "k2", "a2", "a1"), "XD things_p "+toWire("a3"))},
		{"emptied things", c09EmptiedThingsHistory, c09EmptyStoreClasses("b1")},
		{"emptied things and owners", c09EmptiedAllHistory, c09EmptyStoreClasses("")},
		{"never used", nil, c09EmptyStoreClasses("")},
	}
}

// c09GenPopulations: MIXED POPULATIONS of the layered stores.  Every assignment of {parent-only, extension data,
// plain-child data, both} to the three ids a1 < a2 < a3 (64 histories through the API only: parent-only ids before,
// between and after the members of each child store), each as a healthy database — which must be reported clean —
// and with one corruption of a child store's index aimed at the first member.
func c09GenPopulations(tier string, r *rng, out *bufio.Writer) {
	ids := []string{"a1", "a2", "a3"}
	for pat := 0; pat < 64; pat++ {
		h := []string{"cB " + toWire("b1") + " ~"}
		var firstX, firstP string
		for i, id := range ids {
			kind := (pat >> (2 * i)) & 3 // 0 parent-only, 1 extended, 2 plain, 3 both
			n := id[1:]
			switch kind {
			case 0:
				h = append(h, c09ThingOp("cA", id, "n"+n, "", ".", "", "b1", "", "b1", ""))
			case 1, 3:
				h = append(h, c09ThingOp("cX", id, "n"+n, "", ".", "", "b1", "", "b1", "")+" "+toWire("g"+n)+" ~ "+toWire("b1")+" "+c09List([]string{"c1"}))
				if firstX == "" {
					firstX = id
				}
			}
			if kind == 2 || kind == 3 {
				h = append(h, c09ThingOp("cP", id, "n"+n, "", ".", "", "b1", "", "b1", "")+" "+toWire("k"+n)+" ~ "+c09List([]string{"m1"}))
				if firstP == "" {
					firstP = id
				}
			}
		}
		c09EmitCase(out, "sep", h, nil)
		if tier != "thorough" && pat%4 != int(r.intn(4)) {
			continue
		}
		if firstX != "" {
			n := firstX[1:]
			c09EmitCase(out, "sep", h, []string{"UD things_x.badge " + toWire("g"+n)})
			c09EmitCase(out, "sep", h, []string{"SD things_x.caps " + toWire("c1") + " " + toWire(firstX)})
			c09EmitCase(out, "tx1r", h, []string{"XD things_x " + toWire(firstX)})
		}
		if firstP != "" {
			n := firstP[1:]
			c09EmitCase(out, "sep", h, []string{"UP things_p.code " + toWire("k"+n) + " " + toWire("a9")})
			c09EmitCase(out, "tx1", h, []string{"XD things_p " + toWire(firstP)})
		}
	}
}

// c09GenEmptyStrings: the EMPTY STRING in every nullable indexed / referencing field of a HEALTHY database.  create and
// update accept "" as "no value / no reference" (GetTypeAndValue yields a nil value for the one-byte encoding), so the
// checker must: every subset of {alias, owner, dep, boss, tag, nick of a2; label of b2} set to "" through the API, as a
// healthy database (must be reported clean, a fix run must not touch it), and with a back-reference that claims the
// thing although its reference is "" (stale, to be removed).  Empty list elements and links to the id "" are refused by
// the API (the op fails and is ignored); they are tried as well.
func c09GenEmptyStrings(tier string, r *rng, out *bufio.Writer) {
	e := func(bit int, pat int, v string) string {
		if pat>>bit&1 == 1 {
			return ""
		}
		return v
	}
	opt := func(v string) string { // "" stays the empty string here (wire "-"), not nil
		return toWire(v)
	}
	for pat := 0; pat < 128; pat++ {
		thing := func(kind string) string {
			return strings.Join([]string{kind, toWire("a2"), toWire("n2"), opt(e(0, pat, "x2")), c09List([]string{"r1"}),
				opt(e(1, pat, "b1")), toWire("b1"), opt(e(2, pat, "b2")), toWire("b1"), opt(e(3, pat, "a1"))}, " ")
		}
		h := []string{
			"cB " + toWire("b1") + " " + toWire("l1"),
			"cB " + toWire("b2") + " " + opt(e(6, pat, "l2")),
			c09ThingOp("cA", "a1", "n1", "x1", c09List([]string{"r1"}), "b1", "b1", "b2", "b1", ""),
			thing("cX") + " " + toWire("g2") + " " + opt(e(4, pat, "t2")) + " " + toWire("b1") + " " + c09List([]string{"c1"}),
			thing("cP") + " " + toWire("k2") + " " + opt(e(5, pat, "q2")) + " " + c09List([]string{"m1"}),
			"lA " + toWire("a2") + " " + c09List([]string{"b1"}),
		}
		if pat%16 == 5 {
			// refused by the API: an empty role, a link to the id ""
			h = append(h, c09ThingOp("uA", "a1", "n1", "x1", c09List([]string{"r1", ""}), "b1", "b1", "b2", "b1", ""),
				"lA "+toWire("a1")+" "+c09List([]string{"b1", ""}))
		}
		c09EmitCase(out, "sep", h, nil)
		if pat%8 == 3 {
			c09EmitCase(out, "tx1", h, nil)
			c09EmitCase(out, "tx1r", h, nil)
		}
		if tier == "thorough" || pat%4 == int(r.intn(4)) {
			c09EmitCase(out, "sep", h, []string{"EA owners " + toWire("b1") + " things " + toWire("a2")})
			c09EmitCase(out, "sep", h, []string{"EA things " + toWire("a1") + " minions " + toWire("a2"), "UD things.alias " + toWire("x2")})
		}
	}
}

func c09GenInteracting(tier string, r *rng, out *bufio.Writer) {
	thorough := tier == "thorough"
	c09GenPopulations(tier, r, out)
	c09GenEmptyStrings(tier, r, out)
	for _, t := range c09SharedTargets() {
		cs := t.classes
		n := len(cs)
		c09EmitCase(out, "sep", t.history, nil)
		for i := 0; i < n; i++ {
			c09EmitCase(out, "sep", t.history, []string{cs[i]})
		}
		for i := 0; i < n; i++ {
			for j := i + 1; j < n; j++ {
				c09EmitCase(out, "sep", t.history, []string{cs[i], cs[j]})
				if thorough {
					c09EmitCase(out, "sep", t.history, []string{cs[j], cs[i]})
					c09EmitCase(out, "tx1", t.history, []string{cs[i], cs[j]})
					c09EmitCase(out, "tx1r", t.history, []string{cs[i], cs[j]})
				}
			}
		}
		if thorough {
			for i := 0; i < n; i++ {
				for j := i + 1; j < n; j++ {
					for k := j + 1; k < n; k++ {
						c09EmitCase(out, "sep", t.history, []string{cs[i], cs[j], cs[k]})
					}
				}
			}
		} else if n >= 3 {
			for m := 0; m < 10; m++ {
				i, j, k := r.intn(n), r.intn(n), r.intn(n)
				if i != j && j != k && i != k {
					c09EmitCase(out, "sep", t.history, []string{cs[i], cs[j], cs[k]})
				}
			}
		}
	}
}

// ------------------------------------------------------------- targets inside a random state

type c09DumpEnt struct {
	id     string
	fields map[string]string   // "" = nil
	sets   map[string][]string // nil = bucket absent
}

// c09ParseDump reads the E records of a canonical state dump (c09StateDump)
func c09ParseDump(state string) map[string][]c09DumpEnt {
	res := map[string][]c09DumpEnt{}
	toks := strings.Fields(state)
	for i := 0; i < len(toks); {
		if toks[i] != "E" || i+2 >= len(toks) {
			break
		}
		store := toks[i+1]
		e := c09DumpEnt{id: fromWire(toks[i+2]), fields: map[string]string{}, sets: map[string][]string{}}
		i += 3
		for _, f := range c09Scalars[store] {
			if i+1 < len(toks) && toks[i] == f {
				if v := toks[i+1]; v != "~" && !strings.HasPrefix(v, "?") {
					e.fields[f] = fromWire(v)
				}
				i += 2
			}
		}
		for _, f := range c09Sets[store] {
			if i+1 < len(toks) && toks[i] == f {
				if v := toks[i+1]; strings.HasPrefix(v, "=") && len(v) > 1 {
					for _, x := range strings.Split(v[1:], ",") {
						if !strings.HasPrefix(x, "?") {
							e.sets[f] = append(e.sets[f], fromWire(x))
						}
					}
				}
				i += 2
			}
		}
		res[store] = append(res[store], e)
	}
	return res
}

func c09Others(es []c09DumpEnt, not string) []c09DumpEnt {
	var res []c09DumpEnt
	for _, e := range es {
		if e.id != not {
			res = append(res, e)
		}
	}
	return res
}

func c09Contains(xs []string, x string) bool {
	for _, y := range xs {
		if y == x {
			return true
		}
	}
	return false
}

// c09FocusCorruptions chooses a target inside the state a history produced and returns 2-3 corruptions
// of different classes aimed at it (nil when the state offers no target of the chosen kind)
func c09FocusCorruptions(r *rng, state string) []string {
	d := c09ParseDump(state)
	things, owners := d[c09Things], d[c09Owners]
	var cs []string
	if len(things) == 0 {
		o := ""
		if len(owners) > 0 {
			o = pick(r, owners).id
		}
		cs = c09EmptyStoreClasses(o)
	} else {
		a := pick(r, things)
		rest := c09Others(things, a.id)
		var o, o2 c09DumpEnt
		if len(rest) > 0 {
			o = pick(r, rest)
			if rest2 := c09Others(rest, o.id); len(rest2) > 0 {
				o2 = pick(r, rest2)
			}
		}
		otherOwner := func(not string) string {
			if os := c09Others(owners, not); len(os) > 0 {
				return pick(r, os).id
			}
			return ""
		}
		members := func(store string) []c09DumpEnt { return d[store] }
		switch r.intn(11) {
		case 8:
			// a unique index of a child store, aimed at one of its members
			st, uf, fresh := c09ThingsX, "badge", "g9"
			if r.chance(1, 2) {
				st, uf, fresh = c09ThingsP, "code", "k9"
			}
			if ms := members(st); len(ms) > 0 {
				m := pick(r, ms)
				if v := m.fields[uf]; v != "" {
					other, otherVal := c09GhostA, ""
					if os := c09Others(ms, m.id); len(os) > 0 {
						o := pick(r, os)
						other, otherVal = o.id, o.fields[uf]
					}
					cs = c09UqClasses(st, uf, v, m.id, other, "", c09GhostA, otherVal, fresh)
				}
			}
		case 9:
			// membership itself: a member m and a thing p without that store's data (the smallest such id)
			st, uf := c09ThingsX, "badge"
			if r.chance(1, 2) {
				st, uf = c09ThingsP, "code"
			}
			if ms := members(st); len(ms) > 0 {
				m := pick(r, ms)
				p := ""
				for _, t := range things {
					isMember := false
					for _, x := range ms {
						if x.id == t.id {
							isMember = true
						}
					}
					if !isMember && p == "" {
						p = t.id
					}
				}
				if p != "" && m.fields[uf] != "" {
					cs = c09MemberClasses(st, uf, m.fields[uf], m.id, p)
				}
			}
		case 10:
			st, sf := c09ThingsX, "caps"
			if r.chance(1, 2) {
				st, sf = c09ThingsP, "marks"
			}
			for _, m := range members(st) {
				if vs := m.sets[sf]; len(vs) > 0 && cs == nil {
					v := pick(r, vs)
					h2, non := "", ""
					for _, e := range c09Others(members(st), m.id) {
						if c09Contains(e.sets[sf], v) {
							h2 = e.id
						} else {
							non = e.id
						}
					}
					cs = c09SxClassesOf(st, sf, v, m.id, h2, non, c09GhostA)
				}
			}
		case 0:
			if v := a.fields["name"]; v != "" && o.id != "" {
				cs = c09UqClasses("things", "name", v, a.id, o.id, o2.id, c09GhostA, o.fields["name"], "n9")
			}
		case 1:
			if v := a.fields["alias"]; v != "" && o.id != "" {
				cs = c09UqClasses("things", "alias", v, a.id, o.id, o2.id, c09GhostA, o.fields["alias"], "x9")
			}
		case 2:
			if vs := a.sets["roles"]; len(vs) > 0 {
				v := pick(r, vs)
				h2, non := "", ""
				for _, e := range rest {
					if c09Contains(e.sets["roles"], v) {
						h2 = e.id
					} else {
						non = e.id
					}
				}
				cs = c09SxClasses(v, a.id, h2, non, c09GhostA)
			}
		case 3, 4:
			f, set := "owner", "things"
			if r.chance(1, 2) {
				f, set = "home", "residents"
			}
			if b := a.fields[f]; b != "" {
				sib := ""
				for _, e := range rest {
					if e.fields[f] == b {
						sib = e.id
					}
				}
				cs = c09FkClasses("things", f, "owners", set, a.id, sib, b, otherOwner(b), c09GhostA, c09GhostB)
			}
		case 5:
			if b := a.fields["boss"]; b != "" {
				sib, b2 := "", ""
				for _, e := range rest {
					if e.fields["boss"] == b {
						sib = e.id
					}
					if e.id != b {
						b2 = e.id
					}
				}
				cs = c09FkClasses("things", "boss", "things", "minions", a.id, sib, b, b2, c09GhostA, c09GhostA)
			}
		case 6:
			if ls := a.sets["groups"]; len(ls) > 0 {
				b := pick(r, ls)
				a2, a3, b2 := "", "", ""
				for _, e := range rest {
					if c09Contains(e.sets["groups"], b) {
						a2 = e.id
					} else {
						a3 = e.id
					}
				}
				for _, l := range ls {
					if l != b {
						b2 = l
					}
				}
				cs = c09LinkClasses(a.id, b, a2, b2, a3, c09GhostA, c09GhostB, "b8")
			}
		default:
			role, link, minion := "", "", ""
			if vs := a.sets["roles"]; len(vs) > 0 {
				role = vs[0]
			}
			if vs := a.sets["groups"]; len(vs) > 0 {
				link = vs[0]
			}
			if vs := a.sets["minions"]; len(vs) > 0 {
				minion = vs[0]
			}
			oName := o.fields["name"]
			if oName == "" {
				oName = "n9"
			}
			cs = c09EntityClasses(a.id, o.id, oName, o.fields["alias"], role, link, minion)
		}
	}
	if len(cs) < 2 {
		return nil
	}
	k := 2 + r.intn(2)
	var res []string
	for tries := 0; len(res) < k && tries < 12; tries++ {
		if c := pick(r, cs); !c09Contains(res, c) {
			res = append(res, c)
		}
	}
	// keep the order of the class list (SX before SJ / SK, so that the plain key lands where the bucket was)
	var ordered []string
	for _, c := range cs {
		if c09Contains(res, c) {
			ordered = append(ordered, c)
		}
	}
	return ordered
}
