package main

// C19 — HISTORIES of calls on ONE objectz.ObjectStore object (per variant) and ONE bolt store.
//
// Case line:   H <step> <step> ...        (the fields of a step are separated by "/")
//
//	D/<rows>/<order>                                    the collection becomes <rows> (object stores and bolt store alike; the
//	                                                    first step of every history); <order> = iteration order of the object
//	                                                    stores from now on (fwd | rev | rot<k> | map)
//	T/<targets>/<filter>/<sort>/<skip>/<limit>/<spell>  the query TEXT is sent to every store of <targets>, in that order:
//	                                                    o s n = ObjectStore.QueryEntities(text) of the store full / sub / noid,
//	                                                    b = boltz Store.QueryIds(tx, text)
//	P/<slot>/<store>/<filter>/<sort>/<skip>/<limit>/<spell>   ast.Parse(<store>, text), the ast.Query is kept in <slot>
//	C/<slot>/<targets>                                  the kept object is executed on every store of <targets>, in that order:
//	                                                    QueryEntitiesC(q) / QueryIdsC(tx, q)
//	S/<slot>/<int64>   L/<slot>/<int64>                 q.SetSkip(v) / q.SetLimit(v) on the kept object
//
// <spell> selects HOW the tokens are written as ZitiQL (0 = the canonical text of pgQueryText): whitespace between tokens
// (blanks, tabs, newlines, several of them, none where the grammar allows none), keyword case, redundant parentheses,
// spelling of numbers (7 / 7.0 / 7e0, 0.5 / 5e-1 / 0.50).  The spelling never changes what the query denotes; near-identical
// texts that DO denote different queries come from the tokens (string literals differing in inner whitespace or case,
// and / or trees differing only in where the parentheses sit, same filter with another sort / skip / limit).
//
// Output line: one section per step joined by "|": "." for D / S / L and a successful P, "perr" for a P whose text does not
// parse, "noq" for a C on an empty slot, otherwise <target>=<ids>#<count> (or err…) for each target, joined by ";".

import (
	"bufio"
	"context"
	"fmt"
	"strconv"
	"strings"

	"github.com/openziti/storage/ast"
	"github.com/openziti/storage/boltz"
	"github.com/openziti/storage/objectz"
	"go.etcd.io/bbolt"
)

// ------------------------------------------------------------------ spelling

type c19Speller struct {
	r                             *rng
	space, kwCase, parens, number bool
}

func newC19Speller(spell uint64) *c19Speller {
	return &c19Speller{r: newRng(spell >> 4), space: spell&1 != 0, kwCase: spell&2 != 0, parens: spell&4 != 0, number: spell&8 != 0}
}

// ws: where the grammar demands WS+
func (sp *c19Speller) ws() string {
	if !sp.space {
		return " "
	}
	return pick(sp.r, []string{" ", " ", "  ", "\t", "\n", " \t ", "   ", "\r\n", " \n"})
}

// ows: where the grammar allows WS*; canon is what the canonical text has there
func (sp *c19Speller) ows(canon string) string {
	if !sp.space {
		return canon
	}
	return pick(sp.r, []string{"", "", " ", "  ", "\t", "\n "})
}

func (sp *c19Speller) kw(w string) string {
	if !sp.kwCase {
		return w
	}
	switch sp.r.intn(4) {
	case 0:
		return strings.ToUpper(w)
	case 1:
		return strings.ToLower(w)
	case 2:
		return strings.ToUpper(w[:1]) + strings.ToLower(w[1:])
	}
	b := []byte(strings.ToLower(w))
	for i := range b {
		if sp.r.chance(1, 2) && b[i] >= 'a' && b[i] <= 'z' {
			b[i] -= 32
		}
	}
	return string(b)
}

func (sp *c19Speller) wrap(s string) string {
	if !sp.parens {
		return s
	}
	for sp.r.chance(1, 3) {
		s = "(" + sp.ows("") + s + sp.ows("") + ")"
	}
	return s
}

// number: other spellings of the same value
func (sp *c19Speller) num(text string) string {
	if !sp.number {
		return text
	}
	var alts []string
	switch text {
	case "0.5":
		alts = []string{"5e-1", "0.50", "0.5e0", "5E-1"}
	case "-1.5":
		alts = []string{"-15e-1", "-1.50", "-1.5e0"}
	case "2.5":
		alts = []string{"25e-1", "2.50", "2.5E0"}
	case "0.0":
		alts = []string{"0", "0.00", "0e0"}
	default:
		if _, err := strconv.ParseInt(text, 10, 64); err == nil && len(text) <= 3 {
			alts = []string{text + ".0", text + "e0", text + ".00", text + "E+0"}
		}
	}
	if len(alts) == 0 {
		return text
	}
	return pick(sp.r, append(alts, text))
}

func (sp *c19Speller) atom(atom string) string {
	f := strings.Split(atom, ".")
	switch f[0] {
	case "true":
		return sp.kw("true")
	case "null":
		return f[1] + sp.ows(" ") + "=" + sp.ows(" ") + sp.kw("null")
	case "notnull":
		return f[1] + sp.ows(" ") + "!=" + sp.ows(" ") + sp.kw("null")
	case "cmp":
		c := pgConstText(f[1], f[3])
		switch pgBaseOf(f[1]) {
		case "b":
			c = sp.kw(c)
		case "i", "n", "f":
			c = sp.num(c)
		}
		return f[1] + sp.ows(" ") + pgOpText[f[2]] + sp.ows(" ") + c
	case "fn":
		// fn.<symbol>.<c|nc|ic|nic>.S<hex>
		op := sp.kw(map[string]string{"c": "contains", "nc": "contains", "ic": "icontains", "nic": "icontains"}[f[2]])
		if f[2] == "nc" || f[2] == "nic" {
			op = sp.kw("not") + sp.ws() + op
		}
		return f[1] + sp.ws() + op + sp.ws() + strconv.Quote(fromWire(orDash(f[3][1:])))
	}
	return pgAtomText(atom)
}

func (sp *c19Speller) filter(filter string) string {
	toks := strings.Split(filter, "~")
	var rec func() string
	rec = func() string {
		if len(toks) == 0 {
			return "true"
		}
		t := toks[0]
		toks = toks[1:]
		switch t {
		case "and", "or":
			a := rec()
			b := rec()
			return sp.wrap("(" + sp.ows("") + a + sp.ws() + sp.kw(t) + sp.ws() + b + sp.ows("") + ")")
		case "not":
			return sp.wrap("(" + sp.ows("") + sp.kw("not") + sp.ws() + "(" + sp.ows("") + rec() + sp.ows("") + ")" + sp.ows("") + ")")
		}
		return sp.wrap(sp.atom(t))
	}
	return rec()
}

// c19SpellText renders filter / sort / skip / limit tokens as ZitiQL in the spelling `spell`.
func c19SpellText(filter, sortTok, skip, limit string, spell uint64) string {
	if spell == 0 {
		if !strings.Contains(filter, "fn.") {
			return pgQueryText(filter, sortTok, skip, limit)
		}
		// the canonical renderer does not know the string functions: the speller with every variation off, then the
		// canonical tail
		tail := pgQueryText("true", sortTok, skip, limit)
		return (&c19Speller{r: newRng(0)}).filter(filter) + strings.TrimPrefix(tail, "true")
	}
	sp := newC19Speller(spell)
	var b strings.Builder
	b.WriteString(sp.ows(""))
	b.WriteString(sp.filter(filter))
	if sortTok != "-" {
		b.WriteString(sp.ws() + sp.kw("sort") + sp.ws() + sp.kw("by") + sp.ws())
		for i, sf := range strings.Split(sortTok, ",") {
			if i > 0 {
				b.WriteString(sp.ows("") + "," + sp.ows(" "))
			}
			name, dir := sf[:len(sf)-1], sf[len(sf)-1]
			b.WriteString(name)
			switch dir {
			case '+', '^':
				b.WriteString(sp.ws() + sp.kw("asc"))
			case '-', '*', '!':
				b.WriteString(sp.ws() + sp.kw("desc"))
			}
		}
	}
	num := func(tok string) string {
		if tok == "x" {
			return "1.5"
		}
		if tok == "big" {
			return "9223372036854775808"
		}
		if tok == "none" {
			return sp.kw("none")
		}
		return tok
	}
	if skip != "-" {
		b.WriteString(sp.ws() + sp.kw("skip") + sp.ws() + num(skip))
	}
	if limit != "-" {
		b.WriteString(sp.ws() + sp.kw("limit") + sp.ws() + num(limit))
	}
	b.WriteString(sp.ows(""))
	return b.String()
}

// ------------------------------------------------------------------ executor

func c19SetOrder(s *pgStores, order string) {
	s.useMap = order == "map"
	s.nilIter = order == "nil"
	s.objOrder = append(s.objOrder[:0], s.rows...)
	switch {
	case order == "rev":
		for i, j := 0, len(s.objOrder)-1; i < j; i, j = i+1, j-1 {
			s.objOrder[i], s.objOrder[j] = s.objOrder[j], s.objOrder[i]
		}
	case strings.HasPrefix(order, "rot"):
		k, _ := strconv.Atoi(order[3:])
		n := len(s.objOrder)
		if n > 0 {
			k %= n
			s.objOrder = append(append([]*pgThing{}, s.objOrder[k:]...), s.objOrder[:k]...)
		}
	}
}

// c19SetData replaces the collection behind the object stores and the content of the bolt store's entities bucket (the
// store objects stay the same).
func c19SetData(s *pgStores, ds string) error {
	if ds == "-" {
		return fmt.Errorf("the entities bucket cannot be removed")
	}
	rows := pgParseRows(ds)
	err := s.db.Update(func(tx *bbolt.Tx) error {
		ctx := boltz.NewTxMutateContext(context.Background(), tx)
		for _, e := range s.rows {
			if err := s.things.DeleteById(ctx, e.Id); err != nil {
				return err
			}
		}
		if len(rows) == 0 {
			// make sure the bucket exists (as pgLoad does for "0")
			if err := s.things.Create(ctx, &pgThing{Id: "tmp"}); err != nil {
				return err
			}
			return s.things.DeleteById(ctx, "tmp")
		}
		for _, e := range rows {
			if err := s.things.Create(ctx, e); err != nil {
				return err
			}
		}
		return nil
	})
	if err != nil {
		return err
	}
	s.rows = rows
	return nil
}

func c19HistObjStore(s *pgStores, t byte) *objectz.ObjectStore[*pgThing] {
	switch t {
	case 's':
		return s.objsSub
	case 'n':
		return s.objsNoId
	}
	return s.objs
}

func c19HistText(p []string) (string, bool) {
	spell, err := strconv.ParseUint(p[4], 10, 64)
	if err != nil {
		return "", false
	}
	return c19SpellText(p[0], p[1], p[2], p[3], spell), true
}

func c19HistExec(line string) string {
	f := fields(line)
	if len(f) < 2 || f[0] != "H" {
		return "bad-case"
	}
	// fresh store objects for every history
	pgClose()
	pgCacheKey = ""
	var s *pgStores
	slots := map[string]ast.Query{}
	var out []string
	// every slice an object store returned stays the caller's: it is looked at again after each later call (a store that
	// hands out a reused result buffer would change an answer it gave earlier)
	type heldAnswer struct {
		objs []*pgThing
		ids  string
	}
	var held []heldAnswer
	hold := func(objs []*pgThing) {
		if len(objs) > 0 {
			held = append(held, heldAnswer{objs, strings.Join(pgThingIds(objs), ",")})
		}
	}
	stillHeld := func() string {
		for _, h := range held {
			if strings.Join(pgThingIds(h.objs), ",") != h.ids {
				return ";earlier-answer-changed"
			}
		}
		return ""
	}
	for _, step := range f[1:] {
		p := strings.Split(step, "/")
		if s == nil && p[0] != "D" {
			return "bad-case"
		}
		switch {
		case p[0] == "D" && len(p) == 3:
			if s == nil {
				s = pgLoad(p[1])
				pgCacheKey = "\x00history" // these stores are mutated: never to be reused for another case
			} else if err := c19SetData(s, p[1]); err != nil {
				return "bad-case"
			}
			c19SetOrder(s, p[2])
			out = append(out, ".")
		case p[0] == "T" && len(p) == 7:
			text, ok := c19HistText(p[2:])
			if !ok {
				return "bad-case"
			}
			var sec []string
			for i := 0; i < len(p[1]); i++ {
				t := p[1][i]
				if t == 'b' {
					_ = s.db.View(func(tx *bbolt.Tx) error {
						ids, count, err := s.things.QueryIds(tx, text)
						sec = append(sec, "b="+pgIds(ids, count, err))
						return nil
					})
				} else {
					objs, count, err := c19HistObjStore(s, t).QueryEntities(text)
					sec = append(sec, string(t)+"="+pgIds(pgThingIds(objs), count, err))
					hold(objs)
				}
			}
			out = append(out, strings.Join(sec, ";")+stillHeld())
		case p[0] == "P" && len(p) == 8:
			text, ok := c19HistText(p[3:])
			if !ok {
				return "bad-case"
			}
			var symbols ast.SymbolTypes = s.things
			if p[2] != "b" {
				symbols = c19HistObjStore(s, p[2][0])
			}
			q, err := ast.Parse(symbols, text)
			if err != nil {
				delete(slots, p[1])
				out = append(out, "perr")
			} else {
				slots[p[1]] = q
				out = append(out, ".")
			}
		case p[0] == "C" && len(p) == 3:
			q := slots[p[1]]
			if q == nil {
				out = append(out, "noq")
				continue
			}
			var sec []string
			for i := 0; i < len(p[2]); i++ {
				t := p[2][i]
				if t == 'b' {
					_ = s.db.View(func(tx *bbolt.Tx) error {
						ids, count, err := s.things.QueryIdsC(tx, q)
						sec = append(sec, "b="+pgIds(ids, count, err))
						return nil
					})
				} else {
					objs, count, err := c19HistObjStore(s, t).QueryEntitiesC(q)
					sec = append(sec, string(t)+"="+pgIds(pgThingIds(objs), count, err))
					hold(objs)
				}
			}
			out = append(out, strings.Join(sec, ";")+stillHeld())
		case (p[0] == "S" || p[0] == "L") && len(p) == 3:
			v, err := strconv.ParseInt(p[2], 10, 64)
			if err != nil {
				return "bad-case"
			}
			if q := slots[p[1]]; q != nil {
				if p[0] == "S" {
					q.SetSkip(v)
				} else {
					q.SetLimit(v)
				}
			}
			out = append(out, ".")
		default:
			return "bad-case"
		}
	}
	pgClose()
	pgCacheKey = ""
	return strings.Join(out, "|")
}

// ------------------------------------------------------------------ generator

func c19Hex(s string) string {
	if s == "" {
		return "S"
	}
	return "S" + toWire(s)
}

// strings whose differences are whitespace and case: what a normalising cache key would confuse
var c19HistStrings = []string{"a b", "a  b", "a b ", " a b", "A b", "A B", "a\tb", "ab", "a", ""}
var c19HistNeedles = []string{" ", "  ", "a b", "a  b", "A", "a", "B", "b ", "\t", "", "ab", " b"}

// c19HistRows: rows created through the root store only, string column from the whitespace / case family
func c19HistRows(r *rng, n int) string {
	if n == 0 {
		return "0"
	}
	rows := strings.Split(pgGenRows(r, n), ";")
	for i, row := range rows {
		f := strings.Split(row, ",")
		if r.chance(1, 6) {
			f[5] = "N"
		} else {
			f[5] = c19Hex(pick(r, c19HistStrings))
		}
		f[8] = "C"
		rows[i] = strings.Join(f, ",")
	}
	return strings.Join(rows, ";")
}

func c19HistAtom(r *rng) string {
	switch k := r.intn(12); {
	case k < 4:
		return "cmp.s." + pick(r, []string{"eq", "eq", "ne", "lt", "ge"}) + "." + c19Hex(pick(r, c19HistStrings))
	case k < 7:
		return "fn.s." + pick(r, []string{"c", "c", "nc", "ic", "ic", "nic"}) + "." + c19Hex(pick(r, c19HistNeedles))
	case k < 9:
		return "cmp." + pick(r, []string{"i", "n"}) + "." + pick(r, pgOps) + "." + pick(r, []string{"-1", "0", "7"})
	case k < 10:
		return "cmp.f." + pick(r, pgOps) + "." + pick(r, pgFloatConsts)
	case k < 11:
		return pick(r, []string{"null.s", "notnull.s", "null.i", "cmp.b.eq.1", "true"})
	}
	return "cmp.id." + pick(r, pgOps) + "." + pick(r, []string{"S61", "S62", "S63"})
}

func c19HistFilter(r *rng) string {
	switch r.intn(7) {
	case 0, 6:
		a, b, c := c19HistAtom(r), c19HistAtom(r), c19HistAtom(r)
		return pick(r, []string{"and~" + a + "~or~" + b + "~" + c, "or~and~" + a + "~" + b + "~" + c, "or~" + a + "~and~" + b + "~" + c,
			"and~or~" + a + "~" + b + "~" + c})
	case 1:
		return pick(r, []string{"and~", "or~"}) + c19HistAtom(r) + "~" + c19HistAtom(r)
	case 2:
		return "not~" + c19HistAtom(r)
	}
	return c19HistAtom(r)
}

// c19HistSibling: a filter whose canonical text is NEAR the given one but which denotes something else — a string
// literal changed in its whitespace / case, the parentheses of a three-atom tree moved, contains <-> icontains
func c19HistSibling(r *rng, filter string) string {
	toks := strings.Split(filter, "~")
	if len(toks) == 5 && r.chance(2, 3) {
		a, b, c := "", "", ""
		var atoms []string
		for _, t := range toks {
			if t != "and" && t != "or" {
				atoms = append(atoms, t)
			}
		}
		if len(atoms) == 3 {
			a, b, c = atoms[0], atoms[1], atoms[2]
			switch {
			case toks[0] == "and" && toks[2] == "or": // (a and (b or c)) -> ((a and b) or c)
				return "or~and~" + a + "~" + b + "~" + c
			case toks[0] == "or" && toks[1] == "and": // ((a and b) or c) -> (a and (b or c))
				return "and~" + a + "~or~" + b + "~" + c
			case toks[0] == "or": // (a or (b and c)) -> ((a or b) and c)
				return "and~or~" + a + "~" + b + "~" + c
			default: // ((a or b) and c) -> (a or (b and c))
				return "or~" + a + "~and~" + b + "~" + c
			}
		}
	}
	var idx []int
	for i, t := range toks {
		if strings.HasPrefix(t, "cmp.s.") || strings.HasPrefix(t, "fn.s.") {
			idx = append(idx, i)
		}
	}
	if len(idx) == 0 {
		return filter
	}
	i := idx[r.intn(len(idx))]
	f := strings.Split(toks[i], ".")
	lit := fromWire(orDash(f[3][1:]))
	var alts []string
	add := func(s string) {
		if s != lit {
			alts = append(alts, s)
		}
	}
	switch k := r.intn(8); {
	case k < 4: // only the amount of whitespace inside the literal differs
		add(strings.Join(strings.Fields(lit), " "))
		add(strings.ReplaceAll(lit, "  ", " "))
		add(strings.ReplaceAll(lit, " ", "  "))
		if strings.Contains(lit, "  ") {
			add(strings.ReplaceAll(lit, "  ", "   "))
		}
	case k < 6: // only the letter case differs
		add(strings.ToLower(lit))
		add(strings.ToUpper(lit))
	}
	if len(alts) == 0 {
		add(strings.Join(strings.Fields(lit), " ")) // whitespace collapsed and trimmed
		add(strings.ReplaceAll(lit, " ", "  "))
		add(strings.ReplaceAll(lit, " ", "\t"))
		add(strings.ReplaceAll(lit, "\t", " "))
		add(strings.TrimSpace(lit))
		add(lit + " ")
		add(" " + lit)
		add(strings.ToLower(lit))
		add(strings.ToUpper(lit))
		add(strings.ReplaceAll(lit, " ", ""))
	}
	if f[0] == "fn" && r.chance(1, 3) {
		f[2] = map[string]string{"c": "ic", "ic": "c", "nc": "nic", "nic": "nc"}[f[2]]
	} else if len(alts) > 0 {
		f[3] = c19Hex(pick(r, alts))
	}
	toks[i] = strings.Join(f, ".")
	return strings.Join(toks, "~")
}

func c19HistSort(r *rng) string {
	return pick(r, []string{"-", "-", "s+", "s-", "s~", "i-,s+", "id-", "f+", "s-,id-", "b+,s-"})
}

// c19HistSpell: the spelling of the next text.  A history has a spelling MODE, so that texts which differ in one respect
// only are frequent: 0 = every text canonical, 1 = only the whitespace between tokens varies, 2 = one spelling seed for
// every text of the history, 3 = every text spelled independently.
func c19HistSpell(r *rng, mode int, fixed uint64) string {
	switch mode {
	case 0:
		return "0"
	case 1:
		if r.chance(1, 3) {
			return "0"
		}
		return strconv.FormatUint(uint64(r.intn(1<<20))<<4|1, 10)
	case 2:
		return strconv.FormatUint(fixed, 10)
	}
	if r.chance(1, 4) {
		return "0"
	}
	flags := uint64(r.intn(16))
	if flags == 0 {
		flags = 1
	}
	return strconv.FormatUint(uint64(r.intn(1<<20))<<4|flags, 10)
}

type c19HistQuery struct{ filter, sort, skip, limit string }

func (q c19HistQuery) tail(spell string) string {
	return q.filter + "/" + q.sort + "/" + q.skip + "/" + q.limit + "/" + spell
}

func c19HistTargets(r *rng) string {
	return pick(r, []string{"ob", "bo", "ob", "o", "o", "b", "os", "so", "osb", "on", "oob", "bob"})
}

// c19GenHist: histories of 2-6 queries on one set of store objects.
func c19GenHist(r *rng, out *bufio.Writer, count int) {
	for h := 0; h < count; h++ {
		n := 2 + r.intn(4)
		ds := c19HistRows(r, n)
		order := func() string { return pick(r, []string{"fwd", "rev", "map", "rot" + strconv.Itoa(1+r.intn(4))}) }
		steps := []string{"D/" + ds + "/" + order()}
		sp, lp := pgSkipPool(n), pgLimitPool(n)
		paging := func(q *c19HistQuery) {
			q.skip, q.limit = "-", "-"
			if r.chance(1, 2) {
				q.skip, q.limit = pgPickPaging(r, sp, n, false), pgPickPaging(r, lp, n, true)
			}
		}
		fresh := func() c19HistQuery {
			q := c19HistQuery{filter: c19HistFilter(r), sort: c19HistSort(r)}
			paging(&q)
			return q
		}
		pool := []c19HistQuery{fresh()}
		mode := []int{0, 0, 0, 1, 1, 2, 3, 3, 3, 3}[r.intn(10)]
		fixed := uint64(r.intn(1<<20))<<4 | uint64(1+r.intn(15))
		spell := func() string { return c19HistSpell(r, mode, fixed) }
		// the next query text: the same tokens again (another spelling), a sibling, the same filter with another tail, or new
		next := func() c19HistQuery {
			base := pool[len(pool)-1] // mostly the query issued last
			if r.chance(1, 3) {
				base = pool[r.intn(len(pool))]
			}
			switch k := r.intn(10); {
			case k < 3:
				return base
			case k < 7:
				q := base
				q.filter = c19HistSibling(r, base.filter)
				pool = append(pool, q)
				return q
			case k < 9:
				q := base
				if r.chance(1, 2) {
					q.sort = c19HistSort(r)
				}
				paging(&q)
				pool = append(pool, q)
				return q
			}
			q := fresh()
			pool = append(pool, q)
			return q
		}
		queries := 2 + r.intn(5)
		slotUsed := map[string]bool{}
		// a kept query is executed on the `sub` store (id, s, i) only if its filter reads nothing else: an ast node asking an
		// ObjectCursor for a symbol the store does not have is a nil dereference, outside the property
		subSafe := map[string]bool{}
		execTargets := func(slot string) string {
			t := c19HistTargets(r)
			if !subSafe[slot] {
				t = strings.ReplaceAll(t, "s", "o")
			}
			return t
		}
		for k := 0; k < queries; k++ {
			if k > 0 && r.chance(1, 5) {
				// the collection changes: other rows, or the same rows with other values
				m := n
				if r.chance(1, 3) {
					m = r.intn(5)
				}
				steps = append(steps, "D/"+c19HistRows(r, m)+"/"+order())
			}
			switch j := r.intn(10); {
			case j < 6:
				steps = append(steps, "T/"+c19HistTargets(r)+"/"+next().tail(spell()))
			case j < 8 || len(slotUsed) == 0:
				slot := pick(r, []string{"0", "1"})
				slotUsed[slot] = true
				q := next()
				subSafe[slot] = true
				for _, t := range strings.Split(q.filter, "~") {
					if f := strings.Split(t, "."); len(f) > 1 && f[1] != "s" && f[1] != "i" && f[1] != "id" {
						subSafe[slot] = false
					}
				}
				steps = append(steps, "P/"+slot+"/"+pick(r, []string{"o", "o", "b", "s"})+"/"+q.tail(spell()))
				steps = append(steps, "C/"+slot+"/"+execTargets(slot))
			default:
				slot := pick(r, []string{"0", "1"})
				if r.chance(1, 2) {
					v := pgPickPaging(r, sp, n, false)
					if v != "-" {
						steps = append(steps, "S/"+slot+"/"+v)
					}
				}
				if r.chance(1, 2) {
					v := pgPickPaging(r, lp, n, true)
					if v != "-" && v != "none" {
						steps = append(steps, "L/"+slot+"/"+v)
					}
				}
				steps = append(steps, "C/"+slot+"/"+execTargets(slot))
			}
		}
		fmt.Fprintln(out, "H "+strings.Join(steps, " "))
	}
}
