package main

import (
	"bufio"
)

// C12, generator stream "large skeletons": counts beyond any small constant.  The theorems
// quantify over skeletons of every size; this stream lets the correspondence see sizes far above
// the exhaustive bound: wide chains (33 .. 129 operands on ONE level, each in redundant
// parentheses or not), wide-but-nested trees (hundreds of parenthesised operands side by side,
// at most 8 per level), deep redundant parentheses (depth 33 .. 257), deep alternations of `not`
// and parentheses, right- and left-nested and/or trees of 100 .. 400 atoms.  Atom occurrences
// are named by a formula (occurrence i is atom i mod m, or a constant that is neutral for the
// connective except at marked positions), the truth table runs over all 2^m assignments (m <= 8);
// the expected outcome is the spec's structural reading of the text.
//
// Cost: the generated parser needs time cubic in the number of operands on ONE level (33: 0.4 s,
// 65: 2.5 s, 129: 17 s, 257: more than a minute - full-context prediction of the suffix-loop rule)
// for a chain of ONE connective, and time EXPONENTIAL in the number of operands for a chain that
// alternates `and` and `or` without parentheses (16: 0.3 s, 22: 3.7 s, doubling every two operands,
// 33: more than a minute); nesting is cheap (1 200 tokens: 20 ms).  So the single-connective chains
// stop at 40 (quick) / 129 (thorough), the alternating ones at 16 / 22, and the larger widths are
// realised as nested trees.

func c12Letter(i, m int) *c12Unit { return &c12Unit{atom: string(rune('a' + i%m))} }

// wrap: 0 bare, 1 `(x)`, 2 `(not x)`, 3 `((x))`
func c12WrapUnit(u *c12Unit, wrap int) *c12Unit {
	switch wrap {
	case 1:
		return c12G(c12L1(u))
	case 2:
		return c12G(c12L1(c12N(c12L1(u))))
	case 3:
		return c12G(c12L1(c12G(c12L1(u))))
	}
	return u
}

// a chain of w operands on one level.  ops: '&', '|' or 'x' (alternating).  sparse: operands are
// the constant that is neutral for the connective (T for and, F for or) except at the positions
// 0, 31, 32, 33, w/2, w-2, w-1 (distinct symbols) - dropping or misplacing any of them shows in
// the table; otherwise occurrence i is symbol i mod m.
func c12FlatChain(w int, op byte, wrap int, sparse bool, m int) *c12Level {
	l := &c12Level{}
	marks := map[int]int{}
	for k, p := range []int{0, 31, 32, 33, w / 2, w - 2, w - 1} {
		if p >= 0 && p < w {
			if _, dup := marks[p]; !dup {
				marks[p] = k
			}
		}
	}
	for i := 0; i < w; i++ {
		o := op
		if op == 'x' {
			o = "&|"[i%2]
		}
		var u *c12Unit
		if sparse && op != 'x' {
			if k, ok := marks[i]; ok {
				u = c12Letter(k, 8)
			} else if op == '&' {
				u = &c12Unit{atom: "T"}
			} else {
				u = &c12Unit{atom: "F"}
			}
		} else {
			u = c12Letter(i, m)
		}
		l.units = append(l.units, c12WrapUnit(u, wrap))
		if i > 0 {
			l.ops = append(l.ops, o)
		}
	}
	return l
}

// a tree with `fan` operands per level and the given depth; leaves are wrapped symbols, inner
// operands parenthesised levels; connectives alternate by depth (mixed: also within a level)
func c12Bushy(fan, depth int, wrap int, mixed bool, m int, next *int) *c12Level {
	l := &c12Level{}
	for i := 0; i < fan; i++ {
		if depth == 0 {
			l.units = append(l.units, c12WrapUnit(c12Letter(*next, m), wrap))
			*next++
		} else {
			l.units = append(l.units, c12G(c12Bushy(fan, depth-1, wrap, mixed, m, next)))
		}
		if i > 0 {
			o := "&|"[depth%2]
			if mixed {
				o = "&|"[(depth+i)%2]
			}
			l.ops = append(l.ops, o)
		}
	}
	return l
}

// core in d pairs of redundant parentheses; style 1: `not` in front of every second pair, 2: of every pair
func c12Deep(core *c12Level, d int, style int) *c12Level {
	l := core
	for i := 0; i < d; i++ {
		l = c12L1(c12G(l))
		if style == 2 || (style == 1 && i%2 == 1) {
			l = c12L1(c12N(l))
		}
	}
	return l
}

// a op (b op' (c op (d ...)))  /  ((((a op b) op' c) op d) ...)  with n symbols; paren = false: the
// right-nested text without parentheses (one level: keep n small)
func c12Nested(n int, right bool, wrap int, m int) *c12Level {
	if right {
		l := c12L1(c12WrapUnit(c12Letter(n-1, m), wrap))
		for i := n - 2; i >= 0; i-- {
			l = c12L2(c12WrapUnit(c12Letter(i, m), wrap), "&|"[i%2], c12G(l))
		}
		return l
	}
	l := c12L1(c12WrapUnit(c12Letter(0, m), wrap))
	for i := 1; i < n; i++ {
		l = c12L2(c12G(l), "&|"[i%2], c12WrapUnit(c12Letter(i, m), wrap))
	}
	return l
}

// a chain of n operands of ONE connective written with explicit nesting, a op (b op (c op …)) or
// (((a op b) op c) op …): the same typed spine as the flat chain, at the cost of nesting.  Operands
// are the neutral constant except at the positions 0, 31, 32, 33, 49, 50, 63, 64, n/2, n-2, n-1
// (symbols a..h, cyclically), so that losing or misplacing one operand shows in the table.
func c12Spine(n int, op byte, right bool, wrap int) *c12Level {
	marks := map[int]int{}
	for k, p := range []int{0, 31, 32, 33, 49, 50, 63, 64, n / 2, n - 2, n - 1} {
		if p >= 0 && p < n {
			if _, dup := marks[p]; !dup {
				marks[p] = k % 8
			}
		}
	}
	operand := func(i int) *c12Unit {
		if k, ok := marks[i]; ok {
			return c12WrapUnit(c12Letter(k, 8), wrap)
		}
		if op == '&' {
			return c12WrapUnit(&c12Unit{atom: "T"}, wrap)
		}
		return c12WrapUnit(&c12Unit{atom: "F"}, wrap)
	}
	if right {
		l := c12L1(operand(n - 1))
		for i := n - 2; i >= 0; i-- {
			l = c12L2(operand(i), op, c12G(l))
		}
		return l
	}
	l := c12L1(operand(0))
	for i := 1; i < n; i++ {
		l = c12L2(c12G(l), op, operand(i))
	}
	return l
}

func c12GenLarge(tier string, seed uint64, out *bufio.Writer) {
	r := newRng(seed ^ 0x1a46e5c121a46e5c)
	thorough := tier == "thorough"
	emit := func(l *c12Level) { c12EmitK(out, l.String()) }
	// 1. wide chains on one level
	emit(c12FlatChain(33, '|', 1, true, 8))  // (a)|(F)|…|(F)|(b)|(c)|(d)|…: 33 parenthesised operands
	emit(c12FlatChain(34, '&', 1, false, 6)) // (a)&(b)&…
	emit(c12FlatChain(40, pick(r, []byte{'&', '|'}), []int{0, 1, 2}[r.intn(3)], false, 7))
	emit(c12FlatChain(16, 'x', r.intn(3), false, 7)) // a&b|c&d|… : see the cost note above
	if thorough {
		for _, w := range []int{33, 36, 48, 65, 65, 66} {
			emit(c12FlatChain(w, pick(r, []byte{'&', '|'}), r.intn(4), r.chance(1, 2), 5+r.intn(4)))
		}
		emit(c12FlatChain(129, pick(r, []byte{'&', '|'}), 1, true, 8))
		for _, w := range []int{18, 20, 22} {
			emit(c12FlatChain(w, 'x', r.intn(4), false, 5+r.intn(4)))
		}
	}
	// 1b. the same spines written with explicit nesting (cheap for the parser)
	spineN := []int{65, 130}
	if thorough {
		spineN = []int{33, 51, 65, 66, 129, 130, 257, 400}
	}
	for _, n := range spineN {
		for _, op := range []byte{'&', '|'} {
			for _, right := range []bool{true, false} {
				emit(c12Spine(n, op, right, r.intn(3)))
			}
		}
	}
	// 2. wide but nested: many parenthesised operands side by side, few per level
	type bushy struct{ fan, depth, wrap int }
	shapes := []bushy{{2, 5, 1}, {4, 2, 1}, {3, 3, 2}, {8, 1, 1}, {2, 7, 0}}
	if thorough {
		shapes = append(shapes, bushy{2, 8, 1}, bushy{4, 3, 1}, bushy{4, 3, 2}, bushy{8, 2, 1}, bushy{8, 2, 3}, bushy{5, 3, 0}, bushy{3, 5, 1}, bushy{6, 2, 2})
	}
	for _, s := range shapes {
		for _, mixed := range []bool{false, true} {
			next := r.intn(8)
			emit(c12Bushy(s.fan, s.depth, s.wrap, mixed, 6+r.intn(3), &next))
		}
	}
	// 3. deep redundant parentheses and not/parenthesis alternations
	depths := []int{33, 65, 129}
	if thorough {
		depths = []int{32, 33, 34, 64, 65, 129, 257, 400}
	}
	cores := func() []*c12Level {
		return []*c12Level{
			c12L1(c12A('a')),
			c12L2(c12A('a'), '&', c12A('b')),
			c12L2(c12A('a'), '|', c12G(c12L2(c12A('b'), '&', c12A('c')))),
			{units: []*c12Unit{c12A('a'), c12A('b'), c12A('c')}, ops: []byte{'&', '|'}},
		}
	}
	for _, d := range depths {
		for style := 0; style < 3; style++ {
			cs := cores()
			if !thorough {
				cs = []*c12Level{cs[(d+style)%len(cs)]}
			}
			for _, c := range cs {
				emit(c12Deep(c, d, style))
			}
		}
		// the deep group as an operand
		emit(c12L2(c12A('c'), '&', c12G(c12Deep(c12L2(c12A('a'), '|', c12A('b')), d, 0))))
		emit(c12L2(c12G(c12Deep(c12L1(c12A('a')), d, 1)), '|', c12A('b')))
	}
	// 4. right- and left-nested and/or trees
	sizes := []int{33, 100, 130}
	if thorough {
		sizes = []int{33, 34, 65, 100, 129, 200, 257, 400}
	}
	for _, n := range sizes {
		for _, right := range []bool{true, false} {
			wraps := []int{0, 1}
			if thorough {
				wraps = []int{0, 1, 2, 3}
			}
			for _, w := range wraps {
				emit(c12Nested(n, right, w, 5+r.intn(4)))
			}
		}
	}
}
