package main

import (
	"fmt"
	"math"
	"strconv"
	"strings"
)

// The generator's filter tree: printed once as ZitiQL text (for ast.Parse) and once in prefix
// notation (for the Lean driver, which reads it as the untyped tree the listener builds).

type c01Time struct {
	nanos int64
	text  string // RFC3339 text used inside datetime(...)
}

type c01Lit struct {
	kind byte // 's' 'i' 'f' 't' 'b' 'n'(null)
	s    string
	i    int64
	f    float64
	ftxt string // the literal's spelling for kind 'f'
	t    c01Time
	b    bool
}

type c01Node struct {
	kind   string // sym fn sub bc cmp in bet notE unot and or
	name   string
	fn     string // allOf anyOf count isEmpty
	op     string // eq ne lt le gt ge contains ncontains icontains nicontains
	l, r   *c01Node
	q      *c01Node
	sort   []c01Sort // sort fields of a sub-query
	skip   *int64
	limit  *int64
	lit    c01Lit
	lo, hi c01Lit
	arrK   byte // 's' 'n' 't'
	arr    []c01Lit
	b      bool
}

type c01Sort struct {
	name string
	dir  string // "" (default: ascending) | "asc" | "desc"
}

func (l c01Lit) token() string {
	switch l.kind {
	case 's':
		return "s:" + toWire(l.s)
	case 'i':
		return "i:" + strconv.FormatInt(l.i, 10)
	case 'f':
		return "f:" + strconv.FormatUint(math.Float64bits(l.f), 10)
	case 't':
		return "t:" + strconv.FormatInt(l.t.nanos, 10)
	case 'b':
		if l.b {
			return "b:1"
		}
		return "b:0"
	}
	return "null"
}

func c01Quote(s string) string {
	var b strings.Builder
	b.WriteByte('"')
	for i := 0; i < len(s); i++ {
		switch s[i] {
		case '\\':
			b.WriteString(`\\`)
		case '"':
			b.WriteString(`\"`)
		case '\n':
			b.WriteString(`\n`)
		case '\t':
			b.WriteString(`\t`)
		default:
			b.WriteByte(s[i])
		}
	}
	b.WriteByte('"')
	return b.String()
}

func (l c01Lit) zql() string {
	switch l.kind {
	case 's':
		return c01Quote(l.s)
	case 'i':
		return strconv.FormatInt(l.i, 10)
	case 'f':
		return l.ftxt
	case 't':
		return "datetime(" + l.t.text + ")"
	case 'b':
		if l.b {
			return "true"
		}
		return "false"
	}
	return "null"
}

func optTok(p *int64) string {
	if p == nil {
		return "-"
	}
	return strconv.FormatInt(*p, 10)
}

func (n *c01Node) tokens(out *[]string) {
	switch n.kind {
	case "sym":
		*out = append(*out, "sym", n.name)
	case "fn":
		*out = append(*out, "fn", n.fn, n.name)
	case "sub":
		*out = append(*out, "sub", n.fn, n.name, strconv.Itoa(len(n.sort)))
		for _, s := range n.sort {
			if s.dir == "desc" {
				*out = append(*out, s.name, "desc")
			} else {
				*out = append(*out, s.name, "asc")
			}
		}
		*out = append(*out, optTok(n.skip), optTok(n.limit))
		n.q.tokens(out)
	case "bc":
		if n.b {
			*out = append(*out, "bc", "1")
		} else {
			*out = append(*out, "bc", "0")
		}
	case "cmp":
		*out = append(*out, "cmp", n.op)
		n.l.tokens(out)
		*out = append(*out, n.lit.token())
	case "in":
		*out = append(*out, "in")
		n.l.tokens(out)
		switch n.arrK {
		case 's':
			*out = append(*out, "as", strconv.Itoa(len(n.arr)))
			for _, a := range n.arr {
				*out = append(*out, toWire(a.s))
			}
		case 'n':
			*out = append(*out, "an", strconv.Itoa(len(n.arr)))
			for _, a := range n.arr {
				*out = append(*out, a.token())
			}
		case 't':
			*out = append(*out, "at", strconv.Itoa(len(n.arr)))
			for _, a := range n.arr {
				*out = append(*out, strconv.FormatInt(a.t.nanos, 10))
			}
		}
	case "bet":
		*out = append(*out, "bet")
		n.l.tokens(out)
		*out = append(*out, n.lo.token(), n.hi.token())
	case "notE", "unot":
		*out = append(*out, n.kind)
		n.l.tokens(out)
	case "and", "or":
		*out = append(*out, n.kind)
		n.l.tokens(out)
		n.r.tokens(out)
	}
}

var c01OpText = map[string]string{"eq": "=", "ne": "!=", "lt": "<", "le": "<=", "gt": ">", "ge": ">=",
	"contains": "contains", "ncontains": "not contains", "icontains": "icontains", "nicontains": "not icontains"}

func (n *c01Node) lhsZql() string {
	switch n.kind {
	case "sym":
		return n.name
	case "fn":
		return n.fn + "(" + n.name + ")"
	case "sub":
		s := n.fn + "(from " + n.name + " where " + n.q.zql()
		for i, f := range n.sort {
			if i == 0 {
				s += " sort by "
			} else {
				s += ", "
			}
			s += f.name
			if f.dir != "" {
				s += " " + f.dir
			}
		}
		if n.skip != nil {
			s += " skip " + strconv.FormatInt(*n.skip, 10)
		}
		if n.limit != nil {
			if *n.limit == -1 {
				s += " limit none"
			} else {
				s += " limit " + strconv.FormatInt(*n.limit, 10)
			}
		}
		return s + ")"
	}
	return "?"
}

func (n *c01Node) isAtom() bool {
	switch n.kind {
	case "and", "or", "unot":
		return false
	}
	return true
}

func (n *c01Node) paren() string {
	if n.isAtom() {
		return n.zql()
	}
	return "(" + n.zql() + ")"
}

func (n *c01Node) arrZql() string {
	parts := make([]string, len(n.arr))
	for i, a := range n.arr {
		parts[i] = a.zql()
	}
	return "[" + strings.Join(parts, ", ") + "]"
}

// zql prints the filter; mixed and/or and every non-atomic operand are parenthesised (the
// grouping of unparenthesised connectives is property C12's subject, not C01's).
func (n *c01Node) zql() string {
	switch n.kind {
	case "sym", "fn", "sub":
		return n.lhsZql()
	case "bc":
		if n.b {
			return "true"
		}
		return "false"
	case "cmp":
		return n.l.lhsZql() + " " + c01OpText[n.op] + " " + n.lit.zql()
	case "in":
		return n.l.lhsZql() + " in " + n.arrZql()
	case "bet":
		return n.l.lhsZql() + " between " + n.lo.zql() + " and " + n.hi.zql()
	case "notE":
		if n.l.kind == "in" {
			return n.l.l.lhsZql() + " not in " + n.l.arrZql()
		}
		return n.l.l.lhsZql() + " not between " + n.l.lo.zql() + " and " + n.l.hi.zql()
	case "unot":
		return "not (" + n.l.zql() + ")"
	case "and":
		return n.l.paren() + " and " + n.r.paren()
	case "or":
		return n.l.paren() + " or " + n.r.paren()
	}
	return "?"
}

func (n *c01Node) String() string { return fmt.Sprintf("%s", n.zql()) }

// collect every float / int that occurs in literals (for the FormatFloat table)
func (n *c01Node) numbers(fs *[]float64, is *[]int64) {
	if n == nil {
		return
	}
	add := func(l c01Lit) {
		switch l.kind {
		case 'f':
			*fs = append(*fs, l.f)
		case 'i':
			*is = append(*is, l.i)
		}
	}
	add(n.lit)
	add(n.lo)
	add(n.hi)
	for _, a := range n.arr {
		add(a)
	}
	n.l.numbers(fs, is)
	n.r.numbers(fs, is)
	n.q.numbers(fs, is)
}
