package main

// C20: reading and building *real* ast trees field by field.
//
// The walker serialises a real node tree (every struct field that can hold a node, every
// string field) without going through the Accept methods, so that the Lean model and the
// specification see what the tree *is*, independently of what Accept forwards.  The builder
// does the converse: it allocates the real Go structs of package ast and fills their
// (unexported) fields, which gives the real Accept methods trees with symbols in positions the
// parser never puts them (upper bound of a between, array elements, …) and nil children.
//
// reflect + unsafe are used only to read/write unexported struct fields of the repository's
// own types; no code in /repo is changed and nothing but exported functions is called.
//
//	tree  :=  Z  |  N <kind> <#strs> {<field> x<hex>} <#kids> {<label> <tree>}

import (
	"encoding/hex"
	"fmt"
	"reflect"
	"sort"
	"strconv"
	"sync"
	"unsafe"

	"github.com/openziti/storage/ast"
	"github.com/openziti/storage/zitiql"
)

var c20NodeIface = reflect.TypeOf((*ast.Node)(nil)).Elem()

func c20IsKindStruct(t reflect.Type) bool {
	return t.Kind() == reflect.Struct && (t.Implements(c20NodeIface) || reflect.PointerTo(t).Implements(c20NodeIface))
}

type c20Class int

const (
	c20Other c20Class = iota
	c20Str
	c20One
	c20Many
	c20Opaque
	c20Enum // a named integer type of package ast (BinaryOp, SetFunction, boolBinaryOp): serialised with the strings, one byte
)

var c20AstPkg = reflect.TypeOf(ast.NotExprNode{}).PkgPath()

func c20Classify(ft reflect.Type) c20Class {
	switch ft.Kind() {
	case reflect.Int, reflect.Int32, reflect.Int64, reflect.Uint8:
		if ft.PkgPath() == c20AstPkg && ft.Name() != "" {
			return c20Enum
		}
	case reflect.String:
		return c20Str
	case reflect.Interface:
		if ft.Implements(c20NodeIface) {
			return c20One
		}
		return c20Opaque
	case reflect.Ptr:
		if c20IsKindStruct(ft.Elem()) {
			return c20One
		}
	case reflect.Struct:
		if c20IsKindStruct(ft) {
			return c20One
		}
	case reflect.Slice, reflect.Array:
		switch c20Classify(ft.Elem()) {
		case c20One:
			return c20Many
		case c20Many, c20Opaque:
			return c20Opaque
		}
	case reflect.Map:
		if c := c20Classify(ft.Elem()); c == c20One || c == c20Many || c == c20Opaque {
			return c20Opaque
		}
	}
	return c20Other
}

type c20Field struct {
	name  string
	index []int
	typ   reflect.Type
	class c20Class
}

var c20FieldCache sync.Map

// fields of a struct type with embedded struct values flattened (Go promotes their fields)
func c20Fields(t reflect.Type) []c20Field {
	if v, ok := c20FieldCache.Load(t); ok {
		return v.([]c20Field)
	}
	var res []c20Field
	var rec func(t reflect.Type, prefix []int)
	rec = func(t reflect.Type, prefix []int) {
		for i := 0; i < t.NumField(); i++ {
			f := t.Field(i)
			idx := append(append([]int{}, prefix...), i)
			if f.Anonymous && f.Type.Kind() == reflect.Struct && f.Type.PkgPath() == t.PkgPath() {
				rec(f.Type, idx)
				continue
			}
			res = append(res, c20Field{name: f.Name, index: idx, typ: f.Type, class: c20Classify(f.Type)})
		}
	}
	rec(t, nil)
	c20FieldCache.Store(t, res)
	return res
}

func c20Name(s string) string { return "x" + hex.EncodeToString([]byte(s)) }

func c20UnName(s string) (string, error) {
	if len(s) == 0 || s[0] != 'x' {
		return "", fmt.Errorf("bad name %q", s)
	}
	b, err := hex.DecodeString(s[1:])
	return string(b), err
}

func c20Names(xs []string) string {
	if len(xs) == 0 {
		return "-"
	}
	out := ""
	for i, x := range xs {
		if i > 0 {
			out += ","
		}
		out += c20Name(x)
	}
	return out
}

// ------------------------------------------------------------------------------------- walker

type c20Walker struct {
	toks  []string
	kinds map[string]bool
	syms  []string // every string field value met (superset of the symbols), in tree order
	err   string
}

func (w *c20Walker) emit(t ...string) { w.toks = append(w.toks, t...) }

func (w *c20Walker) walk(v reflect.Value) {
	switch v.Kind() {
	case reflect.Interface:
		if v.IsNil() {
			w.emit("Z")
			return
		}
		// a typed nil pointer stored in an interface: not a nil interface
		if e := v.Elem(); e.Kind() == reflect.Ptr && e.IsNil() {
			w.emit("T", e.Type().Elem().Name())
			return
		}
		w.walk(v.Elem())
	case reflect.Ptr:
		if v.IsNil() {
			w.emit("Z")
			return
		}
		w.walk(v.Elem())
	case reflect.Struct:
		w.walkStruct(v)
	default:
		w.err = "not-a-node " + v.Kind().String()
		w.emit("Z")
	}
}

func c20PtrOf(v reflect.Value) uintptr {
	for v.Kind() == reflect.Interface {
		if v.IsNil() {
			return 0
		}
		v = v.Elem()
	}
	if v.Kind() == reflect.Ptr {
		return v.Pointer()
	}
	return 0
}

func (w *c20Walker) walkStruct(sv reflect.Value) {
	t := sv.Type()
	if !c20IsKindStruct(t) {
		w.err = "not-a-node-struct " + t.Name()
		w.emit("Z")
		return
	}
	if w.kinds != nil {
		w.kinds[t.Name()] = true
	}
	fields := c20Fields(t)
	nstr, nkids := 0, 0
	var childPtrs []uintptr
	for _, f := range fields {
		switch f.class {
		case c20Str, c20Enum:
			nstr++
		case c20One:
			nkids++
			childPtrs = append(childPtrs, c20PtrOf(sv.FieldByIndex(f.index)))
		case c20Many:
			nkids += sv.FieldByIndex(f.index).Len()
		}
	}
	// a field of non-node interface type may only alias one of the node-valued fields; a node it holds that is
	// NOT one of them is serialised as an extra child under the field's name, so that the specification counts what
	// it references (the model does not know such a child: the case then fails the correspondence as well)
	type hiddenNode struct {
		name string
		val  reflect.Value
	}
	var hidden []hiddenNode
	isAliased := func(dyn reflect.Value) bool {
		p := c20PtrOf(dyn)
		for _, cp := range childPtrs {
			if p != 0 && cp == p {
				return true
			}
		}
		return false
	}
	for _, f := range fields {
		if f.class != c20Opaque {
			continue
		}
		fv := sv.FieldByIndex(f.index)
		switch fv.Kind() {
		case reflect.Interface:
			if fv.IsNil() {
				continue
			}
			if dyn := fv.Elem(); dyn.Type().Implements(c20NodeIface) && !isAliased(dyn) {
				hidden = append(hidden, hiddenNode{f.name, fv})
			}
		case reflect.Slice, reflect.Array:
			// e.g. a []SortField (not a node interface) whose elements are nodes all the same
			for i := 0; i < fv.Len(); i++ {
				el := fv.Index(i)
				if el.Kind() == reflect.Interface && !el.IsNil() && el.Elem().Type().Implements(c20NodeIface) {
					if !isAliased(el.Elem()) {
						hidden = append(hidden, hiddenNode{f.name, el})
					}
				} else if el.Kind() != reflect.Interface || !el.IsNil() {
					w.err = "hidden-node " + t.Name() + "." + f.name
				}
			}
		default:
			if (fv.Kind() == reflect.Map || fv.Kind() == reflect.Chan) && fv.Len() > 0 {
				w.err = "hidden-node " + t.Name() + "." + f.name
			}
		}
	}
	w.emit("N", t.Name(), strconv.Itoa(nstr))
	for _, f := range fields {
		if f.class == c20Str {
			s := sv.FieldByIndex(f.index).String()
			w.syms = append(w.syms, s)
			w.emit(f.name, c20Name(s))
		}
		if f.class == c20Enum {
			w.emit(f.name, c20Name(string([]byte{byte(c20IntOf(sv.FieldByIndex(f.index)))})))
		}
	}
	w.emit(strconv.Itoa(nkids + len(hidden)))
	for _, f := range fields {
		fv := sv.FieldByIndex(f.index)
		switch f.class {
		case c20One:
			w.emit(f.name)
			w.walk(fv)
		case c20Many:
			for i := 0; i < fv.Len(); i++ {
				w.emit(f.name)
				w.walk(fv.Index(i))
			}
		}
	}
	for _, h := range hidden {
		w.emit(h.name)
		w.walk(h.val)
	}
}

func c20IntOf(v reflect.Value) int64 {
	if v.Kind() == reflect.Uint8 {
		return int64(v.Uint())
	}
	return v.Int()
}

// c20WalkNode serialises a real tree
func c20WalkNode(n interface{}, kinds map[string]bool) (toks []string, strs []string, err string) {
	w := &c20Walker{kinds: kinds}
	if n == nil {
		w.emit("Z")
	} else if v := reflect.ValueOf(n); v.Kind() == reflect.Ptr && v.IsNil() {
		w.emit("T", v.Type().Elem().Name()) // n is an interface value holding a typed nil pointer
	} else {
		w.walk(v)
	}
	return w.toks, w.syms, w.err
}

// ------------------------------------------------------------------------------------ builder

var c20Registry = map[string]reflect.Type{}

func c20Reg(xs ...interface{}) {
	for _, x := range xs {
		t := reflect.TypeOf(x)
		for t.Kind() == reflect.Ptr {
			t = t.Elem()
		}
		c20Registry[t.Name()] = t
	}
}

func init() {
	// every exported node type of package ast (a type that disappears breaks the build of this
	// file, which the check reports; a type that appears is reported as not covered until it is
	// added here)
	c20Reg(ast.NotExprNode{}, ast.AndExprNode{}, ast.OrExprNode{},
		ast.BinaryBoolExprNode{}, ast.BinaryDatetimeExprNode{}, ast.BinaryFloat64ExprNode{}, ast.BinaryInt64ExprNode{},
		ast.BinaryStringExprNode{}, ast.IsNilExprNode{},
		ast.Int64BetweenExprNode{}, ast.Float64BetweenExprNode{}, ast.DatetimeBetweenExprNode{},
		ast.BooleanLogicExprNode{}, ast.BinaryExprNode{}, ast.Int64ToFloat64Node{}, ast.InArrayExprNode{}, ast.BetweenExprNode{},
		ast.SetFunctionNode{}, ast.UntypedNotExprNode{}, ast.StringFuncNode{},
		ast.AllOfSetExprNode{}, ast.AnyOfSetExprNode{}, ast.CountSetExprNode{}, ast.IsEmptySetExprNode{},
		ast.SortByNode{}, ast.SortFieldNode{}, ast.LimitExprNode{}, ast.SkipExprNode{}, ast.UntypedSubQueryNode{},
		ast.StringArrayNode{}, ast.Float64ArrayNode{}, ast.Int64ArrayNode{}, ast.DatetimeArrayNode{},
		ast.InStringArrayExprNode{}, ast.InInt64ArrayExprNode{}, ast.InFloat64ArrayExprNode{}, ast.InDatetimeArrayExprNode{},
		ast.BoolConstNode{}, ast.DatetimeConstNode{}, ast.Float64ConstNode{}, ast.Int64ConstNode{}, ast.StringConstNode{},
		ast.NullConstNode{},
		ast.UntypedSymbolNode{}, ast.BoolSymbolNode{}, ast.DatetimeSymbolNode{}, ast.Float64SymbolNode{}, ast.Int64SymbolNode{},
		ast.StringSymbolNode{}, ast.AnyTypeSymbolNode{})
}

var c20DerivedOnce sync.Once

// the unexported node types are taken from values the exported API hands out
func c20RegisterDerived() {
	c20DerivedOnce.Do(func() {
		st := c20StoreFor(0)
		if q, err := ast.Parse(st.a, ""); err == nil {
			c20Reg(q) // *queryNode
		}
		if n, err := c20UntypedTree("true"); err == nil {
			c20Reg(n) // *untypedQueryNode
			// subQueryNode: result of UntypedSubQueryNode.TypeTransform
			toks := []string{"N", "UntypedSubQueryNode", "0", "2", "symbol", "N", "UntypedSymbolNode", "1", "symbol", c20Name("kids"), "0", "query"}
			ut, _, _ := c20WalkNode(n, nil)
			toks = append(toks, ut...)
			pos := 0
			if v, err := c20Build(toks, &pos); err == nil {
				func() {
					defer func() { _ = recover() }()
					if usq, ok := v.Interface().(*ast.UntypedSubQueryNode); ok {
						if res, err := usq.TypeTransform(st.a); err == nil {
							c20Reg(res)
						}
					}
				}()
			}
		}
	})
}

// settable view of a (possibly unexported) field of an addressable struct
func c20Settable(f reflect.Value) reflect.Value {
	return reflect.NewAt(f.Type(), unsafe.Pointer(f.UnsafeAddr())).Elem()
}

func c20FieldByName(t reflect.Type, name string) (c20Field, bool) {
	for _, f := range c20Fields(t) {
		if f.name == name {
			return f, true
		}
	}
	return c20Field{}, false
}

// c20Build allocates the real structs for a serialised tree; a zero Value stands for nil
func c20Build(toks []string, pos *int) (reflect.Value, error) {
	next := func() (string, error) {
		if *pos >= len(toks) {
			return "", fmt.Errorf("truncated")
		}
		t := toks[*pos]
		*pos++
		return t, nil
	}
	t, err := next()
	if err != nil {
		return reflect.Value{}, err
	}
	if t == "Z" {
		return reflect.Value{}, nil
	}
	if t == "T" { // typed nil pointer (only meaningful in an interface-typed slot)
		kind, err := next()
		if err != nil {
			return reflect.Value{}, err
		}
		typ, ok := c20Registry[kind]
		if !ok {
			return reflect.Value{}, fmt.Errorf("unbuildable-kind %s", kind)
		}
		return reflect.Zero(reflect.PointerTo(typ)), nil
	}
	if t != "N" {
		return reflect.Value{}, fmt.Errorf("bad token %q", t)
	}
	kind, err := next()
	if err != nil {
		return reflect.Value{}, err
	}
	typ, ok := c20Registry[kind]
	if !ok {
		return reflect.Value{}, fmt.Errorf("unbuildable-kind %s", kind)
	}
	pv := reflect.New(typ)
	sv := pv.Elem()
	ns, err := next()
	if err != nil {
		return reflect.Value{}, err
	}
	nstr, err := strconv.Atoi(ns)
	if err != nil {
		return reflect.Value{}, err
	}
	for i := 0; i < nstr; i++ {
		fn, err := next()
		if err != nil {
			return reflect.Value{}, err
		}
		hv, err := next()
		if err != nil {
			return reflect.Value{}, err
		}
		val, err := c20UnName(hv)
		if err != nil {
			return reflect.Value{}, err
		}
		f, ok := c20FieldByName(typ, fn)
		if ok && f.class == c20Enum && len(val) == 1 {
			fv := c20Settable(sv.FieldByIndex(f.index))
			if fv.Kind() == reflect.Uint8 {
				fv.SetUint(uint64(val[0]))
			} else {
				fv.SetInt(int64(val[0]))
			}
			continue
		}
		if !ok || f.class != c20Str {
			return reflect.Value{}, fmt.Errorf("no-string-field %s.%s", kind, fn)
		}
		c20Settable(sv.FieldByIndex(f.index)).SetString(val)
	}
	nk, err := next()
	if err != nil {
		return reflect.Value{}, err
	}
	nkids, err := strconv.Atoi(nk)
	if err != nil {
		return reflect.Value{}, err
	}
	for i := 0; i < nkids; i++ {
		label, err := next()
		if err != nil {
			return reflect.Value{}, err
		}
		child, err := c20Build(toks, pos)
		if err != nil {
			return reflect.Value{}, err
		}
		f, ok := c20FieldByName(typ, label)
		if !ok || (f.class != c20One && f.class != c20Many) {
			return reflect.Value{}, fmt.Errorf("no-node-field %s.%s", kind, label)
		}
		target := c20Settable(sv.FieldByIndex(f.index))
		et := f.typ
		if f.class == c20Many {
			et = f.typ.Elem()
		}
		var cv reflect.Value
		if !child.IsValid() {
			cv = reflect.Zero(et)
		} else {
			cv = child
			if cv.Kind() == reflect.Ptr && cv.IsNil() && et.Kind() != reflect.Interface {
				return reflect.Value{}, fmt.Errorf("typed-nil-outside-interface %s.%s", kind, label)
			}
			if et.Kind() == reflect.Struct && cv.Kind() == reflect.Ptr {
				cv = cv.Elem()
			}
			if !cv.Type().AssignableTo(et) {
				return reflect.Value{}, fmt.Errorf("unassignable %s.%s <- %s", kind, label, cv.Type())
			}
		}
		if f.class == c20Many {
			target.Set(reflect.Append(target, cv))
		} else {
			target.Set(cv)
		}
	}
	if typ.Implements(c20NodeIface) { // value receiver (NullConstNode): lives in interfaces by value
		return sv, nil
	}
	return pv, nil
}

// kinds K such that a nil *K can be stored in an interface-typed slot of static type et
func c20TypedNilCandidates(et reflect.Type) []string {
	var res []string
	if et.Kind() != reflect.Interface {
		return nil
	}
	for k, typ := range c20Registry {
		if reflect.PointerTo(typ).AssignableTo(et) {
			res = append(res, k)
		}
	}
	sort.Strings(res)
	return res
}

// which registered kinds may sit in a slot of static type `et`
func c20ValueType(kind string) reflect.Type {
	typ := c20Registry[kind]
	if typ.Implements(c20NodeIface) {
		return typ
	}
	return reflect.PointerTo(typ)
}

func c20Candidates(et reflect.Type) []string {
	var res []string
	for k := range c20Registry {
		vt := c20ValueType(k)
		if vt.AssignableTo(et) || (et.Kind() == reflect.Struct && c20Registry[k] == et) {
			res = append(res, k)
		}
	}
	sort.Strings(res)
	return res
}

// --------------------------------------------------------------------- the listener's raw tree

// c20UntypedTree runs the real lexer/parser/listener and takes the untyped tree off the
// listener's stack, i.e. the tree as it is before PostProcess types it.
func c20UntypedTree(query string) (n ast.Node, err error) {
	defer func() {
		if r := recover(); r != nil {
			err = fmt.Errorf("panic %v", r)
		}
	}()
	l := ast.NewListener()
	if errs := zitiql.Parse(query, l); len(errs) > 0 {
		return nil, errs[0]
	}
	if l.HasError() {
		return nil, l.GetError()
	}
	vals := reflect.ValueOf(l).Elem().FieldByName("currentStack").Elem().FieldByName("values")
	if vals.Len() != 1 {
		return nil, fmt.Errorf("listener stack holds %d values", vals.Len())
	}
	e := vals.Index(0)
	e = reflect.NewAt(e.Type(), unsafe.Pointer(e.UnsafeAddr())).Elem()
	node, ok := e.Interface().(ast.Node)
	if !ok {
		return nil, fmt.Errorf("listener stack holds a %T", e.Interface())
	}
	return node, nil
}

// ------------------------------------------------------------------------- recording visitor

type c20Recorder struct {
	ast.DefaultVisitor
	syms []string
}

func (r *c20Recorder) VisitSymbol(s string, _ ast.NodeType) { r.syms = append(r.syms, s) }
