package main

import (
	"strings"
	"time"

	"github.com/openziti/storage/ast"
)

// C12: the row table and the operation atoms of the r / x cases.
//
// An atom is a TEMPLATE over the places where ZitiQl.g4 has whitespace and over its keywords, so
// that the re-spelling streams re-spell the atoms too, not only the connectives around them:
//
//	"~"   WS*  (canonical spelling: nothing)        "~~"  WS*  (canonical spelling: one blank)
//	"+"   WS+                                         "^"   exactly one WS character (`not in`)
//	"kw:" a case-insensitive keyword (letter fragments in the lexer grammar)
//	"dt:" an RFC 3339 date-time (its `T` and `Z` are case-insensitive fragments)
//	anything else: literal text (identifiers, numbers, strings, `datetime(`, brackets, commas)
//
// where WS* / WS+ occur (ZitiQl.g4): around LT / GT / EQ (`binaryLhs WS* EQ WS* NUMBER`), before
// CONTAINS / ICONTAINS (WS*) and after them (WS+), around IN / BETWEEN and the `AND` of between
// (WS+), inside `(NOT WS+)? CONTAINS|ICONTAINS|BETWEEN` (WS+) and `(NOT WS)? IN` (exactly one),
// inside arrays `[ WS* x (WS* , WS* x)* WS* ]`, inside `datetime( WS* date WS* )`, inside
// `anyOf( WS* id WS* )` / `allOf` / `count` / `isEmpty` (none between the keyword and its
// parenthesis), and `FROM WS+ id WS+ WHERE WS+ query` of a sub-query.
//
// A placeholder `x<letter>_<v>` in a spelled text stands for spelling v ('a'..'z') of atom
// <letter>; the spelling is a fixed function of (letter, v) — independent of VERIF_SEED — so a case
// line replays: v = a canonical, b compact + upper-case keywords, c one blank in every gap, d
// tabs / CR / LF in every gap, e.. random.  Every spelling of an atom must give the answer of the
// canonical spelling: the atom's truth per row is computed once, by the generator, from the row.

type c12Kid struct {
	v int64
	w string
}

// a row of the table the operation atoms are evaluated on.  Every scalar field can be NULL / absent
// on a row (nNull, sNull, flagNull, gNull, dNull); `tags` is a set of strings (possibly empty),
// `kids` a set of sub-entities with the fields v (int) and w (string) for sub-queries.
type c12Row struct {
	n    int64
	s    string
	flag bool
	g    bool
	d    string // RFC 3339, "" with dNull
	fv   float64 // a float64-typed field (round 8): comparisons over it are typed BinaryFloat64ExprNode

	nNull, sNull, flagNull, gNull, dNull, fvNull bool
	tags                                 []string
	kids                                 []c12Kid
}

const (
	c12T0 = "2032-09-03T15:36:50Z" // the date-time the atoms compare with
	c12T1 = "2034-01-02T03:04:05Z"
)

var c12Rows = []c12Row{
	{n: 1, s: "x", flag: true, g: false, d: "2032-09-03T15:36:50Z", fv: 2.5, tags: []string{"a"}, kids: []c12Kid{{1, "p"}, {2, "q"}}},
	{n: 3, s: "xy", flag: false, g: true, d: "2031-01-01T00:00:00Z", fv: 3, tags: []string{"a", "b"}, kids: []c12Kid{{2, "p"}, {3, "p"}}},
	{n: 4, s: "", flag: true, g: true, d: "2033-06-30T23:59:59Z", fv: 1.5},
	{n: 7, s: "a and b", flag: false, g: false, d: "2032-09-03T15:36:51Z", fv: 4.25, tags: []string{"b"}, kids: []c12Kid{{0, "q"}}},
	{n: 2, s: "y", flag: true, g: false, d: "2032-09-03T15:36:49Z", fv: 0.5, tags: []string{"c", "a"}, kids: []c12Kid{{5, "r"}}},
	{n: 3, s: "X", flag: true, g: true, d: "2034-01-02T03:04:05Z", fv: 2.75},
	{n: 5, s: "(x)", flag: false, g: true, d: "2035-12-31T00:00:00Z", fv: 4, tags: []string{"b", "c"}, kids: []c12Kid{{1, "p"}}},
	{n: 0, s: "or", flag: false, g: false, d: "2032-09-03T15:36:50Z", fv: 1},
	// rows on which fields are NULL / absent: an atom over such a field is neither "present and
	// true" nor "present and false" - a comparison with a null operand is false (`!=`: true), and so
	// is its complementary comparison; `not (P)` must still negate whatever P evaluates to
	{nNull: true, s: "x", flag: true, g: false, d: "2030-05-05T05:05:05Z", fv: 3.5, tags: []string{"a"}},
	{n: 3, sNull: true, flag: false, g: true, dNull: true, fvNull: true, kids: []c12Kid{{2, "q"}, {4, "p"}}},
	{nNull: true, sNull: true, flagNull: true, gNull: true, dNull: true, fvNull: true},
	{n: 1, s: "y", flagNull: true, g: true, d: "2034-01-02T03:04:04Z", fv: 2.5, tags: []string{"b"}},
	{n: 5, s: "xy", flag: true, gNull: true, dNull: true, fv: 1.5},
	{nNull: true, sNull: true, flag: false, g: true, d: "2040-01-01T00:00:00Z", fv: 5, tags: []string{"a", "b", "c"}, kids: []c12Kid{{2, "p"}}},
}

type c12Atom struct {
	tmpl  []string
	truth func(r c12Row) bool
}

func c12Has(set []string, v string) bool {
	for _, x := range set {
		if x == v {
			return true
		}
	}
	return false
}

func c12Time(s string) time.Time {
	t, err := time.Parse(time.RFC3339, s)
	if err != nil {
		panic(err)
	}
	return t
}

// d compared with a date-time: cmp < 0, = 0, > 0; ok = false when d is NULL
func c12DCmp(r c12Row, with string) (int, bool) {
	if r.dNull {
		return 0, false
	}
	return c12Time(r.d).Compare(c12Time(with)), true
}

func c12KidCount(r c12Row, pred func(k c12Kid) bool) int {
	n := 0
	for _, k := range r.kids {
		if pred(k) {
			n++
		}
	}
	return n
}

func dtLit(t string) []string { return []string{"datetime(", "~", "dt:" + t, "~", ")"} }

func tm(parts ...interface{}) []string {
	var out []string
	for _, p := range parts {
		switch x := p.(type) {
		case string:
			out = append(out, x)
		case []string:
			out = append(out, x...)
		}
	}
	return out
}

// truth of the operation atoms as the generator knows it from the row values (not from the code
// under test).  Null rule of the typed comparisons (ast/node_expr.go): a null operand makes =, <,
// <=, >, >=, contains, icontains, in, between false and != / not contains / not icontains true;
// `not in` / `not between` are built as NOT(in) / NOT(between); a null bool symbol is false;
// `x = null` is true iff x is NULL; between is lower <= x < upper.
//
// letters: a..y and A..Z without T and F (the BOOL constants of the compact skeleton); z is the
// string-typed symbol of the k-cases
var c12Atoms = map[byte]c12Atom{
	'a': {tm("flag"), func(r c12Row) bool { return !r.flagNull && r.flag }},
	'b': {tm("g"), func(r c12Row) bool { return !r.gNull && r.g }},
	'c': {tm("n", "~~", "=", "~~", "3"), func(r c12Row) bool { return !r.nNull && r.n == 3 }},
	'd': {tm("s", "+", "kw:contains", "+", `"x"`), func(r c12Row) bool { return !r.sNull && strings.Contains(r.s, "x") }},
	'e': {tm("n", "+", "kw:in", "+", "[", "~", "1", "~", ",", "~~", "2", "~", "]"), func(r c12Row) bool { return !r.nNull && (r.n == 1 || r.n == 2) }},
	'f': {tm("n", "+", "kw:between", "+", "2", "+", "kw:and", "+", "5"), func(r c12Row) bool { return !r.nNull && r.n >= 2 && r.n < 5 }},
	'g': {tm("s", "+", "kw:not", "+", "kw:contains", "+", `"y"`), func(r c12Row) bool { return r.sNull || !strings.Contains(r.s, "y") }},
	'h': {tm("n", "+", "kw:not", "^", "kw:in", "+", "[", "~", "3", "~", "]"), func(r c12Row) bool { return r.nNull || r.n != 3 }},
	'i': {tm("s", "~~", "=", "~~", `"a and b"`), func(r c12Row) bool { return !r.sNull && r.s == "a and b" }},
	'j': {tm("s", "+", "kw:icontains", "+", `"X"`), func(r c12Row) bool { return !r.sNull && strings.Contains(strings.ToLower(r.s), "x") }},
	'k': {tm("n", "~~", ">=", "~~", "3"), func(r c12Row) bool { return !r.nNull && r.n >= 3 }},
	'l': {tm("s", "~~", "!=", "~~", `"(x)"`), func(r c12Row) bool { return r.sNull || r.s != "(x)" }},
	'm': {tm("n", "+", "kw:not", "+", "kw:between", "+", "1", "+", "kw:and", "+", "4"), func(r c12Row) bool { return r.nNull || !(r.n >= 1 && r.n < 4) }},
	'n': {tm("s", "+", "kw:in", "+", "[", "~", `"or"`, "~", ",", "~~", `"x"`, "~", "]"), func(r c12Row) bool { return !r.sNull && (r.s == "or" || r.s == "x") }},
	// ordering comparisons (false on a null operand - and so is the complementary comparison)
	'o': {tm("n", "~~", "<", "~~", "4"), func(r c12Row) bool { return !r.nNull && r.n < 4 }},
	'p': {tm("n", "~~", "<=", "~~", "3"), func(r c12Row) bool { return !r.nNull && r.n <= 3 }},
	'q': {tm("n", "~~", ">", "~~", "2"), func(r c12Row) bool { return !r.nNull && r.n > 2 }},
	'r': {tm("s", "~~", "<", "~~", `"y"`), func(r c12Row) bool { return !r.sNull && r.s < "y" }},
	's': {tm("s", "~~", ">=", "~~", `"x"`), func(r c12Row) bool { return !r.sNull && r.s >= "x" }},
	't': {tm("n", "~~", "!=", "~~", "3"), func(r c12Row) bool { return r.nNull || r.n != 3 }},
	'u': {tm("flag", "~~", "=", "~~", "kw:true"), func(r c12Row) bool { return !r.flagNull && r.flag }},
	'v': {tm("g", "~~", "!=", "~~", "kw:true"), func(r c12Row) bool { return r.gNull || !r.g }},
	// set functions (the set can be empty)
	'w': {tm("kw:anyOf", "(", "~", "tags", "~", ")", "~~", "=", "~~", `"a"`), func(r c12Row) bool { return c12Has(r.tags, "a") }},
	'x': {tm("kw:isEmpty", "(", "~", "tags", "~", ")"), func(r c12Row) bool { return len(r.tags) == 0 }},
	'y': {tm("kw:allOf", "(", "~", "tags", "~", ")", "~~", "!=", "~~", `"b"`), func(r c12Row) bool { return !c12Has(r.tags, "b") }},
	// date-times: `datetime( WS* date WS* )` is ONE token of the lexer with whitespace inside
	'A': {tm("d", "~~", "=", "~~", dtLit(c12T0)), func(r c12Row) bool { c, ok := c12DCmp(r, c12T0); return ok && c == 0 }},
	'B': {tm("d", "~~", "<", "~~", dtLit(c12T0)), func(r c12Row) bool { c, ok := c12DCmp(r, c12T0); return ok && c < 0 }},
	'C': {tm("d", "~~", ">=", "~~", dtLit(c12T0)), func(r c12Row) bool { c, ok := c12DCmp(r, c12T0); return ok && c >= 0 }},
	'D': {tm("d", "+", "kw:in", "+", "[", "~", dtLit(c12T0), "~", ",", "~~", dtLit(c12T1), "~", "]"), func(r c12Row) bool {
		c0, ok := c12DCmp(r, c12T0)
		c1, _ := c12DCmp(r, c12T1)
		return ok && (c0 == 0 || c1 == 0)
	}},
	'E': {tm("d", "+", "kw:between", "+", dtLit(c12T0), "+", "kw:and", "+", dtLit(c12T1)), func(r c12Row) bool {
		c0, ok := c12DCmp(r, c12T0)
		c1, _ := c12DCmp(r, c12T1)
		return ok && c0 >= 0 && c1 < 0
	}},
	'G': {tm("d", "+", "kw:not", "+", "kw:between", "+", dtLit(c12T0), "+", "kw:and", "+", dtLit(c12T1)), func(r c12Row) bool {
		c0, ok := c12DCmp(r, c12T0)
		c1, _ := c12DCmp(r, c12T1)
		return !(ok && c0 >= 0 && c1 < 0)
	}},
	'H': {tm("d", "~~", "!=", "~~", dtLit(c12T1)), func(r c12Row) bool { c, ok := c12DCmp(r, c12T1); return !ok || c != 0 }},
	// count, sub-queries, contains after a closing parenthesis, null
	'I': {tm("kw:count", "(", "~", "tags", "~", ")", "~~", ">=", "~~", "2"), func(r c12Row) bool { return len(r.tags) >= 2 }},
	'J': {tm("kw:count", "(", "~", "kw:from", "+", "kids", "+", "kw:where", "+", "v", "~~", ">", "~~", "1", "~", ")", "~~", "=", "~~", "1"),
		func(r c12Row) bool { return c12KidCount(r, func(k c12Kid) bool { return k.v > 1 }) == 1 }},
	'K': {tm("kw:isEmpty", "(", "~", "kw:from", "+", "kids", "+", "kw:where", "+", "w", "~~", "=", "~~", `"p"`, "~", ")"),
		func(r c12Row) bool { return c12KidCount(r, func(k c12Kid) bool { return k.w == "p" }) == 0 }},
	'L': {tm("kw:anyOf", "(", "~", "tags", "~", ")", "~~", "kw:contains", "+", `"a"`), func(r c12Row) bool { return c12Has(r.tags, "a") }},
	'M': {tm("s", "~~", "=", "~~", "kw:null"), func(r c12Row) bool { return r.sNull }},
	'N': {tm("n", "~~", "!=", "~~", "kw:null"), func(r c12Row) bool { return !r.nNull }},
	'O': {tm("kw:anyOf", "(", "~", "tags", "~", ")", "+", "kw:in", "+", "[", "~", `"c"`, "~", ",", "~~", `"b"`, "~", "]"),
		func(r c12Row) bool { return c12Has(r.tags, "c") || c12Has(r.tags, "b") }},
	// round 8: comparisons the typing stage evaluates as float64 - a float symbol against any number, an int
	// symbol against a literal with a decimal point (Int64ToFloat64Node); the typed node BinaryFloat64ExprNode
	// is a BoolNode whose GetType() says NodeTypeFloat64; float between / in / not between next to it
	'P': {tm("fv", "~~", ">", "~~", "2.5"), func(r c12Row) bool { return !r.fvNull && r.fv > 2.5 }},
	'Q': {tm("fv", "~~", "<=", "~~", "3"), func(r c12Row) bool { return !r.fvNull && r.fv <= 3 }},
	'R': {tm("n", "~~", "=", "~~", "3.0"), func(r c12Row) bool { return !r.nNull && r.n == 3 }},
	'S': {tm("n", "~~", "<", "~~", "2.5"), func(r c12Row) bool { return !r.nNull && float64(r.n) < 2.5 }},
	'U': {tm("fv", "~~", "!=", "~~", "1.5"), func(r c12Row) bool { return r.fvNull || r.fv != 1.5 }},
	'V': {tm("fv", "+", "kw:between", "+", "1.5", "+", "kw:and", "+", "4"), func(r c12Row) bool { return !r.fvNull && r.fv >= 1.5 && r.fv < 4 }},
	'W': {tm("fv", "+", "kw:in", "+", "[", "~", "1.5", "~", ",", "~~", "4.25", "~", "]"), func(r c12Row) bool { return !r.fvNull && (r.fv == 1.5 || r.fv == 4.25) }},
	'X': {tm("fv", "+", "kw:not", "+", "kw:between", "+", "0.5", "+", "kw:and", "+", "2.5"), func(r c12Row) bool { return r.fvNull || !(r.fv >= 0.5 && r.fv < 2.5) }},
	'Y': {tm("n", "~~", ">=", "~~", "1.5"), func(r c12Row) bool { return !r.nNull && float64(r.n) >= 1.5 }},
	'Z': {tm("fv", "~~", "=", "~~", "4.0"), func(r c12Row) bool { return !r.fvNull && r.fv == 4 }},
}

const c12AtomVariants = 26

var c12TmplWs = []string{" ", " ", "\t", "\n", "\r", "  ", " \t ", "\r\n", "\n\n"}
var c12TmplWs1 = []string{" ", " ", "\t", "\n", "\r"}

// spelling v (0..25) of an atom: a fixed function of (letter, v)
func c12SpellAtom(letter byte, v int) string {
	a := c12Atoms[letter]
	r := newRng(0xa70a70a7*uint64(letter) + 7919*uint64(v) + 1)
	cyc := []string{"\t", "\n", "\r", " \t", "\r\n"}
	k := 0
	var b strings.Builder
	gap := func(canon string, required, single bool) string {
		switch v {
		case 0:
			return canon
		case 1:
			if required {
				return " "
			}
			return ""
		case 2:
			return " "
		case 3:
			k++
			if single {
				return []string{"\t", "\n", "\r"}[k%3]
			}
			return cyc[k%len(cyc)]
		}
		if single {
			return pick(r, c12TmplWs1)
		}
		if !required && r.chance(1, 2) {
			return ""
		}
		return pick(r, c12TmplWs)
	}
	for _, p := range a.tmpl {
		switch {
		case p == "~":
			b.WriteString(gap("", false, false))
		case p == "~~":
			b.WriteString(gap(" ", false, false))
		case p == "+":
			b.WriteString(gap(" ", true, false))
		case p == "^":
			b.WriteString(gap(" ", true, true))
		case strings.HasPrefix(p, "kw:"):
			w := p[3:]
			switch v {
			case 0:
			case 1:
				w = strings.ToUpper(w)
			case 2:
				w = strings.ToLower(w)
			default:
				w = c12Case(r, strings.ToLower(w))
			}
			b.WriteString(w)
		case strings.HasPrefix(p, "dt:"):
			w := p[3:]
			if v == 1 || (v >= 3 && r.chance(1, 2)) {
				w = strings.Replace(w, "T", "t", 1)
			}
			if v == 1 || (v >= 3 && r.chance(1, 2)) {
				w = strings.Replace(w, "Z", "z", 1)
			}
			b.WriteString(w)
		default:
			b.WriteString(p)
		}
	}
	return b.String()
}

func c12RowSymbols(r c12Row) *memSymbols {
	syms := newMemSymbols()
	for _, w := range c12ExtraWords {
		syms.types[w] = ast.NodeTypeBool
		syms.scalars[w] = false
	}
	syms.types["flag"] = ast.NodeTypeBool
	syms.types["g"] = ast.NodeTypeBool
	syms.types["n"] = ast.NodeTypeInt64
	syms.types["s"] = ast.NodeTypeString
	syms.types["d"] = ast.NodeTypeDatetime
	syms.types["fv"] = ast.NodeTypeFloat64
	syms.types["tags"] = ast.NodeTypeString
	syms.sets["tags"] = true
	syms.setVals["tags"] = r.tags
	syms.types["kids"] = ast.NodeTypeString
	syms.sets["kids"] = true
	for i := range r.kids {
		syms.setVals["kids"] = append(syms.setVals["kids"], string(rune('0'+i)))
	}
	// a NULL / absent field: no entry, every Eval* answers nil and IsNil answers true
	if !r.flagNull {
		syms.scalars["flag"] = r.flag
	}
	if !r.gNull {
		syms.scalars["g"] = r.g
	}
	if !r.nNull {
		syms.scalars["n"] = r.n
	}
	if !r.sNull {
		syms.scalars["s"] = r.s
	}
	if !r.dNull {
		syms.scalars["d"] = c12Time(r.d)
	}
	if !r.fvNull {
		syms.scalars["fv"] = r.fv
	}
	return syms
}

// the fields of an element of `kids`
func c12KidSymbols(k c12Kid) *memSymbols {
	syms := newMemSymbols()
	syms.types["v"] = ast.NodeTypeInt64
	syms.types["w"] = ast.NodeTypeString
	syms.scalars["v"] = k.v
	syms.scalars["w"] = k.w
	return syms
}

// replace placeholders x<letter>_<variant letter> (as whole words) by the operation text; any
// other word stays as it is
func c12Substitute(text string) (string, bool) {
	isWordChar := func(c byte) bool { return c == '_' || (c >= 'a' && c <= 'z') || (c >= 'A' && c <= 'Z') }
	var b strings.Builder
	for i := 0; i < len(text); {
		if !isWordChar(text[i]) {
			b.WriteByte(text[i])
			i++
			continue
		}
		j := i
		for j < len(text) && isWordChar(text[j]) {
			j++
		}
		w := text[i:j]
		if _, ok := c12Atoms[w[min(1, len(w)-1)]]; ok && len(w) == 4 && w[0] == 'x' && w[2] == '_' && w[3] >= 'a' && w[3] <= 'z' {
			b.WriteString(c12SpellAtom(w[1], int(w[3]-'a')))
		} else {
			b.WriteString(w)
		}
		i = j
	}
	return b.String(), true
}

// c12AnySymbols: every identifier that is not a field of the row is a boolean symbol that is false
type c12AnySymbols struct {
	*memSymbols
	row     c12Row
	cursors map[string]ast.SetCursor
}

func (m c12AnySymbols) GetSymbolType(name string) (ast.NodeType, bool) {
	if t, ok := m.memSymbols.GetSymbolType(name); ok {
		return t, true
	}
	return ast.NodeTypeBool, true
}
func (m c12AnySymbols) IsSet(name string) (bool, bool) { return m.memSymbols.sets[name], true }

func (m c12AnySymbols) GetSetSymbolTypes(name string) ast.SymbolTypes {
	if name == "kids" {
		return c12KidSymbols(c12Kid{})
	}
	return nil
}

// the element a set function's predicate is evaluated on is the current element of the cursor
// that was opened last for the set (AnyOfSetExprNode / AllOfSetExprNode.EvalBool)
func (m c12AnySymbols) OpenSetCursor(name string) ast.SetCursor {
	c := m.memSymbols.OpenSetCursor(name)
	m.cursors[name] = c
	return c
}

// the elements of `kids` that satisfy the sub-query
func (m c12AnySymbols) OpenSetCursorForQuery(name string, query ast.Query) ast.SetCursor {
	if name != "kids" {
		return m.OpenSetCursor(name)
	}
	var ids []string
	for i, k := range m.row.kids {
		if query.EvalBool(c12KidSymbols(k)) {
			ids = append(ids, string(rune('0'+i)))
		}
	}
	c := &sliceCursor{vals: ids}
	m.cursors[name] = c
	return c
}
func (m c12AnySymbols) EvalString(name string) *string {
	if m.memSymbols.sets[name] {
		if c, ok := m.cursors[name]; ok && c.IsValid() {
			v := string(c.Current())
			return &v
		}
		return nil
	}
	return m.memSymbols.EvalString(name)
}
func (m c12AnySymbols) IsNil(name string) bool {
	if m.memSymbols.sets[name] {
		return m.EvalString(name) == nil
	}
	return m.memSymbols.IsNil(name)
}

func c12Any(r c12Row) c12AnySymbols {
	return c12AnySymbols{memSymbols: c12RowSymbols(r), row: r, cursors: map[string]ast.SetCursor{}}
}
