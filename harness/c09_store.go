package main

// C09 harness, part 1: the two stores the integrity checker is exercised on (wired through the
// exported API only), raw bbolt corruption primitives, the canonical state dump the Lean model
// reads, and the raw byte-for-byte dump used for the read-only clause.
//
//	store "things" (A)                                  store "owners" (B)
//	  name   string   unique index (non-null)             label    *string nullable unique index
//	  alias  *string  nullable unique index               things    back-references of things.owner
//	  roles  []string set index                           residents back-references of things.home
//	  owner  *string  nullable fk index -> owners.things   members   link collection <-> things.groups
//	  home   string   fk index (non-null) -> owners.residents
//	  dep    *string  nullable fk constraint -> owners
//	  req    string   fk constraint (non-null) -> owners
//	  boss   *string  nullable fk index -> things.minions (self reference)
//	  groups          link collection <-> owners.members
//	  minions         back-references of things.boss
//
//	store "things_x": EXTENDED child store of things          store "things_p": PLAIN child store of things
//	(data bucket "ext" inside the thing's entity bucket)       (data bucket "pl")
//	  badge   string   unique index (non-null)                   code  string   unique index (non-null)
//	  tag     *string  nullable unique index                     nick  *string  nullable unique index
//	  caps    []string set index                                 marks []string set index
//	  sponsor string   fk constraint (non-null) -> owners
//
//	A thing may have neither, one or both kinds of child data.  The child stores' index buckets live under the
//	parent's entity type (indexes/things/<field>); the dump, the corruptions and the reports name them by the
//	child store ("things_x.badge").

import (
	"bytes"
	"context"
	"encoding/hex"
	"os"
	"path/filepath"
	"sort"
	"strings"

	"github.com/openziti/foundation/v2/errorz"
	"github.com/openziti/storage/ast"
	"github.com/openziti/storage/boltz"
	"go.etcd.io/bbolt"
)

const (
	c09Root    = "u"
	c09Things  = "things"
	c09Owners  = "owners"
	c09ThingsX = "things_x"
	c09ThingsP = "things_p"
)

// data bucket of a child store inside the parent's entity bucket
var c09ChildPath = map[string]string{c09ThingsX: "ext", c09ThingsP: "pl"}

// the field that decides which child store an index / report belongs to
var c09ChildField = map[string]string{"badge": c09ThingsX, "tag": c09ThingsX, "caps": c09ThingsX, "sponsor": c09ThingsX,
	"code": c09ThingsP, "nick": c09ThingsP, "marks": c09ThingsP}

// c09EntType: the entity type (= name of the entities bucket and of the index directory) of a model store
func c09EntType(store string) string {
	if _, ok := c09ChildPath[store]; ok {
		return c09Things
	}
	return store
}

// c09ModelIdx: "things.badge" (as the code names it) -> "things_x.badge"
func c09ModelIdx(idx string) string {
	p := strings.SplitN(idx, ".", 2)
	if len(p) == 2 && p[0] == c09Things {
		if st, ok := c09ChildField[p[1]]; ok {
			return st + "." + p[1]
		}
	}
	return idx
}

type c09Thing struct {
	Id    string
	Name  string
	Alias *string
	Roles []string
	Owner *string
	Home  string
	Dep   *string
	Req   string
	Boss  *string
}

func (e *c09Thing) GetId() string         { return e.Id }
func (e *c09Thing) SetId(id string)       { e.Id = id }
func (e *c09Thing) GetEntityType() string { return c09Things }

type c09ThingStrategy struct{}

func (c09ThingStrategy) NewEntity() *c09Thing { return &c09Thing{} }
func (c09ThingStrategy) FillEntity(e *c09Thing, b *boltz.TypedBucket) {
	e.Name = b.GetStringOrError("name")
	e.Alias = b.GetString("alias")
	e.Roles = b.GetStringList("roles")
	e.Owner = b.GetString("owner")
	e.Home = b.GetStringWithDefault("home", "")
	e.Dep = b.GetString("dep")
	e.Req = b.GetStringWithDefault("req", "")
	e.Boss = b.GetString("boss")
}
func (c09ThingStrategy) PersistEntity(e *c09Thing, ctx *boltz.PersistContext) {
	ctx.SetString("name", e.Name)
	ctx.SetStringP("alias", e.Alias)
	ctx.SetStringList("roles", e.Roles)
	ctx.SetStringP("owner", e.Owner)
	ctx.SetString("home", e.Home)
	ctx.SetStringP("dep", e.Dep)
	ctx.SetString("req", e.Req)
	ctx.SetStringP("boss", e.Boss)
}

type c09ThingX struct {
	c09Thing
	Badge   string
	Tag     *string
	Sponsor string
	Caps    []string
}

type c09ThingP struct {
	c09Thing
	Code  string
	Nick  *string
	Marks []string
}

type c09XStrategy struct{ parent *boltz.BaseStore[*c09Thing] }

func (s *c09XStrategy) NewEntity() *c09ThingX { return new(c09ThingX) }
func (s *c09XStrategy) FillEntity(e *c09ThingX, b *boltz.TypedBucket) {
	_, err := s.parent.LoadEntity(b.Tx(), e.Id, &e.c09Thing)
	b.SetError(err)
	e.Badge = b.GetStringWithDefault("badge", "")
	e.Tag = b.GetString("tag")
	e.Sponsor = b.GetStringWithDefault("sponsor", "")
	e.Caps = b.GetStringList("caps")
}
func (s *c09XStrategy) PersistEntity(e *c09ThingX, ctx *boltz.PersistContext) {
	s.parent.GetEntityStrategy().PersistEntity(&e.c09Thing, ctx.GetParentContext())
	ctx.SetString("badge", e.Badge)
	ctx.SetStringP("tag", e.Tag)
	ctx.SetString("sponsor", e.Sponsor)
	ctx.SetStringList("caps", e.Caps)
}

type c09PStrategy struct{ parent *boltz.BaseStore[*c09Thing] }

func (s *c09PStrategy) NewEntity() *c09ThingP { return new(c09ThingP) }
func (s *c09PStrategy) FillEntity(e *c09ThingP, b *boltz.TypedBucket) {
	_, err := s.parent.LoadEntity(b.Tx(), e.Id, &e.c09Thing)
	b.SetError(err)
	e.Code = b.GetStringWithDefault("code", "")
	e.Nick = b.GetString("nick")
	e.Marks = b.GetStringList("marks")
}
func (s *c09PStrategy) PersistEntity(e *c09ThingP, ctx *boltz.PersistContext) {
	s.parent.GetEntityStrategy().PersistEntity(&e.c09Thing, ctx.GetParentContext())
	ctx.SetString("code", e.Code)
	ctx.SetStringP("nick", e.Nick)
	ctx.SetStringList("marks", e.Marks)
}

func c09ParentMapper(entity boltz.Entity) boltz.Entity {
	switch e := entity.(type) {
	case *c09ThingX:
		return &e.c09Thing
	case *c09ThingP:
		return &e.c09Thing
	}
	return entity
}

type c09Owner struct {
	Id    string
	Label *string
}

func (e *c09Owner) GetId() string         { return e.Id }
func (e *c09Owner) SetId(id string)       { e.Id = id }
func (e *c09Owner) GetEntityType() string { return c09Owners }

type c09OwnerStrategy struct{}

func (c09OwnerStrategy) NewEntity() *c09Owner { return &c09Owner{} }
func (c09OwnerStrategy) FillEntity(e *c09Owner, b *boltz.TypedBucket) {
	e.Label = b.GetString("label")
}
func (c09OwnerStrategy) PersistEntity(e *c09Owner, ctx *boltz.PersistContext) {
	ctx.SetStringP("label", e.Label)
}

type c09Stores struct {
	a      *boltz.BaseStore[*c09Thing]
	ax     *boltz.BaseStore[*c09ThingX]
	ap     *boltz.BaseStore[*c09ThingP]
	b      *boltz.BaseStore[*c09Owner]
	groups boltz.LinkCollection
	member boltz.LinkCollection
}

// field inventory, in the order the canonical dump prints them (the Lean driver relies on it)
var c09Scalars = map[string][]string{
	c09Things:  {"name", "alias", "owner", "home", "dep", "req", "boss"},
	c09Owners:  {"label"},
	c09ThingsX: {"badge", "tag", "sponsor"},
	c09ThingsP: {"code", "nick"},
}
var c09Sets = map[string][]string{
	c09Things:  {"roles", "groups", "minions"},
	c09Owners:  {"things", "residents", "members"},
	c09ThingsX: {"caps"},
	c09ThingsP: {"marks"},
}
var c09UniqueIdx = []string{"things.name", "things.alias", "things_x.badge", "things_x.tag", "things_p.code", "things_p.nick",
	"owners.label"}
var c09SetIdx = []string{"things.roles", "things_x.caps", "things_p.marks"}
var c09StoreOrder = []string{c09Things, c09ThingsX, c09ThingsP, c09Owners}

func c09NewStores() *c09Stores {
	s := &c09Stores{}
	s.a = boltz.NewBaseStore(boltz.StoreDefinition[*c09Thing]{
		EntityType:     c09Things,
		EntityStrategy: c09ThingStrategy{},
		BasePath:       []string{c09Root},
		EntityNotFoundF: func(id string) error {
			return boltz.NewNotFoundError(c09Things, "id", id)
		},
	})
	s.a.InitImpl(s.a)
	s.b = boltz.NewBaseStore(boltz.StoreDefinition[*c09Owner]{
		EntityType:     c09Owners,
		EntityStrategy: c09OwnerStrategy{},
		BasePath:       []string{c09Root},
		EntityNotFoundF: func(id string) error {
			return boltz.NewNotFoundError(c09Owners, "id", id)
		},
	})
	s.b.InitImpl(s.b)

	a, b := s.a, s.b
	a.AddIdSymbol("id", ast.NodeTypeString)
	b.AddIdSymbol("id", ast.NodeTypeString)

	// order of the Add* calls = order of BaseStore.CheckIntegrity's constraint fan-out
	a.AddUniqueIndex(a.AddSymbol("name", ast.NodeTypeString))
	a.AddNullableUniqueIndex(a.AddSymbol("alias", ast.NodeTypeString))
	a.AddSetIndex(a.AddSetSymbol("roles", ast.NodeTypeString))
	symOwner := a.AddFkSymbol("owner", b)
	symThings := b.AddFkSetSymbol("things", a)
	a.AddNullableFkIndex(symOwner, symThings)
	symHome := a.AddFkSymbol("home", b)
	symResidents := b.AddFkSetSymbol("residents", a)
	a.AddFkIndex(symHome, symResidents)
	a.AddFkConstraint(a.AddFkSymbol("dep", b), true, boltz.CascadeNone)
	a.AddFkConstraint(a.AddFkSymbol("req", b), false, boltz.CascadeNone)
	symBoss := a.AddFkSymbol("boss", a)
	symMinions := a.AddFkSetSymbol("minions", a)
	a.AddNullableFkIndex(symBoss, symMinions)

	b.AddNullableUniqueIndex(b.AddSymbol("label", ast.NodeTypeString))

	symGroups := a.AddFkSetSymbol("groups", b)
	symMembers := b.AddFkSetSymbol("members", a)
	s.groups = a.AddLinkCollection(symGroups, symMembers)
	s.member = b.AddLinkCollection(symMembers, symGroups)

	// the child stores of things, declared the way boltz/manager_store_test.go declares one
	notFound := func(id string) error { return boltz.NewNotFoundError(c09Things, "id", id) }
	s.ax = boltz.NewBaseStore(boltz.StoreDefinition[*c09ThingX]{
		EntityStrategy:  &c09XStrategy{parent: a},
		BasePath:        []string{c09ChildPath[c09ThingsX]},
		Parent:          a,
		ParentMapper:    c09ParentMapper,
		EntityNotFoundF: notFound,
	}).Extended()
	s.ax.InitImpl(s.ax)
	s.ap = boltz.NewBaseStore(boltz.StoreDefinition[*c09ThingP]{
		EntityStrategy:  &c09PStrategy{parent: a},
		BasePath:        []string{c09ChildPath[c09ThingsP]},
		Parent:          a,
		ParentMapper:    c09ParentMapper,
		EntityNotFoundF: notFound,
	})
	s.ap.InitImpl(s.ap)
	ax, ap := s.ax, s.ap
	a.RegisterChildStoreStrategy(&boltz.ChildStoreUpdateHandler[*c09Thing, *c09ThingX]{
		Store: ax,
		Mapper: func(ctx boltz.MutateContext, parent *c09Thing) (*c09ThingX, bool) {
			if !ax.IsEntityPresent(ctx.Tx(), parent.Id) {
				return nil, false
			}
			child, found, _ := ax.FindById(ctx.Tx(), parent.Id)
			if !found || child == nil {
				return nil, false
			}
			child.c09Thing = *parent
			return child, true
		},
	})
	a.RegisterChildStoreStrategy(&boltz.ChildStoreUpdateHandler[*c09Thing, *c09ThingP]{
		Store: ap,
		Mapper: func(ctx boltz.MutateContext, parent *c09Thing) (*c09ThingP, bool) {
			if !ap.IsEntityPresent(ctx.Tx(), parent.Id) {
				return nil, false
			}
			child, found, _ := ap.FindById(ctx.Tx(), parent.Id)
			if !found || child == nil {
				return nil, false
			}
			child.c09Thing = *parent
			return child, true
		},
	})
	a.GrantSymbols(ax)
	ax.AddUniqueIndex(ax.AddSymbol("badge", ast.NodeTypeString))
	ax.AddNullableUniqueIndex(ax.AddSymbol("tag", ast.NodeTypeString))
	ax.AddSetIndex(ax.AddSetSymbol("caps", ast.NodeTypeString))
	ax.AddFkConstraint(ax.AddFkSymbol("sponsor", b), false, boltz.CascadeNone)
	a.GrantSymbols(ap)
	ap.AddUniqueIndex(ap.AddSymbol("code", ast.NodeTypeString))
	ap.AddNullableUniqueIndex(ap.AddSymbol("nick", ast.NodeTypeString))
	ap.AddSetIndex(ap.AddSetSymbol("marks", ast.NodeTypeString))
	return s
}

// the stores in the order the harness runs their CheckIntegrity (= order of the model's schema)
func (s *c09Stores) all() []boltz.Store { return []boltz.Store{s.a, s.ax, s.ap, s.b} }

type c09Db struct {
	dir string
	db  *bbolt.DB
	st  *c09Stores
}

func c09Open() *c09Db {
	dir, err := os.MkdirTemp("", "verif-*")
	if err != nil {
		panic(err)
	}
	opts := *bbolt.DefaultOptions
	opts.NoSync = true
	opts.NoFreelistSync = true
	db, err := bbolt.Open(filepath.Join(dir, "t.db"), 0600, &opts)
	if err != nil {
		_ = os.RemoveAll(dir)
		panic(err)
	}
	d := &c09Db{dir: dir, db: db, st: c09NewStores()}
	err = db.Update(func(tx *bbolt.Tx) error {
		eh := &errorz.ErrorHolderImpl{}
		d.st.a.InitializeIndexes(tx, eh)
		d.st.ax.InitializeIndexes(tx, eh)
		d.st.ap.InitializeIndexes(tx, eh)
		d.st.b.InitializeIndexes(tx, eh)
		// the entity buckets exist from the start (as after the first Create in a real deployment)
		if _, err := tx.Bucket([]byte(c09Root)).CreateBucketIfNotExists([]byte(c09Things)); err != nil {
			return err
		}
		if _, err := tx.Bucket([]byte(c09Root)).CreateBucketIfNotExists([]byte(c09Owners)); err != nil {
			return err
		}
		return eh.GetError()
	})
	if err != nil {
		d.close()
		panic(err)
	}
	return d
}

func (d *c09Db) close() {
	_ = d.db.Close()
	_ = os.RemoveAll(d.dir)
}

func c09Ctx(tx *bbolt.Tx) boltz.MutateContext {
	return boltz.NewTxMutateContext(context.Background(), tx)
}

// ---------------------------------------------------------------------------------- raw access

func c09Bucket(tx *bbolt.Tx, path ...string) *bbolt.Bucket {
	b := tx.Bucket([]byte(path[0]))
	for _, p := range path[1:] {
		if b == nil {
			return nil
		}
		b = b.Bucket([]byte(p))
	}
	return b
}

func c09Typed(s string) []byte { return append([]byte{byte(boltz.TypeString)}, []byte(s)...) }

// c09Corrupt applies one raw corruption; it is a no-op when the target does not exist.
//
//	UP <idx> <key> <id>        put key -> id into a unique index bucket
//	UD <idx> <key>             delete a key of a unique index bucket
//	SA <idx> <key> <id>        add id under value key of a set index (creating the value bucket)
//	SD <idx> <key> <id>        remove id from the value bucket
//	SK <idx> <key>             create an empty value bucket
//	SX <idx> <key>             delete a whole value bucket
//	SJ <idx> <key>             put a plain (non-bucket) key into the set index bucket
//	EF <store> <id> <field> <v|~>   raw write of a scalar field of an existing entity
//	EA <store> <id> <set> <elem>    raw add to a set bucket of an existing entity (bucket created)
//	ED <store> <id> <set> <elem>    raw delete from a set bucket of an existing entity
//	XD <child store> <id>           delete the child-store data bucket of an existing thing (it stops being a member)
//	XC <child store> <id>           create an empty child-store data bucket (a member without any field)
//
// <store> may be a child store: the entity is then the child's data bucket inside the thing's bucket (no-op for
// a thing without that data); <idx> "things_x.badge" is the bucket indexes/things/badge.
func c09EntityBucket(tx *bbolt.Tx, store, id string) *bbolt.Bucket {
	eb := c09Bucket(tx, c09Root, c09EntType(store), id)
	if path, ok := c09ChildPath[store]; ok && eb != nil {
		return eb.Bucket([]byte(path))
	}
	return eb
}

func c09Corrupt(tx *bbolt.Tx, f []string) error {
	idxBucket := func(idx string) *bbolt.Bucket {
		p := strings.SplitN(idx, ".", 2)
		return c09Bucket(tx, c09Root, boltz.IndexesBucket, c09EntType(p[0]), p[1])
	}
	switch f[0] {
	case "UP":
		if b := idxBucket(f[1]); b != nil {
			return b.Put([]byte(fromWire(f[2])), []byte(fromWire(f[3])))
		}
	case "UD":
		if b := idxBucket(f[1]); b != nil {
			return b.Delete([]byte(fromWire(f[2])))
		}
	case "SA":
		if b := idxBucket(f[1]); b != nil {
			key := []byte(fromWire(f[2]))
			if b.Get(key) != nil {
				return nil // a plain key occupies the name
			}
			vb, err := b.CreateBucketIfNotExists(key)
			if err != nil {
				return nil
			}
			return vb.Put(c09Typed(fromWire(f[3])), nil)
		}
	case "SD":
		if b := idxBucket(f[1]); b != nil {
			if vb := b.Bucket([]byte(fromWire(f[2]))); vb != nil {
				return vb.Delete(c09Typed(fromWire(f[3])))
			}
		}
	case "SK":
		if b := idxBucket(f[1]); b != nil {
			key := []byte(fromWire(f[2]))
			if b.Get(key) != nil {
				return nil
			}
			_, _ = b.CreateBucketIfNotExists(key)
		}
	case "SX":
		if b := idxBucket(f[1]); b != nil {
			key := []byte(fromWire(f[2]))
			if b.Bucket(key) != nil {
				return b.DeleteBucket(key)
			}
		}
	case "SJ":
		if b := idxBucket(f[1]); b != nil {
			key := []byte(fromWire(f[2]))
			if b.Bucket(key) != nil {
				return nil
			}
			return b.Put(key, []byte("junk"))
		}
	case "XD":
		if eb := c09Bucket(tx, c09Root, c09Things, fromWire(f[2])); eb != nil {
			if path := []byte(c09ChildPath[f[1]]); eb.Bucket(path) != nil {
				return eb.DeleteBucket(path)
			}
		}
	case "XC":
		if eb := c09Bucket(tx, c09Root, c09Things, fromWire(f[2])); eb != nil {
			_, _ = eb.CreateBucketIfNotExists([]byte(c09ChildPath[f[1]]))
		}
	case "EF":
		if eb := c09EntityBucket(tx, f[1], fromWire(f[2])); eb != nil {
			if f[4] == "~" {
				return eb.Put([]byte(f[3]), []byte{byte(boltz.TypeNil)})
			}
			return eb.Put([]byte(f[3]), c09Typed(fromWire(f[4])))
		}
	case "EA":
		if eb := c09EntityBucket(tx, f[1], fromWire(f[2])); eb != nil {
			sb, err := eb.CreateBucketIfNotExists([]byte(f[3]))
			if err != nil {
				return nil
			}
			return sb.Put(c09Typed(fromWire(f[4])), nil)
		}
	case "ED":
		if eb := c09EntityBucket(tx, f[1], fromWire(f[2])); eb != nil {
			if sb := eb.Bucket([]byte(f[3])); sb != nil {
				return sb.Delete(c09Typed(fromWire(f[4])))
			}
		}
	}
	return nil
}

// ------------------------------------------------------------------------------------- dumps

// c09RawDump: every bucket and key/value of the database, in traversal order, hex encoded. Used
// for the byte-for-byte comparison around a check-only run.
type c09RawVisitor struct{ sb strings.Builder }

func (v *c09RawVisitor) VisitBucket(path string, key []byte, _ *bbolt.Bucket) bool {
	v.sb.WriteString("B ")
	v.sb.WriteString(path)
	v.sb.WriteString("/")
	v.sb.WriteString(hex.EncodeToString(key))
	v.sb.WriteString("\n")
	return true
}
func (v *c09RawVisitor) VisitKeyValue(path string, key, value []byte) bool {
	v.sb.WriteString("K ")
	v.sb.WriteString(path)
	v.sb.WriteString("/")
	v.sb.WriteString(hex.EncodeToString(key))
	v.sb.WriteString("=")
	v.sb.WriteString(hex.EncodeToString(value))
	v.sb.WriteString("\n")
	return true
}

func c09RawDump(tx *bbolt.Tx) string {
	v := &c09RawVisitor{}
	boltz.Traverse(tx, "", v)
	return v.sb.String()
}

func c09FirstDiff(a, b string) string {
	la, lb := strings.Split(a, "\n"), strings.Split(b, "\n")
	sa, sb := map[string]bool{}, map[string]bool{}
	for _, l := range la {
		sa[l] = true
	}
	for _, l := range lb {
		sb[l] = true
	}
	var diffs []string
	for _, l := range lb {
		if !sa[l] && l != "" {
			diffs = append(diffs, "+"+l)
		}
	}
	for _, l := range la {
		if !sb[l] && l != "" {
			diffs = append(diffs, "-"+l)
		}
	}
	sort.Strings(diffs)
	if len(diffs) == 0 {
		return "order"
	}
	return strings.ReplaceAll(diffs[0], " ", "_")
}

// c09StateDump: the canonical state the Lean model reads (space separated tokens):
//
//	E <store> <id> (<field> <v>)* (<set> <s>)*   v: ~ nil/absent, else wire string
//	                                              s: ~ bucket absent, else "=" + elements joined by ","
//	U <idx> <n> (<key> <id>)*
//	X <idx> <n> (<key> <entry>)*                  entry: "!" plain key, else "=" + ids joined by ","
//
// Everything is read through boltz.Traverse-compatible raw cursors, in bbolt key order.
func c09StateDump(tx *bbolt.Tx) string {
	var out []string
	setStr := func(b *bbolt.Bucket) string {
		if b == nil {
			return "~"
		}
		var el []string
		c := b.Cursor()
		for k, _ := c.First(); k != nil; k, _ = c.Next() {
			if len(k) > 0 && k[0] == byte(boltz.TypeString) {
				el = append(el, toWire(string(k[1:])))
			} else {
				el = append(el, "?"+hex.EncodeToString(k))
			}
		}
		return "=" + strings.Join(el, ",")
	}
	for _, store := range c09StoreOrder {
		sb := c09Bucket(tx, c09Root, c09EntType(store))
		if sb == nil {
			continue
		}
		childPath, isChild := c09ChildPath[store]
		c := sb.Cursor()
		for id, v := c.First(); id != nil; id, v = c.Next() {
			if v != nil {
				if !isChild {
					out = append(out, "J", store, toWire(string(id)))
				}
				continue
			}
			eb := sb.Bucket(id)
			if isChild {
				// a child store's record: the data bucket inside the thing's bucket, if the thing has one
				if eb = eb.Bucket([]byte(childPath)); eb == nil {
					continue
				}
			}
			out = append(out, "E", store, toWire(string(id)))
			for _, f := range c09Scalars[store] {
				raw := eb.Get([]byte(f))
				ft, val := boltz.GetTypeAndValue(raw)
				switch {
				case ft == boltz.TypeNil:
					out = append(out, f, "~")
				case ft == boltz.TypeString:
					out = append(out, f, toWire(string(val)))
				default:
					out = append(out, f, "?"+hex.EncodeToString(raw))
				}
			}
			for _, f := range c09Sets[store] {
				if eb.Get([]byte(f)) != nil {
					out = append(out, f, "?plain")
				} else {
					out = append(out, f, setStr(eb.Bucket([]byte(f))))
				}
			}
		}
	}
	for _, idx := range c09UniqueIdx {
		p := strings.SplitN(idx, ".", 2)
		b := c09Bucket(tx, c09Root, boltz.IndexesBucket, c09EntType(p[0]), p[1])
		var ent []string
		if b != nil {
			c := b.Cursor()
			for k, v := c.First(); k != nil; k, v = c.Next() {
				if v == nil {
					ent = append(ent, toWire(string(k)), "?bucket")
				} else {
					ent = append(ent, toWire(string(k)), toWire(string(v)))
				}
			}
		}
		out = append(out, "U", idx, itoa(len(ent)/2))
		out = append(out, ent...)
	}
	for _, idx := range c09SetIdx {
		p := strings.SplitN(idx, ".", 2)
		b := c09Bucket(tx, c09Root, boltz.IndexesBucket, c09EntType(p[0]), p[1])
		var ent []string
		if b != nil {
			c := b.Cursor()
			for k, v := c.First(); k != nil; k, v = c.Next() {
				if v != nil {
					ent = append(ent, toWire(string(k)), "!")
				} else {
					ent = append(ent, toWire(string(k)), setStr(b.Bucket(k)))
				}
			}
		}
		out = append(out, "X", idx, itoa(len(ent)/2))
		out = append(out, ent...)
	}
	return strings.Join(out, " ")
}

func itoa(n int) string {
	if n == 0 {
		return "0"
	}
	var b []byte
	for n > 0 {
		b = append([]byte{byte('0' + n%10)}, b...)
		n /= 10
	}
	return string(b)
}

var _ = bytes.Equal
