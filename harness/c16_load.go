package main

// C16, round 14 — entities whose STORED data the entity strategy cannot load.
//
// The strategies of the universe read the name with bucket.GetStringOrError("name"): FillEntity reports "non-nullable field
// name is null" through the bucket's error holder when the key is missing or holds a nil value (what an older version of
// the store with a nullable / not yet existing field leaves behind), and FindById / LoadEntity return that error.  The
// harness produces such buckets through the exported API: a raw write on the transaction's entity bucket
// (store.GetEntityBucket(tx, id).Delete / Put), for system and ordinary entities, with or without child data — and then
// issues every operation from every kind of context.
//
//	z:id:del          the `name` key is deleted
//	z:id:nil          the `name` key holds a TypeNil value
//	z:id:set:<name>   the `name` key holds that string (a raw repair; not generated for the wide strategies, whose derived
//	                  copies would disagree)
//
// The view of an entity FindById cannot load is read from the raw bucket: name `!del` / `!nil`, everything else as stored.

import (
	"bufio"
	"fmt"
	"io"
	"sort"
	"strings"

	"github.com/openziti/storage/boltz"
	"github.com/sirupsen/logrus"
	"go.etcd.io/bbolt"
)

func init() {
	// nothing but case output may reach stdout / stderr (the check reads both): a changed tree may log
	logrus.SetLevel(logrus.PanicLevel)
	logrus.SetOutput(io.Discard)
}

func (e *c16Env) rawName(tx *bbolt.Tx, f []string) string {
	bucket := e.store.GetEntityBucket(tx, []byte(fromWire(f[1])))
	if bucket == nil {
		return "!notFound"
	}
	var err error
	switch f[2] {
	case "del":
		err = bucket.Delete([]byte("name"))
	case "nil":
		err = bucket.Put([]byte("name"), []byte{byte(boltz.TypeNil)})
	case "set":
		err = bucket.Put([]byte("name"), boltz.PrependFieldType(boltz.TypeString, []byte(fromWire(f[3]))))
	default:
		panic("bad raw write " + strings.Join(f, ":"))
	}
	if err != nil {
		return "!other(" + strings.ReplaceAll(err.Error(), " ", "_") + ")"
	}
	return "ok"
}

// rawView: the view entry of an entity whose FindById returned an error
func (e *c16Env) rawView(tx *bbolt.Tx, id string, loadErr error) string {
	if c16Err(loadErr) != "!loadErr" {
		return "error(" + strings.ReplaceAll(loadErr.Error(), " ", "_") + ")"
	}
	bucket := e.store.GetEntityBucket(tx, []byte(id))
	if bucket == nil {
		return "error(no-bucket)"
	}
	name := "!?"
	switch v := bucket.Get([]byte("name")); {
	case v == nil:
		name = "!del"
	case len(v) == 1 && boltz.FieldType(v[0]) == boltz.TypeNil:
		name = "!nil"
	}
	ent := &c16Ent{}
	ent.LoadBaseValues(bucket)
	owner := bucket.GetStringWithDefault("owner", "")
	raw := "-"
	if v := bucket.Get([]byte(boltz.FieldIsSystemEntity)); v != nil {
		switch {
		case len(v) == 2 && boltz.FieldType(v[0]) == boltz.TypeBool && v[1] == 1:
			raw = "t"
		case len(v) == 2 && boltz.FieldType(v[0]) == boltz.TypeBool && v[1] == 0:
			raw = "f"
		default:
			raw = "?"
		}
	}
	level := "~"
	if e.kids != nil && e.kids.IsEntityPresent(tx, id) {
		level = toWire(e.kids.GetEntityBucket(tx, []byte(id)).GetStringWithDefault("level", ""))
	}
	peers := e.store.GetRelatedEntitiesIdList(tx, id, "peers")
	sort.Strings(peers)
	ps := "~"
	if len(peers) > 0 {
		var w []string
		for _, p := range peers {
			w = append(w, toWire(p))
		}
		ps = strings.Join(w, ",")
	}
	return "t/" + c16B(ent.IsSystemEntity()) + "/" + name + "/" + c16Tag(ent) + "/" + c16ShowTime(ent.CreatedAt) + "/" +
		c16ShowTime(ent.UpdatedAt) + "/" + toWire(owner) + "/" + level + "/" + ps + "/" + raw
}

func c16RawOp(r *rng, id, name string, wide bool) string {
	switch w := r.intn(5); {
	case w < 2:
		return "z:" + id + ":del"
	case w < 4 || wide:
		return "z:" + id + ":nil"
	}
	return "z:" + id + ":set:" + name
}

// a system / ordinary entity `a` (created through S or through the child store) and a second referrer `b` of the same
// owner; one of them is made unloadable by a raw write; then ONE operation — every operation of the universe that has to
// load the entity, from every kind of context — followed by direct attempts from an ordinary context, a read-back, and
// (every other case) the repair + the same attempts again
func c16Unloadable(out *bufio.Writer, kind string) {
	plain := strings.HasPrefix(kind, "HP")
	a, b := toWire("a"), toWire("b")
	o1 := toWire("o1")
	n0, n1, n2 := toWire("n0"), toWire("n1"), toWire("n2")
	l0, l1 := toWire("l0"), toWire("l1")
	pools := a + "," + b + "/" + o1
	vias := []string{"c", "C"}
	if plain {
		vias = []string{"c"}
	}
	rest := c16Rest("t", "1000", "2000", "t0")
	n := 0
	for _, via := range vias {
		ent := func(id, flag, name string) string {
			if via == "C" {
				return "C:s:" + id + ":" + flag + ":" + name + ":" + rest + ":" + o1 + ":" + l0
			}
			return "c:s:" + id + ":" + flag + ":" + name + ":" + rest + ":" + o1
		}
		for _, fa := range []string{"t", "f"} {
			for _, fb := range []string{"f", "t"} {
				if fb == "t" && (fa == "f" || via == "C") {
					continue
				}
				setup := "Sa!oc:o:" + o1 + ";" + ent(a, fa, n0) + ";" + ent(b, fb, n1) + ";l:" + a + ":" + o1
				for _, bad := range []string{a, b} {
					for _, how := range []string{"del", "nil"} {
						if (bad == b) == (how == "del") && fa == "f" {
							continue
						}
						for _, ctx := range c16CtxKinds {
							ops := []string{
								"d:" + ctx + ":" + bad,
								"u:" + ctx + ":" + bad + ":f:" + n2 + ":n:" + c16Rest("f", "3000", "z", "t1") + ":" + o1,
								"u:" + ctx + ":" + bad + ":f:" + n2 + ":tags:" + c16Rest("f", "3000", "z", "t1") + ":" + o1,
								"b:" + ctx + ":" + bad + ":n",
								"w:" + ctx + ":T", "w:" + ctx + ":n:" + n0, "w:" + ctx + ":o:" + o1, "w:" + ctx + ":s:t",
								"od:" + ctx + ":" + o1,
								"c:" + ctx + ":" + bad + ":t:" + n2 + ":" + rest + ":" + o1,
							}
							if !plain {
								ops = append(ops,
									"D:"+ctx+":"+bad,
									"U:"+ctx+":"+bad+":f:"+n2+":n:"+c16Rest("f", "3000", "z", "t1")+":"+o1+":"+l1,
									// a child-store create over the unloadable parent re-persists the parent part: the repair
									"C:"+ctx+":"+bad+":f:"+n2+":"+c16Rest("f", "3000", "z", "t1")+":"+o1+":"+l1,
									"C:"+ctx+":"+bad+":t:"+n2+":"+c16Rest("f", "3000", "z", "t1")+":"+o1+":"+l1)
							}
							for _, op := range ops {
								n++
								head := []string{"Oa", "Ok", "Sa", "Sk"}[n%4]
								probe := "Ok!r:" + bad + ";u:o:" + bad + ":f:" + n1 + ":n:" + c16Rest("f", "z", "z", "~") + ":-;d:o:" + bad + ";D:o:" + bad + ";w:o:n:" + n0 + ";r:" + a
								if plain {
									probe = "Ok!r:" + bad + ";u:o:" + bad + ":f:" + n1 + ":n:" + c16Rest("f", "z", "z", "~") + ":-;d:o:" + bad + ";w:o:n:" + n0 + ";r:" + a
								}
								line := kind + " " + pools + " " + setup + " Oa!z:" + bad + ":" + how + " " + head + "!" + op + " " + probe
								if n%2 == 0 {
									// the raw repair (not for the wide strategies: their derived copies belong to the old name), then again
									if !strings.HasSuffix(kind, "W") {
										line += " Oa!z:" + bad + ":set:" + n0 + " Ok!d:o:" + bad + ";r:" + bad
									} else {
										line += " Sa!d:o:" + bad + " Sa!w:o:T"
									}
								}
								fmt.Fprintln(out, line)
							}
						}
					}
				}
			}
		}
	}
}
